package c16

import (
	"bytes"
	"fmt"
	"math"
	"math/rand"
	"os"
	"runtime/debug"
	"sort"
	"strconv"
	"strings"

	"github.com/cespare/xxhash/v2"
	"github.com/lindb/common/pkg/fasttime"
	jump "github.com/lithammer/go-jump-consistent-hash"

	"github.com/lindb/lindb/constants"
	"github.com/lindb/lindb/pkg/timeutil"
	"github.com/lindb/lindb/replica"
	"github.com/lindb/lindb/series/metric"

	"github.com/lindb/lindb/zzverif/internal/core"
)

type area struct{}

func init() { core.Register(area{}) }

func (area) Name() string { return "ingest" }

// Stable keys of the recorded findings (known_findings.json).
const (
	keyDupProto          = "dup-key-survivor-depends-on-tag-order:proto"
	keyDupFlat           = "dup-key-survivor-depends-on-tag-order:flat"
	keyDupInflux         = "dup-key-survivor-depends-on-tag-order:influx"
	keyStaleMark         = "pooled-batch-stale-out-of-range-mark-drops-in-window-row"
	keyFlatNs            = "flat-row-without-namespace-ignores-request-namespace"
	keyInfluxInf         = "influx-inf-spelled-field-dropped-rest-of-row-stored"
	keyInfluxMaxTags     = "influx-ignores-max-tags-per-metric"
	keyInfluxSuffixPanic = "influx-field-value-of-a-lone-int-suffix-panics-the-request"
)

func (area) Run(c *core.Ctx) error {
	for i := 0; i < c.N; i++ {
		if !c.Want(i) {
			continue
		}
		c.Begin(i)
		r := c.Rng(i)
		func() {
			defer func() {
				if p := recover(); p != nil {
					if os.Getenv("VERIF_C16_DEBUG") != "" {
						fmt.Fprintf(os.Stderr, "%s\n", debug.Stack())
					}
					c.Fail("panic", fmt.Sprintf("case %d panicked: %v", i, p))
				}
			}()
			switch {
			case i == 0:
				witnessDupKey(c)
			case i == 1:
				witnessStaleMark(c)
			case i == 2:
				witnessFlatNamespace(c)
				witnessInfluxInf(c)
				witnessInfluxMaxTags(c)
				witnessInfluxSuffixPanic(c)
				witnessNoMidnight(c)
			case i%4 == 0:
				caseBatch(c, r)
			case i%8 == 3:
				caseEvict(c, r)
			case i%8 == 5:
				caseFlatStream(c, r)
			case i%16 == 9:
				caseInfluxFields(c, r)
			case i%16 == 1:
				casePooledHistory(c, r)
			case i%16 == 14:
				caseProtoHistory(c, r)
			case i%16 == 6:
				caseInfluxStream(c, r)
			case i%32 == 26:
				caseDSTFamilies(c, r)
			case i%8 == 7:
				caseSingle(c, r, 120) // malformed stream
			default:
				caseSingle(c, r, 8)
			}
		}()
	}
	return nil
}

// ---------------------------------------------------------------- configuration

func genCfg(r *rand.Rand) *cfg {
	c := &cfg{lim: limits{isDefault: true, maxName: 256, maxField: 128, maxTagKey: 128, maxTagVal: 1024, maxTags: 32, maxFields: 256}}
	if r.Intn(3) == 0 {
		// a few limits tightened (or disabled with 0), the others at their defaults
		ch := func(def int, small ...int) int {
			if r.Intn(3) == 0 {
				return small[r.Intn(len(small))]
			}
			return def
		}
		c.lim = limits{maxName: ch(256, 0, 8, 16), maxField: ch(128, 0, 12, 20), maxTagKey: ch(128, 0, 4, 8),
			maxTagVal: ch(1024, 0, 7, 40), maxTags: ch(32, 0, 3, 6, 13), maxFields: ch(256, 0, 1, 2)}
	}
	if r.Intn(5) == 0 {
		c.reqNs = []string{"req-ns", "r|q", "要求"}[r.Intn(3)]
	}
	if r.Intn(4) == 0 {
		for j := 1 + r.Intn(2); j > 0; j-- {
			c.enriched = append(c.enriched, ltag{pick(r, keyPool), pick(r, valPool)})
		}
	}
	return c
}

func allTags(c *cfg, m *lmetric) ([]ltag, bool) {
	var ts []ltag
	for _, t := range m.tags {
		if t == nil {
			return nil, false
		}
		ts = append(ts, *t)
	}
	return append(ts, c.enriched...), true
}

// sortSafe: the stored tags do not depend on what sort.Sort does with equal keys — either the
// slice is short enough for insertion sort (stable) or equal keys carry equal values.
func sortSafe(c *cfg, m *lmetric) bool {
	ts, ok := allTags(c, m)
	if !ok {
		return true // rejected before the sort
	}
	return len(ts) <= 12 || consistent(ts)
}

// ---------------------------------------------------------------- single metric

func sanitizeName(s string) string { return strings.ReplaceAll(s, "|", "_") }

func sanitizeField(s string) string {
	switch {
	case strings.HasPrefix(s, "Histogram"):
		return "_" + s
	case strings.HasPrefix(s, "__bucket_"):
		return s[1:]
	}
	return s
}

// checkCanonical is the impl-side oracle for one accepted metric: the C16 statement, first half.
func checkCanonical(c *core.Ctx, what string, cf *cfg, m *lmetric, o *obs, t0, t1 int64) {
	sent, _ := allTags(cf, m)
	for i := 1; i < len(o.tags); i++ {
		if !(o.tags[i-1].k < o.tags[i].k) {
			c.Fail("tags-not-strictly-sorted", fmt.Sprintf("%s: stored tag keys %q, %q not strictly increasing", what, o.tags[i-1].k, o.tags[i].k))
		}
	}
	for _, t := range o.tags {
		found := false
		for _, s := range sent {
			if s == t {
				found = true
			}
		}
		if !found {
			c.Fail("stored-tag-not-sent", fmt.Sprintf("%s: stored tag %s=%s was not sent", what, t.k, t.v))
		}
	}
	for _, s := range sent {
		found := false
		for _, t := range o.tags {
			if t.k == s.k {
				found = true
			}
		}
		if !found {
			c.Fail("sent-key-missing", fmt.Sprintf("%s: sent tag key %q not stored", what, s.k))
		}
	}
	if o.name != sanitizeName(m.name) {
		c.Fail("name-changed", fmt.Sprintf("%s: name %q stored as %q", what, m.name, o.name))
	}
	if what != "flat" {
		wantNs := m.ns
		if cf.reqNs != "" {
			wantNs = cf.reqNs
		}
		if o.rawNs != sanitizeName(wantNs) {
			c.Fail("namespace-changed", fmt.Sprintf("%s: namespace %q stored as %q", what, wantNs, o.rawNs))
		}
	}
	if m.ts != 0 && o.ts != m.ts {
		c.Fail("timestamp-changed", fmt.Sprintf("%s: timestamp %d stored as %d", what, m.ts, o.ts))
	}
	if m.ts == 0 && (o.ts < t0-2000 || o.ts > t1+2000) {
		c.Fail("timestamp-zero-not-now", fmt.Sprintf("%s: zero timestamp stored as %d, clock %d..%d", what, o.ts, t0, t1))
	}
	if len(o.fields) != len(m.fields) {
		c.Fail("field-count-changed", fmt.Sprintf("%s: %d fields sent, %d stored", what, len(m.fields), len(o.fields)))
	} else {
		for i, f := range m.fields {
			if f == nil {
				continue
			}
			want := fmt.Sprintf("%s:%d:%s", hx(sanitizeField(f.name)), f.typ, f.val)
			if f.typ >= 1 && f.typ <= 5 && o.fshow[i] != want {
				c.Fail("field-changed", fmt.Sprintf("%s: field %d sent %s stored %s", what, i, want, o.fshow[i]))
			}
		}
	}
	wantCf := "-"
	if m.cf != nil {
		wantCf = fmt.Sprintf("%s:%s:%s:%s:%s:%s", m.cf.min, m.cf.max, m.cf.sum, m.cf.count, encFList(m.cf.values), encFList(m.cf.bounds))
	}
	if m.cf != nil && len(m.cf.values) != len(m.cf.bounds) {
		// only the flat decoder accepts such a histogram (it reads min(len) buckets); malformed input, not judged
		c.Branch("flat-accepts-length-mismatched-histogram")
	} else if o.cf != wantCf {
		c.Fail("compound-changed", fmt.Sprintf("%s: histogram sent %s stored %s", what, wantCf, o.cf))
	}
	if o.hash != hashOfTags(o.tags) {
		c.Fail("hash-not-of-stored-tags", fmt.Sprintf("%s: stored tags hash %d, xxhash of the stored tags %d", what, o.hash, hashOfTags(o.tags)))
	}
	checkIdentity(c, what, o)
}

// hashOfStoredName: the metric identity as a function of the STORED spelling — xxhash of the stored
// (raw) namespace followed by the stored name, which is what every format's builder computes
// (hashOfName of the protobuf converter, RowBuilder._xxHashOfName for flat rows and influx lines).
func hashOfStoredName(o *obs) uint64 { return xxhash.Sum64String(o.rawNs + o.name) }

// checkIdentity: the stored NameHash (the key of the memory database's metric and series stores) must
// be the hash of the namespace and name the row is stored under. A hash of any other spelling (e.g. the
// one that was sent, before '|' became '_') gives one stored metric two identities.
func checkIdentity(c *core.Ctx, what string, o *obs) {
	if strings.ContainsRune(o.name, '|') || strings.ContainsRune(o.rawNs, '|') {
		c.Fail("stored-name-not-sanitised", fmt.Sprintf("%s: stored namespace %q / name %q contain the storage delimiter '|'", what, o.rawNs, o.name))
	}
	if want := hashOfStoredName(o); o.nameHash != want {
		c.Fail("name-hash-not-hash-of-stored-name", fmt.Sprintf("%s: stored under namespace %q name %q with NameHash %d; the hash of the stored namespace+name is %d", what, o.rawNs, o.name, o.nameHash, want))
	}
}

// shardCounts: the shard counts every single-metric case asks the real shard iterator about.
var shardCounts = [3]int{3, 7, 64}

// realShards: the shard the real NewShardGroupIterator assigns to the only row of b, per shard count.
func realShards(b *metric.BrokerBatchRows) (out [3]int) {
	for k, n := range shardCounts {
		out[k] = func() (sh int) {
			defer func() {
				if recover() != nil {
					sh = -1
				}
			}()
			it := b.NewShardGroupIterator(int32(n))
			if !it.HasRowsForNextShard() {
				return -2
			}
			sh, _ = it.FamilyRowsForNextShard(timeutil.Interval(10 * 1000))
			return sh
		}()
	}
	return out
}

// checkSpellingInvariance: a metric whose name / namespace contains a character that sanitising
// rewrites ('|') and the same metric sent in the sanitised spelling are ONE stored metric: every
// format must store them as the same row with the same identity (namespace, name, NameHash, tags hash).
func checkSpellingInvariance(c *core.Ctx, cf *cfg, m *lmetric, o *obs, t0, t1 int64) {
	effNs := m.ns
	if cf.reqNs != "" {
		effNs = cf.reqNs
	}
	if !strings.ContainsRune(m.name, '|') && !strings.ContainsRune(effNs, '|') {
		return
	}
	c.Branch("identity/spelling-with-sanitised-character")
	m2 := m.clone()
	m2.name, m2.ns = sanitizeName(m.name), sanitizeName(m.ns)
	cf2 := *cf
	cf2.reqNs = sanitizeName(cf.reqNs)
	same := func(what string, a, b *obs) {
		if a.name != b.name || a.rawNs != b.rawNs || a.nameHash != b.nameHash || a.hash != b.hash || a.line(m.ts, t0, t1+5000) != b.line(m.ts, t0, t1+5000) {
			c.Fail("identity-depends-on-unsanitised-spelling", fmt.Sprintf("%s: namespace %q name %q is stored as {ns=%q name=%q nameHash=%d tagsHash=%d}, the sanitised spelling %q %q as {ns=%q name=%q nameHash=%d tagsHash=%d}: one stored metric, two identities",
				what, effNs, m.name, a.rawNs, a.name, a.nameHash, a.hash, sanitizeName(effNs), m2.name, b.rawNs, b.name, b.nameHash, b.hash))
		}
	}
	var row2 metric.BrokerRow
	if err, _, _ := convertProto(&cf2, m2, &row2); err != nil {
		c.Fail("identity-depends-on-unsanitised-spelling", fmt.Sprintf("proto: %q / %q accepted, its sanitised spelling rejected: %v", effNs, m.name, err))
	} else if o2, _ := observe(&row2); o2 != nil {
		same("proto", o, o2)
	}
	if m.flatExpressible() {
		fa, ea := flatAlone(cf, m)
		fb, eb := flatAlone(&cf2, m2)
		switch {
		case (ea == nil) != (eb == nil):
			c.Fail("identity-depends-on-unsanitised-spelling", fmt.Sprintf("flat: %q / %q and its sanitised spelling: one accepted, one rejected (%v / %v)", effNs, m.name, ea, eb))
		case ea == nil:
			same("flat", fa, fb)
		}
	}
}

func caseSingle(c *core.Ctx, r *rand.Rand, bad int) {
	cf := genCfg(r)
	ts := int64(1600000000000 + r.Int63n(200000000000))
	if r.Intn(10) == 0 {
		ts = 0
	}
	m := genMetric(r, bad, ts)
	// length-limit edges: sometimes stretch one string to exactly the limit or one beyond
	if !m.isNil && r.Intn(6) == 0 {
		l := cf.lim
		switch r.Intn(4) {
		case 0:
			if l.maxName > 0 {
				m.name = genStr(r, l.maxName+r.Intn(2))
			}
		case 1:
			if l.maxTagKey > 0 && len(m.tags) > 0 && m.tags[0] != nil {
				m.tags[0] = &ltag{genStr(r, l.maxTagKey+r.Intn(2)), m.tags[0].v}
			}
		case 2:
			if l.maxTagVal > 0 && len(m.tags) > 0 && m.tags[0] != nil {
				m.tags[0] = &ltag{m.tags[0].k, genStr(r, l.maxTagVal+r.Intn(2))}
			}
		case 3:
			if l.maxField > 0 && len(m.fields) > 0 && m.fields[0] != nil {
				m.fields[0].name = genStr(r, l.maxField+r.Intn(2))
			}
		}
	}
	if !m.isNil && r.Intn(12) == 0 && cf.lim.maxTags > 0 && cf.lim.maxTags <= 32 {
		// tag-count edge: exactly the limit or one more, distinct keys
		m.tags = nil
		for j := 0; j < cf.lim.maxTags+r.Intn(2)-len(cf.enriched); j++ {
			m.tags = append(m.tags, &ltag{fmt.Sprintf("k%02d", j), "v"})
		}
		r.Shuffle(len(m.tags), func(i, j int) { m.tags[i], m.tags[j] = m.tags[j], m.tags[i] })
	}
	// beyond 12 tags sort.Sort is pdqsort: keep the stored tags independent of the algorithm
	if !sortSafe(cf, m) {
		cf.enriched = nil
		if !sortSafe(cf, m) {
			m.tags = m.tags[:12]
		}
	}
	// a non-finite value in one field of a metric the line protocol can carry, next to valid fields
	if _, ok := m.toInflux(); ok && len(m.tags) > 0 && r.Intn(6) == 0 {
		if len(m.fields) == 1 || r.Intn(2) == 0 {
			m.fields = append(m.fields, &lfield{name: genStr(r, 2) + "_last", typ: 1, val: num(int64(r.Intn(100)))})
		}
		m.fields[r.Intn(len(m.fields))].val = fval{kind: 1 + r.Intn(3)}
	}
	c.Op(cf.enc(), "ok")
	var row metric.BrokerRow
	err, t0, t1 := convertProto(cf, m, &row)
	if err != nil {
		k := errKind(err)
		c.Op("conv "+m.enc(), "err "+k)
		c.Branch("reject/" + k)
		c.NonTrivial()
		checkRejectedWhole(c, cf, m)
		if k == "nan-field" || k == "inf-field" {
			checkInfluxNonFinite(c, r, cf, m)
		}
		checkRejectionAgreement(c, r, cf, m, k)
		return
	}
	o, mism := observe(&row)
	if o == nil {
		c.Op("conv "+m.enc(), "unreadable")
		c.Fail("row-unreadable", mism)
		return
	}
	if mism != "" {
		c.Fail("accessor-mismatch", mism)
	}
	c.Op("conv "+m.enc(), o.line(m.ts, t0, t1))
	c.NonTrivial()
	c.Branch("accept")
	c.Branch(fmt.Sprintf("tags/%d", bucket(len(o.tags))))
	if m.cf != nil {
		c.Branch("histogram")
	}
	checkCanonical(c, "proto", cf, m, o, t0, t1)

	sent, _ := allTags(cf, m)
	cons := consistent(sent)
	if !cons {
		c.Branch("conflicting-duplicate-key")
	} else if len(sent) != len(o.tags) {
		c.Branch("consistent-duplicate-key")
	}
	// order independence: the C16 statement for tags whose repeated keys carry one value
	if cons && len(m.tags) > 1 {
		for k := 0; k < 3; k++ {
			p := m.clone()
			r.Shuffle(len(p.tags), func(i, j int) { p.tags[i], p.tags[j] = p.tags[j], p.tags[i] })
			var row2 metric.BrokerRow
			err2, _, _ := convertProto(cf, p, &row2)
			if err2 != nil {
				c.Fail("permutation-rejected", fmt.Sprintf("accepted metric rejected after permuting its tags: %v", err2))
				continue
			}
			o2, _ := observe(&row2)
			if o2 == nil || o2.line(1, 0, 0) != o.line(1, 0, 0) && m.ts != 0 {
				c.Fail("tag-order-changes-row", fmt.Sprintf("distinct/consistent keys: permuted tags %s stored differently: %s vs %s", p.enc(), o2.line(1, 0, 0), o.line(1, 0, 0)))
			} else if o2.hash != o.hash || concatTags(o2.tags) != concatTags(o.tags) {
				c.Fail("tag-order-changes-hash", fmt.Sprintf("distinct/consistent keys: permuted tags %s give hash %d, tags %s", p.enc(), o2.hash, concatTags(o2.tags)))
			}
		}
		c.Branch("permutations-checked")
	}
	checkSpellingInvariance(c, cf, m, o, t0, t1)
	// the same metric through ingestion/proto.Parse (marshalled MetricList)
	o.shards = [3]int{-3, -3, -3}
	if b, err := parseProtoBytes(cf, []*lmetric{m}); err != nil || b.Len() != 1 {
		c.Fail("proto-parse-disagrees", fmt.Sprintf("converter accepted but proto.Parse gave err=%v", err))
	} else if o3, _ := observe(&b.Rows()[0]); o3 == nil || (cons || len(sent) <= 12) && o3.line(m.ts, t0, t1+1000) != o.line(m.ts, t0, t1) {
		c.Fail("proto-parse-disagrees", "proto.Parse stored a different row than the converter")
	} else {
		o.shards = realShards(b)
		for k, n := range shardCounts {
			if want := int(jump.Hash(o.hash, int32(n))); o.shards[k] != want {
				c.Fail("row-in-wrong-shard", fmt.Sprintf("proto: row with tags hash %d goes to shard %d of %d, jump hash says %d", o.hash, o.shards[k], n, want))
			}
		}
	}
	formatAgreement(c, cf, m, o, cons, t0)
}

func bucket(n int) int {
	switch {
	case n <= 1:
		return n
	case n <= 4:
		return 4
	case n <= 12:
		return 12
	}
	return 32
}

// checkRejectedWhole: a rejected metric leaves no row behind, alone or between accepted ones.
func checkRejectedWhole(c *core.Ctx, cf *cfg, m *lmetric) {
	good := &lmetric{name: "ok", ns: "ns", ts: 1700000000000, fields: []*lfield{{name: "f", typ: 1, val: num(1)}}}
	b := metric.NewBrokerBatchRows()
	cv, release := metric.NewBrokerRowProtoConverter([]byte(cf.reqNs), cf.realEnriched(), cf.lim.real())
	defer release(cv)
	n := 0
	for _, x := range []*lmetric{good, m, good} {
		x := x
		if err := b.TryAppend(func(row *metric.BrokerRow) error { return cv.ConvertTo(x.toProto(), row) }); err == nil {
			n++
		}
	}
	if len(cf.enriched) == 0 && cf.lim.isDefault {
		if n != 2 || b.Len() != 2 {
			c.Fail("rejected-metric-left-a-row", fmt.Sprintf("batch [good, rejected, good] has %d rows", b.Len()))
			return
		}
		for _, row := range b.Rows() {
			fm := row.Metric()
			if string(fm.Name()) != "ok" {
				c.Fail("rejected-metric-left-a-row", fmt.Sprintf("row named %q in the batch", fm.Name()))
			}
		}
	} else if b.Len() != n {
		c.Fail("rejected-metric-left-a-row", fmt.Sprintf("batch has %d rows, %d appends succeeded", b.Len(), n))
	}
}

// formatAgreement: the same logical metric as a raw flat row and as an influx line must be stored
// as the same row (where those formats can express it and their own validation accepts it).
func formatAgreement(c *core.Ctx, cf *cfg, m *lmetric, o *obs, cons bool, t0 int64) {
	nsDiffers := cf.reqNs != "" && m.ns != ""
	knownTypes := true
	for _, f := range m.fields {
		if f != nil && (f.typ < 1 || f.typ > 5) {
			knownTypes = false
		}
	}
	cmp := func(what string, o2 *obs) {
		if o2.name != o.name || o2.ts != o.ts && m.ts != 0 || knownTypes && strings.Join(o2.fshow, ",") != strings.Join(o.fshow, ",") || o2.cf != o.cf {
			c.Fail("format-disagreement:"+what, fmt.Sprintf("%s stores %s, proto stores %s", what, o2.line(1, 0, 0), o.line(1, 0, 0)))
			return
		}
		if what == "flat" && m.ns == "" && cf.reqNs != "" {
			c.Branch("flat-empty-row-namespace-under-request-namespace") // recorded finding keyFlatNs, replayed by its witness
		} else if !nsDiffers && o2.ns != o.ns {
			c.Fail("format-disagreement-ns:"+what, fmt.Sprintf("%s stores namespace %q, proto %q", what, o2.ns, o.ns))
		}
		if cons && (concatTags(o2.tags) != concatTags(o.tags) || o2.hash != o.hash) {
			c.Fail("format-disagreement-tags:"+what, fmt.Sprintf("%s stores tags %s hash %d, proto %s hash %d", what, concatTags(o2.tags), o2.hash, concatTags(o.tags), o.hash))
		}
		// the full stored identity: same stored namespace and name ⇒ same NameHash; same tags hash ⇒ same shard
		switch {
		case o2.rawNs != o.rawNs:
			c.Branch("format-identity/raw-namespace-differs") // namespace precedence / fall-back differences, judged above
		case o2.nameHash != o.nameHash:
			c.Fail("format-disagreement-identity:"+what, fmt.Sprintf("namespace %q name %q: %s stores NameHash %d, proto %d (hash of the stored spelling: %d)", o.rawNs, o.name, what, o2.nameHash, o.nameHash, hashOfStoredName(o)))
		default:
			c.Branch("format-identity/name-hash-compared")
		}
		if o2.hash == o.hash && o.shards[0] != -3 && o2.shards != o.shards {
			c.Fail("format-disagreement-shard:"+what, fmt.Sprintf("same tags hash %d: %s row goes to shards %v, proto row to %v (shard counts %v)", o.hash, what, o2.shards, o.shards, shardCounts))
		}
	}
	if m.flatExpressible() {
		b, err := parseFlat(cf, []*lmetric{m})
		switch {
		case err != nil || b.Len() != 1:
			c.Branch("flat-rejects-what-proto-accepts")
			if os.Getenv("VERIF_C16_DEBUG") != "" {
				fmt.Fprintf(os.Stderr, "flat rejects %s err=%v lim=%+v\n", m.enc(), err, cf.lim)
			}
		default:
			o2, mism := observe(&b.Rows()[0])
			if o2 == nil {
				c.Fail("row-unreadable", "flat: "+mism)
			} else {
				c.Branch("flat-agreement-checked")
				o2.shards = realShards(b)
				checkCanonical(c, "flat", cf, m, o2, t0, fasttime.UnixMilliseconds())
				cmp("flat", o2)
			}
		}
	}
	if line, ok := m.toInflux(); ok {
		ns := m.ns
		if cf.reqNs != "" {
			ns = cf.reqNs
		}
		b, err := parseInflux(cf, ns, []string{line})
		if strings.Contains(line, "\\") {
			c.Branch("influx-line-with-escapes")
		}
		if strings.Contains(line, "\\\\") {
			c.Branch("influx-line-with-backslash-run")
		}
		switch {
		case err != nil || b.Len() != 1:
			if os.Getenv("VERIF_C16_DEBUG") != "" {
				fmt.Fprintf(os.Stderr, "influx rejects %q err=%v lim=%+v\n", line, err, cf.lim)
			}
			if len(m.tags) == 0 && len(m.fields) > 1 {
				// recorded observation (outside C16): a line without tags and with ≥ 2 fields is rejected
				c.Branch("influx-rejects-tagless-multifield-line")
			} else {
				c.Fail("influx-valid-row-dropped", fmt.Sprintf("the protobuf path stores this metric, its line-protocol form %q is dropped (err=%v)", line, err))
			}
		default:
			o2, mism := observe(&b.Rows()[0])
			if o2 == nil {
				c.Fail("row-unreadable", "influx: "+mism)
			} else {
				c.Branch("influx-agreement-checked")
				o2.shards = realShards(b)
				nsDiffers = false
				// name / tags / fields against the logical metric …
				if o2.name != sanitizeName(m.name) || !sameTagSet(o2.tags, sent(cf, m)) && cons {
					c.Fail("influx-escape-row-differs", fmt.Sprintf("line %q is stored as name %q tags %s; sent name %q tags %s", line, o2.name, concatTags(o2.tags), m.name, concatTags(sent(cf, m))))
				}
				checkCanonical(c, "influx", cf, m, o2, t0, fasttime.UnixMilliseconds())
				// … and against the row of the protobuf path
				cmp("influx", o2)
			}
		}
	}
}

var nonFiniteSpellings = map[int][]string{
	1: {"NaN", "nan", "NAN"},
	2: {"Inf", "+Inf", "inf", "+inf", "INF", "Infinity", "+Infinity", "infinity", "+infinity", "INFINITY"},
	3: {"-Inf", "-inf", "-INF", "-Infinity", "-infinity"},
}

// checkInfluxNonFinite: the protobuf path rejected the metric because a field is NaN / ±Inf. The same
// metric as an influx line (the value in one of strconv.ParseFloat's spellings) is an invalid metric
// too: it must be rejected as a whole — no row, in particular not a row with the other fields only.
func checkInfluxNonFinite(c *core.Ctx, r *rand.Rand, cf *cfg, m *lmetric) {
	var used []string
	line, ok := m.toInfluxSp(func(v fval) string {
		sp := nonFiniteSpellings[v.kind][r.Intn(len(nonFiniteSpellings[v.kind]))]
		used = append(used, sp)
		return sp
	})
	if !ok || len(used) == 0 {
		return
	}
	ns := m.ns
	if cf.reqNs != "" {
		ns = cf.reqNs
	}
	b, _ := parseInflux(cf, ns, []string{line})
	c.Branch("influx-non-finite-field-line")
	if b == nil || b.Len() == 0 {
		return
	}
	fm := b.Rows()[0].Metric()
	stored := fm.SimpleFieldsLength()
	// the spellings ending in f/F are eaten by the boolean shortcut of parseField (recorded finding)
	onlyShortInf := true
	for _, sp := range used {
		if !strings.HasSuffix(strings.ToLower(sp), "inf") {
			onlyShortInf = false
		}
	}
	key := "influx-invalid-metric-partially-stored"
	if onlyShortInf {
		key = keyInfluxInf
	}
	c.Fail(key, fmt.Sprintf("line %q has a non-finite field (%s): the protobuf path rejects the metric, influx stores a row with %d of its %d fields", line, strings.Join(used, ","), stored, len(m.fields)))
}

// checkRejectionAgreement: a metric the protobuf path rejects is an invalid metric in every form: the
// raw flat row and the influx line (where those forms can carry it) must be rejected as a whole too.
// Not judged — the two validations differ by design of lindb/common's RowBuilder, recorded in the
// design note: a histogram with exactly two buckets (protobuf wants more than two, RowBuilder at
// least two) and a histogram whose values and bounds differ in length (the flat decoder reads the
// common prefix).
func checkRejectionAgreement(c *core.Ctx, r *rand.Rand, cf *cfg, m *lmetric, kind string) {
	tagKind := kind == "tag-key-too-long" || kind == "tag-value-too-long"
	if tagKind {
		// the flat and influx paths do not length-check the request's ENRICHED tags (protobuf does): observation, not judged
		for _, t := range cf.enriched {
			if cf.lim.maxTagKey > 0 && len(t.k) > cf.lim.maxTagKey || cf.lim.maxTagVal > 0 && len(t.v) > cf.lim.maxTagVal {
				c.Branch("reject-agreement/not-judged-enriched-tag-over-limit")
				return
			}
		}
	}
	if m.flatExpressible() {
		switch {
		case m.cf != nil && len(m.cf.values) != len(m.cf.bounds):
			c.Branch("reject-agreement/flat-not-judged-length-mismatched-histogram")
		case m.cf != nil && len(m.cf.values) == 2:
			c.Branch("reject-agreement/flat-not-judged-two-bucket-histogram")
		default:
			b, err := parseFlat(cf, []*lmetric{m})
			c.Branch("reject-agreement/flat-checked")
			if err == nil && b != nil && b.Len() > 0 {
				c.Fail("flat-accepts-what-proto-rejects:"+kind, fmt.Sprintf("the protobuf path rejects %s (%s) under limits %+v, the same metric as a flat row is stored", m.enc(), kind, cf.lim))
			}
		}
	}
	line, ok := m.toInfluxSp(func(v fval) string {
		return nonFiniteSpellings[v.kind][r.Intn(len(nonFiniteSpellings[v.kind]))]
	})
	if !ok || kind == "nan-field" || kind == "inf-field" { // non-finite fields: checkInfluxNonFinite
		return
	}
	if tagKind || kind == "too-many-tags" {
		// the line parser collects tags into a map (recorded duplicate-key finding): with a repeated key it
		// sees fewer / other tags than the protobuf path validates
		seen := map[string]bool{}
		for _, t := range m.tags {
			if seen[t.k] {
				c.Branch("reject-agreement/influx-not-judged-repeated-key")
				return
			}
			seen[t.k] = true
		}
	}
	ns := m.ns
	if cf.reqNs != "" {
		ns = cf.reqNs
	}
	b, _ := parseInflux(cf, ns, []string{line})
	c.Branch("reject-agreement/influx-checked")
	if b != nil && b.Len() > 0 {
		key := "influx-accepts-what-proto-rejects:" + kind
		if kind == "too-many-tags" {
			key = keyInfluxMaxTags
		}
		c.Fail(key, fmt.Sprintf("the protobuf path rejects the metric (%s) under limits %+v with %d enriched tags, its line-protocol form %q is stored", kind, cf.lim, len(cf.enriched), line))
	}
}

// witnessInfluxSuffixPanic: a request of two lines, the second has a field whose value is the lone
// integer suffix `i`.
func witnessInfluxSuffixPanic(c *core.Ctx) {
	cf := &cfg{lim: limits{isDefault: true}}
	lines := []string{"cpu,h=1 ok_last=1 1700000000000", "cpu,h=2 a_last=i 1700000000000"}
	rows, panicked := -1, false
	func() {
		defer func() {
			if recover() != nil {
				panicked = true
			}
		}()
		if b, _ := parseInflux(cf, "ns", lines); b != nil {
			rows = b.Len()
		}
	}()
	if panicked || rows != 1 {
		c.Fail(keyInfluxSuffixPanic, fmt.Sprintf("request %q: influx.Parse panicked=%v rows=%d — the invalid second line takes the valid first line of the batch down with it", lines, panicked, rows))
	}
}

// witnessInfluxMaxTags: three distinct tags under max-tags-per-metric = 2.
func witnessInfluxMaxTags(c *core.Ctx) {
	cf := &cfg{lim: limits{maxName: 256, maxField: 128, maxTagKey: 128, maxTagVal: 1024, maxTags: 2, maxFields: 256}}
	m := &lmetric{name: "cpu", ns: "ns", ts: 1700000000000, tags: []*ltag{{"a", "1"}, {"b", "2"}, {"c", "3"}}, fields: []*lfield{{name: "f_last", typ: 1, val: num(1)}}}
	c.Op(cf.enc(), "ok")
	var row metric.BrokerRow
	err, _, _ := convertProto(cf, m, &row)
	k := "accepted"
	if err != nil {
		k = "err " + errKind(err)
	}
	c.Op("conv "+m.enc(), k)
	if fb, err := parseFlat(cf, []*lmetric{m}); err == nil && fb != nil && fb.Len() > 0 {
		c.Fail("flat-accepts-what-proto-rejects:too-many-tags", "flat stores a row with 3 tags under max-tags-per-metric = 2")
	}
	line, _ := m.toInflux()
	if b, _ := parseInflux(cf, "ns", []string{line}); b != nil && b.Len() > 0 {
		c.Fail(keyInfluxMaxTags, fmt.Sprintf("max-tags-per-metric = 2: the protobuf and flat paths reject the metric with tags a,b,c (%s), its line-protocol form %q is stored", k, line))
	}
}

func sent(cf *cfg, m *lmetric) []ltag {
	ts, _ := allTags(cf, m)
	return ts
}

// sameTagSet: the stored tags are exactly the distinct sent pairs (for consistent tag lists).
func sameTagSet(stored, sentTags []ltag) bool {
	a := map[ltag]bool{}
	for _, t := range stored {
		a[t] = true
	}
	b := map[ltag]bool{}
	for _, t := range sentTags {
		b[t] = true
	}
	if len(a) != len(b) || len(a) != len(stored) {
		return false
	}
	for t := range a {
		if !b[t] {
			return false
		}
	}
	return true
}

// ---------------------------------------------------------------- witnesses (deterministic)

func witnessDupKey(c *core.Ctx) {
	cf := &cfg{lim: limits{isDefault: true}}
	mk := func(v1, v2 string) *lmetric {
		return &lmetric{name: "cpu", ns: "ns", ts: 1700000000000, tags: []*ltag{{"a", v1}, {"a", v2}}, fields: []*lfield{{name: "f_last", typ: 1, val: num(1)}}}
	}
	a, b := mk("1", "2"), mk("2", "1")
	c.Op(cf.enc(), "ok")
	var ra, rb metric.BrokerRow
	ea, _, _ := convertProto(cf, a, &ra)
	eb, _, _ := convertProto(cf, b, &rb)
	if ea != nil || eb != nil {
		c.Fail("witness-rejected", fmt.Sprintf("dup-key witness rejected: %v %v", ea, eb))
		return
	}
	oa, _ := observe(&ra)
	ob, _ := observe(&rb)
	c.Op("conv "+a.enc(), oa.line(1, 0, 0))
	c.Op("conv "+b.enc(), ob.line(1, 0, 0))
	c.NonTrivial()
	if oa.hash != ob.hash {
		c.Fail(keyDupProto, fmt.Sprintf("protobuf: tags [a=1,a=2] stored as %s (hash %d), [a=2,a=1] stored as %s (hash %d): identity depends on tag order",
			concatTags(oa.tags), oa.hash, concatTags(ob.tags), ob.hash))
	}
	if fa, err := parseFlat(cf, []*lmetric{a}); err == nil && fa.Len() == 1 {
		if fb, err := parseFlat(cf, []*lmetric{b}); err == nil && fb.Len() == 1 {
			xa, _ := observe(&fa.Rows()[0])
			xb, _ := observe(&fb.Rows()[0])
			if xa.hash != xb.hash {
				c.Fail(keyDupFlat, fmt.Sprintf("flat: tags [a=1,a=2] stored as %s, [a=2,a=1] stored as %s", concatTags(xa.tags), concatTags(xb.tags)))
			}
		}
	}
	la, _ := a.toInflux()
	lb, _ := b.toInflux()
	if ia, err := parseInflux(cf, "ns", []string{la}); err == nil && ia.Len() == 1 {
		if ib, err := parseInflux(cf, "ns", []string{lb}); err == nil && ib.Len() == 1 {
			xa, _ := observe(&ia.Rows()[0])
			xb, _ := observe(&ib.Rows()[0])
			if xa.hash != xb.hash {
				c.Fail(keyDupInflux, fmt.Sprintf("influx: %q stored as %s, %q stored as %s", la, concatTags(xa.tags), lb, concatTags(xb.tags)))
			}
		}
	}
}

// witnessFlatNamespace: a flat row that carries no namespace, sent in a request that names one.
func witnessFlatNamespace(c *core.Ctx) {
	cf := &cfg{lim: limits{isDefault: true}, reqNs: "req-ns"}
	m := &lmetric{name: "cpu", ns: "", ts: 1700000000000, tags: []*ltag{{"host", "h1"}}, fields: []*lfield{{name: "f_last", typ: 1, val: num(1)}}}
	c.Op(cf.enc(), "ok")
	var row metric.BrokerRow
	err, _, _ := convertProto(cf, m, &row)
	if err != nil {
		c.Fail("witness-rejected", err.Error())
		return
	}
	o, _ := observe(&row)
	c.Op("conv "+m.enc(), o.line(1, 0, 0))
	c.NonTrivial()
	b, err := parseFlat(cf, []*lmetric{m})
	if err != nil || b.Len() != 1 {
		c.Fail("witness-rejected", fmt.Sprintf("flat witness rejected: %v", err))
		return
	}
	of, _ := observe(&b.Rows()[0])
	li, _ := m.toInflux()
	oi := of
	if bi, err := parseInflux(cf, "req-ns", []string{li}); err == nil && bi.Len() == 1 {
		oi, _ = observe(&bi.Rows()[0])
	}
	if of.ns != "req-ns" {
		c.Fail(keyFlatNs, fmt.Sprintf("request namespace \"req-ns\", row without namespace: protobuf stores %q, influx stores %q, flat stores %q (the fall-back to the request namespace in BrokerRowFlatDecoder.rebuild is unreachable: readOnlyRow.NameSpace() never returns an empty slice)", o.ns, oi.ns, of.ns))
	}
}

// witnessInfluxInf: `a_last=Inf` next to a valid field.
func witnessInfluxInf(c *core.Ctx) {
	cf := &cfg{lim: limits{isDefault: true}}
	m := &lmetric{name: "cpu", ns: "ns", ts: 1700000000000, tags: []*ltag{{"h", "1"}},
		fields: []*lfield{{name: "a_last", typ: 1, val: fval{kind: 2}}, {name: "b_last", typ: 1, val: num(2)}}}
	var row metric.BrokerRow
	err, _, _ := convertProto(cf, m, &row)
	k := "accepted"
	if err != nil {
		k = "err " + errKind(err)
	}
	c.Op("conv "+m.enc(), k)
	for _, sp := range []string{"Inf", "Infinity"} {
		line, _ := m.toInfluxSp(func(fval) string { return sp })
		b, _ := parseInflux(cf, "ns", []string{line})
		if b != nil && b.Len() > 0 {
			fm := b.Rows()[0].Metric()
			key := keyInfluxInf
			if sp != "Inf" {
				key = "influx-invalid-metric-partially-stored"
			}
			c.Fail(key, fmt.Sprintf("line %q: the protobuf path rejects the metric (%s), influx stores a row with %d of its 2 fields", line, k, fm.SimpleFieldsLength()))
		}
	}
}

func simpleMetric(id int, ts int64) *lmetric {
	return &lmetric{name: "r" + strconv.Itoa(id), ns: "ns", ts: ts, tags: []*ltag{{"id", strconv.Itoa(id)}}, fields: []*lfield{{name: "f", typ: 1, val: num(int64(id))}}}
}

// pooledBatch returns a batch object taken from the pool whose first len(marks) slots carry the
// given IsOutOfTimeRange marks (set by a previous, released request), or nil if the pool did not
// hand the same object back.
func pooledBatch(marks []bool) *metric.BrokerBatchRows {
	cf := &cfg{lim: limits{isDefault: true}}
	now := fasttime.UnixMilliseconds()
	b1 := metric.NewBrokerBatchRows()
	for i, mk := range marks {
		ts := now
		if mk {
			ts = now - 10*3600*1000
		}
		m := simpleMetric(i, ts)
		_ = b1.TryAppend(func(row *metric.BrokerRow) error { e, _, _ := convertProto(cf, m, row); return e })
	}
	b1.EvictOutOfTimeRange(3600*1000, 3600*1000)
	b1.Release() // what channelManager.Write does when the request is done
	b2 := metric.NewBrokerBatchRows()
	if b2 != b1 {
		return nil
	}
	return b2
}

func witnessStaleMark(c *core.Ctx) {
	cf := &cfg{lim: limits{isDefault: true}}
	var b *metric.BrokerBatchRows
	for try := 0; try < 20 && b == nil; try++ {
		b = pooledBatch([]bool{true})
	}
	if b == nil {
		c.Note("sync.Pool never returned the released batch; stale-mark witness not replayed")
		return
	}
	m := simpleMetric(0, fasttime.UnixMilliseconds())
	_ = b.TryAppend(func(row *metric.BrokerRow) error { e, _, _ := convertProto(cf, m, row); return e })
	evicted := b.EvictOutOfTimeRange(3600*1000, 3600*1000)
	row := &b.Rows()[0]
	mark, written := "0", "0"
	if row.IsOutOfTimeRange {
		mark = "1"
	}
	if row.Size() == 0 {
		written = "-"
	}
	c.Op("evict 3600000 3600000 1 | 0", fmt.Sprintf("evicted=%d marks=%s written=%s", evicted, mark, written))
	c.NonTrivial()
	if row.Size() == 0 || row.IsOutOfTimeRange {
		c.Fail(keyStaleMark, fmt.Sprintf("a row with timestamp = now appended into a pooled batch slot that held an evicted row: EvictOutOfTimeRange(1h,1h) reports %d evicted, yet IsOutOfTimeRange=%v and WriteTo writes %d bytes", evicted, row.IsOutOfTimeRange, row.Size()))
	}
}

// ---------------------------------------------------------------- write window

func caseEvict(c *core.Ctx, r *rand.Rand) {
	cf := &cfg{lim: limits{isDefault: true}}
	behind := []int64{0, 1000, 60000, 3600000}[r.Intn(4)]
	ahead := []int64{0, 1000, 60000, 3600000}[r.Intn(4)]
	n := 1 + r.Intn(12)
	offs := make([]int64, n)
	for i := range offs {
		switch r.Intn(6) {
		case 0:
			offs[i] = -behind + int64(r.Intn(3)-1) // around the behind edge
		case 1:
			offs[i] = ahead + int64(r.Intn(3)-1) // around the ahead edge
		case 2:
			offs[i] = int64(r.Intn(2001) - 1000)
		default:
			offs[i] = int64(r.Intn(8000001) - 4000000)
		}
	}
	var (
		b       *metric.BrokerBatchRows
		evicted int
		now     int64
		stable  bool
	)
	for try := 0; try < 100 && !stable; try++ {
		now = fasttime.UnixMilliseconds()
		b = metric.NewBrokerBatchRows() // never released: a fresh object every time
		for i, off := range offs {
			m := simpleMetric(i, now+off)
			if err := b.TryAppend(func(row *metric.BrokerRow) error { e, _, _ := convertProto(cf, m, row); return e }); err != nil {
				panic(err)
			}
		}
		evicted = b.EvictOutOfTimeRange(behind, ahead)
		stable = fasttime.UnixMilliseconds() == now
	}
	if !stable {
		c.Note("clock never stable; evict case skipped")
		return
	}
	var sb, ids strings.Builder
	var wr []string
	nOut := 0
	for i := range b.Rows() {
		row := &b.Rows()[i]
		out := (behind > 0 && offs[i] < -behind) || (ahead > 0 && offs[i] > ahead)
		if out {
			nOut++
		}
		if row.IsOutOfTimeRange {
			sb.WriteByte('1')
		} else {
			sb.WriteByte('0')
		}
		if row.Size() > 0 {
			wr = append(wr, strconv.Itoa(i))
		}
		// oracle: dropped iff outside the window
		if (row.Size() == 0) != out {
			c.Fail("evict-not-exact", fmt.Sprintf("window behind=%d ahead=%d: row at now%+d has Size()=%d (outside=%v)", behind, ahead, offs[i], row.Size(), out))
		}
		ids.WriteString(" " + strconv.FormatInt(offs[i], 10))
	}
	if evicted != nOut {
		c.Fail("evict-count", fmt.Sprintf("EvictOutOfTimeRange returned %d, %d rows are outside the window", evicted, nOut))
	}
	w := "-"
	if len(wr) > 0 {
		w = strings.Join(wr, ",")
	}
	c.Op(fmt.Sprintf("evict %d %d - |%s", behind, ahead, ids.String()), fmt.Sprintf("evicted=%d marks=%s written=%s", evicted, sb.String(), w))
	c.NonTrivial()
	c.Branch(fmt.Sprintf("evict/outside=%d", bucket(nOut)))

	// the same window through databaseChannel.Write: every in-window row is written once, to the
	// shard/family it belongs to; nothing is written for the others.
	groups, err := replica.VerifC16Write([]timeutil.Interval{timeutil.Interval(10000)}, 4, []int{0, 1, 2, 3}, behind, ahead, b)
	if err != nil {
		c.Fail("channel-write-error", err.Error())
		return
	}
	seen := map[string]int{}
	for _, g := range groups {
		for _, row := range g.Rows {
			if row.Written > 0 {
				seen[row.Name]++
			}
		}
	}
	// the window is re-evaluated by Write with a possibly later clock; rows within 50 ms of an edge are not judged
	for i, off := range offs {
		near := func(e int64) bool { d := off - e; return d > -50 && d < 50 }
		if (behind > 0 && near(-behind)) || (ahead > 0 && near(ahead)) {
			continue
		}
		out := (behind > 0 && off < -behind) || (ahead > 0 && off > ahead)
		got := seen["r"+strconv.Itoa(i)]
		if out && got != 0 {
			c.Fail("channel-write-outside-written", fmt.Sprintf("row at now%+d outside window (%d,%d) was written %d times", off, behind, ahead, got))
		}
		if !out && got != 1 {
			c.Fail("channel-write-inside-dropped", fmt.Sprintf("row at now%+d inside window (%d,%d) was written %d times", off, behind, ahead, got))
		}
	}
}

// ---------------------------------------------------------------- batches

var intervalKinds = []struct {
	name      string
	intervals []timeutil.Interval
}{
	{"day", []timeutil.Interval{10 * 1000}},
	{"day", []timeutil.Interval{5 * 60 * 1000, 10 * 1000, 3600 * 1000}}, // the smallest one decides
	{"month", []timeutil.Interval{5 * 60 * 1000}},
	{"month", []timeutil.Interval{3600 * 1000, 10 * 60 * 1000}},
	{"year", []timeutil.Interval{3600 * 1000}},
}

func genTimestamps(r *rand.Rand, kind string, n int) []int64 {
	base := int64(1600000000000 + r.Int63n(150000000000))
	unit := int64(3600000)
	switch kind {
	case "month":
		unit = 86400000
	case "year":
		unit = 31 * 86400000
	}
	edge := base - base%unit
	ts := make([]int64, n)
	mode := r.Intn(4)
	for i := range ts {
		switch mode {
		case 0: // all inside one family
			ts[i] = edge + r.Int63n(3600000)
		case 1: // around a boundary
			ts[i] = edge + int64(r.Intn(5)-2)
		case 2: // a few neighbouring families
			ts[i] = edge + int64(r.Intn(4))*unit + r.Int63n(unit)
		default: // anywhere, duplicates likely
			ts[i] = base + int64(r.Intn(6))*unit*int64(r.Intn(3)) + int64(r.Intn(3))
		}
	}
	return ts
}

func familyRange(iv timeutil.Interval, ts int64) (famTime int64, rg timeutil.TimeRange) {
	calc := iv.Calculator()
	seg := calc.CalcSegmentTime(ts)
	fam := calc.CalcFamily(ts, seg)
	start := calc.CalcFamilyStartTime(seg, fam)
	return calc.CalcFamilyTime(ts), timeutil.TimeRange{Start: start, End: calc.CalcFamilyEndTime(start)}
}

type placed struct {
	shard   int
	famTime int64
}

func caseBatch(c *core.Ctx, r *rand.Rand) {
	cf := genCfg(r)
	cf.lim = limits{isDefault: true, maxName: 256, maxField: 128, maxTagKey: 128, maxTagVal: 1024, maxTags: 32, maxFields: 256}
	ik := intervalKinds[r.Intn(len(intervalKinds))]
	n := 1 + r.Intn(14)
	if r.Intn(6) == 0 {
		n = 15 + r.Intn(30) // beyond insertion sort: pdqsort on the batch
	}
	numShards := []int{1, 2, 3, 4, 7, 16, 64}[r.Intn(7)]
	tss := genTimestamps(r, ik.name, n)
	c.Op(cf.enc(), "ok")
	c.Op("newbatch -", "ok")
	cv, release := metric.NewBrokerRowProtoConverter([]byte(cf.reqNs), cf.realEnriched(), cf.lim.real())
	defer release(cv)
	var b *metric.BrokerBatchRows
	pooledMarked := false
	if r.Intn(3) == 0 {
		// the batch object of an earlier, LARGER request comes back from the pool (channelManager.Write
		// releases it): its slots beyond this request's rows still hold the earlier request's rows
		old := metric.NewBrokerBatchRows()
		for k := 0; k < n+1+r.Intn(6); k++ {
			sm := simpleMetric(k, tss[k%len(tss)])
			sm.name = "stale" + strconv.Itoa(k)
			_ = old.TryAppend(func(row *metric.BrokerRow) error { return cv.ConvertTo(sm.toProto(), row) })
		}
		sit := old.NewShardGroupIterator(int32(numShards))
		for sit.HasRowsForNextShard() {
		}
		if r.Intn(2) == 0 {
			old.EvictOutOfTimeRange(1, 1) // every row of the earlier request ends up marked
			pooledMarked = true
		}
		old.Release()
		b = metric.NewBrokerBatchRows()
		if b == old {
			c.Branch("route/pooled-batch-of-larger-request")
		}
	} else {
		b = metric.NewBrokerBatchRows() // never released
	}
	type rowInfo struct {
		m    *lmetric
		hash uint64
		ts   int64
	}
	var rows []rowInfo
	var ms []*lmetric
	sharedTags := genMetric(r, 0, 1).tags
	for i := 0; i < n; i++ {
		bad := 0
		if r.Intn(5) == 0 {
			bad = 80
		}
		m := genMetric(r, bad, tss[i])
		if r.Intn(3) == 0 {
			m.tags = append([]*ltag(nil), sharedTags...) // same series as another row
			r.Shuffle(len(m.tags), func(x, y int) { m.tags[x], m.tags[y] = m.tags[y], m.tags[x] })
		}
		if !sortSafe(cf, m) {
			m.tags = m.tags[:8]
			if !sortSafe(cf, m) {
				m.tags = nil
			}
		}
		m.name = "r" + strconv.Itoa(len(rows))
		before := b.Len()
		var t0, t1 int64
		err := b.TryAppend(func(row *metric.BrokerRow) error {
			t0 = fasttime.UnixMilliseconds()
			e := cv.ConvertTo(m.toProto(), row)
			t1 = fasttime.UnixMilliseconds()
			return e
		})
		ms = append(ms, m)
		if err != nil {
			c.Op("add "+m.enc(), "err "+errKind(err))
			c.Branch("batch-reject/" + errKind(err))
			if b.Len() != before {
				c.Fail("rejected-metric-left-a-row", fmt.Sprintf("batch length %d → %d after a rejected metric", before, b.Len()))
			}
			continue
		}
		o, mism := observe(&b.Rows()[b.Len()-1])
		if o == nil {
			c.Op("add "+m.enc(), "unreadable")
			c.Fail("row-unreadable", mism)
			return
		}
		c.Op("add "+m.enc(), o.line(m.ts, t0, t1))
		checkCanonical(c, "batch row", cf, m, o, t0, t1)
		// independent of the other rows: the same metric converted alone gives the same row
		var alone metric.BrokerRow
		if e, _, _ := convertProto(cf, m, &alone); e != nil {
			c.Fail("row-depends-on-batch", fmt.Sprintf("metric accepted inside the batch is rejected alone: %v", e))
		} else if oa, _ := observe(&alone); oa == nil || oa.line(1, 0, 0) != o.line(1, 0, 0) {
			c.Fail("row-depends-on-batch", "metric stored differently inside the batch and alone")
		}
		rows = append(rows, rowInfo{m, o.hash, o.ts})
	}
	if len(rows) == 0 {
		return
	}
	// whatever the pooled object held: the rows of this request are exactly the accepted ones, unmarked
	if b.Len() != len(rows) {
		c.Fail("batch-length-not-accepted-rows", fmt.Sprintf("%d metrics accepted, batch.Len() = %d", len(rows), b.Len()))
	}
	for k := range b.Rows() {
		if b.Rows()[k].IsOutOfTimeRange {
			c.Fail("stale-mark-on-appended-row", fmt.Sprintf("row %d of the request carries IsOutOfTimeRange before any eviction (pooled batch, earlier rows marked: %v)", k, pooledMarked))
		}
	}
	iv := ik.intervals[0]
	for _, x := range ik.intervals {
		if x < iv {
			iv = x
		}
	}
	// expected placement of every row, from the property: shard = jump(hash, n) < n, family = the one containing ts
	want := map[string]placed{}
	for i, ri := range rows {
		sh := int(jump.Hash(ri.hash, int32(numShards)))
		ft, rg := familyRange(iv, ri.ts)
		if !rg.Contains(ri.ts) {
			c.Fail("family-range-excludes-timestamp", fmt.Sprintf("calculator range %v of %d does not contain it", rg, ri.ts))
		}
		want["r"+strconv.Itoa(i)] = placed{sh, ft}
	}
	// (a) the iterators, driven like databaseChannel.Write drives them
	type grp struct {
		shard   int
		famTime int64
		names   []string
	}
	var got []grp
	var views [][]metric.BrokerRow
	if h := handedOut(b, numShards, iv); h != b.Len() {
		c.Fail("rows-not-of-this-batch-handed-out", fmt.Sprintf("the batch has %d rows, the shard/family iterators hand out %d (-1: they walk into an empty slot)", b.Len(), h))
		c.Op(fmt.Sprintf("route %d %s", numShards, ik.name), fmt.Sprintf("handed-out %d of %d", h, b.Len()))
		return
	}
	handed := 0
	it := b.NewShardGroupIterator(int32(numShards))
	for it.HasRowsForNextShard() {
		shardIdx, fit := it.FamilyRowsForNextShard(iv)
		for fit.HasNextFamily() {
			ft, rs := fit.NextFamily()
			got = append(got, grp{shard: shardIdx, famTime: ft})
			views = append(views, rs)
			handed += len(rs)
		}
	}
	if handed != b.Len() {
		// before any row is read: slots beyond Len() hold rows of an earlier request or nothing at all
		c.Fail("rows-not-of-this-batch-handed-out", fmt.Sprintf("the batch has %d rows, the shard/family iterators hand out %d", b.Len(), handed))
		c.Op(fmt.Sprintf("route %d %s", numShards, ik.name), fmt.Sprintf("handed-out %d of %d", handed, b.Len()))
		return
	}
	for gi, rs := range views {
		for k := range rs {
			fm := rs[k].Metric()
			got[gi].names = append(got[gi].names, string(fm.Name()))
		}
	}
	var parts []string
	seen := map[string]int{}
	keys := map[placed]bool{}
	for _, g := range got {
		if g.shard < 0 || g.shard >= numShards {
			c.Fail("shard-out-of-range", fmt.Sprintf("group shard %d with %d shards", g.shard, numShards))
		}
		if len(g.names) == 0 {
			c.Fail("empty-group", fmt.Sprintf("empty group shard %d family %d", g.shard, g.famTime))
		}
		if keys[placed{g.shard, g.famTime}] {
			c.Fail("group-split", fmt.Sprintf("two groups for shard %d family %d", g.shard, g.famTime))
		}
		keys[placed{g.shard, g.famTime}] = true
		var ids []int
		for _, nm := range g.names {
			seen[nm]++
			w, ok := want[nm]
			if !ok {
				c.Fail("foreign-row-in-group", fmt.Sprintf("row %q is not a row of the batch", nm))
				continue
			}
			if w.shard != g.shard {
				c.Fail("row-in-wrong-shard", fmt.Sprintf("row %s in shard %d, jump hash says %d", nm, g.shard, w.shard))
			}
			if w.famTime != g.famTime {
				c.Fail("row-in-wrong-family", fmt.Sprintf("row %s in family %d, its timestamp belongs to family %d", nm, g.famTime, w.famTime))
			}
			id, _ := strconv.Atoi(nm[1:])
			ids = append(ids, id)
		}
		sort.Ints(ids)
		s := make([]string, len(ids))
		for k, id := range ids {
			s[k] = strconv.Itoa(id)
		}
		parts = append(parts, fmt.Sprintf("%d:%d:%s:%s", g.shard, g.famTime, strings.Join(s, ","), strings.Join(s, ",")))
	}
	for nm := range want {
		if seen[nm] != 1 {
			c.Fail("row-not-in-exactly-one-group", fmt.Sprintf("row %s appears in %d groups", nm, seen[nm]))
		}
	}
	c.Op(fmt.Sprintf("route %d %s", numShards, ik.name), "groups "+strings.Join(parts, " "))
	c.NonTrivial()
	c.Branch("route/" + ik.name)
	c.Branch(fmt.Sprintf("route/groups=%d", bucket(len(got))))
	if len(rows) > 12 {
		c.Branch("route/pdqsort-batch")
	}

	// (b) the real databaseChannel.Write on a copy of the batch in another order: the placement of a
	// row does not depend on its position or its neighbours; window disabled; unsorted intervals.
	b2 := metric.NewBrokerBatchRows()
	perm := r.Perm(len(ms))
	for _, pi := range perm {
		m := ms[pi]
		_ = b2.TryAppend(func(row *metric.BrokerRow) error { return cv.ConvertTo(m.toProto(), row) })
	}
	// only some shard channels exist (they are created one at a time): routing must still use the
	// configured shard count; rows of absent shards are written nowhere, the others are unaffected
	var present []int
	isPresent := map[int]bool{}
	mode := r.Intn(4)
	for i := 0; i < numShards; i++ {
		if mode == 0 || mode == 1 && r.Intn(2) == 0 || mode == 2 && r.Intn(4) != 0 || mode == 3 && i == numShards-1-r.Intn(numShards) {
			present = append(present, i)
			isPresent[i] = true
		}
	}
	if h2 := handedOut(b2, numShards, iv); h2 != b2.Len() {
		c.Fail("rows-not-of-this-batch-handed-out", fmt.Sprintf("the shuffled batch has %d rows, the shard/family iterators hand out %d", b2.Len(), h2))
		return
	}
	groups, err := replica.VerifC16Write(ik.intervals, int32(numShards), present, 0, 0, b2)
	seen2 := map[string]int{}
	var parts2 []string
	for _, g := range groups {
		if !isPresent[g.Shard] {
			c.Fail("group-for-absent-shard", fmt.Sprintf("databaseChannel.Write handed rows to shard %d, which has no channel (present %v of %d)", g.Shard, present, numShards))
		}
		var ids []int
		for _, row := range g.Rows {
			seen2[row.Name]++
			w, ok := want[row.Name]
			if !ok {
				c.Fail("foreign-row-in-group", fmt.Sprintf("databaseChannel.Write handed out row %q", row.Name))
				continue
			}
			if w.shard != g.Shard || w.famTime != g.FamilyTime {
				c.Fail("placement-depends-on-batch-order-or-channels", fmt.Sprintf("row %s placed at shard %d family %d by Write (shuffled batch, channels %v of %d), its jump hash / timestamp say %d/%d", row.Name, g.Shard, g.FamilyTime, present, numShards, w.shard, w.famTime))
			}
			if row.Written == 0 || row.Marked {
				c.Fail("row-dropped-without-window", fmt.Sprintf("row %s not written although the write window is disabled", row.Name))
			}
			id, _ := strconv.Atoi(row.Name[1:])
			ids = append(ids, id)
		}
		sort.Ints(ids)
		sl := make([]string, len(ids))
		for k, id := range ids {
			sl[k] = strconv.Itoa(id)
		}
		parts2 = append(parts2, fmt.Sprintf("%d:%d:%s:%s", g.Shard, g.FamilyTime, strings.Join(sl, ","), strings.Join(sl, ",")))
	}
	anyAbsent := false
	for nm, w := range want {
		switch {
		case isPresent[w.shard] && seen2[nm] != 1:
			c.Fail("row-not-in-exactly-one-group", fmt.Sprintf("databaseChannel.Write (channels %v of %d): row %s of present shard %d handed out %d times", present, numShards, nm, w.shard, seen2[nm]))
		case !isPresent[w.shard]:
			anyAbsent = true
			if seen2[nm] != 0 {
				c.Fail("row-of-absent-shard-written", fmt.Sprintf("databaseChannel.Write (channels %v of %d): row %s belongs to absent shard %d but was handed out %d times", present, numShards, nm, w.shard, seen2[nm]))
			}
		}
	}
	if err != nil && !anyAbsent {
		c.Fail("channel-write-error", fmt.Sprintf("every shard of the batch has a channel, Write returned %v", err))
	}
	if err != nil && !strings.Contains(err.Error(), "channel not found") {
		c.Fail("channel-write-error", err.Error())
	}
	ps := "-"
	if len(present) > 0 {
		q := make([]string, len(present))
		for k, p := range present {
			q[k] = strconv.Itoa(p)
		}
		ps = strings.Join(q, ",")
	}
	g2 := "-"
	if len(parts2) > 0 {
		g2 = strings.Join(parts2, " ")
	}
	e := 0
	if err != nil {
		e = 1
	}
	c.Op(fmt.Sprintf("routep %d %s %s", numShards, ik.name, ps), fmt.Sprintf("groups %s err=%d", g2, e))
	if len(present) < numShards {
		c.Branch("route/some-shard-channels-absent")
	}
	if anyAbsent {
		c.Branch("route/rows-for-absent-shard")
	}
}

// casePooledHistory: two requests on ONE pooled batch object, as channelManager.Write runs them.
// Request A has rows outside the write window in the middle of the batch; it is evicted, sharded and
// written by the real databaseChannel.Write and released to the pool. Request B (at least as many rows,
// similar sizes) takes the same object back. Whatever A left behind, every row of B must come out of
// the batch, and of the shard/family iterators, with exactly the payload that was appended, once.
func casePooledHistory(c *core.Ctx, r *rand.Rand) {
	cf := &cfg{lim: limits{isDefault: true}}
	now := fasttime.UnixMilliseconds()
	numShards := []int{1, 2, 4, 7}[r.Intn(4)]
	na := 2 + r.Intn(8)
	a := metric.NewBrokerBatchRows()
	mk := func(prefix string, i int, ts int64) *lmetric {
		m := simpleMetric(i, ts)
		m.name = prefix + strconv.Itoa(i)
		m.tags = append(m.tags, &ltag{"host", genStr(r, 3+r.Intn(3))})
		return m
	}
	nOld := 0
	for i := 0; i < na; i++ {
		ts := now - int64(r.Intn(1000))
		if i < na-1 && r.Intn(3) == 0 || i == 0 && na > 1 && nOld == 0 && r.Intn(2) == 0 {
			ts = now - 5*3600*1000 // outside a 1h window
			nOld++
		}
		m := mk("a", i, ts)
		_ = a.TryAppend(func(row *metric.BrokerRow) error { e, _, _ := convertProto(cf, m, row); return e })
	}
	present := make([]int, numShards)
	for i := range present {
		present[i] = i
	}
	if _, err := replica.VerifC16Write([]timeutil.Interval{10000}, int32(numShards), present, 3600*1000, 3600*1000, a); err != nil {
		c.Fail("channel-write-error", err.Error())
	}
	a.Release()
	b := metric.NewBrokerBatchRows()
	if b == a {
		c.Branch("pooled-history/same-object")
	}
	if nOld > 0 {
		c.Branch("pooled-history/request-A-had-evicted-rows")
	}
	nb := na + r.Intn(4)
	base := int64(1700000000000)
	c.Op(cf.enc(), "ok")
	c.Op("newbatch -", "ok")
	var ms []*lmetric
	var wantPayload [][]byte
	for i := 0; i < nb; i++ {
		m := mk("r", i, base+int64(r.Intn(3))*3600*1000+int64(r.Intn(1000)))
		ms = append(ms, m)
		if err := b.TryAppend(func(row *metric.BrokerRow) error { e, _, _ := convertProto(cf, m, row); return e }); err != nil {
			panic(err)
		}
		var alone metric.BrokerRow
		if e, _, _ := convertProto(cf, m, &alone); e != nil {
			panic(e)
		}
		var buf bytes.Buffer
		_, _ = alone.WriteTo(&buf)
		wantPayload = append(wantPayload, buf.Bytes())
	}
	// after ALL appends: what does each slot hold?
	for i := range b.Rows() {
		var buf bytes.Buffer
		_, _ = b.Rows()[i].WriteTo(&buf)
		if !bytes.Equal(buf.Bytes(), wantPayload[i]) {
			fm := b.Rows()[i].Metric()
			c.Fail("row-payload-differs-from-appended", fmt.Sprintf("request B (%d rows) on the pooled batch of request A (%d rows, %d evicted): slot %d was appended as %s and now reads as metric %q (%d vs %d bytes)", nb, na, nOld, i, ms[i].name, fm.Name(), buf.Len(), len(wantPayload[i])))
		}
		o, mism := observe(&b.Rows()[i])
		if o == nil {
			c.Op("add "+ms[i].enc(), "unreadable")
			c.Fail("row-unreadable", mism)
			continue
		}
		c.Op("add "+ms[i].enc(), o.line(ms[i].ts, 0, 0))
	}
	c.NonTrivial()
	iv := timeutil.Interval(10000)
	if h := handedOut(b, numShards, iv); h != b.Len() {
		c.Fail("rows-not-of-this-batch-handed-out", fmt.Sprintf("request B has %d rows, the shard/family iterators hand out %d", b.Len(), h))
		return
	}
	seen := map[string]int{}
	var parts []string
	it := b.NewShardGroupIterator(int32(numShards))
	for it.HasRowsForNextShard() {
		shardIdx, fit := it.FamilyRowsForNextShard(iv)
		for fit.HasNextFamily() {
			ft, rs := fit.NextFamily()
			var ids []int
			for k := range rs {
				fm := rs[k].Metric()
				nm := string(fm.Name())
				seen[nm]++
				if id, err := strconv.Atoi(strings.TrimPrefix(nm, "r")); err == nil {
					ids = append(ids, id)
				}
			}
			sort.Ints(ids)
			sl := make([]string, len(ids))
			for k, id := range ids {
				sl[k] = strconv.Itoa(id)
			}
			parts = append(parts, fmt.Sprintf("%d:%d:%s:%s", shardIdx, ft, strings.Join(sl, ","), strings.Join(sl, ",")))
		}
	}
	for _, m := range ms {
		if seen[m.name] != 1 {
			c.Fail("routing-loses-or-duplicates-rows", fmt.Sprintf("request B on the pooled batch of request A (%d rows, %d evicted): row %s comes out of the shard/family iterators %d times", na, nOld, m.name, seen[m.name]))
		}
	}
	c.Op(fmt.Sprintf("route %d day", numShards), "groups "+strings.Join(parts, " "))
}

var influxKeyPool = []string{"a_last", "b_first", "c_sum", "d", "e1", "HistogramX_last", "__bucket_9_sum", "x.y_last", "поле_sum", "sum", "last", "first", "z_last_x"}
var influxTokenPool = []string{"1", "-7", "42", "0", "3i", "-4I", "5u", "9U", "1.0", "1e2", "-0", "2E1", "t", "T", "f", "F", "true", "True", "TRUE", "false", "False", "FALSE",
	"tt", "xf", "Tf", "yF", "tRUE", "nan", "NaN", "NAN", "Inf", "inf", "INF", "-inf", "+Inf", "-Inf", "Infinity", "-Infinity", "+infinity", "INFINITY", "abc", "\"s\"", "1x", "0x10",
	"i", "u", "12t", "1_000", "99999999999999999999i", "1e999", "infi", "nani", ".", "+", "1.", "7I", "-", "0x1p4", "1i2"}

// caseInfluxFields: the field section of an influx line token by token — classification by the shape
// of the literal (field / dropped bad field / line-invalidating field), typing by key suffix, the
// drop-and-continue loop and RowBuilder's per-field checks — against the Lean model of parseField /
// parseFields / AddSimpleField, with strconv's results supplied as the model's parameter.
func caseInfluxFields(c *core.Ctx, r *rand.Rand) {
	cf := &cfg{lim: limits{isDefault: true, maxName: 256, maxField: 128, maxTagKey: 128, maxTagVal: 1024, maxTags: 32, maxFields: 256}}
	if r.Intn(4) == 0 {
		cf.lim = limits{maxName: 256, maxField: []int{0, 6, 128}[r.Intn(3)], maxTagKey: 128, maxTagVal: 1024, maxTags: 32, maxFields: []int{0, 1, 2, 256}[r.Intn(4)]}
	}
	n := 1 + r.Intn(5)
	var parts, ops []string
	allSupported := true
	for i := 0; i < n; i++ {
		k := pick(r, influxKeyPool)
		v := pick(r, influxTokenPool)
		pi, pf := "-", "-"
		tail := v[len(v)-1]
		if strings.IndexByte("iIuU", tail) >= 0 {
			if x, err := strconv.ParseInt(v[:len(v)-1], 10, 64); err == nil {
				pi = strconv.FormatInt(x, 10)
			}
		}
		fl, ferr := strconv.ParseFloat(v, 64)
		if ferr == nil {
			pf = showFloat(fl)
			if strings.HasPrefix(pf, "float(") {
				continue // not exactly an integer: outside the value abstraction
			}
			// the contract assumed of strconv (StrconvSpec)
			if strings.IndexByte("iIuUtT", tail) >= 0 || strings.IndexByte("fF", tail) >= 0 && !math.IsInf(fl, 0) {
				c.Fail("strconv-contract", fmt.Sprintf("ParseFloat(%q) = %v", v, fl))
			}
		}
		isBool := v == "t" || v == "T" || v == "f" || v == "F" || v == "true" || v == "True" || v == "TRUE" || v == "false" || v == "False" || v == "FALSE"
		if !(isBool || pi != "-" || ferr == nil) {
			allSupported = false
		}
		parts = append(parts, k+"="+v)
		ops = append(ops, fmt.Sprintf("%s:%s:%s:%s", hx(k), hx(v), pi, pf))
	}
	if len(parts) == 0 {
		return
	}
	line := "m,t=1 " + strings.Join(parts, ",") + " 1700000000000"
	var b *metric.BrokerBatchRows
	panicked := func() (p bool) {
		defer func() {
			if recover() != nil {
				p = true
			}
		}()
		b, _ = parseInflux(cf, "ns", []string{line})
		return false
	}()
	if panicked {
		lone := false
		for _, p := range parts {
			v := p[strings.IndexByte(p, '=')+1:]
			if v == "i" || v == "I" || v == "u" || v == "U" {
				lone = true
			}
		}
		if lone {
			c.Fail(keyInfluxSuffixPanic, fmt.Sprintf("influx.Parse panics on line %q", line)) // recorded finding, see witnessInfluxSuffixPanic
		} else {
			c.Fail("panic", fmt.Sprintf("influx.Parse panics on line %q", line))
		}
		return
	}
	out := "rejected"
	stored := 0
	if b != nil && b.Len() == 1 {
		o, mism := observe(&b.Rows()[0])
		if o == nil {
			c.Fail("row-unreadable", "influx fields: "+mism)
			return
		}
		stored = len(o.fshow)
		out = "stored " + strings.Join(o.fshow, ",")
	}
	c.Op(fmt.Sprintf("ifields %d %d | %s", cf.lim.maxFields, cf.lim.maxField, strings.Join(ops, " ")), out)
	c.NonTrivial()
	// the statement itself: with supported literals only, the line is rejected or no token is lost
	if allSupported && out != "rejected" && stored < len(parts) {
		c.Fail("influx-supported-field-dropped", fmt.Sprintf("line %q: every field token is a boolean / integer / float literal, %d tokens, %d fields stored", line, len(parts), stored))
	}
	if allSupported {
		c.Branch("influx-fields/all-supported")
	}
	c.Branch("influx-fields/" + strings.SplitN(out, " ", 2)[0])
}

// handedOut counts the rows the shard/family iterators hand out, without reading any of them.
func handedOut(b *metric.BrokerBatchRows, numShards int, iv timeutil.Interval) (n int) {
	defer func() {
		if recover() != nil {
			n = -1 // the iterators walked into a slot that holds no row at all
		}
	}()
	it := b.NewShardGroupIterator(int32(numShards))
	for it.HasRowsForNextShard() {
		_, fit := it.FamilyRowsForNextShard(iv)
		for fit.HasNextFamily() {
			_, rs := fit.NextFamily()
			n += len(rs)
		}
	}
	return n
}

// ---------------------------------------------------------------- flat streams through one decoder

func (m *lmetric) cfString() string {
	if m.cf == nil {
		return "-"
	}
	return fmt.Sprintf("%s:%s:%s:%s:%s:%s", m.cf.min, m.cf.max, m.cf.sum, m.cf.count, encFList(m.cf.values), encFList(m.cf.bounds))
}

// flatAlone decodes one raw flat row with a decoder that has never seen another row (the pool is
// emptied first: decoders are taken and not given back until a brand-new one comes out).
func flatAlone(cf *cfg, m *lmetric) (*obs, error) {
	var dec *metric.BrokerRowFlatDecoder
	for k := 0; k < 4; k++ {
		dec, _ = metric.NewBrokerRowFlatDecoder(bytes.NewReader(m.toFlatRaw()), []byte(heapCopy(cf.reqNs)), cf.realEnriched(), cf.lim.real())
	}
	if !dec.HasNext() {
		return nil, fmt.Errorf("no row")
	}
	var row metric.BrokerRow
	if err := dec.DecodeTo(&row); err != nil {
		return nil, err
	}
	o, mism := observe(&row)
	if o == nil {
		return nil, fmt.Errorf("unreadable: %s", mism)
	}
	return o, nil
}

// flatDecodeRequest is parseFlatMetric with the per-row errors kept: one decoder for the request (fresh =
// the pool is emptied first so that a brand-new decoder comes out), every row through
// batch.TryAppend(decoder.DecodeTo), the decoder released into the pool afterwards.
func flatDecodeRequest(cf *cfg, part []*lmetric, fresh bool) (errs []error, b *metric.BrokerBatchRows, t0, t1 int64) {
	var buf bytes.Buffer
	for _, m := range part {
		buf.Write(m.toFlatRaw())
	}
	if fresh {
		for k := 0; k < 4; k++ {
			metric.NewBrokerRowFlatDecoder(bytes.NewReader(nil), nil, nil, cf.lim.real())
		}
	}
	dec, release := metric.NewBrokerRowFlatDecoder(&buf, []byte(heapCopy(cf.reqNs)), cf.realEnriched(), cf.lim.real())
	defer release(dec)
	b = metric.NewBrokerBatchRows()
	t0 = fasttime.UnixMilliseconds()
	for dec.HasNext() {
		errs = append(errs, b.TryAppend(dec.DecodeTo))
	}
	t1 = fasttime.UnixMilliseconds()
	return
}

// flatErrKind names the `return err` site of rebuild / RowBuilder an error comes from.
func flatErrKind(err error) string {
	switch err {
	case constants.ErrTooManyTagKeys:
		return "too-many-tags"
	case constants.ErrTagKeyTooLong:
		return "tag-key-too-long"
	case constants.ErrTagValueTooLong:
		return "tag-value-too-long"
	case constants.ErrTooManyFields:
		return "too-many-fields"
	case constants.ErrFieldNameTooLong:
		return "field-name-too-long"
	case constants.ErrMetricNameTooLong:
		return "name-too-long"
	case constants.ErrNamespaceTooLong:
		return "ns-too-long"
	}
	s := err.Error()
	for _, p := range [][2]string{
		{"tag[", "empty-tag"},
		{"flat field type is unspecified", "field-type-unspecified"},
		{"fieldValue is Inf", "field-inf"},
		{"fieldValue is NaN", "field-nan"},
		{"fieldName is empty", "empty-field-name"},
		{"values's length", "buckets-len-mismatch"},
		{"compound buckets", "too-few-buckets"},
		{"compound explicit bound is not increasing", "bounds-not-increasing"},
		{"compound last explicit bound", "last-bound-not-inf"},
		{"compound first explicit bound", "first-bound-negative"},
		{"compound value contains Inf", "bucket-inf"},
		{"compound value less than zero", "bucket-negative"},
		{"compound value contains NaN", "bucket-nan"},
		{"min:", "mmsc-negative"},
		{"metric-name is empty", "empty-name"},
		{"simple field and compound field are both empty", "no-field"},
	} {
		if strings.HasPrefix(s, p[0]) {
			return p[1]
		}
	}
	return "other:" + s
}

// caseFlatStream: several raw flat rows — valid ones, invalid ones, valid and invalid histograms —
// in one or two requests through flat.ParseReader (one decoder per request, the same pooled decoder
// for the second request). C16: every valid row is stored exactly as sent and every invalid one is
// rejected as a whole, whatever the other rows of the stream are.
func caseFlatStream(c *core.Ctx, r *rand.Rand) {
	cf := genCfg(r)
	if r.Intn(3) != 0 {
		cf.lim = limits{isDefault: true, maxName: 256, maxField: 128, maxTagKey: 128, maxTagVal: 1024, maxTags: 32, maxFields: 256}
	}
	n := 2 + r.Intn(7)
	var ms []*lmetric
	for i := 0; i < n; i++ {
		m := genMetric(r, 25, int64(1600000000000+r.Int63n(200000000000)))
		m.isNil = false
		var tags []*ltag
		for _, t := range m.tags {
			if t != nil {
				tags = append(tags, t)
			}
		}
		m.tags = tags
		var fs []*lfield
		for _, f := range m.fields {
			if f != nil {
				fs = append(fs, f)
			}
		}
		m.fields = fs
		if r.Intn(10) < 6 {
			m.cf = genCompound(r, 0)
			if r.Intn(10) < 4 {
				m.cf = genCompound(r, 200) // defective buckets / mmsc
			}
			if r.Intn(3) == 0 {
				m.fields = nil
			}
		}
		if !sortSafe(cf, m) {
			m.tags = nil
		}
		m.name = "r" + strconv.Itoa(i)
		ms = append(ms, m)
	}
	c.Op(cf.enc(), "ok")
	// the same metrics through the protobuf converter and the model (gives the case its ops)
	for _, m := range ms {
		var row metric.BrokerRow
		if err, _, _ := convertProto(cf, m, &row); err != nil {
			c.Op("conv "+m.enc(), "err "+errKind(err))
		} else if o, _ := observe(&row); o != nil {
			c.Op("conv "+m.enc(), o.line(m.ts, 0, 0))
		} else {
			c.Op("conv "+m.enc(), "unreadable")
		}
	}
	// requests: the whole stream at once, or two requests (decoder reuse through the pool)
	cut := n
	if r.Intn(2) == 0 {
		cut = 1 + r.Intn(n-1)
	}
	// the same requests row by row through the real decoder — one decoder per request, brand-new or whatever
	// the pool hands back — so that the model of rebuild / RowBuilder sees every row's verdict (error SITE
	// included) and the stored row
	for pi, part := range [][]*lmetric{ms[:cut], ms[cut:]} {
		if len(part) == 0 {
			continue
		}
		kind := "pooled"
		if pi == 0 && r.Intn(2) == 0 {
			kind = "fresh"
		}
		errs, fb, t0, t1 := flatDecodeRequest(cf, part, kind == "fresh")
		c.Op("fnew "+kind, "ok")
		rows := fb.Rows()
		k := 0
		for i, m := range part {
			switch {
			case i >= len(errs):
				c.Op("fdec "+m.enc(), "not-read")
			case errs[i] != nil:
				c.Op("fdec "+m.enc(), "ferr "+flatErrKind(errs[i]))
				c.Branch("flat-decode/" + flatErrKind(errs[i]))
			case k >= len(rows):
				c.Op("fdec "+m.enc(), "missing-row")
			default:
				o, _ := observe(&rows[k])
				k++
				if o == nil {
					c.Op("fdec "+m.enc(), "unreadable")
				} else {
					c.Op("fdec "+m.enc(), o.line(m.ts, t0, t1))
					c.Branch("flat-decode/ok")
				}
			}
		}
	}
	stored := map[string][]*obs{}
	var order []string
	for _, part := range [][]*lmetric{ms[:cut], ms[cut:]} {
		if len(part) == 0 {
			continue
		}
		b, err := parseFlat(cf, part)
		if err != nil || b == nil {
			continue // "empty metrics": no row of this request was accepted
		}
		for k := range b.Rows() {
			o, mism := observe(&b.Rows()[k])
			if o == nil {
				c.Fail("row-unreadable", "flat stream: "+mism)
				continue
			}
			stored[o.name] = append(stored[o.name], o)
			order = append(order, o.name)
		}
	}
	c.NonTrivial()
	var wantOrder []string
	nAcc, nRej := 0, 0
	for _, m := range ms {
		oa, ea := flatAlone(cf, m)
		gs := stored[m.name]
		switch {
		case ea != nil && len(gs) > 0:
			c.Fail("flat-invalid-row-stored-in-stream", fmt.Sprintf("row %s is rejected on its own (%v) but stored when sent in the stream %s", m.enc(), ea, streamShape(ms, cut)))
		case ea == nil && len(gs) == 0:
			c.Fail("flat-valid-row-dropped-in-stream", fmt.Sprintf("row %s is accepted on its own but dropped when sent in the stream %s", m.enc(), streamShape(ms, cut)))
		case ea == nil && len(gs) > 1:
			c.Fail("flat-row-stored-twice", fmt.Sprintf("row %s stored %d times", m.name, len(gs)))
		case ea == nil:
			nAcc++
			wantOrder = append(wantOrder, m.name)
			if gs[0].line(1, 0, 0) != oa.line(1, 0, 0) {
				c.Fail("flat-row-depends-on-other-rows", fmt.Sprintf("row %s alone is stored as %s, inside the stream %s as %s", m.name, oa.line(1, 0, 0), streamShape(ms, cut), gs[0].line(1, 0, 0)))
			}
			checkCanonical(c, "flat", cf, m, gs[0], 0, 0)
		default:
			nRej++
		}
	}
	if strings.Join(order, ",") != strings.Join(wantOrder, ",") && len(order) == len(wantOrder) {
		c.Fail("flat-stream-order", fmt.Sprintf("rows stored in order %v, sent in order %v", order, wantOrder))
	}
	c.Branch(fmt.Sprintf("flat-stream/accepted=%d", bucket(nAcc)))
	c.Branch(fmt.Sprintf("flat-stream/rejected=%d", bucket(nRej)))
	if cut < n {
		c.Branch("flat-stream/two-requests")
	}
}

// streamShape describes a stream for failure messages: per row h (valid histogram alone), H (histogram), - (none); | = request boundary.
func streamShape(ms []*lmetric, cut int) string {
	var sb strings.Builder
	for i, m := range ms {
		if i == cut {
			sb.WriteByte('|')
		}
		if m.cf != nil {
			sb.WriteString("H(" + m.cfString() + ")")
		} else {
			sb.WriteByte('-')
		}
		sb.WriteByte(' ')
	}
	return sb.String()
}

// ---------------------------------------------------------------- request histories on one pooled protobuf converter

// brandNewConverter: a converter that never converted anything (the pool is emptied first: converters are
// taken and not given back until a brand-new one comes out).
func brandNewConverter(cf *cfg) *metric.BrokerRowProtoConverter {
	var cv *metric.BrokerRowProtoConverter
	for k := 0; k < 4; k++ {
		cv, _ = metric.NewBrokerRowProtoConverter([]byte(cf.reqNs), cf.realEnriched(), cf.lim.real())
	}
	return cv
}

// caseProtoHistory: 2-4 write requests, each with its own namespace / enriched tags / limits and 1-5 metrics
// (valid ones of very different sizes, rejected ones at every rule), go through ONE pooled converter the way
// ingestion/proto.Parse uses it: NewBrokerRowProtoConverter (rowConverterPool.Get + Reset), ConvertTo per
// metric, release. Every verdict and stored row is compared with the Lean state machine of the converter
// (ops pnew / pconv: offset slices, namespace, enriched tags, hash buffer carried across rows and requests)
// and with what a brand-new converter gives for the metric alone.
func caseProtoHistory(c *core.Ctx, r *rand.Rand) {
	nreq := 2 + r.Intn(3)
	var prev *metric.BrokerRowProtoConverter
	for q := 0; q < nreq; q++ {
		cf := genCfg(r)
		c.Op(cf.enc(), "ok")
		var cv *metric.BrokerRowProtoConverter
		var release func(*metric.BrokerRowProtoConverter)
		if q == 0 && r.Intn(2) == 0 {
			cv = brandNewConverter(cf)
			release = func(x *metric.BrokerRowProtoConverter) {
				_, rel := metric.NewBrokerRowProtoConverter(nil, nil, cf.lim.real())
				rel(x)
			}
			c.Op("pnew fresh", "ok")
		} else {
			cv, release = metric.NewBrokerRowProtoConverter([]byte(cf.reqNs), cf.realEnriched(), cf.lim.real())
			c.Op("pnew pooled", "ok")
			if cv == prev {
				c.Branch("proto-history/pooled-converter-reused")
			}
		}
		for k := 1 + r.Intn(5); k > 0; k-- {
			bad := 0
			if r.Intn(3) == 0 {
				bad = 100
			}
			ts := int64(1600000000000 + r.Int63n(200000000000))
			if r.Intn(10) == 0 {
				ts = 0
			}
			m := genMetric(r, bad, ts)
			if !sortSafe(cf, m) {
				if len(m.tags) > 8 {
					m.tags = m.tags[:8]
				}
				if !sortSafe(cf, m) {
					m.tags = nil
				}
			}
			var row metric.BrokerRow
			t0 := fasttime.UnixMilliseconds()
			err := cv.ConvertTo(m.toProto(), &row)
			t1 := fasttime.UnixMilliseconds()
			c.NonTrivial()
			// the same metric through a converter without history
			var alone metric.BrokerRow
			errAlone := brandNewConverter(cf).ConvertTo(m.toProto(), &alone)
			if err != nil {
				kd := errKind(err)
				c.Op("pconv "+m.enc(), "err "+kd)
				c.Branch("proto-history/reject/" + kd)
				if errAlone == nil || errKind(errAlone) != kd {
					c.Fail("proto-row-depends-on-converter-history", fmt.Sprintf("request %d of %d on the pooled converter: %s is rejected (%s), a brand-new converter says %v", q+1, nreq, m.enc(), kd, errAlone))
				}
				continue
			}
			o, mism := observe(&row)
			if o == nil {
				c.Op("pconv "+m.enc(), "unreadable")
				c.Fail("row-unreadable", "proto history: "+mism)
				continue
			}
			c.Op("pconv "+m.enc(), o.line(m.ts, t0, t1))
			c.Branch("proto-history/accept")
			checkCanonical(c, "proto history", cf, m, o, t0, t1)
			if errAlone != nil {
				c.Fail("proto-row-depends-on-converter-history", fmt.Sprintf("request %d of %d on the pooled converter: %s is stored, a brand-new converter rejects it (%v)", q+1, nreq, m.enc(), errAlone))
			} else if oa, _ := observe(&alone); oa == nil || oa.line(m.ts, t0, t1+5000) != o.line(m.ts, t0, t1+5000) {
				got := "unreadable"
				if oa != nil {
					got = oa.line(m.ts, t0, t1+5000)
				}
				c.Fail("proto-row-depends-on-converter-history", fmt.Sprintf("request %d of %d on the pooled converter stores %s, a brand-new converter %s", q+1, nreq, o.line(m.ts, t0, t1+5000), got))
			}
		}
		release(cv)
		prev = cv
	}
}
