// Package c03 is the correspondence stream "mdmerge": metric blocks are built with lindb's real
// metricsdata.Flusher, merged with the real metricsdata merger (directly and through real kv
// family compaction) and read back through the real metricsdata reader path; every operation is
// mirrored in the C03 line protocol for the Lean model (Model/MetricBlock, Model/Merge,
// Model/Compact).
package c03

import (
	"fmt"
	"math"
	"sort"
	"strconv"
	"strings"

	"github.com/lindb/roaring"

	"github.com/lindb/lindb/aggregation"
	"github.com/lindb/lindb/flow"
	"github.com/lindb/lindb/kv"
	"github.com/lindb/lindb/pkg/bit"
	"github.com/lindb/lindb/pkg/encoding"
	"github.com/lindb/lindb/pkg/timeutil"
	"github.com/lindb/lindb/series/field"
	"github.com/lindb/lindb/tsdb/tblstore/metricsdata"
)

// FieldMeta is (field id, field type code) as stored in a block.
type FieldMeta struct {
	ID, Ty int
}

// SeriesEntry is one series of a logical block: field id -> slot -> value. A field id that is a
// key of Fields with an empty map is a field whose data was flushed with all slots empty; a field
// id that is not a key was flushed as FlushField(nil).
type SeriesEntry struct {
	ID     uint32
	Fields map[int]map[int]int64
}

// Block is the logical content of one metric block.
type Block struct {
	Fields     []FieldMeta // in stored order (not necessarily sorted)
	Start, End int
	Series     []SeriesEntry // ascending series id
}

// ---------------------------------------------------------------- protocol text

// Format: <fields>#<start>_<end>#<series>|<series>...   fields = id:ty,id:ty
// series = sid/fid@slot=val,slot=val/fid@...   (field entries in the block's field order; in the
// canonical (decoded) form only fields with at least one slot are listed).
func (b *Block) String() string {
	var sb strings.Builder
	for i, f := range b.Fields {
		if i > 0 {
			sb.WriteByte(',')
		}
		fmt.Fprintf(&sb, "%d:%d", f.ID, f.Ty)
	}
	fmt.Fprintf(&sb, "#%d_%d#", b.Start, b.End)
	for i, s := range b.Series {
		if i > 0 {
			sb.WriteByte('|')
		}
		sb.WriteString(strconv.FormatUint(uint64(s.ID), 10))
		for _, f := range b.Fields {
			vals, ok := s.Fields[f.ID]
			if !ok {
				continue
			}
			fmt.Fprintf(&sb, "/%d@", f.ID)
			slots := make([]int, 0, len(vals))
			for t := range vals {
				slots = append(slots, t)
			}
			sort.Ints(slots)
			for j, t := range slots {
				if j > 0 {
					sb.WriteByte(',')
				}
				fmt.Fprintf(&sb, "%d=%d", t, vals[t])
			}
		}
	}
	return sb.String()
}

// Canonical drops field entries without slots (what a reader cannot distinguish).
func (b *Block) Canonical() *Block {
	c := &Block{Fields: b.Fields, Start: b.Start, End: b.End}
	for _, s := range b.Series {
		ns := SeriesEntry{ID: s.ID, Fields: map[int]map[int]int64{}}
		for fid, vals := range s.Fields {
			if len(vals) > 0 {
				ns.Fields[fid] = vals
			}
		}
		c.Series = append(c.Series, ns)
	}
	return c
}

// ---------------------------------------------------------------- building with the real flusher

// writeBlock writes the logical block through a real metricsdata.Flusher (one PrepareMetric …
// CommitMetric round), the way memdb's FlushFamilyTo drives it.
func writeBlock(fl metricsdata.Flusher, metricID uint32, b *Block) error {
	metas := make(field.Metas, len(b.Fields))
	for i, f := range b.Fields {
		metas[i] = field.Meta{ID: field.ID(f.ID), Type: field.Type(f.Ty)}
	}
	fl.PrepareMetric(metricID, metas)
	for _, s := range b.Series {
		for idx, f := range b.Fields {
			vals, ok := s.Fields[f.ID]
			if !ok {
				if err := fl.FlushField(nil); err != nil {
					return err
				}
				continue
			}
			enc := fl.GetEncoder(idx)
			enc.RestWithStartTime(uint16(b.Start))
			for t := b.Start; t <= b.End; t++ {
				if v, ok := vals[t]; ok {
					enc.AppendTime(bit.One)
					enc.AppendValue(math.Float64bits(float64(v)))
				} else {
					enc.AppendTime(bit.Zero)
				}
			}
			data, err := enc.BytesWithoutTime()
			if err != nil {
				return err
			}
			// FlushField only buffers the slice: copy, the encoder is reused for the next series
			if err := fl.FlushField(append([]byte(nil), data...)); err != nil {
				return err
			}
			enc.Reset()
		}
		if err := fl.FlushSeries(s.ID); err != nil {
			return err
		}
	}
	return fl.CommitMetric(timeutil.SlotRange{Start: uint16(b.Start), End: uint16(b.End)})
}

// buildBlockBytes builds the block bytes over kv.NopFlusher.
func buildBlockBytes(metricID uint32, b *Block) ([]byte, error) {
	nop := kv.NewNopFlusher()
	fl, err := metricsdata.NewFlusher(nop)
	if err != nil {
		return nil, err
	}
	if err := writeBlock(fl, metricID, b); err != nil {
		return nil, err
	}
	return append([]byte(nil), nop.Bytes()...), nil
}

// ---------------------------------------------------------------- decoding with the real reader

// slotSink receives what the real reader path hands to the query-side down-sampling callback.
type slotSink func(highKey uint16, lowSeriesID uint16, fieldIdx int, slotRange timeutil.SlotRange, getter encoding.TSDValueGetter)

// loadAll drives metricsdata.MetricReader.Load / flow.DataLoader.Load for every series of the
// block and the given query fields (the real query-side read path: reader.Load -> metricLoader.Load
// -> readSeriesData -> ctx.DownSampling).
func loadAll(r metricsdata.MetricReader, qFields field.Metas, sink slotSink) {
	ids := r.GetSeriesIDs()
	highKeys := ids.GetHighKeys()
	for i, hk := range highKeys {
		container := ids.GetContainerAtIndex(i)
		ctx := &flow.DataLoadContext{
			ShardExecuteCtx: &flow.ShardExecuteContext{
				StorageExecuteCtx: &flow.StorageExecuteContext{Fields: qFields},
			},
			SeriesIDHighKey:       hk,
			LowSeriesIDsContainer: container,
			IsMultiField:          len(qFields) > 1,
		}
		ctx.Grouping()
		loader := r.Load(ctx)
		if loader == nil {
			continue
		}
		ctx.Decoder = encoding.GetTSDDecoder()
		hk := hk
		ctx.DownSampling = func(slotRange timeutil.SlotRange, seriesIdx uint16, fieldIdx int, getter encoding.TSDValueGetter) {
			sink(hk, ctx.MinSeriesID+seriesIdx, fieldIdx, slotRange, getter)
		}
		loader.Load(ctx)
		encoding.ReleaseTSDDecoder(ctx.Decoder)
	}
}

// decodeBlock reads a block back into its logical content with the real reader.
func decodeBlock(data []byte) (*Block, error) {
	r, err := metricsdata.NewReader("lvh", data)
	if err != nil {
		return nil, err
	}
	b := &Block{}
	for _, f := range r.GetFields() {
		b.Fields = append(b.Fields, FieldMeta{ID: int(f.ID), Ty: int(f.Type)})
	}
	tr := r.GetTimeRange()
	b.Start, b.End = int(tr.Start), int(tr.End)
	entries := map[uint32]*SeriesEntry{}
	it := r.GetSeriesIDs().Iterator()
	var order []uint32
	for it.HasNext() {
		id := it.Next()
		entries[id] = &SeriesEntry{ID: id, Fields: map[int]map[int]int64{}}
		order = append(order, id)
	}
	var derr error
	loadAll(r, r.GetFields(), func(hk, low uint16, fieldIdx int, sr timeutil.SlotRange, getter encoding.TSDValueGetter) {
		sid := uint32(hk)<<16 | uint32(low)
		e := entries[sid]
		if e == nil {
			derr = fmt.Errorf("reader produced series %d which is not in the block's bitmap", sid)
			return
		}
		fid := b.Fields[fieldIdx].ID
		for t := int(sr.Start); t <= int(sr.End); t++ {
			v, ok := getter.GetValue(uint16(t))
			if !ok {
				continue
			}
			iv, exact := toInt(v)
			if !exact {
				derr = fmt.Errorf("series %d field %d slot %d: value %v is not an exact integer", sid, fid, t, v)
				continue
			}
			if e.Fields[fid] == nil {
				e.Fields[fid] = map[int]int64{}
			}
			e.Fields[fid][t] = iv
		}
	})
	for _, id := range order {
		b.Series = append(b.Series, *entries[id])
	}
	return b, derr
}

func toInt(v float64) (int64, bool) {
	if math.IsNaN(v) || math.IsInf(v, 0) || math.Abs(v) > (1<<53) {
		return 0, false
	}
	iv := int64(v)
	return iv, float64(iv) == v
}

// ---------------------------------------------------------------- reader-side view

// Key identifies one observable cell.
type Key struct {
	Series uint32
	Field  int
	Slot   int
}

// viewOf combines the blocks a reader finds for one metric (in the given order) the way the
// query side does: every file's decoder is down-sampled (ratio 1) into ONE real
// aggregation.FieldAggregator per (series, field) built from the field type's default
// down-sampling function, through aggregation.DownSampling + AggregateBySlot.
func viewOf(blocks [][]byte, schema map[int]int, maxSlot int) (map[Key]int64, map[uint32]bool, map[int]int, error) {
	aggs := map[[2]uint32]aggregation.FieldAggregator{}
	seriesSeen := map[uint32]bool{}
	fieldsSeen := map[int]int{}
	var verr error
	target := timeutil.SlotRange{Start: 0, End: uint16(maxSlot)}
	for _, data := range blocks {
		r, err := metricsdata.NewReader("lvh", data)
		if err != nil {
			return nil, nil, nil, err
		}
		it := r.GetSeriesIDs().Iterator()
		for it.HasNext() {
			seriesSeen[it.Next()] = true
		}
		fs := r.GetFields()
		for _, f := range fs {
			if old, ok := fieldsSeen[int(f.ID)]; ok && old != int(f.Type) {
				verr = fmt.Errorf("field %d has type %d and %d in two files", f.ID, old, f.Type)
			}
			fieldsSeen[int(f.ID)] = int(f.Type)
		}
		loadAll(r, fs, func(hk, low uint16, fieldIdx int, sr timeutil.SlotRange, getter encoding.TSDValueGetter) {
			sid := uint32(hk)<<16 | uint32(low)
			fm := fs[fieldIdx]
			k := [2]uint32{sid, uint32(fm.ID)}
			agg := aggs[k]
			if agg == nil {
				ty := fm.Type
				if st, ok := schema[int(fm.ID)]; ok {
					ty = field.Type(st)
				}
				spec := aggregation.NewAggregatorSpec(field.Name(fmt.Sprintf("f%d", fm.ID)), ty)
				spec.AddFunctionType(ty.DownSamplingFunc())
				agg = aggregation.NewFieldAggregator(spec, 0, 0, maxSlot)
				aggs[k] = agg
			}
			aggregation.DownSampling(sr, target, 1, 0, getter, agg.AggregateBySlot)
		})
	}
	out := map[Key]int64{}
	for k, agg := range aggs {
		_, fit := agg.ResultSet()
		n := 0
		for fit.HasNext() {
			pit := fit.Next()
			n++
			if pit == nil {
				continue
			}
			for pit.HasNext() {
				slot, v := pit.Next()
				iv, exact := toInt(v)
				if !exact {
					verr = fmt.Errorf("series %d field %d slot %d: value %v is not an exact integer", k[0], k[1], slot, v)
					continue
				}
				out[Key{k[0], int(k[1]), slot}] = iv
			}
		}
		if n > 1 {
			verr = fmt.Errorf("field aggregator of field %d has %d primitive series", k[1], n)
		}
	}
	return out, seriesSeen, fieldsSeen, verr
}

var _ = roaring.New
