package c03

import (
	"github.com/lindb/lindb/zzverif/internal/core"
)

// scenarioOpenFault (case 14): a merge compaction one of whose picked inputs cannot be opened while the job
// builds its input iterator (the reader cache holds none of the inputs: evicted, as after the cache TTL or a
// restart). Placements: the 2nd / 1st / 3rd level-0 file, ENOENT (file moved away for the duration of the job)
// or an injected I/O error; then, after a clean compaction and two more flushes, the picked LEVEL-1 input.
// Whatever the job does, after the file is back a reader must observe exactly the aggregate of everything
// flushed (C03); the job must report the failure and install nothing; the next, undisturbed compaction must
// succeed on the same inputs.
func (a area) scenarioOpenFault(c *core.Ctx) {
	type placement struct {
		idx  int
		kind string
	}
	for _, pl := range []placement{{1, "enoent"}, {0, "io"}, {2, "enoent"}, {1, "io"}} {
		fc := newFamCase(c, 0, 0)
		if fc == nil {
			return
		}
		// three level-0 files over metrics 10/20/30 (each metric in two files, different series and slots)
		files := [][]Entry{
			{{10, sumBlock(0, 8, map[uint32]map[int]int64{5: {0: 11, 4: 12, 8: 13}, 6: {0: 21, 4: 22}})},
				{20, sumBlock(0, 8, map[uint32]map[int]int64{5: {0: 31, 8: 32}})}},
			{{10, sumBlock(4, 12, map[uint32]map[int]int64{5: {4: 100, 12: 101}, 7: {8: 41}})},
				{30, sumBlock(4, 12, map[uint32]map[int]int64{9: {4: 51, 12: 52}})}},
			{{20, sumBlock(2, 10, map[uint32]map[int]int64{5: {2: 61, 8: 200}, 8: {6: 71}})},
				{30, sumBlock(2, 10, map[uint32]map[int]int64{9: {4: 300, 10: 81}})}},
		}
		for _, es := range files {
			fc.flush(es, true)
		}
		fc.openFault = &openFault{idx: pl.idx, kind: pl.kind}
		fc.compact(c.Rng(14), 0, "huge", 0)
		fc.viewAllRepeat(3)
		fc.compact(c.Rng(14), 0, "huge", 0) // undisturbed: merges the same three inputs
		fc.viewAllRepeat(3)
		// second round: two more level-0 files; the fault hits the picked level-1 file (position 2)
		fc.flush([]Entry{{10, sumBlock(0, 4, map[uint32]map[int]int64{5: {0: 1000}, 12: {4: 91}})}}, true)
		fc.flush([]Entry{{30, sumBlock(4, 6, map[uint32]map[int]int64{9: {4: 2000}, 13: {6: 92}})}}, true)
		fc.openFault = &openFault{idx: 2, kind: pl.kind}
		fc.compact(c.Rng(14), 0, "huge", 0)
		fc.viewAllRepeat(3)
		fc.compact(c.Rng(14), 0, "huge", 0)
		fc.viewAllRepeat(3)
		fc.env.close()
	}
	c.NonTrivial()
}
