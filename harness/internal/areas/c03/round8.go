package c03

// Round 8: slots at the top of the uint16 range (witness of finding F3 in a child process, because the
// failure is a loop that never ends), damaged input blocks on the merge read path (`dmerge` ops; no
// oracle: damaged blocks are not flushed blocks), one-field / many-field block shapes mixed across the
// inputs of one merge.

import (
	"context"
	"encoding/binary"
	"fmt"
	"math/rand"
	"os"
	"os/exec"
	"sort"
	"strings"
	"time"

	"github.com/lindb/lindb/kv"
	"github.com/lindb/lindb/pkg/encoding"
	"github.com/lindb/lindb/tsdb/tblstore/metricsdata"
	"github.com/lindb/lindb/zzverif/internal/core"
)

const (
	keySlot65535  = "merge-hangs-at-end-slot-65535"
	probeArg      = "c03-slot-probe"
	probeDeadline = 2 * time.Second
)

// slotWitnessBlocks: two single-field sum blocks over [65530, end], series 1.
func slotWitnessBlocks(end int) []*Block {
	a := sumBlock(65530, end, map[uint32]map[int]int64{1: {65530: 1, end: 2}})
	b := sumBlock(65530, end, map[uint32]map[int]int64{1: {65530: 10, end: 20}})
	return []*Block{a, b}
}

// init: `lvh c03-slot-probe <end>` is the child process of the F3 witness: it merges the two witness
// blocks with the real merger on a goroutine and reports `hang` when the merge has not returned after
// probeDeadline (the process then exits, taking the spinning goroutine with it).
func init() {
	if len(os.Args) < 3 || os.Args[1] != probeArg {
		return
	}
	end := 0
	fmt.Sscan(os.Args[2], &end)
	var datas [][]byte
	for _, b := range slotWitnessBlocks(end) {
		d, err := buildBlockBytes(7, b)
		if err != nil {
			fmt.Println("err build " + err.Error())
			os.Exit(0)
		}
		datas = append(datas, d)
	}
	done := make(chan string, 1)
	go func() {
		defer func() {
			if r := recover(); r != nil {
				done <- fmt.Sprintf("panic %v", r)
			}
		}()
		nop := kv.NewNopFlusher()
		m, err := metricsdata.NewMerger(nop)
		if err != nil {
			done <- "err new-merger"
			return
		}
		if err := m.Merge(7, datas); err != nil {
			done <- "err merge"
			return
		}
		done <- fmt.Sprintf("returned %x", nop.Bytes())
	}()
	select {
	case r := <-done:
		fmt.Println(r)
	case <-time.After(probeDeadline):
		fmt.Println("hang")
	}
	os.Exit(0)
}

// runSlotProbe starts the child and returns its one-line verdict.
func runSlotProbe(end int) string {
	ctx, cancel := context.WithTimeout(context.Background(), 60*time.Second)
	defer cancel()
	exe, err := os.Executable()
	if err != nil {
		exe = os.Args[0]
	}
	out, err := exec.CommandContext(ctx, exe, probeArg, fmt.Sprint(end)).Output()
	if err != nil {
		return "err child " + err.Error()
	}
	return strings.TrimSpace(string(out))
}

// witnessSlot65535 replays finding F3: a compaction merge over blocks whose slot range ends at slot
// 65535 never returns (uint16 loop variable in DownSamplingMultiSeriesInto); the same blocks ending at
// 65534 merge correctly.
func (a area) witnessSlot65535(c *core.Ctx) {
	// one slot below the top: in-process, full oracle
	mergeOp(c, slotWitnessBlocks(65534))
	blocks := slotWitnessBlocks(65535)
	var words []string
	for _, b := range blocks {
		words = append(words, b.String())
	}
	verdict := runSlotProbe(65535)
	out := ""
	switch {
	case verdict == "hang":
		out = "hang"
		c.Branch("slot65535/hang")
		c.Fail(keySlot65535, fmt.Sprintf("metricsdata merger: Merge of two blocks over slots [65530,65535] did not return within %v "+
			"(DownSamplingMultiSeriesInto: `movingSourceSlot <= decoder.EndTime()` with a uint16 loop variable never fails for EndTime 65535)", probeDeadline))
	case strings.HasPrefix(verdict, "returned "):
		c.Branch("slot65535/returns")
		var data []byte
		fmt.Sscanf(strings.TrimPrefix(verdict, "returned "), "%x", &data)
		mb, err := decodeBlock(data)
		if err != nil {
			c.Fail("decode-merged", err.Error())
			out = "err decode"
			break
		}
		out = "ok " + mb.Canonical().String()
		checkMerged(c, blocks, mb)
	default:
		out = verdict
		c.Fail("slot65535-probe", "child process answered "+verdict)
	}
	c.Op("mergew "+strings.Join(words, " "), out)
	c.NonTrivial()
}

// ---------------------------------------------------------------- damaged blocks

type footerPos struct {
	footer, fieldMeta, seriesIDs, highOffs int
}

func readFooter(d []byte) (footerPos, bool) {
	const footerSize = 2 + 2 + 4 + 4 + 4 + 4
	if len(d) <= footerSize {
		return footerPos{}, false
	}
	fp := footerPos{footer: len(d) - footerSize}
	fp.fieldMeta = int(binary.LittleEndian.Uint32(d[fp.footer+4:]))
	fp.seriesIDs = int(binary.LittleEndian.Uint32(d[fp.footer+8:]))
	fp.highOffs = int(binary.LittleEndian.Uint32(d[fp.footer+12:]))
	return fp, true
}

// damage returns a damaged copy of the block bytes. kind: "short" (cut to the footer size), "footer"
// (field-meta position beyond the series-ids position), "fieldcount" (field count byte zero) — all
// three are rejected by NewReader; "bucket" + index: the 4-byte position of the low-key offsets at
// the end of the series bucket of that container is set to the bucket's length (nextContainer:
// `lowKeyOffsetsAt+4 >= len`). ok = false when the damage does not apply (zero-length bucket).
func damage(d []byte, kind string, bucketIdx int) ([]byte, bool) {
	out := append([]byte(nil), d...)
	fp, ok := readFooter(out)
	if !ok {
		return nil, false
	}
	switch kind {
	case "short":
		return out[len(out)-20:], true
	case "footer":
		binary.LittleEndian.PutUint32(out[fp.footer+4:], uint32(fp.seriesIDs+1))
		return out, true
	case "fieldcount":
		out[fp.fieldMeta] = 0
		return out, true
	case "bucket":
		dec := encoding.NewFixedOffsetDecoder()
		if _, err := dec.Unmarshal(out[fp.highOffs:]); err != nil {
			return nil, false
		}
		bucket, err := dec.GetBlock(bucketIdx, out[:fp.fieldMeta])
		if err != nil || len(bucket) <= 4 {
			return nil, false
		}
		binary.LittleEndian.PutUint32(bucket[len(bucket)-4:], uint32(len(bucket)))
		return out, true
	}
	return nil, false
}

func highKeysOfBlock(b *Block) []int {
	var hks []int
	for _, s := range b.Series {
		hk := int(s.ID >> 16)
		if len(hks) == 0 || hks[len(hks)-1] != hk {
			hks = append(hks, hk)
		}
	}
	return hks
}

// damagedMergeOp merges blocks some of which are damaged (`dmerge` op). Correspondence only: which
// damage makes Merge return an error and which is swallowed is compared with the model
// (Model/MergeLoop Damage); the C03 oracle does not speak, damaged blocks are not flushed blocks.
func damagedMergeOp(c *core.Ctx, r *rand.Rand, blocks []*Block) {
	var datas [][]byte
	var words, specs []string
	anyDamage := false
	for i, b := range blocks {
		d, err := buildBlockBytes(7, b)
		if err != nil {
			c.Fail("harness-build-block", fmt.Sprintf("%v %s", err, b.String()))
			return
		}
		spec := "-"
		// the last block is damaged for sure when none was before
		if r.Intn(3) == 0 || (i == len(blocks)-1 && !anyDamage) {
			switch r.Intn(5) {
			case 0:
				kind := []string{"short", "footer", "fieldcount"}[r.Intn(3)]
				if dd, ok := damage(d, kind, 0); ok {
					d, spec = dd, "h"
					c.Branch("damaged/header-" + kind)
				}
			default:
				hks := highKeysOfBlock(b)
				// one or two buckets; the first one in a third of the picks
				var picked []int
				idx := r.Intn(len(hks))
				if len(hks) > 1 && r.Intn(4) != 0 {
					idx = 1 + r.Intn(len(hks)-1)
				}
				dd := d
				ok := false
				if dd, ok = damage(dd, "bucket", idx); ok {
					picked = append(picked, hks[idx])
					if len(hks) > 1 && r.Intn(3) == 0 {
						j := r.Intn(len(hks))
						if j != idx {
							if d2, ok2 := damage(dd, "bucket", j); ok2 {
								dd = d2
								picked = append(picked, hks[j])
							}
						}
					}
					sort.Ints(picked)
					var ps []string
					for _, k := range picked {
						ps = append(ps, fmt.Sprint(k))
					}
					d, spec = dd, "b"+strings.Join(ps, ",")
					if idx == 0 {
						c.Branch("damaged/first-bucket")
					} else {
						c.Branch("damaged/later-bucket")
					}
				}
			}
		}
		if spec != "-" {
			anyDamage = true
		}
		datas = append(datas, d)
		words = append(words, b.String())
		specs = append(specs, spec)
	}
	c.Guard("dmerge "+strings.Join(specs, ";")+" "+strings.Join(words, " "), func() string {
		nop := kv.NewNopFlusher()
		m, err := metricsdata.NewMerger(nop)
		if err != nil {
			return "err new-merger"
		}
		if err := m.Merge(7, datas); err != nil {
			c.Branch("damaged/merge-fails")
			return "err merge"
		}
		if len(nop.Bytes()) == 0 {
			return "err empty"
		}
		mb, err := decodeBlock(append([]byte(nil), nop.Bytes()...))
		if err != nil {
			return "err decode"
		}
		if anyDamage {
			c.Branch("damaged/merge-succeeds(damage swallowed)")
		} else {
			c.Branch("damaged/no-damage-applied")
		}
		c.NonTrivial()
		return "ok " + mb.Canonical().String()
	})
}

func (area) runDamagedCase(c *core.Ctx, r *rand.Rand) {
	region := []string{"", "single-field", "multi-field"}[r.Intn(3)]
	sc := genSchema(r, region)
	pool := genSeriesPool(r)
	sp := genSlotPlan(r)
	n := 1 + r.Intn(4)
	mode := r.Intn(3)
	var blocks []*Block
	for i := 0; i < n; i++ {
		blocks = append(blocks, genBlock(r, sc, pool, sp, mode))
	}
	damagedMergeOp(c, r, blocks)
}

// ---------------------------------------------------------------- mixed block shapes

// scenarioMixedShapes: the same metric as a ONE-field block (two different lone field ids), as a
// two-field and as a three-field block, merged in several orders and compacted: a one-field block
// must contribute to its own field only (fieldReader.GetFieldData looks the field id up before it
// takes the one-field shortcut).
func (a area) scenarioMixedShapes(c *core.Ctx) {
	mk := func(start, end int, fields []FieldMeta, series map[uint32]map[int]map[int]int64) *Block {
		b := &Block{Fields: fields, Start: start, End: end}
		var ids []uint32
		for id := range series {
			ids = append(ids, id)
		}
		sort.Slice(ids, func(i, j int) bool { return ids[i] < ids[j] })
		for _, id := range ids {
			b.Series = append(b.Series, SeriesEntry{ID: id, Fields: series[id]})
		}
		return b
	}
	one1 := mk(5, 6, []FieldMeta{{1, tySum}}, map[uint32]map[int]map[int]int64{
		7: {1: {5: 1, 6: 2}}, 8: {1: {6: 10}}, 65543: {1: {5: 3}}})
	one2 := mk(4, 9, []FieldMeta{{2, tySum}}, map[uint32]map[int]map[int]int64{
		7: {2: {4: 1000}}, 9: {2: {9: 2000}}})
	two := mk(5, 9, []FieldMeta{{1, tySum}, {2, tySum}}, map[uint32]map[int]map[int]int64{
		7: {1: {9: 50}, 2: {9: 100}}, 8: {2: {7: 70}}, 65543: {1: {5: 4}, 2: {6: 5}}})
	three := mk(5, 7, []FieldMeta{{3, tyMax}, {2, tySum}, {1, tySum}}, map[uint32]map[int]map[int]int64{
		7: {3: {5: 9}, 1: {5: 7}}, 65543: {3: {7: 8}}})
	for _, in := range [][]*Block{
		{one1, two}, {two, one1}, {one1, one2}, {one2, one1, two}, {three, one1}, {one2, three}, {one1, one2, two, three}, {one1},
	} {
		mergeOp(c, in)
	}
	fc := newFamCase(c, 0, 0)
	if fc == nil {
		return
	}
	defer fc.env.close()
	for _, b := range []*Block{one1, two, one2} {
		fc.flush([]Entry{{Metric: 11, Block: b}}, true)
	}
	fc.viewAll()
	fc.compact(c.Rng(11), 0, "huge", 0)
	fc.viewAll()
	fc.flush([]Entry{{Metric: 11, Block: three}}, true)
	fc.flush([]Entry{{Metric: 11, Block: one1}}, true)
	fc.compact(c.Rng(11), 0, "huge", 0)
	fc.viewAll()
	c.NonTrivial()
}
