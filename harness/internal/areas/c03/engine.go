package c03

import (
	"bytes"
	"fmt"
	"os"
	"time"

	protoMetricsV1 "github.com/lindb/common/proto/gen/v1/linmetrics"

	"github.com/lindb/lindb/config"
	"github.com/lindb/lindb/kv"
	"github.com/lindb/lindb/models"
	"github.com/lindb/lindb/pkg/option"
	"github.com/lindb/lindb/pkg/timeutil"
	"github.com/lindb/lindb/series/metric"
	"github.com/lindb/lindb/tsdb"

	"github.com/lindb/lindb/zzverif/internal/core"
)

// engineBase is 2023-06-15 12:00:00 UTC.
const engineBase = int64(1686830400000)

// writeSeries sends one row per series s<from>..s<to-1> of the single-field metric "M" through the
// real ingestion conversion and the data family's write path.
func writeSeries(f tsdb.DataFamily, ts int64, from, to int, v float64) error {
	ml := protoMetricsV1.MetricList{}
	for i := from; i < to; i++ {
		m := &protoMetricsV1.Metric{Name: "M", Namespace: "ns", Timestamp: ts}
		m.Tags = append(m.Tags, &protoMetricsV1.KeyValue{Key: "k", Value: fmt.Sprintf("s%d", i)})
		m.SimpleFields = append(m.SimpleFields, &protoMetricsV1.SimpleField{Name: "f1", Value: v, Type: protoMetricsV1.SimpleFieldType_DELTA_SUM})
		ml.Metrics = append(ml.Metrics, m)
	}
	var buf bytes.Buffer
	conv := metric.NewProtoConverter(models.NewDefaultLimits())
	if _, err := conv.MarshalProtoMetricListV1To(ml, &buf); err != nil {
		return err
	}
	var br metric.StorageBatchRows
	br.UnmarshalRows(buf.Bytes())
	return f.WriteRows(br.Rows())
}

// realEngineWitness (thorough tier only, ~8 s) shows that finding F2 is reachable from blocks a
// real memory database flushes: a single-field metric with 131074 series (three roaring
// containers); in the second family only s0, s131072 and s131073 report. The flushed blocks list
// every series of the shard index, the 65536 series of the middle container with zero-length
// entries. After a real compaction of that family the values of s131072/s131073 must still be
// readable. No model ops: only the impl-side oracle speaks.
func (a area) realEngineWitness(c *core.Ctx) {
	dir, err := os.MkdirTemp("", "lvh-c03e-*")
	if err != nil {
		c.Fail("harness-engine", err.Error())
		return
	}
	defer os.RemoveAll(dir)
	cfg := config.NewDefaultStorageBase()
	cfg.TSDB.Dir = dir
	config.SetGlobalStorageConfig(cfg)
	engine, err := tsdb.NewEngine()
	if err != nil {
		c.Fail("harness-engine", err.Error())
		return
	}
	defer engine.Close()
	opt := &option.DatabaseOption{Intervals: option.Intervals{{Interval: timeutil.Interval(10000), Retention: timeutil.Interval(200 * 365 * 24 * 3600 * 1000)}}, AutoCreateNS: true}
	if err := engine.CreateShards("c03db", opt, models.ShardID(1)); err != nil {
		c.Fail("harness-engine", err.Error())
		return
	}
	db, _ := engine.GetDatabase("c03db")
	shard, _ := db.GetShard(models.ShardID(1))
	f0, err0 := shard.GetOrCrateDataFamily(engineBase)
	f1, err1 := shard.GetOrCrateDataFamily(engineBase + 3600*1000)
	if err0 != nil || err1 != nil {
		c.Fail("harness-engine", fmt.Sprintf("%v %v", err0, err1))
		return
	}
	const n = 131074
	for i := 0; i < n; i += 5000 {
		to := i + 5000
		if to > n {
			to = n
		}
		if err := writeSeries(f0, engineBase+10000, i, to, 1); err != nil {
			c.Fail("harness-engine", err.Error())
			return
		}
		time.Sleep(50 * time.Millisecond)
	}
	time.Sleep(2 * time.Second) // index/metadata workers assign the series ids in arrival order
	if err := f0.Flush(); err != nil {
		c.Fail("harness-engine", err.Error())
		return
	}
	for round := 0; round < 2; round++ {
		ts := engineBase + 3600*1000 + int64(10000*(round+1))
		e1 := writeSeries(f1, ts, 0, 1, 3)
		e2 := writeSeries(f1, ts, 131072, 131074, 5)
		time.Sleep(300 * time.Millisecond)
		if e3 := f1.Flush(); e1 != nil || e2 != nil || e3 != nil {
			c.Fail("harness-engine", fmt.Sprintf("%v %v %v", e1, e2, e3))
			return
		}
	}
	fam := f1.Family()
	read := func() (map[uint32]int, int, error) {
		snap := fam.GetSnapshot()
		defer snap.Close()
		withData := map[uint32]int{}
		series := 0
		var blocks [][]byte
		err := snap.Load(0, func(v []byte) error { blocks = append(blocks, append([]byte(nil), v...)); return nil })
		if err != nil {
			return nil, 0, err
		}
		for _, d := range blocks {
			b, err := decodeBlock(d)
			if err != nil {
				return nil, 0, err
			}
			if len(b.Series) > series {
				series = len(b.Series)
			}
			for _, s := range b.Series {
				for _, vals := range s.Fields {
					withData[s.ID] += len(vals)
				}
			}
		}
		return withData, series, nil
	}
	before, nseries, err := read()
	if err != nil {
		c.Fail("harness-engine", err.Error())
		return
	}
	c.Note(fmt.Sprintf("real engine: flushed blocks list %d series, points per series with data before compaction: %v", nseries, before))
	if len(before) != 3 || nseries != n {
		c.Note("real engine: series ids were not handed out as expected; witness not applicable on this run")
		return
	}
	var cerr error
	func() {
		defer func() {
			if r := recover(); r != nil {
				cerr = fmt.Errorf("panic: %v", r)
			}
		}()
		cerr = kv.VerifC03CompactSync(fam)
	}()
	if cerr != nil {
		c.Fail("compact-failed", "real engine: "+cerr.Error())
		return
	}
	after, _, err := read()
	if err != nil {
		c.Fail("harness-engine", err.Error())
		return
	}
	c.Note(fmt.Sprintf("real engine: points per series with data after compaction: %v", after))
	for id, pts := range before {
		if after[id] != pts {
			key := "slot-disappears"
			if id >= 131072 {
				key = keyDeadMiddle
			}
			c.Fail(key, fmt.Sprintf("real engine (memdb-flushed blocks, 131074 series): series %d had %d points before the compaction and %d after", id, pts, after[id]))
		}
	}
	c.Branch("engine/real-memdb-witness")
	c.NonTrivial()
}
