package c03

import (
	"fmt"
	"math"
	"math/rand"
	"sort"
	"strings"

	"github.com/lindb/lindb/aggregation"
	"github.com/lindb/lindb/pkg/bit"
	"github.com/lindb/lindb/pkg/encoding"
	"github.com/lindb/lindb/pkg/timeutil"
	"github.com/lindb/lindb/series/field"
	"github.com/lindb/lindb/zzverif/internal/core"
)

// Round 12: the arm / consume discipline of the pooled TSD decoders (Model/C03FastPath.lean).
//
// Protocol op
//
//	dsteps <ratio> <base> <tStart> <len> <nblocks> <step> <step> ...
//	<step> = <field type code>:<n|a|p>:<fd>;<fd>;...    one <fd> per block: `-` (no data) or <a>_<b>@slot=val,slot=val
//	-> ok <acc>~<pos,pos,..> <acc>~<pos,..> ...          per step; <acc> = `-` (nothing decoded) or p=v,p=v (target positions)
//
// One []*encoding.TSDDecoder slice lives over all steps, as decodeStreams does over the series and fields of one
// merger.Merge call. Path n = what an iteration of the field loop of seriesMerger.merge does: ResetWithTimeRange on the
// decoder of every block with data, then the real aggregation.DownSamplingMultiSeriesInto over the whole slice.
// Path a = the arming loop only (an iteration that leaves the field loop before the down-sampling call: the shape of a
// fast path behind the reader loop); path p = nothing touched. The tree has only path n; a and p are played by the
// harness on the real decoder objects so that the model's decoder positions (Dec.read / decLoop / downAll) are compared
// with the real TSDDecoder + the real slot loop also in the states a disciplined merge never produces (armed and never
// read, broken off half-way by a rollup-like target range). <pos> = the decoder's read position (Slot()+1-StartTime()),
// `-` for a nil decoder.

type dFD struct {
	has  bool
	a, b int
	vals map[int]int64
}

type dStep struct {
	ty   int
	path byte
	fds  []dFD
}

func (f dFD) String() string {
	if !f.has {
		return "-"
	}
	var slots []int
	for t := range f.vals {
		slots = append(slots, t)
	}
	sort.Ints(slots)
	parts := make([]string, len(slots))
	for i, t := range slots {
		parts[i] = fmt.Sprintf("%d=%d", t, f.vals[t])
	}
	return fmt.Sprintf("%d_%d@%s", f.a, f.b, strings.Join(parts, ","))
}

func (s dStep) String() string {
	parts := make([]string, len(s.fds))
	for i, f := range s.fds {
		parts[i] = f.String()
	}
	return fmt.Sprintf("%d:%c:%s", s.ty, s.path, strings.Join(parts, ";"))
}

// encodeFD encodes the field data of one block the way the flusher's encoder does: one bit per slot of [a,b], the value
// right behind a set bit.
func encodeFD(f dFD) ([]byte, error) {
	enc := encoding.NewTSDEncoder(uint16(f.a))
	for t := f.a; t <= f.b; t++ {
		if v, ok := f.vals[t]; ok {
			enc.AppendTime(bit.One)
			enc.AppendValue(math.Float64bits(float64(v)))
		} else {
			enc.AppendTime(bit.Zero)
		}
	}
	d, err := enc.BytesWithoutTime()
	if err != nil {
		return nil, err
	}
	return append([]byte(nil), d...), nil
}

func decoderStepsOp(c *core.Ctx, ratio, base, tStart, length, nblocks int, steps []dStep) {
	words := make([]string, len(steps))
	for i, s := range steps {
		words[i] = s.String()
	}
	op := fmt.Sprintf("dsteps %d %d %d %d %d %s", ratio, base, tStart, length, nblocks, strings.Join(words, " "))
	c.Guard(op, func() string {
		streams := make([]*encoding.TSDDecoder, nblocks)
		defer func() {
			for _, s := range streams {
				encoding.ReleaseTSDDecoder(s)
			}
		}()
		target := timeutil.SlotRange{Start: uint16(tStart), End: uint16(tStart + length - 1)}
		var outs []string
		for _, st := range steps {
			acc := "-"
			if st.path != 'p' {
				for idx, f := range st.fds {
					if !f.has {
						continue
					}
					data, err := encodeFD(f)
					if err != nil {
						return "err encode"
					}
					if len(data) == 0 {
						continue // len(fieldData) > 0 is the arming condition
					}
					if streams[idx] == nil {
						streams[idx] = encoding.GetTSDDecoder()
					}
					streams[idx].ResetWithTimeRange(data, uint16(f.a), uint16(f.b))
				}
			}
			if st.path == 'n' {
				var cells []string
				aggregation.DownSamplingMultiSeriesInto(target, uint16(ratio), uint16(base), field.Type(st.ty), streams,
					func(pos int, v float64) {
						if math.IsInf(v, 1) {
							return
						}
						if iv, ok := toInt(v); ok {
							cells = append(cells, fmt.Sprintf("%d=%d", pos, iv))
						} else {
							cells = append(cells, fmt.Sprintf("%d=?%v", pos, v))
						}
					})
				acc = strings.Join(cells, ",")
			}
			pos := make([]string, nblocks)
			for i, s := range streams {
				if s == nil {
					pos[i] = "-"
				} else {
					pos[i] = fmt.Sprint(int(uint16(s.Slot() + 1 - s.StartTime())))
				}
			}
			outs = append(outs, acc+"~"+strings.Join(pos, ","))
		}
		return "ok " + strings.Join(outs, " ")
	})
	c.NonTrivial()
}

// runDecoderSteps: a random sequence of field steps over 1-4 blocks.
func (area) runDecoderSteps(c *core.Ctx, r *rand.Rand) {
	nblocks := 1 + r.Intn(4)
	ratio, base := 1, 0
	tStart, length := r.Intn(12), 1+r.Intn(24)
	if r.Intn(3) == 0 {
		ratio = 2 + r.Intn(4)
		base = r.Intn(4)
		c.Branch("dsteps/ratio>1")
	} else {
		c.Branch("dsteps/ratio=1")
	}
	// per block a fixed slot range (a block has ONE slot range for all its series and fields)
	type rg struct{ a, b int }
	ranges := make([]rg, nblocks)
	for i := range ranges {
		lo := tStart * ratio
		hi := (tStart+length)*ratio - 1
		switch r.Intn(5) {
		case 0: // exactly the source image of the target range
			ranges[i] = rg{lo, hi}
		case 1: // reaches past the target range: the `break`
			a := lo + r.Intn(length*ratio)
			ranges[i] = rg{a, hi + 1 + r.Intn(2*ratio+3)}
			c.Branch("dsteps/range-past-target")
		case 2: // starts before the target range: `targetPos < 0`
			a := lo - r.Intn(lo+1)
			ranges[i] = rg{a, a + r.Intn(hi-a+1)}
			c.Branch("dsteps/range-before-target")
		default:
			a := lo + r.Intn(length*ratio)
			ranges[i] = rg{a, a + r.Intn(hi-a+1)}
		}
	}
	types := []int{tySum, tyMin, tyMax, tyLast, tyHist, tyFirst}
	nsteps := 2 + r.Intn(8)
	var steps []dStep
	for k := 0; k < nsteps; k++ {
		st := dStep{ty: types[r.Intn(len(types))], path: 'n'}
		switch r.Intn(8) {
		case 0:
			st.path = 'a'
			c.Branch("dsteps/armed-bypass")
		case 1:
			st.path = 'p'
			c.Branch("dsteps/plain-bypass")
		}
		for i := 0; i < nblocks; i++ {
			f := dFD{}
			if r.Intn(5) >= 2 {
				f = dFD{has: true, a: ranges[i].a, b: ranges[i].b, vals: map[int]int64{}}
				for t := f.a; t <= f.b; t++ {
					if r.Intn(3) != 0 {
						f.vals[t] = int64(1 + r.Intn(1000))
					}
				}
			} else {
				c.Branch("dsteps/block-without-data")
			}
			st.fds = append(st.fds, f)
		}
		steps = append(steps, st)
	}
	decoderStepsOp(c, ratio, base, tStart, length, nblocks, steps)
}

// scenarioArmConsume (case 15): the shape in which an armed, unread decoder shows. File A spans the whole union slot
// range and is the ONLY source of a series (so anything that short-cuts "one source, same range" applies to it), and the
// next series in id order is not in A and is merged by decoding (two other sources, or one narrower source). First at
// component level (`dsteps`, all three paths), then through the real merger and a real family compaction.
func (a area) scenarioArmConsume(c *core.Ctx) {
	av := map[int]int64{5: 305, 6: 306, 9: 309, 12: 312, 15: 315}
	bv := map[int]int64{8: 2008, 9: 2009, 12: 2012}
	for _, p := range []byte{'n', 'p', 'a'} {
		decoderStepsOp(c, 1, 0, 5, 11, 2, []dStep{
			{ty: tySum, path: p, fds: []dFD{{has: true, a: 5, b: 15, vals: av}, {}}},
			{ty: tySum, path: 'n', fds: []dFD{{}, {has: true, a: 8, b: 12, vals: bv}}},
			{ty: tySum, path: 'n', fds: []dFD{{}, {}}},
			{ty: tyLast, path: 'n', fds: []dFD{{has: true, a: 5, b: 15, vals: av}, {has: true, a: 8, b: 12, vals: bv}}},
		})
	}
	// rollup-like: the target range is shorter than the mapped source, the break leaves the decoder half-way
	decoderStepsOp(c, 2, 0, 0, 2, 1, []dStep{
		{ty: tySum, path: 'n', fds: []dFD{{has: true, a: 0, b: 7, vals: map[int]int64{0: 1, 1: 2, 2: 3, 5: 4, 6: 5}}}},
		{ty: tySum, path: 'n', fds: []dFD{{}}},
		{ty: tyMax, path: 'a', fds: []dFD{{has: true, a: 0, b: 7, vals: map[int]int64{1: 7, 3: 9}}}},
		{ty: tyMax, path: 'n', fds: []dFD{{}}},
	})
	// the same shape through the real merger: series 3 in both, 10 only in A, 20 only in B (narrower)
	A := sumBlock(5, 15, map[uint32]map[int]int64{3: {5: 1, 15: 2}, 10: av})
	B := sumBlock(8, 12, map[uint32]map[int]int64{3: {8: 10, 12: 20}, 20: bv})
	C := sumBlock(5, 15, map[uint32]map[int]int64{20: {5: 7, 15: 8}, 65546: {6: 1}})
	D := sumBlock(5, 15, map[uint32]map[int]int64{65540: {5: 41, 10: 42, 15: 43}})
	for _, in := range [][]*Block{{A, B}, {B, A}, {A, B, C}, {D, B, C}, {D, A, B}, {A}} {
		mergeOp(c, in)
	}
	// two fields: field 1 single-source over the full range, field 2 of the same series from a narrower block only
	mk := func(start, end int, fields []FieldMeta, series map[uint32]map[int]map[int]int64) *Block {
		b := &Block{Fields: fields, Start: start, End: end}
		var ids []uint32
		for id := range series {
			ids = append(ids, id)
		}
		sort.Slice(ids, func(i, j int) bool { return ids[i] < ids[j] })
		for _, id := range ids {
			b.Series = append(b.Series, SeriesEntry{ID: id, Fields: series[id]})
		}
		return b
	}
	E := mk(5, 15, []FieldMeta{{1, tySum}}, map[uint32]map[int]map[int]int64{7: {1: av}})
	F := mk(8, 12, []FieldMeta{{2, tySum}}, map[uint32]map[int]map[int]int64{7: {2: bv}})
	mergeOp(c, []*Block{E, F})
	mergeOp(c, []*Block{F, E})
	fc := newFamCase(c, 0, 0)
	if fc == nil {
		return
	}
	defer fc.env.close()
	for _, b := range []*Block{A, B} {
		fc.flush([]Entry{{Metric: 21, Block: b}}, true)
	}
	fc.flush([]Entry{{Metric: 22, Block: D}}, true)
	fc.flush([]Entry{{Metric: 22, Block: B}, {Metric: 23, Block: C}}, true)
	fc.viewAll()
	fc.compact(c.Rng(15), 0, "huge", 0)
	fc.viewAll()
	fc.reopen()
	fc.viewAll()
	fc.flush([]Entry{{Metric: 21, Block: C}}, true)
	fc.flush([]Entry{{Metric: 23, Block: A}}, true)
	fc.compact(c.Rng(15), 0, "huge", 0)
	fc.viewAll()
	fc.reopen()
	fc.viewAll()
	fc.flush([]Entry{{Metric: 22, Block: A}}, true)
	fc.reopen() // a level-0 file that only the manifest knows
	fc.viewAll()
	fc.compact(c.Rng(15), 0, "huge", 0)
	fc.viewAll()
	c.NonTrivial()
}

// reopen: the store is closed and opened again between two steps of a history (protocol op `reopen`; the model's family
// is unchanged by it). What a reader observes afterwards comes from the manifest and from table files opened afresh: an
// install whose persisted edit differs from what was applied in memory (an input not recorded as deleted, an output
// recorded under the wrong level), or an obsolete-file sweep that removed a live table, shows here and nowhere before.
func (fc *famCase) reopen() {
	fc.guard("reopen", func() string {
		if err := fc.env.reopen(); err != nil {
			fc.c.Fail("reopen-failed", "closing and reopening the store between two steps of a flush/compact history failed: "+err.Error())
			return "err reopen"
		}
		return "ok " + fc.levelsText()
	})
	fc.c.Branch("fam/reopen")
}
