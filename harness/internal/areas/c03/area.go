package c03

import (
	"fmt"
	"math/rand"
	"sort"
	"strconv"
	"strings"

	"github.com/lindb/lindb/kv"
	"github.com/lindb/lindb/kv/table"
	"github.com/lindb/lindb/kv/version"
	"github.com/lindb/lindb/pkg/bufioutil"
	"github.com/lindb/lindb/tsdb/tblstore/metricsdata"

	"github.com/lindb/lindb/zzverif/internal/core"
)

type area struct{}

func init() { core.Register(area{}) }

func (area) Name() string { return "mdmerge" }

// scannerTolerant: does the merger of the tree under test keep the containers behind a zero-length
// series bucket? (measured once per run on the F2 witness blocks; when it does, the random
// generators also produce zero-length entries in single-field blocks)
var scannerTolerant bool

// silentFamilies: families opened while it is set emit no protocol lines
var silentFamilies bool

// failRemap lets a witness case report the generic oracle failures of its known shape under the
// recorded finding's stable key.
var failRemap func(key string, series uint32) string

func failSeries(c *core.Ctx, key string, series uint32, desc string) {
	if failRemap != nil {
		key = failRemap(key, series)
	}
	c.Fail(key, desc)
}

// field type codes of series/field/type.go
const (
	tySum, tyMin, tyMax, tyLast, tyHist, tyFirst = 1, 2, 3, 4, 5, 6
)

func orderFree(ty int) bool { return ty != tyLast && ty != tyFirst }

// combine is the harness's own arithmetic for the impl-side oracle (exact integers).
func combine(ty int, vals []int64) int64 {
	acc := vals[0]
	for _, v := range vals[1:] {
		switch ty {
		case tySum, tyHist:
			acc += v
		case tyMin:
			if v < acc {
				acc = v
			}
		case tyMax:
			if v > acc {
				acc = v
			}
		case tyLast:
			acc = v
		case tyFirst:
		}
	}
	return acc
}

// ---------------------------------------------------------------- generators

type schema struct {
	fields []FieldMeta // the metric's fields (id -> type), ids distinct
}

func genSchema(r *rand.Rand, region string) schema {
	n := 1 + r.Intn(4)
	if region == "single-field" {
		n = 1
	}
	if region == "multi-field" && n < 2 {
		n = 2 + r.Intn(3)
	}
	ids := r.Perm(12)[:n]
	var s schema
	for _, id := range ids {
		ty := 1 + r.Intn(6)
		if region == "order-free" {
			ty = []int{tySum, tyMin, tyMax, tyHist}[r.Intn(4)]
		}
		s.fields = append(s.fields, FieldMeta{ID: id + 1, Ty: ty})
	}
	return s
}

// seriesPool: ids straddling the 65536 container boundary, plus a few far ones.
func genSeriesPool(r *rand.Rand) []uint32 {
	pool := []uint32{0, 1, 2, 3, 65533, 65534, 65535, 65536, 65537, 65538, 131071, 131072, 196610, 1 << 20, 1<<20 + 1}
	n := 2 + r.Intn(8)
	idx := r.Perm(len(pool))[:n]
	var out []uint32
	for _, i := range idx {
		out = append(out, pool[i])
	}
	sort.Slice(out, func(i, j int) bool { return out[i] < out[j] })
	return out
}

type slotPlan struct {
	lo, hi int // global window of the case
	wide   bool
}

func genSlotPlan(r *rand.Rand) slotPlan {
	switch r.Intn(6) {
	case 0: // > 360 slots: heap-allocated target buffer of DownSamplingMultiSeriesInto
		return slotPlan{lo: r.Intn(20), hi: 370 + r.Intn(60), wide: true}
	case 1:
		return slotPlan{lo: 0, hi: 3 + r.Intn(5)}
	default:
		lo := r.Intn(40)
		return slotPlan{lo: lo, hi: lo + 5 + r.Intn(40)}
	}
}

// genBlock builds one flushed block of the metric: a subset of the schema's fields (in random
// stored order), a sub-range of the slot window, a subset of the series pool.
func genBlock(r *rand.Rand, sc schema, pool []uint32, sp slotPlan, mode int, never ...map[uint32]map[int]bool) *Block {
	b := &Block{}
	// fields: subset, random order
	perm := r.Perm(len(sc.fields))
	k := 1 + r.Intn(len(sc.fields))
	if r.Intn(3) == 0 {
		k = len(sc.fields)
	}
	for _, i := range perm[:k] {
		b.Fields = append(b.Fields, sc.fields[i])
	}
	// slot range
	span := sp.hi - sp.lo
	switch mode % 3 {
	case 0: // anywhere inside the window
		a := sp.lo + r.Intn(span+1)
		z := a + r.Intn(sp.hi-a+1)
		b.Start, b.End = a, z
	case 1: // left or right half: disjoint ranges between blocks are likely
		mid := sp.lo + span/2
		if r.Intn(2) == 0 {
			b.Start, b.End = sp.lo, mid
		} else {
			b.Start, b.End = mid+1, sp.hi
			if b.Start > b.End {
				b.Start = b.End
			}
		}
	default: // whole window: full overlap
		b.Start, b.End = sp.lo, sp.hi
	}
	if sp.wide && r.Intn(2) == 0 {
		b.Start, b.End = sp.lo, sp.hi
	}
	// series
	ns := 1 + r.Intn(len(pool))
	sidx := r.Perm(len(pool))[:ns]
	sort.Ints(sidx)
	density := []int{1, 2, 4, 9}[r.Intn(4)]
	for _, i := range sidx {
		e := SeriesEntry{ID: pool[i], Fields: map[int]map[int]int64{}}
		skipSeries := false
		for _, f := range b.Fields {
			c := r.Intn(10)
			if len(never) > 0 && never[0][pool[i]][f.ID] {
				// this series never reports this field (in any file of the case)
				if len(b.Fields) > 1 || scannerTolerant {
					continue
				}
				skipSeries = true
				break
			}
			if c == 0 && (len(b.Fields) > 1 || scannerTolerant) {
				// FlushField(nil): memdb does this for a field the series has no page for. With a
				// single field the series entry would be zero bytes long, which a memory database
				// never flushes (a series in the flush set wrote that field); see design note.
				continue
			}
			vals := map[int]int64{}
			if c > 1 { // c == 1: data with no slot set
				for t := b.Start; t <= b.End; t++ {
					if r.Intn(density) == 0 {
						vals[t] = int64(r.Intn(2001) - 1000)
					}
				}
				if r.Intn(4) == 0 {
					vals[b.Start] = int64(r.Intn(100))
				}
				if r.Intn(4) == 0 {
					vals[b.End] = int64(r.Intn(100))
				}
			}
			e.Fields[f.ID] = vals
		}
		if skipSeries {
			continue
		}
		b.Series = append(b.Series, e)
	}
	if len(b.Series) == 0 {
		// keep at least one series (the first of the pool, with whatever it may report)
		e := SeriesEntry{ID: pool[sidx[0]], Fields: map[int]map[int]int64{}}
		for _, f := range b.Fields {
			if len(never) > 0 && never[0][e.ID][f.ID] && (len(b.Fields) > 1 || scannerTolerant) {
				continue
			}
			e.Fields[f.ID] = map[int]int64{b.Start: int64(r.Intn(100))}
		}
		b.Series = append(b.Series, e)
	}
	return b
}

// genNever picks, for about a third of the series, one field of the metric the series never
// reports in any block of the case (series of one metric reporting different field subsets; a
// field that exists only in files the series does not occur in).
func genNever(r *rand.Rand, sc schema, pool []uint32) map[uint32]map[int]bool {
	never := map[uint32]map[int]bool{}
	if len(sc.fields) < 2 {
		return never
	}
	for _, s := range pool {
		if r.Intn(3) == 0 {
			never[s] = map[int]bool{sc.fields[r.Intn(len(sc.fields))].ID: true}
			if len(sc.fields) > 2 && r.Intn(3) == 0 {
				never[s][sc.fields[r.Intn(len(sc.fields))].ID] = true
			}
		}
	}
	return never
}

// ---------------------------------------------------------------- case: direct merger calls

func (area) runMergeCase(c *core.Ctx, r *rand.Rand) {
	region := []string{"", "", "single-field", "multi-field", "order-free"}[r.Intn(5)]
	if region != "" {
		c.Branch("merge/" + region)
	}
	sc := genSchema(r, region)
	pool := genSeriesPool(r)
	sp := genSlotPlan(r)
	if sp.wide {
		c.Branch("merge/slots>360")
	}
	if r.Intn(12) == 0 {
		// the top of the uint16 slot range, one below the slot at which the slot loop wraps (finding F3)
		hi := 65534 - r.Intn(3)
		sp = slotPlan{lo: hi - 5 - r.Intn(40), hi: hi}
		c.Branch("merge/slots-near-65535")
	}
	var never map[uint32]map[int]bool
	if r.Intn(2) == 0 {
		never = genNever(r, sc, pool)
		if len(never) > 0 {
			c.Branch("merge/series-never-reports-a-field")
		}
	}
	rounds := 1 + r.Intn(3)
	for round := 0; round < rounds; round++ {
		n := 1 + r.Intn(5)
		mode := r.Intn(3)
		var blocks []*Block
		for i := 0; i < n; i++ {
			blocks = append(blocks, genBlock(r, sc, pool, sp, mode, never))
		}
		c.Branch(fmt.Sprintf("merge/inputs=%d", n))
		mergeOp(c, blocks)
	}
}

// mergeOp runs the real merger on the blocks (in order), mirrors it as a `merge` op and checks it.
func mergeOp(c *core.Ctx, blocks []*Block) {
	var datas [][]byte
	var words []string
	for _, b := range blocks {
		d, err := buildBlockBytes(7, b)
		if err != nil {
			c.Fail("harness-build-block", fmt.Sprintf("%v %s", err, b.String()))
			return
		}
		if !writeReadOp(c, b, d) {
			return
		}
		datas = append(datas, d)
		words = append(words, b.String())
	}
	var merged *Block
	c.Guard("merge "+strings.Join(words, " "), func() string {
		nop := kv.NewNopFlusher()
		m, err := metricsdata.NewMerger(nop)
		if err != nil {
			return "err new-merger"
		}
		if err := m.Merge(7, datas); err != nil {
			failSeries(c, "merge-error", 0, err.Error())
			return "err merge"
		}
		if len(nop.Bytes()) == 0 {
			c.Fail("merge-output-empty", fmt.Sprintf("Merge of %d blocks with series wrote a 0-byte block (every series dropped)", len(blocks)))
			return "err empty"
		}
		mb, err := decodeBlock(append([]byte(nil), nop.Bytes()...))
		if err != nil {
			c.Fail("decode-merged", err.Error())
			return "err decode"
		}
		merged = mb
		return "ok " + mb.Canonical().String()
	})
	if merged != nil {
		checkMerged(c, blocks, merged)
		c.NonTrivial()
	}
}

// writeReadOp mirrors the real block writer + reader on one logical block (`wr` op: the model's
// block writer and reader) and checks flush-then-read on the implementation: the reader must find
// exactly the cells, series ids and field metas handed to the flusher.
func writeReadOp(c *core.Ctx, b *Block, d []byte) bool {
	ok := true
	c.Guard("wr "+b.String(), func() string {
		if len(d) == 0 {
			c.Fail("flush-output-empty", "the flusher wrote a 0-byte block for "+b.String())
			ok = false
			return "err empty"
		}
		rb, err := decodeBlock(d)
		if err != nil {
			c.Fail("flush-read-mismatch", "decode: "+err.Error())
			ok = false
			return "err decode"
		}
		want, got := b.Canonical(), rb.Canonical()
		if want.String() != got.String() {
			// name the first differing cell
			desc := "written " + want.String() + " read " + got.String()
			gs := map[uint32]SeriesEntry{}
			for _, s := range got.Series {
				gs[s.ID] = s
			}
		find:
			for _, s := range want.Series {
				g, present := gs[s.ID]
				if !present {
					desc = fmt.Sprintf("series %d written, not read back; %s", s.ID, desc)
					break
				}
				for _, f := range want.Fields {
					for t := want.Start; t <= want.End; t++ {
						wv, w1 := s.Fields[f.ID][t]
						gv, g1 := g.Fields[f.ID][t]
						if w1 != g1 || wv != gv {
							desc = fmt.Sprintf("cell {series %d field %d slot %d}: written %v(%v) read %v(%v); %s", s.ID, f.ID, t, wv, w1, gv, g1, desc)
							break find
						}
					}
				}
			}
			if len(desc) > 600 {
				desc = desc[:600]
			}
			c.Fail("flush-read-mismatch", desc)
		}
		return "ok " + got.String()
	})
	return ok
}

// checkMerged is C03's statement on one real merge: per cell exact aggregate (sum/min/max/
// histogram) or membership (first/last), nothing appears or disappears.
func checkMerged(c *core.Ctx, inputs []*Block, out *Block) {
	type cellKey struct {
		s    uint32
		f, t int
	}
	contrib := map[cellKey][]int64{}
	series := map[uint32]bool{}
	ftype := map[int]int{}
	lo, hi := 1<<30, -1
	for _, b := range inputs {
		if b.Start < lo {
			lo = b.Start
		}
		if b.End > hi {
			hi = b.End
		}
		for _, f := range b.Fields {
			if _, ok := ftype[f.ID]; !ok {
				ftype[f.ID] = f.Ty
			}
		}
		for _, s := range b.Series {
			series[s.ID] = true
			for fid, vals := range s.Fields {
				for t, v := range vals {
					k := cellKey{s.ID, fid, t}
					contrib[k] = append(contrib[k], v)
				}
			}
		}
	}
	if out.Start != lo || out.End != hi {
		c.Fail("merge-slot-range", fmt.Sprintf("merged range %d..%d, inputs' hull %d..%d", out.Start, out.End, lo, hi))
	}
	gotFields := map[int]int{}
	prev := -1
	for _, f := range out.Fields {
		gotFields[f.ID] = f.Ty
		if f.ID <= prev {
			c.Fail("merge-fields-unsorted", fmt.Sprintf("merged fields %v", out.Fields))
		}
		prev = f.ID
	}
	for id, ty := range ftype {
		if g, ok := gotFields[id]; !ok {
			c.Fail("merge-field-disappears", fmt.Sprintf("field %d missing in merged block", id))
		} else if g != ty {
			c.Fail("merge-field-type", fmt.Sprintf("field %d type %d, inputs have %d", id, g, ty))
		}
	}
	for id := range gotFields {
		if _, ok := ftype[id]; !ok {
			c.Fail("merge-field-appears", fmt.Sprintf("field %d only in merged block", id))
		}
	}
	got := map[cellKey]int64{}
	gotSeries := map[uint32]bool{}
	for _, s := range out.Series {
		gotSeries[s.ID] = true
		for fid, vals := range s.Fields {
			for t, v := range vals {
				got[cellKey{s.ID, fid, t}] = v
			}
		}
	}
	for id := range series {
		if !gotSeries[id] {
			c.Fail("merge-series-disappears", fmt.Sprintf("series %d missing in merged block", id))
		}
	}
	for id := range gotSeries {
		if !series[id] {
			c.Fail("merge-series-appears", fmt.Sprintf("series %d only in merged block", id))
		}
	}
	for k, vs := range contrib {
		g, ok := got[k]
		if !ok {
			failSeries(c, "merge-slot-disappears", k.s, fmt.Sprintf("cell %v contributed %v, absent after merge", k, vs))
			continue
		}
		ty := ftype[k.f]
		if orderFree(ty) {
			if w := combine(ty, vs); w != g {
				failSeries(c, "merge-value", k.s, fmt.Sprintf("cell %v type %d: merged %d, aggregate of %v is %d", k, ty, g, vs, w))
			}
		} else {
			// the direct call fixes the input order: first = first contributed, last = last contributed
			if w := combine(ty, vs); w != g {
				c.Fail("merge-first-last", fmt.Sprintf("cell %v type %d: merged %d, contributed in order %v", k, ty, g, vs))
			}
		}
	}
	for k, g := range got {
		if _, ok := contrib[k]; !ok {
			c.Fail("merge-slot-appears", fmt.Sprintf("cell %v = %d after merge, no input has it", k, g))
		}
	}
}

// ---------------------------------------------------------------- case: family histories

type cell struct {
	s    uint32
	f, t int
}

// famCase is the harness-side ledger of one family history: everything ever flushed per metric.
type famCase struct {
	c       *core.Ctx
	env     *famEnv
	schemas map[uint32]schema
	flushed map[uint32]map[cell][]int64 // metric -> cell -> contributed values (flush order)
	series  map[uint32]map[uint32]bool
	fields  map[uint32]map[int]int
	maxSlot int
	allFree bool // no first/last field anywhere
	// failKey: the stable key under which a compaction failure of THIS case's known shape is reported
	failKey string
	// faultAt >= 0: the output file with this index cannot be created during the NEXT compaction
	// (injected through the table builder's writer seam, table.VerifC01SetNewWriter)
	faultAt int
	// openFault: during the NEXT compaction the open of one picked input fails (kind "enoent": the table file is
	// moved away for the duration of the job; kind "io": table.VerifC02FailOpenOnce); the readers of all picked
	// inputs are evicted from the reader cache first, so the job really opens them
	openFault *openFault
	// silent: no protocol lines (regions without model counterpart: only the impl-side oracle speaks)
	silent bool
}

type openFault struct {
	idx  int // position among the picked inputs (taken modulo their number)
	kind string
}

// guard runs one operation: mirrored as a protocol line, or silently with the panic turned into an
// oracle failure.
func (fc *famCase) guard(op string, f func() string) {
	if !fc.silent {
		fc.c.Guard(op, f)
		return
	}
	defer func() {
		if r := recover(); r != nil {
			fc.c.Fail("panic", fmt.Sprintf("op %q panicked: %v", op, r))
		}
	}()
	_ = f()
}

func showFiles(fs []FileInfo) string {
	if len(fs) == 0 {
		return "-"
	}
	var parts []string
	for _, f := range fs {
		ks := make([]string, len(f.Keys))
		for i, k := range f.Keys {
			ks[i] = strconv.FormatUint(uint64(k), 10)
		}
		parts = append(parts, strings.Join(ks, ","))
	}
	sort.Strings(parts)
	return strings.Join(parts, ";")
}

func (fc *famCase) levelsText() string {
	lv, err := fc.env.levels()
	if err != nil {
		return "err levels"
	}
	// file metas must agree with the keys the table reader iterates
	for l := 0; l < 2; l++ {
		for _, f := range lv[l] {
			if len(f.Keys) == 0 || f.Min != f.Keys[0] || f.Max != f.Keys[len(f.Keys)-1] {
				fc.c.Fail("file-meta-key-range", fmt.Sprintf("file %d meta [%d,%d] keys %v", f.Number, f.Min, f.Max, f.Keys))
			}
		}
	}
	return "L0:" + showFiles(lv[0]) + " L1:" + showFiles(lv[1])
}

func (fc *famCase) flush(entries []Entry, record bool) {
	var words []string
	for _, e := range entries {
		words = append(words, fmt.Sprintf("%d=%s", e.Metric, e.Block.String()))
	}
	op := "flush " + strings.Join(words, " ")
	fc.guard(op, func() string {
		if err := fc.env.flush(entries); err != nil {
			return "err flush"
		}
		return "ok " + fc.levelsText()
	})
	if !record {
		return
	}
	last := int64(-1)
	for _, e := range entries {
		if int64(e.Metric) <= last || len(e.Block.Series) == 0 {
			continue // ignored by the table builder / nothing written
		}
		last = int64(e.Metric)
		m := e.Metric
		if fc.flushed[m] == nil {
			fc.flushed[m] = map[cell][]int64{}
			fc.series[m] = map[uint32]bool{}
			fc.fields[m] = map[int]int{}
		}
		for _, f := range e.Block.Fields {
			fc.fields[m][f.ID] = f.Ty
		}
		for _, s := range e.Block.Series {
			fc.series[m][s.ID] = true
			for fid, vals := range s.Fields {
				for t, v := range vals {
					k := cell{s.ID, fid, t}
					fc.flushed[m][k] = append(fc.flushed[m][k], v)
				}
			}
		}
		if e.Block.End > fc.maxSlot {
			fc.maxSlot = e.Block.End
		}
	}
}

// drySizes merges, per key, the blocks of the files a compaction would pick, with the real merger
// over a NopFlusher, and returns the byte size of every merged block (the `size` parameter of the
// model's split). Only exact when no first/last field is involved (otherwise the bytes depend on
// the heap order of the merged iterator); the caller uses the sizes only to choose/announce a
// maxFileSize in that case.
func (fc *famCase) drySizes() (map[uint32]int, []uint32, error) {
	lv, err := fc.env.levels()
	if err != nil {
		return nil, nil, err
	}
	picked := append([]FileInfo(nil), lv[0]...)
	for _, f := range lv[1] {
		for _, g := range lv[0] {
			if !(f.Max < g.Min || f.Min > g.Max) {
				picked = append(picked, f)
				break
			}
		}
	}
	keySet := map[uint32]bool{}
	for _, f := range picked {
		for _, k := range f.Keys {
			keySet[k] = true
		}
	}
	var keys []uint32
	for k := range keySet {
		keys = append(keys, k)
	}
	sort.Slice(keys, func(i, j int) bool { return keys[i] < keys[j] })
	snap := fc.env.fam.GetSnapshot()
	defer snap.Close()
	sizes := map[uint32]int{}
	var mergeErr error
	for _, k := range keys {
		var datas [][]byte
		for _, f := range picked {
			has := false
			for _, fk := range f.Keys {
				if fk == k {
					has = true
				}
			}
			if !has {
				continue
			}
			rd, err := snap.GetReader(tableNumber(f.Number))
			if err != nil || rd == nil {
				return nil, nil, fmt.Errorf("reader of file %d: %v", f.Number, err)
			}
			v, err := rd.Get(k)
			if err != nil {
				return nil, nil, err
			}
			datas = append(datas, append([]byte(nil), v...))
		}
		nop := kv.NewNopFlusher()
		m, err := metricsdata.NewMerger(nop)
		if err != nil {
			return nil, nil, err
		}
		if err := m.Merge(k, datas); err != nil {
			// the real compaction will fail on this key too; the size is irrelevant then
			if mergeErr == nil {
				mergeErr = err
			}
			sizes[k] = 1
			continue
		}
		sizes[k] = len(nop.Bytes())
	}
	return sizes, keys, mergeErr
}

// compact runs one compaction; maxMode: "tiny" (family option MaxFileSize = 1, set at creation),
// "huge" (default), or "mid" (a boundary inside the output chosen from the dry-run sizes and
// installed through kv.VerifC03SetMaxFileSize).
func (fc *famCase) compact(r *rand.Rand, threshold int, maxMode string, optMax uint32) (failed bool) {
	c := fc.c
	sizes, keys, err := fc.drySizes()
	if err != nil && (fc.failKey == "" || sizes == nil) {
		c.Fail("harness-dry-run", err.Error())
		return true
	}
	max := uint32(256 * 1024 * 1024)
	if optMax > 0 {
		max = optMax
	}
	emptyOut := false
	for _, k := range keys {
		if sizes[k] <= 0 {
			// the real merger wrote nothing for a key whose inputs all have series: every series was dropped
			c.Fail("merge-output-empty", fmt.Sprintf("dry-run merge of metric %d over the picked files produced a %d-byte block", k, sizes[k]))
			emptyOut = true
		}
	}
	if maxMode == "mid" && len(keys) >= 2 && !emptyOut {
		// close the first output file after a random key that is not the last one
		j := r.Intn(len(keys) - 1)
		cum := 0
		for i := 0; i <= j; i++ {
			cum += sizes[keys[i]]
		}
		max = uint32(cum - r.Intn(sizes[keys[j]]))
		kv.VerifC03SetMaxFileSize(fc.env.fam, max)
		c.Branch("fam/max=mid")
	}
	var sw []string
	for _, k := range keys {
		sw = append(sw, fmt.Sprintf("%d:%d", k, sizes[k]))
	}
	sizeWord := "-"
	if len(sw) > 0 {
		sizeWord = strings.Join(sw, ",")
	}
	before, _ := fc.env.levels()
	faultAt, faultHit := fc.faultAt, false
	fc.faultAt = -1
	var restore func()
	if faultAt >= 0 {
		created := 0
		restore = table.VerifC01SetNewWriter(func(fileName string) (bufioutil.BufioWriter, error) {
			created++
			if created-1 == faultAt {
				faultHit = true
				return nil, fmt.Errorf("injected: output file %d cannot be created", faultAt)
			}
			return bufioutil.NewBufioStreamWriter(fileName)
		})
	}
	// fault on the open of one picked input
	of := fc.openFault
	fc.openFault = nil
	openWord, openArmed := "", false
	var unhide func()
	if of != nil {
		picked := pickedInputs(before)
		if len(picked) > 0 {
			of.idx %= len(picked)
			fc.env.evictReaders(picked)
			switch of.kind {
			case "enoent":
				if u, err := fc.env.hideFile(picked[of.idx].Number); err == nil {
					unhide, openArmed = u, true
				} else {
					c.Fail("harness-hide-file", err.Error())
				}
			default:
				table.VerifC02FailOpenOnce(version.Table(tableNumber(picked[of.idx].Number)))
				openArmed = true
			}
			openWord = fmt.Sprintf("open:%d:%s", of.idx, of.kind)
		}
	}
	// a merge job (not skipped, not a trivial move) opens every picked input
	mergeJob := len(before[0]) >= threshold && !(len(before[0]) == 1 && len(pickedInputs(before)) == 1) && len(before[0]) > 0
	cerr, p := fc.env.compact()
	if restore != nil {
		restore()
	}
	if unhide != nil {
		unhide()
	}
	if openArmed {
		table.VerifC02ClearOpenFaults()
	}
	after, _ := fc.env.levels()
	isOpenErr := cerr != nil && (strings.Contains(cerr.Error(), "injected table open failure") || strings.Contains(cerr.Error(), "no such file"))
	out := ""
	switch {
	case openArmed && mergeJob && !faultHit && p == nil && isOpenErr:
		// an input could not be opened: the job must fail and install nothing
		out = "fail"
		failed = true
		c.Branch("fam/compact-open-fault-" + of.kind)
		if of.idx >= len(before[0]) {
			c.Branch("fam/compact-open-fault-level1-input")
		}
		if showFiles(before[0]) != showFiles(after[0]) || showFiles(before[1]) != showFiles(after[1]) {
			c.Fail("compact-fail-changed-version", fmt.Sprintf("compaction returned %v but the version changed: L0:%s L1:%s -> L0:%s L1:%s",
				cerr, showFiles(before[0]), showFiles(before[1]), showFiles(after[0]), showFiles(after[1])))
		}
	case openArmed && mergeJob && !faultHit && p == nil && cerr == nil:
		// the job reported success although one of its inputs could not be opened
		out = "merged"
		c.Fail("compact-open-fault-not-reported", fmt.Sprintf("the open of picked input %d (%s, file %d) failed, the compaction reported success; L0:%s L1:%s -> L0:%s L1:%s",
			of.idx, of.kind, pickedInputs(before)[of.idx].Number, showFiles(before[0]), showFiles(before[1]), showFiles(after[0]), showFiles(after[1])))
	case faultHit && p == nil && cerr != nil:
		// the injected fault made the merge fail: nothing may have been installed
		out = "fail"
		failed = true
		c.Branch("fam/compact-io-fault")
		if showFiles(before[0]) != showFiles(after[0]) || showFiles(before[1]) != showFiles(after[1]) {
			c.Fail("compact-fail-changed-version", fmt.Sprintf("compaction returned %v but the version changed: L0:%s L1:%s -> L0:%s L1:%s",
				cerr, showFiles(before[0]), showFiles(before[1]), showFiles(after[0]), showFiles(after[1])))
		}
	case faultHit && (p != nil || cerr == nil):
		out = "fail"
		failed = true
		c.Fail("compact-fault-not-reported", fmt.Sprintf("output file %d could not be created, compaction: panic=%v err=%v; L0:%s L1:%s -> L0:%s L1:%s",
			faultAt, p, cerr, showFiles(before[0]), showFiles(before[1]), showFiles(after[0]), showFiles(after[1])))
	case p != nil || cerr != nil:
		out = "fail"
		failed = true
		// would the output have needed a second file? (the stale stream writer finding)
		cum, closedEarly := 0, false
		for i, k := range keys {
			cum += sizes[k]
			if uint32(cum) >= max {
				if i < len(keys)-1 {
					closedEarly = true
				}
				cum = 0
			}
		}
		what := fmt.Sprintf("compaction failed (panic=%v err=%v); inputs L0:%s L1:%s maxFileSize=%d merged sizes %s",
			p, cerr, showFiles(before[0]), showFiles(before[1]), max, sizeWord)
		if closedEarly {
			c.Fail("compact-output-split-stale-stream-writer", what)
			c.Branch("fam/compact-fail-split")
		} else if fc.failKey != "" {
			c.Fail(fc.failKey, what)
		} else {
			c.Fail("compact-failed", what)
		}
	case len(before[0]) < threshold:
		out = "skipped"
	case len(before[0]) == 1 && len(after[0]) == 0 && len(after[1]) == len(before[1])+1 && sameFile(before[0][0], after[1]):
		out = "moved"
		c.Branch("fam/trivial-move")
	default:
		out = "merged"
		if len(after[1]) > 1 {
			c.Branch("fam/L1-files>1")
		}
	}
	opLine := fmt.Sprintf("compact %d %d %s", threshold, max, sizeWord)
	if faultAt >= 0 {
		opLine += fmt.Sprintf(" %d", faultAt)
	} else if openWord != "" {
		opLine += " -"
	}
	if openWord != "" {
		opLine += " " + openWord
	}
	c.Op(opLine, out+" "+fc.levelsText())
	if maxMode == "mid" {
		kv.VerifC03SetMaxFileSize(fc.env.fam, 0)
	}
	return failed
}

func sameFile(f FileInfo, in []FileInfo) bool {
	for _, g := range in {
		if g.Number == f.Number {
			return true
		}
	}
	return false
}

// view reads one metric through the real reader path and checks C03's statement against the
// ledger of flushed values.
func (fc *famCase) view(metric uint32) {
	c := fc.c
	op := fmt.Sprintf("view %d", metric)
	fc.guard(op, func() string {
		blocks, err := fc.env.load(metric)
		if err != nil {
			return "err load"
		}
		sch := map[int]int{}
		for id, ty := range fc.fields[metric] {
			sch[id] = ty
		}
		got, series, fields, err := viewOf(blocks, sch, fc.maxSlot+1)
		if err != nil {
			c.Fail("view-read", err.Error())
			return "err view"
		}
		// ---- impl-side oracle
		want := fc.flushed[metric]
		for k, vs := range want {
			g, ok := got[Key{k.s, k.f, k.t}]
			if !ok {
				failSeries(c, "slot-disappears", k.s, fmt.Sprintf("metric %d cell %v: flushed %v, reader sees nothing", metric, k, vs))
				continue
			}
			ty := fc.fields[metric][k.f]
			if orderFree(ty) {
				if w := combine(ty, vs); w != g {
					failSeries(c, "value-changed", k.s, fmt.Sprintf("metric %d cell %v type %d: reader sees %d, aggregate of flushed %v is %d", metric, k, ty, g, vs, w))
				}
			} else {
				found := false
				for _, v := range vs {
					if v == g {
						found = true
					}
				}
				if !found {
					c.Fail("first-last-not-member", fmt.Sprintf("metric %d cell %v type %d: reader sees %d, flushed %v", metric, k, ty, g, vs))
				}
			}
		}
		for k, g := range got {
			if _, ok := want[cell{k.Series, k.Field, k.Slot}]; !ok {
				c.Fail("slot-appears", fmt.Sprintf("metric %d cell %v = %d, never flushed", metric, k, g))
			}
		}
		for id := range fc.series[metric] {
			if !series[id] {
				c.Fail("series-disappears", fmt.Sprintf("metric %d series %d", metric, id))
			}
		}
		for id := range series {
			if !fc.series[metric][id] {
				c.Fail("series-appears", fmt.Sprintf("metric %d series %d", metric, id))
			}
		}
		for id, ty := range fc.fields[metric] {
			if g, ok := fields[id]; !ok || g != ty {
				c.Fail("field-disappears", fmt.Sprintf("metric %d field %d type %d, reader has %v", metric, id, ty, fields))
			}
		}
		for id := range fields {
			if _, ok := fc.fields[metric][id]; !ok {
				c.Fail("field-appears", fmt.Sprintf("metric %d field %d", metric, id))
			}
		}
		// ---- canonical text for the model
		var sids []uint32
		for id := range series {
			sids = append(sids, id)
		}
		sort.Slice(sids, func(i, j int) bool { return sids[i] < sids[j] })
		var fids []int
		for id := range fields {
			fids = append(fids, id)
		}
		sort.Ints(fids)
		var sw, fw, vw []string
		for _, id := range sids {
			sw = append(sw, strconv.FormatUint(uint64(id), 10))
		}
		for _, id := range fids {
			fw = append(fw, fmt.Sprintf("%d:%d", id, fields[id]))
		}
		keys := make([]Key, 0, len(got))
		for k := range got {
			keys = append(keys, k)
		}
		sort.Slice(keys, func(i, j int) bool {
			a, b := keys[i], keys[j]
			if a.Series != b.Series {
				return a.Series < b.Series
			}
			if a.Field != b.Field {
				return a.Field < b.Field
			}
			return a.Slot < b.Slot
		})
		for _, k := range keys {
			if orderFree(fields[k.Field]) {
				vw = append(vw, fmt.Sprintf("%d/%d/%d=%d", k.Series, k.Field, k.Slot, got[k]))
			} else {
				vw = append(vw, fmt.Sprintf("%d/%d/%d=*", k.Series, k.Field, k.Slot))
			}
		}
		return "ok S:" + strings.Join(sw, ",") + " F:" + strings.Join(fw, ",") + " V:" + strings.Join(vw, " ")
	})
}

// viewRepeat reads the metric n times: the files of a level are kept in a Go map, every read may
// visit them in another order. The first read is mirrored as a protocol line, the others only checked.
func (fc *famCase) viewRepeat(metric uint32, n int) {
	fc.view(metric)
	was := fc.silent
	fc.silent = true
	for i := 1; i < n; i++ {
		fc.view(metric)
	}
	fc.silent = was
}

func (fc *famCase) viewAllRepeat(n int) {
	var ms []uint32
	for m := range fc.flushed {
		ms = append(ms, m)
	}
	sort.Slice(ms, func(i, j int) bool { return ms[i] < ms[j] })
	for _, m := range ms {
		fc.viewRepeat(m, n)
	}
}

func (fc *famCase) viewAll() {
	var ms []uint32
	for m := range fc.flushed {
		ms = append(ms, m)
	}
	sort.Slice(ms, func(i, j int) bool { return ms[i] < ms[j] })
	for _, m := range ms {
		fc.view(m)
	}
}

func newFamCase(c *core.Ctx, optMax uint32, threshold int) *famCase {
	env, err := openFamily(optMax, threshold)
	if err != nil {
		c.Fail("harness-open-family", err.Error())
		return nil
	}
	if !silentFamilies {
		c.Op("reset", "ok")
	}
	return &famCase{c: c, env: env, silent: silentFamilies, faultAt: -1, schemas: map[uint32]schema{}, flushed: map[uint32]map[cell][]int64{},
		series: map[uint32]map[uint32]bool{}, fields: map[uint32]map[int]int{}}
}

func (a area) runFamilyCase(c *core.Ctx, r *rand.Rand) {
	// regions
	maxMode := []string{"huge", "huge", "tiny", "mid", "mid"}[r.Intn(5)]
	region := ""
	if maxMode == "mid" {
		region = "order-free" // exact, order-independent merged sizes
	} else if r.Intn(3) == 0 {
		region = []string{"single-field", "multi-field", "order-free"}[r.Intn(3)]
	}
	optMax := uint32(0)
	if maxMode == "tiny" {
		optMax = 1
		c.Branch("fam/max=tiny")
	}
	threshold := []int{0, 0, 1, 2, 3}[r.Intn(5)]
	fc := newFamCase(c, optMax, threshold)
	if fc == nil {
		return
	}
	defer fc.env.close()
	nMetrics := 1 + r.Intn(4)
	metricIDs := []uint32{}
	// sparse-ids: the metric ids come in three far-apart bands and most flushes write one band only, so
	// that level-0 files lie entirely below / above level-1 files they do not overlap and a merged output
	// can span an unpicked level-1 file (level-1 key ranges overlap afterwards)
	banded := r.Intn(4) == 0
	bandOf := map[uint32]int{}
	if banded {
		c.Branch("fam/sparse-ids")
		nMetrics = 3 + r.Intn(4)
		for j, i := range r.Perm(9)[:nMetrics] {
			band := j % 3
			id := []uint32{1, 100, 1000}[band] + uint32(i)
			metricIDs = append(metricIDs, id)
			bandOf[id] = band
		}
	} else {
		for _, i := range r.Perm(9)[:nMetrics] {
			metricIDs = append(metricIDs, uint32(3+i*5))
		}
	}
	sort.Slice(metricIDs, func(i, j int) bool { return metricIDs[i] < metricIDs[j] })
	pool := genSeriesPool(r)
	sp := genSlotPlan(r)
	if sp.wide {
		c.Branch("fam/slots>360")
		if len(pool) > 4 {
			pool = pool[:4]
		}
	}
	nevers := map[uint32]map[uint32]map[int]bool{}
	for _, m := range metricIDs {
		fc.schemas[m] = genSchema(r, region)
		if r.Intn(2) == 0 {
			nevers[m] = genNever(r, fc.schemas[m], pool)
			if len(nevers[m]) > 0 {
				c.Branch("fam/series-never-reports-a-field")
			}
		}
	}
	steps := 2 + r.Intn(7)
	compactions, splitFailed := 0, false
	for i := 0; i < steps; i++ {
		doCompact := r.Intn(3) == 0 && i > 0
		if i == steps-1 && compactions == 0 {
			doCompact = true
		}
		if doCompact {
			mm := maxMode
			if mm == "mid" && r.Intn(3) == 0 {
				mm = "huge"
			}
			if r.Intn(6) == 0 {
				fc.faultAt = r.Intn(3)
			} else if r.Intn(5) == 0 {
				fc.openFault = &openFault{idx: r.Intn(64), kind: []string{"enoent", "io"}[r.Intn(2)]}
			}
			if fc.compact(r, threshold, mm, optMax) {
				splitFailed = true
			}
			compactions++
			if compactions > 1 {
				c.Branch("fam/repeated-compaction")
			}
			if banded {
				fc.viewAllRepeat(8)
			} else {
				fc.viewAll()
			}
			if r.Intn(4) == 0 {
				// restart between two steps: the version comes back from the manifest, every reader is cold
				fc.reopen()
				fc.viewAll()
			}
			continue
		}
		// flush: a subset of the metrics (so files cover different key ranges)
		var entries []Entry
		onlyBand := -1
		if banded && r.Intn(5) > 0 {
			onlyBand = r.Intn(3)
		}
		for _, m := range metricIDs {
			if onlyBand >= 0 && bandOf[m] != onlyBand {
				continue
			}
			if r.Intn(3) == 0 && len(metricIDs) > 1 && onlyBand < 0 {
				continue
			}
			entries = append(entries, Entry{Metric: m, Block: genBlock(r, fc.schemas[m], pool, sp, r.Intn(3), nevers[m])})
		}
		if len(entries) == 0 {
			m := metricIDs[r.Intn(len(metricIDs))]
			entries = append(entries, Entry{Metric: m, Block: genBlock(r, fc.schemas[m], pool, sp, r.Intn(3), nevers[m])})
		}
		if r.Intn(12) == 0 && len(entries) > 1 {
			// an out-of-order key: ignored by the table builder
			entries = append(entries, Entry{Metric: entries[0].Metric, Block: genBlock(r, fc.schemas[entries[0].Metric], pool, sp, 0)})
			c.Branch("fam/flush-bad-key")
		}
		fc.flush(entries, true)
		if r.Intn(3) == 0 {
			fc.viewAll()
		}
	}
	fc.viewAll()
	if compactions > 0 {
		c.NonTrivial()
	}
	_ = splitFailed
}

// witnessSplit is the deterministic replay of the recorded finding: three level-0 files with two
// metrics each, family option MaxFileSize = 1, one compaction.
func (a area) witnessSplit(c *core.Ctx) {
	fc := newFamCase(c, 1, 0)
	if fc == nil {
		return
	}
	defer fc.env.close()
	mk := func(sid uint32, v int64) *Block {
		return &Block{Fields: []FieldMeta{{1, tySum}}, Start: 5, End: 6,
			Series: []SeriesEntry{{ID: sid, Fields: map[int]map[int]int64{1: {5: v, 6: v + 1}}}}}
	}
	for i := 0; i < 3; i++ {
		fc.flush([]Entry{{Metric: 1, Block: mk(10, int64(i+1))}, {Metric: 2, Block: mk(20, int64(10*(i+1)))}}, true)
	}
	fc.viewAll()
	fc.compact(c.Rng(0), 0, "tiny", 1)
	fc.viewAll()
	c.NonTrivial()
}

func sumBlock(start, end int, series map[uint32]map[int]int64) *Block {
	b := &Block{Fields: []FieldMeta{{1, tySum}}, Start: start, End: end}
	var ids []uint32
	for id := range series {
		ids = append(ids, id)
	}
	sort.Slice(ids, func(i, j int) bool { return ids[i] < ids[j] })
	for _, id := range ids {
		e := SeriesEntry{ID: id, Fields: map[int]map[int]int64{}}
		if series[id] != nil {
			e.Fields[1] = series[id]
		}
		b.Series = append(b.Series, e)
	}
	return b
}

// scenarioL1Twice: a level-1 file overlapped by several level-0 files must be merged once.
func (a area) scenarioL1Twice(c *core.Ctx) {
	fc := newFamCase(c, 0, 0)
	if fc == nil {
		return
	}
	defer fc.env.close()
	mk := func(v int64) []Entry {
		return []Entry{
			{Metric: 1, Block: sumBlock(5, 8, map[uint32]map[int]int64{3: {5: v, 7: v + 1}})},
			{Metric: 4, Block: sumBlock(5, 8, map[uint32]map[int]int64{65537: {6: 2 * v}})},
		}
	}
	fc.flush(mk(1), true)
	fc.flush(mk(10), true)
	fc.compact(c.Rng(1), 0, "huge", 0)
	fc.viewAll()
	for round := 0; round < 2; round++ {
		for i := 0; i < 3; i++ {
			fc.flush(mk(int64(100*(round+1)+i)), true)
		}
		fc.compact(c.Rng(1), 0, "huge", 0)
		fc.viewAll()
	}
	c.NonTrivial()
}

// scenarioScanner: inputs without series in the lowest container of the merged id set and with
// series in two or more higher containers (the scanner must step one container at a time).
func (a area) scenarioScanner(c *core.Ctx) {
	A := sumBlock(2, 6, map[uint32]map[int]int64{5: {2: 1}, 65541: {3: 2}, 131077: {4: 3}, 262149: {5: 4}})
	B := sumBlock(2, 6, map[uint32]map[int]int64{65540: {3: 10}, 65541: {3: 20}, 196613: {4: 30}, 262149: {5: 40}})
	C := sumBlock(2, 6, map[uint32]map[int]int64{131077: {4: 100}, 262150: {6: 200}})
	mergeOp(c, []*Block{A, B, C})
	mergeOp(c, []*Block{C, B})
	mergeOp(c, []*Block{B, A})
	fc := newFamCase(c, 0, 0)
	if fc == nil {
		return
	}
	defer fc.env.close()
	for _, b := range []*Block{A, B, C} {
		fc.flush([]Entry{{Metric: 9, Block: b}}, true)
	}
	fc.compact(c.Rng(2), 0, "huge", 0)
	fc.viewAll()
}

// scenarioNested: nested slot ranges, the narrow block first.
func (a area) scenarioNested(c *core.Ctx) {
	n := sumBlock(10, 20, map[uint32]map[int]int64{1: {10: 1, 20: 2}})
	w := sumBlock(5, 30, map[uint32]map[int]int64{1: {5: 10, 15: 20, 25: 30, 30: 40}})
	x := sumBlock(12, 14, map[uint32]map[int]int64{1: {13: 100}})
	mergeOp(c, []*Block{n, w})
	mergeOp(c, []*Block{x, n, w})
	mergeOp(c, []*Block{w, n})
	fc := newFamCase(c, 0, 0)
	if fc == nil {
		return
	}
	defer fc.env.close()
	// one file each; whatever order the merged iterator delivers them in, the union must hold
	for _, b := range []*Block{n, w, x} {
		fc.flush([]Entry{{Metric: 2, Block: b}}, true)
	}
	fc.compact(c.Rng(3), 0, "huge", 0)
	fc.viewAll()
}

// scenarioFieldShift: a multi-field metric whose series report different field subsets; the merger
// must still write one (possibly empty) field entry per target field of every series, in order.
func (a area) scenarioFieldShift(c *core.Ctx) {
	mk := func(start, end int, fields []FieldMeta, series map[uint32]map[int]map[int]int64) *Block {
		b := &Block{Fields: fields, Start: start, End: end}
		var ids []uint32
		for id := range series {
			ids = append(ids, id)
		}
		sort.Slice(ids, func(i, j int) bool { return ids[i] < ids[j] })
		for _, id := range ids {
			b.Series = append(b.Series, SeriesEntry{ID: id, Fields: series[id]})
		}
		return b
	}
	f123 := []FieldMeta{{1, tySum}, {2, tyMin}, {3, tyMax}}
	// series 4 never reports field 2, series 9 never reports field 1, series 65540 never reports field 3
	A := mk(3, 9, f123, map[uint32]map[int]map[int]int64{
		4:     {1: {3: 10, 5: 11}, 3: {4: 30}},
		9:     {2: {3: 20}, 3: {3: 31, 9: 32}},
		65540: {1: {6: 12}, 2: {6: 21}},
	})
	B := mk(5, 12, []FieldMeta{{3, tyMax}, {1, tySum}}, map[uint32]map[int]map[int]int64{
		4:  {1: {5: 100}, 3: {12: 300}},
		9:  {3: {5: 310}},
		70: {1: {7: 101}, 3: {7: 301}},
	})
	// field 2 exists only in a file in which series 70 does not occur
	C := mk(3, 4, []FieldMeta{{2, tyMin}}, map[uint32]map[int]map[int]int64{9: {2: {4: -5}}})
	mergeOp(c, []*Block{A, B})
	mergeOp(c, []*Block{B, A, C})
	mergeOp(c, []*Block{C, B})
	mergeOp(c, []*Block{A})
	fc := newFamCase(c, 0, 0)
	if fc == nil {
		return
	}
	defer fc.env.close()
	for _, b := range []*Block{A, B, C} {
		fc.flush([]Entry{{Metric: 6, Block: b}}, true)
	}
	fc.viewAll()
	fc.compact(c.Rng(7), 0, "huge", 0)
	fc.viewAll()
}

// concurrentCompactions (thorough tier): several real families are compacted at the same time (the
// storage node runs one compaction goroutine per family) and every one must come out as C03 says.
// Shared mutable state between merge jobs (e.g. a package-level scratch buffer in the down-sampling
// merge) shows up here as wrong values; no model counterpart, only the impl-side oracle speaks.
func (a area) concurrentCompactions(c *core.Ctx, r *rand.Rand) {
	silentFamilies = true
	defer func() { silentFamilies = false }()
	failRemap = func(key string, _ uint32) string { return "concurrent-compaction-" + key }
	defer func() { failRemap = nil }()
	const k = 4
	var fcs []*famCase
	defer func() {
		for _, fc := range fcs {
			fc.env.close()
		}
	}()
	pool := []uint32{1, 2, 3, 5, 8, 13, 21, 34, 65536, 65537, 65540, 131072}
	sc := schema{fields: []FieldMeta{{1, tySum}, {2, tyMin}, {3, tyMax}, {4, tyHist}}}
	sp := slotPlan{lo: 0, hi: 120}
	for i := 0; i < k; i++ {
		fc := newFamCase(c, 0, 0)
		if fc == nil {
			return
		}
		fcs = append(fcs, fc)
	}
	for round := 0; round < 4; round++ {
		for _, fc := range fcs {
			for j := 0; j < 3; j++ {
				fc.flush([]Entry{
					{Metric: 1, Block: genBlock(r, sc, pool, sp, 2)},
					{Metric: 2, Block: genBlock(r, sc, pool, sp, 0)},
				}, true)
			}
		}
		start := make(chan struct{})
		done := make(chan string, k)
		for _, fc := range fcs {
			fc := fc
			go func() {
				<-start
				err, p := fc.env.compact()
				if err != nil || p != nil {
					done <- fmt.Sprintf("err=%v panic=%v", err, p)
					return
				}
				done <- ""
			}()
		}
		close(start)
		for range fcs {
			if msg := <-done; msg != "" {
				c.Fail("concurrent-compaction-failed", msg)
			}
		}
		for _, fc := range fcs {
			fc.viewAll()
		}
	}
	c.Branch("fam/concurrent-compactions")
	c.NonTrivial()
}

// scenarioStraddle: level 1 holds a file for the metrics 100..105; two later level-0 files lie entirely
// below (1..3) and entirely above (1000..1001) it, so PickL0Compaction does not pick it and the merged
// output's key range [1..1001] spans it: level 1 then holds files with overlapping key ranges, and a
// reader of 100..105 must still be given the first file whatever the map order of the level is.
func (a area) scenarioStraddle(c *core.Ctx) {
	fc := newFamCase(c, 0, 0)
	if fc == nil {
		return
	}
	defer fc.env.close()
	mk := func(ms []uint32, v int64) []Entry {
		var es []Entry
		for i, m := range ms {
			es = append(es, Entry{Metric: m, Block: sumBlock(4, 9, map[uint32]map[int]int64{2: {4: v, 9: v + int64(i)}, 65537: {5: 2 * v}})})
		}
		return es
	}
	mid := []uint32{100, 101, 102, 103, 104, 105}
	fc.flush(mk(mid, 1), true)
	fc.flush(mk(mid, 10), true)
	fc.compact(c.Rng(9), 0, "huge", 0)
	for round := 0; round < 3; round++ {
		fc.flush(mk([]uint32{1, 2, 3}, int64(100*(round+1))), true)
		fc.flush(mk([]uint32{1000, 1001}, int64(100*(round+1)+7)), true)
		fc.compact(c.Rng(9), 0, "huge", 0)
		fc.viewAllRepeat(40)
	}
	c.NonTrivial()
}

// scenarioFault: an output file of a merge compaction cannot be created (first, second, third file):
// the compaction must return the error and leave the version and every reader's view unchanged; the
// next compaction (no fault) must then succeed on the same inputs.
func (a area) scenarioFault(c *core.Ctx) {
	for _, k := range []int{1, 0, 2} {
		fc := newFamCase(c, 1, 0) // FamilyOption.MaxFileSize = 1: one output file per metric
		if fc == nil {
			return
		}
		for i := 0; i < 3; i++ {
			var es []Entry
			for _, m := range []uint32{5, 6, 8, 9} {
				es = append(es, Entry{Metric: m, Block: sumBlock(1, 3, map[uint32]map[int]int64{uint32(10 + i): {1: int64(m) + int64(i), 3: 7}})})
			}
			fc.flush(es, true)
		}
		fc.faultAt = k
		fc.compact(c.Rng(10), 0, "tiny", 1)
		fc.viewAllRepeat(4)
		fc.compact(c.Rng(10), 0, "tiny", 1)
		fc.viewAllRepeat(4)
		fc.env.close()
	}
	c.NonTrivial()
}

// F2 witness blocks (Props/C03.lean Neg.dA, dB, dC): single-field blocks as a memory database
// flushes them when some series of the metric did not write in the flushed window.
func deadA() *Block {
	return sumBlock(5, 6, map[uint32]map[int]int64{0: {5: 3}, 65536: nil, 131072: {5: 7}})
}
func deadB() *Block {
	return sumBlock(5, 6, map[uint32]map[int]int64{0: {5: 10}, 65536: {5: 20}, 131072: {5: 30}})
}
func deadC() *Block {
	return sumBlock(5, 6, map[uint32]map[int]int64{0: nil, 65536: {5: 7}})
}

const (
	keyDeadMiddle = "merge-empty-series-bucket-drops-later-containers"
	keyDeadFirst  = "merge-empty-first-series-bucket-fails"
)

// probeTolerance measures scannerTolerant on the F2a witness.
func probeTolerance() bool {
	var datas [][]byte
	for _, b := range []*Block{deadA(), deadB()} {
		d, err := buildBlockBytes(7, b)
		if err != nil {
			return false
		}
		datas = append(datas, d)
	}
	ok := false
	func() {
		defer func() { _ = recover() }()
		nop := kv.NewNopFlusher()
		m, err := metricsdata.NewMerger(nop)
		if err != nil || m.Merge(7, datas) != nil {
			return
		}
		mb, err := decodeBlock(append([]byte(nil), nop.Bytes()...))
		if err != nil {
			return
		}
		for _, s := range mb.Series {
			if s.ID == 131072 && s.Fields[1][5] == 37 {
				ok = true
			}
		}
	}()
	return ok
}

// witnessDeadMiddle replays finding F2a: the values behind a zero-length series bucket are lost by
// the merge (direct merger call and real family compaction).
func (a area) witnessDeadMiddle(c *core.Ctx) {
	failRemap = func(key string, series uint32) string {
		if series >= 131072 && (key == "merge-slot-disappears" || key == "merge-value" || key == "slot-disappears" || key == "value-changed") {
			return keyDeadMiddle
		}
		return key
	}
	defer func() { failRemap = nil }()
	mergeOp(c, []*Block{deadA(), deadB()})
	fc := newFamCase(c, 0, 0)
	if fc == nil {
		return
	}
	defer fc.env.close()
	fc.flush([]Entry{{Metric: 1, Block: deadA()}}, true)
	fc.flush([]Entry{{Metric: 1, Block: deadB()}}, true)
	fc.viewAll()
	fc.compact(c.Rng(4), 0, "huge", 0)
	fc.viewAll()
	c.NonTrivial()
}

// witnessDeadFirst replays finding F2b: a block whose first container is a zero-length bucket makes
// Merge fail, the compaction never completes.
func (a area) witnessDeadFirst(c *core.Ctx) {
	failRemap = func(key string, series uint32) string {
		if key == "merge-error" {
			return keyDeadFirst
		}
		return key
	}
	defer func() { failRemap = nil }()
	mergeOp(c, []*Block{deadC(), deadB()})
	fc := newFamCase(c, 0, 0)
	if fc == nil {
		return
	}
	defer fc.env.close()
	fc.failKey = keyDeadFirst
	fc.flush([]Entry{{Metric: 1, Block: deadC()}}, true)
	fc.flush([]Entry{{Metric: 1, Block: deadB()}}, true)
	fc.viewAll()
	fc.compact(c.Rng(5), 0, "huge", 0)
	fc.viewAll()
	c.NonTrivial()
}

func (a area) Run(c *core.Ctx) error {
	scannerTolerant = probeTolerance()
	for i := 0; i < c.N; i++ {
		if !c.Want(i) {
			continue
		}
		c.Begin(i)
		r := c.Rng(i)
		switch {
		case i == 0:
			a.witnessSplit(c)
		case i == 1:
			a.scenarioL1Twice(c)
		case i == 2:
			a.scenarioScanner(c)
		case i == 3:
			a.scenarioNested(c)
		case i == 4:
			a.witnessDeadMiddle(c)
		case i == 5:
			a.witnessDeadFirst(c)
		case i == 6 && c.Tier == "thorough" && c.Seed%3 == 1:
			a.realEngineWitness(c)
		case i == 7:
			a.scenarioFieldShift(c)
		case i == 8 && c.Tier == "thorough":
			a.concurrentCompactions(c, r)
		case i == 9:
			a.scenarioStraddle(c)
		case i == 10:
			a.scenarioFault(c)
		case i == 11:
			a.witnessSlot65535(c)
		case i == 12:
			a.scenarioMixedShapes(c)
		case i == 14:
			a.scenarioOpenFault(c)
		case i == 15:
			a.scenarioArmConsume(c)
		case i >= 13 && i%10 == 3:
			a.runDamagedCase(c, r)
		case i >= 17 && i%10 == 7:
			a.runDecoderSteps(c, r)
		case i%2 == 1:
			a.runMergeCase(c, r)
		default:
			a.runFamilyCase(c, r)
		}
	}
	return nil
}
