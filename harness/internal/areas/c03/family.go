package c03

import (
	"fmt"
	"os"
	"path/filepath"
	"sort"

	"github.com/lindb/lindb/kv"
	"github.com/lindb/lindb/kv/table"
	"github.com/lindb/lindb/kv/version"
	"github.com/lindb/lindb/tsdb/tblstore/metricsdata"
)

// Entry is one (metric id, block) pair of a flush.
type Entry struct {
	Metric uint32
	Block  *Block
}

// famEnv is one real kv store with one real family whose merger is the registered
// metricsdata merger ("MetricDataMerger").
type famEnv struct {
	dir   string
	path  string // store path (the family's table files live in path/f)
	store kv.Store
	fam   kv.Family
	opt   kv.FamilyOption
}

// reopen closes the store and opens it again from its directory (what a restart of the storage process does): the
// family's version is rebuilt from the manifest — the persisted edit logs of every flush and compaction — and no table
// reader survives (cold reader cache).
func (e *famEnv) reopen() error {
	if err := kv.GetStoreManager().CloseStore(e.store.Name()); err != nil {
		return fmt.Errorf("close: %w", err)
	}
	store, err := kv.GetStoreManager().CreateStore(e.path, kv.DefaultStoreOption())
	if err != nil {
		return fmt.Errorf("open: %w", err)
	}
	e.store = store
	fam, err := store.CreateFamily("f", e.opt)
	if err != nil {
		return fmt.Errorf("family: %w", err)
	}
	e.fam = fam
	return nil
}

func openFamily(maxFileSize uint32, threshold int) (*famEnv, error) {
	dir, err := os.MkdirTemp("", "lvh-c03-*")
	if err != nil {
		return nil, err
	}
	path := filepath.Join(dir, "store")
	opt := kv.DefaultStoreOption()
	store, err := kv.GetStoreManager().CreateStore(path, opt)
	if err != nil {
		os.RemoveAll(dir)
		return nil, err
	}
	famOpt := kv.FamilyOption{
		Merger:           string(metricsdata.MetricDataMerger),
		MaxFileSize:      maxFileSize,
		CompactThreshold: threshold,
	}
	fam, err := store.CreateFamily("f", famOpt)
	if err != nil {
		_ = kv.GetStoreManager().CloseStore(path)
		os.RemoveAll(dir)
		return nil, err
	}
	return &famEnv{dir: dir, path: path, store: store, fam: fam, opt: famOpt}, nil
}

func (e *famEnv) close() {
	if e == nil {
		return
	}
	_ = kv.GetStoreManager().CloseStore(e.store.Name())
	os.RemoveAll(e.dir)
}

// flush writes the entries (ascending metric id) as ONE new level-0 file through the family's
// real store flusher and the real metricsdata flusher, the way a memory database flush does.
func (e *famEnv) flush(entries []Entry) (err error) {
	kvf := e.fam.NewFlusher()
	defer kvf.Release()
	fl, err := metricsdata.NewFlusher(kvf)
	if err != nil {
		return err
	}
	for _, en := range entries {
		if err := writeBlock(fl, en.Metric, en.Block); err != nil {
			return err
		}
	}
	return fl.Close()
}

// compact runs one compaction job synchronously (verif export kv.VerifC03CompactSync).
func (e *famEnv) compact() (err error, panicked interface{}) {
	defer func() {
		if r := recover(); r != nil {
			panicked = r
		}
	}()
	err = kv.VerifC03CompactSync(e.fam)
	return
}

// FileInfo describes one live table file.
type FileInfo struct {
	Number int64
	Min    uint32
	Max    uint32
	Keys   []uint32
	Sizes  []int // value length per key
}

// levels lists the live files of level 0 and 1 (sorted by file number) with their keys.
func (e *famEnv) levels() (lv [2][]FileInfo, err error) {
	snap := e.fam.GetSnapshot()
	defer snap.Close()
	for l := 0; l < 2; l++ {
		files := append([]*version.FileMeta(nil), snap.GetCurrent().GetFiles(l)...)
		sort.Slice(files, func(i, j int) bool { return files[i].GetFileNumber() < files[j].GetFileNumber() })
		for _, fm := range files {
			fi := FileInfo{Number: fm.GetFileNumber().Int64(), Min: fm.GetMinKey(), Max: fm.GetMaxKey()}
			r, err := snap.GetReader(fm.GetFileNumber())
			if err != nil {
				return lv, err
			}
			if r == nil {
				return lv, fmt.Errorf("no reader for file %d", fi.Number)
			}
			it := r.Iterator()
			for it.HasNext() {
				fi.Keys = append(fi.Keys, it.Key())
				fi.Sizes = append(fi.Sizes, len(it.Value()))
			}
			lv[l] = append(lv[l], fi)
		}
	}
	return lv, nil
}

// load returns the blocks a reader finds for the metric: Snapshot.Load over FindFiles (real path).
// The order is the order in which the snapshot visits the files (map iteration order inside
// version.level — not deterministic), copies are taken because the files are mmapped.
func (e *famEnv) load(metric uint32) ([][]byte, error) {
	snap := e.fam.GetSnapshot()
	defer snap.Close()
	var out [][]byte
	err := snap.Load(metric, func(value []byte) error {
		out = append(out, append([]byte(nil), value...))
		return nil
	})
	return out, err
}

func tableNumber(n int64) table.FileNumber { return table.FileNumber(n) }

// pickedInputs lists the files a level-0 compaction picks: every level-0 file, then the level-1 files
// whose key range overlaps a level-0 file (both sorted by file number) — the position in this list is
// the `i` of the protocol word `open:<i>:<kind>`.
func pickedInputs(lv [2][]FileInfo) []FileInfo {
	picked := append([]FileInfo(nil), lv[0]...)
	for _, f := range lv[1] {
		for _, g := range lv[0] {
			if !(f.Max < g.Min || f.Min > g.Max) {
				picked = append(picked, f)
				break
			}
		}
	}
	return picked
}

// evictReaders drops the table readers of the files from the store's reader cache (what the cache's TTL
// clean-up does to readers nobody holds; a restarted process has none either): the next GetReader of
// such a file is a cache miss and opens + maps the file again.
func (e *famEnv) evictReaders(files []FileInfo) {
	cache := kv.VerifC02Cache(e.store)
	if cache == nil {
		return
	}
	for _, f := range files {
		cache.Evict(version.Table(tableNumber(f.Number)))
	}
}

// hideFile moves a table file of the family out of the store (ENOENT for the next open); the returned
// function moves it back.
func (e *famEnv) hideFile(number int64) (restore func(), err error) {
	name := version.Table(tableNumber(number))
	from := filepath.Join(e.path, "f", name)
	to := filepath.Join(e.dir, "hidden-"+name)
	if err := os.Rename(from, to); err != nil {
		return nil, err
	}
	return func() { _ = os.Rename(to, from) }, nil
}
