package c04

import (
	"errors"
	"fmt"
	"path/filepath"
	"strings"
	"sync"

	"github.com/lindb/lindb/kv"
	"github.com/lindb/lindb/kv/version"
	"github.com/lindb/lindb/pkg/bufioutil"
)

// Commit-fault witnesses (round 9). The rollup path commits three kinds of manifest records: the
// target family's merge record (compactJob.installCompactionResults), the source family's
// DeleteRollupFile record (family.rollup()) and the target family's DeleteReferenceFile record
// (cleanReferenceFiles). family.commitEditLog reports a failed commit with `false`; all three call
// sites discard it. A failed commit writes nothing and applies nothing
// (storeVersionSet.CommitFamilyEditLog returns before the version is touched), so the run goes on as
// if the record had been committed.
//
// The fault is injected through kv/version's own I/O seam (VerifC01SetIO, the manifest writer
// factory): the writer of the store whose directory is armed fails its next Write once (ENOSPC-like:
// nothing reaches the file).

var manifestFault struct {
	sync.Mutex
	dir   string
	armed bool
	hits  int
}

type faultWriter struct {
	bufioutil.BufioWriter
	dir string
}

func (w *faultWriter) Write(p []byte) (int, error) {
	manifestFault.Lock()
	fail := manifestFault.armed && manifestFault.dir == w.dir
	if fail {
		manifestFault.armed = false
		manifestFault.hits++
	}
	manifestFault.Unlock()
	if fail {
		return 0, errors.New("verif: injected manifest write failure (no space left on device)")
	}
	return w.BufioWriter.Write(p)
}

func installManifestFaultSeam() (restore func()) {
	return version.VerifC01SetIO(func(fileName string) (bufioutil.BufioWriter, error) {
		w, err := bufioutil.NewBufioEntryWriter(fileName)
		if err != nil {
			return nil, err
		}
		return &faultWriter{BufioWriter: w, dir: filepath.Dir(fileName)}, nil
	}, nil, nil)
}

// commitFaultWitness: one file flushed into family 1 of 2019-07-02 (10s -> 5m), then a rollup run in
// which the commit of record kind `failKind` ('S' = the source family's DeleteRollupFile record,
// 'T' = the target family's merge record) fails once, then a second, undisturbed rollup, then read.
func (e *env) commitFaultWitness(failKind byte, key string) error {
	c := e.c
	restore := installManifestFaultSeam()
	defer restore()
	e.src, e.tgts = 10*sec, []int64{5 * min_}
	e.failKey, e.drainKey, e.onceKey = key, key, key
	if err := e.setDay(daysFromCivil(2019, 7, 2)); err != nil {
		return err
	}
	e.hours = []int{1}
	e.avail[e.tgts[0]] = true
	if err := e.openStores(); err != nil {
		return err
	}
	e.opCfg()
	b := mblock{metric: 1, start: 0, end: 359}
	for s := 0; s < 360; s++ {
		b.cells = append(b.cells, cell{series: 1, field: 1, ftype: 1, slot: s, val: 1})
	}
	if err := e.opFlush(1, fileData{b}); err != nil {
		return err
	}
	// the faulty run
	e.mu.Lock()
	e.cur, e.cutAt, e.imaged = nil, -1, false
	e.failKind, e.failedAt, e.failedRec = failKind, -1, nil
	e.mu.Unlock()
	if err := kv.VerifRollupSync(e.fams[1]); err != nil {
		return err
	}
	e.mu.Lock()
	recs, failedAt, failedRec := e.cur, e.failedAt, e.failedRec
	e.cur, e.failKind = nil, 0
	e.mu.Unlock()
	manifestFault.Lock()
	hits := manifestFault.hits
	manifestFault.hits, manifestFault.armed = 0, false
	manifestFault.Unlock()
	if failedAt < 0 || hits != 1 {
		c.Note(fmt.Sprintf("commit-fault witness %c: the run committed no record of that kind (hits=%d)", failKind, hits))
		failedAt = len(recs)
	}
	e.history = append(e.history, recs...)
	texts := make([]string, len(recs))
	for i, r := range recs {
		texts[i] = r.text
	}
	rs := strings.Join(texts, ";")
	if rs == "" {
		rs = "-"
	}
	ft := "-"
	if failedRec != nil {
		ft = failedRec.text
	}
	t := joinInts(e.tgts)
	c.Op(fmt.Sprintf("rollupf 1 ivs=%s dvs=%s avail=%s fail=%d", t, t, t, failedAt), "recs="+rs+" failed="+ft+" "+e.stateString())
	c.Branch(fmt.Sprintf("witness-commit-fault-%c", failKind))
	// C04 on what is on disk now and after an undisturbed second run
	e.checkOnce()
	if err := e.opRollup(1, -1, false); err != nil {
		return err
	}
	e.checkDrained()
	c.NonTrivial()
	return e.opRead(e.tgts[0])
}
