package c04

import (
	"fmt"
	"sort"
	"strconv"
	"strings"

	"github.com/lindb/lindb/kv"
	"github.com/lindb/lindb/pkg/timeutil"
)

// ---------------------------------------------------------------- target block ranges

// targetFamStart mirrors the locating lines of family.rollup() with the real calculators.
func (e *env) targetFamStart(h int, tgt int64) int64 {
	tc := timeutil.Interval(tgt).Calculator()
	fst := e.srcFamStart(h)
	seg := tc.CalcSegmentTime(fst)
	return tc.CalcFamilyStartTime(seg, tc.CalcFamily(fst, seg))
}

type slotRange struct{ start, end int }

// unionRanges: per metric the union of the slot ranges of the input files' blocks (merger.prepare).
func (e *env) unionRanges(keys []fkey) map[uint32]slotRange {
	out := map[uint32]slotRange{}
	for _, k := range keys {
		for _, b := range e.files[k] {
			r, ok := out[b.metric]
			if !ok {
				out[b.metric] = slotRange{b.start, b.end}
				continue
			}
			if b.start < r.start {
				r.start = b.start
			}
			if b.end > r.end {
				r.end = b.end
			}
			out[b.metric] = r
		}
	}
	return out
}

// checkBlockRanges: every block a merge record added advertises the slot range whose ends are the
// TARGET CALCULATOR's slots of the first and the last source slot of the merged source range
// (holds for every interval pair, inside or outside the guard).
func (e *env) checkBlockRanges(r rec) {
	if len(r.pairs) != 2 || len(r.keys) == 0 || e.big {
		return
	}
	st, ok := kv.GetStoreManager().GetStoreByName(e.tgtStorePath(r.iv, r.pairs[0]))
	if !ok {
		return
	}
	fam := st.GetFamily(r.pairs[1])
	if fam == nil {
		return
	}
	h := r.keys[0].h
	tc := timeutil.Interval(r.iv).Calculator()
	fS := e.targetFamStart(h, r.iv)
	want := e.unionRanges(r.keys)
	snap := fam.GetSnapshot()
	defer snap.Close()
	for _, fn := range r.newFiles {
		if _, live := snap.GetCurrent().GetFile(0, tableFileNumber(fn)); !live {
			continue
		}
		rd, err := snap.GetReader(tableFileNumber(fn))
		if err != nil {
			e.c.Fail("target-block-range", fmt.Sprintf("output file %d of %s is not readable: %v", fn, r.text, err))
			return
		}
		it := rd.Iterator()
		for it.HasNext() {
			b, err := decodeBlock(it.Key(), append([]byte(nil), it.Value()...))
			if err != nil {
				e.c.Fail("target-block-range", err.Error())
				return
			}
			w, ok := want[b.metric]
			if !ok {
				continue
			}
			ws := int(uint16(tc.CalcSlot(e.srcFamStart(h)+int64(w.start)*e.src, fS, r.iv)))
			we := int(uint16(tc.CalcSlot(e.srcFamStart(h)+int64(w.end)*e.src, fS, r.iv)))
			if b.start != ws || b.end != we {
				e.c.Fail("target-block-range", fmt.Sprintf("interval %d -> %d, family %d: block of metric %d merged from source slots %d..%d advertises target slots %d..%d, the target calculator gives %d..%d",
					e.src, r.iv, h, b.metric, w.start, w.end, b.start, b.end, ws, we))
				return
			}
		}
	}
}

// ---------------------------------------------------------------- recorded behaviour (unguarded pairs)

// expectedCurrent reproduces, from the target calculator and the source data alone, what the code
// is RECORDED to do for any interval pair: per merge record and metric the target range from the ends
// of the merged source range, position = baseSlot + slot/uint16(tgt/src) - start, negative positions
// skipped, a decoder abandoned at the first position beyond the range.
func (e *env) expectedCurrent(tgt int64) map[string]map[viewKey]*viewVal {
	out := map[string]map[viewKey]*viewVal{}
	tc := timeutil.Interval(tgt).Calculator()
	for _, r := range e.history {
		if r.kind != 'T' || r.iv != tgt || len(r.keys) == 0 || len(r.pairs) != 2 {
			continue
		}
		segT, err := tc.ParseSegmentTime(r.pairs[0])
		if err != nil {
			continue
		}
		g := fmt.Sprintf("%d/%s", segT, r.pairs[1])
		if out[g] == nil {
			out[g] = map[viewKey]*viewVal{}
		}
		h := r.keys[0].h
		fS := e.targetFamStart(h, tgt)
		sF := e.srcFamStart(h)
		bs := int(uint16(tc.CalcSlot(sF, fS, tgt)))
		ratio := int(uint16(tgt / e.src))
		rec := map[viewKey]*viewVal{} // output of this merge record
		for m, w := range e.unionRanges(r.keys) {
			ts := int(uint16(tc.CalcSlot(sF+int64(w.start)*e.src, fS, tgt)))
			te := int(uint16(tc.CalcSlot(sF+int64(w.end)*e.src, fS, tgt)))
			length := int(uint16(te-ts)) + 1
			for _, k := range r.keys {
				for _, b := range e.files[k] {
					if b.metric != m {
						continue
					}
					// one decoder per (series, field): ascending slots
					type sf struct {
						s uint32
						f int
					}
					decs := map[sf][]cell{}
					for _, c := range b.cells {
						decs[sf{c.series, c.field}] = append(decs[sf{c.series, c.field}], c)
					}
					for _, cs := range decs {
						sort.Slice(cs, func(i, j int) bool { return cs[i].slot < cs[j].slot })
						for _, c := range cs {
							if ratio == 0 {
								break
							}
							pos := bs + c.slot/ratio - ts
							if pos < 0 {
								continue
							}
							if pos >= length {
								break
							}
							vk := viewKey{m, c.series, c.field, ts + pos}
							cur, ok := rec[vk]
							switch {
							case !ok:
								rec[vk] = &viewVal{ftype: c.ftype, val: c.val, n: 1}
							case c.ftype == 4:
								cur.val = c.val
							case c.ftype == 6:
							case c.ftype == 2:
								if c.val < cur.val {
									cur.val = c.val
								}
							case c.ftype == 3:
								if c.val > cur.val {
									cur.val = c.val
								}
							default:
								cur.val += c.val
							}
						}
					}
				}
			}
		}
		for vk, v := range rec {
			combine(out[g], vk, v.ftype, v.val)
		}
	}
	for g, v := range out {
		if len(v) == 0 {
			delete(out, g)
		}
	}
	return out
}

func (e *env) checkRecorded(tgt int64, got map[string]map[viewKey]*viewVal) {
	want := e.expectedCurrent(tgt)
	if a, b := groupsString(got), groupsString(want); a != b {
		e.c.Fail(e.failKey, fmt.Sprintf("interval %d -> %d (outside the guard): the target differs from the recorded placement baseSlot + slot/ratio; target holds %.400s ; recorded behaviour gives %.400s", e.src, tgt, a, b))
	}
}

// ---------------------------------------------------------------- concurrent rollup jobs of one ForceRollup

// concCase: many source families of ONE store are rolled up by ONE Store.ForceRollup(), which starts
// the rollup job of every family in its own goroutine; all jobs merge into the same target family.
// Each target must hold exactly what C04 demands (= what the jobs produce one after the other).
// big: enough series for the jobs to overlap in time; file contents are then not sent to the model
// (bookkeeping records and state are), the cells are checked by the oracle only.
func (e *env) concCase(big bool) error {
	rng, c := e.rng, e.c
	e.big = big
	e.src = 10 * sec
	e.tgts = []int64{5 * min_}
	if rng.Intn(2) == 0 {
		e.tgts = []int64{[]int64{5 * min_, 10 * min_, 30 * min_}[rng.Intn(3)], []int64{hour, 2 * hour}[rng.Intn(2)]}
	}
	d, region := pickDay(rng)
	c.Branch(region)
	if err := e.setDay(d); err != nil {
		return err
	}
	if !big && rng.Intn(2) == 0 {
		// several source STORES (days of one month), the same hours in each: equal family ids in the
		// day stores, one target store, one target family per day (month type) / one shared (year type)
		e.multi = true
		tcm := timeutil.Interval(5 * min_).Calculator()
		for tries := 0; len(e.days) < 3 && tries < 40; tries++ {
			cand := d + int64(rng.Intn(9)) - 4
			dup := cand < 0
			for _, x := range e.days {
				dup = dup || x.dayNo == cand
			}
			if dup || tcm.CalcSegmentTime(cand*day) != tcm.CalcSegmentTime(d*day) {
				continue
			}
			if err := e.addDay(cand); err != nil {
				return err
			}
		}
		c.Branch("concurrent-multi-day")
		for _, h := range rng.Perm(24)[:3+rng.Intn(2)] {
			for di := range e.days {
				e.hours = append(e.hours, di*100+h)
			}
		}
	} else {
		nfam := 8 + rng.Intn(5)
		for _, h := range rng.Perm(24)[:nfam] {
			e.hours = append(e.hours, h)
		}
	}
	sort.Ints(e.hours)
	for _, t := range e.tgts {
		e.avail[t] = true
	}
	if err := e.openStores(); err != nil {
		return err
	}
	e.opCfg()
	nseries := 30 + rng.Intn(30)
	if big {
		nseries = 1500 + rng.Intn(1000)
		c.Branch("concurrent-big")
	} else {
		c.Branch("concurrent-small")
	}
	for _, h := range e.hours {
		b := mblock{metric: 1, start: 0, end: 359}
		for sid := 1; sid <= nseries; sid++ {
			for slot := (sid + h%100) % 7; slot < 360; slot += 7 + rng.Intn(40) {
				b.cells = append(b.cells, cell{series: uint32(sid), field: 1, ftype: 1, slot: slot, val: int64(1 + rng.Intn(1000))})
				if sid%3 == 0 {
					b.cells = append(b.cells, cell{series: uint32(sid), field: 2, ftype: 3, slot: slot, val: int64(rng.Intn(100000))})
				}
			}
		}
		if err := e.opFlush(h, fileData{b}); err != nil {
			return err
		}
	}
	// ONE ForceRollup: the jobs of all families run concurrently
	e.mu.Lock()
	e.cur, e.cutAt, e.imaged = nil, -1, false
	e.mu.Unlock()
	if len(e.days) == 1 {
		if err := kv.VerifForceRollupSync(e.srcStore); err != nil {
			return err
		}
	} else {
		// the real ForceRollup of every day store (each starts its families' jobs and returns), then wait
		for di := range e.days {
			e.days[di].store.ForceRollup()
		}
		for _, h := range e.hours {
			if err := kv.VerifRollupSync(e.fams[h]); err != nil {
				return err
			}
		}
	}
	e.mu.Lock()
	recs := e.cur
	e.cur = nil
	e.mu.Unlock()
	e.history = append(e.history, recs...)
	var av []int64
	av = append(av, e.tgts...)
	for _, h := range e.hours {
		var mine []rec
		for _, r := range recs {
			if r.srcH == h {
				mine = append(mine, r)
			}
		}
		var ivs, dvs []int64
		seen, seenD := map[int64]bool{}, map[int64]bool{}
		texts := []string{}
		for _, r := range mine {
			texts = append(texts, r.text)
			if r.kind == 'T' && !seen[r.iv] {
				seen[r.iv] = true
				ivs = append(ivs, r.iv)
				e.checkTargetLocation(r)
				e.checkBlockRanges(r)
			}
			if r.kind == 'D' && !seenD[r.iv] {
				seenD[r.iv] = true
				dvs = append(dvs, r.iv)
			}
		}
		for _, t := range e.tgts {
			if !seen[t] {
				ivs = append(ivs, t)
			}
			if !seenD[t] {
				dvs = append(dvs, t)
			}
		}
		rs := strings.Join(texts, ";")
		if rs == "" {
			rs = "-"
		}
		c.Op(fmt.Sprintf("rollupq %d ivs=%s dvs=%s avail=%s", h, joinInts(ivs), joinInts(dvs), joinInts(av)), "recs="+rs)
	}
	for _, r := range recs {
		if r.srcH < 0 {
			c.Fail("concurrent-foreign-record", "record not attributable to a source family: "+r.text)
		}
	}
	c.Op("state", e.stateString())
	e.checkOnce()
	e.checkDrained()
	for _, t := range e.tgts {
		g, err := e.readTarget(t)
		if err != nil {
			return err
		}
		if !big {
			c.Op("read "+strconv.FormatInt(t, 10), groupsString(g))
		}
		e.failKey = "concurrent-rollup-aggregate-mismatch"
		e.checkAggregates(t, g)
	}
	c.NonTrivial()
	return nil
}
