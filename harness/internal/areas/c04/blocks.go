package c04

import (
	"fmt"
	"math"
	"sort"
	"strconv"
	"strings"

	"github.com/lindb/lindb/flow"
	"github.com/lindb/lindb/kv"
	"github.com/lindb/lindb/kv/table"
	"github.com/lindb/lindb/pkg/bit"
	"github.com/lindb/lindb/pkg/encoding"
	"github.com/lindb/lindb/pkg/timeutil"
	"github.com/lindb/lindb/series/field"
	"github.com/lindb/lindb/tsdb/tblstore/metricsdata"
)

// cell is one stored value of a metric block.
type cell struct {
	series uint32
	field  int
	ftype  int
	slot   int
	val    int64
}

// mblock is the logical content of one metric block of one file.
type mblock struct {
	metric     uint32
	start, end int
	cells      []cell
}

// fileData is one flushed source file (blocks in ascending metric id).
type fileData []mblock

// token renders a block for the line protocol: metric/start/end/series.field.ftype.slot.val,...
func (b *mblock) token() string {
	cs := append([]cell(nil), b.cells...)
	sort.Slice(cs, func(i, j int) bool {
		a, c := cs[i], cs[j]
		if a.series != c.series {
			return a.series < c.series
		}
		if a.field != c.field {
			return a.field < c.field
		}
		return a.slot < c.slot
	})
	parts := make([]string, len(cs))
	for i, c := range cs {
		parts[i] = fmt.Sprintf("%d.%d.%d.%d.%d", c.series, c.field, c.ftype, c.slot, c.val)
	}
	return fmt.Sprintf("%d/%d/%d/%s", b.metric, b.start, b.end, strings.Join(parts, ","))
}

// writeFile writes the logical file through the real metricsdata.Flusher over the family's
// real kv flusher and commits it (storeFlusher.Commit registers the rollup entries).
func writeFile(fam kv.Family, fd fileData) error {
	kvFlusher := fam.NewFlusher()
	defer kvFlusher.Release()
	fl, err := metricsdata.NewFlusher(kvFlusher)
	if err != nil {
		return err
	}
	for i := range fd {
		if err := writeBlock(fl, &fd[i]); err != nil {
			return err
		}
	}
	return fl.Close()
}

func writeBlock(fl metricsdata.Flusher, b *mblock) error {
	// field metas of the block: every (field, type) that occurs, ascending id
	ftypes := map[int]int{}
	for _, c := range b.cells {
		ftypes[c.field] = c.ftype
	}
	var fids []int
	for f := range ftypes {
		fids = append(fids, f)
	}
	sort.Ints(fids)
	metas := make(field.Metas, len(fids))
	for i, f := range fids {
		metas[i] = field.Meta{ID: field.ID(f), Type: field.Type(ftypes[f])}
	}
	bySeries := map[uint32]map[int]map[int]int64{}
	for _, c := range b.cells {
		if bySeries[c.series] == nil {
			bySeries[c.series] = map[int]map[int]int64{}
		}
		if bySeries[c.series][c.field] == nil {
			bySeries[c.series][c.field] = map[int]int64{}
		}
		bySeries[c.series][c.field][c.slot] = c.val
	}
	var sids []uint32
	for s := range bySeries {
		sids = append(sids, s)
	}
	sort.Slice(sids, func(i, j int) bool { return sids[i] < sids[j] })
	fl.PrepareMetric(b.metric, metas)
	for _, sid := range sids {
		for idx, f := range fids {
			vals, ok := bySeries[sid][f]
			if !ok {
				if err := fl.FlushField(nil); err != nil {
					return err
				}
				continue
			}
			enc := fl.GetEncoder(idx)
			enc.RestWithStartTime(uint16(b.start))
			for t := b.start; t <= b.end; t++ {
				if v, ok := vals[t]; ok {
					enc.AppendTime(bit.One)
					enc.AppendValue(math.Float64bits(float64(v)))
				} else {
					enc.AppendTime(bit.Zero)
				}
			}
			data, err := enc.BytesWithoutTime()
			if err != nil {
				return err
			}
			if err := fl.FlushField(append([]byte(nil), data...)); err != nil {
				return err
			}
			enc.Reset()
		}
		if err := fl.FlushSeries(sid); err != nil {
			return err
		}
	}
	return fl.CommitMetric(timeutil.SlotRange{Start: uint16(b.start), End: uint16(b.end)})
}

// decodeBlock reads one metric block back through the real reader path
// (MetricReader.Load -> DataLoader.Load -> DownSampling callback).
func decodeBlock(metric uint32, data []byte) (*mblock, error) {
	r, err := metricsdata.NewReader("lvh-c04", data)
	if err != nil {
		return nil, err
	}
	tr := r.GetTimeRange()
	b := &mblock{metric: metric, start: int(tr.Start), end: int(tr.End)}
	fs := r.GetFields()
	ids := r.GetSeriesIDs()
	var derr error
	for i, hk := range ids.GetHighKeys() {
		container := ids.GetContainerAtIndex(i)
		ctx := &flow.DataLoadContext{
			ShardExecuteCtx: &flow.ShardExecuteContext{
				StorageExecuteCtx: &flow.StorageExecuteContext{Fields: fs},
			},
			SeriesIDHighKey:       hk,
			LowSeriesIDsContainer: container,
			IsMultiField:          len(fs) > 1,
		}
		ctx.Grouping()
		loader := r.Load(ctx)
		if loader == nil {
			continue
		}
		ctx.Decoder = encoding.GetTSDDecoder()
		hk := hk
		ctx.DownSampling = func(sr timeutil.SlotRange, seriesIdx uint16, fieldIdx int, getter encoding.TSDValueGetter) {
			sid := uint32(hk)<<16 | uint32(ctx.MinSeriesID+seriesIdx)
			fm := fs[fieldIdx]
			for t := int(sr.Start); t <= int(sr.End); t++ {
				v, ok := getter.GetValue(uint16(t))
				if !ok {
					continue
				}
				iv := int64(v)
				if math.IsNaN(v) || math.IsInf(v, 0) || float64(iv) != v {
					derr = fmt.Errorf("metric %d series %d field %d slot %d: value %v is not an exact integer", metric, sid, fm.ID, t, v)
					continue
				}
				b.cells = append(b.cells, cell{series: sid, field: int(fm.ID), ftype: int(fm.Type), slot: t, val: iv})
			}
		}
		loader.Load(ctx)
		encoding.ReleaseTSDDecoder(ctx.Decoder)
	}
	return b, derr
}

// readFamily decodes every block of every live file of a kv family.
func readFamily(fam kv.Family) ([]mblock, error) {
	snap := fam.GetSnapshot()
	defer snap.Close()
	var out []mblock
	for _, fm := range snap.GetCurrent().GetAllFiles() {
		rd, err := snap.GetReader(fm.GetFileNumber())
		if err != nil {
			return nil, err
		}
		it := rd.Iterator()
		for it.HasNext() {
			key := it.Key()
			val := append([]byte(nil), it.Value()...)
			b, err := decodeBlock(key, val)
			if err != nil {
				return nil, err
			}
			out = append(out, *b)
		}
	}
	return out, nil
}

// viewKey identifies one observable target cell.
type viewKey struct {
	metric, series uint32
	field, slot    int
}

type viewVal struct {
	ftype int
	val   int64
	n     int // number of stored values combined
}

// combine folds stored values of the same cell the way the field type aggregates
// (sum/histogram add, min, max); first/last cells are expected to have one stored value.
func combine(view map[viewKey]*viewVal, k viewKey, ftype int, v int64) {
	cur, ok := view[k]
	if !ok {
		view[k] = &viewVal{ftype: ftype, val: v, n: 1}
		return
	}
	cur.n++
	switch ftype {
	case 2:
		if v < cur.val {
			cur.val = v
		}
	case 3:
		if v > cur.val {
			cur.val = v
		}
	case 4, 6:
		// order between files is not defined here; the generator never produces this
	default:
		cur.val += v
	}
}

func viewOfBlocks(blocks []mblock) map[viewKey]*viewVal {
	view := map[viewKey]*viewVal{}
	for i := range blocks {
		for _, c := range blocks[i].cells {
			combine(view, viewKey{blocks[i].metric, c.series, c.field, c.slot}, c.ftype, c.val)
		}
	}
	return view
}

func viewString(view map[viewKey]*viewVal) string {
	if len(view) == 0 {
		return "empty"
	}
	keys := make([]viewKey, 0, len(view))
	for k := range view {
		keys = append(keys, k)
	}
	sort.Slice(keys, func(i, j int) bool {
		a, b := keys[i], keys[j]
		if a.metric != b.metric {
			return a.metric < b.metric
		}
		if a.series != b.series {
			return a.series < b.series
		}
		if a.field != b.field {
			return a.field < b.field
		}
		return a.slot < b.slot
	})
	var sb strings.Builder
	for i, k := range keys {
		if i > 0 {
			sb.WriteByte(' ')
		}
		v := view[k]
		sb.WriteString(strconv.FormatUint(uint64(k.metric), 10))
		sb.WriteByte('.')
		sb.WriteString(strconv.FormatUint(uint64(k.series), 10))
		sb.WriteByte('.')
		sb.WriteString(strconv.Itoa(k.field))
		sb.WriteByte('.')
		sb.WriteString(strconv.Itoa(k.slot))
		sb.WriteByte('=')
		if (v.ftype == 4 || v.ftype == 6) && v.n > 1 {
			sb.WriteString("conflict")
		} else {
			sb.WriteString(strconv.FormatInt(v.val, 10))
		}
	}
	return sb.String()
}

func tableFileNumber(n int64) table.FileNumber { return table.FileNumber(n) }
