package c04

import (
	"fmt"
	"math/rand"
	"strings"
	"time"
	_ "time/tzdata" // the zone region must not depend on the machine's tz database

	"github.com/lindb/lindb/pkg/timeutil"

	"github.com/lindb/lindb/zzverif/internal/core"
)

// Zone region (round 9). C04's statement does not restrict the process time zone; pkg/timeutil's
// calculators work on time.Local. The zone cases run the same streams (store histories, arithmetic)
// with time.Local = a named zone; the model gets the zone as its initial offset and transitions
// (C13's zone model). Whole-hour daylight-saving zones only: half-hour DST (Australia/Lord_Howe) is a
// recorded C13 finding about the day-type families themselves, zones whose clock change removes a
// local midnight (America/Santiago, America/Sao_Paulo before 2019) are outside C13's zone contract.
var zoneNames = []string{"America/New_York", "Europe/Berlin", "Australia/Sydney", "Asia/Kolkata", "America/New_York", "Europe/Berlin"}

// zoneState is the zone of the running case (nil loc = UTC, the default of the harness).
type zoneState struct {
	year int
	name string
	loc  *time.Location
	txt  string // "off0 at1 off1 ..." for the model
	trs  [][2]int64
}

var curZone *zoneState

// zoneTransitions scans loc from Dec 20 of year-1 to Feb 15 of year+1 and returns the offset at the
// start and every (UTC second, new offset) change.
func zoneTransitions(loc *time.Location, year int) (off0 int, trs [][2]int64) {
	offAt := func(s int64) int { _, o := time.Unix(s, 0).In(loc).Zone(); return o }
	from := time.Date(year-1, 12, 20, 0, 0, 0, 0, time.UTC).Unix()
	to := time.Date(year+1, 2, 15, 0, 0, 0, 0, time.UTC).Unix()
	off0 = offAt(from)
	cur := off0
	for s := from; s < to; s += 86400 {
		if o := offAt(s + 86400); o != cur {
			lo, hi := s, s+86400
			for hi-lo > 1 {
				mid := (lo + hi) / 2
				if offAt(mid) == cur {
					lo = mid
				} else {
					hi = mid
				}
			}
			cur = offAt(hi)
			trs = append(trs, [2]int64{hi, int64(cur)})
		}
	}
	return off0, trs
}

// enterZone sets time.Local to the named zone for the running case; the returned function restores UTC.
func enterZone(c *core.Ctx, name string, year int) (func(), bool) {
	loc, err := time.LoadLocation(name)
	if err != nil {
		c.Branch("zone-tzdata-missing")
		return func() {}, false
	}
	off0, trs := zoneTransitions(loc, year)
	parts := []string{fmt.Sprint(off0)}
	for _, tr := range trs {
		parts = append(parts, fmt.Sprint(tr[0]), fmt.Sprint(tr[1]))
	}
	curZone = &zoneState{year: year, name: name, loc: loc, txt: strings.Join(parts, " "), trs: trs}
	time.Local = loc
	c.Branch("zone-" + name)
	return func() { time.Local = time.UTC; curZone = nil }, true
}

// localMidnight is the instant (ms) of the local midnight that starts wall-clock day number n.
func localMidnight(n int64) int64 {
	u := time.Unix(n*86400, 0).UTC()
	return time.Date(u.Year(), u.Month(), u.Day(), 0, 0, 0, 0, time.Local).UnixMilli()
}

// hoursOfDay is the number of one-hour families of wall-clock day n (23, 24 or 25).
func hoursOfDay(n int64) int {
	return int((localMidnight(n+1) - localMidnight(n) + hour - 1) / hour)
}

// wallDay is the wall-clock day number of the instant ts (ms) in time.Local.
func wallDay(ts int64) int64 {
	t := time.UnixMilli(ts).In(time.Local)
	return daysFromCivil(int64(t.Year()), int64(t.Month()), int64(t.Day()))
}

// pickZoneDay picks a wall-clock day of `year` for a zone case: mostly days in the month of a clock
// change (the day before, the day itself, the days after it up to the end of the month).
func pickZoneDay(rng *rand.Rand, year int) (int64, string) {
	z := curZone
	var inYear [][2]int64
	for _, tr := range z.trs {
		if time.Unix(tr[0], 0).In(z.loc).Year() == year {
			inYear = append(inYear, tr)
		}
	}
	if len(inYear) == 0 || rng.Intn(6) == 0 {
		d, region := pickDayOfYear(rng, int64(year))
		return d, "zone-" + region
	}
	tr := inYear[rng.Intn(len(inYear))]
	at := time.Unix(tr[0], 0).In(z.loc)
	td := daysFromCivil(int64(at.Year()), int64(at.Month()), int64(at.Day()))
	next := daysFromCivil(int64(at.Year()), int64(at.Month())+1, 1)
	if at.Month() == 12 {
		next = daysFromCivil(int64(at.Year())+1, 1, 1)
	}
	kind := "forward"
	if hoursOfDay(td) > 24 {
		kind = "back"
	}
	switch rng.Intn(6) {
	case 0:
		return td - 1, "zone-day-before-clock-" + kind
	case 1:
		return td, "zone-day-of-clock-" + kind
	case 2:
		return td + 1, "zone-day-after-clock-" + kind
	}
	if next-1 > td {
		return td + 1 + int64(rng.Intn(int(next-1-td))), "zone-later-day-of-month-after-clock-" + kind
	}
	return td + 1, "zone-day-after-clock-" + kind
}

// refPlace is C04's reading of "the target family and segment that contain the timestamp", computed
// from the wall clock of time.Local with Go's time package only (no lindb calculator): a month-type
// target keeps one segment per calendar month and one family per calendar day, a year-type target one
// segment per year and one family per calendar month; the slot is counted from the family start.
type refLoc struct {
	segT     int64
	segName  string
	fam      int
	famStart int64
	famEnd   int64
	slot     int64
}

func refPlace(ts, tgt int64) refLoc {
	t := time.UnixMilli(ts).In(time.Local)
	var r refLoc
	switch timeutil.Interval(tgt).Type() {
	case timeutil.Month:
		r.segT = time.Date(t.Year(), t.Month(), 1, 0, 0, 0, 0, time.Local).UnixMilli()
		r.segName = t.Format("200601")
		r.fam = t.Day()
		r.famStart = time.Date(t.Year(), t.Month(), t.Day(), 0, 0, 0, 0, time.Local).UnixMilli()
		r.famEnd = time.Date(t.Year(), t.Month(), t.Day()+1, 0, 0, 0, 0, time.Local).UnixMilli() - 1
	case timeutil.Year:
		r.segT = time.Date(t.Year(), 1, 1, 0, 0, 0, 0, time.Local).UnixMilli()
		r.segName = t.Format("2006")
		r.fam = int(t.Month())
		r.famStart = time.Date(t.Year(), t.Month(), 1, 0, 0, 0, 0, time.Local).UnixMilli()
		r.famEnd = time.Date(t.Year(), t.Month()+1, 1, 0, 0, 0, 0, time.Local).UnixMilli() - 1
	default:
		r.segT = time.Date(t.Year(), t.Month(), t.Day(), 0, 0, 0, 0, time.Local).UnixMilli()
		r.segName = t.Format("20060102")
		r.fam = int((ts - r.segT) / hour)
		r.famStart = r.segT + int64(r.fam)*hour
		r.famEnd = r.famStart + hour - 1
	}
	r.slot = (ts - r.famStart) / tgt
	return r
}

func zoneSuffix() string {
	if curZone == nil {
		return ""
	}
	return " (time.Local=" + curZone.name + ")"
}
