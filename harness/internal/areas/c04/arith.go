package c04

import (
	"fmt"
	"math"
	"math/rand"
	"strconv"
	"strings"
	"time"

	"github.com/lindb/lindb/aggregation"
	"github.com/lindb/lindb/pkg/bit"
	"github.com/lindb/lindb/pkg/encoding"
	"github.com/lindb/lindb/pkg/timeutil"
	"github.com/lindb/lindb/series/field"

	"github.com/lindb/lindb/zzverif/internal/core"
)

// arithmetic-only stream: the real calculators, the real kv.Rollup object and the real
// DownSamplingMultiSeriesInto on single values, for interval pairs inside AND outside the guard
// of slot_placement (model correspondence only; no oracle: the model mirrors the code).

var arithSources = []int64{sec, 2 * sec, 5 * sec, 7 * sec, 10 * sec, 10 * sec, 13 * sec, 15 * sec, 30 * sec, min_, 2 * min_, 4 * min_,
	5 * min_, 10 * min_, 7 * min_, 30 * min_}
var arithTargets = []int64{5 * min_, 6 * min_, 7 * min_, 10 * min_, 15 * min_, 20 * min_, 30 * min_, 45 * min_, 59 * min_,
	hour, 90 * min_, 2 * hour, 3 * hour, 5 * hour, 7 * hour, 19 * hour, day, 36 * hour, 2 * day}

const arithWindow = 4000

// placeReal returns the position at which the real DownSamplingMultiSeriesInto emits a single
// value stored at source slot s (target range [0, arithWindow-1]); -1 when nothing is emitted.
func placeReal(ratio, baseSlot uint16, s uint16) int {
	enc := encoding.NewTSDEncoder(s)
	enc.AppendTime(bit.One)
	enc.AppendValue(math.Float64bits(1))
	data, err := enc.BytesWithoutTime()
	if err != nil {
		return -2
	}
	dec := encoding.GetTSDDecoder()
	defer encoding.ReleaseTSDDecoder(dec)
	dec.ResetWithTimeRange(data, s, s)
	got := -1
	aggregation.DownSamplingMultiSeriesInto(timeutil.SlotRange{Start: 0, End: arithWindow - 1}, ratio, baseSlot, field.SumField,
		[]*encoding.TSDDecoder{dec}, func(pos int, v float64) {
			if !math.IsInf(v, 1) {
				got = pos
			}
		})
	return got
}

// monthSweep (round 12, oracle only, UTC): ONE calendar month, EVERY day of it (28, 29, 30 or 31),
// first / last / a random hour: the target calculators alone (segment, family, family start, slot of
// the timestamp) against the wall clock read with Go's time package. A year-type family is the
// only family whose length is not a constant; Props/C04Family.lean (year_family_slots_greg,
// slot_modulus_exact_iff) is the theorem side of this sweep.
func monthSweep(c *core.Ctx, rng *rand.Rand) {
	y := int64(2015 + rng.Intn(21))
	m := int64(1 + rng.Intn(12))
	if rng.Intn(3) == 0 {
		m = []int64{1, 2, 3, 12}[rng.Intn(4)]
	}
	first := daysFromCivil(y, m, 1)
	next := daysFromCivil(y, m+1, 1)
	if m == 12 {
		next = daysFromCivil(y+1, 1, 1)
	}
	c.Branch(fmt.Sprintf("month-sweep-%d-days", next-first))
	var tgts []int64
	for len(tgts) < 3 {
		t := arithTargets[rng.Intn(len(arithTargets))]
		if timeutil.Interval(t).Type() != timeutil.Day {
			tgts = append(tgts, t)
		}
	}
	tgts = append(tgts, hour)
	for _, tgt := range tgts {
		tc := timeutil.Interval(tgt).Calculator()
		for d := first; d < next; d++ {
			for _, off := range []int64{0, 23*hour + 59*60000 + 59000, int64(rng.Intn(int(24 * hour)))} {
				ts := localMidnight(d) + off
				ref := refPlace(ts, tgt)
				seg := tc.CalcSegmentTime(ts)
				fam := tc.CalcFamily(ts, seg)
				fS := tc.CalcFamilyStartTime(seg, fam)
				if seg != ref.segT || fam != ref.fam || fS != ref.famStart || tc.CalcFamilyEndTime(fS) != ref.famEnd {
					c.Fail("target-calculator-vs-wall-clock", fmt.Sprintf("interval %d, timestamp %d (%s, day %d of a %d-day month): the calculator gives segment %d, family %d [%d, %d]; by the wall clock it is segment %d, family %d [%d, %d]",
						tgt, ts, time.UnixMilli(ts).UTC().Format(time.RFC3339), d-first+1, next-first, seg, fam, fS, tc.CalcFamilyEndTime(fS), ref.segT, ref.fam, ref.famStart, ref.famEnd))
					return
				}
				if got := int64(tc.CalcSlot(ts, fS, tgt)); got != ref.slot {
					c.Fail("target-calcslot-vs-wall-clock", fmt.Sprintf("interval %d, timestamp %d (%s, day %d of a %d-day month), family start %d: CalcSlot = %d, but the timestamp lies in window %d of the family (slots of that day: %d..%d)",
						tgt, ts, time.UnixMilli(ts).UTC().Format(time.RFC3339), d-first+1, next-first, fS, got, ref.slot,
						(localMidnight(d)-fS)/tgt, (localMidnight(d+1)-1-fS)/tgt))
					return
				}
			}
		}
	}
}

func arithCase(c *core.Ctx, rng *rand.Rand) {
	monthSweep(c, rand.New(rand.NewSource(rng.Int63())))
	for n := 0; n < 6; n++ {
		var src, tgt int64
		for {
			src = arithSources[rng.Intn(len(arithSources))]
			tgt = arithTargets[rng.Intn(len(arithTargets))]
			st, tt := timeutil.Interval(src).Type(), timeutil.Interval(tgt).Type()
			if tgt > src && st != tt && (tgt/src)%65536 != 0 {
				break
			}
		}
		// half of the comparisons run with time.Local = a named zone (zone region)
		leave := func() {}
		if n >= 3 {
			year := 2015 + rng.Intn(21)
			var ok bool
			if leave, ok = enterZone(c, zoneNames[rng.Intn(len(zoneNames))], year); ok {
				c.Branch("zone-arith")
			}
		}
		d, _ := pickDay(rng)
		nhd := 24
		if curZone != nil {
			d, _ = pickZoneDay(rng, curZone.year)
			nhd = hoursOfDay(d)
		}
		sc := timeutil.Interval(src).Calculator()
		srcSeg := sc.CalcSegmentTime(localMidnight(d) + 12*hour)
		var fTime int
		famLen := hour
		if timeutil.Interval(src).Type() == timeutil.Day {
			fTime = []int{0, nhd - 1, rng.Intn(nhd), rng.Intn(nhd)}[rng.Intn(4)]
		} else {
			fTime = sc.CalcFamily(localMidnight(d)+12*hour, srcSeg)
			famLen = localMidnight(d+1) - localMidnight(d)
		}
		nslots := int(famLen / src)
		slots := []int{0, nslots - 1}
		for k := 0; k < 6; k++ {
			slots = append(slots, rng.Intn(nslots))
		}
		ss := make([]string, len(slots))
		for i, s := range slots {
			ss[i] = strconv.Itoa(s)
		}
		eval := func() string {
			line, r := locLine(src, tgt, srcSeg, fTime)
			// oracle (every pair, inside or outside the guard): the rollup object answers with the
			// TARGET INTERVAL'S OWN calculator — one timestamp has one slot in the target family
			tc := timeutil.Interval(tgt).Calculator()
			fst := sc.CalcFamilyStartTime(srcSeg, fTime)
			tSeg := tc.CalcSegmentTime(fst)
			fS := tc.CalcFamilyStartTime(tSeg, tc.CalcFamily(fst, tSeg))
			// the located target family is the one that contains the source family's start by the wall clock
			if ref := refPlace(fst, tgt); ref.famStart != fS || ref.segT != tSeg {
				c.Fail("rollup-target-family-vs-wall-clock", fmt.Sprintf("interval %d -> %d, source family start %d (%s): the rollup locates target segment %d, family start %d; by the wall clock the timestamp lies in segment %d, family %d starting at %d%s",
					src, tgt, fst, time.UnixMilli(fst).In(time.Local).Format("2006-01-02T15:04:05Z07:00"), tSeg, fS, ref.segT, ref.fam, ref.famStart, zoneSuffix()))
			}
			if want := uint16(tc.CalcSlot(fst, fS, tgt)); r.BaseSlot() != want {
				c.Fail("rollup-baseslot-vs-calculator", fmt.Sprintf("interval %d -> %d, source family start %d, target family start %d: BaseSlot() = %d, the target calculator's slot of the source family start is %d", src, tgt, fst, fS, r.BaseSlot(), want))
			}
			if want := uint16(tgt / src); r.IntervalRatio() != want {
				c.Fail("rollup-ratio", fmt.Sprintf("interval %d -> %d: IntervalRatio() = %d, want %d", src, tgt, r.IntervalRatio(), want))
			}
			outs := make([]string, len(slots))
			for i, s := range slots {
				ts := r.GetTimestamp(uint16(s))
				if ts != fst+int64(s)*src {
					c.Fail("rollup-timestamp", fmt.Sprintf("interval %d: GetTimestamp(%d) = %d for family start %d", src, s, ts, fst))
				}
				// the calculator's own slot against the wall clock (valid for every pair: it is the
				// target family's window that contains the timestamp)
				if ref := refPlace(ts, tgt); ref.famStart == fS && int64(tc.CalcSlot(ts, fS, tgt)) != ref.slot {
					c.Fail("target-calcslot-vs-wall-clock", fmt.Sprintf("interval %d, timestamp %d (%s), target family start %d: the calculator's CalcSlot = %d, but the timestamp lies in window %d of the family%s",
						tgt, ts, time.UnixMilli(ts).In(time.Local).Format("2006-01-02T15:04:05Z07:00"), fS, tc.CalcSlot(ts, fS, tgt), ref.slot, zoneSuffix()))
				}
				if want := uint16(tc.CalcSlot(ts, fS, tgt)); r.CalcSlot(ts) != want {
					c.Fail("rollup-calcslot-vs-calculator", fmt.Sprintf("interval %d -> %d, source family start %d, target family start %d: rollup.CalcSlot(%d) = %d (source slot %d), the target interval's calculator puts that timestamp in slot %d",
						src, tgt, fst, fS, ts, r.CalcSlot(ts), s, want))
				}
				pos := placeReal(r.IntervalRatio(), r.BaseSlot(), uint16(s))
				p := "x"
				if pos >= 0 {
					p = strconv.Itoa(pos)
				}
				outs[i] = fmt.Sprintf("%d:%d:%s", ts, r.CalcSlot(ts), p)
			}
			return line + " | " + strings.Join(outs, " ")
		}
		guard := "in"
		if !(tgt%src == 0 && (famLen%tgt == 0 || tgt%famLen == 0) && tgt/src < 65536) {
			guard = "out"
		}
		c.Branch("arith-guard-" + guard)
		c.Branch("arith-" + string(timeutil.Interval(src).Type()) + "-to-" + string(timeutil.Interval(tgt).Type()))
		if curZone != nil {
			c.Guard(fmt.Sprintf("arithz %d %d %d %d | %s | %s", src, tgt, srcSeg, fTime, strings.Join(ss, " "), curZone.txt), eval)
		} else {
			c.Guard(fmt.Sprintf("arith %d %d %d %d | %s", src, tgt, srcSeg, fTime, strings.Join(ss, " ")), eval)
		}
		leave()
	}
	c.NonTrivial()
}
