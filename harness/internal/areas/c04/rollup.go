// Package c04 is the correspondence stream "rollup": real source/target kv stores under the
// directory naming that family.rollup() parses (<base>/segment/<interval type>/<segment>/<family>),
// real metric blocks written with the metricsdata flusher, the real rollup job (family.rollup()
// through kv.VerifRollupSync / Store.ForceRollup), crash images taken at edit-log commit
// boundaries, close/reopen, and the target blocks read back with the real reader. Every operation
// is mirrored in the C04 line protocol for the Lean model (Model/Rollup.lean).
package c04

import (
	"encoding/json"
	"fmt"
	"math/rand"
	"os"
	"os/exec"
	"path/filepath"
	"sort"
	"strconv"
	"strings"
	"sync"
	"time"

	"github.com/lindb/lindb/kv"
	"github.com/lindb/lindb/kv/table"
	"github.com/lindb/lindb/kv/version"
	"github.com/lindb/lindb/pkg/option"
	"github.com/lindb/lindb/pkg/stream"
	"github.com/lindb/lindb/pkg/timeutil"
	"github.com/lindb/lindb/tsdb/tblstore/metricsdata"

	"github.com/lindb/lindb/zzverif/internal/core"
)

type area struct{}

func init() { core.Register(area{}) }

func (area) Name() string { return "rollup" }

const (
	sec  = int64(1000)
	min_ = 60 * sec
	hour = 60 * min_
	day  = 24 * hour
)

// dayInfo is one source store (one day segment).
type dayInfo struct {
	dayNo int64
	seg   string
	segT  int64
	store kv.Store
}

// key of a source file: (code of the source family = dayIndex*100 + hour, file number)
type fkey struct {
	h    int
	file int64
}

// rec is one observed edit-log commit in canonical form.
type rec struct {
	kind     byte // 'F' flush, 'T' merge+references, 'S' delete rollup entries, 'D' delete references, '?' other
	iv       int64
	keys     []fkey     // T, D: source files; F: the flushed file
	pairs    []string   // T: target store dir, family name
	trip     [][3]int64 // S: (h, file, iv); F: (iv)
	text     string
	newFiles []int64 // file numbers added by the record (T: the rolled-up output files)
	srcH     int     // source family (hour) the record belongs to; -1 unknown
}

type env struct {
	c      *core.Ctx
	rng    *rand.Rand
	base   string
	src    int64
	tgts   []int64
	dayNo  int64
	seg    string // source segment name (yyyymmdd)
	segT   int64
	hours  []int
	avail  map[int64]bool // target store created
	famOpt kv.FamilyOption

	srcStore kv.Store
	fams     map[int]kv.Family // hour -> source family
	famByID  map[string]int    // "<source segment name>/<family id>" -> family code
	days     []dayInfo         // source stores (days of one month); e.seg/e.segT/e.dayNo describe days[0]
	multi    bool              // several source days
	files    map[fkey]fileData
	order    []fkey
	owned    map[[3]uint32]bool // (metric, series, field) of first/last fields already written
	schema   map[uint32]map[int]int

	mu      sync.Mutex
	cur     []rec
	cutAt   int
	imaged  bool
	image   string
	history []rec // committed records that survived (crash images cut the tail)

	failKey string // oracle key for aggregate mismatches (the witness case uses its own key)
	// unguarded: the interval pair is outside the guard of slot_placement (the class of the recorded
	// finding); the target is then compared with the RECORDED behaviour of the code (expectedCurrent)
	unguarded bool
	big       bool // concurrent bulk case: file contents are not sent to the model
	faults    bool // fault region: transient open failures of one source file during a rollup job
	restarts  bool // restart region: a crashed rollup run is followed by 1-3 restarts, then rollup again
	zoneYear  int  // zone region: the year the zone's transitions were taken for
	// commit-fault witness: the commit of the first record of this kind fails (manifest write error)
	failKind  byte
	onceKey   string
	failedAt  int
	failedRec *rec
	armFault  *fkey
	attempted map[fkey]bool // source files a rollup job may have opened already (reader cached)
	drainKey  string
	// round 10: target stores closed by `tclose` (store path); a target store is registered in the store
	// manager iff avail[interval] and not tclosed[path]
	tclosed  map[string]bool
	evict    bool // eviction region: target stores are closed / re-created while the source family objects live on
	boundary bool // the source days lie on both sides of a target-segment boundary (month end / year end)
	// round 12: a flush committed WHILE a rollup job runs (from inside the commit hook, i.e. between two
	// committed records of the job); wrng = random stream of this region only (independent of rng)
	wrng  *rand.Rand
	weave *weaveReq
}

// weaveReq: flush fd into source family h immediately before the job commits its record number at.
type weaveReq struct {
	h     int
	at    int
	fd    fileData
	fired bool
	err   error
}

func (e *env) srcStorePath(di int) string {
	return filepath.Join(e.base, "segment", timeutil.Interval(e.src).Type().String(), e.days[di].seg)
}

// codeOf maps (source segment name, hour) to the family code; -1 if unknown.
func (e *env) codeOf(seg string, hour int) int {
	for di := range e.days {
		if e.days[di].seg == seg {
			return di*100 + hour
		}
	}
	return -1
}

func (e *env) tgtStorePath(tgt int64, segName string) string {
	return filepath.Join(e.base, "segment", timeutil.Interval(tgt).Type().String(), segName)
}

func (e *env) srcFamStart(h int) int64 {
	return timeutil.Interval(e.src).Calculator().CalcFamilyStartTime(e.days[h/100].segT, h%100)
}

// ---------------------------------------------------------------- commit hook

func logFields(l version.Log) (typ string, a, b int64, store string) {
	typ = fmt.Sprintf("%T", l)
	if i := strings.LastIndexByte(typ, '.'); i >= 0 {
		typ = typ[i+1:]
	}
	data, err := l.Encode()
	if err != nil {
		return typ, -1, -1, ""
	}
	r := stream.NewReader(data)
	switch typ {
	case "newRollupFile", "deleteRollupFile":
		a = r.ReadVarint64()
		b = r.ReadVarint64()
	case "newReferenceFile", "deleteReferenceFile":
		a = r.ReadVarint64()
		b = int64(r.ReadVarint32())
		n := int(r.ReadVarint32())
		store = string(r.ReadBytes(n))
	case "newFile":
		b = int64(r.ReadVarint32()) // level
		a = r.ReadVarint64()        // file number
	case "deleteFile":
		b = int64(r.ReadVarint32())
		a = r.ReadVarint64()
	}
	return
}

func (e *env) ivOfStore(storePath string) int64 {
	typ := filepath.Base(filepath.Dir(storePath))
	for _, t := range e.tgts {
		if timeutil.Interval(t).Type().String() == typ {
			return t
		}
	}
	return -1
}

func (e *env) canon(storePath, family string, logs []version.Log) rec {
	var r rec
	r.kind = '?'
	var newFiles []int64
	var texts []string
	for _, l := range logs {
		typ, a, b, store := logFields(l)
		texts = append(texts, fmt.Sprint(l))
		switch typ {
		case "newFile":
			newFiles = append(newFiles, a)
		case "newRollupFile":
			r.kind = 'F'
			hh, _ := strconv.Atoi(family)
			h := e.codeOf(filepath.Base(storePath), hh)
			k := fkey{h, a}
			if len(r.keys) == 0 || r.keys[0] != k {
				r.keys = append(r.keys, k)
			}
			r.trip = append(r.trip, [3]int64{0, 0, b})
		case "deleteRollupFile":
			r.kind = 'S'
			hh, _ := strconv.Atoi(family)
			h := e.codeOf(filepath.Base(storePath), hh)
			r.trip = append(r.trip, [3]int64{int64(h), a, b})
		case "newReferenceFile":
			r.kind = 'T'
			r.iv = e.ivOfStore(storePath)
			h, ok := e.famByID[store+"/"+strconv.FormatInt(b, 10)]
			if !ok {
				h = -1
			}
			r.keys = append(r.keys, fkey{h, a})
		case "deleteReferenceFile":
			r.kind = 'D'
			r.iv = e.ivOfStore(storePath)
			h, ok := e.famByID[store+"/"+strconv.FormatInt(b, 10)]
			if !ok {
				h = -1
			}
			r.keys = append(r.keys, fkey{h, a})
		}
	}
	sort.Slice(r.keys, func(i, j int) bool {
		if r.keys[i].h != r.keys[j].h {
			return r.keys[i].h < r.keys[j].h
		}
		return r.keys[i].file < r.keys[j].file
	})
	sortTrips(r.trip)
	keys := make([]string, len(r.keys))
	for i, k := range r.keys {
		keys[i] = fmt.Sprintf("%d.%d", k.h, k.file)
	}
	switch r.kind {
	case 'F':
		ne := 0
		if len(newFiles) > 0 {
			ne = 1
		}
		ivs := make([]string, len(r.trip))
		for i, t := range r.trip {
			ivs[i] = strconv.FormatInt(t[2], 10)
		}
		r.text = fmt.Sprintf("F%s:%d[%s]", strings.Join(keys, ","), ne, strings.Join(ivs, ","))
	case 'T':
		r.text = fmt.Sprintf("T%d[%s]", r.iv, strings.Join(keys, ","))
	case 'S':
		ps := make([]string, len(r.trip))
		for i, t := range r.trip {
			ps[i] = fmt.Sprintf("%d.%d@%d", t[0], t[1], t[2])
		}
		r.text = fmt.Sprintf("S[%s]", strings.Join(ps, ","))
	case 'D':
		r.text = fmt.Sprintf("D%d[%s]", r.iv, strings.Join(keys, ","))
	default:
		r.text = "?" + strings.Join(texts, "+")
	}
	// remember where a T record was committed: target store dir / family name
	if r.kind == 'T' {
		r.pairs = []string{filepath.Base(storePath), family}
	}
	r.newFiles = newFiles
	r.srcH = -1
	switch {
	case r.kind == 'S' || r.kind == 'F':
		if h, err := strconv.Atoi(family); err == nil {
			r.srcH = e.codeOf(filepath.Base(storePath), h)
		}
	case len(r.keys) > 0:
		r.srcH = r.keys[0].h
	}
	return r
}

func (e *env) onCommit(storePath, family string, _ version.FamilyID, logs []version.Log) {
	if w := e.weave; w != nil && !w.fired {
		e.mu.Lock()
		n := len(e.cur)
		e.mu.Unlock()
		if n == w.at {
			// the rollup job is about to commit its record number `at`: a complete real flush (sst file +
			// manifest record) of the source store happens first; its commit re-enters this hook
			w.fired = true
			w.err = writeFile(e.fams[w.h], w.fd)
		}
	}
	e.mu.Lock()
	defer e.mu.Unlock()
	if e.cutAt >= 0 && !e.imaged && len(e.cur) == e.cutAt {
		if err := copyDir(e.base, e.image); err == nil {
			e.imaged = true
		}
	}
	r := e.canon(storePath, family, logs)
	if e.failKind != 0 && r.kind == e.failKind && e.failedAt < 0 {
		// this commit is going to fail: arm the manifest writer of that store; the record is not committed
		manifestFault.Lock()
		manifestFault.dir, manifestFault.armed = storePath, true
		manifestFault.Unlock()
		e.failedAt, e.failedRec = len(e.cur), &r
		return
	}
	e.cur = append(e.cur, r)
}

func sortTrips(t [][3]int64) {
	sort.Slice(t, func(i, j int) bool {
		for k := 0; k < 3; k++ {
			if t[i][k] != t[j][k] {
				return t[i][k] < t[j][k]
			}
		}
		return false
	})
}

func dedupKeys(ks []fkey) []fkey {
	var out []fkey
	for i, k := range ks {
		if i == 0 || k != ks[i-1] {
			out = append(out, k)
		}
	}
	return out
}

func dedupTrips(t [][3]int64) [][3]int64 {
	sortTrips(t)
	var out [][3]int64
	for i, x := range t {
		if i == 0 || x != t[i-1] {
			out = append(out, x)
		}
	}
	return out
}

func copyDir(src, dst string) error {
	return filepath.Walk(src, func(p string, info os.FileInfo, err error) error {
		if err != nil {
			return err
		}
		rel, _ := filepath.Rel(src, p)
		to := filepath.Join(dst, rel)
		if info.IsDir() {
			return os.MkdirAll(to, 0o755)
		}
		b, err := os.ReadFile(p)
		if err != nil {
			return err
		}
		return os.WriteFile(to, b, 0o644)
	})
}

// ---------------------------------------------------------------- stores

func (e *env) srcOption() kv.StoreOption {
	// as tsdb/segment.go newSegment builds it for the writable interval
	o := kv.DefaultStoreOption()
	for _, t := range e.tgts {
		o.Rollup = append(o.Rollup, timeutil.Interval(t))
	}
	o.Source = timeutil.Interval(e.src)
	return o
}

func (e *env) tgtSegName(tgt int64) string {
	// as shard.GetOrCrateDataFamily creates the rollup target segments: GetSegment(familyTime)
	return timeutil.Interval(tgt).Calculator().GetSegment(e.segT)
}

// tgtSegNames: the target segments of interval tgt that the source days of the case roll up into
// (one, unless the days lie on both sides of a month / year boundary).
func (e *env) tgtSegNames(tgt int64) []string {
	var out []string
	seen := map[string]bool{}
	for di := range e.days {
		n := timeutil.Interval(tgt).Calculator().GetSegment(e.days[di].segT)
		if !seen[n] {
			seen[n] = true
			out = append(out, n)
		}
	}
	return out
}

// tgtSegOf: the target segment family.rollup() selects for source family h.
func (e *env) tgtSegOf(h int, tgt int64) string {
	return timeutil.Interval(tgt).Calculator().GetSegment(e.srcFamStart(h))
}

func (e *env) openStores() error {
	e.fams = map[int]kv.Family{}
	e.famByID = map[string]int{}
	for di := range e.days {
		st, err := kv.GetStoreManager().CreateStore(e.srcStorePath(di), e.srcOption())
		if err != nil {
			return err
		}
		e.days[di].store = st
		if di == 0 {
			e.srcStore = st
		}
		for _, h := range e.hours {
			if h/100 != di {
				continue
			}
			f, err := st.CreateFamily(strconv.Itoa(h%100), e.famOpt)
			if err != nil {
				return err
			}
			e.fams[h] = f
			e.famByID[e.days[di].seg+"/"+strconv.Itoa(int(f.ID()))] = h
		}
	}
	for _, t := range e.tgts {
		if e.avail[t] {
			for _, sn := range e.tgtSegNames(t) {
				p := e.tgtStorePath(t, sn)
				if e.tclosed[p] {
					continue
				}
				if _, err := kv.GetStoreManager().CreateStore(p, kv.DefaultStoreOption()); err != nil {
					return err
				}
			}
		}
	}
	return nil
}

func (e *env) closeStores() {
	for _, s := range kv.GetStoreManager().GetStores() {
		if strings.HasPrefix(s.Name(), e.base) {
			_ = kv.GetStoreManager().CloseStore(s.Name())
		}
	}
}

// ---------------------------------------------------------------- state output

func (e *env) stateString() string {
	var pend [][3]int64
	for _, h := range e.hours {
		snap := e.fams[h].GetSnapshot()
		for file, ivs := range snap.GetCurrent().GetRollupFiles() {
			for _, iv := range ivs {
				pend = append(pend, [3]int64{int64(h), int64(file), int64(iv)})
			}
		}
		snap.Close()
	}
	var refs [][3]int64
	for _, t := range e.tgts {
		for _, sn := range e.tgtSegNames(t) {
			st, ok := kv.GetStoreManager().GetStoreByName(e.tgtStorePath(t, sn))
			if !ok {
				continue
			}
			for _, n := range st.ListFamilyNames() {
				f := st.GetFamily(n)
				if f == nil {
					continue
				}
				snap := f.GetSnapshot()
				for store, fams := range snap.GetCurrent().GetAllReferenceFiles() {
					for fid, files := range fams {
						h, ok := e.famByID[store+"/"+strconv.Itoa(int(fid))]
						if !ok {
							h = -1
						}
						for _, file := range files {
							refs = append(refs, [3]int64{t, int64(h), int64(file)})
						}
					}
				}
				snap.Close()
			}
		}
	}
	ps := []string{}
	for _, x := range dedupTrips(pend) {
		ps = append(ps, fmt.Sprintf("%d.%d@%d", x[0], x[1], x[2]))
	}
	rs := []string{}
	for _, x := range dedupTrips(refs) {
		rs = append(rs, fmt.Sprintf("%d:%d.%d", x[0], x[1], x[2]))
	}
	return "pending=" + strings.Join(ps, ",") + " refs=" + strings.Join(rs, ",")
}

// pendingSet reads the live rollup entries (family code, file, interval) from the real versions.
func (e *env) pendingSet() map[[3]int64]bool {
	out := map[[3]int64]bool{}
	for _, h := range e.hours {
		snap := e.fams[h].GetSnapshot()
		for file, ivs := range snap.GetCurrent().GetRollupFiles() {
			for _, iv := range ivs {
				out[[3]int64{int64(h), int64(file), int64(iv)}] = true
			}
		}
		snap.Close()
	}
	return out
}

// ---------------------------------------------------------------- operations

func joinInts(xs []int64) string {
	p := make([]string, len(xs))
	for i, x := range xs {
		p[i] = strconv.FormatInt(x, 10)
	}
	if len(p) == 0 {
		return "-"
	}
	return strings.Join(p, ",")
}

func (e *env) opCfg() {
	hs := make([]string, len(e.hours))
	for i, h := range e.hours {
		hs[i] = strconv.Itoa(h)
	}
	ts := make([]string, len(e.tgts))
	for i, t := range e.tgts {
		ts[i] = strconv.FormatInt(t, 10)
	}
	ds := make([]string, len(e.days))
	for i := range e.days {
		ds[i] = strconv.FormatInt(e.days[i].dayNo, 10)
	}
	if curZone != nil {
		e.c.Op(fmt.Sprintf("cfgz %d %s %s | %s | %s", e.src, strings.Join(ds, ","), strings.Join(hs, ","), strings.Join(ts, " "), curZone.txt), "ok")
		e.emitRegistry()
		return
	}
	e.c.Op(fmt.Sprintf("cfg %d %s %s | %s", e.src, strings.Join(ds, ","), strings.Join(hs, ","), strings.Join(ts, " ")), "ok")
	e.emitRegistry()
}

// locLine mirrors the locating lines of family.rollup() with the real calculators and the real
// kv.Rollup object.
func locLine(src, tgt, srcSegTime int64, fTime int) (string, kv.Rollup) {
	sc := timeutil.Interval(src).Calculator()
	tc := timeutil.Interval(tgt).Calculator()
	familyStartTime := sc.CalcFamilyStartTime(srcSegTime, fTime)
	tSegmentTime := tc.CalcSegmentTime(familyStartTime)
	tFamilyTime := tc.CalcFamily(familyStartTime, tSegmentTime)
	fSTime := tc.CalcFamilyStartTime(tSegmentTime, tFamilyTime)
	r := kv.VerifNewRollup(src, tgt, familyStartTime, fSTime)
	return fmt.Sprintf("%d %d %d %d base=%d ratio=%d", familyStartTime, tSegmentTime, tFamilyTime, fSTime, r.BaseSlot(), r.IntervalRatio()), r
}

func (e *env) opLoc(h int, tgt int64) {
	line, _ := locLine(e.src, tgt, e.days[h/100].segT, h%100)
	e.c.Op(fmt.Sprintf("loc %d %d", h, tgt), line)
}

func (e *env) opFlush(h int, fd fileData) error {
	e.mu.Lock()
	e.cur, e.cutAt, e.imaged = nil, -1, false
	e.mu.Unlock()
	if err := writeFile(e.fams[h], fd); err != nil {
		return err
	}
	e.mu.Lock()
	recs := e.cur
	e.cur = nil
	e.mu.Unlock()
	if len(recs) != 1 || recs[0].kind != 'F' || len(recs[0].keys) != 1 {
		var ts []string
		for _, r := range recs {
			ts = append(ts, r.text)
		}
		e.c.Fail("flush-record-shape", "flush committed "+strings.Join(ts, ";"))
		return fmt.Errorf("unexpected flush records")
	}
	k := recs[0].keys[0]
	e.history = append(e.history, recs[0])
	e.files[k] = fd
	e.order = append(e.order, k)
	toks := make([]string, len(fd))
	for i := range fd {
		toks[i] = fd[i].token()
	}
	if e.big {
		toks = nil
	}
	ne := 0
	if len(fd) > 0 {
		ne = 1
	}
	e.c.Op(fmt.Sprintf("flush %d %d %d | %s", h, k.file, ne, strings.Join(toks, " ")), "rec="+recs[0].text+" "+e.stateString())
	return nil
}

// opRollup runs the real rollup of source family h; cut >= 0 takes a directory image before the
// (cut+1)-th commit, lets the job finish, then replaces the stores by the image and reopens
// (= the process died after `cut` committed records).
func (e *env) opRollup(h int, cut int, viaStore bool) error {
	e.mu.Lock()
	e.cur, e.cutAt, e.imaged = nil, cut, false
	e.image = e.base + "-img"
	e.mu.Unlock()
	os.RemoveAll(e.image)
	before := e.pendingSet()
	for k := range before {
		if int(k[0]) == h {
			defer func(k fkey) { e.attempted[k] = true }(fkey{h, k[1]})
		}
	}
	fault := e.armFault
	e.armFault = nil
	if fault != nil {
		// the next open of this source table file fails once (transient EMFILE / ENOMEM / I/O error)
		table.VerifC02FailOpenOnce(version.Table(table.FileNumber(fault.file)))
		e.c.Branch("fault-open-armed")
	}
	var err error
	if viaStore {
		err = kv.VerifForceRollupSync(e.days[h/100].store)
	} else {
		err = kv.VerifRollupSync(e.fams[h])
	}
	table.VerifC02ClearOpenFaults()
	if err != nil {
		return err
	}
	// an interval whose job failed keeps the rollup entry of the file: for the model it is an
	// interval that was not available in this attempt
	failed := map[int64]bool{}
	if fault != nil {
		after := e.pendingSet()
		for _, t := range e.tgts {
			k := [3]int64{int64(fault.h), fault.file, t}
			if e.registered(fault.h, t) && before[k] && after[k] {
				failed[t] = true
				e.c.Branch("fault-attempt-failed")
			}
		}
	}
	e.mu.Lock()
	recs := e.cur
	imaged := e.imaged
	e.cur, e.cutAt = nil, -1
	e.mu.Unlock()
	w := e.weave
	e.weave = nil
	wAt := -1
	if w != nil && w.fired {
		if w.err != nil {
			return w.err
		}
		for i, r := range recs {
			if r.kind == 'F' {
				if wAt >= 0 || len(r.keys) != 1 {
					e.c.Fail("flush-record-shape", "flush inside a rollup run committed "+r.text)
					return fmt.Errorf("unexpected flush records inside a rollup run")
				}
				wAt = i
			}
		}
		if wAt < 0 {
			e.c.Fail("flush-record-shape", "flush inside a rollup run committed no record")
			return fmt.Errorf("flush inside a rollup run committed no record")
		}
		k := recs[wAt].keys[0]
		e.files[k] = w.fd
		e.order = append(e.order, k)
		e.c.Branch(fmt.Sprintf("flush-inside-rollup-before-%c", func() byte {
			if wAt+1 < len(recs) {
				return recs[wAt+1].kind
			}
			return '-'
		}()))
		if w.h == h {
			e.c.Branch("flush-inside-rollup-same-family")
		}
	}
	// observed orders
	var ivs, dvs []int64
	seen := map[int64]bool{}
	seenD := map[int64]bool{}
	for _, r := range recs {
		if r.kind == 'T' && !seen[r.iv] {
			seen[r.iv] = true
			ivs = append(ivs, r.iv)
		}
		if r.kind == 'D' && !seenD[r.iv] {
			seenD[r.iv] = true
			dvs = append(dvs, r.iv)
		}
	}
	for _, t := range e.tgts {
		if !seen[t] {
			ivs = append(ivs, t)
		}
		if !seenD[t] {
			dvs = append(dvs, t)
		}
	}
	var av []int64
	for _, t := range e.tgts {
		// `failed`: the job of that interval failed in this attempt (fault region). Whether the target store
		// is REGISTERED is not told to the model: it resolves the target itself (registry of topen/tclose)
		if !failed[t] {
			av = append(av, t)
		}
	}
	cutTxt := "-"
	if imaged {
		recs = recs[:cut]
		cutTxt = strconv.Itoa(cut)
		e.closeStores()
		if err := os.RemoveAll(e.base); err != nil {
			return err
		}
		if err := os.Rename(e.image, e.base); err != nil {
			return err
		}
		if err := e.openStores(); err != nil {
			return err
		}
		e.c.Branch("crash-cut-" + strconv.Itoa(cut))
		hasT, hasS := false, false
		for _, r := range recs {
			hasT = hasT || r.kind == 'T'
			hasS = hasS || r.kind == 'S'
		}
		if hasT && !hasS {
			e.c.Branch("crash-after-target-commit-before-source-delete")
		}
	} else {
		os.RemoveAll(e.image)
	}
	e.history = append(e.history, recs...)
	texts := make([]string, len(recs))
	for i, r := range recs {
		texts[i] = r.text
		e.c.Branch("rec-" + string(r.kind))
		if r.kind == 'T' {
			e.checkTargetLocation(r)
			e.checkBlockRanges(r)
		}
	}
	rs := strings.Join(texts, ";")
	if rs == "" {
		rs = "-"
	}
	if wAt >= 0 {
		k := recs[wAt].keys[0]
		toks := make([]string, len(w.fd))
		for i := range w.fd {
			toks[i] = w.fd[i].token()
		}
		ne := 0
		if len(w.fd) > 0 {
			ne = 1
		}
		e.c.Op(fmt.Sprintf("rollupw %d ivs=%s dvs=%s avail=%s at=%d %d %d %d | %s", h, joinInts(ivs), joinInts(dvs), joinInts(av),
			wAt, w.h, k.file, ne, strings.Join(toks, " ")), "recs="+rs+" "+e.stateString())
		e.checkOnce()
		return nil
	}
	e.c.Op(fmt.Sprintf("rollup %d ivs=%s dvs=%s avail=%s cut=%s", h, joinInts(ivs), joinInts(dvs), joinInts(av), cutTxt),
		"recs="+rs+" "+e.stateString())
	e.checkOnce()
	if w != nil && !w.fired {
		// the job committed fewer records than planned: the flush happens after it
		e.c.Branch("flush-inside-rollup-not-reached")
		return e.opFlush(w.h, w.fd)
	}
	return nil
}

func (e *env) opReopen() error {
	e.closeStores()
	if err := e.openStores(); err != nil {
		return err
	}
	e.c.Op("reopen", e.stateString())
	return nil
}

// readTarget decodes every family of every store directory of the target interval's type.
func (e *env) readTarget(tgt int64) (map[string]map[viewKey]*viewVal, error) {
	out := map[string]map[viewKey]*viewVal{}
	typeDir := filepath.Join(e.base, "segment", timeutil.Interval(tgt).Type().String())
	ents, err := os.ReadDir(typeDir)
	if err != nil {
		if os.IsNotExist(err) {
			return out, nil
		}
		return nil, err
	}
	tc := timeutil.Interval(tgt).Calculator()
	for _, ent := range ents {
		if !ent.IsDir() {
			continue
		}
		p := filepath.Join(typeDir, ent.Name())
		st, ok := kv.GetStoreManager().GetStoreByName(p)
		if !ok {
			continue
		}
		segTime, err := tc.ParseSegmentTime(ent.Name())
		if err != nil {
			return nil, err
		}
		names := st.ListFamilyNames()
		sort.Strings(names)
		for _, n := range names {
			f := st.GetFamily(n)
			if f == nil {
				continue
			}
			blocks, err := readFamily(f)
			if err != nil {
				return nil, err
			}
			v := viewOfBlocks(blocks)
			if len(v) > 0 {
				out[fmt.Sprintf("%d/%s", segTime, n)] = v
			}
		}
	}
	return out, nil
}

func groupsString(g map[string]map[viewKey]*viewVal) string {
	if len(g) == 0 {
		return "empty"
	}
	var ks []string
	for k := range g {
		ks = append(ks, k)
	}
	sort.Strings(ks)
	parts := make([]string, len(ks))
	for i, k := range ks {
		parts[i] = k + " " + viewString(g[k])
	}
	return strings.Join(parts, " | ")
}

func (e *env) opRead(tgt int64) error {
	g, err := e.readTarget(tgt)
	if err != nil {
		// a target family that cannot be read back holds none of the aggregates C04 demands
		e.c.Fail("target-read-error", fmt.Sprintf("interval %d: reading the target families fails: %s", tgt, strings.ReplaceAll(err.Error(), e.base, "<base>")))
		e.c.Op(fmt.Sprintf("read %d", tgt), "read-error")
		return nil
	}
	e.c.Op(fmt.Sprintf("read %d", tgt), groupsString(g))
	e.checkAggregates(tgt, g)
	return nil
}

// ---------------------------------------------------------------- impl-side oracle (C04's statement)

// contributions counts, from the committed records that survived, how often each source file
// was merged into each target interval.
func (e *env) contributions() map[fkey]map[int64]int {
	m := map[fkey]map[int64]int{}
	for _, r := range e.history {
		if r.kind != 'T' {
			continue
		}
		for _, k := range r.keys {
			if m[k] == nil {
				m[k] = map[int64]int{}
			}
			m[k][r.iv]++
		}
	}
	return m
}

// checkOnce: a source file contributes to a given target at most once.
func (e *env) checkOnce() {
	for k, per := range e.contributions() {
		for iv, n := range per {
			if n > 1 {
				key := "merged-twice"
				if e.onceKey != "" {
					key = e.onceKey
				}
				e.c.Fail(key, fmt.Sprintf("source file %d.%d was merged %d times into target interval %d", k.h, k.file, n, iv))
			}
		}
	}
}

// checkDrained: after a complete rollup of every family with all targets available, every
// non-empty flushed file has been merged exactly once into every target and nothing is pending.
func (e *env) checkDrained() {
	con := e.contributions()
	for _, k := range e.order {
		if len(e.files[k]) == 0 {
			continue
		}
		for _, t := range e.tgts {
			if con[k][t] != 1 {
				e.c.Fail(e.drainKey, fmt.Sprintf("after complete rollups source file %d.%d was merged %d times into target interval %d", k.h, k.file, con[k][t], t))
			}
		}
	}
	if s := e.stateString(); !strings.HasPrefix(s, "pending= ") {
		e.c.Fail("pending-after-rollup", "rollup entries left after complete rollups: "+s)
	}
}

// checkTargetLocation: the store/family a merge record was committed to is the segment/family
// the target calculator assigns to the timestamps of the merged source slots.
func (e *env) checkTargetLocation(r rec) {
	if len(r.pairs) != 2 {
		return
	}
	tc := timeutil.Interval(r.iv).Calculator()
	for _, k := range r.keys {
		for _, b := range e.files[k] {
			for _, c := range b.cells {
				ts := e.srcFamStart(k.h) + int64(c.slot)*e.src
				segT := tc.CalcSegmentTime(ts)
				fam := tc.CalcFamily(ts, segT)
				if tc.GetSegment(ts) != r.pairs[0] || strconv.Itoa(fam) != r.pairs[1] {
					e.c.Fail("target-location", fmt.Sprintf("timestamp %d of file %d.%d belongs to %s/%d of interval %d but was merged into %s/%s%s",
						ts, k.h, k.file, tc.GetSegment(ts), fam, r.iv, r.pairs[0], r.pairs[1], zoneSuffix()))
					return
				}
				// the same judged by the wall clock alone (no lindb calculator)
				if ref := refPlace(ts, r.iv); ref.segName != r.pairs[0] || strconv.Itoa(ref.fam) != r.pairs[1] {
					e.c.Fail("target-location-vs-wall-clock", fmt.Sprintf("timestamp %d (%s) of file %d.%d lies in segment %s, family %d of interval %d (family window [%d,%d]) but was merged into %s/%s%s",
						ts, time.UnixMilli(ts).In(time.Local).Format("2006-01-02T15:04:05Z07:00"), k.h, k.file, ref.segName, ref.fam, r.iv, ref.famStart, ref.famEnd, r.pairs[0], r.pairs[1], zoneSuffix()))
					return
				}
			}
		}
	}
}

// expected computes, with the real calculators applied to every source timestamp, what C04
// demands the target to hold given the set of merged files.
func (e *env) expected(tgt int64) map[string]map[viewKey]*viewVal {
	out := map[string]map[viewKey]*viewVal{}
	tc := timeutil.Interval(tgt).Calculator()
	con := e.contributions()
	for _, k := range e.order {
		if con[k][tgt] < 1 {
			continue
		}
		for _, b := range e.files[k] {
			cs := append([]cell(nil), b.cells...)
			sort.SliceStable(cs, func(i, j int) bool { return cs[i].slot < cs[j].slot })
			for _, c := range cs {
				ts := e.srcFamStart(k.h) + int64(c.slot)*e.src
				segT := tc.CalcSegmentTime(ts)
				fam := tc.CalcFamily(ts, segT)
				famStart := tc.CalcFamilyStartTime(segT, fam)
				slot := tc.CalcSlot(ts, famStart, tgt)
				// "falls inside that target slot": the slot's time window, counted from the family start
				if w := famStart + int64(slot)*tgt; !(w <= ts && ts < w+tgt && famStart <= ts && ts <= tc.CalcFamilyEndTime(famStart)) {
					e.c.Fail("slot-window", fmt.Sprintf("interval %d: timestamp %d gets family start %d slot %d, whose window [%d,%d) does not contain it%s", tgt, ts, famStart, slot, w, w+tgt, zoneSuffix()))
				}
				// the expectation itself is taken from the wall clock alone (segment / family / slot that
				// contain the timestamp), not from lindb's calculators
				ref := refPlace(ts, tgt)
				if ref.segT != segT || ref.fam != fam || ref.famStart != famStart || ref.slot != int64(slot) {
					e.c.Fail("target-calculator-vs-wall-clock", fmt.Sprintf("interval %d: timestamp %d (%s) lies in segment %d family %d (start %d) slot %d by the wall clock; the target calculator gives segment %d family %d (start %d) slot %d%s",
						tgt, ts, time.UnixMilli(ts).In(time.Local).Format("2006-01-02T15:04:05Z07:00"), ref.segT, ref.fam, ref.famStart, ref.slot, segT, fam, famStart, slot, zoneSuffix()))
				}
				segT, fam, slot = ref.segT, ref.fam, int(ref.slot)
				g := fmt.Sprintf("%d/%d", segT, fam)
				if out[g] == nil {
					out[g] = map[viewKey]*viewVal{}
				}
				vk := viewKey{b.metric, c.series, c.field, slot}
				cur, ok := out[g][vk]
				switch {
				case !ok:
					out[g][vk] = &viewVal{ftype: c.ftype, val: c.val, n: 1}
				case c.ftype == 4:
					cur.val = c.val // last: cells are visited in ascending source slot
				case c.ftype == 6:
					// first: keep
				case c.ftype == 2:
					if c.val < cur.val {
						cur.val = c.val
					}
				case c.ftype == 3:
					if c.val > cur.val {
						cur.val = c.val
					}
				default:
					cur.val += c.val
				}
			}
		}
	}
	return out
}

func (e *env) checkAggregates(tgt int64, got map[string]map[viewKey]*viewVal) {
	if e.unguarded {
		e.checkRecorded(tgt, got)
		return
	}
	want := e.expected(tgt)
	bad, total := 0, 0
	first := ""
	note := func(s string) {
		bad++
		if first == "" {
			first = s
		}
	}
	for g, wv := range want {
		for k, w := range wv {
			total++
			gv := got[g][k]
			if gv == nil {
				note(fmt.Sprintf("%s metric %d series %d field %d slot %d: want %d, target holds nothing", g, k.metric, k.series, k.field, k.slot, w.val))
			} else if gv.val != w.val || gv.n != 1 && (gv.ftype == 4 || gv.ftype == 6) {
				note(fmt.Sprintf("%s metric %d series %d field %d slot %d: want %d, target holds %d", g, k.metric, k.series, k.field, k.slot, w.val, gv.val))
			}
		}
	}
	for g, gvs := range got {
		for k, gv := range gvs {
			if want[g] == nil || want[g][k] == nil {
				total++
				note(fmt.Sprintf("%s metric %d series %d field %d slot %d: target holds %d, no source slot falls inside", g, k.metric, k.series, k.field, k.slot, gv.val))
			}
		}
	}
	if bad > 0 {
		e.c.Fail(e.failKey, fmt.Sprintf("interval %d -> %d: %d of %d target cells differ from the aggregate of the source slots inside them; first: %s%s", e.src, tgt, bad, total, first, zoneSuffix()))
	}
}

// ---------------------------------------------------------------- generators

var monthTargets = []int64{5 * min_, 10 * min_, 15 * min_, 20 * min_, 30 * min_, 6 * min_, 12 * min_}
var yearTargets = []int64{hour, 2 * hour, 3 * hour, 4 * hour, 6 * hour, 8 * hour, 12 * hour, day, 2 * day}
var sources = []int64{10 * sec, 10 * sec, 10 * sec, 30 * sec, min_, min_, 2 * min_, 4 * min_, 5 * sec, sec}

// Guard is the interval guard of LinVerif.Props.C04.slot_placement for a day-type source.
func Guard(src, tgt int64) bool {
	return src > 0 && tgt%src == 0 && (hour%tgt == 0 || tgt%hour == 0) && tgt/src < 65536
}

func daysFromCivil(y, m, d int64) int64 {
	if m <= 2 {
		y--
	}
	era := y / 400
	yoe := y - era*400
	mp := m - 3
	if m <= 2 {
		mp = m + 9
	}
	doy := (153*mp+2)/5 + d - 1
	doe := yoe*365 + yoe/4 - yoe/100 + doy
	return era*146097 + doe - 719468
}

func pickDay(rng *rand.Rand) (int64, string) {
	return pickDayOfYear(rng, int64(2015+rng.Intn(21)))
}

func pickDayOfYear(rng *rand.Rand, y int64) (int64, string) {
	m := int64(1 + rng.Intn(12))
	next := daysFromCivil(y, m+1, 1)
	if m == 12 {
		next = daysFromCivil(y+1, 1, 1)
	}
	first := daysFromCivil(y, m, 1)
	switch rng.Intn(6) {
	case 0:
		return first, "day-first-of-month"
	case 1:
		return next - 1, "day-last-of-month"
	case 2:
		if y%4 == 0 {
			return daysFromCivil(y, 2, 29), "day-feb29"
		}
		if curZone == nil {
			return daysFromCivil(2016+4*int64(rng.Intn(4)), 2, 29), "day-feb29"
		}
		return daysFromCivil(y, 2, 28), "day-feb28"
	case 3:
		return daysFromCivil(y, 12, 31), "day-dec31"
	}
	return first + int64(rng.Intn(int(next-first))), "day-mid-month"
}

func (e *env) genFile(h int) fileData {
	rng := e.rng
	nslots := int(hour / e.src)
	var fd fileData
	nm := 1 + rng.Intn(2)
	mids := rng.Perm(3)[:nm]
	sort.Ints(mids)
	for _, mi := range mids {
		metric := uint32(mi + 1)
		if e.schema[metric] == nil {
			sc := map[int]int{}
			nf := 1 + rng.Intn(3)
			for _, f := range rng.Perm(4)[:nf] {
				sc[f+1] = []int{1, 1, 2, 3, 4, 5, 6}[rng.Intn(7)]
			}
			e.schema[metric] = sc
		}
		b := mblock{metric: metric}
		switch rng.Intn(4) {
		case 0:
			b.start, b.end = 0, nslots-1
			e.c.Branch("range-full")
		case 1:
			b.end = nslots - 1
			b.start = nslots - 1 - rng.Intn(min(nslots, 40))
			e.c.Branch("range-to-last-slot")
		default:
			b.start = rng.Intn(nslots)
			b.end = b.start + rng.Intn(min(nslots-b.start, 80))
			e.c.Branch("range-inner")
		}
		seriesPool := []uint32{1, 2, 3, 7, 65535, 65536, 70000}
		ns := 1 + rng.Intn(3)
		for _, si := range rng.Perm(len(seriesPool))[:ns] {
			sid := seriesPool[si]
			var fids []int
			for f := range e.schema[metric] {
				fids = append(fids, f)
			}
			sort.Ints(fids)
			for _, f := range fids {
				ft := e.schema[metric][f]
				if rng.Intn(5) == 0 {
					continue // field absent for this series in this file
				}
				if ft == 4 || ft == 6 {
					ok := [3]uint32{metric, sid, uint32(f)}
					if e.owned[ok] {
						continue
					}
					e.owned[ok] = true
				}
				width := b.end - b.start + 1
				n := 1 + rng.Intn(min(width, 14))
				for _, off := range rng.Perm(width)[:n] {
					b.cells = append(b.cells, cell{series: sid, field: f, ftype: ft, slot: b.start + off, val: int64(rng.Intn(250) - 50)})
				}
				if rng.Intn(3) == 0 { // make the ends of the range carry data
					b.cells = append(b.cells, cell{series: sid, field: f, ftype: ft, slot: b.end, val: int64(rng.Intn(100))})
				}
			}
		}
		b.cells = dedupCells(b.cells)
		if len(b.cells) > 0 {
			fd = append(fd, b)
		}
	}
	return fd
}

func dedupCells(cs []cell) []cell {
	seen := map[[3]int]bool{}
	var out []cell
	for _, c := range cs {
		k := [3]int{int(c.series), c.field, c.slot}
		if seen[k] {
			continue
		}
		seen[k] = true
		out = append(out, c)
	}
	// deterministic order (schema map iteration above is random)
	sort.Slice(out, func(i, j int) bool {
		a, b := out[i], out[j]
		if a.series != b.series {
			return a.series < b.series
		}
		if a.field != b.field {
			return a.field < b.field
		}
		return a.slot < b.slot
	})
	return out
}

func newEnv(c *core.Ctx, rng *rand.Rand) (*env, error) {
	base, err := os.MkdirTemp("", "lvh-c04-*")
	if err != nil {
		return nil, err
	}
	return &env{c: c, rng: rng, base: base, avail: map[int64]bool{}, files: map[fkey]fileData{},
		owned: map[[3]uint32]bool{}, schema: map[uint32]map[int]int{}, cutAt: -1, failKey: "slot-aggregate-mismatch",
		attempted: map[fkey]bool{}, drainKey: "not-merged-once", tclosed: map[string]bool{},
		famOpt: kv.FamilyOption{CompactThreshold: 0, Merger: string(metricsdata.MetricDataMerger)}}, nil
}

func (e *env) destroy() {
	e.closeStores()
	os.RemoveAll(e.base)
	os.RemoveAll(e.base + "-img")
}

func (e *env) setDay(dayNo int64) error {
	e.days = nil
	if err := e.addDay(dayNo); err != nil {
		return err
	}
	e.dayNo, e.seg, e.segT = e.days[0].dayNo, e.days[0].seg, e.days[0].segT
	return nil
}

// addDay adds one more source store (day segment).
func (e *env) addDay(dayNo int64) error {
	// dayNo is the wall-clock day number in time.Local (UTC unless the case is a zone case); the
	// segment name is formatted from an instant inside that local day
	seg := timeutil.Interval(e.src).Calculator().GetSegment(localMidnight(dayNo) + 12*hour)
	segT, err := timeutil.Interval(e.src).Calculator().ParseSegmentTime(seg)
	if err != nil {
		return err
	}
	if want := localMidnight(dayNo); segT != want {
		if curZone == nil {
			return fmt.Errorf("segment %s parses to %d, expected %d (TZ must be UTC)", seg, segT, want)
		}
		// C04 needs the source store's segment time to be the start of its day
		e.c.Fail("source-segment-time-vs-wall-clock", fmt.Sprintf("day store %s: ParseSegmentTime gives %d, the local midnight of that day is %d%s", seg, segT, want, zoneSuffix()))
	}
	e.days = append(e.days, dayInfo{dayNo: dayNo, seg: seg, segT: segT})
	return nil
}

// optionAccepts asks the real database option validation whether the interval list is allowed.
func optionAccepts(ivs ...int64) error {
	var o option.DatabaseOption
	for _, iv := range ivs {
		o.Intervals = append(o.Intervals, option.Interval{Interval: timeutil.Interval(iv), Retention: timeutil.Interval(30 * day)})
	}
	sort.Sort(o.Intervals)
	return o.Validate()
}

// ---------------------------------------------------------------- cases

func (e *env) finish() error {
	// make every target available, roll every family up completely, then compare everything
	for _, t := range e.tgts {
		for _, sn := range e.tgtSegNames(t) {
			if !e.avail[t] || e.tclosed[e.tgtStorePath(t, sn)] {
				if err := e.opTOpen(t, sn); err != nil {
					return err
				}
			}
		}
		e.avail[t] = true
	}
	for _, h := range e.hours {
		if err := e.opRollup(h, -1, false); err != nil {
			return err
		}
	}
	e.checkDrained()
	for _, t := range e.tgts {
		if err := e.opRead(t); err != nil {
			return err
		}
	}
	if e.multi || e.rng.Intn(3) == 0 {
		// close and reopen every store (source days and targets), then every target family must
		// still hold what it held
		e.c.Branch("final-reopen-read")
		if err := e.opReopen(); err != nil {
			return err
		}
		for _, t := range e.tgts {
			if err := e.opRead(t); err != nil {
				return err
			}
		}
	}
	return nil
}

func (e *env) storeCase() error {
	rng := e.rng
	c := e.c
	// configuration
	e.src = sources[rng.Intn(len(sources))]
	var ms, ys []int64
	for _, t := range monthTargets {
		if Guard(e.src, t) {
			ms = append(ms, t)
		}
	}
	for _, t := range yearTargets {
		if Guard(e.src, t) {
			ys = append(ys, t)
		}
	}
	if e.unguarded {
		// non-ladder targets: accepted by the option, outside the guard (class of the recorded finding)
		e.src = []int64{10 * sec, 10 * sec, 30 * sec, min_, 2 * min_}[rng.Intn(5)]
		ms = []int64{7 * min_, 45 * min_, 25 * min_, 59 * min_, 35 * min_}
		ys = []int64{90 * min_, 150 * min_, 210 * min_}
		c.Branch("unguarded-store-case")
	}
	switch rng.Intn(4) {
	case 0:
		e.tgts = []int64{ms[rng.Intn(len(ms))]}
	case 1:
		e.tgts = []int64{ys[rng.Intn(len(ys))]}
	default:
		e.tgts = []int64{ms[rng.Intn(len(ms))], ys[rng.Intn(len(ys))]}
	}
	if err := optionAccepts(append([]int64{e.src}, e.tgts...)...); err != nil {
		return fmt.Errorf("generated interval list rejected by DatabaseOption.Validate: %v", err)
	}
	d, region := pickDay(rng)
	if curZone != nil {
		d, region = pickZoneDay(rng, e.zoneYear)
	}
	if e.boundary && curZone == nil {
		// source days on both sides of a target-segment boundary: the last day(s) of a month (a third: of
		// the year) and the first day(s) of the next one - their families roll up into DIFFERENT target
		// stores (month type: <yyyymm>, year type: <yyyy> at a year end)
		y, m := int64(2015+rng.Intn(21)), int64(1+rng.Intn(12))
		if rng.Intn(3) == 0 {
			m = 12
		}
		d = daysFromCivil(y, m+1, 1) - 1
		if m == 12 {
			d = daysFromCivil(y+1, 1, 1) - 1
			region = "boundary-year-end"
		} else {
			region = "boundary-month-end"
		}
	}
	c.Branch(region)
	if err := e.setDay(d); err != nil {
		return err
	}
	if e.multi && e.boundary && curZone == nil {
		if err := e.addDay(d + 1); err != nil {
			return err
		}
		if rng.Intn(2) == 0 {
			if err := e.addDay(d + int64([]int{-1, 2}[rng.Intn(2)])); err != nil {
				return err
			}
		}
		c.Branch(fmt.Sprintf("multi-day-%d", len(e.days)))
		for _, t := range e.tgts {
			c.Branch(fmt.Sprintf("target-stores-of-interval-%d", len(e.tgtSegNames(t))))
		}
	} else if e.multi {
		// 1-2 more source days of the same month: their families roll up into the SAME target store
		// (month type: one target family per day; year type: the same target family)
		tcm := timeutil.Interval(5 * min_).Calculator()
		extra := 1 + rng.Intn(2)
		for tries := 0; len(e.days) < 1+extra && tries < 40; tries++ {
			cand := d + int64(rng.Intn(9)) - 4
			dup := cand < 0
			for _, x := range e.days {
				dup = dup || x.dayNo == cand
			}
			if dup || tcm.CalcSegmentTime(localMidnight(cand)+12*hour) != tcm.CalcSegmentTime(localMidnight(d)+12*hour) {
				continue
			}
			if err := e.addDay(cand); err != nil {
				return err
			}
		}
		c.Branch(fmt.Sprintf("multi-day-%d", len(e.days)))
	}
	hs := map[int]bool{}
	// hour families of a day: 0..23; in a zone case a local day has 23, 24 or 25 of them
	nhOf := func(di int) int {
		if curZone == nil {
			return 24
		}
		n := hoursOfDay(e.days[di].dayNo)
		if n != 24 {
			c.Branch(fmt.Sprintf("zone-source-day-of-%d-hours", n))
		}
		return n
	}
	pickOf := func(di int) int {
		nhd := nhOf(di)
		switch rng.Intn(4) {
		case 0:
			return 0
		case 1:
			return nhd - 1
		}
		return rng.Intn(nhd)
	}
	pick := func() int { return pickOf(0) }
	if e.multi {
		// mostly the SAME hour in every day store: the source families then carry equal family ids
		h0 := pick()
		for di := range e.days {
			hd := h0
			if hd >= nhOf(di) {
				hd = nhOf(di) - 1
			}
			hs[di*100+hd] = true
			if rng.Intn(3) == 0 {
				hs[di*100+pickOf(di)] = true
			}
		}
	} else if curZone != nil {
		// the first / last hour of the local day is always among the source families (where a shifted
		// midnight shows), plus 0-2 more
		hs[[]int{0, nhOf(0) - 1}[rng.Intn(2)]] = true
		for n := rng.Intn(3); n > 0; n-- {
			hs[pick()] = true
		}
	} else {
		nh := 1 + rng.Intn(3)
		if e.restarts {
			// at least two source families: the later ones get kv family ids that differ from the id of
			// the (first) family of the target stores
			nh = 2 + rng.Intn(2)
		}
		for len(hs) < nh {
			hs[pick()] = true
		}
	}
	for h := range hs {
		e.hours = append(e.hours, h)
	}
	sort.Ints(e.hours)
	for _, t := range e.tgts {
		e.avail[t] = rng.Intn(7) != 0
		if !e.avail[t] {
			c.Branch("target-store-missing")
		}
	}
	c.Branch(fmt.Sprintf("src-%s", timeutil.Interval(e.src)))
	for _, t := range e.tgts {
		c.Branch(fmt.Sprintf("pair-%s-%s", timeutil.Interval(e.src), timeutil.Interval(t)))
	}
	if err := e.openStores(); err != nil {
		return err
	}
	e.opCfg()
	for _, h := range e.hours {
		for _, t := range e.tgts {
			e.opLoc(h, t)
		}
	}
	// history
	nops := 3 + rng.Intn(6)
	flushed := false
	if e.multi {
		// every source family of every day gets data first
		for _, h := range e.hours {
			if err := e.opFlush(h, e.genFile(h)); err != nil {
				return err
			}
		}
		flushed = true
		nops += 3
	}
	for i := 0; i < nops; i++ {
		h := e.hours[rng.Intn(len(e.hours))]
		switch k := rng.Intn(12); {
		case k < 4 || !flushed:
			fd := e.genFile(h)
			if rng.Intn(12) == 0 {
				fd = nil
				c.Branch("flush-empty")
			}
			if err := e.opFlush(h, fd); err != nil {
				return err
			}
			flushed = true
		case k < 9:
			cut := -1
			if rng.Intn(3) != 0 {
				cut = rng.Intn(4)
				if len(e.tgts) > 1 {
					cut = rng.Intn(6)
				}
			}
			if e.restarts && rng.Intn(4) != 0 {
				// die after the target families committed (merge + references), before or at the source
				// family's delete of the rollup entries
				cut = 1 + rng.Intn(len(e.tgts))
			}
			via := len(e.hours) == 1 && len(e.days) == 1 && cut < 0 && rng.Intn(2) == 0
			if via {
				c.Branch("via-Store.ForceRollup")
			}
			if e.faults && rng.Intn(3) != 0 {
				// a pending file of this family that no job has opened yet
				var cands []fkey
				for k := range e.pendingSet() {
					fk := fkey{int(k[0]), k[1]}
					if int(k[0]) == h && !e.attempted[fk] && len(e.files[fk]) > 0 {
						cands = append(cands, fk)
					}
				}
				sort.Slice(cands, func(i, j int) bool { return cands[i].file < cands[j].file })
				cands = dedupKeys(cands)
				if len(cands) > 0 {
					fk := cands[rng.Intn(len(cands))]
					e.armFault = &fk
					cut, via = -1, false
				}
			}
			if e.wrng != nil && cut < 0 && !via && e.armFault == nil && !e.big && e.wrng.Intn(3) == 0 {
				// round 12: one flush is committed between two records of this run (same source store; 2/3
				// into the very family that is being rolled up)
				wh := h
				if e.wrng.Intn(3) == 0 {
					wh = e.hours[e.wrng.Intn(len(e.hours))]
				}
				main := e.rng
				e.rng = e.wrng
				fd := e.genFile(wh)
				e.rng = main
				e.weave = &weaveReq{h: wh, at: e.wrng.Intn(2 + len(e.tgts)), fd: fd}
			}
			if err := e.opRollup(h, cut, via); err != nil {
				return err
			}
			if e.restarts && cut >= 0 {
				// every open of a store replays the manifest and writes a new one that starts with a
				// snapshot of all families: what restart k writes is what restart k+1 reads
				n := 1 + rng.Intn(3)
				for j := 0; j < n; j++ {
					if err := e.opReopen(); err != nil {
						return err
					}
				}
				c.Branch(fmt.Sprintf("restarts-after-cut-%d", n))
				if err := e.opRollup(h, -1, false); err != nil {
					return err
				}
			} else if rng.Intn(2) == 0 { // rollup again immediately
				c.Branch("rollup-twice")
				if err := e.opRollup(h, -1, false); err != nil {
					return err
				}
			}
			if e.evict && cut < 0 && e.armFault == nil && rng.Intn(4) != 0 {
				if err := e.evictStep(h); err != nil {
					return err
				}
			}
		case k < 10:
			c.Branch("reopen")
			if err := e.opReopen(); err != nil {
				return err
			}
		default:
			if err := e.opRead(e.tgts[rng.Intn(len(e.tgts))]); err != nil {
				return err
			}
		}
	}
	if err := e.finish(); err != nil {
		return err
	}
	if len(e.contributions()) > 0 {
		c.NonTrivial()
	}
	return nil
}

// witnessCase replays the recorded finding: 10s -> 7m is accepted by DatabaseOption.Validate,
// but the rollup places source slots by baseSlot + slot/ratio, which is not the slot of their
// timestamps. Deterministic (no random choice).
func (e *env) witnessCase() error {
	c := e.c
	e.src, e.tgts = 10*sec, []int64{7 * min_}
	if err := optionAccepts(e.src, e.tgts[0]); err != nil {
		c.Note("witness pair 10s/7m is rejected by the database option now: " + err.Error())
		c.Op("cfg-rejected", "cfg-rejected")
		return nil
	}
	e.failKey = "unguarded-interval-pair-10s-7m"
	if err := e.setDay(daysFromCivil(2019, 7, 2)); err != nil {
		return err
	}
	e.hours = []int{1}
	e.avail[e.tgts[0]] = true
	if err := e.openStores(); err != nil {
		return err
	}
	e.opCfg()
	e.opLoc(1, e.tgts[0])
	b := mblock{metric: 1, start: 0, end: 359}
	for s := 0; s < 360; s++ {
		b.cells = append(b.cells, cell{series: 1, field: 1, ftype: 1, slot: s, val: 1})
	}
	if err := e.opFlush(1, fileData{b}); err != nil {
		return err
	}
	if err := e.opRollup(1, -1, true); err != nil {
		return err
	}
	c.Branch("witness-10s-7m")
	c.NonTrivial()
	return e.opRead(e.tgts[0])
}

// compactionWitness replays the second recorded finding: a compaction of the source family between
// flush and rollup moves the flushed files out of level 0; doRollupWork looks its inputs up with
// GetFile(0, …), finds none, merges nothing — and rollup() still deletes the rollup entries.
// (store.compact() starts the compaction and the rollup job of a family in the same tick once it
// has 4 level-0 files.) Deterministic.
func (e *env) compactionWitness() error {
	c := e.c
	e.src, e.tgts = 10*sec, []int64{5 * min_}
	e.drainKey = "compaction-before-rollup-loses-file"
	if err := e.setDay(daysFromCivil(2019, 7, 2)); err != nil {
		return err
	}
	e.hours = []int{1}
	e.avail[e.tgts[0]] = true
	if err := e.openStores(); err != nil {
		return err
	}
	e.opCfg()
	for n := 0; n < 2; n++ {
		b := mblock{metric: 1, start: 0, end: 359}
		for s := n; s < 360; s += 2 {
			b.cells = append(b.cells, cell{series: uint32(1 + n), field: 1, ftype: 1, slot: s, val: 1})
		}
		if err := e.opFlush(1, fileData{b}); err != nil {
			return err
		}
	}
	// the real compaction job of the source family (body of the goroutine family.compact() starts)
	e.mu.Lock()
	e.cur, e.cutAt, e.imaged = nil, -1, false
	e.mu.Unlock()
	if err := kv.VerifC03CompactSync(e.fams[1]); err != nil {
		return err
	}
	e.mu.Lock()
	e.cur = nil
	e.mu.Unlock()
	var ks []string
	for _, k := range e.order {
		ks = append(ks, fmt.Sprintf("%d.%d", k.h, k.file))
	}
	c.Op("compact "+strings.Join(ks, ","), e.stateString())
	if err := e.opRollup(1, -1, false); err != nil {
		return err
	}
	e.checkDrained()
	c.Branch("witness-compaction-before-rollup")
	c.NonTrivial()
	return e.opRead(e.tgts[0])
}

// isConc says which case indices are concurrent ForceRollup cases (big = enough series to overlap).
func isConc(c *core.Ctx, i int) (conc, big bool) {
	switch {
	case c.Args["mode"] == "conc": // stress: every case is a concurrent ForceRollup case
		return true, i%10 == 0
	case i == 2 || i%400 == 2:
		return true, true
	case i%40 == 6:
		return true, false
	}
	return false, false
}

// runInChild runs case i in a child process of the same binary and folds its streams into c.
// The concurrent cases run real goroutines of lindb; a Go runtime `fatal error` (data race on a map)
// cannot be recovered in-process and would take the whole run down.
func runInChild(c *core.Ctx, i int) {
	exe, err := os.Executable()
	if err != nil {
		c.Fail("impl-error", "os.Executable: "+err.Error())
		return
	}
	tmp, err := os.MkdirTemp("", "lvh-c04-child-*")
	if err != nil {
		c.Fail("impl-error", err.Error())
		return
	}
	defer os.RemoveAll(tmp)
	args := []string{"run", "rollup", "-seed", strconv.FormatInt(c.Seed, 10), "-n", strconv.Itoa(c.N), "-tier", c.Tier,
		"-out", tmp, "-case", strconv.Itoa(i), "-arg", "child=1"}
	for k, v := range c.Args {
		if k != "child" {
			args = append(args, "-arg", k+"="+v)
		}
	}
	cmd := exec.Command(exe, args...)
	cmd.Env = os.Environ()
	out, runErr := cmd.CombinedOutput()
	if runErr != nil {
		txt := string(out)
		first := txt
		if j := strings.IndexByte(first, '\n'); j >= 0 {
			first = first[:j]
		}
		if strings.Contains(txt, "fatal error: concurrent map") && strings.Contains(txt, "kv/version.(*rollup).") {
			at := ""
			for _, l := range strings.Split(txt, "\n") {
				if strings.Contains(l, "kv/version.(*rollup).") {
					at = strings.TrimSpace(l)
					break
				}
			}
			c.Branch("concurrent-child-map-race")
			c.Fail("concurrent-rollup-reference-map-race", fmt.Sprintf("one Store.ForceRollup over %s: the process dies with %q in %s (rollup jobs of several source families into one target family)", "several families", first, at))
			return
		}
		c.Fail("concurrent-rollup-crash", fmt.Sprintf("child process of case %d failed: %v: %.600s", i, runErr, txt))
		return
	}
	rd := func(n string) []string {
		b, _ := os.ReadFile(filepath.Join(tmp, n))
		return strings.Split(strings.TrimRight(string(b), "\n"), "\n")
	}
	ops, impl := rd("ops.txt"), rd("impl.txt")
	for k := 0; k < len(ops) && k < len(impl); k++ {
		if ops[k] == "" || strings.HasPrefix(ops[k], "#") {
			continue
		}
		c.Op(ops[k], impl[k])
	}
	for _, l := range rd("oracle.txt") {
		if !strings.HasPrefix(l, "FAIL ") {
			continue
		}
		rest := l[strings.Index(l, "key=")+4:]
		key, desc := rest, ""
		if j := strings.Index(rest, " :: "); j >= 0 {
			key, desc = rest[:j], rest[j+4:]
		}
		c.Fail(key, desc)
	}
	var st struct {
		Branches map[string]int `json:"branches"`
		Distinct int            `json:"distinct_nontrivial"`
	}
	if b, err := os.ReadFile(filepath.Join(tmp, "stats.json")); err == nil && json.Unmarshal(b, &st) == nil {
		for k, n := range st.Branches {
			for j := 0; j < n; j++ {
				c.Branch(k)
			}
		}
		if st.Distinct > 0 {
			c.NonTrivial()
		}
	}
}

func (a area) Run(c *core.Ctx) error {
	kv.VerifInstallCommitHook(nil)
	for i := 0; i < c.N; i++ {
		if !c.Want(i) {
			continue
		}
		c.Begin(i)
		rng := c.Rng(i)
		conc, big := isConc(c, i)
		if conc && c.Args["child"] != "1" {
			runInChild(c, i)
			continue
		}
		if !conc && i%4 == 1 {
			arithCase(c, rng)
			continue
		}
		e, err := newEnv(c, rng)
		if err != nil {
			return err
		}
		if !conc {
			e.wrng = rand.New(rand.NewSource(c.Rng(i).Int63() ^ 0x77656176))
		}
		kv.VerifInstallCommitHook(e.onCommit)
		func() {
			defer func() {
				if r := recover(); r != nil {
					c.Fail("panic", fmt.Sprintf("case %d panicked: %v", i, r))
				}
			}()
			if !conc && i > 4 && (i%8 == 2 || i%16 == 15 || i%16 == 8) {
				// zone region: the same store histories with time.Local = a named zone
				e.zoneYear = 2015 + rng.Intn(21)
				leave, ok := enterZone(c, zoneNames[rng.Intn(len(zoneNames))], e.zoneYear)
				defer leave()
				if ok {
					c.Branch("zone-store-case")
				}
			}
			switch {
			case conc:
				err = e.concCase(big)
			case i == 0:
				err = e.witnessCase()
			case i%8 == 7:
				e.multi = true
				// half of the UTC multi-day cases: days on both sides of a month / year end; half of those
				// with target-store eviction
				e.boundary = i%16 == 7
				e.evict = i%32 == 23
				err = e.storeCase()
			case i == 4:
				err = e.compactionWitness()
			case i == 12:
				err = e.commitFaultWitness('S', "source-commit-failure-merges-twice")
			case i == 20:
				err = e.commitFaultWitness('T', "target-commit-failure-loses-file")
			case i%8 == 4:
				e.faults = true
				err = e.storeCase()
			case i%8 == 6:
				e.restarts = true
				err = e.storeCase()
			case i%8 == 3:
				e.unguarded = true
				e.failKey = "unguarded-pair-differs-from-recorded-behaviour"
				err = e.storeCase()
			default:
				// eviction region: target stores are closed and re-created between two rollups of one living
				// source family object (UTC: i%16==0, zones: i%16==10)
				e.evict = i > 4 && (i%16 == 0 || i%16 == 10)
				err = e.storeCase()
			}
		}()
		kv.VerifInstallCommitHook(nil)
		e.destroy()
		if err != nil {
			// an error returned by lindb's own operations (flush, open, rollup wait) on a generated
			// history is a finding about the implementation, not a harness failure
			c.Fail("impl-error", fmt.Sprintf("case %d: %v", i, err))
		}
	}
	return nil
}
