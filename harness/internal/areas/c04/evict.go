package c04

// Round 10: the registry of target stores (kv.GetStoreManager) as part of the history.
//
// family.rollup() resolves its target on EVERY run: GetStoreManager().GetStoreByName(<base>/<type>/<segment>)
// -> targetStore.CreateFamily(<family>) -> newRollup(...). A target store does not live as long as a source
// family does: tsdb's shard.EvictSegment() closes rollup target segments nobody reads and the next write
// creates them again, while the source family of the current hour stays open. The ops `tclose` / `topen`
// put exactly that into the histories: the SOURCE family objects stay alive, a target store is closed
// (kv.StoreManager.CloseStore) and later created again (CreateStore: new store object, new family objects,
// new manifest writer). The Lean model keeps the registry itself and resolves the target per run
// (Model/C04Resolve.lean); the harness no longer tells it which target stores exist.

import (
	"fmt"
	"sort"
	"strings"

	"github.com/lindb/lindb/kv"
	"github.com/lindb/lindb/pkg/timeutil"
)

// registered: is the target store family.rollup() of source family h looks up for interval t open?
func (e *env) registered(h int, t int64) bool {
	return e.avail[t] && !e.tclosed[e.tgtStorePath(t, e.tgtSegOf(h, t))]
}

// regString lists what the REAL store manager has registered among the case's target stores.
func (e *env) regString() string {
	var out []string
	for _, t := range e.tgts {
		tc := timeutil.Interval(t).Calculator()
		for _, sn := range e.tgtSegNames(t) {
			if _, ok := kv.GetStoreManager().GetStoreByName(e.tgtStorePath(t, sn)); ok {
				st, err := tc.ParseSegmentTime(sn)
				if err != nil {
					st = -1
				}
				out = append(out, fmt.Sprintf("%d:%d", t, st))
			}
		}
	}
	sort.Strings(out)
	return "reg=" + strings.Join(out, ",")
}

func (e *env) segTimeOf(t int64, sn string) int64 {
	st, err := timeutil.Interval(t).Calculator().ParseSegmentTime(sn)
	if err != nil {
		return -1
	}
	return st
}

// emitRegistry tells the model which target stores exist at the start of a case (openStores created
// them): one `topen` per store; the answer to the last one is what the REAL store manager has registered.
func (e *env) emitRegistry() {
	var ops, names []string
	for _, t := range e.tgts {
		if !e.avail[t] {
			continue
		}
		for _, sn := range e.tgtSegNames(t) {
			if e.tclosed[e.tgtStorePath(t, sn)] {
				continue
			}
			ops = append(ops, fmt.Sprintf("topen %d %d", t, e.segTimeOf(t, sn)))
			names = append(names, fmt.Sprintf("%d:%d", t, e.segTimeOf(t, sn)))
		}
	}
	for k := range ops {
		reg := e.regString()
		if k < len(ops)-1 {
			part := append([]string{}, names[:k+1]...)
			sort.Strings(part)
			reg = "reg=" + strings.Join(part, ",")
		}
		e.c.Op(ops[k], reg+" "+e.stateString())
	}
}

// opTOpen creates (or re-creates) one target store: what shard.GetOrCrateDataFamily ->
// rollupSegment.GetOrCreateSegment -> kv CreateStore does at the next write after an eviction.
func (e *env) opTOpen(t int64, sn string) error {
	p := e.tgtStorePath(t, sn)
	if _, err := kv.GetStoreManager().CreateStore(p, kv.DefaultStoreOption()); err != nil {
		return err
	}
	delete(e.tclosed, p)
	// the interval counts as available once one of its stores exists; the others are then closed ones
	if !e.avail[t] {
		e.avail[t] = true
		for _, o := range e.tgtSegNames(t) {
			if o != sn {
				e.tclosed[e.tgtStorePath(t, o)] = true
			}
		}
	}
	e.c.Op(fmt.Sprintf("topen %d %d", t, e.segTimeOf(t, sn)), e.regString()+" "+e.stateString())
	return nil
}

// opTClose closes one target store (segment eviction); the source stores and their family objects stay.
func (e *env) opTClose(t int64, sn string) error {
	p := e.tgtStorePath(t, sn)
	if err := kv.GetStoreManager().CloseStore(p); err != nil {
		return err
	}
	e.tclosed[p] = true
	e.c.Op(fmt.Sprintf("tclose %d %d", t, e.segTimeOf(t, sn)), e.regString()+" "+e.stateString())
	return nil
}

// evictStep is one step of the eviction region around source family h, which has just been rolled up
// completely: the target store(s) of h are closed and (mostly) re-created, another file is flushed into
// the SAME living source family object and it is rolled up again.
func (e *env) evictStep(h int) error {
	c, rng := e.c, e.rng
	var closed [][2]string
	for _, t := range e.tgts {
		if !e.registered(h, t) || rng.Intn(4) == 0 {
			continue
		}
		sn := e.tgtSegOf(h, t)
		if err := e.opTClose(t, sn); err != nil {
			return err
		}
		closed = append(closed, [2]string{fmt.Sprint(t), sn})
	}
	if len(closed) == 0 {
		return nil
	}
	c.Branch("target-store-closed-while-source-family-lives")
	reopenFirst := rng.Intn(3) != 0
	reopen := func() error {
		for _, x := range closed {
			var t int64
			fmt.Sscan(x[0], &t)
			if err := e.opTOpen(t, x[1]); err != nil {
				return err
			}
		}
		return nil
	}
	if reopenFirst {
		// eviction + re-creation between two rollups of the same source family
		if err := reopen(); err != nil {
			return err
		}
		c.Branch("target-store-recreated-between-rollups")
	}
	if err := e.opFlush(h, e.genFile(h)); err != nil {
		return err
	}
	if err := e.opRollup(h, -1, false); err != nil {
		return err
	}
	if !reopenFirst {
		// the rollup ran while the target store was closed ("skip rollup because cannot get target store":
		// the marks stay); now the store comes back and the same family object rolls up again
		c.Branch("rollup-while-target-store-closed")
		if err := reopen(); err != nil {
			return err
		}
		if rng.Intn(2) == 0 {
			if err := e.opRollup(h, -1, false); err != nil {
				return err
			}
		}
	}
	if rng.Intn(3) == 0 {
		if err := e.opRead(e.tgts[rng.Intn(len(e.tgts))]); err != nil {
			return err
		}
	}
	return nil
}
