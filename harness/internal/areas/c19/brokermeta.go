package c19

// Area "brokermeta": the broker side of a metadata (suggest) query — the real
// query.MetricMetadataSearchWithResult → exec → real pipeline (PhysicalPlan stage → TaskSend stages)
// → real MetadataContext.MakePlan / HandleResponse / tryClose / WaitResponse, with the real
// query.TaskManager delivering the responses (Receive → worker pool → HandleResponse).
// Stubs: the node chooser (a physical plan with n targets) and the transport (records the requests;
// may fail a send). The leaf nodes' answers are scripted in processMetadataSuggest's wire format:
//   ok / empty / not-found: Completed, no ErrMsg, payload = JSON SuggestResult (not-found = no values)
//   real error:             Completed, ErrMsg set, no payload
// One case = one query: n targets, a response kind per target, an arrival order.
// Property: the query completes exactly once; it reports an error iff some node answered with a real
// error (or its request could not be sent) — never the healthy nodes' values as a successful partial
// answer; otherwise it returns the union of the values.

import (
	"context"
	"errors"
	"fmt"
	"math/rand"
	"sort"
	"strings"
	"sync"
	"time"

	commonmodels "github.com/lindb/common/models"
	"github.com/lindb/common/pkg/encoding"

	"github.com/lindb/lindb/constants"
	"github.com/lindb/lindb/internal/concurrent"
	"github.com/lindb/lindb/internal/linmetric"
	"github.com/lindb/lindb/metrics"
	"github.com/lindb/lindb/models"
	protoCommonV1 "github.com/lindb/lindb/proto/gen/v1/common"
	"github.com/lindb/lindb/query"
	querycontext "github.com/lindb/lindb/query/context"
	"github.com/lindb/lindb/sql/stmt"

	"github.com/lindb/lindb/zzverif/internal/core"
)

type bmArea struct{}

func init() { core.Register(bmArea{}) }

func (bmArea) Name() string { return "brokermeta" }

// bmNode is one target node of the plan and its scripted answer.
type bmNode struct {
	name   string
	kind   string   // ok | nf (not found / empty: no values) | err (real error) | bad (undecodable payload) | sf (the request cannot be sent)
	values []string // for ok
}

type bmChoose struct{ nodes []*bmNode }

func (c *bmChoose) Choose(database string, _ int) ([]*models.PhysicalPlan, error) {
	p := &models.PhysicalPlan{Database: database}
	for _, n := range c.nodes {
		p.AddTarget(&models.Target{Indicator: n.name, ShardIDs: []models.ShardID{1}})
	}
	return []*models.PhysicalPlan{p}, nil
}

type bmTransport struct {
	mu    sync.Mutex
	fail  map[string]bool
	reqID string
	sent  chan string
}

func (t *bmTransport) SendRequest(target string, req *protoCommonV1.TaskRequest) error {
	t.mu.Lock()
	t.reqID = req.RequestID
	t.mu.Unlock()
	defer func() { t.sent <- target }()
	if t.fail[target] {
		return fmt.Errorf("injected: no stream to %s", target)
	}
	return nil
}

func (t *bmTransport) SendResponse(string, *protoCommonV1.TaskResponse) error { return nil }

func (n *bmNode) response(reqID string) *protoCommonV1.TaskResponse {
	resp := &protoCommonV1.TaskResponse{RequestID: reqID, RequestType: protoCommonV1.RequestType_Metadata, Completed: true}
	switch n.kind {
	case "ok":
		resp.Payload = encoding.JSONMarshal(&models.SuggestResult{Values: n.values})
	case "nf":
		resp.Payload = encoding.JSONMarshal(&models.SuggestResult{})
	case "err":
		resp.ErrMsg = "scripted index read error on " + n.name
	case "bad":
		resp.Payload = []byte("{not json")
	}
	return resp
}

func bmGen(r *rand.Rand) ([]*bmNode, []int) {
	n := 1 + r.Intn(4)
	var nodes []*bmNode
	alphabet := []string{"a", "b", "c", "d", "e"}
	for i := 0; i < n; i++ {
		nd := &bmNode{name: fmt.Sprintf("10.0.0.%d:2891", i+1)}
		switch x := r.Intn(100); {
		case x < 50:
			nd.kind = "ok"
			for _, v := range alphabet {
				if r.Intn(3) == 0 {
					nd.values = append(nd.values, v)
				}
			}
			if len(nd.values) == 0 {
				nd.values = []string{alphabet[r.Intn(len(alphabet))]}
			}
		case x < 70:
			nd.kind = "nf"
		case x < 88:
			nd.kind = "err"
		case x < 94:
			nd.kind = "bad"
		default:
			nd.kind = "sf"
		}
		nodes = append(nodes, nd)
	}
	return nodes, r.Perm(n)
}

// bmFixed: every failing/not-found/ok combination of two nodes in both arrival orders, and a few of three.
func bmFixed() (cases [][]*bmNode, orders [][]int) {
	mk := func(kinds ...string) []*bmNode {
		var ns []*bmNode
		for i, k := range kinds {
			n := &bmNode{name: fmt.Sprintf("10.0.0.%d:2891", i+1), kind: k}
			if k == "ok" {
				n.values = []string{string(rune('a' + i)), "z"}
			}
			ns = append(ns, n)
		}
		return ns
	}
	for _, a := range []string{"ok", "nf", "err"} {
		for _, b := range []string{"ok", "nf", "err"} {
			for _, o := range [][]int{{0, 1}, {1, 0}} {
				cases, orders = append(cases, mk(a, b)), append(orders, o)
			}
		}
	}
	cases, orders = append(cases, mk("ok", "err", "ok")), append(orders, []int{0, 1, 2})
	cases, orders = append(cases, mk("ok", "ok", "err")), append(orders, []int{2, 0, 1})
	cases, orders = append(cases, mk("err", "err", "err")), append(orders, []int{0, 1, 2})
	cases, orders = append(cases, mk("nf", "nf", "nf")), append(orders, []int{1, 2, 0})
	cases, orders = append(cases, mk("ok", "bad")), append(orders, []int{0, 1})
	cases, orders = append(cases, mk("ok", "sf")), append(orders, []int{0, 1})
	cases, orders = append(cases, mk("ok")), append(orders, []int{0})
	cases, orders = append(cases, mk("err")), append(orders, []int{0})
	return
}

// ---------------------------------------------------------------- the request deadline (round 9)

// bmCapMgr is the real TaskManager; it only remembers the task context exec registers.
type bmCapMgr struct {
	query.TaskManager
	ch chan querycontext.TaskContext
}

func (m *bmCapMgr) AddTask(id string, tc querycontext.TaskContext) {
	m.TaskManager.AddTask(id, tc)
	select {
	case m.ch <- tc:
	default:
	}
}

func (n *bmNode) word() string {
	if n.kind == "ok" {
		return "ok:" + strings.Join(n.values, ",")
	}
	return n.kind
}

// bmDeadlineFixed: the deadline passes after k of the answers (arrival order = node order).
var bmDeadlineFixed = []struct {
	kinds []string
	k     int
}{
	{[]string{"ok", "ok"}, 1},        // one of two answered: timeout, the late answer is dropped
	{[]string{"ok", "ok"}, 0},        // nobody answered
	{[]string{"ok", "ok"}, 2},        // everybody answered before the deadline: the complete result
	{[]string{"ok", "err"}, 1},       // the healthy node answered, the failing one is late: timeout, never [a]
	{[]string{"err", "ok"}, 1},       // the error arrived before the deadline: the error
	{[]string{"nf", "ok", "ok"}, 2},  // not-found + one value set, one missing
	{[]string{"ok", "sf"}, 0},        // a request could not be sent: the pipeline's error, before any deadline
	{[]string{"ok"}, 0},
}

// runDeadline: one metadata query whose context is cancelled after the first k answers (in arrival
// order) have been handled. The op line is the event script in the order things happened on the
// implementation; the model says which scripts are possible and what they return.
func bmRunDeadline(c *core.Ctx, pool concurrent.Pool, taskMgr query.TaskManager, nodes []*bmNode, order []int, k int) (silent bool) {
	c.Branch("deadline-case")
	tr := &bmTransport{fail: map[string]bool{}, sent: make(chan string, 16)}
	sf := false
	var arriving []*bmNode
	for _, n := range nodes {
		if n.kind == "sf" {
			tr.fail[n.name] = true
			sf = true
		}
	}
	for _, j := range order {
		if nodes[j].kind != "sf" {
			arriving = append(arriving, nodes[j])
		}
	}
	if k > len(arriving) {
		k = len(arriving)
	}
	capMgr := &bmCapMgr{TaskManager: taskMgr, ch: make(chan querycontext.TaskContext, 1)}
	mgr := &query.SearchMgr{
		Timeout:      20 * time.Second,
		CurNode:      models.StatelessNode{HostIP: "10.0.0.100", GRPCPort: 9001},
		Choose:       &bmChoose{nodes: nodes},
		TaskMgr:      capMgr,
		TransportMgr: tr,
	}
	type result struct {
		md  *commonmodels.Metadata
		err error
		pan interface{}
	}
	ctx, cancel := context.WithCancel(context.Background())
	defer cancel()
	done := make(chan result, 2)
	go func() {
		defer func() {
			if r := recover(); r != nil {
				done <- result{pan: r}
			}
		}()
		rs, err := query.MetricMetadataSearchWithResult(ctx,
			&models.ExecuteParam{Database: "db", SQL: "show metrics"},
			&stmt.MetricMetadata{Namespace: "default-ns", Type: stmt.Metric}, mgr)
		md, _ := rs.(*commonmodels.Metadata)
		done <- result{md: md, err: err}
	}()
	for range nodes {
		select {
		case <-tr.sent:
		case <-time.After(3 * time.Second):
		}
	}
	tr.mu.Lock()
	reqID := tr.reqID
	tr.mu.Unlock()
	script := []string{}
	// the receive pool has one worker: a sentinel queued behind the responses says they were handled
	handledAll := func() {
		ch := make(chan struct{})
		pool.Submit(context.Background(), concurrent.NewTask(func() { close(ch) }, nil))
		select {
		case <-ch:
		case <-time.After(3 * time.Second):
		}
	}
	completesEarly := sf || len(arriving) == 0
	if completesEarly {
		k = 0 // the pipeline's own error has completed the request: exec returns before any answer
	}
	dropped := 0
	for j := 0; j < k; j++ {
		n := arriving[j]
		if err := taskMgr.Receive(n.response(reqID), n.name); err != nil {
			// the query is over already (an earlier answer failed it and exec has returned)
			dropped++
		}
		script = append(script, "r:"+n.word())
		if n.kind == "err" || n.kind == "bad" {
			completesEarly = true
		}
		handledAll()
		if completesEarly {
			// exec returns as soon as doneCh is closed; later answers find no task — wait for the return so
			// that the order of events is the script's
			break
		}
	}
	nDelivered := len(script)
	if nDelivered == len(arriving) {
		completesEarly = true
	}
	var res result
	got := false
	wait := func() {
		select {
		case res = <-done:
			got = true
		case <-time.After(3 * time.Second):
		}
	}
	if completesEarly {
		wait()
		script = append(script, "wd", "un", "dl")
		cancel()
	} else {
		cancel()
		wait()
		script = append(script, "dl", "wt", "un")
	}
	// late answers: exec has removed its task, Receive must refuse them
	lateAccepted := ""
	for j := nDelivered; j < len(arriving); j++ {
		n := arriving[j]
		if !got {
			break
		}
		if err := taskMgr.Receive(n.response(reqID), n.name); err != nil {
			dropped++
		} else {
			lateAccepted = n.name
		}
		script = append(script, "r:"+n.word())
	}
	handledAll()
	// … and one that was already in flight: HandleResponse on the context nobody waits for any more
	var latePanic interface{}
	if got && len(arriving) > 0 {
		n := arriving[len(arriving)-1]
		select {
		case tc := <-capMgr.ch:
			func() {
				defer func() { latePanic = recover() }()
				tc.HandleResponse(n.response(reqID), n.name)
			}()
			script = append(script, "f:"+n.word())
		default:
		}
	}
	ret := "-"
	var vals []string
	switch {
	case !got:
	case res.pan != nil:
		ret = "panic"
	case res.err != nil && errors.Is(res.err, constants.ErrTimeout):
		ret = "timeout"
	case res.err != nil:
		ret = "err"
	default:
		if res.md != nil {
			if vs, isS := res.md.Values.([]string); isS {
				vals = append(vals, vs...)
			}
		}
		sort.Strings(vals)
		ret = "ok " + strings.Join(vals, ",")
	}
	sfw := "0"
	if sf {
		sfw = "1"
	}
	c.Op(fmt.Sprintf("bdl %d %s %s", len(nodes), sfw, strings.Join(script, " ")), fmt.Sprintf("ret=%s dropped=%d", ret, dropped))
	what := fmt.Sprintf("metadata query over %d nodes with a deadline, events [%s]", len(nodes), strings.Join(script, " "))
	select {
	case r2 := <-done:
		c.Fail("brokermeta-deadline-second-result", fmt.Sprintf("%s: a second result %v", what, r2))
	default:
	}
	// the property, from what the harness did: a success needs every node's answer, none of them a failure
	allAnswered, anyErr := nDelivered == len(arriving) && !sf, sf
	for j := 0; j < nDelivered; j++ {
		if arriving[j].kind == "err" || arriving[j].kind == "bad" {
			anyErr = true
		}
	}
	switch {
	case !got:
		c.Fail("brokermeta-deadline-no-response", what+": the request's context was cancelled, exec did not return within 3s")
		return true
	case res.pan != nil:
		c.Fail("brokermeta-deadline-panic", fmt.Sprintf("%s: %v", what, res.pan))
	case res.err == nil && (!allAnswered || anyErr):
		c.Fail("brokermeta-deadline-partial-success", fmt.Sprintf("%s: %d of %d nodes had answered (a failure among them: %v) when the request returned %v WITHOUT error",
			what, nDelivered, len(arriving), anyErr, vals))
	case res.err == nil:
		want := map[string]bool{}
		for _, n := range arriving {
			for _, v := range n.values {
				want[v] = true
			}
		}
		var ws []string
		for v := range want {
			ws = append(ws, v)
		}
		sort.Strings(ws)
		if strings.Join(ws, ",") != strings.Join(vals, ",") {
			c.Fail("brokermeta-deadline-values-not-the-union", fmt.Sprintf("%s: returned %v, the union of the nodes' values is %v", what, vals, ws))
		}
	}
	if lateAccepted != "" {
		c.Fail("brokermeta-late-response-accepted", fmt.Sprintf("%s: the answer of %s arrived after exec had returned and TaskManager.Receive still accepted it", what, lateAccepted))
	}
	if latePanic != nil {
		c.Fail("brokermeta-late-response-panic", fmt.Sprintf("%s: HandleResponse of an in-flight answer after the return panicked: %v", what, latePanic))
	}
	c.Branch("deadline-ret-" + strings.SplitN(ret, " ", 2)[0])
	if len(nodes) >= 2 {
		c.NonTrivial()
	}
	return false
}

func (bmArea) Run(c *core.Ctx) error {
	pool := concurrent.NewPool("verif-c19-bm", 1, time.Minute,
		metrics.NewConcurrentStatistics("verif-c19-bm", linmetric.BrokerRegistry))
	defer pool.Stop()
	taskMgr := query.NewTaskManager(pool, linmetric.BrokerRegistry)
	fixedNodes, fixedOrders := bmFixed()
	silent := 0
	for i := 0; i < c.N; i++ {
		if !c.Want(i) {
			continue
		}
		if silent >= 3 {
			c.Note("aborted after 3 queries that never completed")
			break
		}
		rng := c.Rng(i)
		c.Begin(i)
		var nodes []*bmNode
		var order []int
		if j := i - len(fixedNodes); j >= 0 && j < len(bmDeadlineFixed) {
			f := bmDeadlineFixed[j]
			for x, kd := range f.kinds {
				n := &bmNode{name: fmt.Sprintf("10.0.0.%d:2891", x+1), kind: kd}
				if kd == "ok" {
					n.values = []string{string(rune('a' + x)), "z"}
				}
				nodes = append(nodes, n)
				order = append(order, x)
			}
			if bmRunDeadline(c, pool, taskMgr, nodes, order, f.k) {
				silent++
			}
			continue
		}
		if i < len(fixedNodes) {
			nodes, order = fixedNodes[i], fixedOrders[i]
		} else {
			nodes, order = bmGen(rng)
			if i%3 == 2 {
				if bmRunDeadline(c, pool, taskMgr, nodes, order, rng.Intn(len(nodes)+1)) {
					silent++
				}
				continue
			}
		}
		tr := &bmTransport{fail: map[string]bool{}, sent: make(chan string, 16)}
		byName := map[string]*bmNode{}
		for _, n := range nodes {
			byName[n.name] = n
			if n.kind == "sf" {
				tr.fail[n.name] = true
			}
			c.Branch("node-" + n.kind)
		}
		mgr := &query.SearchMgr{
			Timeout:      20 * time.Second,
			CurNode:      models.StatelessNode{HostIP: "10.0.0.100", GRPCPort: 9001},
			Choose:       &bmChoose{nodes: nodes},
			TaskMgr:      taskMgr,
			TransportMgr: tr,
		}
		type result struct {
			md  *commonmodels.Metadata
			err error
			pan interface{}
		}
		done := make(chan result, 2)
		go func() {
			defer func() {
				if r := recover(); r != nil {
					done <- result{pan: r}
				}
			}()
			rs, err := query.MetricMetadataSearchWithResult(context.Background(),
				&models.ExecuteParam{Database: "db", SQL: "show metrics"},
				&stmt.MetricMetadata{Namespace: "default-ns", Type: stmt.Metric}, mgr)
			md, _ := rs.(*commonmodels.Metadata)
			done <- result{md: md, err: err}
		}()
		// every request is sent (or refused by the transport) before any response arrives
		ok := true
		for range nodes {
			select {
			case <-tr.sent:
			case <-time.After(3 * time.Second):
				ok = false
			}
		}
		var res result
		got := false
		if ok {
			tr.mu.Lock()
			reqID := tr.reqID
			tr.mu.Unlock()
			for _, k := range order {
				n := nodes[k]
				if n.kind == "sf" {
					continue
				}
				_ = taskMgr.Receive(n.response(reqID), n.name) // an error = the query is already over
			}
			select {
			case res = <-done:
				got = true
			case <-time.After(3 * time.Second):
			}
		}
		// the op line: kinds and values in arrival order (the nodes whose request could not be sent first)
		var parts []string
		for _, n := range nodes {
			if n.kind == "sf" {
				parts = append(parts, "sf")
			}
		}
		for _, k := range order {
			n := nodes[k]
			switch n.kind {
			case "sf":
			case "ok":
				parts = append(parts, "ok:"+strings.Join(n.values, ","))
			default:
				parts = append(parts, n.kind)
			}
		}
		out := "none"
		var vals []string
		switch {
		case !got:
		case res.pan != nil:
			out = "panic"
		case res.err != nil:
			out = "err"
		default:
			if res.md != nil {
				if vs, isS := res.md.Values.([]string); isS {
					vals = append(vals, vs...)
				}
			}
			sort.Strings(vals)
			out = "ok " + strings.Join(vals, ",")
		}
		c.Op("bmeta "+strings.Join(parts, " "), out)
		what := fmt.Sprintf("metadata query over %d nodes, answers in arrival order [%s]", len(nodes), strings.Join(parts, " "))
		// a second completion would have closed doneCh twice (panic) or produced a second result
		select {
		case r2 := <-done:
			c.Fail("brokermeta-completed-twice", fmt.Sprintf("%s: a second result %v", what, r2))
		default:
		}
		anyErr := false
		want := map[string]bool{}
		for _, n := range nodes {
			if n.kind == "err" || n.kind == "bad" || n.kind == "sf" {
				anyErr = true
			}
			for _, v := range n.values {
				want[v] = true
			}
		}
		switch {
		case !got:
			silent++
			c.Fail("brokermeta-no-completion", what+": the query did not complete within 3s")
		case res.pan != nil:
			c.Fail("brokermeta-panic", fmt.Sprintf("%s: %v", what, res.pan))
		case anyErr && res.err == nil:
			c.Fail("brokermeta-error-lost-partial-answer", fmt.Sprintf("%s: a node answered with a real error, the query returned %v without error (a successful partial answer)", what, vals))
		case !anyErr && res.err != nil:
			// not the property; the model (which answers ok) will disagree
			c.Note("unexpected error: " + res.err.Error())
		case !anyErr:
			var ws []string
			for v := range want {
				ws = append(ws, v)
			}
			sort.Strings(ws)
			if strings.Join(ws, ",") != strings.Join(vals, ",") {
				c.Fail("brokermeta-values-not-the-union", fmt.Sprintf("%s: returned %v, the union of the nodes' values is %v", what, vals, ws))
			}
		}
		if len(nodes) >= 2 {
			c.NonTrivial()
		}
	}
	return nil
}
