package c19

// Area "leafpath": lindb's REAL leaf query path end to end — query.TaskHandler.Handle (request
// stream) → real task pool → query.NewLeafTaskProcessor.Process → real pipeline → real stages
// (MetadataLookup → ShardScan → Grouping → DataLoad) on a real tsdb.Engine with written data and
// the database's real executor pools → LeafExecuteContext.SendResponse → response stream.
//
// One case = one task request of a generated scenario (healthy query, unknown metric/field/tag,
// missing shards, one shard over the series limit, injected panics in a shard's Plan(), in the
// root's NextStages(), inside a pooled operator, unreadable request). Observed: the responses the
// stream received for that request id. Property: exactly one response, carrying an error iff a
// stage (or the request itself) failed. The model gets the stage tree the scenario stands for
// (`leafreq <tree>`), runs it to the end and answers the responses it produces.

import (
	"context"
	"encoding/json"
	"errors"
	"fmt"
	"os"
	"path/filepath"
	"strings"
	"sync"
	"time"

	"github.com/lindb/common/pkg/ltoml"
	protoMetricsV1 "github.com/lindb/common/proto/gen/v1/linmetrics"
	"github.com/lindb/roaring"
	"google.golang.org/grpc/metadata"

	"github.com/lindb/lindb/config"
	"github.com/lindb/lindb/constants"
	"github.com/lindb/lindb/flow"
	"github.com/lindb/lindb/index"
	"github.com/lindb/lindb/internal/concurrent"
	"github.com/lindb/lindb/internal/linmetric"
	"github.com/lindb/lindb/metrics"
	"github.com/lindb/lindb/models"
	"github.com/lindb/lindb/pkg/option"
	"github.com/lindb/lindb/pkg/timeutil"
	protoCommonV1 "github.com/lindb/lindb/proto/gen/v1/common"
	"github.com/lindb/lindb/query"
	"github.com/lindb/lindb/rpc"
	"github.com/lindb/lindb/series/field"
	"github.com/lindb/lindb/series/metric"
	"github.com/lindb/lindb/series/tag"
	"github.com/lindb/lindb/sql/stmt"
	"github.com/lindb/lindb/tsdb"

	"github.com/lindb/lindb/zzverif/internal/core"
)

type leafArea struct{}

func init() { core.Register(leafArea{}) }

func (leafArea) Name() string { return "leafpath" }

const (
	lpDB        = "db"
	lpNamespace = "default-ns"
	lpMetric    = "cpu"
	lpField     = "f"
	lpTagKey    = "host"
	lpInterval  = int64(10 * 1000)
	lpClient    = "127.0.0.1:7001" // the requesting node = the receiver of the leaf's response
	lpLeaf      = "127.0.0.1:7002" // the leaf node itself
)

// ---------------------------------------------------------------- fault injection around the real tsdb objects

type lpFaults struct {
	getShardPanic models.ShardID // Database.GetShard(id) panics: metadataLookupStage.NextStages()
	planPanic     models.ShardID // Shard.GetDataFamilies panics: shardScanStage.Plan()
	execPanic     models.ShardID // the shard's index database panics in GetSeriesIDsForMetric: inside the pooled shard-scan stage's MetricAllSeries operator
	ctorPanic     models.ShardID // Shard.IndexDB panics: in the operator constructor called from shardScanStage.Plan()
	metaErr       bool           // the metadata database's Suggest*/GetSchema calls return an (injected) I/O error
	metaPanic     bool           // … panic
	indexErr      models.ShardID // the shard's index database RETURNS an (injected) read error: GetSeriesIDsForMetric (metricAllSeries, a trackable operator), GetSeriesIDsByTagValueIDs (seriesFiltering, trackable)
	collectErr    bool           // MetricMetaDatabase.CollectTagValues (the group-by tag value collect after the last grouping task) fails
	// the generic fault site: ONE storage-interface call of the leaf path (named "<Interface>.<Method>") fails
	// for shard siteShard (0: the call is not shard-bound): siteMode 'e' = it returns an injected read error,
	// 'p' = it panics
	site      string
	siteMode  byte
	siteShard models.ShardID
}

type lpFaultBox struct {
	mu    sync.Mutex
	f     lpFaults
	fired int // how often the generic fault site was hit since the last set
	// siteMode 'b': the call parks (after telling `blocked`) until `release` is closed
	blocked chan struct{}
	release chan struct{}
}

// hit is called by every wrapped storage-interface method of the leaf path.
func (b *lpFaultBox) hit(site string, shard models.ShardID) error {
	b.mu.Lock()
	f := b.f
	match := f.site == site && (f.siteShard == 0 || f.siteShard == shard)
	if match {
		b.fired++
	}
	b.mu.Unlock()
	if !match {
		return nil
	}
	if f.siteMode == 'p' {
		panic(fmt.Sprintf("injected panic in %s (shard %d)", site, shard))
	}
	if f.siteMode == 'b' {
		b.mu.Lock()
		blocked, release := b.blocked, b.release
		b.mu.Unlock()
		if blocked != nil && release != nil {
			blocked <- struct{}{}
			select {
			case <-release:
			case <-time.After(10 * time.Second):
			}
		}
		return nil
	}
	return fmt.Errorf("%s (shard %d): %w", site, shard, errInjectedIO)
}

func (b *lpFaultBox) firedCount() int {
	b.mu.Lock()
	defer b.mu.Unlock()
	return b.fired
}

func (b *lpFaultBox) get() lpFaults {
	b.mu.Lock()
	defer b.mu.Unlock()
	return b.f
}

func (b *lpFaultBox) set(n lpFaults) {
	b.mu.Lock()
	defer b.mu.Unlock()
	b.f = n
	b.fired = 0
}

type lpEngine struct {
	tsdb.Engine
	f *lpFaultBox
}

func (e *lpEngine) GetDatabase(name string) (tsdb.Database, bool) {
	db, ok := e.Engine.GetDatabase(name)
	if !ok {
		return nil, false
	}
	return &lpDatabase{Database: db, f: e.f}, true
}

type lpDatabase struct {
	tsdb.Database
	f *lpFaultBox
}

func (d *lpDatabase) MetaDB() index.MetricMetaDatabase {
	return &lpMetaDB{MetricMetaDatabase: d.Database.MetaDB(), f: d.f}
}

var errInjectedIO = errors.New("injected index read error")

// lpMetaDB injects faults into the calls the metadata-suggest operators make.
type lpMetaDB struct {
	index.MetricMetaDatabase
	f *lpFaultBox
}

func (m *lpMetaDB) fault(what string) error {
	ft := m.f.get()
	if ft.metaPanic {
		panic("injected panic in MetricMetaDatabase." + what)
	}
	if ft.metaErr {
		return fmt.Errorf("%s: %w", what, errInjectedIO)
	}
	return nil
}

func (m *lpMetaDB) SuggestNamespace(prefix string, limit int) ([]string, error) {
	if err := m.fault("SuggestNamespace"); err != nil {
		return nil, err
	}
	return m.MetricMetaDatabase.SuggestNamespace(prefix, limit)
}

func (m *lpMetaDB) SuggestMetrics(ns, prefix string, limit int) ([]string, error) {
	if err := m.fault("SuggestMetrics"); err != nil {
		return nil, err
	}
	return m.MetricMetaDatabase.SuggestMetrics(ns, prefix, limit)
}

func (m *lpMetaDB) SuggestTagValues(id tag.KeyID, prefix string, limit int) ([]string, error) {
	if err := m.fault("SuggestTagValues"); err != nil {
		return nil, err
	}
	return m.MetricMetaDatabase.SuggestTagValues(id, prefix, limit)
}

func (m *lpMetaDB) CollectTagValues(id tag.KeyID, ids *roaring.Bitmap, out map[uint32]string) error {
	if m.f.get().collectErr {
		return fmt.Errorf("CollectTagValues: %w", errInjectedIO)
	}
	return m.MetricMetaDatabase.CollectTagValues(id, ids, out)
}

func (m *lpMetaDB) GetSchema(id metric.ID) (*metric.Schema, error) {
	if err := m.fault("GetSchema"); err != nil {
		return nil, err
	}
	if err := m.f.hit("MetaDB.GetSchema", 0); err != nil {
		return nil, err
	}
	return m.MetricMetaDatabase.GetSchema(id)
}

func (m *lpMetaDB) GetMetricID(namespace, metricName string) (metric.ID, error) {
	if err := m.f.hit("MetaDB.GetMetricID", 0); err != nil {
		return 0, err
	}
	return m.MetricMetaDatabase.GetMetricID(namespace, metricName)
}

func (m *lpMetaDB) FindTagValueDsByExpr(tagKeyID tag.KeyID, expr stmt.TagFilter) (*roaring.Bitmap, error) {
	if err := m.f.hit("MetaDB.FindTagValueDsByExpr", 0); err != nil {
		return nil, err
	}
	return m.MetricMetaDatabase.FindTagValueDsByExpr(tagKeyID, expr)
}

func (d *lpDatabase) GetShard(id models.ShardID) (tsdb.Shard, bool) {
	if ft := d.f.get(); ft.getShardPanic != 0 && ft.getShardPanic == id {
		panic(fmt.Sprintf("injected panic in Database.GetShard(%d)", id))
	}
	s, ok := d.Database.GetShard(id)
	if !ok {
		return nil, false
	}
	return &lpShard{Shard: s, f: d.f}, true
}

type lpShard struct {
	tsdb.Shard
	f *lpFaultBox
}

func (s *lpShard) GetDataFamilies(t timeutil.IntervalType, r timeutil.TimeRange) []tsdb.DataFamily {
	if ft := s.f.get(); ft.planPanic != 0 && ft.planPanic == s.ShardID() {
		panic(fmt.Sprintf("injected panic in Shard.GetDataFamilies of shard %d", s.ShardID()))
	}
	fs := s.Shard.GetDataFamilies(t, r)
	out := make([]tsdb.DataFamily, len(fs))
	for i := range fs {
		out[i] = &lpFamily{DataFamily: fs[i], f: s.f, id: s.ShardID()}
	}
	return out
}

// lpFamily wraps a real data family: Filter and the result sets' Load are fault sites.
type lpFamily struct {
	tsdb.DataFamily
	f  *lpFaultBox
	id models.ShardID
}

func (fam *lpFamily) Filter(ctx *flow.ShardExecuteContext) ([]flow.FilterResultSet, error) {
	if err := fam.f.hit("DataFamily.Filter", fam.id); err != nil {
		return nil, err
	}
	rs, err := fam.DataFamily.Filter(ctx)
	for i := range rs {
		rs[i] = &lpResultSet{FilterResultSet: rs[i], f: fam.f, id: fam.id}
	}
	return rs, err
}

type lpResultSet struct {
	flow.FilterResultSet
	f  *lpFaultBox
	id models.ShardID
}

func (r *lpResultSet) Load(ctx *flow.DataLoadContext) flow.DataLoader {
	// Load has no error result: only the panic mode means anything here
	_ = r.f.hit("FilterResultSet.Load", r.id)
	return r.FilterResultSet.Load(ctx)
}

func (s *lpShard) IndexDB() index.MetricIndexDatabase {
	if ft := s.f.get(); ft.ctorPanic != 0 && ft.ctorPanic == s.ShardID() {
		panic(fmt.Sprintf("injected panic in Shard.IndexDB of shard %d", s.ShardID()))
	}
	return &lpIndexDB{MetricIndexDatabase: s.Shard.IndexDB(), f: s.f, id: s.ShardID()}
}

type lpIndexDB struct {
	index.MetricIndexDatabase
	f  *lpFaultBox
	id models.ShardID
}

func (d *lpIndexDB) GetSeriesIDsByTagValueIDs(id tag.KeyID, ids *roaring.Bitmap) (*roaring.Bitmap, error) {
	if err := d.f.hit("IndexDB.GetSeriesIDsByTagValueIDs", d.id); err != nil {
		return nil, err
	}
	if ft := d.f.get(); ft.indexErr != 0 && ft.indexErr == d.id {
		return nil, fmt.Errorf("GetSeriesIDsByTagValueIDs of shard %d: %w", d.id, errInjectedIO)
	}
	return d.MetricIndexDatabase.GetSeriesIDsByTagValueIDs(id, ids)
}

func (d *lpIndexDB) GetGroupingContext(ctx *flow.ShardExecuteContext) error {
	if err := d.f.hit("IndexDB.GetGroupingContext", d.id); err != nil {
		return err
	}
	return d.MetricIndexDatabase.GetGroupingContext(ctx)
}

func (d *lpIndexDB) GetSeriesIDsForMetric(metricID metric.ID) (*roaring.Bitmap, error) {
	if err := d.f.hit("IndexDB.GetSeriesIDsForMetric", d.id); err != nil {
		return nil, err
	}
	if ft := d.f.get(); ft.indexErr != 0 && ft.indexErr == d.id {
		return nil, fmt.Errorf("GetSeriesIDsForMetric of shard %d: %w", d.id, errInjectedIO)
	}
	if ft := d.f.get(); ft.execPanic != 0 && ft.execPanic == d.id {
		panic(fmt.Sprintf("injected panic in MetricIndexDatabase.GetSeriesIDsForMetric of shard %d", d.id))
	}
	return d.MetricIndexDatabase.GetSeriesIDsForMetric(metricID)
}

// ---------------------------------------------------------------- the request/response stream

type lpStream struct {
	protoCommonV1.TaskService_HandleServer
	ctx  context.Context
	reqs chan *protoCommonV1.TaskRequest
	mu   sync.Mutex
	got  map[string][]*protoCommonV1.TaskResponse
	sig  chan string
}

func (s *lpStream) Context() context.Context { return s.ctx }

func (s *lpStream) Recv() (*protoCommonV1.TaskRequest, error) {
	r, ok := <-s.reqs
	if !ok {
		return nil, fmt.Errorf("stream closed")
	}
	return r, nil
}

func (s *lpStream) Send(resp *protoCommonV1.TaskResponse) error {
	s.mu.Lock()
	s.got[resp.RequestID] = append(s.got[resp.RequestID], resp)
	s.mu.Unlock()
	select {
	case s.sig <- resp.RequestID:
	default:
	}
	return nil
}

func (s *lpStream) responses(id string) []*protoCommonV1.TaskResponse {
	s.mu.Lock()
	defer s.mu.Unlock()
	return append([]*protoCommonV1.TaskResponse(nil), s.got[id]...)
}

// ---------------------------------------------------------------- world

type lpWorld struct {
	dir      string
	eng      tsdb.Engine
	db       tsdb.Database
	faults   *lpFaultBox
	stream   *lpStream
	stream2  *lpStream // served by a task handler whose pool is stopped
	done2    chan struct{}
	taskPool concurrent.Pool
	famTime  int64
	done     chan struct{}
}

func lpWrite(db tsdb.Database, shardID models.ShardID, famTime int64, hosts []string) error {
	shard, ok := db.GetShard(shardID)
	if !ok {
		return fmt.Errorf("shard %d missing", shardID)
	}
	fam, err := shard.GetOrCrateDataFamily(famTime)
	if err != nil {
		return err
	}
	mid, err := db.MetaDB().GenMetricID([]byte(lpNamespace), []byte(lpMetric))
	if err != nil {
		return err
	}
	if _, err = db.MetaDB().GenFieldID(mid, field.Meta{Name: lpField, Type: field.SumField}); err != nil {
		return err
	}
	if _, err = db.MetaDB().GenTagKeyID(mid, []byte(lpTagKey)); err != nil {
		return err
	}
	cv := metric.NewProtoConverter(models.NewDefaultLimits())
	for i, h := range hosts {
		blk, err := cv.MarshalProtoMetricV1(&protoMetricsV1.Metric{
			Namespace: lpNamespace, Name: lpMetric, Timestamp: famTime + int64(1+i)*lpInterval,
			Tags:         []*protoMetricsV1.KeyValue{{Key: lpTagKey, Value: h}},
			SimpleFields: []*protoMetricsV1.SimpleField{{Name: lpField, Type: protoMetricsV1.SimpleFieldType_DELTA_SUM, Value: 1}},
		})
		if err != nil {
			return err
		}
		rows := metric.NewStorageBatchRows()
		rows.UnmarshalRows(append([]byte(nil), blk...))
		if err = fam.WriteRows(rows.Rows()); err != nil {
			return err
		}
	}
	return nil
}

func lpOpen() (w *lpWorld, err error) {
	defer func() {
		if r := recover(); r != nil {
			err = fmt.Errorf("panic while opening the leaf world: %v", r)
		}
	}()
	dir, err := os.MkdirTemp("", "lvh-c19-*")
	if err != nil {
		return nil, err
	}
	cfg := config.NewDefaultStorageBase()
	cfg.TSDB.Dir = filepath.Join(dir, "data")
	cfg.WAL.Dir = filepath.Join(dir, "wal")
	cfg.TSDB.MutableMemDBTTL = ltoml.Duration(240 * time.Hour)
	cfg.TSDB.MaxMemDBSize = ltoml.Size(1 << 40)
	cfg.TSDB.MaxMemUsageBeforeFlush = 2.0
	config.SetGlobalStorageConfig(cfg)
	w = &lpWorld{dir: dir, faults: &lpFaultBox{}, done: make(chan struct{})}
	if w.eng, err = tsdb.NewEngine(); err != nil {
		return nil, err
	}
	opt := &option.DatabaseOption{Intervals: option.Intervals{{
		Interval: timeutil.Interval(lpInterval), Retention: timeutil.Interval(30 * 24 * 3600 * 1000)}}}
	if err = w.eng.CreateShards(lpDB, opt, 1, 2, 3); err != nil {
		return nil, err
	}
	w.db, _ = w.eng.GetDatabase(lpDB)
	now := time.Now().UnixMilli()
	w.famTime = now - now%(3600*1000)
	// shard 1: three series, shard 2: one series, shard 3: none
	if err = lpWrite(w.db, 1, w.famTime, []string{"h1", "h2", "h3"}); err != nil {
		return nil, err
	}
	if err = lpWrite(w.db, 2, w.famTime, []string{"h4"}); err != nil {
		return nil, err
	}
	fct := rpc.NewTaskServerFactory()
	leafNode := &models.StatelessNode{HostIP: "127.0.0.1", GRPCPort: 7002}
	proc := query.NewLeafTaskProcessor(leafNode, &lpEngine{Engine: w.eng, f: w.faults}, fct)
	w.taskPool = concurrent.NewPool("verif-c19-leaf", 8, time.Minute,
		metrics.NewConcurrentStatistics("verif-c19-leaf", linmetric.BrokerRegistry))
	h := query.NewTaskHandler(config.Query{Timeout: ltoml.Duration(20 * time.Second)}, fct, proc, w.taskPool)
	ctx := metadata.NewIncomingContext(context.Background(), metadata.Pairs(constants.RPCMetaKeyLogicNode, lpClient))
	w.stream = &lpStream{ctx: ctx, reqs: make(chan *protoCommonV1.TaskRequest), got: map[string][]*protoCommonV1.TaskResponse{},
		sig: make(chan string, 1024)}
	go func() {
		defer close(w.done)
		_ = h.Handle(w.stream)
	}()
	stoppedPool := concurrent.NewPool("verif-c19-leaf-stopped", 2, time.Minute,
		metrics.NewConcurrentStatistics("verif-c19-leaf-stopped", linmetric.BrokerRegistry))
	stoppedPool.Stop()
	fct2 := rpc.NewTaskServerFactory()
	proc2 := query.NewLeafTaskProcessor(leafNode, &lpEngine{Engine: w.eng, f: w.faults}, fct2)
	h2 := query.NewTaskHandler(config.Query{Timeout: ltoml.Duration(20 * time.Second)}, fct2, proc2, stoppedPool)
	w.stream2 = &lpStream{ctx: ctx, reqs: make(chan *protoCommonV1.TaskRequest), got: map[string][]*protoCommonV1.TaskResponse{},
		sig: make(chan string, 1024)}
	w.done2 = make(chan struct{})
	go func() {
		defer close(w.done2)
		_ = h2.Handle(w.stream2)
	}()
	return w, nil
}

// openDeadlineStream serves one request on a stream of its own whose context the harness can cancel: the
// task handler derives the request's context (flow.NewTaskContextWithTimeout) from the stream's, so the
// cancellation is the request's deadline passing — without any timer.
func (w *lpWorld) openDeadlineStream() (*lpStream, context.CancelFunc, func()) {
	fct := rpc.NewTaskServerFactory()
	leafNode := &models.StatelessNode{HostIP: "127.0.0.1", GRPCPort: 7002}
	proc := query.NewLeafTaskProcessor(leafNode, &lpEngine{Engine: w.eng, f: w.faults}, fct)
	h := query.NewTaskHandler(config.Query{Timeout: ltoml.Duration(20 * time.Second)}, fct, proc, w.taskPool)
	base := metadata.NewIncomingContext(context.Background(), metadata.Pairs(constants.RPCMetaKeyLogicNode, lpClient))
	ctx, cancel := context.WithCancel(base)
	st := &lpStream{ctx: ctx, reqs: make(chan *protoCommonV1.TaskRequest), got: map[string][]*protoCommonV1.TaskResponse{},
		sig: make(chan string, 1024)}
	done := make(chan struct{})
	go func() {
		defer close(done)
		_ = h.Handle(st)
	}()
	return st, cancel, func() {
		cancel()
		close(st.reqs)
		select {
		case <-done:
		case <-time.After(2 * time.Second):
		}
	}
}

func (w *lpWorld) close() {
	if w == nil {
		return
	}
	if w.stream2 != nil {
		close(w.stream2.reqs)
		select {
		case <-w.done2:
		case <-time.After(2 * time.Second):
		}
	}
	if w.stream != nil {
		close(w.stream.reqs)
		select {
		case <-w.done:
		case <-time.After(2 * time.Second):
		}
	}
	done := make(chan struct{})
	go func() {
		defer close(done)
		defer func() { _ = recover() }()
		if w.taskPool != nil {
			w.taskPool.Stop()
		}
		if w.eng != nil {
			w.eng.Close()
		}
	}()
	select {
	case <-done:
	case <-time.After(20 * time.Second):
	}
	os.RemoveAll(w.dir)
}

// ---------------------------------------------------------------- scenarios

type lpScenario struct {
	name      string
	tree      string // the stage tree the scenario stands for (model side)
	wantErr   bool
	metric    string
	field     string
	where     bool // where host = 'nope…' style condition on an unknown tag key
	groupBy   bool
	shards    []models.ShardID
	faults    lpFaults
	maxSeries int  // > 0: database limit MaxSeriesPerQuery for this request
	badPlan   bool // unreadable physical plan: Process returns an error, the handler answers
	badStmt   bool // unreadable statement
	notLeaf   bool // the plan does not name this node
	stopped   bool // the request arrives at a task handler whose task pool is stopped
	// metadata-suggest requests (RequestType_Metadata → processMetadataSuggest → MetadataSuggest stage)
	meta      stmt.MetricMetadataType // != 0: a suggest request of this type
	prefix    string
	tagKey    string
	tolerated bool // the stage fails with a not-found error, which the suggest callback answers as an empty result
	badType   bool // a request type the leaf processor does not dispatch (Process's default branch)
	whereHost bool // data search with the tag filter host = 'h1' (series filtering instead of all series)
	collect   bool // the group-by tag value collect fails and answers the request itself
	// the request's deadline (its context is cancelled by the harness):
	//   'a' after the response has arrived (nothing more may be sent — a responder still waiting would answer now)
	//   'b' while both shards' pooled scan operators are running (they park in GetSeriesIDsForMetric); every
	//       later pooled stage is submitted with a done context: Submit's select may take either case
	//   'c' before the request is handed to the task pool
	dl    byte
	ptree string // 'b', 'c': the stage tree with E stages (either case), model op leafdl
}

// the healthy stage structure of a shard with data: shard scan -> grouping -> data load
const lpShardOK = "Ao(Ao(Ao))"

func lpScenarios() []lpScenario {
	return []lpScenario{
		{name: "healthy-two-shards", tree: "So(" + lpShardOK + "," + lpShardOK + ")", metric: lpMetric, field: lpField, shards: []models.ShardID{1, 2}},
		{name: "healthy-group-by", tree: "So(" + lpShardOK + "," + lpShardOK + ")", metric: lpMetric, field: lpField, groupBy: true, shards: []models.ShardID{1, 2}},
		{name: "healthy-empty-shard", tree: "So(" + lpShardOK + ",Ao)", metric: lpMetric, field: lpField, shards: []models.ShardID{2, 3}},
		{name: "shard-not-on-node", tree: "So(" + lpShardOK + ")", metric: lpMetric, field: lpField, shards: []models.ShardID{1, 9}},
		{name: "no-shards", tree: "So", metric: lpMetric, field: lpField, shards: nil},
		{name: "unknown-metric", tree: "Se", wantErr: true, metric: "nope", field: lpField, shards: []models.ShardID{1, 2}},
		{name: "unknown-field", tree: "Se", wantErr: true, metric: lpMetric, field: "nope", shards: []models.ShardID{1, 2}},
		{name: "unknown-tag-key", tree: "Se", wantErr: true, metric: lpMetric, field: lpField, where: true, shards: []models.ShardID{1, 2}},
		{name: "one-shard-over-series-limit", tree: "So(Ae," + lpShardOK + ")", wantErr: true, metric: lpMetric, field: lpField, shards: []models.ShardID{1, 2}, maxSeries: 2},
		{name: "panic-in-shard-Plan", tree: "So(" + lpShardOK + ",Al)", wantErr: true, metric: lpMetric, field: lpField, shards: []models.ShardID{1, 2}, faults: lpFaults{planPanic: 2}},
		{name: "panic-in-first-shard-Plan", tree: "So(Al," + lpShardOK + ")", wantErr: true, metric: lpMetric, field: lpField, shards: []models.ShardID{1, 2}, faults: lpFaults{planPanic: 1}},
		{name: "panic-in-root-NextStages", tree: "Sn", wantErr: true, metric: lpMetric, field: lpField, shards: []models.ShardID{1, 2}, faults: lpFaults{getShardPanic: 2}},
		{name: "panic-in-pooled-operator", tree: "So(Ap," + lpShardOK + ")", wantErr: true, metric: lpMetric, field: lpField, shards: []models.ShardID{1, 2}, faults: lpFaults{execPanic: 1}},
		{name: "panic-in-operator-constructor", tree: "So(" + lpShardOK + ",Al)", wantErr: true, metric: lpMetric, field: lpField, shards: []models.ShardID{1, 2}, faults: lpFaults{ctorPanic: 2}},
		{name: "unreadable-plan", tree: "-", wantErr: true, metric: lpMetric, field: lpField, badPlan: true},
		{name: "unreadable-statement", tree: "-", wantErr: true, metric: lpMetric, field: lpField, shards: []models.ShardID{1}, badStmt: true},
		{name: "not-a-leaf-of-the-plan", tree: "-", wantErr: true, metric: lpMetric, field: lpField, shards: []models.ShardID{1}, notLeaf: true},
		// a REAL trackable operator (it implements Stats()) returns an error in one shard's pooled scan stage
		{name: "index-read-error-in-metric-all-series", tree: "So(Ae," + lpShardOK + ")", wantErr: true, metric: lpMetric, field: lpField, shards: []models.ShardID{1, 2}, faults: lpFaults{indexErr: 1}},
		{name: "index-read-error-in-series-filtering", tree: "So(Ae,Ao)", wantErr: true, metric: lpMetric, field: lpField, whereHost: true, shards: []models.ShardID{1, 2}, faults: lpFaults{indexErr: 1}},
		{name: "healthy-where-host", tree: "So(" + lpShardOK + ",Ao)", metric: lpMetric, field: lpField, whereHost: true, shards: []models.ShardID{1, 2}},
		// group by: after the last grouping task LeafGroupingContext.collectGroupByTagValues reads the tag
		// values; when that fails IT answers the request (through the guarded SendResponse), before the
		// pipeline's completion callback
		{name: "group-by-collect-tag-values-error", tree: "So(" + lpShardOK + "," + lpShardOK + ")", collect: true, wantErr: true, metric: lpMetric, field: lpField, groupBy: true, shards: []models.ShardID{1, 2}, faults: lpFaults{collectErr: true}},
		{name: "group-by-collect-error-and-shard-over-limit", tree: "So(Ae," + lpShardOK + ")", collect: true, wantErr: true, metric: lpMetric, field: lpField, groupBy: true, shards: []models.ShardID{1, 2}, faults: lpFaults{collectErr: true}, maxSeries: 2},
		{name: "group-by-collect-error-and-operator-panic", tree: "So(Ap," + lpShardOK + ")", collect: true, wantErr: true, metric: lpMetric, field: lpField, groupBy: true, shards: []models.ShardID{1, 2}, faults: lpFaults{collectErr: true, execPanic: 1}},
		// ONE storage-interface call of the leaf path fails (returns a read error / panics), one site per scenario:
		// the request still gets exactly one response, and it carries the error
		{name: "site-MetaDB.GetMetricID-err", tree: "Se", wantErr: true, metric: lpMetric, field: lpField, shards: []models.ShardID{1, 2}, faults: lpFaults{site: "MetaDB.GetMetricID", siteMode: 'e'}},
		{name: "site-MetaDB.GetMetricID-panic", tree: "Sp", wantErr: true, metric: lpMetric, field: lpField, shards: []models.ShardID{1, 2}, faults: lpFaults{site: "MetaDB.GetMetricID", siteMode: 'p'}},
		{name: "site-MetaDB.GetSchema-err", tree: "Se", wantErr: true, metric: lpMetric, field: lpField, shards: []models.ShardID{1, 2}, faults: lpFaults{site: "MetaDB.GetSchema", siteMode: 'e'}},
		{name: "site-MetaDB.GetSchema-panic", tree: "Sp", wantErr: true, metric: lpMetric, field: lpField, groupBy: true, shards: []models.ShardID{1, 2}, faults: lpFaults{site: "MetaDB.GetSchema", siteMode: 'p'}},
		{name: "site-MetaDB.FindTagValueDsByExpr-err", tree: "Se", wantErr: true, metric: lpMetric, field: lpField, whereHost: true, shards: []models.ShardID{1, 2}, faults: lpFaults{site: "MetaDB.FindTagValueDsByExpr", siteMode: 'e'}},
		{name: "site-MetaDB.FindTagValueDsByExpr-panic", tree: "Sp", wantErr: true, metric: lpMetric, field: lpField, whereHost: true, shards: []models.ShardID{1, 2}, faults: lpFaults{site: "MetaDB.FindTagValueDsByExpr", siteMode: 'p'}},
		{name: "site-IndexDB.GetSeriesIDsByTagValueIDs-panic", tree: "So(Ap,Ao)", wantErr: true, metric: lpMetric, field: lpField, whereHost: true, shards: []models.ShardID{1, 2}, faults: lpFaults{site: "IndexDB.GetSeriesIDsByTagValueIDs", siteMode: 'p', siteShard: 1}},
		{name: "site-IndexDB.GetSeriesIDsForMetric-err-second-shard", tree: "So(" + lpShardOK + ",Ae)", wantErr: true, metric: lpMetric, field: lpField, shards: []models.ShardID{1, 2}, faults: lpFaults{site: "IndexDB.GetSeriesIDsForMetric", siteMode: 'e', siteShard: 2}},
		{name: "site-IndexDB.GetGroupingContext-err", tree: "So(Ae," + lpShardOK + ")", wantErr: true, metric: lpMetric, field: lpField, groupBy: true, shards: []models.ShardID{1, 2}, faults: lpFaults{site: "IndexDB.GetGroupingContext", siteMode: 'e', siteShard: 1}},
		{name: "site-IndexDB.GetGroupingContext-panic", tree: "So(" + lpShardOK + ",Ap)", wantErr: true, metric: lpMetric, field: lpField, groupBy: true, shards: []models.ShardID{1, 2}, faults: lpFaults{site: "IndexDB.GetGroupingContext", siteMode: 'p', siteShard: 2}},
		{name: "site-DataFamily.Filter-err", tree: "So(Ae," + lpShardOK + ")", wantErr: true, metric: lpMetric, field: lpField, shards: []models.ShardID{1, 2}, faults: lpFaults{site: "DataFamily.Filter", siteMode: 'e', siteShard: 1}},
		{name: "site-DataFamily.Filter-panic-group-by", tree: "So(" + lpShardOK + ",Ap)", wantErr: true, metric: lpMetric, field: lpField, groupBy: true, shards: []models.ShardID{1, 2}, faults: lpFaults{site: "DataFamily.Filter", siteMode: 'p', siteShard: 2}},
		{name: "site-FilterResultSet.Load-panic", tree: "So(Ao(Ao(Ap))," + lpShardOK + ")", wantErr: true, metric: lpMetric, field: lpField, shards: []models.ShardID{1, 2}, faults: lpFaults{site: "FilterResultSet.Load", siteMode: 'p', siteShard: 1}},
		{name: "site-FilterResultSet.Load-panic-group-by", tree: "So(" + lpShardOK + ",Ao(Ao(Ap)))", wantErr: true, metric: lpMetric, field: lpField, groupBy: true, shards: []models.ShardID{1, 2}, faults: lpFaults{site: "FilterResultSet.Load", siteMode: 'p', siteShard: 2}},
		// metadata suggest: every stage runs inline on the task's goroutine
		{name: "suggest-namespaces", tree: "So", meta: stmt.Namespace},
		{name: "suggest-metrics", tree: "So", meta: stmt.Metric, prefix: "c"},
		{name: "suggest-tag-keys", tree: "So", meta: stmt.TagKey, metric: lpMetric},
		{name: "suggest-fields", tree: "So", meta: stmt.Field, metric: lpMetric},
		{name: "suggest-tag-values", tree: "So", meta: stmt.TagValue, metric: lpMetric, tagKey: lpTagKey, shards: []models.ShardID{1, 2}},
		{name: "suggest-tag-values-where", tree: "So(So,So)", meta: stmt.TagValue, metric: lpMetric, tagKey: lpTagKey, where: true, shards: []models.ShardID{1, 2}},
		{name: "suggest-tag-keys-unknown-metric", tree: "Se", tolerated: true, meta: stmt.TagKey, metric: "nope"},
		{name: "suggest-tag-values-unknown-tag-key", tree: "Se", tolerated: true, meta: stmt.TagValue, metric: lpMetric, tagKey: "nokey", shards: []models.ShardID{1}},
		{name: "suggest-metrics-index-error", tree: "Se", wantErr: true, meta: stmt.Metric, faults: lpFaults{metaErr: true}},
		{name: "suggest-fields-index-error", tree: "Se", wantErr: true, meta: stmt.Field, metric: lpMetric, faults: lpFaults{metaErr: true}},
		{name: "suggest-tag-values-index-error", tree: "Se", wantErr: true, meta: stmt.TagValue, metric: lpMetric, tagKey: lpTagKey, shards: []models.ShardID{1}, faults: lpFaults{metaErr: true}},
		{name: "suggest-namespaces-panic", tree: "Sp", wantErr: true, meta: stmt.Namespace, faults: lpFaults{metaPanic: true}},
		{name: "suggest-tag-values-where-shard-panic", tree: "So(So,Sl)", wantErr: true, meta: stmt.TagValue, metric: lpMetric, tagKey: lpTagKey, where: true, shards: []models.ShardID{1, 2}, faults: lpFaults{ctorPanic: 2}},
		{name: "suggest-unreadable-statement", tree: "-", wantErr: true, meta: stmt.Metric, badStmt: true},
		// the request's deadline passes (controllable context, no timer)
		{name: "deadline-after-response-group-by", tree: "So(" + lpShardOK + "," + lpShardOK + ")", metric: lpMetric, field: lpField, groupBy: true, shards: []models.ShardID{1, 2}, dl: 'a'},
		{name: "deadline-after-collect-error-response", tree: "So(" + lpShardOK + "," + lpShardOK + ")", collect: true, wantErr: true, metric: lpMetric, field: lpField, groupBy: true, shards: []models.ShardID{1, 2}, faults: lpFaults{collectErr: true}, dl: 'a'},
		{name: "deadline-after-error-response", tree: "So(Ae," + lpShardOK + ")", wantErr: true, metric: lpMetric, field: lpField, shards: []models.ShardID{1, 2}, faults: lpFaults{indexErr: 1}, dl: 'a'},
		{name: "deadline-while-shard-scans-run", tree: "So(" + lpShardOK + "," + lpShardOK + ")", ptree: "So2 Ao1 Eo1 Eo0 Ao1 Eo1 Eo0", metric: lpMetric, field: lpField, shards: []models.ShardID{1, 2},
			faults: lpFaults{site: "IndexDB.GetSeriesIDsForMetric", siteMode: 'b'}, dl: 'b'},
		{name: "deadline-while-shard-scans-run-group-by", tree: "So(" + lpShardOK + "," + lpShardOK + ")", ptree: "So2 Ao1 Eo1 Eo0 Ao1 Eo1 Eo0", metric: lpMetric, field: lpField, groupBy: true, shards: []models.ShardID{1, 2},
			faults: lpFaults{site: "IndexDB.GetSeriesIDsForMetric", siteMode: 'b'}, dl: 'b'},
		{name: "deadline-before-the-request-is-queued", tree: "So(" + lpShardOK + "," + lpShardOK + ")", ptree: "So2 Eo1 Eo1 Eo0 Eo1 Eo1 Eo0", metric: lpMetric, field: lpField, shards: []models.ShardID{1, 2}, dl: 'c'},
		// a request type the leaf processor does not know: Process's default branch omits it
		{name: "unknown-request-type", tree: "o", metric: lpMetric, field: lpField, shards: []models.ShardID{1}, badType: true},
		// (c) at the request level: TaskHandler.process submits the whole request to a stopped pool
		{name: "handler-pool-stopped", tree: "x", wantErr: true, metric: lpMetric, field: lpField, shards: []models.ShardID{1, 2}, stopped: true},
	}
}

func (w *lpWorld) request(id string, sc *lpScenario) (*protoCommonV1.TaskRequest, error) {
	q := &stmt.Query{
		Namespace:       lpNamespace,
		MetricName:      sc.metric,
		SelectItems:     []stmt.Expr{&stmt.SelectItem{Expr: &stmt.FieldExpr{Name: sc.field}}},
		TimeRange:       timeutil.TimeRange{Start: w.famTime, End: w.famTime + 60*lpInterval},
		Interval:        timeutil.Interval(lpInterval),
		StorageInterval: timeutil.Interval(lpInterval),
		IntervalRatio:   1,
	}
	if sc.where {
		q.Condition = &stmt.EqualsExpr{Key: "nokey", Value: "x"}
	}
	if sc.whereHost && sc.meta == 0 {
		q.Condition = &stmt.EqualsExpr{Key: lpTagKey, Value: "h1"}
	}
	if sc.groupBy {
		q.GroupBy = []string{lpTagKey}
	}
	payload, err := q.MarshalJSON()
	if err != nil {
		return nil, err
	}
	reqType := protoCommonV1.RequestType_Data
	if sc.meta != 0 {
		reqType = protoCommonV1.RequestType_Metadata
		m := &stmt.MetricMetadata{Namespace: lpNamespace, MetricName: sc.metric, Type: sc.meta, TagKey: sc.tagKey, Prefix: sc.prefix}
		if sc.where {
			m.Condition = &stmt.EqualsExpr{Key: lpTagKey, Value: "h1"}
		}
		if payload, err = m.MarshalJSON(); err != nil {
			return nil, err
		}
	}
	if sc.badType {
		reqType = protoCommonV1.RequestType(77)
	}
	if sc.badStmt {
		payload = []byte("{not json")
	}
	ind := lpLeaf
	if sc.notLeaf {
		ind = "127.0.0.1:7999"
	}
	plan, err := json.Marshal(&models.PhysicalPlan{Database: lpDB,
		Targets:   []*models.Target{{Indicator: ind, ShardIDs: sc.shards}},
		Receivers: []string{lpClient}})
	if err != nil {
		return nil, err
	}
	if sc.badPlan {
		plan = []byte("{not json")
	}
	return &protoCommonV1.TaskRequest{RequestID: id, RequestType: reqType,
		PhysicalPlan: plan, Payload: payload}, nil
}

func lpTokens(t string) string {
	if t == "-" || t == "x" || t == "o" {
		return t
	}
	root := tree(t)
	number(root)
	return tokens(root)
}

func (leafArea) Run(c *core.Ctx) error {
	w, err := lpOpen()
	if err != nil {
		w.close()
		return err
	}
	defer w.close()
	scs := lpScenarios()
	defaultLimits := w.db.GetLimits()
	type sent struct {
		id   string
		name string
		i    int
		st   *lpStream // the request's own stream (deadline scenarios)
	}
	var closers []func()
	defer func() {
		for _, f := range closers {
			f()
		}
	}()
	var all []sent
	silent := 0
	for i := 0; i < c.N; i++ {
		if !c.Want(i) {
			continue
		}
		if silent >= 3 {
			// every unanswered request costs its whole waiting time; three are enough to decide
			c.Note("aborted after 3 unanswered requests")
			break
		}
		rng := c.Rng(i)
		c.Begin(i)
		var sc lpScenario
		if i < len(scs) {
			sc = scs[i]
		} else {
			sc = scs[rng.Intn(len(scs))]
			if sc.stopped && rng.Intn(8) != 0 {
				sc = scs[0] // the stopped handler costs its whole waiting time when nothing answers
			}
		}
		c.Branch("scenario-" + sc.name)
		id := fmt.Sprintf("req-%d-%d", c.Seed, i)
		req, err := w.request(id, &sc)
		if err != nil {
			return err
		}
		w.faults.set(sc.faults)
		if sc.maxSeries > 0 {
			l := *defaultLimits
			l.MaxSeriesPerQuery = sc.maxSeries
			w.db.SetLimits(&l)
		}
		st := w.stream
		wait := 3 * time.Second
		if sc.stopped {
			st, wait = w.stream2, 300*time.Millisecond
		}
		if sc.badType {
			wait = 30 * time.Millisecond
		}
		var dcancel context.CancelFunc
		if sc.dl != 0 {
			var dclose func()
			st, dcancel, dclose = w.openDeadlineStream()
			closers = append(closers, dclose) // kept open to the end of the run: a late duplicate still finds it
			c.Branch("deadline-scenario-" + string(sc.dl))
		}
		if sc.dl == 'b' {
			w.faults.mu.Lock()
			w.faults.blocked, w.faults.release = make(chan struct{}, 16), make(chan struct{})
			w.faults.mu.Unlock()
		}
		if sc.dl == 'c' {
			dcancel()
		}
		st.reqs <- req
		if sc.dl == 'b' {
			// both shards' scan operators are parked inside their pooled stages: now the deadline passes
			reached := 0
			for reached < len(sc.shards) {
				select {
				case <-w.faults.blocked:
					reached++
					continue
				case <-time.After(3 * time.Second):
				}
				break
			}
			if reached < len(sc.shards) {
				c.Fail("harness-deadline-block-not-reached:"+sc.name, fmt.Sprintf("only %d of %d shard scans reached the parked call", reached, len(sc.shards)))
			}
			dcancel()
			close(w.faults.release)
		}
		deadline := time.After(wait)
		gotOne := false
		for !gotOne {
			select {
			case rid := <-st.sig:
				gotOne = rid == id
			case <-deadline:
				gotOne = true
			}
		}
		if sc.dl == 'a' {
			// the response is there; now the deadline passes: whoever still waits on the request's context
			// (a callback parked in the group-by collect wait) would answer a second time
			dcancel()
			time.Sleep(2 * time.Millisecond)
		}
		// a second response of a broken pipeline would follow the first at once
		time.Sleep(300 * time.Microsecond)
		siteFired := w.faults.firedCount()
		w.faults.set(lpFaults{})
		if sc.maxSeries > 0 {
			w.db.SetLimits(defaultLimits)
		}
		rs := st.responses(id)
		resp := "-"
		if len(rs) > 0 {
			resp = "nil"
			if rs[0].ErrMsg != "" {
				resp = "err"
			}
		}
		if len(rs) > 0 && rs[0].ErrMsg != "" {
			c.Note("error message: " + strings.ReplaceAll(rs[0].ErrMsg, "\n", " "))
			if c.Args["debug"] != "" {
				fmt.Fprintf(os.Stderr, "case %d %s: %s\n", i, sc.name, strings.ReplaceAll(rs[0].ErrMsg, "\n", " "))
			}
		}
		if c.Args["debug"] != "" && len(rs) > 0 && rs[0].ErrMsg == "" {
			fmt.Fprintf(os.Stderr, "case %d %s: ok payload=%d bytes\n", i, sc.name, len(rs[0].Payload))
		}
		out := fmt.Sprintf("responses=%d resp=%s", len(rs), resp)
		kind := "data"
		switch {
		case sc.collect:
			kind = "data-collect-fails"
		case sc.meta != 0 && sc.tolerated:
			kind = "meta-notfound"
		case sc.meta != 0:
			kind = "meta"
		}
		what := fmt.Sprintf("leaf request scenario %s (stage tree %s)", sc.name, sc.tree)
		if sc.ptree != "" {
			// the outcome is a set (Submit's select on a done context): the model is told what was observed and
			// says whether some resolution produces it; the property is "exactly one response" either way
			dkind := "data"
			if sc.groupBy {
				dkind = "data-group-by"
			}
			c.Op("leafdl "+dkind+" "+sc.ptree+" "+resp, out)
			c.Branch("deadline-response-" + resp)
			switch {
			case len(rs) == 0:
				silent++
				c.Fail("leaf-no-response:"+sc.name, fmt.Sprintf("%s: the request's context was cancelled, no response within %v", what, wait))
			case len(rs) > 1:
				c.Fail("leaf-more-than-one-response:"+sc.name, fmt.Sprintf("%s: %d responses", what, len(rs)))
			}
			all = append(all, sent{id: id, name: sc.name, i: i, st: st})
			c.NonTrivial()
			continue
		}
		c.Op("leafreq "+kind+" "+lpTokens(sc.tree), out)
		switch {
		case sc.badType:
			// Process's default branch answers nothing; reported as an observation only
			c.Note(fmt.Sprintf("unknown request type: %d responses", len(rs)))
		case len(rs) == 0:
			if !sc.stopped {
				silent++
			}
			c.Fail("leaf-no-response:"+sc.name, fmt.Sprintf("%s: no response within %v", what, wait))
		case len(rs) > 1:
			c.Fail("leaf-more-than-one-response:"+sc.name, fmt.Sprintf("%s: %d responses", what, len(rs)))
		case sc.wantErr && rs[0].ErrMsg == "":
			c.Fail("leaf-error-lost:"+sc.name, what+": a stage failed or panicked, the response carries no error")
		case !sc.wantErr && rs[0].ErrMsg != "":
			// not a violation of the property; the model (which answers `nil`) will disagree
			c.Note("unexpected error: " + strings.ReplaceAll(rs[0].ErrMsg, "\n", " "))
		}
		if sc.faults.site != "" {
			if siteFired == 0 {
				// the scenario is built so that the call happens; if not, the scenario (not lindb) is wrong
				c.Fail("harness-fault-site-not-reached:"+sc.name, what+": the injected fault site "+sc.faults.site+" was never called")
			} else {
				c.Branch("fault-site-" + sc.faults.site + "-" + string(sc.faults.siteMode))
			}
		}
		if len(rs) > 0 && !rs[0].Completed {
			c.Fail("leaf-response-not-completed:"+sc.name, what+": response without Completed flag")
		}
		all = append(all, sent{id: id, name: sc.name, i: i, st: st})
		if sc.tree != "-" && sc.tree != "Se" && sc.tree != "So" {
			c.NonTrivial()
		}
	}
	// late duplicates: every request id still has exactly the responses counted above
	time.Sleep(20 * time.Millisecond)
	for _, s := range all {
		n := len(w.stream.responses(s.id)) + len(w.stream2.responses(s.id))
		if s.st != nil && s.st != w.stream && s.st != w.stream2 {
			n += len(s.st.responses(s.id))
		}
		if n > 1 {
			c.Fail("leaf-late-second-response:"+s.name, fmt.Sprintf("request of case %d (%s) received %d responses by the end of the run", s.i, s.name, n))
		}
	}
	return nil
}
