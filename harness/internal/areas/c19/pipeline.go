// Package c19 drives lindb's real query pipeline (query.NewExecutePipeline, the real
// pipelineStateMachine, the real baseStage.Execute and a real concurrent.Pool) on generated stage
// trees with scripted outcomes, forces the completion order through per-stage gates, and mirrors
// every scheduling decision in the C19 line protocol (Driver/C19.lean).
package c19

import (
	"context"
	"errors"
	"fmt"
	"math/rand"
	"os"
	"runtime/pprof"
	"sort"
	"strconv"
	"strings"
	"sync"
	"sync/atomic"
	"time"

	commonmodels "github.com/lindb/common/models"

	"github.com/lindb/lindb/flow"
	"github.com/lindb/lindb/internal/concurrent"
	"github.com/lindb/lindb/internal/linmetric"
	"github.com/lindb/lindb/metrics"
	"github.com/lindb/lindb/models"
	protoCommonV1 "github.com/lindb/lindb/proto/gen/v1/common"
	"github.com/lindb/lindb/query"
	querycontext "github.com/lindb/lindb/query/context"
	"github.com/lindb/lindb/query/stage"
	trackerpkg "github.com/lindb/lindb/query/tracker"
	"github.com/lindb/lindb/rpc"
	"github.com/lindb/lindb/sql/stmt"

	"github.com/lindb/lindb/zzverif/internal/core"
)

type area struct{}

func init() { core.Register(area{}) }

func (area) Name() string { return "pipeline" }

// ---------------------------------------------------------------- stage trees

type node struct {
	id     int
	async  bool // pooled stage (baseStage.ctx and execPool set)
	rej    byte // 0: the pool accepts the task; 'X': stopped pool; 'C': cancelled context on a saturated pool
	queued bool // 'Q': pooled on a 1-worker pool whose worker is busy; the stage's context is cancelled
	//               after Submit accepted the task and before a worker picks it up
	stopRace bool // 'Z': pooled on a saturated 1-worker pool; the pool is stopped while Submit is blocked on
	//               the full queue (Stop() racing Submit), then the queue is drained
	either    bool // 'R': pooled, submitted with a context that is already done while the queue has room:
	//               workerPool.Submit's select may take either case (rejected: 'r', accepted: stays 'R')
	eitherOpen bool // 'R': submitted, neither its gate nor its rejection seen yet
	submitted chan struct{} // 'Z': closed when the goroutine that started the stage is seen to go on after Submit
	cancel    context.CancelFunc
	cwait     chan struct{} // non-nil: the stage's Complete() hook parks until the harness closes it
	out       byte          // 'o' ok, 'e' error, 'p' execution panics, 'l' Plan() panics, 'n' NextStages() panics
	children  []*node
	parent    *node

	// run state
	thread    int  // goroutine that executes the stage (assigned when it is launched), -1 before
	trackable bool // the stage's operator also implements operator.TrackableOperator (Stats())
	executed  bool
	ncomp     int // Complete() calls (completeStage calls) seen for the stage
	gate      chan struct{}
}

func (n *node) token() string {
	k := "S"
	if n.async {
		k = "A"
	}
	if n.rej != 0 {
		k = string(n.rej)
	}
	if n.queued {
		k = "Q"
	}
	if n.stopRace {
		k = "Z"
	}
	if n.either {
		k = "R"
		if n.rej != 0 {
			k = "r" // the select took `<-ctx.Done()`
		}
	}
	return fmt.Sprintf("%s%c%d", k, n.out, len(n.children))
}

func preorder(n *node, f func(*node)) {
	f(n)
	for _, c := range n.children {
		preorder(c, f)
	}
}

func tokens(root *node) string {
	var ts []string
	preorder(root, func(n *node) { ts = append(ts, n.token()) })
	return strings.Join(ts, " ")
}

func number(root *node) []*node {
	var all []*node
	preorder(root, func(n *node) {
		n.id = len(all)
		n.thread = -1
		n.gate = make(chan struct{}, 1)
		all = append(all, n)
		for _, c := range n.children {
			c.parent = n
		}
	})
	return all
}

// tree parses the compact notation used for the fixed witnesses: So(Ae,Ao)
func tree(s string) *node {
	pos := 0
	var parse func() *node
	parse = func() *node {
		n := &node{async: s[pos] != 'S', out: s[pos+1]}
		if s[pos] == 'X' || s[pos] == 'C' {
			n.rej = s[pos]
		}
		n.queued = s[pos] == 'Q'
		n.stopRace = s[pos] == 'Z'
		n.either = s[pos] == 'R'
		pos += 2
		if pos < len(s) && s[pos] == '*' { // the stage's operator is trackable (has Stats())
			n.trackable = true
			pos++
		}
		if pos < len(s) && s[pos] == '(' {
			pos++
			for {
				n.children = append(n.children, parse())
				if s[pos] == ',' {
					pos++
					continue
				}
				pos++ // ')'
				break
			}
		}
		return n
	}
	return parse()
}

// ---------------------------------------------------------------- generator

type genKind int

const (
	genNoPanic     genKind = iota // outcomes ok/error only
	genRecoverable                // panics only where the source before fix b04bf84 recovered and completed them
	genAny                        // any panic anywhere (execution, Plan(), NextStages())
	genLindbShape                 // sync root -> pooled shard scans -> pooled grouping -> pooled data load
	genReject                     // additionally pooled stages whose pool rejects the task
)

func randOutcome(r *rand.Rand, kind genKind) byte {
	x := r.Intn(100)
	switch {
	case x < 68:
		return 'o'
	case x < 84 || kind == genNoPanic:
		return 'e'
	case kind == genRecoverable:
		return 'p'
	default:
		return []byte{'p', 'p', 'l', 'l', 'n'}[r.Intn(5)]
	}
}

func genTree(r *rand.Rand, kind genKind, maxNodes int) *node {
	if kind == genLindbShape {
		root := &node{out: 'o'}
		if r.Intn(12) == 0 {
			root.out = randOutcome(r, genAny)
		}
		budget := maxNodes - 1
		shards := 1 + r.Intn(4)
		for s := 0; s < shards && budget > 0; s++ {
			sc := &node{async: true, out: randOutcome(r, genAny), trackable: r.Intn(2) == 0}
			budget--
			root.children = append(root.children, sc)
			groups := r.Intn(3)
			for g := 0; g < groups && budget > 0; g++ {
				gr := &node{async: true, out: randOutcome(r, genAny), trackable: r.Intn(2) == 0}
				budget--
				sc.children = append(sc.children, gr)
				if r.Intn(2) == 0 && budget > 0 {
					gr.children = append(gr.children, &node{async: true, out: randOutcome(r, genAny)})
					budget--
				}
			}
		}
		return root
	}
	budget := 1 + r.Intn(maxNodes)
	asyncP := []int{20, 50, 80}[r.Intn(3)]
	haveQ, haveZ := new(bool), new(bool)
	var build func(depth int, onMain bool) *node
	build = func(depth int, onMain bool) *node {
		budget--
		n := &node{async: r.Intn(100) < asyncP, out: randOutcome(r, kind), trackable: r.Intn(2) == 0}
		if depth == 0 && r.Intn(3) > 0 {
			n.async = false // lindb's root stages are synchronous
		}
		childMain := onMain && !n.async
		if kind == genRecoverable && n.out == 'p' && !n.async && !onMain {
			n.out = 'e'
		}
		if kind == genReject && n.async && r.Intn(4) == 0 {
			n.rej = []byte{'X', 'C'}[r.Intn(2)]
		}
		if n.async && n.rej == 0 && !*haveQ && r.Intn(12) == 0 {
			n.queued, *haveQ = true, true
		}
		if n.async && n.rej == 0 && !n.queued && !*haveZ && r.Intn(16) == 0 {
			n.stopRace, *haveZ = true, true
		}
		if n.async && n.rej == 0 && !n.queued && !n.stopRace && r.Intn(8) == 0 {
			n.either = true
		}
		if depth < 4 {
			fan := r.Intn(4)
			if depth == 0 && fan == 0 {
				fan = 1 + r.Intn(3)
			}
			for i := 0; i < fan && budget > 0; i++ {
				n.children = append(n.children, build(depth+1, childMain))
			}
		}
		return n
	}
	root := build(0, true)
	if r.Intn(4) > 0 {
		root.out = 'o' // mostly let the tree unfold
	}
	return root
}

// ---------------------------------------------------------------- the scripted operator (the gate)

type event struct {
	kind string // ident | plan | gate | complete | callback | maindone
	n    *node
	err  error
}

type gateOp struct {
	n    *node
	ev   chan event
	done chan struct{} // closed when the case is over: nothing parks any more
}

// gateOpT is gateOp's trackable twin: planNode.ExecuteWithStats attaches Stats() of such operators.
type gateOpT struct{ gateOp }

func (o *gateOpT) Stats() interface{} { return map[string]int{"stage": o.n.id} }

var errScripted = errors.New("scripted stage failure")

func (o *gateOp) Identifier() string { return "verif-op-" + strconv.Itoa(o.n.id) }

// Execute is called by the real planNode.ExecuteWithStats inside the real baseStage.execute, on
// the goroutine the real baseStage.Execute chose (inline or a pool worker).
func (o *gateOp) Execute() error {
	select {
	case o.ev <- event{kind: "gate", n: o.n}:
	case <-o.done:
	}
	select {
	case <-o.n.gate:
	case <-o.done:
	}
	switch o.n.out {
	case 'e':
		return errScripted
	case 'p':
		panic(fmt.Sprintf("scripted panic in stage %d", o.n.id))
	}
	return nil // 'o', and 'n' (NextStages() panics afterwards)
}

// ---------------------------------------------------------------- one pipeline run

type obs struct {
	cb          int
	cbErr       []bool
	regAtCb     int
	doneAtCb    int
	lastDone    *node // last stage whose Complete() ran before the first callback
	failedAtCb  bool  // some executed stage had failed or panicked when the callback fired
	reg, done   int
	timeout     string
	panicked    []*node
	rejected    []*node // pooled stages whose pool rejected the task
	silent      *node   // a pooled stage whose task went silent without completing the stage
	vanished    []*node // 'Q' stages whose accepted task never reached the stage's execution
	threadPanic map[int]bool
}

// env holds the real pools of one harness run.
type env struct {
	pool      concurrent.Pool // accepts every task (64 workers)
	stopped   concurrent.Pool // a stopped pool: Submit returns at `p.Stopped()`
	full      concurrent.Pool // 1 worker, saturated with blocked tasks: only `<-ctx.Done()` is ready in Submit
	cancelled context.Context
	unblock   chan struct{}
	qpool     concurrent.Pool // 1 worker; kept busy by a blocker while a 'Q' stage's task waits in the queue
	qfree     chan struct{}   // closing it ends the current blocker
}

// qBlock makes sure the only worker of qpool is busy.
func (e *env) qBlock() {
	if e.qfree != nil {
		return
	}
	free, started := make(chan struct{}), make(chan struct{})
	e.qfree = free
	e.qpool.Submit(context.Background(), concurrent.NewTask(func() { close(started); <-free }, nil))
	<-started
}

// qFree lets the worker of qpool go on to the queued task.
func (e *env) qFree() {
	if e.qfree != nil {
		close(e.qfree)
		e.qfree = nil
	}
}

func newEnv() *env {
	e := &env{unblock: make(chan struct{})}
	e.pool = concurrent.NewPool("verif-c19", 64, time.Minute,
		metrics.NewConcurrentStatistics("verif-c19", linmetric.BrokerRegistry))
	e.stopped = concurrent.NewPool("verif-c19-stopped", 2, time.Minute,
		metrics.NewConcurrentStatistics("verif-c19-stopped", linmetric.BrokerRegistry))
	e.stopped.Stop()
	e.full = concurrent.NewPool("verif-c19-full", 1, time.Minute,
		metrics.NewConcurrentStatistics("verif-c19-full", linmetric.BrokerRegistry))
	// 1 task running, 1 in the dispatcher's hand waiting for a worker, 8 in the tasks channel:
	// the 10th Submit can only return once the channel is full again
	for i := 0; i < 10; i++ {
		e.full.Submit(context.Background(), concurrent.NewTask(func() { <-e.unblock }, nil))
	}
	ctx, cancel := context.WithCancel(context.Background())
	cancel()
	e.cancelled = ctx
	e.qpool = concurrent.NewPool("verif-c19-queue", 1, time.Minute,
		metrics.NewConcurrentStatistics("verif-c19-queue", linmetric.BrokerRegistry))
	return e
}

func (e *env) close() {
	close(e.unblock)
	e.qFree()
	e.qpool.Stop()
	e.full.Stop()
	e.pool.Stop()
}

// sigCtx is the context of a 'Z' stage: workerPool.Submit evaluates ctx.Done() when it enters its
// select, i.e. after the `p.Stopped()` check; the first call tells the harness that Submit is past
// that check. It is never done.
type sigCtx struct {
	context.Context
	once sync.Once
	sig  chan struct{}
}

func (c *sigCtx) Done() <-chan struct{} {
	c.once.Do(func() { close(c.sig) })
	return nil
}
func (c *sigCtx) Err() error { return nil }

var zPoolSeq atomic.Int64

// stopRacePool builds the pool of a 'Z' stage: 1 worker busy with a blocker, the dispatcher holding
// one filler, 8 fillers in the queue (full). When Submit of the stage's task is past its Stopped()
// check (sig) the pool is stopped and the worker freed; the last filler waits until the stage's task
// is in the queue behind it, so the drain (or the dispatcher) finds it.
func (r *runner) stopRacePool(n *node) (context.Context, concurrent.Pool) {
	// every pool needs statistics of its own: the worker accounting (WorkersAlive) lives there
	name := fmt.Sprintf("verif-c19-z-%d", zPoolSeq.Add(1))
	p := concurrent.NewPool(name, 1, time.Minute, metrics.NewConcurrentStatistics(name, linmetric.BrokerRegistry))
	free, started := make(chan struct{}), make(chan struct{})
	p.Submit(context.Background(), concurrent.NewTask(func() { close(started); <-free }, nil))
	<-started
	done := r.done
	for i := 0; i < 9; i++ {
		last := i == 8
		p.Submit(context.Background(), concurrent.NewTask(func() {
			if !last {
				return
			}
			// the last filler ends only when Submit of the stage's task has returned (the goroutine that
			// started the stage went on): the task is then in the queue, or already with the dispatcher
			select {
			case <-n.submitted:
			case <-done:
			case <-time.After(10 * time.Second):
			}
		}, nil))
	}
	n.submitted = make(chan struct{})
	ctx := &sigCtx{Context: context.Background(), sig: make(chan struct{})}
	go func() {
		select {
		case <-ctx.sig:
		case <-done: // the stage was never started
		}
		stopped := make(chan struct{})
		go func() { p.Stop(); close(stopped) }()
		// Stop() has set the stopped flag before it waits for the dispatcher; only then free the worker
		for !p.Stopped() {
			time.Sleep(10 * time.Microsecond)
		}
		close(free)
		<-stopped
	}()
	return ctx, p
}

type runner struct {
	c       *core.Ctx
	env     *env
	ctx     context.Context
	ev      chan event
	all     []*node
	pipe    query.Pipeline
	blocked map[int]*node // goroutine -> stage it is parked in front of
	nextThr int
	done    chan struct{} // closed at the end of the case
	pendArr int           // submitted tasks that have not reached their gate yet
	parked  int           // goroutines parked inside a Complete() hook: their Complete() was counted, their Dec is outstanding
	zWait   *node         // a 'Z' stage whose Submit has not been seen to return yet
	queuedN *node         // a 'Q' stage whose task was submitted and waits in the queue of the busy 1-worker pool
	o       obs
	failed  bool // some executed stage has failed or panicked so far
	mainEnded bool // the goroutine that called pipeline.Execute has returned
}

const evTimeout = 3 * time.Second

func (r *runner) mkStage(n *node) stage.Stage {
	spec := stage.VerifStageSpec{
		ID: "verif-stage-" + strconv.Itoa(n.id),
		PlanFn: func() stage.PlanNode {
			r.ev <- event{kind: "plan", n: n}
			if n.out == 'l' {
				panic(fmt.Sprintf("scripted panic in Plan() of stage %d", n.id))
			}
			if n.trackable {
				return stage.NewPlanNode(&gateOpT{gateOp{n: n, ev: r.ev, done: r.done}})
			}
			return stage.NewPlanNode(&gateOp{n: n, ev: r.ev, done: r.done})
		},
		NextFn: func() []stage.Stage {
			if n.out == 'n' {
				panic(fmt.Sprintf("scripted panic in NextStages() of stage %d", n.id))
			}
			var next []stage.Stage
			for _, c := range n.children {
				next = append(next, r.mkStage(c))
			}
			return next
		},
		CompleteFn: func() {
			r.ev <- event{kind: "complete", n: n}
			if n.cwait != nil {
				// parked inside the Complete() hook (the real code calls it under sm.mutex)
				select {
				case <-n.cwait:
				case <-r.done:
				}
			}
		},
	}
	switch {
	case n.stopRace:
		spec.Ctx, spec.Pool = r.stopRacePool(n)
	case n.queued:
		var qctx context.Context
		qctx, n.cancel = context.WithCancel(context.Background())
		spec.Ctx, spec.Pool = qctx, r.env.qpool
	case n.either:
		// a done context on the pool that has room: both cases of Submit's select are ready
		spec.Ctx, spec.Pool = r.env.cancelled, r.env.pool
	case n.rej == 'X':
		spec.Ctx, spec.Pool = r.ctx, r.env.stopped
	case n.rej == 'C':
		spec.Ctx, spec.Pool = r.env.cancelled, r.env.full
	case n.async:
		spec.Ctx, spec.Pool = r.ctx, r.env.pool
	}
	return &identStage{Stage: stage.NewVerifStage(spec), r: r, n: n}
}

// identStage only observes Identifier() (called inside sm.executeStage's critical section, right
// after pending.Inc()); everything else is the real stage.
type identStage struct {
	stage.Stage
	r *runner
	n *node
}

func (s *identStage) Identifier() string {
	s.r.ev <- event{kind: "ident", n: s.n}
	return s.Stage.Identifier()
}

func (r *runner) state() (int32, bool) {
	p, done, ok := query.VerifPipelineState(r.pipe)
	if !ok {
		return -999, false
	}
	return p, done
}

// settle consumes events until goroutine `running` is parked at a gate or has ended and every
// submitted task has reached its gate.
func (r *runner) settle(running int) { r.settleP(running, 0) }

// settleP is settle with a patience: when patience > 0 and no event arrives for that long the
// goroutine is taken to be blocked on sm.mutex (held by a goroutine parked in a Complete() hook) and
// settleP returns true.
func (r *runner) settleP(running int, patience time.Duration) (stalled bool) {
	runningDone := false
	limit := evTimeout
	if patience > 0 {
		limit = patience
	}
	timer := time.NewTimer(limit)
	defer timer.Stop()
	var waitingQ *node
	for {
		if runningDone && r.pendArr == 0 {
			if r.queuedN == nil {
				return false
			}
			// the launching goroutine is quiescent, so Submit has accepted the 'Q' stage's task and it
			// waits for the busy worker: cancel the stage's context, then free the worker
			waitingQ, r.queuedN = r.queuedN, nil
			waitingQ.cancel()
			// the sentinel runs on the single worker right after the stage's task: if it reports before the
			// stage reached its gate, the accepted task ended without executing the stage
			qn, ev, done := waitingQ, r.ev, r.done
			r.env.qpool.Submit(context.Background(), concurrent.NewTask(func() {
				select {
				case ev <- event{kind: "qdone", n: qn}:
				case <-done:
				}
			}, nil))
			r.env.qFree()
			r.pendArr++
		}
		var e event
		select {
		case e = <-r.ev:
			if patience > 0 {
				timer.Reset(limit)
			}
		case <-timer.C:
			if patience > 0 {
				return true
			}
			r.o.timeout = fmt.Sprintf("no event for %v while goroutine %d was running (pending arrivals %d)", evTimeout, running, r.pendArr)
			if !runningDone && running > 0 {
				// a pooled task ends with completeStage of its own stage (normally, through errHandle, or
				// through the pool's panic handler); this one went silent without it
				for _, n := range r.all {
					if n.async && n.thread == running && n.executed && n.ncomp == 0 {
						r.o.silent = n
					}
				}
			}
			if os.Getenv("LVH_DUMP") != "" {
				_ = pprof.Lookup("goroutine").WriteTo(os.Stderr, 2)
			}
			return false
		}
		if r.zWait != nil && !(e.kind == "plan" && e.n == r.zWait) {
			// the first event after a 'Z' stage's plan event comes from the goroutine that started it,
			// after Submit has returned
			close(r.zWait.submitted)
			r.zWait = nil
		}
		switch e.kind {
		case "ident":
			r.o.reg++
		case "plan":
			switch {
			case e.n.out == 'l':
				// Plan() panics on the goroutine that starts the stage; nothing is submitted
				e.n.thread = running
				e.n.executed = true
				r.failed = true
				r.o.panicked = append(r.o.panicked, e.n)
				r.o.threadPanic[running] = true
			case e.n.rej != 0:
				// the pool rejects the task: the stage never runs
				e.n.thread = -1
				r.failed = true
				r.o.rejected = append(r.o.rejected, e.n)
			case e.n.either:
				// accepted (its gate event follows, from a pool worker) or rejected (its Complete() follows at
				// once, on this goroutine): the number is taken back in the second case
				e.n.thread = r.nextThr
				r.nextThr++
				r.pendArr++
				e.n.eitherOpen = true
			case e.n.stopRace:
				e.n.thread = r.nextThr
				r.nextThr++
				r.pendArr++
				r.zWait = e.n
			case e.n.queued:
				e.n.thread = r.nextThr
				r.nextThr++
				r.queuedN = e.n
			case e.n.async:
				e.n.thread = r.nextThr
				r.nextThr++
				r.pendArr++
			default:
				e.n.thread = running
			}
		case "gate":
			if e.n.eitherOpen {
				e.n.eitherOpen = false
				r.c.Branch("submit-select-took-the-queue")
			}
			if e.n.async {
				if e.n == waitingQ {
					waitingQ = nil
				}
				r.pendArr--
				r.blocked[e.n.thread] = e.n
			} else {
				r.blocked[running] = e.n
				runningDone = true
			}
		case "complete":
			if e.n.eitherOpen {
				// completed without ever reaching its gate: Submit's select took `<-ctx.Done()` and the pool
				// called the task's handler (errHandle → completeStage) on the submitting goroutine
				e.n.eitherOpen = false
				r.c.Branch("submit-select-took-ctx-done")
				if e.n.thread != r.nextThr-1 {
					r.o.timeout = fmt.Sprintf("harness: stage #%d was rejected after later tasks had been numbered", e.n.id)
					return false
				}
				r.nextThr--
				e.n.thread = -1
				e.n.rej = 'r'
				r.pendArr--
				r.failed = true
				r.o.rejected = append(r.o.rejected, e.n)
			}
			r.o.done++
			e.n.ncomp++
			if r.o.cb == 0 {
				r.o.lastDone = e.n
			}
			if e.n.cwait != nil && e.n.thread == running {
				// parked inside its Complete() hook
				r.parked++
				runningDone = true
			} else if e.n.async && e.n.rej == 0 && e.n.out != 'l' && e.n.thread == running {
				// the task's own stage: completeStage is the last thing the task does.
				// Wait for its Dec (and the callback it may trigger).
				if !r.awaitDec() {
					return false
				}
				runningDone = true
			}
		case "callback":
			r.o.cb++
			r.o.cbErr = append(r.o.cbErr, e.err != nil)
			if r.o.cb == 1 {
				r.o.regAtCb, r.o.doneAtCb, r.o.failedAtCb = r.o.reg, r.o.done, r.failed
			}
		case "qdone":
			if e.n == waitingQ {
				// the accepted task never executed the stage
				r.pendArr--
				r.o.vanished = append(r.o.vanished, waitingQ)
				waitingQ = nil
			}
		case "maindone":
			r.mainEnded = true
			if running == 0 {
				runningDone = true
			}
		}
	}
}

// awaitDec waits until sm.pending shows the Dec of the completeStage call whose Complete() was
// just observed, and, when that Dec reached zero on a pipeline that was not completed before, for
// the callback.
func (r *runner) awaitDec() bool {
	want := int32(r.o.reg - r.o.done + r.parked)
	deadline := time.Now().Add(2 * time.Second)
	for {
		p, _ := r.state()
		if p == want {
			break
		}
		if time.Now().After(deadline) {
			r.o.timeout = fmt.Sprintf("pending stayed %d, expected %d after a stage's Complete()", p, want)
			return false
		}
		time.Sleep(20 * time.Microsecond)
	}
	if want != 0 || r.o.cb > 0 {
		return true
	}
	// pending reached zero: complete() runs the CAS and the callback synchronously
	cbDeadline := time.After(2 * time.Second)
	for {
		select {
		case e := <-r.ev:
			switch e.kind {
			case "callback":
				r.o.cb++
				r.o.cbErr = append(r.o.cbErr, e.err != nil)
				r.o.regAtCb, r.o.doneAtCb, r.o.failedAtCb = r.o.reg, r.o.done, r.failed
				return true
			case "qdone":
				// the sentinel behind a 'Q' stage's task: that task has ended, nothing to do with the callback
				continue
			}
			r.o.timeout = "unexpected event " + e.kind + " while waiting for the callback"
			return false
		case <-cbDeadline:
			// pending is zero, completed was false, yet no callback: observed as such
			return true
		}
	}
}

func (r *runner) status() string {
	var ids []int
	for k := range r.blocked {
		ids = append(ids, k)
	}
	sort.Ints(ids)
	ss := make([]string, len(ids))
	for i, k := range ids {
		ss[i] = strconv.Itoa(k)
	}
	p, _ := r.state()
	return fmt.Sprintf("gates=%s pending=%d cb=%d arg=%s", strings.Join(ss, ","), p, r.o.cb, r.arg())
}

func (r *runner) arg() string {
	if r.o.cb == 0 {
		return "-"
	}
	if r.o.cbErr[0] {
		return "err"
	}
	return "nil"
}

func (r *runner) final() string {
	after := "-"
	if r.o.cb > 0 {
		if r.o.doneAtCb == r.o.regAtCb && r.o.reg == r.o.regAtCb {
			after = "all"
		} else {
			after = "early"
		}
	}
	idle := "yes"
	if len(r.blocked) > 0 || r.o.timeout != "" {
		idle = "no"
	}
	p, _ := r.state()
	return fmt.Sprintf("cb=%d arg=%s after=%s reg=%d fin=%d pending=%d idle=%s", r.o.cb, r.arg(), after, r.o.reg, r.o.done, p, idle)
}

// run executes one pipeline case. sched == nil: goroutines are released in random order (rng);
// otherwise in the given order.
// burstMark in the list of used releases: every goroutine was released at once
const burstMark = -1 << 30

func runPipeline(c *core.Ctx, en *env, root *node, rng *rand.Rand, sched []int) (*runner, []int) {
	return runPipelineB(c, en, root, rng, sched, false)
}

// burst opens every gate at once: all goroutines run freely, so the tails of completeStage
// (Unlock → pending.Dec → CAS → callback) of different stages really race on the real code. Used with
// trees whose final observation does not depend on the schedule. Ends when the callback has fired,
// pipeline.Execute has returned and every registered stage was completed — or after evTimeout.
func (r *runner) burst() {
	for k, n := range r.blocked {
		delete(r.blocked, k)
		r.noteExecuted(n, k)
	}
	for _, n := range r.all {
		select {
		case n.gate <- struct{}{}:
		default:
		}
	}
	timer := time.NewTimer(evTimeout)
	defer timer.Stop()
	handle := func(e event) {
		switch e.kind {
		case "ident":
			r.o.reg++
		case "plan":
			switch {
			case e.n.out == 'l':
				e.n.executed = true
				r.failed = true
				r.o.panicked = append(r.o.panicked, e.n)
			case e.n.rej != 0:
				r.failed = true
				r.o.rejected = append(r.o.rejected, e.n)
			case e.n.async:
				e.n.thread = r.nextThr
				r.nextThr++
			}
		case "gate":
			r.noteExecuted(e.n, e.n.thread)
		case "complete":
			r.o.done++
			e.n.ncomp++
			if r.o.cb == 0 {
				r.o.lastDone = e.n
			}
		case "callback":
			r.o.cb++
			r.o.cbErr = append(r.o.cbErr, e.err != nil)
			if r.o.cb == 1 {
				r.o.regAtCb, r.o.doneAtCb, r.o.failedAtCb = r.o.reg, r.o.done, r.failed
			}
		case "maindone":
			r.mainEnded = true
		}
	}
	for !(r.mainEnded && r.o.cb > 0 && r.o.done >= r.o.reg) {
		select {
		case e := <-r.ev:
			handle(e)
		case <-timer.C:
			p, _ := r.state()
			r.o.timeout = fmt.Sprintf("burst: after %v: callbacks %d, stages registered %d, completed %d, sm.pending %d, pipeline.Execute returned %v",
				evTimeout, r.o.cb, r.o.reg, r.o.done, p, r.mainEnded)
			return
		}
	}
	// a second callback of a broken CAS, or a late completion, would follow at once
	grace := time.After(300 * time.Microsecond)
	for {
		select {
		case e := <-r.ev:
			handle(e)
			continue
		case <-grace:
		}
		break
	}
}

func (r *runner) noteExecuted(n *node, thread int) {
	n.executed = true
	if n.out != 'o' {
		r.failed = true
	}
	if n.out == 'p' || n.out == 'n' {
		r.o.panicked = append(r.o.panicked, n)
		r.o.threadPanic[thread] = true
	}
}

func runPipelineB(c *core.Ctx, en *env, root *node, rng *rand.Rand, sched []int, burst bool) (*runner, []int) {
	all := number(root)
	r := &runner{c: c, env: en, ctx: context.Background(), ev: make(chan event, 4096), all: all,
		blocked: map[int]*node{}, nextThr: 1, done: make(chan struct{})}
	r.o.threadPanic = map[int]bool{}
	taskCtx := flow.NewTaskContextWithTimeout(context.Background(), time.Minute)
	defer taskCtx.Release()
	r.pipe = query.NewExecutePipeline(trackerpkg.NewStageTracker(taskCtx), func(err error) {
		r.ev <- event{kind: "callback", err: err}
	})
	rootStage := r.mkStage(root)
	root.thread = 0
	// before anything runs: the worker of the 1-worker pool must be busy when a 'Q' stage is submitted
	for _, n := range all {
		if n.queued {
			r.env.qBlock()
		}
	}
	go func() {
		defer func() {
			if x := recover(); x != nil {
				// a panic escaping pipeline.Execute (it has its own recover) would be a finding of its own
				r.ev <- event{kind: "callback", err: fmt.Errorf("ESCAPED PANIC %v", x)}
			}
			r.ev <- event{kind: "maindone"}
		}()
		r.pipe.Execute(rootStage)
	}()
	// the op lines are written at the end of the case: the `new` line names, for every 'R' stage, the case
	// Submit's select took (known only once the stage was launched)
	type opLine struct{ op, out string }
	var lines []opLine
	emit := func(op, out string) { lines = append(lines, opLine{op, out}) }
	flush := func() {
		for i, l := range lines {
			if i == 0 {
				l.op = "new " + tokens(root)
			}
			c.Op(l.op, l.out)
		}
	}
	emit("new", func() string { r.settle(0); return r.status() }())
	var used []int
	if burst {
		if r.o.timeout == "" {
			r.burst()
			emit("burst", r.status())
		}
		emit("end", r.final())
		flush()
		close(r.done)
		return r, []int{burstMark}
	}
	// release: goroutine k leaves the gate in front of its stage's execution
	release := func(k int) *node {
		n := r.blocked[k]
		delete(r.blocked, k)
		n.executed = true
		if n.out != 'o' {
			r.failed = true
		}
		if n.out == 'p' || n.out == 'n' {
			r.o.panicked = append(r.o.panicked, n)
			r.o.threadPanic[k] = true
		}
		n.gate <- struct{}{}
		return n
	}
	cwinOK := func(a int) bool {
		n := r.blocked[a]
		return n != nil && n.async && n.rej == 0 && !n.queued && !n.either && n.out == 'o' && len(n.children) == 0
	}
	didCwin := false
	for step := 0; len(r.blocked) > 0 && r.o.timeout == ""; step++ {
		var k int
		cwA, cwB := -1, -1
		var ids []int
		for id := range r.blocked {
			ids = append(ids, id)
		}
		sort.Ints(ids)
		if sched != nil {
			if step >= len(sched) {
				break
			}
			k = sched[step]
			if k < 0 {
				cwA, cwB = (-k-1)/1000, (-k-1)%1000
				k = cwA
			}
			if _, ok := r.blocked[k]; !ok || (cwA >= 0 && (r.blocked[cwB] == nil || !cwinOK(cwA))) {
				r.o.timeout = fmt.Sprintf("scripted schedule releases goroutine %d which is not parked", k)
				break
			}
		} else {
			k = ids[rng.Intn(len(ids))]
			if !didCwin && len(ids) >= 2 && cwinOK(k) && rng.Intn(4) == 0 {
				cwA = k
				for cwB = k; cwB == k; {
					cwB = ids[rng.Intn(len(ids))]
				}
			}
		}
		if cwA >= 0 {
			// the window inside completeStage: A (a successful pooled leaf stage) parks inside its
			// Complete() hook; B is released and runs as far as it can (in the source as it is the hook
			// runs under sm.mutex, so B stalls at its next critical section); then A goes on.
			didCwin = true
			c.Branch("complete-hook-window")
			used = append(used, -(cwA*1000 + cwB + 1))
			a := r.blocked[cwA]
			a.cwait = make(chan struct{})
			release(cwA)
			r.settle(cwA) // until A is inside Complete()
			if r.o.timeout != "" {
				close(a.cwait)
				break
			}
			release(cwB)
			stalled := r.settleP(cwB, 4*time.Millisecond)
			if stalled {
				c.Branch("complete-hook-window-other-stage-stalled-on-mutex")
			}
			r.parked--
			close(a.cwait)
			if stalled {
				r.settle(cwB)
			}
			if r.o.timeout == "" {
				r.awaitDec() // A's Dec (and everybody else's)
			}
			emit(fmt.Sprintf("cwin %d %d", cwA, cwB), r.status())
			continue
		}
		used = append(used, k)
		release(k)
		r.settle(k)
		emit("rel "+strconv.Itoa(k), r.status())
	}
	if r.o.cb == 0 && r.o.timeout == "" {
		// nothing is running any more; a callback cannot arrive. Look once more, briefly.
		select {
		case e := <-r.ev:
			if e.kind == "callback" {
				r.o.cb++
				r.o.cbErr = append(r.o.cbErr, e.err != nil)
				r.o.regAtCb, r.o.doneAtCb, r.o.failedAtCb = r.o.reg, r.o.done, r.failed
			}
		case <-time.After(3 * time.Millisecond):
		}
	}
	// a second callback would arrive synchronously with the events already consumed; drain anyway
	for drained := false; !drained; {
		select {
		case e := <-r.ev:
			if e.kind == "callback" {
				r.o.cb++
				r.o.cbErr = append(r.o.cbErr, e.err != nil)
			}
		default:
			drained = true
		}
	}
	emit("end", r.final())
	flush()
	// never leave a goroutine parked
	close(r.done)
	for _, n := range all {
		select {
		case n.gate <- struct{}{}:
		default:
		}
	}
	return r, used
}

// ---------------------------------------------------------------- the property, evaluated on the implementation

// completedWithErr reports whether the completeStage call that completed n carried an error, as
// the real state machine recorded it in the stage statistics (State/ErrMsg are written in
// completeStage's critical section). Called when nothing is running any more.
func (r *runner) completedWithErr(n *node) bool {
	want := "verif-stage-" + strconv.Itoa(n.id)
	found, withErr := false, false
	var walk func(l []*commonmodels.StageStats)
	walk = func(l []*commonmodels.StageStats) {
		for _, st := range l {
			if st.Identifier == want {
				found, withErr = true, st.ErrMsg != ""
			}
			walk(st.Children)
		}
	}
	walk(r.pipe.Stats())
	if !found {
		return n.out != 'o'
	}
	return withErr
}

func trackables(root *node) string {
	var ids []string
	preorder(root, func(n *node) {
		if n.trackable {
			ids = append(ids, strconv.Itoa(n.id))
		}
	})
	if len(ids) == 0 {
		return ""
	}
	return " (operators with Stats(): #" + strings.Join(ids, ",#") + ")"
}

func describe(root *node, used []int) string {
	ss := make([]string, len(used))
	for i, k := range used {
		if k == burstMark {
			ss[i] = "all goroutines released at once"
			continue
		}
		if k < 0 {
			ss[i] = fmt.Sprintf("cwin(%d,%d)", (-k-1)/1000, (-k-1)%1000)
		} else {
			ss[i] = strconv.Itoa(k)
		}
	}
	return fmt.Sprintf("tree [%s]%s release order [%s]", tokens(root), trackables(root), strings.Join(ss, " "))
}

// oracle evaluates C19 on what the real pipeline did. witness != "": the case is the fixed witness
// of a recorded finding; the recorded shape is reported under the witness' own key.
func (r *runner) oracle(c *core.Ctx, root *node, used []int, witness string) {
	o := &r.o
	what := describe(root, used)
	if o.timeout != "" && o.silent != nil {
		how := "executed"
		switch o.silent.out {
		case 'p':
			how = "panicked in its execution"
		case 'n':
			how = "panicked in NextStages() (in its completion handler, on the pool worker)"
		case 'e':
			how = "failed"
		}
		c.Fail("no-callback-pooled-stage-never-completed", fmt.Sprintf("%s: pooled stage #%d %s and its task ended without the stage being completed (neither by the completion handler, nor by errHandle, nor by the pool's panic handler): pending stays > 0, completion is never signalled",
			what, o.silent.id, how))
		return
	}
	if strings.HasPrefix(o.timeout, "pending stayed") {
		c.Fail("pending-is-not-started-minus-completed", what+": sm."+o.timeout+" (stages registered minus stages completed)")
		return
	}
	if strings.HasPrefix(o.timeout, "burst:") {
		k := "burst-stages-not-completed"
		if o.cb == 0 {
			k = "burst-no-callback"
		}
		c.Fail(k, what+": "+o.timeout)
		return
	}
	if o.timeout != "" {
		c.Fail("harness-timeout", what+": "+o.timeout)
		return
	}
	// a fixed witness reports under its own key only the shape it was recorded for
	key := func(region string) string {
		if witness == "" {
			return region
		}
		wregion := "error-lost-last-finisher-ok"
		switch {
		case strings.HasPrefix(witness, "witness-sync-panic"):
			wregion = "no-callback-sync-panic-on-pooled-goroutine"
		case strings.HasPrefix(witness, "witness-rejected"):
			wregion = "no-callback-task-rejected-by-pool"
		}
		if wregion == region {
			return witness
		}
		return region
	}
	if o.cb > 1 {
		c.Fail("callback-more-than-once", fmt.Sprintf("%s: completion callback fired %d times", what, o.cb))
	}
	for _, n := range r.all {
		if n.ncomp > 1 {
			c.Fail("stage-completed-more-than-once", fmt.Sprintf("%s: stage #%d was completed %d times (its task was both rejected and executed?)", what, n.id, n.ncomp))
			break
		}
	}
	if p, _ := r.state(); p < 0 {
		c.Fail("pending-negative", fmt.Sprintf("%s: sm.pending ended at %d", what, p))
	}
	anyPanic := len(o.panicked) > 0
	if o.cb == 0 {
		// "never none"
		inRegionB := false
		for _, n := range o.panicked {
			if !n.async && n.thread != 0 {
				inRegionB = true
			}
		}
		switch {
		case len(o.vanished) > 0:
			c.Fail("no-callback-cancelled-while-queued", fmt.Sprintf("%s: the task of pooled stage #%d was accepted by the pool, the stage's context was cancelled before a worker picked it up, and the task returned without completing the stage; completion is never signalled",
				what, o.vanished[0].id))
		case len(o.rejected) > 0:
			c.Fail(key("no-callback-task-rejected-by-pool"), fmt.Sprintf("%s: the pool rejected the task of pooled stage #%d (stopped pool / cancelled context) without telling anybody; the stage stays registered (pending>0) and completion is never signalled",
				what, o.rejected[0].id))
		case !anyPanic:
			c.Fail("no-callback-without-panic", what+": no stage panicked, every goroutine ended, completion was never signalled")
		case inRegionB:
			c.Fail(key("no-callback-sync-panic-on-pooled-goroutine"),
				what+": a synchronous stage panicked inside a pooled parent's completion handler; it stays registered (pending>0) and completion is never signalled")
		default:
			c.Fail("no-callback-after-recovered-panic", what+": panics only where the code recovers them, yet completion was never signalled")
		}
		return
	}
	if !anyPanic && !(o.doneAtCb == o.regAtCb && o.reg == o.regAtCb) {
		c.Fail("callback-before-all-finished", fmt.Sprintf("%s: no stage panicked but the callback fired with %d of %d started stages finished (%d started in total)",
			what, o.doneAtCb, o.regAtCb, o.reg))
	}
	if o.failedAtCb && !o.cbErr[0] {
		// the Dec path fires only at pending == 0, i.e. with every started stage finished; an
		// earlier callback comes from pipeline.Execute's recover
		viaRecover := o.doneAtCb < o.regAtCb
		switch {
		case viaRecover:
			c.Fail("error-lost-after-toplevel-panic", what+": the callback fired from pipeline.Execute's recover, its argument is nil")
		case o.lastDone != nil && !r.completedWithErr(o.lastDone):
			c.Fail(key("error-lost-last-finisher-ok"), fmt.Sprintf("%s: a stage failed, the stage that completed last (#%d) succeeded, callback argument is nil", what, o.lastDone.id))
		default:
			c.Fail("error-lost-last-finisher-failed", fmt.Sprintf("%s: a stage had failed (the last Complete() before the callback was stage #%d's, which failed itself), callback argument is nil", what, o.lastDone.id))
		}
	}
}

// ---------------------------------------------------------------- fixed witnesses

type fixedCase struct {
	tree    string
	sched   []int
	witness string // known-finding key for the recorded shape ("" = must pass)
}

var fixed = []fixedCase{
	// (a) pooled sibling 1 fails and completes first, sibling 2 succeeds and completes last
	{"So(Ae,Ao)", []int{0, 1, 2}, "witness-fail-first-ok-last"},
	// same tree, reverse completion order: the error is reported
	{"So(Ae,Ao)", []int{0, 2, 1}, ""},
	// (a) without concurrency: a synchronous child fails, its synchronous parent completes last with nil
	{"So(Se)", []int{0, 0}, "witness-sync-child-error-lost"},
	// (b) a synchronous stage panics inside a pooled parent's completion handler
	{"So(Ao(Sp))", []int{0, 1, 1}, "witness-sync-panic-under-pooled-parent"},
	// a pooled stage's own task panics: recovered by execTask, completed through errHandle
	{"So(Ap,Ao)", []int{0, 2, 1}, ""},
	// a synchronous stage panics on the goroutine of pipeline.Execute while a pooled sibling still runs
	{"So(Ao,Sp)", []int{0, 0, 1}, ""},
	// lindb's leaf shape, every stage succeeds
	{"So(Ao(Ao(Ao)),Ao(Ao))", []int{0, 2, 1, 3, 4, 5}, ""},
	// operators that also implement Stats() (planNode.ExecuteWithStats' trackable branch): a failing one
	// and a panicking one must still fail their stage
	{"So(Ae*,Ao*)", []int{0, 1, 2}, ""},
	{"So*(Se*)", []int{0, 0}, ""},
	{"So(Ap*,Ao)", []int{0, 2, 1}, ""},
	// Plan() of a pooled non-root stage panics inline, before it is submitted; a sibling follows
	{"So(Al,Ao)", []int{0, 1}, ""},
	// … under a pooled parent
	{"So(Ao(Al,So))", []int{0, 1, 1}, ""},
	// Plan() of the root panics: pooled root, synchronous root
	{"Al", []int{}, ""},
	{"Sl(So)", []int{}, ""},
	// Plan() of a synchronous non-root stage panics, under a synchronous and under a pooled parent
	{"So(Sl,Ao)", []int{0, 1}, ""},
	{"So(Ao(Sl,Se))", []int{0, 1, 1}, ""},
	// NextStages() panics: synchronous root, pooled non-root, synchronous stage under a pooled parent
	{"Sn(So)", []int{0}, ""},
	{"So(An(So),Ao)", []int{0, 2, 1}, ""},
	{"So(Ao(Sn(So)))", []int{0, 1, 1}, ""},
	// the window inside completeStage: a successful stage is inside its Complete() hook (and last to
	// decrement pending) while another stage fails and completes
	{"So(Ao,Ae)", []int{0, -(1*1000 + 2 + 1)}, ""},
	{"So(Ao,Ao(Se))", []int{0, -(1*1000 + 2 + 1), 2}, ""},
	{"Ao(Ao,Ap,Ao)", []int{1, -(2*1000 + 3 + 1), 4}, ""},
	// the query context is cancelled after Pool.Submit accepted the stage's task and before a worker
	// picks it up: the stage still has to be executed or completed with an error
	{"So(Qo)", []int{0, 1}, ""},
	{"So(Ao(Qe),Ao)", []int{0, 1, 3, 2}, ""},
	// Pool.Stop() races a Submit that is blocked on the full queue: the task is executed by the drain,
	// exactly once, and never rejected as well
	{"So(Zo)", []int{0, 1}, ""},
	{"So(Ao(Ze,Ao),Ao)", []int{0, 1, 2, 3, 4}, ""},
	// Submit with a done context while the queue has room: the select takes either case (random release
	// order: which goroutines exist depends on the choice); exactly one completion whichever it was
	{"So(Ro)", nil, ""},
	{"So(Ro(Ao),Re)", nil, ""},
	{"Ro(Ro,Ao)", nil, ""},
	// (c) the pool rejects the task of a registered stage: stopped pool / cancelled context
	{"So(Xo)", []int{0}, "witness-rejected-task-stopped-pool"},
	{"So(Ao(Co,Ae))", []int{0, 1, 2}, "witness-rejected-task-cancelled-context"},
}

// ---------------------------------------------------------------- LeafExecuteContext.SendResponse

type capStream struct {
	protoCommonV1.TaskService_HandleServer
	sent []string
}

func (s *capStream) Send(resp *protoCommonV1.TaskResponse) error {
	if resp.ErrMsg != "" {
		s.sent = append(s.sent, "err")
	} else {
		s.sent = append(s.sent, "nil")
	}
	return nil
}

func runLeaf(c *core.Ctx, rng *rand.Rand) {
	c.Branch("leaf-send-response")
	taskCtx := flow.NewTaskContextWithTimeout(context.Background(), time.Minute)
	fct := rpc.NewTaskServerFactory()
	st := &capStream{}
	fct.Register("root-1", st)
	leaf := querycontext.NewLeafExecuteContext(taskCtx, trackerpkg.NewStageTracker(taskCtx), &stmt.Query{},
		&protoCommonV1.TaskRequest{RequestID: "verif"}, fct, &models.Target{}, []string{"root-1"}, nil)
	c.Op("leaf-new", "ok")
	calls := 1 + rng.Intn(4)
	for i := 0; i < calls; i++ {
		arg := "err"
		var err error = errScripted
		if rng.Intn(3) == 0 {
			arg, err = "nil", nil
		}
		before := len(st.sent)
		c.Guard("leaf-send "+arg, func() string {
			leaf.SendResponse(err)
			return fmt.Sprintf("sent=%d responses=[%s]", len(st.sent)-before, strings.Join(st.sent, " "))
		})
	}
	if len(st.sent) != 1 {
		c.Fail("leaf-responses-not-one", fmt.Sprintf("%d SendResponse calls produced %d responses", calls, len(st.sent)))
	}
	c.NonTrivial()
}

// ---------------------------------------------------------------- area

func (area) Run(c *core.Ctx) error {
	pool := newEnv()
	defer pool.close()
	maxNodes := 9
	if c.Tier == "thorough" {
		maxNodes = 14
	}
	timeouts := 0
	for i := 0; i < c.N; i++ {
		if !c.Want(i) {
			continue
		}
		if timeouts >= 4 {
			// the implementation stopped following the protocol (each such case costs seconds and
			// leaves goroutines behind); three recorded failures are enough to decide
			c.Note("aborted after 4 cases in which the implementation stopped following the protocol")
			break
		}
		rng := c.Rng(i)
		c.Begin(i)
		if i < len(fixed) {
			f := fixed[i]
			root := tree(f.tree)
			c.Branch("fixed-witness")
			r, used := runPipeline(c, pool, root, rng, f.sched)
			r.oracle(c, root, used, f.witness)
			if r.o.timeout != "" || len(r.o.vanished) > 0 {
				timeouts++
			}
			c.NonTrivial()
			continue
		}
		if j := i - len(fixed); j < len(hookFixed) {
			runHookWitness(c, hookFixed[j])
			continue
		}
		if j := i - len(fixed) - len(hookFixed); j >= 0 && j < 2 {
			// round 12: the pool's queue, saturated (12 tasks behind the blocker) and not (5)
			runPoolQueue(c, rng, []int{12, 5}[j])
			continue
		}
		if i%10 == 9 {
			runLeaf(c, rng)
			continue
		}
		if i%20 == 13 {
			runPlanExec(c, peGen(rng))
			continue
		}
		if i%50 == 4 {
			// round 12: several tasks in the real pool's queue, saturation, cancellation between Submit and dequeue
			runPoolQueue(c, rng, 0)
			continue
		}
		if i%50 == 7 {
			// random order of 1-5 pooled stages, each Complete() hook panics with probability 1/3
			var sb strings.Builder
			for k, n := 0, 1+rng.Intn(5); k < n; k++ {
				if rng.Intn(3) == 0 {
					sb.WriteByte('p')
				} else {
					sb.WriteByte('o')
				}
			}
			runHookWitness(c, sb.String())
			continue
		}
		kind := genKind(0)
		switch x := rng.Intn(100); {
		case x < 30:
			kind = genNoPanic
		case x < 40:
			kind = genRecoverable
		case x < 75:
			kind = genAny
		case x < 90:
			kind = genLindbShape
		default:
			kind = genReject
		}
		burst := rng.Intn(6) == 0
		mn := maxNodes
		if burst {
			mn = 14 // wide trees: more tails of completeStage racing
		}
		root := genTree(rng, kind, mn)
		if burst {
			// every goroutine is released at once; only stage kinds that need no orchestration
			preorder(root, func(n *node) {
				n.queued, n.stopRace, n.either = false, false, false
				if n.rej == 'C' {
					n.rej = 'X'
				}
			})
			c.Branch("burst-all-goroutines-released-at-once")
		}
		c.Branch([]string{"gen-no-panic", "gen-recoverable-panics", "gen-any-panic", "gen-lindb-shape", "gen-rejected-tasks"}[kind])
		r, used := runPipelineB(c, pool, root, rng, nil, burst)
		r.oracle(c, root, used, "")
		if r.o.timeout != "" || len(r.o.vanished) > 0 {
			timeouts++
		}
		// distribution
		nAsync, nExec := 0, 0
		for _, n := range r.all {
			if n.async {
				nAsync++
			}
			if n.executed {
				nExec++
			}
		}
		c.Branch(fmt.Sprintf("callbacks-%d", r.o.cb))
		if r.o.cb > 0 {
			c.Branch("callback-arg-" + r.arg())
		}
		if len(r.o.panicked) > 0 {
			c.Branch("run-with-panic")
		}
		for _, n := range r.o.panicked {
			switch n.out {
			case 'l':
				c.Branch("panic-in-Plan")
			case 'n':
				c.Branch("panic-in-NextStages")
			default:
				c.Branch("panic-in-execution")
			}
		}
		if len(r.o.rejected) > 0 {
			c.Branch("task-rejected-by-pool")
		}
		if r.failed {
			c.Branch("run-with-failure")
		}
		switch {
		case len(r.all) <= 2:
			c.Branch("size-1-2")
		case len(r.all) <= 5:
			c.Branch("size-3-5")
		default:
			c.Branch("size-6+")
		}
		if nAsync >= 2 {
			c.Branch("two-or-more-pooled-stages")
		}
		// non-trivial: at least two stages ran and at least one of them on a pool worker
		if nExec >= 2 && r.nextThr > 1 {
			c.NonTrivial()
		}
	}
	return nil
}
