package c19

// The worker pool's queue between Submit and the execution of a task, with several tasks at once
// (round 12; Model/C19PoolQueue.lean, op `poolq`): real concurrent.Pool with ONE worker, every task is
// a real baseStage (stage.NewVerifStage) whose real Execute hands the real closure to the pool.
//
//   task 0 parks on the worker (blocker), task 1 is taken by the dispatcher, tasks 2..9 fill the
//   channel (tasksCapacity = 8), tasks 10.. block inside Submit's select (saturation). Then a random
//   subset of the contexts is cancelled — while the task waits in the channel, while the dispatcher
//   holds it, while its Submit is blocked (⇒ rejected) — or was cancelled before a Submit that meets
//   the full channel (⇒ rejected at once). The blocker is released, the blocked Submits go through, a
//   sentinel task submitted behind everything tells that every earlier task has been consumed.
//
// Only positive signals decide (Submit returned / reached its select, the sentinel ran); timeouts
// exist only to turn a hang of the implementation into a reported failure.
// Oracle: every task whose Submit was called completes its stage (completeHandle or errHandle)
// exactly once; a rejected task is not executed; ok ⇒ completeHandle, error / panic / rejection ⇒ errHandle.

import (
	"context"
	"fmt"
	"math/rand"
	"strings"
	"sync"
	"sync/atomic"
	"time"

	"github.com/lindb/lindb/internal/concurrent"
	"github.com/lindb/lindb/internal/linmetric"
	"github.com/lindb/lindb/metrics"
	"github.com/lindb/lindb/query/stage"

	"github.com/lindb/lindb/zzverif/internal/core"
)

var pqSeq atomic.Int64

const pqWait = 5 * time.Second

// pqCtx tells when Submit evaluates ctx.Done(), i.e. has passed the Stopped() check and enters its select.
type pqCtx struct {
	context.Context
	once sync.Once
	sig  chan struct{}
}

func (c *pqCtx) Done() <-chan struct{} {
	c.once.Do(func() { close(c.sig) })
	return c.Context.Done()
}

type pqTask struct {
	id        int
	res       byte // 'o' ok, 'e' error, 'p' panic
	ctx       *pqCtx
	cancel    context.CancelFunc
	cancelled string // "", "pre", "queued", "blocked"
	started   atomic.Int32
	okCalls   atomic.Int32
	errCalls  atomic.Int32
	returned  chan struct{} // Execute (Submit) returned
	park      chan struct{} // task 0 only
	parked    chan struct{}
}

type pqOp struct{ t *pqTask }

func (o *pqOp) Identifier() string { return fmt.Sprintf("verif-poolq-op-%d", o.t.id) }
func (o *pqOp) Execute() error {
	o.t.started.Add(1)
	if o.t.park != nil {
		close(o.t.parked)
		<-o.t.park
	}
	switch o.t.res {
	case 'e':
		return errScripted
	case 'p':
		panic("scripted panic of a pooled task")
	}
	return nil
}

func pqWaitFor(ch <-chan struct{}) bool {
	select {
	case <-ch:
		return true
	case <-time.After(pqWait):
		return false
	}
}

func runPoolQueue(c *core.Ctx, rng *rand.Rand, kFixed int) {
	c.Branch("poolq")
	name := fmt.Sprintf("verif-c19-pq-%d", pqSeq.Add(1))
	pool := concurrent.NewPool(name, 1, time.Minute, metrics.NewConcurrentStatistics(name, linmetric.BrokerRegistry))
	k := 1 + rng.Intn(12) // tasks 1..k behind the blocker; 10.. meet the full channel
	if kFixed > 0 {
		k = kFixed
	}
	n := k + 1
	tasks := make([]*pqTask, n)
	for i := range tasks {
		ctx, cancel := context.WithCancel(context.Background())
		t := &pqTask{id: i, res: 'o', cancel: cancel, returned: make(chan struct{}),
			ctx: &pqCtx{Context: ctx, sig: make(chan struct{})}}
		switch x := rng.Intn(10); {
		case x < 2:
			t.res = 'e'
		case x < 4:
			t.res = 'p'
		}
		tasks[i] = t
	}
	tasks[0].park, tasks[0].parked = make(chan struct{}), make(chan struct{})
	defer func() {
		for _, t := range tasks {
			t.cancel()
		}
	}()
	released := false
	release := func() {
		if !released {
			released = true
			close(tasks[0].park)
		}
	}
	var toks []string
	what := func() string {
		var sb []string
		for _, t := range tasks {
			s := fmt.Sprintf("#%d:%c", t.id, t.res)
			if t.cancelled != "" {
				s += "/cancelled-" + t.cancelled
			}
			sb = append(sb, s)
		}
		return fmt.Sprintf("1-worker pool, task #0 parked on the worker, #1 with the dispatcher, #2..#9 in the channel, #10.. blocked in Submit [%s]", strings.Join(sb, " "))
	}
	abort := func(why string) {
		c.Fail("pool-queue-harness-timeout", what()+": "+why)
		release()
		go pool.Stop()
	}
	submit := func(t *pqTask) {
		st := stage.NewVerifStage(stage.VerifStageSpec{Ctx: t.ctx, Pool: pool, ID: fmt.Sprintf("verif-poolq-%d", t.id)})
		go func() {
			defer close(t.returned)
			st.Execute(stage.NewPlanNode(&pqOp{t: t}), func() { t.okCalls.Add(1) }, func(error) { t.errCalls.Add(1) })
		}()
	}
	show := func() string {
		out := make([]string, n)
		for i, t := range tasks {
			done := t.okCalls.Load() + t.errCalls.Load()
			ret := false
			select {
			case <-t.returned:
				ret = true
			default:
			}
			switch {
			case done > 0 && t.started.Load() > 0:
				out[i] = fmt.Sprintf("x%d", done)
			case done > 0:
				out[i] = fmt.Sprintf("j%d", done)
			case ret:
				out[i] = "r0"
			default:
				out[i] = "b0"
			}
		}
		return "tasks=[" + strings.Join(out, " ") + "]"
	}

	// the blocker
	submit(tasks[0])
	if !pqWaitFor(tasks[0].returned) || !pqWaitFor(tasks[0].parked) {
		abort("the first task of an idle pool did not start")
		return
	}
	toks = append(toks, "s0", "c0", "n0", "t")
	// accepted tasks: the dispatcher takes #1, #2..#9 stay in the channel
	for i := 1; i <= k && i <= 9; i++ {
		submit(tasks[i])
		if !pqWaitFor(tasks[i].returned) {
			abort(fmt.Sprintf("Submit of task #%d did not return although the channel has room", i))
			return
		}
		toks = append(toks, fmt.Sprintf("s%d", i), fmt.Sprintf("c%d", i), fmt.Sprintf("n%d", i))
		if i == 1 {
			toks = append(toks, "t")
		}
	}
	// Submits that meet the full channel
	for i := 10; i <= k; i++ {
		t := tasks[i]
		if rng.Intn(4) == 0 {
			// context done before the Submit: only <-ctx.Done() is ready
			t.cancel()
			t.cancelled = "pre"
			c.Branch("poolq-context-done-before-submit-on-full-channel")
			submit(t)
			if !pqWaitFor(t.returned) {
				abort(fmt.Sprintf("Submit of task #%d with a done context on the full channel did not return", i))
				return
			}
			toks = append(toks, fmt.Sprintf("k%d", i), fmt.Sprintf("s%d", i), fmt.Sprintf("c%d", i), fmt.Sprintf("j%d", i))
			continue
		}
		c.Branch("poolq-submit-blocked-on-full-channel")
		submit(t)
		if !pqWaitFor(t.ctx.sig) {
			abort(fmt.Sprintf("Submit of task #%d did not reach its select", i))
			return
		}
		toks = append(toks, fmt.Sprintf("s%d", i), fmt.Sprintf("c%d", i))
	}
	// cancellations between Submit and the dequeue / while the Submit is blocked
	for i := 1; i <= k; i++ {
		t := tasks[i]
		if t.cancelled != "" || rng.Intn(2) == 0 {
			continue
		}
		t.cancel()
		toks = append(toks, fmt.Sprintf("k%d", i))
		if i <= 9 {
			t.cancelled = "queued"
			c.Branch("poolq-cancelled-between-submit-and-dequeue")
			continue
		}
		t.cancelled = "blocked"
		c.Branch("poolq-cancelled-while-submit-blocked")
		if !pqWaitFor(t.returned) {
			abort(fmt.Sprintf("the blocked Submit of task #%d did not return after its context was cancelled", i))
			return
		}
		toks = append(toks, fmt.Sprintf("j%d", i))
	}
	head := fmt.Sprintf("poolq 2 %d ", n)
	c.Op(head+strings.Join(toks, " "), show()+" stuck=false")

	// release the blocker; the blocked Submits go through; the sentinel is behind everything
	release()
	for i := 10; i <= k; i++ {
		if !pqWaitFor(tasks[i].returned) {
			abort(fmt.Sprintf("the blocked Submit of task #%d did not return after the worker was freed", i))
			return
		}
	}
	sentinel := make(chan struct{})
	go pool.Submit(context.Background(), concurrent.NewTask(func() { close(sentinel) }, nil))
	if !pqWaitFor(sentinel) {
		abort("the sentinel task submitted behind all tasks was not executed")
		return
	}
	pool.Stop()
	toks = append(toks, "x0", "settle")
	c.Op(head+strings.Join(toks, " "), show()+" stuck=true")

	// oracle, on the implementation's observations alone
	for _, t := range tasks {
		ok, er, started := t.okCalls.Load(), t.errCalls.Load(), t.started.Load()
		switch {
		case ok+er == 0:
			key := "pool-task-never-completed"
			if t.cancelled == "queued" {
				key = "pool-task-cancelled-while-queued-never-completed"
			}
			c.Fail(key, fmt.Sprintf("%s: task #%d was handed to the pool, every task submitted before a later sentinel has been consumed, but neither its completion handler nor its error handler was ever called (executions of its plan: %d) - its stage never completes, pending never reaches zero", what(), t.id, started))
		case ok+er > 1:
			c.Fail("pool-task-completed-more-than-once", fmt.Sprintf("%s: the handlers of task #%d were called %d times (complete %d, error %d)", what(), t.id, ok+er, ok, er))
		case started > 1:
			c.Fail("pool-task-executed-more-than-once", fmt.Sprintf("%s: the plan of task #%d was executed %d times", what(), t.id, started))
		case (t.cancelled == "pre" || t.cancelled == "blocked") && (started != 0 || er != 1):
			c.Fail("pool-rejected-task-executed", fmt.Sprintf("%s: task #%d was rejected by Submit (context done, channel full) but executed=%d, error handler calls=%d", what(), t.id, started, er))
		case started == 1 && t.res == 'o' && ok != 1:
			c.Fail("pool-task-ok-reported-as-error", fmt.Sprintf("%s: task #%d executed successfully but the error handler was called", what(), t.id))
		case started == 1 && t.res != 'o' && er != 1:
			c.Fail("pool-task-failure-reported-as-ok", fmt.Sprintf("%s: task #%d failed (%c) but the completion handler was called", what(), t.id, t.res))
		}
	}
	if k >= 2 {
		c.NonTrivial()
	}
}
