package c19

// The lock discipline of pipelineStateMachine.completeStage when a stage's Complete() hook panics
// (Model/CompleteLock.lean). lindb's shard-scan and grouping stages run
// LeafGroupingContext.CompleteGroupingTask → collectGroupByTagValues → MetricMetaDatabase.CollectTagValues
// (a storage read) inside that hook, i.e. between sm.mutex.Lock() and the non-deferred Unlock().
//
// One case: a synchronous root plans len(order) pooled leaf stages on a pool of their own; when
// pipeline.Execute has returned (root completed, pending = len(order)) the stages are released one
// after the other in the given order; 'p' = the stage's Complete() hook panics. Every wait ends on a
// positive signal: sm.pending dropped (the stage was completed), or the pool counted a panicking task
// (the hook's panic escaped completeStage up to workerPool.execTask — from there the task's handler
// calls completeStage again, on a mutex that is still locked).

import (
	"context"
	"fmt"
	"strings"
	"sync/atomic"
	"time"

	"github.com/lindb/lindb/flow"
	"github.com/lindb/lindb/internal/concurrent"
	"github.com/lindb/lindb/internal/linmetric"
	"github.com/lindb/lindb/metrics"
	"github.com/lindb/lindb/query"
	"github.com/lindb/lindb/query/stage"
	trackerpkg "github.com/lindb/lindb/query/tracker"

	"github.com/lindb/lindb/zzverif/internal/core"
)

type waitOp struct {
	id   int
	gate chan struct{}
	done chan struct{}
}

func (o *waitOp) Identifier() string { return fmt.Sprintf("verif-hook-op-%d", o.id) }

func (o *waitOp) Execute() error {
	if o.gate == nil {
		return nil
	}
	select {
	case <-o.gate:
	case <-o.done:
	}
	return nil
}

// hookFixed: the orders replayed on every run; the first two are the recorded finding's witnesses
var hookFixed = []string{"p", "opo", "oo"}

// the stable failure key of an order: the two recorded witnesses have keys of their own, every other
// order falls into the region key
func hookKey(order string) string {
	switch order {
	case "p":
		return "witness-complete-hook-panic"
	case "opo":
		return "witness-complete-hook-panic-others-blocked"
	}
	return "no-callback-complete-hook-panic-leaks-mutex"
}

func runHookWitness(c *core.Ctx, order string) {
	c.Branch("complete-hook-witness")
	name := fmt.Sprintf("verif-c19-hook-%d", zPoolSeq.Add(1))
	stats := metrics.NewConcurrentStatistics(name, linmetric.BrokerRegistry)
	pool := concurrent.NewPool(name, len(order)+1, time.Minute, stats)
	done := make(chan struct{})
	taskCtx := flow.NewTaskContextWithTimeout(context.Background(), time.Minute)
	defer taskCtx.Release()
	var cbN atomic.Int32
	var cbErr atomic.Bool
	var cbFirst atomic.Bool
	pipe := query.NewExecutePipeline(trackerpkg.NewStageTracker(taskCtx), func(err error) {
		// the argument is stored BEFORE the counter moves: the harness reads cbErr as soon as it sees
		// cbN > 0 (round 12 correction: the other order let it read a stale `false`)
		if cbFirst.CompareAndSwap(false, true) {
			cbErr.Store(err != nil)
		}
		cbN.Add(1)
	})
	gates := make([]chan struct{}, len(order))
	var children []stage.Stage
	for i := range order {
		i := i
		gates[i] = make(chan struct{})
		panics := order[i] == 'p'
		children = append(children, stage.NewVerifStage(stage.VerifStageSpec{
			Ctx: context.Background(), Pool: pool, ID: fmt.Sprintf("verif-hook-stage-%d", i+1),
			PlanFn: func() stage.PlanNode {
				return stage.NewPlanNode(&waitOp{id: i + 1, gate: gates[i], done: done})
			},
			NextFn: func() []stage.Stage { return nil },
			CompleteFn: func() {
				if panics {
					panic(fmt.Sprintf("scripted panic in Complete() of stage %d", i+1))
				}
			},
		}))
	}
	root := stage.NewVerifStage(stage.VerifStageSpec{ID: "verif-hook-stage-0",
		PlanFn:     func() stage.PlanNode { return stage.NewPlanNode(&waitOp{}) },
		NextFn:     func() []stage.Stage { return children },
		CompleteFn: func() {},
	})
	state := func() int32 {
		p, _, _ := query.VerifPipelineState(pipe)
		return p
	}
	words := strings.Join(strings.Split(order, ""), " ")
	what := fmt.Sprintf("root(sync) plans %d pooled leaf stages, completed one after the other, Complete() hooks [%s] (p = panics)", len(order), words)
	execDone := make(chan struct{})
	go func() {
		defer close(execDone)
		defer func() { _ = recover() }()
		pipe.Execute(root)
	}()
	problem := ""
	select {
	case <-execDone:
	case <-time.After(5 * time.Second):
		problem = "pipeline.Execute did not return"
	}
	escapedAt := -1
	for i := 0; i < len(order) && problem == "" && escapedAt < 0; i++ {
		p0, tp0 := state(), stats.TasksPanic.Get()
		close(gates[i])
		deadline := time.Now().Add(5 * time.Second)
		for {
			if state() < p0 {
				break
			}
			if stats.TasksPanic.Get() > tp0 {
				escapedAt = i
				break
			}
			if time.Now().After(deadline) {
				problem = fmt.Sprintf("stage #%d: neither completed nor reported as a panicking task within 5s", i+1)
				break
			}
			time.Sleep(20 * time.Microsecond)
		}
	}
	if problem == "" && escapedAt < 0 {
		// pending reached zero: complete() runs the callback synchronously after the Dec
		for deadline := time.Now().Add(2 * time.Second); cbN.Load() == 0 && time.Now().Before(deadline); {
			time.Sleep(20 * time.Microsecond)
		}
	}
	free, _ := query.VerifPipelineMutexFree(pipe)
	arg, mutex := "-", "held"
	if cbN.Load() > 0 {
		arg = "nil"
		if cbErr.Load() {
			arg = "err"
		}
	}
	if free {
		mutex = "free"
	}
	c.Op("chook "+words, fmt.Sprintf("cb=%d arg=%s pending=%d mutex=%s", cbN.Load(), arg, state(), mutex))
	switch {
	case problem != "":
		c.Fail("harness-timeout", what+": "+problem)
	case escapedAt >= 0:
		c.Fail(hookKey(order), fmt.Sprintf("%s: the Complete() hook of stage #%d panicked inside completeStage's critical section (between sm.mutex.Lock() and the non-deferred Unlock()); the panic reached workerPool.execTask, whose handler (errHandle -> completeStage) now blocks on the mutex that is still locked (TryLock fails: %v), as does every other stage's completeStage: sm.pending stays %d, the completion callback never fires (callbacks: %d) - no response",
			what, escapedAt+1, !free, state(), cbN.Load()))
	case cbN.Load() != 1:
		c.Fail("complete-hook-callbacks-not-one", fmt.Sprintf("%s: %d completion callbacks", what, cbN.Load()))
	case strings.Contains(order, "p") && !cbErr.Load():
		c.Fail("complete-hook-panic-error-lost", what+": a Complete() hook panicked, the callback argument is nil")
	case !free || state() != 0:
		c.Fail("complete-hook-end-state", fmt.Sprintf("%s: callback fired, but sm.pending=%d mutex free=%v", what, state(), free))
	}
	close(done)
	if escapedAt < 0 && problem == "" {
		go pool.Stop()
	}
	// otherwise the pool is abandoned: one of its workers is blocked on the leaked mutex for ever and
	// Stop() would wait for it
	c.NonTrivial()
}
