package c19

// Plan-node trees through the real baseStage.execute (query/stage/base_stage.go) and the real
// planNode (ExecuteWithStats, IgnoreNotFound, Children): which operators run, and whether the stage
// fails — the leaf's error-tolerance decision (a not-found error of a node built with
// NewPlanNodeWithIgnore ends that node's subtree silently; every other error fails the stage).
// Model: Model/C19PlanExec.lean, op `pexec`.

import (
	"errors"
	"fmt"
	"math/rand"
	"strconv"
	"strings"

	"github.com/lindb/lindb/constants"
	"github.com/lindb/lindb/query/stage"

	"github.com/lindb/lindb/zzverif/internal/core"
)

type peNode struct {
	id       int
	ignore   bool
	res      byte // 'o' ok, 'f' an error that Is constants.ErrNotFound, 'e' another error
	children []*peNode
}

type peErr struct {
	id int
	nf bool
}

func (e *peErr) Error() string { return "scripted failure of plan node " + strconv.Itoa(e.id) }
func (e *peErr) Is(target error) bool {
	return e.nf && target == constants.ErrNotFound
}

type peOp struct {
	n   *peNode
	ran *[]int
}

func (o *peOp) Identifier() string { return "verif-plan-op-" + strconv.Itoa(o.n.id) }
func (o *peOp) Execute() error {
	*o.ran = append(*o.ran, o.n.id)
	switch o.n.res {
	case 'f':
		// wrapped, as the operators do (fmt.Errorf("%w, …", constants.ErrNotFound))
		return fmt.Errorf("lookup: %w", &peErr{id: o.n.id, nf: true})
	case 'e':
		return &peErr{id: o.n.id}
	}
	return nil
}

func peGen(r *rand.Rand) *peNode {
	budget := 1 + r.Intn(7)
	var build func(depth int) *peNode
	build = func(depth int) *peNode {
		budget--
		n := &peNode{ignore: r.Intn(2) == 0}
		switch x := r.Intn(100); {
		case x < 60:
			n.res = 'o'
		case x < 85:
			n.res = 'f'
		default:
			n.res = 'e'
		}
		if depth == 0 && r.Intn(3) > 0 {
			n.res = 'o'
		}
		for i, fan := 0, r.Intn(4); i < fan && budget > 0 && depth < 3; i++ {
			n.children = append(n.children, build(depth+1))
		}
		return n
	}
	return build(0)
}

func runPlanExec(c *core.Ctx, root *peNode) {
	c.Branch("plan-exec")
	var all []*peNode
	var toks []string
	var number func(n *peNode)
	number = func(n *peNode) {
		n.id = len(all)
		all = append(all, n)
		g := "n"
		if n.ignore {
			g = "i"
		}
		toks = append(toks, fmt.Sprintf("%s%c%d", g, n.res, len(n.children)))
		for _, ch := range n.children {
			number(ch)
		}
	}
	number(root)
	var ran []int
	var mk func(n *peNode) stage.PlanNode
	mk = func(n *peNode) stage.PlanNode {
		var pn stage.PlanNode
		if n.ignore {
			pn = stage.NewPlanNodeWithIgnore(&peOp{n: n, ran: &ran})
		} else {
			pn = stage.NewPlanNode(&peOp{n: n, ran: &ran})
		}
		for _, ch := range n.children {
			pn.AddChild(mk(ch))
		}
		return pn
	}
	res, failed := "none", -1
	c.Guard("pexec "+strings.Join(toks, " "), func() string {
		// a synchronous stage: baseStage.Execute runs execFn inline = stage.execute(node), then one of the handlers
		st := stage.NewVerifStage(stage.VerifStageSpec{ID: "verif-plan-exec"})
		st.Execute(mk(root), func() { res = "nil" }, func(err error) {
			var pe *peErr
			if errors.As(err, &pe) {
				failed = pe.id
				res = "err:" + strconv.Itoa(pe.id)
			} else {
				res = "err:?"
			}
		})
		ss := make([]string, len(ran))
		for i, id := range ran {
			ss[i] = strconv.Itoa(id)
		}
		return "res=" + res + " ran=" + strings.Join(ss, ",")
	})
	what := fmt.Sprintf("plan-node tree [%s] (i = built with NewPlanNodeWithIgnore; o ok / f not found / e other error)", strings.Join(toks, " "))
	mustSurface := func(n *peNode) bool { return n.res == 'e' || (n.res == 'f' && !n.ignore) }
	switch {
	case res == "nil":
		for _, id := range ran {
			if mustSurface(all[id]) {
				c.Fail("plan-exec-error-swallowed", fmt.Sprintf("%s: the operator of node %d ran and failed with an error the stage may not tolerate, yet the stage completed successfully", what, id))
				break
			}
		}
	case failed >= 0:
		if !mustSurface(all[failed]) {
			c.Fail("plan-exec-tolerable-failure-reported", fmt.Sprintf("%s: the stage failed with the not-found error of node %d, which was built to ignore it", what, failed))
		}
		c.Branch("plan-exec-stage-failed")
	default:
		c.Fail("plan-exec-no-handler-called", what+": neither the completion handler nor the error handler was called ("+res+")")
	}
	for _, id := range ran {
		if n := all[id]; n.res == 'f' && n.ignore {
			c.Branch("plan-exec-not-found-tolerated")
			break
		}
	}
	if len(all) >= 2 {
		c.NonTrivial()
	}
}
