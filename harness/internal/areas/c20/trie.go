// Package c20 drives lindb's real succinct trie (pkg/trie), the trie bucket (index/model) and the
// index/v1 flusher / reader / merger, and mirrors every operation in the C20 line protocol.
//
// Impl-side oracle: a dictionary must answer like a sorted map of the generated pairs.
package c20

import (
	"bytes"
	"encoding/binary"
	"encoding/hex"
	"fmt"
	mbits "math/bits"
	"math/rand"
	"os"
	"path/filepath"
	"regexp"
	"sort"
	"strconv"
	"strings"
	"time"

	"github.com/lindb/roaring"

	"github.com/lindb/lindb/index"
	"github.com/lindb/lindb/index/model"
	v1 "github.com/lindb/lindb/index/v1"
	"github.com/lindb/lindb/kv"
	"github.com/lindb/lindb/kv/table"
	"github.com/lindb/lindb/kv/version"
	"github.com/lindb/lindb/pkg/trie"
	"github.com/lindb/lindb/sql/stmt"

	"github.com/lindb/lindb/zzverif/internal/core"
)

type area struct{}

func init() { core.Register(area{}) }

func (area) Name() string { return "trie" }

// Stable oracle-failure keys of the recorded findings (known_findings.json).
const (
	keyBuildEmptyKey = "build-single-empty-key-panics"
	keyGetFF         = "get-empty-key-on-single-ff-key"
	keySeekPred      = "seek-lands-on-predecessor"
	keySuggest       = "suggest-merged-iterator-key-aliasing"
)

// ---------------------------------------------------------------- protocol helpers

func hx(b []byte) string {
	if len(b) == 0 {
		return "-"
	}
	return hex.EncodeToString(b)
}

type pair struct {
	k []byte
	v uint32
}

func showPairs(ps []pair) string {
	if len(ps) == 0 {
		return "empty"
	}
	s := make([]string, len(ps))
	for i, p := range ps {
		s[i] = hx(p.k) + ":" + strconv.Itoa(int(p.v))
	}
	return strings.Join(s, " ")
}

func showBits(bs []bool) string {
	if len(bs) == 0 {
		return "empty"
	}
	b := make([]byte, len(bs))
	for i, x := range bs {
		if x {
			b[i] = '1'
		} else {
			b[i] = '0'
		}
	}
	return string(b)
}

func showU32(xs []uint32) string {
	if len(xs) == 0 {
		return "empty"
	}
	s := make([]string, len(xs))
	for i, x := range xs {
		s[i] = strconv.Itoa(int(x))
	}
	return strings.Join(s, " ")
}

func showKeys(xs [][]byte) string {
	if len(xs) == 0 {
		return "empty"
	}
	s := make([]string, len(xs))
	for i, x := range xs {
		s[i] = hx(x)
	}
	return strings.Join(s, " ")
}

func showOpt(v uint32, ok bool) string {
	if ok {
		return "some " + strconv.Itoa(int(v))
	}
	return "none"
}

func clone(b []byte) []byte { return append([]byte{}, b...) }

// ---------------------------------------------------------------- generators

var smallAlpha = []byte{0x00, 'a', 'b', 0xfe, 0xff}

func randKey(r *rand.Rand, alpha []byte, maxLen int) []byte {
	n := r.Intn(maxLen + 1)
	k := make([]byte, n)
	for i := range k {
		k[i] = alpha[r.Intn(len(alpha))]
	}
	return k
}

var unicodeWords = []string{"服务", "服务器", "服务器-1", "主机", "主机名", "данные", "данны", "дан", "ホスト", "ホスト名", "café", "cafe", "caf", "naïve", "😀", "😀😀", "ÿ", "ÿÿ", "ÿa"}

// genKeys returns a set of distinct keys (unsorted) of one of several shapes; the name of the
// shape is counted as a branch.
func genKeys(r *rand.Rand, tier string, big bool) (keys [][]byte, shape string) {
	set := map[string]bool{}
	add := func(k []byte) { set[string(k)] = true }
	if big {
		n := 1000 + r.Intn(3000)
		if tier == "thorough" {
			n = 3000 + r.Intn(12000)
		}
		shape = "big"
		bases := make([][]byte, 1+r.Intn(30))
		for i := range bases {
			bases[i] = randKey(r, []byte("abcdefgh.-_\x00\xff"), 12)
		}
		for len(set) < n {
			switch r.Intn(4) {
			case 0:
				add([]byte(fmt.Sprintf("host-%05d.region-%d", r.Intn(n*2), r.Intn(4))))
			case 1:
				b := bases[r.Intn(len(bases))]
				add(append(clone(b), randKey(r, []byte("abc\x00\xff0123456789"), 6)...))
			case 2:
				k := make([]byte, r.Intn(7))
				r.Read(k)
				add(k)
			default:
				b := bases[r.Intn(len(bases))]
				add(clone(b[:r.Intn(len(b)+1)]))
			}
		}
	} else {
		switch r.Intn(9) {
		case 0: // tiny alphabet with 0x00/0xff, short keys: dense prefix structure
			shape = "small-alpha"
			n := 1 + r.Intn(14)
			for i := 0; i < n; i++ {
				add(randKey(r, smallAlpha, 4))
			}
		case 1: // prefix chains
			shape = "prefix-chain"
			for c := 0; c < 1+r.Intn(3); c++ {
				k := randKey(r, []byte("ab\xff\x00"), 2)
				for i := 0; i < 1+r.Intn(7); i++ {
					if r.Intn(4) != 0 {
						add(clone(k))
					}
					k = append(k, smallAlpha[r.Intn(len(smallAlpha))])
				}
			}
		case 2: // shared prefixes and shared suffixes
			shape = "shared-prefix-suffix"
			pre := [][]byte{[]byte("cpu.usage."), []byte("cpu."), []byte("mem"), []byte("disk\xff"), {}}
			suf := [][]byte{[]byte(".idle"), []byte(".user"), []byte("_total"), []byte("\x00"), {}}
			n := 2 + r.Intn(25)
			for i := 0; i < n; i++ {
				k := clone(pre[r.Intn(len(pre))])
				k = append(k, randKey(r, []byte("xyz01"), 3)...)
				k = append(k, suf[r.Intn(len(suf))]...)
				add(k)
			}
		case 3: // runs of >= 5 equal labels (the skipEnd = groupEnd+4 shortcut), run lengths around 4,5,6,9,10,11
			shape = "equal-label-runs"
			for g := 0; g < 1+r.Intn(4); g++ {
				first := smallAlpha[r.Intn(len(smallAlpha))]
				run := []int{1, 2, 3, 4, 5, 6, 7, 9, 10, 11, 14, 15, 16, 21}[r.Intn(14)]
				for i := 0; i < run; i++ {
					k := []byte{first}
					if r.Intn(3) == 0 {
						k = append(k, first)
					}
					k = append(k, byte(i), byte(r.Intn(3)))
					if r.Intn(2) == 0 {
						k = append(k, randKey(r, smallAlpha, 3)...)
					}
					add(k)
				}
			}
		case 4: // unicode
			shape = "unicode"
			n := 1 + r.Intn(12)
			for i := 0; i < n; i++ {
				w := unicodeWords[r.Intn(len(unicodeWords))]
				if r.Intn(3) == 0 {
					w += unicodeWords[r.Intn(len(unicodeWords))]
				}
				add([]byte(w))
			}
		case 5: // host-name like
			shape = "hostnames"
			n := 5 + r.Intn(120)
			for i := 0; i < n; i++ {
				add([]byte(fmt.Sprintf("%s-%03d", []string{"nj", "bj", "sh-a", "sh"}[r.Intn(4)], r.Intn(400))))
			}
		case 6: // random bytes
			shape = "random-bytes"
			n := 1 + r.Intn(60)
			for i := 0; i < n; i++ {
				k := make([]byte, r.Intn(6))
				r.Read(k)
				add(k)
			}
		case 7: // medium set, enough labels to cross 64-bit word and 512-bit block boundaries
			shape = "medium"
			n := 100 + r.Intn(700)
			for len(set) < n {
				add(randKey(r, []byte("abcdefghijklmnopqrstuvwxyz\x00\xff"), 5))
			}
		default: // 0xff / 0x00 heavy
			shape = "ff-00-heavy"
			n := 1 + r.Intn(16)
			for i := 0; i < n; i++ {
				add(randKey(r, []byte{0xff, 0x00, 0xff, 'a'}, 5))
			}
		}
		// the empty key now and then (never alone: that is the recorded build panic)
		if r.Intn(5) == 0 && len(set) >= 1 {
			add([]byte{})
		}
	}
	if len(set) == 0 || (len(set) == 1 && set[""]) {
		add([]byte("a"))
	}
	for k := range set {
		keys = append(keys, []byte(k))
	}
	sort.Slice(keys, func(i, j int) bool { return bytes.Compare(keys[i], keys[j]) < 0 })
	return keys, shape
}

// genKeysTarget grows a key set one key at a time until the trie has exactly `target` labels
// (byLabels) or nodes (!byLabels): the sizes at which the rank table (one entry per 512 bits of
// hasChild / hasPrefix / hasSuffix) and the select table (one entry per 64 set louds bits) change
// length. ok=false when the target was not hit exactly.
func genKeysTarget(r *rand.Rand, target int, byLabels bool) (keys [][]byte, ok bool) {
	set := map[string]bool{}
	count := func() int {
		ks := make([][]byte, 0, len(set))
		for k := range set {
			ks = append(ks, []byte(k))
		}
		sort.Slice(ks, func(i, j int) bool { return bytes.Compare(ks[i], ks[j]) < 0 })
		vs := make([]uint32, len(ks))
		b := trie.NewBuilder()
		b.Build(ks, vs)
		d := trie.VerifDump(b.Trie())
		if byLabels {
			return len(d.Labels)
		}
		return len(d.HasPrefix)
	}
	alpha := []byte("abcdefghijklmnopqrstuvwxyz0123456789\x00\xff")
	newKey := func() []byte {
		k := make([]byte, 2+r.Intn(2))
		for i := range k {
			k[i] = alpha[r.Intn(len(alpha))]
		}
		if r.Intn(4) == 0 {
			k = append(k, randKey(r, smallAlpha, 3)...)
		}
		return k
	}
	set[string(newKey())] = true
	set[string(newKey())+"x"] = true
	cur := count()
	misses := 0
	// jump close to the target first (a key adds about 1-2 labels, ~0.3 nodes)
	for cur < target-40 {
		for i := 0; i < 20; i++ {
			set[string(newKey())] = true
		}
		cur = count()
	}
	for cur != target && misses < 400 {
		k := string(newKey())
		if set[k] {
			continue
		}
		set[k] = true
		n := count()
		if n > target {
			delete(set, k)
			misses++
			continue
		}
		cur = n
	}
	for k := range set {
		keys = append(keys, []byte(k))
	}
	sort.Slice(keys, func(i, j int) bool { return bytes.Compare(keys[i], keys[j]) < 0 })
	return keys, cur == target
}

// genKeysWideLast builds a key set whose trie has EXACTLY `total` labels and whose last node (the last
// node of the deepest level = the end of the louds vector) holds EXACTLY `wide` labels: the region where
// the zero run behind the last set louds bit reaches or crosses the final 64-bit word(s) of the vector
// (`DistanceToNextSetBit`'s loop to the last word and its unused-tail correction; `total % 64 == 0` is the
// boundary where nothing may be subtracted). Shape: root with m labels; the greatest root label carries the
// wide node (wide leaves, optionally one of them the terminator); the other root labels are leaves or carry
// nodes of 2..9 labels so that the sizes add up. ok=false when the sizes cannot be met (wide > 256, ...).
func genKeysWideLast(r *rand.Rand, total, wide int) (keys [][]byte, ok bool) {
	if wide < 2 || wide > 256 || total < wide {
		return nil, false
	}
	pre := [][]byte{{}, []byte("host-"), {0xff}, {0x00, 'a'}}[r.Intn(4)]
	set := map[string]bool{}
	add := func(parts ...[]byte) {
		k := clone(pre)
		for _, p := range parts {
			k = append(k, p...)
		}
		set[string(k)] = true
	}
	tail := func() []byte { // leaf suffix (does not add labels)
		if r.Intn(3) == 0 {
			return randKey(r, smallAlpha, 3)
		}
		return nil
	}
	wideNode := func(first []byte) {
		n := wide
		if r.Intn(3) == 0 && len(first) > 0 { // the key that ends here: terminator label
			add(first)
			n--
		}
		perm := r.Perm(256)[:n]
		if n >= 250 || r.Intn(2) == 0 { // keep the greatest labels in (0xff as a real label)
			perm = perm[:0]
			for b := 256 - n; b < 256; b++ {
				perm = append(perm, b)
			}
		}
		for _, b := range perm {
			add(first, []byte{byte(b)}, tail())
		}
	}
	rest := total - wide
	if rest == 0 { // a single node: the root itself is the wide last node
		wideNode(nil)
	} else {
		// root labels: m-1 ordinary ones (< L) and L; children of ordinary labels use up rest - m labels
		if rest < 2 { // a root with the single label L would be compressed away
			return nil, false
		}
		m := 2 + r.Intn(39)
		if m > rest {
			m = rest
		}
		if rest-m == 1 { // a child node needs >= 2 labels
			m++
		}
		if m > 200 || m > rest {
			return nil, false
		}
		for rest-m > 9*(m-1) { // not enough ordinary labels to hang the children on
			m++
			if m > 200 {
				return nil, false
			}
		}
		if rest-m == 1 {
			return nil, false
		}
		labels := r.Perm(250)[:m]
		sort.Ints(labels)
		L := byte(labels[m-1] + 5)
		// sizes of the nodes under the ordinary labels: 0 (a leaf) or 2..9, adding up to rest-m
		sizes := make([]int, m-1)
		left := rest - m
		for guard := 0; left > 0 && guard < 100000; guard++ {
			i := r.Intn(m - 1)
			switch {
			case sizes[i] == 0 && left >= 2:
				sizes[i], left = 2, left-2
			case sizes[i] >= 2 && sizes[i] < 9:
				sizes[i], left = sizes[i]+1, left-1
			}
		}
		if left != 0 {
			return nil, false
		}
		for i := 0; i < m-1; i++ {
			c := []byte{byte(labels[i])}
			if sizes[i] == 0 {
				add(c, tail())
				continue
			}
			for _, b := range r.Perm(256)[:sizes[i]] {
				add(c, []byte{byte(b)}, tail())
			}
		}
		wideNode([]byte{L})
	}
	for k := range set {
		keys = append(keys, []byte(k))
	}
	sort.Slice(keys, func(i, j int) bool { return bytes.Compare(keys[i], keys[j]) < 0 })
	// confirm on the real builder: label count and width of the last node
	b := trie.NewBuilder()
	b.Build(keys, make([]uint32, len(keys)))
	d := trie.VerifDump(b.Trie())
	lastSet := 0
	for i, x := range d.Louds {
		if x {
			lastSet = i
		}
	}
	return keys, len(d.Labels) == total && len(d.Louds)-lastSet == wide
}

// genProbes: present keys, proper prefixes, extensions, neighbours, random strings, fixed edge keys.
func genProbes(r *rand.Rand, keys [][]byte, n int) [][]byte {
	seen := map[string]bool{}
	var out [][]byte
	add := func(k []byte) {
		if !seen[string(k)] {
			seen[string(k)] = true
			out = append(out, clone(k))
		}
	}
	add([]byte{})
	add([]byte{0xff})
	add([]byte{0x00})
	for len(out) < n {
		k := keys[r.Intn(len(keys))]
		switch r.Intn(8) {
		case 0:
			add(k)
		case 1:
			if len(k) > 0 {
				add(k[:r.Intn(len(k))])
			}
		case 2:
			add(append(clone(k), []byte{0x00, 0xff, 'a', 0xfe}[r.Intn(4)]))
		case 3:
			if len(k) > 0 {
				x := clone(k)
				x[len(x)-1]++
				add(x)
			}
		case 4:
			if len(k) > 0 {
				x := clone(k)
				x[len(x)-1]--
				add(x)
			}
		case 5:
			add(randKey(r, smallAlpha, 4))
		case 6:
			if len(k) > 0 {
				x := clone(k)
				x[r.Intn(len(x))] = smallAlpha[r.Intn(len(smallAlpha))]
				add(x)
			}
		default:
			add(append(clone(k), randKey(r, smallAlpha, 3)...))
		}
		if len(seen) > 4*n {
			break
		}
	}
	return out
}

// ---------------------------------------------------------------- the sorted-map oracle

type smap struct {
	keys [][]byte
	vals []uint32
}

func (m *smap) get(k []byte) (uint32, bool) {
	i := m.lb(k)
	if i < len(m.keys) && bytes.Equal(m.keys[i], k) {
		return m.vals[i], true
	}
	return 0, false
}

func (m *smap) lb(k []byte) int {
	return sort.Search(len(m.keys), func(i int) bool { return bytes.Compare(m.keys[i], k) >= 0 })
}

func (m *smap) pairs(from, to int) []pair {
	var ps []pair
	for i := from; i < to; i++ {
		ps = append(ps, pair{m.keys[i], m.vals[i]})
	}
	return ps
}

func (m *smap) withPrefix(p []byte) []pair {
	var ps []pair
	for i, k := range m.keys {
		if bytes.HasPrefix(k, p) {
			ps = append(ps, pair{k, m.vals[i]})
		}
	}
	return ps
}

func cpl(a, b []byte) int {
	n := 0
	for n < len(a) && n < len(b) && a[n] == b[n] {
		n++
	}
	return n
}

func samePairs(a, b []pair) bool {
	if len(a) != len(b) {
		return false
	}
	for i := range a {
		if !bytes.Equal(a[i].k, b[i].k) || a[i].v != b[i].v {
			return false
		}
	}
	return true
}

// ---------------------------------------------------------------- one trie under test

type subject struct {
	c    *core.Ctx
	m    *smap
	t    trie.SuccinctTrie
	tag  string // "mem" or "reloaded"
	big  bool
	full bool // also emit layer-2 ops that are expensive on the model side
	// machine: also diff seek / prefix against the iterator stack machine over the vectors
	machine bool
}

func (s *subject) fail(key, format string, a ...interface{}) {
	s.c.Fail(key, "["+s.tag+"] "+fmt.Sprintf(format, a...))
}

func (s *subject) dumpVectors(b trie.Builder) {
	c := s.c
	d := trie.VerifDump(s.t)
	c.Op("dims", fmt.Sprintf("height=%d keys=%d labels=%d nodes=%d", d.Height, d.TotalKeys, len(d.Labels), len(d.HasPrefix)))
	if b != nil {
		var parts []string
		for _, l := range trie.VerifLevels(b) {
			parts = append(parts, fmt.Sprintf("%d/%d/%d", len(l.Labels), l.NodeCount, len(l.Values)))
		}
		c.Op("levels", strings.Join(parts, " "))
	}
	c.Op("vec labels", hx(d.Labels))
	c.Op("vec haschild", showBits(d.HasChild))
	c.Op("vec louds", showBits(d.Louds))
	c.Op("vec hasprefix", showBits(d.HasPrefix))
	c.Op("vec prefixoffsets", showU32(d.PrefixOffsets))
	c.Op("vec prefixdata", hx(d.PrefixData))
	c.Op("vec hassuffix", showBits(d.HasSuffix))
	c.Op("vec suffixoffsets", showU32(d.SuffixOffsets))
	c.Op("vec suffixdata", hx(d.SuffixData))
	c.Op("vec values", showU32(d.Values))
	c.Op("vec ranklut", showU32(d.HasChildRankLut))
	c.Op("vec selectlut", showU32(d.LoudsSelectLut))
	c.Op("vec prefixlut", showU32(d.HasPrefixRankLut))
	c.Op("vec suffixlut", showU32(d.HasSuffixRankLut))
	// impl-side sanity of the encoding against the key set
	if int(d.TotalKeys) != len(s.m.keys) || len(d.Values) != len(s.m.keys) {
		s.fail("encoding-key-count", "totalKeys=%d values=%d want %d", d.TotalKeys, len(d.Values), len(s.m.keys))
	}
}

func (s *subject) navOps(r *rand.Rand, n int) {
	c := s.c
	d := trie.VerifDump(s.t)
	nav := trie.VerifNavOf(s.t)
	nodes, labels := len(d.HasPrefix), len(d.Labels)
	for i := 0; i < n; i++ {
		id := uint32(r.Intn(nodes))
		if i == 0 {
			id = uint32(nodes - 1)
		}
		op := fmt.Sprintf("nav %d", id)
		c.Guard(op, func() string {
			p := nav.FirstLabelPos(id)
			return fmt.Sprintf("first=%d size=%d last=%d prefix=%s", p, nav.NodeSize(p), nav.LastLabelPos(id), hx(nav.Prefix(id)))
		})
		pos := uint32(r.Intn(labels))
		if i == 0 {
			pos = uint32(labels - 1)
		}
		op = fmt.Sprintf("navpos %d", pos)
		c.Guard(op, func() string {
			e := 0
			if nav.IsEndOfNode(pos) {
				e = 1
			}
			if nav.HasChild(pos) {
				return fmt.Sprintf("child=%d end=%d suffix=%s", nav.ChildNodeID(pos), e, hx(nav.Suffix(pos)))
			}
			return fmt.Sprintf("value=%d end=%d suffix=%s", nav.ValuePos(pos), e, hx(nav.Suffix(pos)))
		})
	}
}

func (s *subject) get(k []byte) {
	var v uint32
	var ok bool
	s.c.Guard("get "+hx(k), func() string {
		v, ok = s.t.Get(k)
		return showOpt(v, ok)
	})
	ev, eok := s.m.get(k)
	if ok != eok || (ok && v != ev) {
		key := "get-mismatch"
		if len(s.m.keys) == 1 && bytes.Equal(s.m.keys[0], []byte{0xff}) && len(k) == 0 && ok {
			key = keyGetFF
		}
		s.fail(key, "keys=%d Get(%s) = %s, sorted map says %s", len(s.m.keys), hx(k), showOpt(v, ok), showOpt(ev, eok))
	}
	if eok {
		s.c.Branch("get-present")
	} else {
		s.c.Branch("get-absent")
	}
}

// getReusedBuffer: the probes once more, ordered by length, all through ONE scratch buffer that is
// overwritten after every call (Get must depend on the probe's bytes only).
func (s *subject) getReusedBuffer(probes [][]byte) {
	sess := append([][]byte{}, probes...)
	sort.SliceStable(sess, func(i, j int) bool { return len(sess[i]) < len(sess[j]) })
	maxLen := 0
	for _, k := range sess {
		if len(k) > maxLen {
			maxLen = len(k)
		}
	}
	scratch := make([]byte, maxLen+1)
	for _, k := range sess {
		copy(scratch, k)
		probe := scratch[:len(k)]
		var v uint32
		var ok bool
		s.c.Guard("get "+hx(k), func() string {
			v, ok = s.t.Get(probe)
			return showOpt(v, ok)
		})
		for i := range scratch {
			scratch[i] ^= 0x5a
		}
		ev, eok := s.m.get(k)
		if ok != eok || (ok && v != ev) {
			if len(s.m.keys) == 1 && bytes.Equal(s.m.keys[0], []byte{0xff}) && len(k) == 0 && ok {
				s.fail(keyGetFF, "keys=1 Get(-) = %s", showOpt(v, ok))
				continue
			}
			s.fail("get-mismatch", "keys=%d Get(%s) through a reused probe buffer = %s, sorted map says %s", len(s.m.keys), hx(k), showOpt(v, ok), showOpt(ev, eok))
		}
	}
}

func (s *subject) lget(k []byte) {
	s.c.Guard("lget "+hx(k), func() string {
		v, ok := s.t.Get(k)
		return showOpt(v, ok)
	})
}

func (s *subject) iterAll(op string) {
	var got []pair
	defer func() {
		if op == "iter" && s.full {
			// the same observation against the iterator stack machine over the vectors
			s.c.Op("siter", showPairs(got))
		}
	}()
	s.c.Guard(op, func() string {
		got = got[:0]
		it := s.t.NewIterator()
		for it.SeekToFirst(); it.Valid(); it.Next() {
			got = append(got, pair{clone(it.Key()), it.Value()})
			if len(got) > len(s.m.keys)+2 {
				break
			}
		}
		return showPairs(got)
	})
	if !samePairs(got, s.m.pairs(0, len(s.m.keys))) {
		s.fail("iter-mismatch", "forward iteration returned %d pairs, sorted map has %d (or they differ)", len(got), len(s.m.keys))
	}
}

func (s *subject) riter() {
	var got []pair
	s.c.Guard("riter", func() string {
		got = got[:0]
		it := s.t.NewIterator()
		for it.SeekToLast(); it.Valid(); it.Prev() {
			got = append(got, pair{clone(it.Key()), it.Value()})
			if len(got) > len(s.m.keys)+2 {
				break
			}
		}
		return showPairs(got)
	})
	if s.full {
		s.c.Op("sriter", showPairs(got))
	}
	want := s.m.pairs(0, len(s.m.keys))
	for i, j := 0, len(want)-1; i < j; i, j = i+1, j-1 {
		want[i], want[j] = want[j], want[i]
	}
	if !samePairs(got, want) {
		s.fail("riter-mismatch", "backward iteration differs from the reversed sorted map")
	}
}

// walk: a cursor script — position the iterator (SeekToFirst / SeekToLast / Seek(k)), then any mix of
// Next() and Prev(); after the positioning call and after every move observe Valid() and Key()/Value().
// Oracle: an index cursor on the sorted map (Next = +1, invalid past the end; Prev = -1, invalid before
// the start; an invalid iterator stays invalid). For a Seek start the index is taken from the landing
// key (the landing itself is judged by seek()).
func (s *subject) walk(start string, k []byte, script string, toModel bool) {
	m := s.m
	n := len(m.keys)
	var obs []string
	var landed []byte
	landedValid := false
	run := func() string {
		obs = obs[:0]
		it := s.t.NewIterator()
		switch start {
		case "first":
			it.SeekToFirst()
		case "last":
			it.SeekToLast()
		default:
			it.Seek(k)
		}
		see := func() {
			if it.Valid() {
				obs = append(obs, hx(it.Key())+":"+strconv.FormatUint(uint64(it.Value()), 10))
			} else {
				obs = append(obs, "x")
			}
		}
		see()
		if it.Valid() {
			landed, landedValid = clone(it.Key()), true
		}
		for _, mv := range script {
			if mv == 'N' {
				it.Next()
			} else {
				it.Prev()
			}
			see()
		}
		return strings.Join(obs, " ")
	}
	st := start
	if start == "seek" {
		st = "seek:" + hx(k)
	}
	sc := script
	if sc == "" {
		sc = "-"
	}
	panicked := false
	if toModel {
		s.c.Guard("swalk "+st+" "+sc, run)
	} else {
		func() {
			defer func() {
				if e := recover(); e != nil {
					panicked = true
					s.fail("panic", "walk %s %s: %v", st, sc, e)
				}
			}()
			run()
		}()
	}
	if panicked || len(obs) != len(script)+1 {
		return
	}
	idx := -1
	switch start {
	case "first":
		idx = 0
	case "last":
		idx = n - 1
	default:
		if landedValid {
			j := m.lb(landed)
			if j >= n || !bytes.Equal(m.keys[j], landed) {
				s.fail("walk-mismatch", "Seek(%s) landed on %s which is not a key of the map", hx(k), hx(landed))
				return
			}
			idx = j
		}
	}
	show := func(i int) string {
		if i < 0 {
			return "x"
		}
		return hx(m.keys[i]) + ":" + strconv.FormatUint(uint64(m.vals[i]), 10)
	}
	want := []string{show(idx)}
	for _, mv := range script {
		if idx >= 0 {
			if mv == 'N' {
				idx++
				if idx >= n {
					idx = -1
				}
			} else {
				idx--
			}
		}
		want = append(want, show(idx))
	}
	for i := range want {
		if want[i] != obs[i] {
			s.fail("walk-mismatch", "keys=%d walk %s %s: observation %d is %s, the index cursor on the sorted map shows %s", n, st, sc, i, obs[i], want[i])
			s.c.Branch("walk-mismatch")
			return
		}
	}
	s.c.Branch("walk-" + start)
}

// walks: cursor scripts directed at the turning points (before the first / past the last pair, Prev right
// after Next and back, long zig-zags across node boundaries) and random ones from Seek landings
func (s *subject) walks(r *rand.Rand, probes [][]byte) {
	n := len(s.m.keys)
	toModel := s.full
	zig := func(k int) string {
		var b strings.Builder
		for b.Len() < k {
			run := 1 + r.Intn(4)
			c := byte('N')
			if r.Intn(2) == 0 {
				c = 'P'
			}
			for j := 0; j < run && b.Len() < k; j++ {
				b.WriteByte(c)
			}
		}
		return b.String()
	}
	s.walk("first", nil, "P"+zig(3), toModel)                               // Prev on the first pair: invalid, stays invalid
	s.walk("last", nil, "N"+zig(3), toModel)                                // Next on the last pair
	s.walk("first", nil, "NPNP"+zig(6+r.Intn(20)), toModel)                 // Prev undoes Next
	s.walk("last", nil, "PNPN"+zig(6+r.Intn(20)), toModel)                  // Next undoes Prev
	s.walk("first", nil, strings.Repeat("N", r.Intn(n+1))+zig(12), toModel) // somewhere inside (or off the end)
	for i := 0; i < 3 && i < len(probes); i++ {
		s.walk("seek", probes[r.Intn(len(probes))], zig(4+r.Intn(16)), toModel)
	}
}

// collect the iterator's remaining pairs (first three shown)
func drain(it *trie.Iterator, limit int) (n int, first []pair) {
	for ; it.Valid(); it.Next() {
		if n < 3 {
			first = append(first, pair{clone(it.Key()), it.Value()})
		}
		n++
		if n > limit {
			break
		}
	}
	return
}

func (s *subject) seek(k []byte) {
	m := s.m
	var landed []pair
	var n int
	var seekOut string
	s.c.Guard("seek "+hx(k), func() string {
		it := s.t.NewIterator()
		fp := it.Seek(k)
		f := 0
		if fp {
			f = 1
		}
		if !it.Valid() {
			n, landed = 0, nil
			seekOut = fmt.Sprintf("fp=%d invalid", f)
			return seekOut
		}
		n, landed = drain(it, len(m.keys)+2)
		seekOut = fmt.Sprintf("fp=%d n=%d %s", f, n, showPairs(landed))
		return seekOut
	})
	if seekOut != "" && s.machine {
		// the stack machine is only asked for the landing position and the next two keys
		if n == 0 {
			s.c.Op("sseek "+hx(k), seekOut)
		} else {
			s.c.Op("sseek "+hx(k), seekOut[:strings.Index(seekOut, " ")]+" "+showPairs(landed))
		}
	}
	lb := m.lb(k)
	wantN := len(m.keys) - lb
	if n != wantN || (n > 0 && !bytes.Equal(landed[0].k, m.keys[lb])) {
		key := "seek-mismatch"
		j := len(m.keys) - n // index the iterator landed on
		// recorded finding: the iterator is positioned exactly one key too early, on the greatest
		// key smaller than the probe (anything else is a different violation)
		if n >= 1 && j == lb-1 && bytes.Equal(landed[0].k, m.keys[j]) && bytes.Compare(m.keys[j], k) < 0 {
			key = keySeekPred
		}
		s.fail(key, "keys=%d Seek(%s) left %d pairs from %s; lower bound leaves %d", len(m.keys), hx(k), n, showPairs(landed), wantN)
		s.c.Branch("seek-" + key)
	} else {
		s.c.Branch("seek-lower-bound")
	}
	// the proposed repair evaluated on top of the real iterator: step once when the landing key is smaller
	s.c.Guard("seeklb "+hx(k), func() string {
		it := s.t.NewIterator()
		it.Seek(k)
		if it.Valid() && bytes.Compare(it.Key(), k) < 0 {
			it.Next()
		}
		if !it.Valid() {
			n = 0
			return "fp=0 invalid"
		}
		n, landed = drain(it, len(m.keys)+2)
		return fmt.Sprintf("fp=0 n=%d %s", n, showPairs(landed))
	})
	if n != wantN || (n > 0 && !bytes.Equal(landed[0].k, m.keys[lb])) {
		s.fail("seek-then-step-mismatch", "Seek(%s)+conditional Next is not the lower bound", hx(k))
	}
}

func (s *subject) prefix(p []byte) {
	var got []pair
	s.c.Guard("prefix "+hx(p), func() string {
		got = got[:0]
		it := s.t.NewPrefixIterator(p)
		for ; it.Valid(); it.Next() {
			got = append(got, pair{clone(it.Key()), it.Value()})
			if len(got) > len(s.m.keys)+2 {
				break
			}
		}
		return showPairs(got)
	})
	if s.machine {
		s.c.Op("sprefix "+hx(p), showPairs(got))
	}
	want := s.m.withPrefix(p)
	if !samePairs(got, want) {
		s.fail("prefix-mismatch", "keys=%d PrefixIterator(%s) returned %d pairs, filter gives %d (or they differ)", len(s.m.keys), hx(p), len(got), len(want))
	}
	if len(want) == 0 {
		s.c.Branch("prefix-empty")
	} else {
		s.c.Branch("prefix-nonempty")
	}
}

func (s *subject) queries(r *rand.Rand, probes [][]byte) {
	nL2 := len(probes)
	if s.big {
		nL2 = 12
	}
	for i, k := range probes {
		s.get(k)
		if i < nL2 {
			s.lget(k)
		}
	}
	s.getReusedBuffer(probes)
	s.iterAll("iter")
	if s.full {
		s.iterAll("liter")
	}
	s.riter()
	s.walks(r, probes)
	nSeek := len(probes)
	if s.big {
		nSeek = 25
	}
	for i, k := range probes {
		if i >= nSeek {
			break
		}
		s.machine = len(s.m.keys) <= 400 || i < 6
		s.seek(k)
		if !s.big || len(s.m.withPrefix(k)) < 200 {
			s.prefix(k)
		}
	}
}

func buildLine(keys [][]byte, vals []uint32) string {
	var sb strings.Builder
	sb.WriteString("build")
	for i, k := range keys {
		sb.WriteByte(' ')
		sb.WriteString(hx(k))
		sb.WriteByte(':')
		sb.WriteString(strconv.Itoa(int(vals[i])))
	}
	return sb.String()
}

func genVals(r *rand.Rand, n int) []uint32 {
	perm := r.Perm(n)
	vals := make([]uint32, n)
	base := uint32(r.Intn(1000))
	for i := range vals {
		vals[i] = base + uint32(perm[i])
	}
	return vals
}

// trieCase: build, dump the encoding, query, reload through Write/UnmarshalBinary, query again.
func trieCase(c *core.Ctx, r *rand.Rand, keys [][]byte, vals []uint32, probes [][]byte, big bool) {
	trieCaseOn(c, r, trie.NewBuilder(), keys, vals, probes, big)
}

// reusedBuilderCase: ONE builder first builds and serialises a LARGER dictionary, is Reset, and then
// builds the case's (smaller) dictionary; everything — in particular the serialised bytes, the
// reloaded trie and absent seek / prefix probes to the right of the last key — must be as with a
// fresh builder.
func reusedBuilderCase(c *core.Ctx, r *rand.Rand, tier string) {
	bigKeys, _ := genKeys(r, tier, r.Intn(3) == 0)
	for len(bigKeys) < 80 {
		bigKeys = append(bigKeys, []byte(fmt.Sprintf("zz-extra-%04d", len(bigKeys))))
	}
	sort.Slice(bigKeys, func(i, j int) bool { return bytes.Compare(bigKeys[i], bigKeys[j]) < 0 })
	if len(bigKeys[0]) == 0 && len(bigKeys) == 1 {
		return
	}
	bigVals := genVals(r, len(bigKeys))
	b := trie.NewBuilder()
	okPre := false
	c.Guard("pre"+buildLine(bigKeys, bigVals), func() string {
		b.Build(bigKeys, bigVals)
		var sink bytes.Buffer
		if err := b.Write(&sink); err != nil {
			return "write-error"
		}
		b.Reset()
		okPre = true
		return "ok"
	})
	if !okPre {
		return
	}
	// a much smaller dictionary on the same builder
	small := make([][]byte, 0, 40)
	n := 1 + r.Intn(40)
	if n > len(bigKeys)/2 {
		n = len(bigKeys) / 2
	}
	seen := map[string]bool{}
	for len(small) < n {
		var k []byte
		if r.Intn(2) == 0 {
			k = bigKeys[r.Intn(len(bigKeys))]
		} else {
			k = randKey(r, smallAlpha, 4)
		}
		if len(k) == 0 && n == 1 {
			k = []byte("a")
		}
		if !seen[string(k)] {
			seen[string(k)] = true
			small = append(small, clone(k))
		}
	}
	sort.Slice(small, func(i, j int) bool { return bytes.Compare(small[i], small[j]) < 0 })
	if len(small) == 1 && len(small[0]) == 0 {
		small[0] = []byte("a")
	}
	probes := genProbes(r, small, 20)
	last := small[len(small)-1]
	probes = append(probes, append(clone(last), 0xff), append(clone(last), 0x00), []byte{0xff, 0xff, 0xff},
		append(clone(last[:len(last)/2]), 0xff, 0xff))
	c.Branch("reused-builder-large-then-small")
	trieCaseOn(c, r, b, small, genVals(r, len(small)), probes, false)
}

func trieCaseOn(c *core.Ctx, r *rand.Rand, b trie.Builder, keys [][]byte, vals []uint32, probes [][]byte, big bool) {
	m := &smap{keys: keys, vals: vals}
	ok := false
	c.Guard(buildLine(keys, vals), func() string {
		b.Build(keys, vals)
		ok = true
		return "ok"
	})
	if !ok {
		return
	}
	c.NonTrivial()
	s := &subject{c: c, m: m, t: b.Trie(), tag: "mem", big: big, full: len(keys) <= 400}
	s.dumpVectors(b)
	s.navOps(r, 6)
	s.queries(r, probes)
	// serialise and load again
	var buf bytes.Buffer
	var t2 trie.SuccinctTrie
	c.Guard("reload", func() string {
		if err := b.Write(&buf); err != nil {
			return "write-error"
		}
		if buf.Len() != b.MarshalSize() {
			s.fail("marshal-size", "Write produced %d bytes, MarshalSize says %d", buf.Len(), b.MarshalSize())
		}
		t2 = trie.NewTrie()
		if err := t2.UnmarshalBinary(buf.Bytes()); err != nil {
			t2 = nil
			return "unmarshal-error"
		}
		return "ok"
	})
	if t2 == nil {
		s.fail("reload-failed", "Write/UnmarshalBinary failed")
		return
	}
	// the serialised bytes themselves against the byte-layout model
	c.Op("msize", strconv.Itoa(b.MarshalSize()))
	c.Op("bytes", hx(buf.Bytes()))
	s2 := &subject{c: c, m: m, t: t2, tag: "reloaded", big: big, full: len(keys) <= 400}
	s2.dumpVectors(nil)
	s2.navOps(r, 3)
	s2.queries(r, probes)
	// damaged images of this trie, and a pooled trie object with a history (wire.go)
	s2.damaged(r, buf.Bytes(), t2, s2.full)
	s2.pooled(r, buf.Bytes(), t2, probes, s2.full)
}

// wideLastCombos: (total labels, labels of the last node). Label totals that are exact multiples of 64 with
// a last node of 64 (starts on the word boundary), 65.. (starts before the final word), up to 256 (spans
// four words), single-node tries (the root is the last node: the 64 / 128 / 192 / 256 one-byte keys), and
// the totals one below / above the word boundary.
var wideLastCombos = [][2]int{
	{256, 256}, {128, 128}, {128, 65}, {192, 129}, {64, 64}, {192, 192}, {128, 100}, {128, 126}, {192, 65},
	{192, 128}, {256, 65}, {256, 191}, {256, 192}, {256, 193}, {320, 256}, {320, 130}, {384, 70}, {448, 256},
	{512, 66}, {512, 200}, {576, 129}, {640, 256}, {127, 65}, {129, 66}, {191, 128}, {193, 128}, {255, 255},
	{257, 255}, {128, 64}, {192, 64}, {256, 128},
}

// wideLastNodeCase: a fixed, boundary-directed family (by case index, not by chance): the trie's label
// count is exactly 64*k (or 64*k +- 1) and the last node holds >= 64 labels, so that nodeSize of the last
// node runs DistanceToNextSetBit to the end of the vector across the final word(s). Probes are the keys
// under the greatest labels of that node (present), their neighbours and extensions (absent).
func wideLastNodeCase(c *core.Ctx, r *rand.Rand, idx int) {
	var total, wide int
	if idx < len(wideLastCombos) {
		total, wide = wideLastCombos[idx][0], wideLastCombos[idx][1]
	} else {
		k := 1 + r.Intn(12)
		if c.Tier == "thorough" && r.Intn(3) == 0 {
			k = 1 + r.Intn(60)
		}
		total = 64*k + []int{0, 0, 0, -1, 1}[r.Intn(5)]
		wide = []int{64, 65, 66, 100, 127, 128, 129, 191, 192, 193, 255, 256, 2 + r.Intn(255)}[r.Intn(13)]
		if wide > total {
			wide = total
		}
	}
	var keys [][]byte
	ok := false
	for try := 0; try < 8 && !ok; try++ {
		keys, ok = genKeysWideLast(r, total, wide)
	}
	if !ok || len(keys) == 0 {
		c.Branch(fmt.Sprintf("keys-wide-last-missed-%d-%d", total, wide))
		if len(keys) == 0 {
			keys, _ = genKeys(r, c.Tier, false)
		}
	} else {
		switch {
		case total%64 == 0 && wide > 64:
			c.Branch("keys-wide-last-total-64k-spans-final-word")
		case total%64 == 0:
			c.Branch("keys-wide-last-total-64k-starts-on-word")
		default:
			c.Branch("keys-wide-last-total-off-by-one")
		}
	}
	vals := genVals(r, len(keys))
	n := len(keys)
	var probes [][]byte
	addP := func(k []byte) { probes = append(probes, clone(k)) }
	for _, back := range []int{1, 2, 63, 64, 65, 66, wide - 1, wide, wide + 1} {
		if back >= 1 && back <= n {
			k := keys[n-back]
			addP(k)
			addP(append(clone(k), 0x00))
			if len(k) > 0 {
				x := clone(k)
				x[len(x)-1]++
				addP(x)
				addP(k[:len(k)-1])
			}
		}
	}
	addP([]byte{0xff, 0xff, 0xff})
	seen := map[string]bool{}
	uniq := probes[:0]
	for _, p := range append(probes, genProbes(r, keys, 8)...) {
		if !seen[string(p)] {
			seen[string(p)] = true
			uniq = append(uniq, p)
		}
	}
	trieCase(c, r, keys, vals, uniq, len(keys) > 400)
}

// ---------------------------------------------------------------- bit vector cases

// bitvecCase: idx%3 == 0 is the boundary-directed variant (deterministic by case index): the vector's
// length is 64*k (or 64*k +- 1) and it ends in a run of zeros of length 1 / 63..66 / 127..129 / ..., i.e. the
// run behind the last set bit ends inside, exactly fills, or crosses the final word(s) — the loop and the
// unused-tail correction at the end of DistanceToNextSetBit; distances are asked at the last set bit,
// inside the run and around the start of the final word.
func bitvecCase(c *core.Ctx, r *rand.Rand, idx int) {
	nb := 1 + r.Intn(4)
	blocks := make([][]bool, nb)
	var all []bool
	var parts []string
	density := []float64{0.02, 0.2, 0.5, 0.9}[r.Intn(4)]
	for i := range blocks {
		n := []int{0, 1, 5, 63, 64, 65, 127, 128, 129, 200, 511, 512, 513, 700, 1500}[r.Intn(15)]
		if i == 0 && n == 0 {
			n = 3
		}
		blk := make([]bool, n)
		for j := range blk {
			blk[j] = r.Float64() < density
		}
		if i == 0 {
			blk[0] = true // Select relies on bit 0 being set (the root's first label)
		}
		blocks[i] = blk
		all = append(all, blk...)
		if n == 0 {
			parts = append(parts, "-")
		} else {
			parts = append(parts, showBits(blk))
		}
	}
	directed := []int{}
	if idx%3 == 0 {
		j := idx / 3
		ks := []int{2, 1, 3, 4, 8, 9, 5, 16}
		ts := []int{66, 65, 64, 1, 127, 128, 129, 63, 100, 2, 200, 70}
		n := 64*ks[j%len(ks)] + []int{0, 0, 0, 0, 1, -1}[(j/len(ks))%6]
		t := ts[(j+j/len(ks))%len(ts)]
		if t > n-1 {
			t = n - 1
		}
		all = make([]bool, n)
		for q := 0; q < n-t-1; q++ {
			all[q] = r.Float64() < density
		}
		all[0], all[n-t-1] = true, true
		// cut into 1..3 level blocks at random places
		blocks, parts = nil, nil
		cuts := []int{0}
		for q := r.Intn(3); q > 0; q-- {
			cuts = append(cuts, r.Intn(n+1))
		}
		cuts = append(cuts, n)
		sort.Ints(cuts)
		for q := 0; q+1 < len(cuts); q++ {
			blk := append([]bool{}, all[cuts[q]:cuts[q+1]]...)
			if len(blk) == 0 {
				continue
			}
			blocks = append(blocks, blk)
			parts = append(parts, showBits(blk))
		}
		directed = []int{n - t - 1, n - t, n - 65, n - 64, n - 66, n - 2}
		switch {
		case n%64 == 0 && t > 64:
			c.Branch("bitvec-tail-64k-run-crosses-final-word")
		case n%64 == 0:
			c.Branch("bitvec-tail-64k-run-inside-final-word")
		default:
			c.Branch("bitvec-tail-off-by-one-length")
		}
	}
	var v *trie.VerifBitVec
	ones := 0
	for _, b := range all {
		if b {
			ones++
		}
	}
	c.Guard("bv "+strings.Join(parts, " "), func() string {
		v = trie.VerifNewBitVec(blocks)
		return fmt.Sprintf("ok n=%d ones=%d", v.NumBits(), v.NumOnes())
	})
	if v == nil {
		return
	}
	c.NonTrivial()
	c.Branch("bitvec")
	c.Op("bvbits", showBits(v.Bits()))
	if showBits(v.Bits()) != showBits(all) || showBits(v.SelBits()) != showBits(all) {
		c.Fail("bitvector-concat", "bitVector.Init did not concatenate the level bitmaps")
	}
	c.Op("bvranklut", showU32(v.RankLut()))
	c.Op("bvsellut", showU32(v.SelectLut()))
	n := len(all)
	// select inside one word: the words of this vector, and directed ones (one bit per byte, full bytes,
	// a single top / bottom bit, bits around the byte boundaries), ranks 1, popcount, around multiples of 8
	{
		var ws []uint64
		for j := 0; j*64 < n && j < 4; j++ {
			var w uint64
			for q := 0; q < 64 && j*64+q < n; q++ {
				if all[j*64+q] {
					w |= 1 << uint(q)
				}
			}
			ws = append(ws, w)
		}
		ws = append(ws, []uint64{1, 1 << 63, 0x8000000000000001, 0x0101010101010101, 0x8080808080808080,
			0xffffffffffffffff, 0xff00ff00ff00ff00, 0x00000000000180, r.Uint64(), r.Uint64() & r.Uint64(), r.Uint64() | r.Uint64()}...)
		for _, w := range ws {
			pc := mbits.OnesCount64(w)
			if pc == 0 {
				continue
			}
			for _, k := range []int{1, pc, 1 + r.Intn(pc), (pc / 8) * 8, (pc/8)*8 + 1} {
				if k < 1 || k > pc {
					continue
				}
				var got int64
				c.Guard(fmt.Sprintf("sel64 %016x %d", w, k), func() string {
					got = trie.VerifSelect64(w, int64(k))
					return strconv.Itoa(int(got))
				})
				bw := trie.VerifSelect64Broadword(w, int64(k))
				want, cnt := -1, 0
				for q := 0; q < 64; q++ {
					if w>>uint(q)&1 == 1 {
						cnt++
						if cnt == k {
							want = q
							break
						}
					}
				}
				if int(got) != want || int(bw) != want {
					c.Fail("select64-mismatch", fmt.Sprintf("select64(%016x,%d)=%d broadword=%d, the %d-th set bit is at %d", w, k, got, bw, k, want))
				}
			}
		}
	}
	for i := 0; i < 14; i++ {
		pos := r.Intn(n)
		switch i {
		case 0:
			pos = n - 1
		case 1:
			pos = 0
		case 2:
			pos = (n - 1) / 64 * 64
		case 3:
			if n > 512 {
				pos = 511 + r.Intn(2)
			}
		}
		if i >= 4 && i-4 < len(directed) && directed[i-4] >= 0 && directed[i-4] < n {
			pos = directed[i-4]
		}
		var got uint32
		c.Guard(fmt.Sprintf("rank %d", pos), func() string {
			got = v.Rank(uint32(pos))
			return strconv.Itoa(int(got))
		})
		want := 0
		for j := 0; j <= pos; j++ {
			if all[j] {
				want++
			}
		}
		if int(got) != want {
			c.Fail("rank-mismatch", fmt.Sprintf("Rank(%d)=%d, %d bits are set in [0,%d]", pos, got, want, pos))
		}
		c.Guard(fmt.Sprintf("dist %d", pos), func() string {
			got = v.Distance(uint32(pos))
			return strconv.Itoa(int(got))
		})
		want = 1
		for j := pos + 1; j < n && !all[j]; j++ {
			want++
		}
		// the early exit `wordOff >= len(bits)` answers 0 for the very last bit of a full word; that
		// position is never the first label of a node with more labels, so it is not a violation
		if int(got) != want && !(pos == n-1 && n%64 == 0 && got == 0) {
			c.Fail("distance-mismatch", fmt.Sprintf("DistanceToNextSetBit(%d)=%d want %d (n=%d)", pos, got, want, n))
		}
		if ones > 0 {
			k := 1 + r.Intn(ones)
			switch i {
			case 0:
				k = ones
			case 1:
				k = 1
			case 2:
				if ones >= 64 {
					k = 64
				}
			case 3:
				if ones >= 65 {
					k = 65
				}
			}
			c.Guard(fmt.Sprintf("select %d", k), func() string {
				got = v.Select(uint32(k))
				return strconv.Itoa(int(got))
			})
			cnt, want := 0, -1
			for j := 0; j < n; j++ {
				if all[j] {
					cnt++
					if cnt == k {
						want = j
						break
					}
				}
			}
			if int(got) != want {
				c.Fail("select-mismatch", fmt.Sprintf("Select(%d)=%d, the %d-th set bit is at %d", k, got, k, want))
			}
		}
	}
}

// ---------------------------------------------------------------- bucket cases (index/model + index/v1)

// memWriter / memFlusher / memSnapshot: in-memory stand-ins for the kv store seams that
// index/v1's flusher, merger and reader are written against (only the calls they make).
type memWriter struct {
	table.StreamWriter
	key    uint32
	buf    bytes.Buffer
	values map[uint32][][]byte
}

func (w *memWriter) Prepare(key uint32)          { w.key = key; w.buf.Reset() }
func (w *memWriter) Write(p []byte) (int, error) { return w.buf.Write(p) }
func (w *memWriter) Size() uint32                { return uint32(w.buf.Len()) }
func (w *memWriter) Commit() error {
	w.values[w.key] = append(w.values[w.key], clone(w.buf.Bytes()))
	return nil
}

type memFlusher struct {
	kv.Flusher
	w *memWriter
}

func (f *memFlusher) StreamWriter() (table.StreamWriter, error) { return f.w, nil }
func (f *memFlusher) Commit() error                             { return nil }
func (f *memFlusher) Release()                                  {}

type memSnapshot struct {
	version.Snapshot
	values map[uint32][][]byte
}

func (s *memSnapshot) Load(key uint32, loader func(value []byte) error) error {
	for _, v := range s.values[key] {
		if err := loader(v); err != nil {
			return err
		}
	}
	return nil
}

// trie sizes inside serialized bucket blocks: [u32 size][u32 totalKeys ...]
func blockSizes(blocks [][]byte) (sizes []int) {
	for _, b := range blocks {
		for len(b) >= 8 {
			sz := binary.LittleEndian.Uint32(b[:4])
			sizes = append(sizes, int(binary.LittleEndian.Uint32(b[4:8])))
			if int(4+sz) > len(b) {
				break
			}
			b = b[4+sz:]
		}
	}
	sort.Ints(sizes)
	return
}

func showInts(xs []int) string {
	if len(xs) == 0 {
		return "empty"
	}
	s := make([]string, len(xs))
	for i, x := range xs {
		s[i] = strconv.Itoa(x)
	}
	return strings.Join(s, " ")
}

type bucketSubject struct {
	c        *core.Ctx
	b        *model.TrieBucket
	all      map[string]uint32
	tag      string
	tries    [][]pair // contents of the tries of the bucket (read back from the serialized blocks)
	singleFF bool     // some trie holds exactly the key "\xff"
}

// trieContents reads the serialized tries back and lists their pairs.
func trieContents(blocks [][]byte) (out [][]pair) {
	for _, b := range blocks {
		for len(b) >= 8 {
			sz := binary.LittleEndian.Uint32(b[:4])
			if int(4+sz) > len(b) {
				break
			}
			t := trie.NewTrie()
			if err := t.UnmarshalBinary(b[4 : 4+sz]); err == nil {
				var ps []pair
				func() {
					defer func() { _ = recover() }()
					it := t.NewIterator()
					for it.SeekToFirst(); it.Valid(); it.Next() {
						ps = append(ps, pair{clone(it.Key()), it.Value()})
					}
				}()
				out = append(out, ps)
			}
			b = b[4+sz:]
		}
	}
	return
}

func newBucketSubject(c *core.Ctx, b *model.TrieBucket, all map[string]uint32, tag string, blocks [][]byte) *bucketSubject {
	s := &bucketSubject{c: c, b: b, all: all, tag: tag, tries: trieContents(blocks)}
	for _, t := range s.tries {
		if len(t) == 1 && bytes.Equal(t[0].k, []byte{0xff}) {
			s.singleFF = true
		}
	}
	return s
}

func (s *bucketSubject) sortedPairs() []pair {
	var ps []pair
	for k, v := range s.all {
		ps = append(ps, pair{[]byte(k), v})
	}
	sort.Slice(ps, func(i, j int) bool { return bytes.Compare(ps[i].k, ps[j].k) < 0 })
	return ps
}

// suggest: Suggest(prefix, limit) against the first `limit` keys of the sorted union with the
// prefix. The merged iterator keeps slices that alias the trie iterators' key buffers, so its
// output depends on Go's slice reuse once a queued key is followed by another key in its trie; that is below the
// model's abstraction, so a wrong answer in that shape is reported (recorded finding) and not
// sent to the model.
func (s *bucketSubject) suggest(p []byte, limit int, want []string) {
	c := s.c
	op := fmt.Sprintf("bsuggest %s %d", hx(p), limit)
	var got []string
	panicked := false
	func() {
		defer func() {
			if rec := recover(); rec != nil {
				panicked = true
				c.Fail("panic", fmt.Sprintf("op %q panicked: %v", op, rec))
			}
		}()
		got = s.b.Suggest(string(p), limit)
	}()
	ks := make([][]byte, len(got))
	for i := range got {
		ks[i] = []byte(got[i])
	}
	if panicked {
		c.Op(op, "panic")
		return
	}
	if strings.Join(got, "\x01") == strings.Join(want, "\x01") {
		c.Op(op, showKeys(ks))
		c.Branch("suggest-ok")
		return
	}
	// shape of the recorded finding: a key with the prefix is followed by another key in its own
	// trie, so the iterator's Next() rewrites the buffer the queued key points into
	twoFromOne := false
	for _, t := range s.tries {
		for i, kv := range t {
			if bytes.HasPrefix(kv.k, p) && i+1 < len(t) {
				twoFromOne = true
			}
		}
	}
	if twoFromOne {
		c.Note(op + " => " + showKeys(ks) + " (not sent to the model: key aliasing)")
		c.Fail(keySuggest, fmt.Sprintf("[%s] Suggest(%s,%d) = %s, the sorted union gives %d keys starting %q", s.tag, hx(p), limit, showKeys(ks), len(want), first(want)))
		c.Branch("suggest-aliasing")
		return
	}
	c.Op(op, showKeys(ks))
	c.Fail("bucket-suggest-mismatch", fmt.Sprintf("[%s] Suggest(%s,%d) = %s, want %d keys", s.tag, hx(p), limit, showKeys(ks), len(want)))
}

func first(xs []string) string {
	if len(xs) == 0 {
		return ""
	}
	return xs[0]
}

func (s *bucketSubject) queries(r *rand.Rand, probes [][]byte) {
	c := s.c
	all := s.sortedPairs()
	for _, k := range probes {
		var v uint32
		var ok bool
		c.Guard("bget "+hx(k), func() string {
			v, ok = s.b.GetValue(k)
			return showOpt(v, ok)
		})
		ev, eok := s.all[string(k)]
		if ffv, has := s.all["\xff"]; len(k) == 0 && !eok && ok && has && v == ffv && s.singleFF {
			// recorded finding at bucket level: a trie holding only "\xff" answers Get("")
			c.Fail(keyGetFF, fmt.Sprintf("[%s] GetValue(-)=%s: a trie of the bucket holds the single key ff", s.tag, showOpt(v, ok)))
		} else if ok != eok || (ok && v != ev) {
			c.Fail("bucket-get-mismatch", fmt.Sprintf("[%s] GetValue(%s)=%s, union says %s", s.tag, hx(k), showOpt(v, ok), showOpt(ev, eok)))
		}
	}
	// the same lookups through ONE reused probe buffer (the write path resolves tag values out of a
	// recycled block): a lookup's answer must depend on the probe's BYTES only, not on the memory they sit
	// in nor on earlier lookups. Equal-length keys follow each other, present after present, absent after
	// present; the buffer is overwritten after every call.
	{
		sess := make([][]byte, 0, len(probes)+24)
		sess = append(sess, probes...)
		for i := 0; i < 24 && len(all) > 0; i++ {
			sess = append(sess, all[r.Intn(len(all))].k)
		}
		r.Shuffle(len(sess), func(i, j int) { sess[i], sess[j] = sess[j], sess[i] })
		sort.SliceStable(sess, func(i, j int) bool { return len(sess[i]) < len(sess[j]) })
		maxLen := 0
		for _, k := range sess {
			if len(k) > maxLen {
				maxLen = len(k)
			}
		}
		scratch := make([]byte, maxLen+1)
		for _, k := range sess {
			copy(scratch, k)
			probe := scratch[:len(k)]
			var v uint32
			var ok bool
			c.Guard("bget "+hx(k), func() string {
				v, ok = s.b.GetValue(probe)
				return showOpt(v, ok)
			})
			for i := range scratch { // the caller recycles the memory
				scratch[i] ^= 0x5a
			}
			ev, eok := s.all[string(k)]
			if ffv, has := s.all["\xff"]; len(k) == 0 && !eok && ok && has && v == ffv && s.singleFF {
				c.Fail(keyGetFF, fmt.Sprintf("[%s] GetValue(-)=%s: a trie of the bucket holds the single key ff", s.tag, showOpt(v, ok)))
			} else if ok != eok || (ok && v != ev) {
				c.Fail("bucket-get-mismatch", fmt.Sprintf("[%s] GetValue(%s) through a reused probe buffer =%s, union says %s", s.tag, hx(k), showOpt(v, ok), showOpt(ev, eok)))
			}
			if eok {
				c.Branch("bucket-get-reused-buffer-present")
			} else {
				c.Branch("bucket-get-reused-buffer-absent")
			}
		}
	}
	// all values
	var vals []uint32
	c.Guard("bvalues", func() string {
		vals = append([]uint32{}, s.b.GetValues()...)
		sort.Slice(vals, func(i, j int) bool { return vals[i] < vals[j] })
		return showU32(vals)
	})
	if len(vals) != len(all) {
		c.Fail("bucket-values-mismatch", fmt.Sprintf("[%s] GetValues returned %d values, union has %d", s.tag, len(vals), len(all)))
	}
	// full enumeration through the prefix iterators (duplicates would show)
	var enum []uint32
	c.Guard("blike - pre -", func() string {
		enum = s.b.FindValuesByLike(nil, nil, bytes.HasPrefix, nil)
		sort.Slice(enum, func(i, j int) bool { return enum[i] < enum[j] })
		return showU32(enum)
	})
	for i := 1; i < len(enum); i++ {
		if enum[i] == enum[i-1] {
			c.Fail("bucket-enumeration-duplicates", fmt.Sprintf("[%s] value %d is enumerated more than once", s.tag, enum[i]))
			break
		}
	}
	if len(enum) != len(all) {
		c.Fail("bucket-enumeration-mismatch", fmt.Sprintf("[%s] enumeration returned %d values, union has %d", s.tag, len(enum), len(all)))
	}
	// all pairs through CollectKVs
	c.Guard("bpairs", func() string {
		bm := roaring.New()
		for _, p := range all {
			bm.Add(p.v)
		}
		res := map[uint32]string{}
		s.b.CollectKVs(bm, res)
		var ps []pair
		for v, k := range res {
			ps = append(ps, pair{[]byte(k), v})
		}
		sort.Slice(ps, func(i, j int) bool { return bytes.Compare(ps[i].k, ps[j].k) < 0 })
		if !samePairs(ps, all) {
			c.Fail("bucket-collect-mismatch", fmt.Sprintf("[%s] CollectKVs returned %d pairs, union has %d (or they differ)", s.tag, len(ps), len(all)))
		}
		return showPairs(ps)
	})
	// CollectKVs with SUBSETS of the values (round 12): the early return once the wanted set is empty, wanted
	// values spread over several tries, wanted values nobody has, the empty set
	if len(all) > 0 {
		maxv := uint32(0)
		for _, p := range all {
			if p.v > maxv {
				maxv = p.v
			}
		}
		pick := func(n int) []uint32 {
			var out []uint32
			for _, i := range r.Perm(len(all)) {
				if len(out) >= n {
					break
				}
				out = append(out, all[i].v)
			}
			return out
		}
		wanted := [][]uint32{
			{all[0].v}, {all[len(all)-1].v}, pick(1), pick(2 + r.Intn(5)), pick(1 + min(len(all)/2, 300)),
			append(pick(2), maxv+1, maxv+77), {maxv + 5}, {},
		}
		for _, w := range wanted {
			ws := make([]string, len(w))
			in := map[uint32]bool{}
			for i, x := range w {
				ws[i] = strconv.Itoa(int(x))
				in[x] = true
			}
			var want []pair
			for _, p := range all {
				if in[p.v] {
					want = append(want, p)
				}
			}
			c.Guard(strings.TrimSpace("bcollect "+strings.Join(ws, " ")), func() string {
				bm := roaring.New()
				for _, x := range w {
					bm.Add(x)
				}
				res := map[uint32]string{}
				s.b.CollectKVs(bm, res)
				var ps []pair
				for v, k := range res {
					ps = append(ps, pair{[]byte(k), v})
				}
				sort.Slice(ps, func(i, j int) bool { return bytes.Compare(ps[i].k, ps[j].k) < 0 })
				if !samePairs(ps, want) {
					c.Fail("bucket-collect-mismatch", fmt.Sprintf("[%s] CollectKVs(%d wanted values) returned %d pairs, the union has %d pairs with these values (or they differ)", s.tag, len(w), len(ps), len(want)))
				}
				return showPairs(ps)
			})
		}
		c.Branch("bucket-collect-subsets")
	}
	for i, p := range probes {
		if i >= 8 {
			break
		}
		limit := []int{1, 2, 3, 10, 1000}[r.Intn(5)]
		var want []string
		for _, kv := range all {
			if bytes.HasPrefix(kv.k, p) && len(want) < limit {
				want = append(want, string(kv.k))
			}
		}
		s.suggest(p, limit, want)
		// like: prefix + check(key, sub)
		mode := []string{"pre", "suf", "has"}[r.Intn(3)]
		sub := randKey(r, smallAlpha, 2)
		if len(all) > 0 && r.Intn(2) == 0 {
			k := all[r.Intn(len(all))].k
			if len(k) > 0 {
				a := r.Intn(len(k))
				sub = k[a : a+1+r.Intn(len(k)-a)]
			}
		}
		check := map[string]func(a, b []byte) bool{"pre": bytes.HasPrefix, "suf": bytes.HasSuffix, "has": bytes.Contains}[mode]
		var ids []uint32
		c.Guard(fmt.Sprintf("blike %s %s %s", hx(p), mode, hx(sub)), func() string {
			ids = s.b.FindValuesByLike(p, sub, check, nil)
			sort.Slice(ids, func(i, j int) bool { return ids[i] < ids[j] })
			return showU32(ids)
		})
		var wantIDs []uint32
		for _, kv := range all {
			if bytes.HasPrefix(kv.k, p) && check(kv.k, sub) {
				wantIDs = append(wantIDs, kv.v)
			}
		}
		sort.Slice(wantIDs, func(i, j int) bool { return wantIDs[i] < wantIDs[j] })
		if showU32(ids) != showU32(wantIDs) {
			c.Fail("bucket-like-mismatch", fmt.Sprintf("[%s] FindValuesByLike(%s,%s,%s) = %s want %s", s.tag, hx(p), mode, hx(sub), showU32(ids), showU32(wantIDs)))
		}
	}
	// regexp (oracle only: Go's regexp is not modelled): literal prefix + pattern
	for i := 0; i < 3 && len(all) > 0; i++ {
		k := all[r.Intn(len(all))].k
		lit := k[:r.Intn(len(k)+1)]
		pat := "^" + regexp.QuoteMeta(string(lit)) + []string{".*", ".+", "[a-z0-9]*", ".?.?", "(a|b|\\x00)*"}[r.Intn(5)] + "$"
		rp, err := regexp.Compile("(?s)" + pat)
		if err != nil {
			continue
		}
		func() {
			defer func() {
				if rec := recover(); rec != nil {
					c.Fail("panic", fmt.Sprintf("FindValuesByRegexp(%q) panicked: %v", pat, rec))
				}
			}()
			ids := s.b.FindValuesByRegexp(rp, nil)
			sort.Slice(ids, func(i, j int) bool { return ids[i] < ids[j] })
			var want []uint32
			for _, kv := range all {
				if rp.Match(kv.k) {
					want = append(want, kv.v)
				}
			}
			sort.Slice(want, func(i, j int) bool { return want[i] < want[j] })
			if showU32(ids) != showU32(want) {
				c.Fail("bucket-regexp-mismatch", fmt.Sprintf("[%s] FindValuesByRegexp(%q) = %s want %s", s.tag, pat, showU32(ids), showU32(want)))
			}
			c.Note(fmt.Sprintf("regexp %q matched %d", pat, len(ids)))
			c.Branch("regexp-checked")
		}()
	}
}

func bucketCase(c *core.Ctx, r *rand.Rand, tier string, viaV1 bool) {
	blockSize := []int{1, 2, 3, 5, 8, 16, 100, 65535}[r.Intn(8)]
	ngroups := 1 + r.Intn(4)
	keys, shape := genKeys(r, tier, false)
	c.Branch("bucket-keys-" + shape)
	// the empty key in a block of its own is the recorded Build panic; keep it out of the random
	// bucket cases (it is replayed as a witness case)
	if len(keys) > 0 && len(keys[0]) == 0 {
		keys = keys[1:]
	}
	if len(keys) == 0 {
		keys = [][]byte{[]byte("k")}
	}
	perm := r.Perm(len(keys))
	groups := make([][]int, ngroups)
	if !viaV1 && r.Intn(3) == 0 {
		// one flush with at least blockSize keys (=> full tries, kept as they are by the merge) and two
		// to four small ones (=> pending tries, rebuilt): the merged bucket must enumerate every pair once
		blockSize = []int{2, 4, 8, 16, 64}[r.Intn(5)]
		for len(keys) < 2*blockSize+8 {
			keys = append(keys, []byte(fmt.Sprintf("zz-extra-%04d", len(keys))))
		}
		sort.Slice(keys, func(i, j int) bool { return bytes.Compare(keys[i], keys[j]) < 0 })
		perm = r.Perm(len(keys))
		nfull := blockSize + r.Intn(blockSize+1)
		ngroups = 3 + r.Intn(3)
		groups = make([][]int, ngroups)
		groups[0] = perm[:nfull]
		rest := perm[nfull:]
		for g := 1; g < ngroups && len(rest) > 0; g++ {
			n := 1 + r.Intn(blockSize-1)
			if n > len(rest) {
				n = len(rest)
			}
			groups[g] = rest[:n]
			rest = rest[n:]
		}
		c.Branch("bucket-full-plus-small")
	} else {
		for _, i := range perm {
			g := r.Intn(ngroups)
			groups[g] = append(groups[g], i)
		}
	}
	vals := genVals(r, len(keys))
	runBucket(c, r, blockSize, keys, vals, groups, viaV1, 14)
}

// blockSplitSizes / blockSplitCase (round 12): the block splitting of TrieBucketBuilder.Write at every
// key count RELATIVE TO THE BLOCK SIZE. Block size and number of full blocks are fixed by case index
// (k%len(sizes), 1 + k/len(sizes)%3), and EVERY remainder of the directed list (0, 1, 2, and the
// fractions blockSize/16, /8, /4, /3, /2 each -1 / exact / +1, blockSize-2, blockSize-1; for block sizes
// <= 9 that is every remainder) is run in that case: n = q*blockSize + rem keys either as ONE flush (the
// builder cuts it) or as q+1.. small flushes that TrieBucket.Write (the merge) rebuilds through the
// builder, directly or through index/v1's flusher; half of the remainders each way, the other half in the
// case with the same block size and the next q. Also n <= blockSize (q = 0) for rem = 1, blockSize-1.
var blockSplitSizes = []int{2, 3, 4, 5, 7, 8, 9, 16, 17, 24, 32, 40, 64, 100}

func blockSplitRems(bs int) []int {
	cand := []int{0, 1, 2, bs / 16, bs/8 - 1, bs / 8, bs/8 + 1, bs/4 - 1, bs / 4, bs/4 + 1, bs / 3, bs/2 - 1, bs / 2, bs/2 + 1, bs - 2, bs - 1}
	seen := map[int]bool{}
	var out []int
	for _, x := range cand {
		if x >= 0 && x < bs && !seen[x] {
			seen[x] = true
			out = append(out, x)
		}
	}
	sort.Ints(out)
	return out
}

func blockSizesInOrder(block []byte) (sizes []int) {
	b := block
	for len(b) >= 8 {
		sz := binary.LittleEndian.Uint32(b[:4])
		sizes = append(sizes, int(binary.LittleEndian.Uint32(b[4:8])))
		if int(4+sz) > len(b) {
			break
		}
		b = b[4+sz:]
	}
	return
}

func blockSplitCase(c *core.Ctx, r *rand.Rand, k int) {
	bs := blockSplitSizes[k%len(blockSplitSizes)]
	round := k / len(blockSplitSizes)
	q := 1 + round%3
	c.Branch(fmt.Sprintf("block-split-bs-%d", bs))
	pool, _ := genKeys(r, "quick", false)
	if len(pool) > 0 && len(pool[0]) == 0 {
		pool = pool[1:]
	}
	type job struct{ n, mode int }
	var jobs []job
	for j, rem := range blockSplitRems(bs) {
		jobs = append(jobs, job{q*bs + rem, (j + round) % 2})
	}
	jobs = append(jobs, job{1, round % 2}, job{bs - 1, (round + 1) % 2}, job{bs, round % 2})
	for _, jb := range jobs {
		n := jb.n
		if n <= 0 {
			continue
		}
		keys := append([][]byte{}, pool...)
		for len(keys) < n {
			keys = append(keys, []byte(fmt.Sprintf("zz-extra-%04d", len(keys))))
		}
		r.Shuffle(len(keys), func(a, b int) { keys[a], keys[b] = keys[b], keys[a] })
		keys = keys[:n]
		sort.Slice(keys, func(a, b int) bool { return bytes.Compare(keys[a], keys[b]) < 0 })
		vals := genVals(r, n)
		// (1) the split itself: sizes of the tries in WRITTEN order
		func() {
			ks := make([][]byte, n)
			ids := make([]uint32, n)
			for j, i := range r.Perm(n) {
				ks[j], ids[j] = clone(keys[i]), vals[i]
			}
			var buf bytes.Buffer
			var sizes []int
			c.Guard(fmt.Sprintf("bsplit %d %d", bs, n), func() string {
				if err := model.NewTrieBucketBuilder(bs, &buf).Write(ks, ids); err != nil {
					return "write-error"
				}
				sizes = blockSizesInOrder(buf.Bytes())
				return showInts(sizes)
			})
			sum := 0
			bad := false
			for j, x := range sizes {
				sum += x
				if x < 1 || x > bs || (j < len(sizes)-1 && x != bs) {
					bad = true
				}
			}
			if sum != n || bad {
				c.Fail("bucket-blocks-not-a-partition", fmt.Sprintf("TrieBucketBuilder(blockSize=%d).Write(%d keys) wrote tries of %s keys (sum %d): not %d keys in full blocks + one remainder", bs, n, showInts(sizes), sum, n))
			}
		}()
		// (2) the dictionary behind it: one flush, or small flushes rebuilt by the merge
		perm := r.Perm(n)
		var groups [][]int
		if jb.mode == 0 || bs < 2 || n < 2 {
			groups = [][]int{perm}
			c.Branch("block-split-one-flush")
		} else {
			// every flush below the block size => all of them pending => the merge rebuilds n keys
			for len(perm) > 0 {
				m := 1 + r.Intn(bs-1)
				if m > len(perm) {
					m = len(perm)
				}
				groups = append(groups, perm[:m])
				perm = perm[m:]
			}
			c.Branch("block-split-merge-rebuild")
		}
		rem := n % bs
		switch {
		case n <= bs:
			c.Branch("block-split-n-le-blocksize")
		case rem == 0:
			c.Branch("block-split-rem-0")
		case rem == bs/8:
			c.Branch("block-split-rem-eq-eighth")
		case rem < bs/8:
			c.Branch("block-split-rem-below-eighth")
		case rem*2 < bs:
			c.Branch("block-split-rem-below-half")
		default:
			c.Branch("block-split-rem-upper-half")
		}
		runBucket(c, r, bs, keys, vals, groups, jb.mode == 0 && n%3 == 0, 6)
	}
}

// bucket framing (round 12): the stored values of a bucket are frames `[u32 size][trie image]` one after the
// other. frameDigests cuts the values the way TrieBucket.Unmarshal does and digests every frame.
func byteDigest(bs []byte) uint64 {
	h := uint64(7)
	for _, b := range bs {
		h = (h*31 + uint64(b) + 1) % 1000000007
	}
	return h
}

func frameDigests(values [][]byte) (ds []int, ok bool) {
	for _, v := range values {
		for len(v) > 0 {
			if len(v) < 4 {
				return ds, false
			}
			end := 4 + int(binary.LittleEndian.Uint32(v[:4]))
			if end > len(v) {
				return ds, false
			}
			ds = append(ds, int(byteDigest(v[:end])))
			v = v[end:]
		}
	}
	return ds, true
}

// bucketUnmarshalOutcome runs TrieBucket.Unmarshal on a fresh object over bytes with cap = len.
func bucketUnmarshalOutcome(value []byte) (line string) {
	defer func() {
		if p := recover(); p != nil {
			line = "rejected"
		}
	}()
	buf := make([]byte, len(value))
	copy(buf, value)
	b := model.NewTrieBucket()
	if err := b.Unmarshal(buf[:len(buf):len(buf)]); err != nil {
		return "rejected"
	}
	ds, ok := frameDigests([][]byte{buf})
	if !ok {
		return "accepted-unframed"
	}
	return fmt.Sprintf("ok n=%d d=%s", len(ds), showInts(ds))
}

// bucketFraming: `bframes` (count + digests of the frames, model-diffed; oracle: frames == tries loaded,
// keys in the frames == keys of the union) and, on small buckets, damaged framings through `bumal`.
func bucketFraming(c *core.Ctx, r *rand.Rand, tag string, values [][]byte, want int) {
	ds, ok := frameDigests(values)
	if !ok {
		c.Fail("bucket-framing-broken", fmt.Sprintf("[%s] the written value is not a sequence of [u32 size][image] frames", tag))
		return
	}
	sorted := append([]int{}, ds...)
	sort.Ints(sorted)
	vsize := 0
	for _, v := range values {
		vsize += len(v)
	}
	if vsize <= 200000 {
		// (the model frames and re-reads its own tries over byte LISTS: kept to values of <= 200 KB; above that
		// only the impl-side checks below)
		c.Op("bframes", fmt.Sprintf("ok n=%d d=%s", len(ds), showInts(sorted)))
	}
	total := 0
	for _, x := range blockSizes(values) {
		total += x
	}
	if total != want {
		c.Fail("bucket-framing-key-count", fmt.Sprintf("[%s] the frames hold %d keys, the union has %d", tag, total, want))
	}
	c.Branch("bucket-framing-checked")
	size := 0
	for _, v := range values {
		size += len(v)
	}
	if size == 0 || size > 1500 || r.Intn(3) != 0 {
		return
	}
	// damaged framings of the concatenated value
	var value []byte
	for _, v := range values {
		value = append(value, v...)
	}
	first := 4 + int(binary.LittleEndian.Uint32(value[:4]))
	variants := [][]byte{
		value[:first],           // cut at a frame boundary: a shorter bucket
		value[:first-1],         // inside the first image
		value[:len(value)-1],    // last byte missing
		value[:2],               // inside a size word
		append(clone(value), 9), // one stray byte after the last frame
	}
	if first+2 <= len(value) {
		variants = append(variants, value[:first+2]) // inside the second size word
	}
	for _, d := range []int{1, -1, 7, 1 << 20} {
		v := clone(value)
		binary.LittleEndian.PutUint32(v[:4], uint32(int(binary.LittleEndian.Uint32(v[:4]))+d))
		variants = append(variants, v)
	}
	for _, x := range []uint32{0, 3, 0xfffffffc, 0xfffffffe, 0xffffffff} {
		v := clone(value)
		binary.LittleEndian.PutUint32(v[:4], x)
		variants = append(variants, v)
	}
	for i := 0; i < 3; i++ {
		v := clone(value)
		v[r.Intn(len(v))] = byte(r.Intn(256))
		variants = append(variants, v)
	}
	for _, v := range variants {
		line := bucketUnmarshalOutcome(v)
		c.Op("bumal "+hx(v), line)
		if strings.HasPrefix(line, "ok") {
			c.Branch("bucket-framing-damaged-accepted")
		} else {
			c.Branch("bucket-framing-damaged-rejected")
		}
	}
}

// fullTrieMergeCase (thorough tier): the block size the index merger really works with
// (math.MaxUint16): one flush of more than 65535 keys (=> one full trie + a remainder) and two or
// three small flushes, merged through index/v1's merger.
func fullTrieMergeCase(c *core.Ctx, r *rand.Rand) {
	const blockSize = 65535
	n := blockSize + 1 + r.Intn(300)
	set := map[string]bool{}
	for len(set) < n+120 {
		switch r.Intn(3) {
		case 0:
			set[fmt.Sprintf("host-%06d", r.Intn(4*n))] = true
		case 1:
			set[fmt.Sprintf("%c%c/%05d", 'a'+r.Intn(26), 'a'+r.Intn(26), r.Intn(99999))] = true
		default:
			k := make([]byte, 1+r.Intn(5))
			r.Read(k)
			set[string(k)] = true
		}
	}
	var keys [][]byte
	for k := range set {
		keys = append(keys, []byte(k))
	}
	sort.Slice(keys, func(i, j int) bool { return bytes.Compare(keys[i], keys[j]) < 0 })
	perm := r.Perm(len(keys))
	ngroups := 3 + r.Intn(2)
	groups := make([][]int, ngroups)
	groups[0] = perm[:n]
	rest := perm[n:]
	for g := 1; g < ngroups; g++ {
		m := len(rest) / (ngroups - g)
		groups[g] = rest[:m]
		rest = rest[m:]
	}
	c.Branch("bucket-65535-full-plus-small")
	runBucket(c, r, blockSize, keys, genVals(r, len(keys)), groups, true, 10)
}

func runBucket(c *core.Ctx, r *rand.Rand, blockSize int, keys [][]byte, vals []uint32, groups [][]int, viaV1 bool, nprobes int) {
	all := map[string]uint32{}
	var sb strings.Builder
	fmt.Fprintf(&sb, "bucket %d", blockSize)
	for _, g := range groups {
		if len(g) == 0 {
			continue
		}
		sb.WriteString(" |")
		for _, i := range g {
			fmt.Fprintf(&sb, " %s:%d", hx(keys[i]), vals[i])
			all[string(keys[i])] = vals[i]
		}
	}
	const bucketID = 7
	store := map[uint32][][]byte{}
	var bucket *model.TrieBucket
	c.Guard(sb.String(), func() string {
		for _, g := range groups {
			if len(g) == 0 {
				continue
			}
			ks := make([][]byte, len(g))
			ids := make([]uint32, len(g))
			for j, i := range g {
				ks[j], ids[j] = clone(keys[i]), vals[i]
			}
			if viaV1 {
				w := &memWriter{values: store}
				fl, err := v1.NewIndexKVFlusher(blockSize, &memFlusher{w: w})
				if err != nil {
					return "flusher-error"
				}
				fl.PrepareBucket(bucketID)
				if err := fl.WriteKVs(ks, ids); err != nil {
					return "write-error"
				}
				if err := fl.CommitBucket(); err != nil {
					return "commit-error"
				}
				_ = fl.Close()
			} else {
				var buf bytes.Buffer
				if err := model.NewTrieBucketBuilder(blockSize, &buf).Write(ks, ids); err != nil {
					return "write-error"
				}
				store[bucketID] = append(store[bucketID], clone(buf.Bytes()))
			}
		}
		if viaV1 {
			b, err := v1.NewIndexKVReader(&memSnapshot{values: store}).GetBucket(bucketID)
			if err != nil || b == nil {
				return "read-error"
			}
			bucket = b
		} else {
			bucket = model.NewTrieBucketWithBlockSize(blockSize)
			for _, blk := range store[bucketID] {
				if err := bucket.Unmarshal(blk); err != nil {
					bucket = nil
					return "unmarshal-error"
				}
			}
		}
		return fmt.Sprintf("ok tries=%d", len(blockSizes(store[bucketID])))
	})
	if bucket == nil {
		return
	}
	c.NonTrivial()
	if viaV1 {
		c.Branch("bucket-via-index-v1")
	} else {
		c.Branch("bucket-via-index-model")
	}
	c.Op("bsizes", showInts(blockSizes(store[bucketID])))
	bucketFraming(c, r, "flushed", store[bucketID], len(all))
	probes := genProbes(r, keys, nprobes)
	s := newBucketSubject(c, bucket, all, "flushed", store[bucketID])
	s.queries(r, probes)
	// merge: TrieBucket.Write (directly, or through index/v1's merger)
	var merged *model.TrieBucket
	var out [][]byte
	// index/v1's merger works on model.NewTrieBucket(), whose block size is math.MaxUint16
	mergeBlock := blockSize
	if viaV1 {
		mergeBlock = 65535
	}
	c.Guard(fmt.Sprintf("bmerge %d", mergeBlock), func() string {
		if viaV1 {
			w := &memWriter{values: map[uint32][][]byte{}}
			mg, err := v1.NewIndexKVMerger(&memFlusher{w: w})
			if err != nil {
				return "merger-error"
			}
			mg.Init(nil)
			if err := mg.Merge(bucketID, store[bucketID]); err != nil {
				return "merge-error"
			}
			out = w.values[bucketID]
			b, err := v1.NewIndexKVReader(&memSnapshot{values: w.values}).GetBucket(bucketID)
			if err != nil || b == nil {
				return "read-error"
			}
			merged = b
		} else {
			src := model.NewTrieBucketWithBlockSize(blockSize)
			for _, blk := range store[bucketID] {
				if err := src.Unmarshal(blk); err != nil {
					return "unmarshal-error"
				}
			}
			var buf bytes.Buffer
			if err := src.Write(&buf); err != nil {
				return "merge-error"
			}
			out = [][]byte{clone(buf.Bytes())}
			merged = model.NewTrieBucketWithBlockSize(blockSize)
			if err := merged.Unmarshal(out[0]); err != nil {
				merged = nil
				return "unmarshal-error"
			}
		}
		return fmt.Sprintf("ok tries=%d", len(blockSizes(out)))
	})
	if merged == nil {
		return
	}
	c.Op("bsizes", showInts(blockSizes(out)))
	bucketFraming(c, r, "merged", out, len(all))
	s2 := newBucketSubject(c, merged, all, "merged", out)
	s2.queries(r, probes)
	c.Branch("bucket-merged")
}

// mergerSessionCase drives ONE index/v1 merger instance through several Merge calls for different
// bucket ids, as a kv compaction job does (one merger per job, one Merge per key of the input
// files). The key sets of the buckets are disjoint or overlapping (the same key may live in two
// buckets: they are independent dictionaries). Every output is compared with the union of the
// inputs of ITS OWN call only.
func mergerSessionCase(c *core.Ctx, r *rand.Rand, tier string) {
	w := &memWriter{values: map[uint32][][]byte{}}
	mg, err := v1.NewIndexKVMerger(&memFlusher{w: w})
	if err != nil {
		c.Note("merger: " + err.Error())
		return
	}
	mg.Init(nil)
	base, shape := genKeys(r, tier, false)
	c.Branch("session-keys-" + shape)
	if len(base) > 0 && len(base[0]) == 0 {
		base = base[1:]
	}
	for len(base) < 6 {
		base = append(base, []byte(fmt.Sprintf("zz-extra-%04d", len(base))))
	}
	overlap := r.Intn(2) == 0
	if overlap {
		c.Branch("session-overlapping-buckets")
	} else {
		c.Branch("session-disjoint-buckets")
	}
	ncalls := 2 + r.Intn(3)
	perm := r.Perm(len(base))
	for call := 0; call < ncalls; call++ {
		bucketID := uint32(10 + call*7)
		// the keys of this bucket
		var idx []int
		if overlap {
			for _, i := range perm {
				if r.Intn(2) == 0 {
					idx = append(idx, i)
				}
			}
			if len(idx) == 0 {
				idx = []int{perm[0]}
			}
		} else {
			lo, hi := call*len(perm)/ncalls, (call+1)*len(perm)/ncalls
			idx = perm[lo:hi]
			if len(idx) == 0 {
				continue
			}
		}
		vals := genVals(r, len(base))
		ngroups := 1 + r.Intn(3)
		groups := make([][]int, ngroups)
		for _, i := range idx {
			g := r.Intn(ngroups)
			groups[g] = append(groups[g], i)
		}
		all := map[string]uint32{}
		var sb strings.Builder
		sb.WriteString("bucket 65535")
		var blocks [][]byte
		okIn := true
		for _, g := range groups {
			if len(g) == 0 {
				continue
			}
			sb.WriteString(" |")
			ks := make([][]byte, len(g))
			ids := make([]uint32, len(g))
			for j, i := range g {
				fmt.Fprintf(&sb, " %s:%d", hx(base[i]), vals[i])
				all[string(base[i])] = vals[i]
				ks[j], ids[j] = clone(base[i]), vals[i]
			}
			var buf bytes.Buffer
			if err := model.NewTrieBucketBuilder(65535, &buf).Write(ks, ids); err != nil {
				okIn = false
			}
			blocks = append(blocks, clone(buf.Bytes()))
		}
		if !okIn {
			c.Note("input flush failed")
			return
		}
		c.Op(sb.String(), fmt.Sprintf("ok tries=%d", len(blockSizes(blocks))))
		var merged *model.TrieBucket
		var out [][]byte
		c.Guard("bmerge 65535", func() string {
			delete(w.values, bucketID)
			if err := mg.Merge(bucketID, blocks); err != nil {
				return "merge-error"
			}
			out = w.values[bucketID]
			b, err := v1.NewIndexKVReader(&memSnapshot{values: w.values}).GetBucket(bucketID)
			if err != nil || b == nil {
				return "read-error"
			}
			merged = b
			return fmt.Sprintf("ok tries=%d", len(blockSizes(out)))
		})
		if merged == nil {
			c.Fail("merger-session-call-failed", fmt.Sprintf("Merge call %d (bucket %d) of one merger instance failed", call+1, bucketID))
			return
		}
		c.NonTrivial()
		c.Op("bsizes", showInts(blockSizes(out)))
		s := newBucketSubject(c, merged, all, fmt.Sprintf("session-call-%d", call+1), out)
		probes := genProbes(r, base, 8)
		s.queries(r, probes)
		// the same statement under a key of its own: the output holds the pairs of this call only
		vs := merged.GetValues()
		if len(vs) != len(all) {
			c.Fail("merger-output-depends-on-previous-merges", fmt.Sprintf("Merge call %d (bucket %d) of one merger instance returned %d pairs, its inputs hold %d", call+1, bucketID, len(vs), len(all)))
		}
		c.Branch("session-merge-call")
	}
}

// ---------------------------------------------------------------- index kv store on a real kv store

var kvSeq int

// likePatterns: patterns for indexKVStore.FindValuesByLike built around present keys.
func likePatterns(r *rand.Rand, keys [][]byte) [][]byte {
	out := [][]byte{[]byte("*"), []byte("**"), []byte("a*"), []byte("*a")}
	for i := 0; i < 10; i++ {
		k := keys[r.Intn(len(keys))]
		if len(k) == 0 {
			continue
		}
		a := r.Intn(len(k))
		b := a + 1 + r.Intn(len(k)-a)
		switch r.Intn(5) {
		case 0:
			out = append(out, append(clone(k[:b]), '*'))
		case 1:
			out = append(out, append([]byte{'*'}, k[a:]...))
		case 2:
			out = append(out, append(append([]byte{'*'}, k[a:b]...), '*'))
		case 3:
			out = append(out, clone(k))
		default:
			out = append(out, append(clone(k), 'x'))
		}
	}
	return out
}

// kvstoreCase: index.NewIndexKVStore over a real kv store in a scratch directory: several
// GetOrCreateValue + PrepareFlush + Flush rounds (index/v1 flusher writing real table files, the
// reader loading one block per file), then GetValue / GetValues / CollectKVs / Suggest and the like
// / regexp / equals / in dispatch of FindValuesByExpr.
func kvstoreCase(c *core.Ctx, r *rand.Rand) {
	dir, err := os.MkdirTemp("", "lvh-c20-*")
	if err != nil {
		c.Note("mkdtemp failed: " + err.Error())
		return
	}
	defer os.RemoveAll(dir)
	kvSeq++
	name := filepath.Join(dir, fmt.Sprintf("kv-%d", kvSeq))
	st, err := kv.GetStoreManager().CreateStore(name, kv.StoreOption{Levels: 2})
	if err != nil {
		c.Note("create store failed: " + err.Error())
		return
	}
	defer func() { _ = kv.GetStoreManager().CloseStore(name) }()
	family, err := st.CreateFamily("idx", kv.FamilyOption{Merger: string(v1.IndexKVMerger)})
	if err != nil {
		c.Note("create family failed: " + err.Error())
		return
	}
	store := index.NewIndexKVStore(family, 16, time.Minute)
	keys, shape := genKeys(r, "quick", false)
	c.Branch("kvstore-keys-" + shape)
	if len(keys) > 0 && len(keys[0]) == 0 {
		keys = keys[1:] // a flush of the empty key alone is the recorded Build panic
	}
	if len(keys) == 0 {
		keys = [][]byte{[]byte("k")}
	}
	vals := genVals(r, len(keys))
	ngroups := 1 + r.Intn(3)
	groups := make([][]int, ngroups)
	for _, i := range r.Perm(len(keys)) {
		g := r.Intn(ngroups)
		groups[g] = append(groups[g], i)
	}
	const bucketID = 3
	all := map[string]uint32{}
	var sb strings.Builder
	// indexKVStore.Flush uses block size math.MaxInt16
	sb.WriteString("bucket 32767")
	for _, g := range groups {
		if len(g) == 0 {
			continue
		}
		sb.WriteString(" |")
		for _, i := range g {
			fmt.Fprintf(&sb, " %s:%d", hx(keys[i]), vals[i])
			all[string(keys[i])] = vals[i]
		}
	}
	ok := false
	ntries := 0
	c.Guard(sb.String(), func() string {
		for _, g := range groups {
			if len(g) == 0 {
				continue
			}
			for _, i := range g {
				v := vals[i]
				if _, _, err := store.GetOrCreateValue(bucketID, keys[i], func() (uint32, error) { return v, nil }); err != nil {
					return "create-error"
				}
			}
			store.PrepareFlush()
			if err := store.Flush(); err != nil {
				return "flush-error"
			}
			ntries++
		}
		ok = true
		return fmt.Sprintf("ok tries=%d", ntries)
	})
	if !ok {
		return
	}
	c.NonTrivial()
	c.Branch("bucket-via-real-kv-store")
	var sorted []pair
	for k, v := range all {
		sorted = append(sorted, pair{[]byte(k), v})
	}
	sort.Slice(sorted, func(i, j int) bool { return bytes.Compare(sorted[i].k, sorted[j].k) < 0 })
	for _, k := range genProbes(r, keys, 10) {
		var v uint32
		var found bool
		c.Guard("bget "+hx(k), func() string {
			var err error
			v, found, err = store.GetValue(bucketID, k)
			if err != nil {
				return "error"
			}
			return showOpt(v, found)
		})
		ev, eok := all[string(k)]
		if found != eok || (found && v != ev) {
			c.Fail("kvstore-get-mismatch", fmt.Sprintf("GetValue(%s)=%s, union says %s", hx(k), showOpt(v, found), showOpt(ev, eok)))
		}
	}
	c.Guard("bvalues", func() string {
		ids, err := store.GetValues(bucketID)
		if err != nil {
			return "error"
		}
		sort.Slice(ids, func(i, j int) bool { return ids[i] < ids[j] })
		if len(ids) != len(all) {
			c.Fail("kvstore-values-mismatch", fmt.Sprintf("GetValues returned %d values, union has %d", len(ids), len(all)))
		}
		return showU32(ids)
	})
	c.Guard("bpairs", func() string {
		bm := roaring.New()
		for _, p := range sorted {
			bm.Add(p.v)
		}
		res := map[uint32]string{}
		if err := store.CollectKVs(bucketID, bm, res); err != nil {
			return "error"
		}
		var ps []pair
		for v, k := range res {
			ps = append(ps, pair{[]byte(k), v})
		}
		sort.Slice(ps, func(i, j int) bool { return bytes.Compare(ps[i].k, ps[j].k) < 0 })
		if !samePairs(ps, sorted) {
			c.Fail("kvstore-collect-mismatch", "CollectKVs differs from the union")
		}
		return showPairs(ps)
	})
	for _, p := range [][]byte{{}, keys[r.Intn(len(keys))][:1], keys[r.Intn(len(keys))]} {
		limit := []int{1, 3, 1000}[r.Intn(3)]
		c.Guard(fmt.Sprintf("bsuggest %s %d", hx(p), limit), func() string {
			got, err := store.Suggest(bucketID, string(p), limit)
			if err != nil {
				return "error"
			}
			ks := make([][]byte, len(got))
			for i := range got {
				ks[i] = []byte(got[i])
			}
			var want []string
			for _, kv := range sorted {
				if bytes.HasPrefix(kv.k, p) && len(want) < limit {
					want = append(want, string(kv.k))
				}
			}
			if strings.Join(got, "\x01") != strings.Join(want, "\x01") {
				c.Fail("kvstore-suggest-mismatch", fmt.Sprintf("Suggest(%s,%d) = %s", hx(p), limit, showKeys(ks)))
			}
			return showKeys(ks)
		})
	}
	// like dispatch
	for _, pat := range likePatterns(r, keys) {
		var ids []uint32
		c.Guard("blikepat "+hx(pat), func() string {
			var err error
			ids, err = store.FindValuesByExpr(bucketID, &stmt.LikeExpr{Key: "k", Value: string(pat)})
			if err != nil {
				return "error"
			}
			sort.Slice(ids, func(i, j int) bool { return ids[i] < ids[j] })
			return showU32(ids)
		})
		var want []uint32
		for _, kv := range sorted {
			if likeRef(pat, kv.k) {
				want = append(want, kv.v)
			}
		}
		sort.Slice(want, func(i, j int) bool { return want[i] < want[j] })
		if showU32(ids) != showU32(want) {
			c.Fail("kvstore-like-mismatch", fmt.Sprintf("like %q = %s want %s", pat, showU32(ids), showU32(want)))
		}
		c.Branch("like-checked")
	}
	// regexp / equals / in (oracle only)
	for i := 0; i < 4; i++ {
		k := keys[r.Intn(len(keys))]
		a := r.Intn(len(k) + 1)
		pat := regexp.QuoteMeta(string(k[a:])) + []string{"", "$", ".*", "^" + regexp.QuoteMeta(string(k[:a]))}[r.Intn(4)]
		if r.Intn(3) == 0 {
			pat = "^" + regexp.QuoteMeta(string(k[:a])) + ".*"
		}
		rp, err := regexp.Compile(pat)
		if err != nil {
			continue
		}
		func() {
			defer func() {
				if rec := recover(); rec != nil {
					c.Fail("panic", fmt.Sprintf("FindValuesByExpr(regexp %q) panicked: %v", pat, rec))
				}
			}()
			ids, err := store.FindValuesByExpr(bucketID, &stmt.RegexExpr{Key: "k", Regexp: pat})
			if err != nil {
				c.Note("regexp error " + err.Error())
				return
			}
			sort.Slice(ids, func(i, j int) bool { return ids[i] < ids[j] })
			var want []uint32
			for _, kv := range sorted {
				if rp.Match(kv.k) {
					want = append(want, kv.v)
				}
			}
			sort.Slice(want, func(i, j int) bool { return want[i] < want[j] })
			if showU32(ids) != showU32(want) {
				c.Fail("kvstore-regexp-mismatch", fmt.Sprintf("regexp %q = %s want %s", pat, showU32(ids), showU32(want)))
			}
			c.Note(fmt.Sprintf("regexp %q matched %d", pat, len(ids)))
			c.Branch("kvstore-regexp-checked")
		}()
	}
}

// likeRef: the meaning of a like pattern ('*' only at the ends), independent of the dispatch.
func likeRef(pat, key []byte) bool {
	if len(pat) == 0 {
		return false
	}
	if string(pat) == "*" {
		return true
	}
	pre, suf := pat[0] == '*', pat[len(pat)-1] == '*'
	switch {
	case !pre && suf:
		return bytes.HasPrefix(key, pat[:len(pat)-1])
	case pre && !suf:
		return bytes.HasSuffix(key, pat[1:])
	case pre && suf:
		return bytes.Contains(key, pat[1:len(pat)-1])
	}
	return bytes.Equal(pat, key)
}

// ---------------------------------------------------------------- witness cases (replayed on every run)

func witnessCase(c *core.Ctx, i int) {
	r := c.Rng(i)
	switch i {
	case 0: // the constants the model is written against
		k := trie.VerifConsts()
		c.Op("consts", fmt.Sprintf("labelTerminator=%d wordSize=%d rankSparseBlockSize=%d selectSampleInterval=%d",
			k["labelTerminator"], k["wordSize"], k["rankSparseBlockSize"], k["selectSampleInterval"]))
		// bits.go: the select-in-byte table as filled by init()
		lut := trie.VerifSelectInByteLut()
		flat := make([]uint32, 0, 2048)
		for b := 0; b < 256; b++ {
			for j := 0; j < 8; j++ {
				flat = append(flat, uint32(lut[b][j]))
				// the j-th (zero-based) set bit of b, or 8
				want, cnt := 8, 0
				for q := 0; q < 8; q++ {
					if b>>uint(q)&1 == 1 {
						if cnt == j {
							want = q
							break
						}
						cnt++
					}
				}
				if int(lut[b][j]) != want {
					c.Fail("select-byte-table", fmt.Sprintf("selectInByteLut[%d][%d]=%d want %d", b, j, lut[b][j], want))
				}
			}
		}
		c.Op("sellut", showU32(flat))
		c.NonTrivial()
	case 1: // Build of the key set {""}: index out of range in buildNodes
		keys, vals := [][]byte{{}}, []uint32{7}
		panicked := true
		c.Op(buildLine(keys, vals), func() (out string) {
			defer func() {
				if rec := recover(); rec != nil {
					out = "panic"
				}
			}()
			b := trie.NewBuilder()
			b.Build(keys, vals)
			panicked = false
			return "ok"
		}())
		if panicked {
			c.Fail(keyBuildEmptyKey, "trie.NewBuilder().Build([][]byte{{}}, ...) panics (index out of range): the key set {\"\"} cannot be stored")
		}
		c.NonTrivial()
	case 2: // {"\xff"}: Get("") finds the value of "\xff"
		keys, vals := [][]byte{{0xff}}, []uint32{100}
		trieCase(c, r, keys, vals, [][]byte{{}, {0xff}, {0xff, 0xff}, {0x00}}, false)
	case 3: // Seek lands on a leaf smaller than the probe
		keys, vals := [][]byte{{0x00}, {'a'}}, []uint32{100, 101}
		trieCase(c, r, keys, vals, [][]byte{{0x00, 0x00}, {0x00}, {'a'}, {}}, false)
	case 4: // Seek past the end (and off the right edge of a node) lands on the last key before
		keys, vals := [][]byte{{'a'}, {'b', 'c'}}, []uint32{5, 6}
		trieCase(c, r, keys, vals, [][]byte{{'c'}, {'b', 'd'}, {'b'}}, false)
	case 5: // a bucket block consisting of the empty key alone (blockSize 1) hits the same Build panic
		var buf bytes.Buffer
		out := "ok"
		func() {
			defer func() {
				if rec := recover(); rec != nil {
					out = "panic"
				}
			}()
			if err := model.NewTrieBucketBuilder(1, &buf).Write([][]byte{{}, []byte("a")}, []uint32{1, 2}); err != nil {
				out = "write-error"
			}
		}()
		c.Op("bucket 1 | -:1 61:2", out)
		if out == "panic" {
			c.Fail(keyBuildEmptyKey, "TrieBucketBuilder(blockSize=1).Write({\"\", \"a\"}) panics: the block {\"\"} cannot be built")
		}
		c.NonTrivial()
	case 6: // Suggest over one trie {"key1","key2"} answers ["key2","key2"]
		var buf bytes.Buffer
		keys, ids := [][]byte{[]byte("key1"), []byte("key2")}, []uint32{1, 2}
		var b *model.TrieBucket
		c.Guard("bucket 100 | 6b657931:1 6b657932:2", func() string {
			if err := model.NewTrieBucketBuilder(100, &buf).Write(keys, ids); err != nil {
				return "write-error"
			}
			b = model.NewTrieBucket()
			if err := b.Unmarshal(buf.Bytes()); err != nil {
				b = nil
				return "unmarshal-error"
			}
			return "ok tries=1"
		})
		if b != nil {
			s := newBucketSubject(c, b, map[string]uint32{"key1": 1, "key2": 2}, "witness", [][]byte{buf.Bytes()})
			s.suggest(nil, 10, []string{"key1", "key2"})
			s.suggest([]byte("key2"), 10, []string{"key2"})
			s.queries(r, [][]byte{[]byte("key1"), []byte("key"), []byte("key3")})
		}
		c.NonTrivial()
	}
}

const nWitness = 7

// ---------------------------------------------------------------- Run

func (area) Run(c *core.Ctx) error {
	for i := 0; i < c.N; i++ {
		if !c.Want(i) {
			continue
		}
		c.Begin(i)
		if i < nWitness {
			witnessCase(c, i)
			continue
		}
		r := c.Rng(i)
		switch {
		case i%10 == 7:
			bitvecCase(c, r, i/10)
		case i%40 == 39:
			reusedBuilderCase(c, r, c.Tier)
		case i%30 == 8:
			mergerSessionCase(c, r, c.Tier)
		case i%10 == 3 || i%10 == 8:
			bucketCase(c, r, c.Tier, i%10 == 3)
		case i%40 == 19 || i%40 == 29:
			// label counts / node counts k*512 and k*512±1, node counts k*64 and k*64±1
			byLabels := i%40 == 19
			var target int
			if byLabels {
				// rank blocks (512 bits) and, round 8, the 64-bit WORD boundaries of bitVector.Init /
				// DistanceToNextSetBit / select64 (label count = bit count of hasChild / louds / hasSuffix)
				base := []int{512, 1024, 1536, 64, 128, 192, 256, 320, 448, 576}
				if c.Tier == "thorough" {
					base = append(base, 2048, 2560, 4096, 8192)
				}
				target = base[r.Intn(len(base))] + r.Intn(3) - 1
			} else {
				// select samples (one per 64 nodes), hasPrefix rank blocks (512 nodes)
				base := []int{64, 128, 192, 512, 256, 320}
				if c.Tier == "thorough" {
					base = append(base, 1024, 1536, 2048)
				}
				target = base[r.Intn(len(base))] + r.Intn(3) - 1
			}
			keys, ok := genKeysTarget(r, target, byLabels)
			kind := "nodes"
			if byLabels {
				kind = "labels"
			}
			if ok {
				c.Branch(fmt.Sprintf("keys-target-%s-%d", kind, target))
			} else {
				c.Branch("keys-target-missed")
			}
			vals := genVals(r, len(keys))
			trieCase(c, r, keys, vals, genProbes(r, keys, 16), true)
		case i%40 == 34:
			wideLastNodeCase(c, r, i/40)
		case i%40 == 24:
			blockSplitCase(c, r, i/40)
		case i%10 == 6 && i%20 == 6:
			kvstoreCase(c, r)
		case c.Tier == "thorough" && i%1000 == 501:
			fullTrieMergeCase(c, r)
		default:
			big := i%40 == 9
			keys, shape := genKeys(r, c.Tier, big)
			c.Branch("keys-" + shape)
			vals := genVals(r, len(keys))
			np := 24
			if big {
				np = 120
			}
			trieCase(c, r, keys, vals, genProbes(r, keys, np), big)
		}
	}
	return nil
}
