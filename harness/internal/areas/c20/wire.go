package c20

// Damaged images and pooled trie objects (round 8).
//
//   - umalt / umalf: UnmarshalBinary of the first m bytes of a real serialised trie resp. of the image
//     with one byte replaced, on a buffer whose capacity equals its length. The outcome (`ok` + every
//     field of the resulting object, or `rejected` = error return or panic) is diffed with the
//     branch-for-branch model TrieWire.unmarshalR. A panic on a damaged image is an OUTCOME here, not
//     an oracle failure: the property says nothing about corrupt bytes. Impl-side oracle: a proper
//     prefix of an image must never be accepted (theorem unmarshal_truncated_never_ok).
//   - pinit / pload: one object taken from the trie pool first loads ANOTHER dictionary, then damaged
//     variants of the case's image (failed loads leave it half-assigned), then the image itself; after
//     that it must be field-for-field the object a fresh trie gives and answer like the sorted map.

import (
	"bytes"
	"fmt"
	"math/rand"
	"sort"
	"strconv"
	"strings"

	"github.com/lindb/lindb/pkg/trie"
)

func rawBits(v *trie.VerifRawVec) []uint64 {
	out := make([]uint64, 0, v.NumBits)
	for i := uint32(0); i < v.NumBits; i++ {
		w := int(i / 64)
		if w < len(v.Bits) && v.Bits[w]>>(i%64)&1 == 1 {
			out = append(out, 1)
		} else {
			out = append(out, 0)
		}
	}
	return out
}

// rawLine renders every field of a trie object exactly as TrieWire.showWire does.
func rawLine(t trie.SuccinctTrie) string {
	w := trie.VerifRaw(t)
	if w == nil {
		return "no-raw"
	}
	h := uint64(7)
	add := func(x uint64) { h = (h*31 + x + 1) % 1000000007 }
	addB := func(bs []byte) {
		for _, b := range bs {
			add(uint64(b))
		}
	}
	addU := func(xs []uint32) {
		for _, x := range xs {
			add(uint64(x))
		}
	}
	addV := func(v *trie.VerifRawVec) {
		for _, b := range rawBits(v) {
			add(b)
		}
		add(uint64(v.Param))
		addU(v.Lut)
	}
	add(uint64(w.TotalKeys))
	add(uint64(w.Height))
	addB(w.Labels)
	addV(&w.HasChild)
	addV(&w.Louds)
	addV(&w.HasPrefix)
	addU(w.PrefixOffsets)
	addB(w.PrefixData)
	addV(&w.HasSuffix)
	addU(w.SuffixOffsets)
	addB(w.SuffixData)
	addU(w.Values)
	return fmt.Sprintf("keys=%d height=%d labels=%d hc=%d/%d/%d louds=%d/%d/%d pfx=%d/%d/%d/%d/%d sfx=%d/%d/%d/%d/%d values=%d digest=%d",
		w.TotalKeys, w.Height, len(w.Labels),
		w.HasChild.NumBits, w.HasChild.Param, len(w.HasChild.Lut),
		w.Louds.NumBits, w.Louds.Param, len(w.Louds.Lut),
		w.HasPrefix.NumBits, w.HasPrefix.Param, len(w.HasPrefix.Lut), len(w.PrefixOffsets), len(w.PrefixData),
		w.HasSuffix.NumBits, w.HasSuffix.Param, len(w.HasSuffix.Lut), len(w.SuffixOffsets), len(w.SuffixData),
		len(w.Values), h)
}

func errKind(err error) string {
	m := err.Error()
	switch {
	case m == "EOF":
		return "eof"
	case strings.Contains(m, "labelVector"):
		return "labels-short"
	case strings.Contains(m, "numBits and blockSize"):
		return "rank-header"
	case strings.Contains(m, "numBits and numOnes"):
		return "select-header"
	case strings.Contains(m, "cannot read bits"):
		return "bits-short"
	case strings.Contains(m, "cannot read lut") && strings.Contains(m, "selectVector"):
		return "select-lut-short"
	case strings.Contains(m, "cannot read lut"):
		return "rank-lut-short"
	case strings.Contains(m, "offsetsLen and dataLen"):
		return "path-header"
	case strings.Contains(m, "offsets+data"):
		return "path-short"
	}
	return "other"
}

// load runs UnmarshalBinary(img) on t; img is copied into a buffer with cap == len.
// outcome: "ok <fields>" or "rejected"; kind: "ok" | "err-<which check>" | "panic".
func load(t trie.SuccinctTrie, img []byte) (outcome, kind string) {
	b := make([]byte, len(img))
	copy(b, img)
	defer func() {
		if e := recover(); e != nil {
			outcome, kind = "rejected", "panic"
		}
	}()
	if err := t.UnmarshalBinary(b); err != nil {
		return "rejected", "err-" + errKind(err)
	}
	return "ok " + rawLine(t), "ok"
}

// sectionBounds: the offsets at which the sections (and their length fields) of an image start.
func sectionBounds(t trie.SuccinctTrie) []int {
	w := trie.VerifRaw(t)
	if w == nil {
		return nil
	}
	var out []int
	off := 0
	mark := func(n int) { off += n; out = append(out, off) }
	mark(4)             // totalKeys
	mark(4)             // height
	mark(4)             // #labels
	mark(len(w.Labels)) // labels
	vec := func(v *trie.VerifRawVec) {
		mark(4)                // numBits
		mark(int(v.Words) * 8) // bits
		mark(4)                // blockSize / numOnes
		mark(len(v.Lut) * 4)   // table
	}
	vec(&w.HasChild)
	vec(&w.Louds)
	vec(&w.HasPrefix)
	mark(4)
	mark(4)
	mark(len(w.PrefixOffsets) * 4)
	mark(len(w.PrefixData))
	vec(&w.HasSuffix)
	mark(4)
	mark(4)
	mark(len(w.SuffixOffsets) * 4)
	mark(len(w.SuffixData))
	mark(len(w.Values) * 4)
	return out
}

type variant struct {
	op   string // "t<m>" or "f<pos>:<val>"
	img  []byte
	trnc bool
}

// damagedVariants: truncations and single-byte replacements directed at the section boundaries and
// the length fields (high-order bytes included: the uint32 wrap of `4+size`, `offsetsLen+dataLen`,
// `(numBits/blockSize+1)*4`), plus random ones.
func damagedVariants(r *rand.Rand, img []byte, bounds []int, n int) []variant {
	var out []variant
	seen := map[string]bool{}
	addT := func(m int) {
		if m < 0 || m >= len(img) {
			return
		}
		op := "t" + strconv.Itoa(m)
		if !seen[op] {
			seen[op] = true
			out = append(out, variant{op: op, img: img[:m], trnc: true})
		}
	}
	addF := func(pos int, val byte) {
		if pos < 0 || pos >= len(img) || img[pos] == val {
			return
		}
		op := "f" + strconv.Itoa(pos) + ":" + strconv.Itoa(int(val))
		if !seen[op] {
			seen[op] = true
			b := clone(img)
			b[pos] = val
			out = append(out, variant{op: op, img: b})
		}
	}
	for i := 0; i < n; i++ {
		switch r.Intn(6) {
		case 0: // around a section boundary
			b := bounds[r.Intn(len(bounds))]
			addT(b + r.Intn(5) - 2)
		case 1: // header / very short
			addT(r.Intn(14))
		case 2: // the tail
			addT(len(img) - 1 - r.Intn(6))
		case 3: // anywhere
			addT(r.Intn(len(img)))
		case 4: // a byte of a length / count field (the four bytes after a boundary), or of the header
			b := 0
			if r.Intn(4) != 0 {
				b = bounds[r.Intn(len(bounds))]
			}
			pos := b + r.Intn(4)
			if pos < len(img) {
				addF(pos, []byte{0, 1, 0xff, 0x80, img[pos] ^ 1, img[pos] + 1, img[pos] - 1, byte(r.Intn(256))}[r.Intn(8)])
			}
		default: // any byte
			pos := r.Intn(len(img))
			addF(pos, []byte{img[pos] ^ 1, img[pos] ^ 0x80, 0xff, 0, byte(r.Intn(256))}[r.Intn(5)])
		}
	}
	return out
}

func (s *subject) branchKind(prefix, kind string) { s.c.Branch(prefix + "-" + kind) }

// damaged: the malformed-bytes stream on the image of this case's trie.
func (s *subject) damaged(r *rand.Rand, img []byte, fresh trie.SuccinctTrie, toModel bool) {
	bounds := sectionBounds(fresh)
	if len(bounds) == 0 || len(img) == 0 {
		return
	}
	n := 14
	if !toModel {
		n = 8
	}
	for _, v := range damagedVariants(r, img, bounds, n) {
		outcome, kind := load(trie.NewTrie(), v.img)
		if toModel {
			if v.trnc {
				s.c.Op("umalt "+v.op[1:], outcome)
			} else {
				s.c.Op("umalf "+strings.Replace(v.op[1:], ":", " ", 1), outcome)
			}
		}
		if v.trnc {
			s.branchKind("truncated", kind)
			if kind == "ok" {
				s.fail("unmarshal-accepts-truncated-image", "UnmarshalBinary accepted the first %s of %d bytes of a serialised trie", v.op[1:], len(img))
			}
		} else {
			s.branchKind("byteflip", kind)
		}
	}
}

// pooled: one object from the trie pool loads another dictionary, damaged variants, then the image.
func (s *subject) pooled(r *rand.Rand, img []byte, fresh trie.SuccinctTrie, probes [][]byte, toModel bool) {
	// the other dictionary
	n := 1 + r.Intn(60)
	if r.Intn(3) == 0 {
		n += len(s.m.keys)
	}
	seen := map[string]bool{}
	var okeys [][]byte
	for len(okeys) < n {
		var k []byte
		switch r.Intn(3) {
		case 0:
			k = clone(s.m.keys[r.Intn(len(s.m.keys))])
		case 1:
			k = append(clone(s.m.keys[r.Intn(len(s.m.keys))]), randKey(r, smallAlpha, 3)...)
		default:
			k = randKey(r, smallAlpha, 6)
		}
		if len(k) == 0 {
			k = []byte{'p'}
		}
		if !seen[string(k)] {
			seen[string(k)] = true
			okeys = append(okeys, k)
		}
	}
	sort.Slice(okeys, func(i, j int) bool { return bytes.Compare(okeys[i], okeys[j]) < 0 })
	ovals := genVals(r, len(okeys))
	var oimg bytes.Buffer
	built := false
	func() {
		defer func() { _ = recover() }()
		ob := trie.NewBuilder()
		ob.Build(okeys, ovals)
		if ob.Write(&oimg) == nil {
			built = true
		}
	}()
	if !built {
		s.fail("panic", "building the other dictionary of the pooled-object history failed")
		return
	}
	obj := trie.GetTrie()
	outcome, _ := load(obj, oimg.Bytes())
	if toModel {
		s.c.Op("pinit"+buildLine(okeys, ovals)[len("build"):], outcome)
	}
	if !strings.HasPrefix(outcome, "ok ") {
		s.fail("reload-failed", "a pooled trie object could not load a freshly written dictionary")
		return
	}
	bounds := sectionBounds(fresh)
	for _, v := range damagedVariants(r, img, bounds, 2+r.Intn(3)) {
		outcome, kind := load(obj, v.img)
		if toModel {
			s.c.Op("pload "+v.op, outcome)
		}
		s.branchKind("pooled-damaged", kind)
	}
	outcome, _ = load(obj, img)
	if toModel {
		s.c.Op("pload full", outcome)
	}
	want := "ok " + rawLine(fresh)
	if outcome != want {
		s.fail("pooled-trie-state-leak", "a used trie object differs from a fresh one after UnmarshalBinary of the same image: %s vs %s", outcome, want)
		return
	}
	// and it answers like the sorted map
	bad := ""
	func() {
		defer func() {
			if e := recover(); e != nil {
				bad = fmt.Sprint("panic: ", e)
			}
		}()
		for _, k := range probes {
			gv, gok := obj.Get(k)
			wv, wok := s.m.get(k)
			if gok != wok || (gok && gv != wv) {
				bad = "Get(" + hx(k) + ")"
				return
			}
		}
		it := obj.NewIterator()
		i := 0
		for it.SeekToFirst(); it.Valid(); it.Next() {
			if i >= len(s.m.keys) || !bytes.Equal(it.Key(), s.m.keys[i]) || it.Value() != s.m.vals[i] {
				bad = "iteration at " + strconv.Itoa(i)
				return
			}
			i++
		}
		if i != len(s.m.keys) {
			bad = "iteration length"
		}
	}()
	if bad != "" {
		s.fail("pooled-trie-state-leak", "a used trie object answers differently from the sorted map after reloading: %s", bad)
		return
	}
	s.c.Branch("pooled-object-clean")
	trie.PutTrie(obj)
}
