// Package core is the shared skeleton of the correspondence harness: deterministic per-case
// PRNGs, the line protocol writers (ops for the Lean model, impl outputs, oracle failures)
// and the run statistics that end up in the evidence file.
package core

import (
	"bufio"
	"encoding/json"
	"fmt"
	"hash/fnv"
	"math/rand"
	"os"
	"path/filepath"
	"runtime/debug"
	"sort"
	"strings"
)

// Area is one correspondence stream (one family of models).
type Area interface {
	Name() string
	// Run generates cases 0..c.N-1 (honouring c.Want), executes the implementation and
	// reports ops / outputs / oracle failures through c.
	Run(c *Ctx) error
}

var areas = map[string]Area{}

// Register adds an area; called from init() of cmd/lvh/area_*.go files.
func Register(a Area) { areas[a.Name()] = a }

// Lookup returns a registered area.
func Lookup(name string) Area { return areas[name] }

// Names lists registered areas.
func Names() []string {
	var r []string
	for k := range areas {
		r = append(r, k)
	}
	sort.Strings(r)
	return r
}

// Ctx carries one run.
type Ctx struct {
	Seed   int64
	N      int
	Tier   string
	Only   int // -1: all cases; otherwise only this case index
	OutDir string
	Args   map[string]string

	ops, impl, oracle *bufio.Writer
	files             []*os.File

	curCase   int
	curOps    []string
	caseSig   *strings.Builder
	caseNT    bool
	Cases     int
	OpCount   int
	Fails     int
	distinct  map[uint64]struct{}
	Branches  map[string]int
	samples   [][]string
	SampleMax int
}

// NewCtx opens the output files in dir.
func NewCtx(dir string, seed int64, n int, tier string, only int) (*Ctx, error) {
	if err := os.MkdirAll(dir, 0o755); err != nil {
		return nil, err
	}
	c := &Ctx{Seed: seed, N: n, Tier: tier, Only: only, OutDir: dir, Args: map[string]string{},
		distinct: map[uint64]struct{}{}, Branches: map[string]int{}, SampleMax: 3, curCase: -1}
	open := func(name string) (*bufio.Writer, error) {
		f, err := os.Create(filepath.Join(dir, name))
		if err != nil {
			return nil, err
		}
		c.files = append(c.files, f)
		return bufio.NewWriterSize(f, 1<<20), nil
	}
	var err error
	if c.ops, err = open("ops.txt"); err != nil {
		return nil, err
	}
	if c.impl, err = open("impl.txt"); err != nil {
		return nil, err
	}
	if c.oracle, err = open("oracle.txt"); err != nil {
		return nil, err
	}
	return c, nil
}

// Want reports whether case i is to be run.
func (c *Ctx) Want(i int) bool { return c.Only < 0 || c.Only == i }

// Rng returns the PRNG of case i: a function of (seed, area-independent case index) only,
// so a single case can be replayed without generating the others.
func (c *Ctx) Rng(i int) *rand.Rand {
	h := fnv.New64a()
	fmt.Fprintf(h, "%d/%d", c.Seed, i)
	return rand.New(rand.NewSource(int64(h.Sum64())))
}

// Begin starts case i.
func (c *Ctx) Begin(i int) {
	c.endCase()
	c.curCase = i
	c.curOps = c.curOps[:0]
	c.caseSig = &strings.Builder{}
	c.caseNT = false
	c.Cases++
	line := fmt.Sprintf("# case %d", i)
	fmt.Fprintln(c.ops, line)
	fmt.Fprintln(c.impl, line)
}

func (c *Ctx) endCase() {
	if c.curCase < 0 {
		return
	}
	if c.caseNT {
		h := fnv.New64a()
		h.Write([]byte(c.caseSig.String()))
		c.distinct[h.Sum64()] = struct{}{}
	}
	if len(c.samples) < c.SampleMax && len(c.curOps) > 0 {
		s := append([]string(nil), c.curOps...)
		if len(s) > 12 {
			s = append(s[:12], fmt.Sprintf("... (%d more ops)", len(c.curOps)-12))
		}
		for i := range s {
			if len(s[i]) > 300 {
				s[i] = s[i][:300] + "..."
			}
		}
		c.samples = append(c.samples, s)
	}
	c.curCase = -1
}

// Op records one operation line for the model and the implementation's canonical output.
func (c *Ctx) Op(op, out string) {
	if strings.ContainsAny(op, "\n\r") || strings.ContainsAny(out, "\n\r") {
		panic("core.Op: newline in protocol line")
	}
	fmt.Fprintln(c.ops, op)
	fmt.Fprintln(c.impl, out)
	c.OpCount++
	c.curOps = append(c.curOps, op+"  =>  "+out)
	c.caseSig.WriteString(op)
	c.caseSig.WriteByte('\n')
}

// OpOnly records an implementation-side observation that has no model counterpart
// (it is part of the case signature and the samples, not of the diffed streams).
func (c *Ctx) Note(s string) {
	c.curOps = append(c.curOps, "note: "+s)
}

// NonTrivial marks the current case as non-trivial (by the area's own rule).
func (c *Ctx) NonTrivial() { c.caseNT = true }

// Branch counts a named branch/region/error kind for the input-distribution report.
func (c *Ctx) Branch(name string) { c.Branches[name]++ }

// Fail records an impl-side oracle failure for the current case. key is the canonical
// identity of the failure (matched against known_findings.json); desc is free text.
func (c *Ctx) Fail(key, desc string) {
	c.Fails++
	fmt.Fprintf(c.oracle, "FAIL case=%d key=%s :: %s\n", c.curCase, key, strings.ReplaceAll(desc, "\n", " "))
	// failures are rare: write them through at once, so that a run that dies of a fatal fault afterwards
	// (memory damaged by the code under test) still leaves the failing inputs it had found
	_ = c.oracle.Flush()
}

// Guard runs f and converts a panic into an oracle failure + a "panic" output line for op.
func (c *Ctx) Guard(op string, f func() string) {
	var out string
	func() {
		// a read through a stale pointer into unmapped memory becomes an ordinary panic of this goroutine
		defer debug.SetPanicOnFault(debug.SetPanicOnFault(true))
		defer func() {
			if r := recover(); r != nil {
				out = "panic"
				c.Fail("panic", fmt.Sprintf("op %q panicked: %v", op, r))
			}
		}()
		out = f()
	}()
	c.Op(op, out)
}

// Flush writes the buffered protocol / oracle streams to disk (an area may call it after every
// case so that a run that is stopped from outside leaves what it found).
func (c *Ctx) Flush() {
	for _, w := range []*bufio.Writer{c.ops, c.impl, c.oracle} {
		_ = w.Flush()
	}
}

// Close flushes everything and writes stats.json.
func (c *Ctx) Close() error {
	c.endCase()
	for _, w := range []*bufio.Writer{c.ops, c.impl, c.oracle} {
		if err := w.Flush(); err != nil {
			return err
		}
	}
	for _, f := range c.files {
		f.Close()
	}
	st := map[string]interface{}{
		"cases": c.Cases, "ops": c.OpCount, "oracle_failures": c.Fails,
		"distinct_nontrivial": len(c.distinct), "branches": c.Branches, "samples": c.samples,
		"seed": c.Seed, "tier": c.Tier,
	}
	b, _ := json.MarshalIndent(st, "", " ")
	return os.WriteFile(filepath.Join(c.OutDir, "stats.json"), b, 0o644)
}
