package extract

import (
	"fmt"
	"go/ast"
	"go/token"
	"strings"
)

// IntFunc translates a straight-line Go function over integers into a Lean definition over
// `Int` with Go's semantics for `/` and `%` (truncation toward zero: Int.tdiv / Int.tmod).
//
// Supported: parameters and locals of integer type, `x := e`, `x = e`, `x op= e`, `x++`, `x--`,
// `if c { ... return e }` with optional else, final `return e`; expressions over identifiers,
// integer literals, known constants (consts), + - * / %, parentheses, integer conversions
// `T(e)` (dropped: no overflow is modelled — models state this), calls to other translated
// functions (calls maps Go callee name → Lean name), comparisons and && || ! in conditions.
// Anything else is an error (the fact is then reported as not extractable).
func IntFunc(fd *ast.FuncDecl, leanName string, consts map[string]int64, calls map[string]string) (string, error) {
	if fd == nil {
		return "", fmt.Errorf("function for %s not found", leanName)
	}
	var params []string
	for _, fl := range fd.Type.Params.List {
		for _, n := range fl.Names {
			params = append(params, n.Name)
		}
	}
	t := &ifTr{consts: consts, calls: calls}
	body, err := t.block(fd.Body.List, 1)
	if err != nil {
		return "", fmt.Errorf("%s: %w", leanName, err)
	}
	var sb strings.Builder
	fmt.Fprintf(&sb, "def %s", leanName)
	for _, p := range params {
		fmt.Fprintf(&sb, " (%s : Int)", leanIdent(p))
	}
	sb.WriteString(" : Int :=\n")
	sb.WriteString(body)
	return sb.String(), nil
}

type ifTr struct {
	consts map[string]int64
	calls  map[string]string
}

func leanIdent(s string) string {
	switch s {
	case "end", "from", "at", "to", "in", "do", "then", "else", "fun", "let", "have", "show", "by", "open", "section", "namespace", "def", "theorem", "match", "with", "if", "local", "instance", "structure", "class", "where", "deriving", "prefix", "infix", "notation", "mutual", "import", "export", "variable", "universe", "Type", "Prop", "Sort", "nat", "start", "shift", "suffices", "calc", "return", "for", "unless":
		return s + "'"
	}
	return s
}

func ind(n int) string { return strings.Repeat("  ", n) }

func (t *ifTr) block(stmts []ast.Stmt, depth int) (string, error) {
	if len(stmts) == 0 {
		return "", fmt.Errorf("block falls through without return")
	}
	s := stmts[0]
	rest := stmts[1:]
	switch x := s.(type) {
	case *ast.ReturnStmt:
		if len(x.Results) != 1 {
			return "", fmt.Errorf("return with %d results", len(x.Results))
		}
		e, err := t.expr(x.Results[0])
		if err != nil {
			return "", err
		}
		return ind(depth) + e + "\n", nil
	case *ast.AssignStmt:
		if len(x.Lhs) != 1 || len(x.Rhs) != 1 {
			return "", fmt.Errorf("multi-assign")
		}
		id, ok := x.Lhs[0].(*ast.Ident)
		if !ok {
			return "", fmt.Errorf("assign to non-identifier")
		}
		r, err := t.expr(x.Rhs[0])
		if err != nil {
			return "", err
		}
		v := leanIdent(id.Name)
		switch x.Tok {
		case token.DEFINE, token.ASSIGN:
		case token.ADD_ASSIGN:
			r = fmt.Sprintf("(%s + %s)", v, r)
		case token.SUB_ASSIGN:
			r = fmt.Sprintf("(%s - %s)", v, r)
		case token.MUL_ASSIGN:
			r = fmt.Sprintf("(%s * %s)", v, r)
		case token.QUO_ASSIGN:
			r = fmt.Sprintf("(Int.tdiv %s %s)", v, r)
		case token.REM_ASSIGN:
			r = fmt.Sprintf("(Int.tmod %s %s)", v, r)
		default:
			return "", fmt.Errorf("assign op %s", x.Tok)
		}
		tail, err := t.block(rest, depth)
		if err != nil {
			return "", err
		}
		return fmt.Sprintf("%slet %s : Int := %s\n%s", ind(depth), v, r, tail), nil
	case *ast.IncDecStmt:
		id, ok := x.X.(*ast.Ident)
		if !ok {
			return "", fmt.Errorf("inc/dec of non-identifier")
		}
		v := leanIdent(id.Name)
		op := "+"
		if x.Tok == token.DEC {
			op = "-"
		}
		tail, err := t.block(rest, depth)
		if err != nil {
			return "", err
		}
		return fmt.Sprintf("%slet %s : Int := %s %s 1\n%s", ind(depth), v, v, op, tail), nil
	case *ast.DeclStmt:
		gd, ok := x.Decl.(*ast.GenDecl)
		if !ok || gd.Tok != token.VAR || len(gd.Specs) != 1 {
			return "", fmt.Errorf("unsupported declaration")
		}
		vs := gd.Specs[0].(*ast.ValueSpec)
		if len(vs.Names) != 1 {
			return "", fmt.Errorf("unsupported var spec")
		}
		r := "0"
		if len(vs.Values) == 1 {
			var err error
			if r, err = t.expr(vs.Values[0]); err != nil {
				return "", err
			}
		}
		tail, err := t.block(rest, depth)
		if err != nil {
			return "", err
		}
		return fmt.Sprintf("%slet %s : Int := %s\n%s", ind(depth), leanIdent(vs.Names[0].Name), r, tail), nil
	case *ast.IfStmt:
		if x.Init != nil {
			return "", fmt.Errorf("if with init")
		}
		c, err := t.cond(x.Cond)
		if err != nil {
			return "", err
		}
		thenReturns := endsInReturn(x.Body.List)
		if thenReturns {
			th, err := t.block(x.Body.List, depth+1)
			if err != nil {
				return "", err
			}
			var elseStmts []ast.Stmt
			if x.Else != nil {
				switch e := x.Else.(type) {
				case *ast.BlockStmt:
					elseStmts = append(append(elseStmts, e.List...), rest...)
				case *ast.IfStmt:
					elseStmts = append([]ast.Stmt{e}, rest...)
				}
			} else {
				elseStmts = rest
			}
			el, err := t.block(elseStmts, depth+1)
			if err != nil {
				return "", err
			}
			return fmt.Sprintf("%sif %s then\n%s%selse\n%s", ind(depth), c, th, ind(depth), el), nil
		}
		// then-branch only (re)assigns variables: duplicate the continuation (straight-line code only)
		if x.Else != nil {
			return "", fmt.Errorf("non-returning if with else")
		}
		th, err := t.block(append(append([]ast.Stmt{}, x.Body.List...), rest...), depth+1)
		if err != nil {
			return "", err
		}
		el, err := t.block(rest, depth+1)
		if err != nil {
			return "", err
		}
		return fmt.Sprintf("%sif %s then\n%s%selse\n%s", ind(depth), c, th, ind(depth), el), nil
	}
	return "", fmt.Errorf("unsupported statement %T", s)
}

func endsInReturn(l []ast.Stmt) bool {
	if len(l) == 0 {
		return false
	}
	_, ok := l[len(l)-1].(*ast.ReturnStmt)
	return ok
}

func (t *ifTr) cond(e ast.Expr) (string, error) {
	switch x := e.(type) {
	case *ast.ParenExpr:
		c, err := t.cond(x.X)
		return "(" + c + ")", err
	case *ast.UnaryExpr:
		if x.Op == token.NOT {
			c, err := t.cond(x.X)
			return "¬ (" + c + ")", err
		}
	case *ast.BinaryExpr:
		switch x.Op {
		case token.LAND, token.LOR:
			a, err := t.cond(x.X)
			if err != nil {
				return "", err
			}
			b, err := t.cond(x.Y)
			if err != nil {
				return "", err
			}
			op := "∧"
			if x.Op == token.LOR {
				op = "∨"
			}
			return fmt.Sprintf("(%s %s %s)", a, op, b), nil
		case token.EQL, token.NEQ, token.LSS, token.LEQ, token.GTR, token.GEQ:
			a, err := t.expr(x.X)
			if err != nil {
				return "", err
			}
			b, err := t.expr(x.Y)
			if err != nil {
				return "", err
			}
			op := map[token.Token]string{token.EQL: "=", token.NEQ: "≠", token.LSS: "<", token.LEQ: "≤", token.GTR: ">", token.GEQ: "≥"}[x.Op]
			return fmt.Sprintf("(%s %s %s)", a, op, b), nil
		}
	}
	return "", fmt.Errorf("unsupported condition %T", e)
}

func (t *ifTr) expr(e ast.Expr) (string, error) {
	switch x := e.(type) {
	case *ast.BasicLit:
		if x.Kind == token.INT {
			return x.Value, nil
		}
	case *ast.Ident:
		if v, ok := t.consts[x.Name]; ok {
			return LeanInt(v), nil
		}
		return leanIdent(x.Name), nil
	case *ast.SelectorExpr:
		if v, ok := t.consts[x.Sel.Name]; ok {
			return LeanInt(v), nil
		}
		return "", fmt.Errorf("unknown selector %s", x.Sel.Name)
	case *ast.ParenExpr:
		s, err := t.expr(x.X)
		return "(" + s + ")", err
	case *ast.UnaryExpr:
		if x.Op == token.SUB {
			s, err := t.expr(x.X)
			return "(-" + s + ")", err
		}
	case *ast.CallExpr:
		name := exprName(x.Fun)
		if i := strings.LastIndexByte(name, '.'); i >= 0 {
			name = name[i+1:]
		}
		if ln, ok := t.calls[name]; ok {
			var args []string
			for _, a := range x.Args {
				s, err := t.expr(a)
				if err != nil {
					return "", err
				}
				args = append(args, s)
			}
			return "(" + ln + " " + strings.Join(args, " ") + ")", nil
		}
		// integer conversion T(e)
		if len(x.Args) == 1 {
			switch name {
			case "int", "int64", "int32", "int16", "uint16", "uint32", "uint64", "uint", "ShardID", "NodeID", "Interval":
				return t.expr(x.Args[0])
			}
		}
		return "", fmt.Errorf("unsupported call %s", name)
	case *ast.BinaryExpr:
		a, err := t.expr(x.X)
		if err != nil {
			return "", err
		}
		b, err := t.expr(x.Y)
		if err != nil {
			return "", err
		}
		switch x.Op {
		case token.ADD:
			return fmt.Sprintf("(%s + %s)", a, b), nil
		case token.SUB:
			return fmt.Sprintf("(%s - %s)", a, b), nil
		case token.MUL:
			return fmt.Sprintf("(%s * %s)", a, b), nil
		case token.QUO:
			return fmt.Sprintf("(Int.tdiv %s %s)", a, b), nil
		case token.REM:
			return fmt.Sprintf("(Int.tmod %s %s)", a, b), nil
		}
	}
	return "", fmt.Errorf("unsupported expression %T", e)
}

// ExprDef translates a single integer expression into `def leanName (params : Int) : Int`.
func ExprDef(e ast.Expr, leanName string, params []string, consts map[string]int64, calls map[string]string) (string, error) {
	if e == nil {
		return "", fmt.Errorf("%s: expression not found", leanName)
	}
	t := &ifTr{consts: consts, calls: calls}
	s, err := t.expr(e)
	if err != nil {
		return "", fmt.Errorf("%s: %w", leanName, err)
	}
	var sb strings.Builder
	fmt.Fprintf(&sb, "def %s", leanName)
	for _, p := range params {
		fmt.Fprintf(&sb, " (%s : Int)", leanIdent(p))
	}
	fmt.Fprintf(&sb, " : Int :=\n  %s\n", s)
	return sb.String(), nil
}

// CondDef translates a boolean condition over integers into `def leanName (params : Int) : Bool`.
func CondDef(e ast.Expr, leanName string, params []string, consts map[string]int64) (string, error) {
	if e == nil {
		return "", fmt.Errorf("%s: condition not found", leanName)
	}
	t := &ifTr{consts: consts}
	s, err := t.cond(e)
	if err != nil {
		return "", fmt.Errorf("%s: %w", leanName, err)
	}
	var sb strings.Builder
	fmt.Fprintf(&sb, "def %s", leanName)
	for _, p := range params {
		fmt.Fprintf(&sb, " (%s : Int)", leanIdent(p))
	}
	fmt.Fprintf(&sb, " : Bool :=\n  decide %s\n", s)
	return sb.String(), nil
}

// FindAssign returns the RHS of the first `name := e` / `name = e` inside fd.
func FindAssign(fd *ast.FuncDecl, name string) ast.Expr {
	var out ast.Expr
	if fd == nil {
		return nil
	}
	ast.Inspect(fd.Body, func(n ast.Node) bool {
		if out != nil {
			return false
		}
		if as, ok := n.(*ast.AssignStmt); ok && len(as.Lhs) == 1 && len(as.Rhs) == 1 {
			if id, ok := as.Lhs[0].(*ast.Ident); ok && id.Name == name {
				out = as.Rhs[0]
				return false
			}
		}
		return true
	})
	return out
}

// FindIfWithIncDec returns the condition of the first `if c { v++ }` (or v--) inside fd.
func FindIfWithIncDec(fd *ast.FuncDecl, v string) ast.Expr {
	var out ast.Expr
	if fd == nil {
		return nil
	}
	ast.Inspect(fd.Body, func(n ast.Node) bool {
		if out != nil {
			return false
		}
		if is, ok := n.(*ast.IfStmt); ok && len(is.Body.List) == 1 {
			if inc, ok := is.Body.List[0].(*ast.IncDecStmt); ok {
				if id, ok := inc.X.(*ast.Ident); ok && id.Name == v {
					out = is.Cond
					return false
				}
			}
		}
		return true
	})
	return out
}
