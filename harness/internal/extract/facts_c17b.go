package extract

import (
	"fmt"
	"go/ast"
	"go/token"
	"path/filepath"
	"sort"
	"strings"
)

// C17, round 8: the field lists of the statement structs and expression node types (as named
// obligations), how decode receivers / scratch values are obtained, which json codec Marshal
// uses, the parser glue (parseDuration's unit switch and overflow guard, visitLimit,
// visitTimeRangeExpr, visitGroupByKey, completeTagFilterExpr) and the assignments of
// calcTimeRangeAndInterval.

// c17StructFieldList: (field name, type text) of a struct type declared in one of the files.
func c17StructFieldList(files []*ast.File, name string) ([][2]string, bool) {
	for _, f := range files {
		for _, d := range f.Decls {
			gd, ok := d.(*ast.GenDecl)
			if !ok || gd.Tok != token.TYPE {
				continue
			}
			for _, sp := range gd.Specs {
				ts := sp.(*ast.TypeSpec)
				if ts.Name.Name != name {
					continue
				}
				st, ok := ts.Type.(*ast.StructType)
				if !ok {
					return nil, false
				}
				var out [][2]string
				for _, fl := range st.Fields.List {
					t := exprText(fl.Type)
					if len(fl.Names) == 0 {
						out = append(out, [2]string{"<embedded " + t + ">", t})
					}
					for _, n := range fl.Names {
						out = append(out, [2]string{n.Name, t})
					}
				}
				return out, true
			}
		}
	}
	return nil, false
}

// c17FirstDecl: the statement of fd's body that declares/defines variable `name`.
func c17FirstDecl(fd *ast.FuncDecl, name string) string {
	found := ""
	ast.Inspect(fd.Body, func(n ast.Node) bool {
		if found != "" {
			return false
		}
		switch x := n.(type) {
		case *ast.AssignStmt:
			if x.Tok == token.DEFINE {
				for _, l := range x.Lhs {
					if id, ok := l.(*ast.Ident); ok && id.Name == name {
						found = c17NodeText(x)
					}
				}
			}
		case *ast.DeclStmt:
			if gd, ok := x.Decl.(*ast.GenDecl); ok && gd.Tok == token.VAR {
				for _, sp := range gd.Specs {
					for _, id := range sp.(*ast.ValueSpec).Names {
						if id.Name == name {
							found = c17NodeText(x)
						}
					}
				}
			}
		}
		return true
	})
	if found == "" {
		return "<not declared locally>"
	}
	return found
}

// c17Callees: distinct callee texts of the calls in fd (source order), without `skip`.
func c17Callees(fd *ast.FuncDecl, skip map[string]bool) []string {
	seen := map[string]bool{}
	var out []string
	ast.Inspect(fd.Body, func(n ast.Node) bool {
		if ce, ok := n.(*ast.CallExpr); ok {
			t := exprText(ce.Fun)
			if !skip[t] && !seen[t] {
				seen[t] = true
				out = append(out, t)
			}
		}
		return true
	})
	return out
}

func c17Pairs(ps [][2]string) string {
	var xs []string
	for _, p := range ps {
		xs = append(xs, fmt.Sprintf("(%s, %s)", c17LeanStr(p[0]), c17LeanStr(p[1])))
	}
	return "[" + strings.Join(xs, ", ") + "]"
}

func genC17Round8(repo string) (string, error) {
	var sb strings.Builder
	stmtFiles := map[string]*ast.File{}
	matches, _ := filepath.Glob(filepath.Join(repo, "sql", "stmt", "*.go"))
	sort.Strings(matches)
	var files []*ast.File
	for _, m := range matches {
		if strings.HasSuffix(m, "_test.go") || strings.HasPrefix(filepath.Base(m), "zz_verif") {
			continue
		}
		_, f, err := ParseFile(repo, filepath.Join("sql", "stmt", filepath.Base(m)))
		if err != nil {
			return "", err
		}
		stmtFiles[filepath.Base(m)] = f
		files = append(files, f)
	}
	ex := stmtFiles["expr.go"]
	if ex == nil {
		return "", fmt.Errorf("sql/stmt/expr.go not found")
	}

	// ---- the statement kinds that travel between nodes: every type of sql/stmt with an
	// UnmarshalJSON method; the node types: every type with a `Rewrite() string` method
	var wireStmts, nodeTypes []string
	for _, f := range files {
		for _, d := range f.Decls {
			fd, ok := d.(*ast.FuncDecl)
			if !ok || fd.Recv == nil || len(fd.Recv.List) != 1 {
				continue
			}
			rt := strings.TrimPrefix(exprText(fd.Recv.List[0].Type), "*")
			switch fd.Name.Name {
			case "UnmarshalJSON":
				wireStmts = append(wireStmts, rt)
			case "Rewrite":
				nodeTypes = append(nodeTypes, rt)
			}
		}
	}
	sort.Strings(wireStmts)
	sort.Strings(nodeTypes)
	fmt.Fprintf(&sb, "\n/-- types of sql/stmt with an UnmarshalJSON method (the statement kinds sent between nodes) -/\ndef wireStatements : List String := %s\n", LeanStrList(wireStmts))

	// ---- named obligations: one per field of every wire statement, one per node type
	var obl [][2]string
	for _, s := range wireStmts {
		fl, ok := c17StructFieldList(files, s)
		if !ok {
			return "", fmt.Errorf("struct %s not found in sql/stmt", s)
		}
		for _, f := range fl {
			obl = append(obl, [2]string{s + "." + f[0] + " : " + f[1], "field_" + s + "_" + f[0] + "_roundtrip"})
		}
	}
	var nodeFields []string
	for _, t := range nodeTypes {
		obl = append(obl, [2]string{"node type " + t, "kind_" + t + "_roundtrip"})
		fl, ok := c17StructFieldList(files, t)
		if !ok {
			return "", fmt.Errorf("node type %s is not a struct of sql/stmt", t)
		}
		nodeFields = append(nodeFields, fmt.Sprintf("(%s, %s)", c17LeanStr(t), c17Pairs(fl)))
	}
	fmt.Fprintf(&sb, "/-- (what, the theorem of Props.C17 that must exist for it) -/\ndef fieldObligations : List (String × String) := [\n  %s]\n",
		strings.TrimSuffix(strings.TrimPrefix(strings.ReplaceAll(c17Pairs(obl), "), (", "),\n  ("), "["), "]"))
	fmt.Fprintf(&sb, "/-- (node type, [(field, Go type)]) of every type with a Rewrite() method -/\ndef exprNodeFields : List (String × List (String × String)) := [\n  %s]\n", strings.Join(nodeFields, ",\n  "))

	// ---- decode targets: receivers of the processors, scratch values of the Unmarshal functions
	var dts [][2]string
	for _, site := range [][3]string{
		{"query/leaf_processor.go", "leafTaskProcessor", "processMetadataSuggest"},
		{"query/leaf_processor.go", "leafTaskProcessor", "processDataSearch"},
		{"query/intermediate_processor.go", "intermediateTaskProcessor", "processDataSearch"},
		{"query/intermediate_processor.go", "intermediateTaskProcessor", "processMetadataSearch"},
	} {
		_, f, err := ParseFile(repo, site[0])
		if err != nil {
			return "", err
		}
		fd := FindFunc(f, site[1], site[2])
		if fd == nil {
			return "", fmt.Errorf("%s.%s not found", site[1], site[2])
		}
		dts = append(dts, [2]string{site[1] + "." + site[2], c17FirstDecl(fd, "stmtQuery")})
	}
	for _, site := range [][4]string{
		{"query.go", "Query", "UnmarshalJSON", "inner"},
		{"metric_metadata.go", "MetricMetadata", "UnmarshalJSON", "inner"},
		{"expr.go", "", "Unmarshal", "expr"},
		{"expr.go", "", "unmarshalCall", "innerExpr"},
		{"expr.go", "", "unmarshalBinary", "innerExpr"},
		{"expr.go", "", "unmarshalSelectItem", "innerExpr"},
		{"expr.go", "", "unmarshalOrderByExpr", "innerExpr"},
	} {
		f := stmtFiles[site[0]]
		if f == nil {
			return "", fmt.Errorf("sql/stmt/%s not found", site[0])
		}
		fd := FindFunc(f, site[1], site[2])
		if fd == nil {
			return "", fmt.Errorf("%s.%s not found", site[1], site[2])
		}
		name := site[2]
		if site[1] != "" {
			name = site[1] + "." + site[2]
		}
		dts = append(dts, [2]string{name, c17FirstDecl(fd, site[3])})
	}
	fmt.Fprintf(&sb, "/-- (function, the statement that declares the decode receiver / scratch value) -/\ndef decodeTargets : List (String × String) := [\n  %s]\n",
		strings.TrimSuffix(strings.TrimPrefix(strings.ReplaceAll(c17Pairs(dts), "), (", "),\n  ("), "["), "]"))

	// ---- the json codec: what Marshal / MarshalJSON call, and the jsoniter config behind
	// encoding.JSONMarshal (lindb/common)
	var mcs [][2]string
	skip := map[string]bool{"Marshal": true, "append": true}
	for _, site := range [][3]string{{"expr.go", "", "Marshal"}, {"query.go", "Query", "MarshalJSON"}, {"metric_metadata.go", "MetricMetadata", "MarshalJSON"}} {
		fd := FindFunc(stmtFiles[site[0]], site[1], site[2])
		if fd == nil {
			return "", fmt.Errorf("%s.%s not found", site[1], site[2])
		}
		mcs = append(mcs, [2]string{strings.TrimPrefix(site[1]+"."+site[2], "."), strings.Join(c17Callees(fd, skip), ",")})
	}
	cdir, err := c17CommonDir(repo)
	if err != nil {
		return "", err
	}
	_, cf, err := ParseFile(cdir, "pkg/encoding/json.go")
	if err != nil {
		return "", err
	}
	cfg := "?"
	ast.Inspect(cf, func(n ast.Node) bool {
		if se, ok := n.(*ast.SelectorExpr); ok && exprText(se.X) == "jsoniter" && strings.HasPrefix(se.Sel.Name, "Config") {
			if cfg == "?" {
				cfg = "jsoniter." + se.Sel.Name
			} else if cfg != "jsoniter."+se.Sel.Name {
				cfg += ",jsoniter." + se.Sel.Name
			}
		}
		return true
	})
	mcs = append(mcs, [2]string{"lindb/common encoding", cfg})
	fmt.Fprintf(&sb, "/-- (function, the non-recursive calls it makes) and the jsoniter config of lindb/common's encoding package -/\ndef marshalCodec : List (String × String) := %s\n", c17Pairs(mcs))

	// ---- parser glue
	_, qp, err := ParseFile(repo, "sql/query_stmt_parser.go")
	if err != nil {
		return "", err
	}
	_, bp, err := ParseFile(repo, "sql/base_stmt_parser.go")
	if err != nil {
		return "", err
	}
	pd := FindFunc(qp, "queryStmtParser", "parseDuration")
	if pd == nil {
		return "", fmt.Errorf("parseDuration not found")
	}
	var utoks, uconsts, guard []string
	ast.Inspect(pd.Body, func(n ast.Node) bool {
		switch x := n.(type) {
		case *ast.SwitchStmt:
			for _, c := range x.Body.List {
				cc := c.(*ast.CaseClause)
				for _, l := range cc.List {
					t := exprText(l) // unit.T_SECOND() != nil
					t = strings.TrimSuffix(strings.TrimPrefix(t, "unit."), "() != nil")
					utoks = append(utoks, t)
				}
				for _, st := range cc.Body {
					if as, ok := st.(*ast.AssignStmt); ok && len(as.Rhs) == 1 {
						uconsts = append(uconsts, exprText(as.Rhs[0]))
					}
				}
			}
		case *ast.AssignStmt:
			if len(x.Lhs) == 1 && exprText(x.Lhs[0]) == "result" && x.Tok == token.ASSIGN {
				guard = append(guard, c17NodeText(x))
			}
		case *ast.IfStmt:
			if strings.Contains(exprText(x.Cond), "result") {
				guard = append(guard, c17NodeText(x))
			}
		}
		return true
	})
	fmt.Fprintf(&sb, "/-- parseDuration: the unit switch (token, constant) and the multiplication with its overflow guard -/\ndef durationUnits : List String := %s\ndef durationUnitConsts : List String := %s\ndef durationGuard : List String := %s\n",
		LeanStrList(utoks), LeanStrList(uconsts), LeanStrList(guard))
	vl := FindFunc(bp, "baseStmtParser", "visitLimit")
	if vl == nil {
		return "", fmt.Errorf("visitLimit not found")
	}
	lp := "?"
	ast.Inspect(vl.Body, func(n ast.Node) bool {
		if ce, ok := n.(*ast.CallExpr); ok && strings.HasPrefix(exprText(ce.Fun), "strconv.") {
			lp = exprText(ce)
		}
		return true
	})
	fmt.Fprintf(&sb, "def limitParse : String := %s\n", c17LeanStr(lp))
	vt := FindFunc(qp, "queryStmtParser", "visitTimeRangeExpr")
	if vt == nil {
		return "", fmt.Errorf("visitTimeRangeExpr not found")
	}
	var tro [][2]string
	ast.Inspect(vt.Body, func(n ast.Node) bool {
		if is, ok := n.(*ast.IfStmt); ok {
			for _, st := range is.Body.List {
				if as, ok := st.(*ast.AssignStmt); ok && len(as.Lhs) == 1 && (exprText(as.Lhs[0]) == "q.startTime" || exprText(as.Lhs[0]) == "q.endTime") {
					tro = append(tro, [2]string{exprText(is.Cond), c17NodeText(as)})
				}
			}
		}
		return true
	})
	fmt.Fprintf(&sb, "/-- visitTimeRangeExpr: (condition, assignment) of the two bounds -/\ndef timeRangeOps : List (String × String) := %s\n", c17Pairs(tro))
	bf := FindFunc(qp, "queryStmtParser", "build")
	tg := "?"
	if bf != nil {
		ast.Inspect(bf.Body, func(n ast.Node) bool {
			if is, ok := n.(*ast.IfStmt); ok {
				if c := exprText(is.Cond); strings.Contains(c, "TimeRange.End") && strings.Contains(c, "TimeRange.Start") {
					tg = c
				}
			}
			return true
		})
	}
	fmt.Fprintf(&sb, "def timeOrderGuard : String := %s\n", c17LeanStr(tg))
	vg := FindFunc(qp, "queryStmtParser", "visitGroupByKey")
	if vg == nil {
		return "", fmt.Errorf("visitGroupByKey not found")
	}
	var gas [][2]string
	ast.Inspect(vg.Body, func(n ast.Node) bool {
		if as, ok := n.(*ast.AssignStmt); ok && len(as.Lhs) == 1 && len(as.Rhs) == 1 && strings.HasPrefix(exprText(as.Lhs[0]), "q.") {
			gas = append(gas, [2]string{exprText(as.Lhs[0]), exprText(as.Rhs[0])})
		}
		return true
	})
	fmt.Fprintf(&sb, "def groupByKeyAssigns : List (String × String) := %s\n", c17Pairs(gas))

	// ---- the where-condition stack machine: visitTagFilterExpr's pushes, completeTagFilterExpr's
	// parent link, setTagFilterExprValue / visitTagValue
	var tfa [][2]string
	for _, name := range []string{"visitTagFilterExpr", "visitTagValue", "setTagFilterExprValue", "completeTagFilterExpr"} {
		fd := FindFunc(bp, "baseStmtParser", name)
		if fd == nil {
			return "", fmt.Errorf("%s not found", name)
		}
		var walk func(stmts []ast.Stmt, ctx string)
		walk = func(stmts []ast.Stmt, ctx string) {
			for _, st := range stmts {
				switch x := st.(type) {
				case *ast.AssignStmt:
					if x.Tok == token.ASSIGN {
						tfa = append(tfa, [2]string{name + ": " + ctx, c17NodeText(x)})
					}
				case *ast.ExprStmt:
					if t := c17NodeText(x); strings.Contains(t, "exprStack.Push") || strings.Contains(t, "setTagFilterExprValue") {
						tfa = append(tfa, [2]string{name + ": " + ctx, t})
					}
				case *ast.IfStmt:
					c := exprText(x.Cond)
					if x.Init != nil {
						c = c17NodeText(x.Init) + "; " + c
					}
					walk(x.Body.List, strings.TrimPrefix(ctx+" / if "+c, " / "))
					switch e := x.Else.(type) {
					case *ast.BlockStmt:
						walk(e.List, strings.TrimPrefix(ctx+" / else", " / "))
					case *ast.IfStmt:
						walk([]ast.Stmt{e}, strings.TrimPrefix(ctx+" / else", " / "))
					}
				case *ast.SwitchStmt:
					for _, c := range x.Body.List {
						cc := c.(*ast.CaseClause)
						var ls []string
						for _, l := range cc.List {
							ls = append(ls, exprText(l))
						}
						walk(cc.Body, strings.TrimPrefix(ctx+" / case "+strings.Join(ls, ","), " / "))
					}
				case *ast.TypeSwitchStmt:
					for _, c := range x.Body.List {
						cc := c.(*ast.CaseClause)
						var ls []string
						for _, l := range cc.List {
							ls = append(ls, exprText(l))
						}
						walk(cc.Body, strings.TrimPrefix(ctx+" / case "+strings.Join(ls, ","), " / "))
					}
				}
			}
		}
		walk(fd.Body.List, "")
	}
	fmt.Fprintf(&sb, "/-- the where-condition stack machine: (function: enclosing branches, statement) -/\ndef tagFilterAttach : List (String × String) := [\n  %s]\n",
		strings.TrimSuffix(strings.TrimPrefix(strings.ReplaceAll(c17Pairs(tfa), "), (", "),\n  ("), "["), "]"))

	// ---- calcTimeRangeAndInterval: the statement fields it assigns, in order
	_, ut, err := ParseFile(repo, "query/context/utils.go")
	if err != nil {
		return "", err
	}
	ct := FindFunc(ut, "", "calcTimeRangeAndInterval")
	if ct == nil {
		return "", fmt.Errorf("calcTimeRangeAndInterval not found")
	}
	var pas []string
	ast.Inspect(ct.Body, func(n ast.Node) bool {
		if as, ok := n.(*ast.AssignStmt); ok {
			for _, l := range as.Lhs {
				if t := exprText(l); strings.HasPrefix(t, "statement.") {
					pas = append(pas, t)
				}
			}
		}
		return true
	})
	fmt.Fprintf(&sb, "/-- calcTimeRangeAndInterval: the fields of the statement it assigns, in source order -/\ndef plannerAssigns : List String := %s\n", LeanStrList(pas))
	return sb.String(), nil
}
