package extract

import (
	"fmt"
	"go/ast"
	"go/parser"
	"go/token"
	"os"
	"path/filepath"
	"sort"
	"strings"
)

// Package-level variables reachable from the merge job's code (C04): the sequential theorems about
// DownSamplingMultiSeriesInto / the metric data merger describe ONE job; jobs of different families
// run concurrently (Store.ForceRollup, the compaction timer), so these theorems carry over only if the
// jobs share no scratch state. This fact lists every package-level `var` that the code reachable
// (inside its own package, syntactically) from the given root functions mentions, with how:
//   "sync.Pool"    declared as a sync.Pool (concurrency-safe by contract)
//   "copy-source"  only ever used as the source operand of the builtin copy (read-only use)
//   "shared"       anything else (indexing, slicing, assignment, passing on, ...)

type pkgSrc struct {
	vars    map[string]string        // var name -> declared type text ("" if inferred)
	funcs   map[string]*ast.FuncDecl // plain functions
	methods map[string][]*ast.FuncDecl
}

func loadPkg(dir string) (*pkgSrc, error) {
	ents, err := os.ReadDir(dir)
	if err != nil {
		return nil, err
	}
	p := &pkgSrc{vars: map[string]string{}, funcs: map[string]*ast.FuncDecl{}, methods: map[string][]*ast.FuncDecl{}}
	fset := token.NewFileSet()
	for _, e := range ents {
		n := e.Name()
		if e.IsDir() || !strings.HasSuffix(n, ".go") || strings.HasSuffix(n, "_test.go") || strings.HasPrefix(n, "zz_verif") {
			continue
		}
		f, err := parser.ParseFile(fset, filepath.Join(dir, n), nil, 0)
		if err != nil {
			return nil, err
		}
		StripYields(f)
		for _, d := range f.Decls {
			switch x := d.(type) {
			case *ast.GenDecl:
				if x.Tok != token.VAR {
					continue
				}
				for _, s := range x.Specs {
					vs := s.(*ast.ValueSpec)
					ty := ""
					if vs.Type != nil {
						ty = c04TypeText(vs.Type)
					}
					for _, nm := range vs.Names {
						p.vars[nm.Name] = ty
					}
				}
			case *ast.FuncDecl:
				if x.Body == nil {
					continue
				}
				if x.Recv == nil {
					p.funcs[x.Name.Name] = x
				} else {
					p.methods[x.Name.Name] = append(p.methods[x.Name.Name], x)
				}
			}
		}
	}
	return p, nil
}

func c04TypeText(e ast.Expr) string {
	switch x := e.(type) {
	case *ast.Ident:
		return x.Name
	case *ast.SelectorExpr:
		return c04TypeText(x.X) + "." + x.Sel.Name
	case *ast.StarExpr:
		return "*" + c04TypeText(x.X)
	case *ast.ArrayType:
		return "[]" + c04TypeText(x.Elt)
	}
	return "?"
}

func sharedVarRefs(repo, rel string, roots []string) ([][2]string, error) {
	p, err := loadPkg(filepath.Join(repo, rel))
	if err != nil {
		return nil, err
	}
	// closure over same-package functions / uniquely named methods
	seen := map[*ast.FuncDecl]bool{}
	var work []*ast.FuncDecl
	add := func(fd *ast.FuncDecl) {
		if fd != nil && !seen[fd] {
			seen[fd] = true
			work = append(work, fd)
		}
	}
	for _, r := range roots {
		if i := strings.IndexByte(r, '.'); i >= 0 {
			found := false
			for _, m := range p.methods[r[i+1:]] {
				t := m.Recv.List[0].Type
				if s, ok := t.(*ast.StarExpr); ok {
					t = s.X
				}
				if id, ok := t.(*ast.Ident); ok && id.Name == r[:i] {
					add(m)
					found = true
				}
			}
			if !found {
				return nil, fmt.Errorf("%s: method %s not found", rel, r)
			}
		} else {
			if p.funcs[r] == nil {
				return nil, fmt.Errorf("%s: function %s not found", rel, r)
			}
			add(p.funcs[r])
		}
	}
	uses := map[string]map[string]bool{} // var -> set of use kinds
	for len(work) > 0 {
		fd := work[0]
		work = work[1:]
		// local names of this function (params, results, receiver, := and var declarations)
		locals := map[string]bool{}
		collect := func(fl *ast.FieldList) {
			if fl == nil {
				return
			}
			for _, f := range fl.List {
				for _, n := range f.Names {
					locals[n.Name] = true
				}
			}
		}
		collect(fd.Recv)
		collect(fd.Type.Params)
		collect(fd.Type.Results)
		ast.Inspect(fd.Body, func(n ast.Node) bool {
			switch x := n.(type) {
			case *ast.AssignStmt:
				if x.Tok == token.DEFINE {
					for _, l := range x.Lhs {
						if id, ok := l.(*ast.Ident); ok {
							locals[id.Name] = true
						}
					}
				}
			case *ast.ValueSpec:
				for _, nm := range x.Names {
					locals[nm.Name] = true
				}
			case *ast.RangeStmt:
				if x.Tok == token.DEFINE {
					for _, l := range []ast.Expr{x.Key, x.Value} {
						if id, ok := l.(*ast.Ident); ok {
							locals[id.Name] = true
						}
					}
				}
			case *ast.FuncLit:
				collect(x.Type.Params)
				collect(x.Type.Results)
			}
			return true
		})
		var walk func(n ast.Node, kind string)
		walk = func(n ast.Node, kind string) {
			ast.Inspect(n, func(m ast.Node) bool {
				switch x := m.(type) {
				case *ast.SelectorExpr:
					walk(x.X, "shared")
					// method call of a uniquely named method of this package
					return false
				case *ast.KeyValueExpr:
					walk(x.Value, "shared")
					return false
				case *ast.CallExpr:
					if id, ok := x.Fun.(*ast.Ident); ok {
						if id.Name == "copy" && len(x.Args) == 2 && !locals["copy"] {
							walk(x.Args[0], "shared")
							if aid, ok := x.Args[1].(*ast.Ident); ok {
								walk(aid, "copy-source")
							} else {
								walk(x.Args[1], "shared")
							}
							return false
						}
						if f := p.funcs[id.Name]; f != nil && !locals[id.Name] {
							add(f)
						}
					}
					if se, ok := x.Fun.(*ast.SelectorExpr); ok {
						if ms := p.methods[se.Sel.Name]; len(ms) == 1 {
							add(ms[0])
						}
					}
					return true
				case *ast.Ident:
					if _, ok := p.vars[x.Name]; ok && !locals[x.Name] {
						if uses[x.Name] == nil {
							uses[x.Name] = map[string]bool{}
						}
						uses[x.Name][kind] = true
					}
				}
				return true
			})
		}
		walk(fd.Body, "shared")
	}
	var out [][2]string
	for v, ks := range uses {
		class := "shared"
		switch {
		case p.vars[v] == "sync.Pool":
			class = "sync.Pool"
		case len(ks) == 1 && ks["copy-source"]:
			class = "copy-source"
		}
		out = append(out, [2]string{v, class})
	}
	sort.Slice(out, func(i, j int) bool { return out[i][0] < out[j][0] })
	return out, nil
}

func c04SharedState(repo string) (string, error) {
	var sb strings.Builder
	type root struct {
		rel   string
		roots []string
	}
	var items []string
	for _, r := range []root{
		{"aggregation", []string{"DownSamplingMultiSeriesInto"}},
		{"tsdb/tblstore/metricsdata", []string{"merger.Merge", "merger.prepare", "seriesMerger.merge"}},
	} {
		// the timestamp-placement entry point, when present, belongs to the same closure
		if r.rel == "aggregation" {
			if p, err := loadPkg(filepath.Join(repo, r.rel)); err == nil && p.funcs["DownSamplingMultiSeriesIntoBy"] != nil {
				r.roots = append(r.roots, "DownSamplingMultiSeriesIntoBy")
			}
		}
		refs, err := sharedVarRefs(repo, r.rel, r.roots)
		if err != nil {
			return "", err
		}
		for _, x := range refs {
			items = append(items, fmt.Sprintf("(%q, %q, %q)", r.rel, x[0], x[1]))
		}
	}
	sb.WriteString("\n/-- package-level variables mentioned by the code reachable (inside its package) from\n`DownSamplingMultiSeriesInto` and from `merger.Merge/prepare`, `seriesMerger.merge`: (package, variable, use) -/\n")
	sb.WriteString("def mergeJobPackageVars : List (String × String × String) := [" + strings.Join(items, ", ") + "]\n")
	return sb.String(), nil
}
