package extract

import (
	"fmt"
	"go/ast"
	"go/token"
	"strconv"
	"strings"
)

// C01: edit-log type tags, StoreFamilyID, file-name constants and formats, the initial file
// numbers of a version set, the NextFileNumber / setNextFileNumberWithoutLock formulas and the
// call orders of the functions whose step order the crash model depends on.
func init() {
	Register(Fact{Module: "C01", Gen: func(repo string) (string, error) {
		var sb strings.Builder
		// ---- log.go: LogType iota block
		_, lg, err := ParseFile(repo, "kv/version/log.go")
		if err != nil {
			return "", err
		}
		cs := ConstInts(lg)
		for _, n := range []string{"NewFileLog", "DeleteFileLog", "NextFileNumberLog", "NewRollupFileLog", "DeleteRollupFileLog",
			"NewReferenceFileLog", "DeleteReferenceFileLog", "SequenceNumberLog"} {
			v, ok := cs[n]
			if !ok {
				return "", fmt.Errorf("constant %s not found in kv/version/log.go", n)
			}
			fmt.Fprintf(&sb, "def %s : Nat := %d\n", lower(n), v)
		}
		// ---- edit_log.go: StoreFamilyID, marshal / unmarshal / apply call orders
		_, el, err := ParseFile(repo, "kv/version/edit_log.go")
		if err != nil {
			return "", err
		}
		ec := ConstInts(el)
		sid, ok := ec["StoreFamilyID"]
		if !ok {
			return "", fmt.Errorf("StoreFamilyID not found")
		}
		fmt.Fprintf(&sb, "def storeFamilyID : Int := %s\n", LeanInt(sid))
		sb.WriteString("def marshalCalls : List String := " + LeanStrList(CallSeq(FindFunc(el, "editLog", "marshal"))) + "\n")
		sb.WriteString("def unmarshalCalls : List String := " + LeanStrList(CallSeq(FindFunc(el, "editLog", "unmarshal"))) + "\n")
		sb.WriteString("def editLogApplyCalls : List String := " + LeanStrList(CallSeq(FindFunc(el, "editLog", "apply"))) + "\n")
		// ---- file_name.go
		_, fn, err := ParseFile(repo, "kv/version/file_name.go")
		if err != nil {
			return "", err
		}
		strs := constStrings(fn)
		for _, n := range []string{"sstSuffix", "TmpSuffix", "Lock", "Options", "ManifestPrefix"} {
			v, ok := strs[n]
			if !ok {
				return "", fmt.Errorf("string constant %s not found in kv/version/file_name.go", n)
			}
			fmt.Fprintf(&sb, "def %s : String := %s\n", lower(n), strconv.Quote(v))
		}
		for _, p := range [][2]string{{"Table", "tableFormat"}, {"ManifestFileName", "manifestFormat"}, {"current", "currentName"}} {
			lit, err := firstStringLit(FindFunc(fn, "", p[0]))
			if err != nil {
				return "", fmt.Errorf("%s: %w", p[0], err)
			}
			fmt.Fprintf(&sb, "def %s : String := %s\n", p[1], strconv.Quote(lit))
		}
		// ---- version_set.go
		_, vs, err := ParseFile(repo, "kv/version/version_set.go")
		if err != nil {
			return "", err
		}
		nsv := FindFunc(vs, "", "NewStoreVersionSet")
		for _, p := range [][2]string{{"manifestFileNumber", "initManifestFileNumber"}, {"nextFileNumber", "initNextFileNumber"}} {
			v, err := compositeFieldInt(nsv, p[0])
			if err != nil {
				return "", err
			}
			fmt.Fprintf(&sb, "def %s : Int := %s\n", p[1], LeanInt(v))
		}
		snf := FindFunc(vs, "storeVersionSet", "setNextFileNumberWithoutLock")
		for _, p := range [][2]string{{"manifestFileNumber", "manifestAfterNext"}, {"nextFileNumber", "nextAfterNext"}} {
			arg := storeArg(snf, p[0])
			def, err := ExprDef(arg, p[1], []string{"next"}, nil, nil)
			if err != nil {
				return "", err
			}
			sb.WriteString(def)
		}
		nfn := FindFunc(vs, "storeVersionSet", "NextFileNumber")
		ret := lastReturnExpr(nfn)
		def, err := ExprDef(ret, "allocReturn", []string{"nextNumber"}, nil, nil)
		if err != nil {
			return "", err
		}
		sb.WriteString(def)
		for _, p := range [][3]string{
			{"storeVersionSet", "initJournal", "initJournalCalls"},
			{"storeVersionSet", "setCurrent", "setCurrentCalls"},
			{"storeVersionSet", "persistEditLogs", "persistEditLogsCalls"},
			{"storeVersionSet", "CommitFamilyEditLog", "commitFamilyEditLogCalls"},
			{"storeVersionSet", "Recover", "recoverCalls"},
			{"storeVersionSet", "createSnapshot", "createSnapshotCalls"},
			{"storeVersionSet", "createFamilySnapshot", "createFamilySnapshotCalls"},
		} {
			fd := FindFunc(vs, p[0], p[1])
			if fd == nil {
				return "", fmt.Errorf("%s.%s not found", p[0], p[1])
			}
			sb.WriteString("def " + p[2] + " : List String := " + LeanStrList(CallSeq(fd)) + "\n")
		}
		// CommitFamilyEditLog split at `vs.mutex.Lock()`: what a committer has called when it reaches the
		// lock, and what it calls inside the critical section (the deferred Unlock runs at return, so
		// everything after the Lock is under it). NextFileNumber: the allocation is under the same mutex.
		{
			seq := CallSeq(FindFunc(vs, "storeVersionSet", "CommitFamilyEditLog"))
			at := len(seq)
			for i, c := range seq {
				if c == "mutex.Lock" {
					at = i
					break
				}
			}
			// held from Lock to return: `defer vs.mutex.Unlock()` right after the Lock, no explicit Unlock later
			held := at+1 < len(seq) && seq[at+1] == "defer:mutex.Unlock"
			under := []string{}
			if at < len(seq) {
				under = seq[at+1:]
			}
			for _, c := range under {
				if c == "mutex.Unlock" {
					held = false
				}
			}
			sb.WriteString("def commitBeforeLockCalls : List String := " + LeanStrList(seq[:at]) + "\n")
			sb.WriteString("def commitUnderLockCalls : List String := " + LeanStrList(under) + "\n")
			if held {
				sb.WriteString("def commitLockHeldToReturn : Bool := true\n")
			} else {
				sb.WriteString("def commitLockHeldToReturn : Bool := false\n")
			}
			sb.WriteString("def nextFileNumberCalls : List String := " + LeanStrList(CallSeq(nfn)) + "\n")
		}
		// ---- flusher.go, store.go, family.go
		_, fl, err := ParseFile(repo, "kv/flusher.go")
		if err != nil {
			return "", err
		}
		cm := FindFunc(fl, "storeFlusher", "Commit")
		if cm == nil {
			return "", fmt.Errorf("storeFlusher.Commit not found")
		}
		sb.WriteString("def flushCommitCalls : List String := " + LeanStrList(CallSeq(cm)) + "\n")
		sb.WriteString("def flushCommitDeferCalls : List String := " + LeanStrList(deferBodyCalls(cm)) + "\n")
		_, st, err := ParseFile(repo, "kv/store.go")
		if err != nil {
			return "", err
		}
		ns := FindFunc(st, "", "newStore")
		if ns == nil {
			return "", fmt.Errorf("newStore not found")
		}
		sb.WriteString("def newStoreCalls : List String := " + LeanStrList(CallSeq(ns)) + "\n")
		sb.WriteString("def newStoreDeferCalls : List String := " + LeanStrList(deferBodyCalls(ns)) + "\n")
		sb.WriteString("def deleteObsoleteFilesCalls : List String := " + LeanStrList(CallSeq(FindFunc(st, "store", "deleteObsoleteFiles"))) + "\n")
		sb.WriteString("def storeCloseCalls : List String := " + LeanStrList(CallSeq(FindFunc(st, "store", "close"))) + "\n")
		sb.WriteString("def createFamilyCalls : List String := " + LeanStrList(CallSeq(FindFunc(st, "store", "CreateFamily"))) + "\n")
		// CreateFamily's write-lock region: calls after `s.rwMutex.Lock()`; held to return iff the deferred Unlock
		// follows the Lock directly and no explicit Unlock appears later; where the handle is published
		// (`s.families[name] = family`) and whether s.families is looked up again under the write lock.
		{
			cf := FindFunc(st, "store", "CreateFamily")
			if cf == nil {
				return "", fmt.Errorf("store.CreateFamily not found")
			}
			seq := CallSeq(cf)
			at := len(seq)
			for i, c := range seq {
				if c == "rwMutex.Lock" {
					at = i
					break
				}
			}
			held := at+1 < len(seq) && seq[at+1] == "defer:rwMutex.Unlock"
			under := []string{}
			if at < len(seq) {
				under = seq[at+1:]
			}
			for _, c := range under {
				if c == "rwMutex.Unlock" || c == "rwMutex.Lock" {
					held = false
				}
			}
			sb.WriteString("def createFamilyUnderLockCalls : List String := " + LeanStrList(under) + "\n")
			sb.WriteString("def createFamilyLockHeldToReturn : Bool := " + strconv.FormatBool(held) + "\n")
			lockPos, existPos := token.NoPos, token.NoPos
			ast.Inspect(cf.Body, func(n ast.Node) bool {
				if ce, ok := n.(*ast.CallExpr); ok {
					switch exprTail(ce.Fun) {
					case "rwMutex.Lock":
						if lockPos == token.NoPos {
							lockPos = ce.Pos()
						}
					case "fileutil.Exist":
						if existPos == token.NoPos {
							existPos = ce.Pos()
						}
					}
				}
				return true
			})
			publishes, rechecks := 0, 0
			lhs := map[ast.Expr]bool{}
			ast.Inspect(cf.Body, func(n ast.Node) bool {
				if as, ok := n.(*ast.AssignStmt); ok && as.Tok == token.ASSIGN {
					for _, l := range as.Lhs {
						if ix, ok := l.(*ast.IndexExpr); ok && exprTail(ix.X) == "s.families" {
							lhs[ix] = true
							if lockPos != token.NoPos && ix.Pos() > lockPos {
								publishes++
							} else {
								publishes += 100 // a publication outside the write lock
							}
						}
					}
				}
				return true
			})
			ast.Inspect(cf.Body, func(n ast.Node) bool {
				if ix, ok := n.(*ast.IndexExpr); ok && exprTail(ix.X) == "s.families" && !lhs[ix] {
					if lockPos != token.NoPos && ix.Pos() > lockPos && (existPos == token.NoPos || ix.Pos() < existPos) {
						rechecks++
					}
				}
				return true
			})
			sb.WriteString("def createFamilyPublishesAfterLock : Nat := " + strconv.Itoa(publishes) + "\n")
			sb.WriteString("def createFamilyRechecksUnderLock : Bool := " + strconv.FormatBool(rechecks > 0) + "\n")
		}
		_, fm, err := ParseFile(repo, "kv/family.go")
		if err != nil {
			return "", err
		}
		sb.WriteString("def newTableBuilderCalls : List String := " + LeanStrList(CallSeq(FindFunc(fm, "family", "newTableBuilder"))) + "\n")
		sb.WriteString("def backgroundCompactionJobCalls : List String := " + LeanStrList(CallSeq(FindFunc(fm, "family", "backgroundCompactionJob"))) + "\n")
		sb.WriteString("def backgroundCompactionJobDeferCalls : List String := " + LeanStrList(deferBodyCalls(FindFunc(fm, "family", "backgroundCompactionJob"))) + "\n")
		_, cj, err := ParseFile(repo, "kv/compact_job.go")
		if err != nil {
			return "", err
		}
		sb.WriteString("def mergeCompactionCalls : List String := " + LeanStrList(CallSeq(FindFunc(cj, "compactJob", "mergeCompaction"))) + "\n")
		sb.WriteString("def installCompactionResultsCalls : List String := " + LeanStrList(CallSeq(FindFunc(cj, "compactJob", "installCompactionResults"))) + "\n")
		sb.WriteString("def moveCompactionCalls : List String := " + LeanStrList(CallSeq(FindFunc(cj, "compactJob", "moveCompaction"))) + "\n")
		// ---- table/builder.go: storeBuilder.Close must hand the error of the final writer.Close() (buffer
		// flush + file close) to its caller: named result, assigned inside the deferred closure, not shadowed
		_, tb, err := ParseFile(repo, "kv/table/builder.go")
		if err != nil {
			return "", err
		}
		bc := FindFunc(tb, "storeBuilder", "Close")
		if bc == nil {
			return "", fmt.Errorf("storeBuilder.Close not found")
		}
		var resNames, deferAssigned, declared []string
		if bc.Type.Results != nil {
			for _, f := range bc.Type.Results.List {
				for _, n := range f.Names {
					resNames = append(resNames, n.Name)
				}
			}
		}
		ast.Inspect(bc.Body, func(n ast.Node) bool {
			switch x := n.(type) {
			case *ast.DeferStmt:
				if lit, ok := x.Call.Fun.(*ast.FuncLit); ok {
					ast.Inspect(lit.Body, func(m ast.Node) bool {
						if as, ok := m.(*ast.AssignStmt); ok && as.Tok == token.ASSIGN {
							for _, l := range as.Lhs {
								if id, ok := l.(*ast.Ident); ok {
									deferAssigned = append(deferAssigned, id.Name)
								}
							}
						}
						return true
					})
				}
				return false
			case *ast.DeclStmt:
				if gd, ok := x.Decl.(*ast.GenDecl); ok && gd.Tok == token.VAR {
					for _, sp := range gd.Specs {
						for _, nm := range sp.(*ast.ValueSpec).Names {
							declared = append(declared, nm.Name)
						}
					}
				}
			}
			return true
		})
		// ---- pkg/bufioutil: entry framing (uvarint length header + content; ReadUvarint + io.ReadFull)
		_, er, err := ParseFile(repo, "pkg/bufioutil/bufio_entry_reader.go")
		if err != nil {
			return "", err
		}
		nx := FindFunc(er, "bufioEntryReader", "Next")
		if nx == nil {
			return "", fmt.Errorf("bufioEntryReader.Next not found")
		}
		sb.WriteString("def entryReaderNextCalls : List String := " + LeanStrList(CallSeq(nx)) + "\n")
		_, ew, err := ParseFile(repo, "pkg/bufioutil/bufio_writer.go")
		if err != nil {
			return "", err
		}
		wr := FindFunc(ew, "bufioEntryWriter", "Write")
		if wr == nil {
			return "", fmt.Errorf("bufioEntryWriter.Write not found")
		}
		sb.WriteString("def entryWriterWriteCalls : List String := " + LeanStrList(CallSeq(wr)) + "\n")
		sb.WriteString("def entryWriterSyncCalls : List String := " + LeanStrList(CallSeq(FindFunc(ew, "bufioEntryWriter", "Sync"))) + "\n")
		for _, p := range [][2]interface{}{{er, "defaultReadBufferSize"}, {ew, "defaultWriteBufferSize"}} {
			v, ok := ConstInts(p[0].(*ast.File))[p[1].(string)]
			if !ok {
				return "", fmt.Errorf("%s not found", p[1])
			}
			fmt.Fprintf(&sb, "def %s : Nat := %d\n", p[1], v)
		}
		sb.WriteString("def builderCloseResultNames : List String := " + LeanStrList(resNames) + "\n")
		sb.WriteString("def builderCloseDeferAssigned : List String := " + LeanStrList(deferAssigned) + "\n")
		sb.WriteString("def builderCloseVarDecls : List String := " + LeanStrList(declared) + "\n")
		sb.WriteString("def builderCloseDeferCalls : List String := " + LeanStrList(deferBodyCalls(bc)) + "\n")
		r10, err := c01Round10Facts(repo)
		if err != nil {
			return "", err
		}
		sb.WriteString(r10)
		r12, err := c01Round12Facts(repo)
		if err != nil {
			return "", err
		}
		sb.WriteString(r12)
		r13, err := c01Round13Facts(repo)
		if err != nil {
			return "", err
		}
		sb.WriteString(r13)
		return sb.String(), nil
	}})
}

// deferBodyCalls lists the calls inside the bodies of `defer func() { ... }()` statements of fd
// (extract.CallSeq names such a defer "defer:?" and does not descend into the literal).
func deferBodyCalls(fd *ast.FuncDecl) []string {
	var out []string
	if fd == nil || fd.Body == nil {
		return out
	}
	ast.Inspect(fd.Body, func(n ast.Node) bool {
		if ds, ok := n.(*ast.DeferStmt); ok {
			if lit, ok := ds.Call.Fun.(*ast.FuncLit); ok {
				out = append(out, CallSeq(&ast.FuncDecl{Body: lit.Body})...)
			}
			return false
		}
		return true
	})
	return out
}

func lower(n string) string { return strings.ToLower(n[:1]) + n[1:] }

// constStrings collects package-level string constants with literal values.
func constStrings(f *ast.File) map[string]string {
	out := map[string]string{}
	for _, d := range f.Decls {
		gd, ok := d.(*ast.GenDecl)
		if !ok || gd.Tok != token.CONST {
			continue
		}
		for _, s := range gd.Specs {
			vs := s.(*ast.ValueSpec)
			for i, n := range vs.Names {
				if i < len(vs.Values) {
					if bl, ok := vs.Values[i].(*ast.BasicLit); ok && bl.Kind == token.STRING {
						if v, err := strconv.Unquote(bl.Value); err == nil {
							out[n.Name] = v
						}
					}
				}
			}
		}
	}
	return out
}

// firstStringLit returns the first string literal in fd's body.
func firstStringLit(fd *ast.FuncDecl) (string, error) {
	if fd == nil || fd.Body == nil {
		return "", fmt.Errorf("function not found")
	}
	var out *string
	ast.Inspect(fd.Body, func(n ast.Node) bool {
		if out != nil {
			return false
		}
		if bl, ok := n.(*ast.BasicLit); ok && bl.Kind == token.STRING {
			if v, err := strconv.Unquote(bl.Value); err == nil {
				out = &v
			}
		}
		return true
	})
	if out == nil {
		return "", fmt.Errorf("no string literal")
	}
	return *out, nil
}

// compositeFieldInt finds `field: *atomic.NewInt64(N)` (or `field: N`) in a composite literal of fd.
func compositeFieldInt(fd *ast.FuncDecl, field string) (int64, error) {
	if fd == nil {
		return 0, fmt.Errorf("function for field %s not found", field)
	}
	var res *int64
	ast.Inspect(fd.Body, func(n ast.Node) bool {
		kv, ok := n.(*ast.KeyValueExpr)
		if !ok || res != nil {
			return res == nil
		}
		if id, ok := kv.Key.(*ast.Ident); ok && id.Name == field {
			ast.Inspect(kv.Value, func(m ast.Node) bool {
				if bl, ok := m.(*ast.BasicLit); ok && bl.Kind == token.INT && res == nil {
					if v, err := strconv.ParseInt(bl.Value, 0, 64); err == nil {
						res = &v
					}
				}
				return true
			})
		}
		return true
	})
	if res == nil {
		return 0, fmt.Errorf("initial value of %s not found", field)
	}
	return *res, nil
}

// storeArg returns the argument of `<recv>.<field>.Store(arg)` in fd.
func storeArg(fd *ast.FuncDecl, field string) ast.Expr {
	var out ast.Expr
	if fd == nil {
		return nil
	}
	ast.Inspect(fd.Body, func(n ast.Node) bool {
		ce, ok := n.(*ast.CallExpr)
		if !ok || out != nil || len(ce.Args) != 1 {
			return out == nil
		}
		if se, ok := ce.Fun.(*ast.SelectorExpr); ok && se.Sel.Name == "Store" {
			if inner, ok := se.X.(*ast.SelectorExpr); ok && inner.Sel.Name == field {
				out = ce.Args[0]
			}
		}
		return true
	})
	return out
}

// lastReturnExpr returns the (single) result of the last return statement of fd, with an outer
// conversion `T(e)` stripped.
func lastReturnExpr(fd *ast.FuncDecl) ast.Expr {
	var out ast.Expr
	if fd == nil {
		return nil
	}
	ast.Inspect(fd.Body, func(n ast.Node) bool {
		if rs, ok := n.(*ast.ReturnStmt); ok && len(rs.Results) == 1 {
			out = rs.Results[0]
		}
		return true
	})
	if ce, ok := out.(*ast.CallExpr); ok && len(ce.Args) == 1 {
		out = ce.Args[0]
	}
	return out
}

// exprTail renders a selector chain without its first receiver part for calls (`s.rwMutex.Lock` -> "rwMutex.Lock")
// and fully for two-part selectors (`s.families` -> "s.families", `fileutil.Exist` -> "fileutil.Exist").
func exprTail(e ast.Expr) string {
	var parts []string
	for {
		switch x := e.(type) {
		case *ast.SelectorExpr:
			parts = append([]string{x.Sel.Name}, parts...)
			e = x.X
			continue
		case *ast.Ident:
			parts = append([]string{x.Name}, parts...)
		}
		break
	}
	if len(parts) > 2 {
		parts = parts[len(parts)-2:]
	}
	return strings.Join(parts, ".")
}
