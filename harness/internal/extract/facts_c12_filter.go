package extract

import (
	"fmt"
	"go/ast"
	"go/token"
	"strings"
)

// C12, third part: the leaf's where-clause path (query/operator/tag_values_lookup.go,
// series_filtering.go) and the wire encoding of a field's partial result
// (aggregation/field_iterator.go MarshalBinary), statement by statement — what
// Model/C12LeafFilter.lean and Model/C12FieldWire.lean mirror.

// c12NestedSwitch is c12NestedShort that also opens (type) switch statements: one `case …` line
// per clause, the clause's body nested below it.
func c12NestedSwitch(fset *token.FileSet, stmts []ast.Stmt) []string {
	var out []string
	for _, st := range stmts {
		var clauses []ast.Stmt
		head := ""
		switch x := st.(type) {
		case *ast.TypeSwitchStmt:
			head = "switch " + c12Src(fset, x.Assign)
			clauses = x.Body.List
		case *ast.SwitchStmt:
			head = "switch"
			if x.Tag != nil {
				head += " " + c12Src(fset, x.Tag)
			}
			clauses = x.Body.List
		default:
			out = append(out, c12NestedShort(fset, []ast.Stmt{st})...)
			continue
		}
		out = append(out, head)
		for _, c := range clauses {
			cc := c.(*ast.CaseClause)
			if cc.List == nil {
				out = append(out, "  default")
			} else {
				var ts []string
				for _, e := range cc.List {
					ts = append(ts, c12Src(fset, e))
				}
				out = append(out, "  case "+strings.Join(ts, ", "))
			}
			for _, l := range c12NestedSwitch(fset, cc.Body) {
				out = append(out, "    "+l)
			}
		}
	}
	return out
}

func c12FilterFacts(repo string, sb *strings.Builder) error {
	fsetL, lf, err := ParseFile(repo, "query/operator/tag_values_lookup.go")
	if err != nil {
		return err
	}
	find := FindFunc(lf, "tagValuesLookup", "findTagValueIDsByExpr")
	if find == nil || find.Body == nil {
		return fmt.Errorf("tagValuesLookup.findTagValueIDsByExpr not found")
	}
	fmt.Fprintf(sb, "/-- tagValuesLookup.findTagValueIDsByExpr, statement by statement -/\ndef tagValuesLookupSteps : List String := %s\n",
		LeanStrList(c12NestedSwitch(fsetL, find.Body.List)))
	// does an atom whose lookup comes back without tag value ids fail the lookup? = inside the
	// TagFilter clause, an if-statement that tests tagValueIDs and sets op.err or returns
	failFast := false
	ast.Inspect(find.Body, func(n ast.Node) bool {
		is, ok := n.(*ast.IfStmt)
		if !ok || !strings.Contains(c12Src(fsetL, is.Cond), "tagValueIDs") {
			return true
		}
		ast.Inspect(is.Body, func(m ast.Node) bool {
			switch y := m.(type) {
			case *ast.ReturnStmt:
				failFast = true
			case *ast.AssignStmt:
				for _, l := range y.Lhs {
					if strings.HasSuffix(c12Src(fsetL, l), ".err") {
						failFast = true
					}
				}
			}
			return true
		})
		return true
	})
	fmt.Fprintf(sb, "/-- an atomic tag filter that matches no tag value of the node fails the node's lookup -/\ndef lookupFailFast : Bool := %v\n", failFast)
	ex := FindFunc(lf, "tagValuesLookup", "Execute")
	if ex == nil || ex.Body == nil {
		return fmt.Errorf("tagValuesLookup.Execute not found")
	}
	fmt.Fprintf(sb, "def tagValuesLookupExecuteSteps : List String := %s\n", LeanStrList(c12NestedSwitch(fsetL, ex.Body.List)))
	gk := FindFunc(lf, "tagValuesLookup", "getTagKeyID")
	if gk == nil || gk.Body == nil {
		return fmt.Errorf("tagValuesLookup.getTagKeyID not found")
	}
	fmt.Fprintf(sb, "def lookupTagKeySteps : List String := %s\n", LeanStrList(c12NestedSwitch(fsetL, gk.Body.List)))

	fsetS, sf, err := ParseFile(repo, "query/operator/series_filtering.go")
	if err != nil {
		return err
	}
	for _, nm := range [][2]string{{"Execute", "seriesFilteringExecuteSteps"}, {"findSeriesIDsByExpr", "seriesFilteringSteps"}, {"getSeriesIDsByExpr", "seriesByExprSteps"}} {
		fd := FindFunc(sf, "seriesFiltering", nm[0])
		if fd == nil || fd.Body == nil {
			return fmt.Errorf("seriesFiltering.%s not found", nm[0])
		}
		fmt.Fprintf(sb, "/-- seriesFiltering.%s, statement by statement -/\ndef %s : List String := %s\n", nm[0], nm[1], LeanStrList(c12NestedSwitch(fsetS, fd.Body.List)))
	}

	fsetF, ff, err := ParseFile(repo, "aggregation/field_iterator.go")
	if err != nil {
		return err
	}
	mb := FindFunc(ff, "fieldIterator", "MarshalBinary")
	if mb == nil || mb.Body == nil {
		return fmt.Errorf("fieldIterator.MarshalBinary not found")
	}
	fmt.Fprintf(sb, "/-- fieldIterator.MarshalBinary, statement by statement -/\ndef fieldMarshalSteps : List String := %s\n", LeanStrList(c12NestedSwitch(fsetF, mb.Body.List)))
	// where the running slot index is (re)initialised: inside the loop over the primitive series
	// (depth 1) or before it (depth 0)
	idxDepth := -1
	var walk func(stmts []ast.Stmt, depth int)
	walk = func(stmts []ast.Stmt, depth int) {
		for _, st := range stmts {
			switch x := st.(type) {
			case *ast.AssignStmt:
				if len(x.Lhs) == 1 && c12Src(fsetF, x.Lhs[0]) == "idx" && x.Tok == token.DEFINE {
					idxDepth = depth
				}
			case *ast.ForStmt:
				walk(x.Body.List, depth+1)
			case *ast.IfStmt:
				walk(x.Body.List, depth)
			}
		}
	}
	walk(mb.Body.List, 0)
	fmt.Fprintf(sb, "/-- loop depth at which MarshalBinary declares its running slot index (1 = once per primitive series) -/\ndef fieldMarshalIdxDepth : Int := %d\n", idxDepth)
	return nil
}
