package extract

import (
	"bytes"
	"fmt"
	"go/ast"
	"go/printer"
	"go/token"
	"strings"
)

// C06: queue constants, initial positions, the guards and the call orders of the consumer-group /
// fan-out / queue methods that Model/FanOut.lean mirrors, and the "shape" of the position
// computation in NewConsumerGroup (which selects the model variant).

func c06src(e ast.Node) string {
	var b bytes.Buffer
	_ = printer.Fprint(&b, token.NewFileSet(), e)
	return strings.Join(strings.Fields(b.String()), " ")
}

// c06IfConds: source text of every `if` condition in fd, in source order (function literals included).
func c06IfConds(fd *ast.FuncDecl) []string {
	var out []string
	if fd == nil || fd.Body == nil {
		return out
	}
	ast.Inspect(fd.Body, func(n ast.Node) bool {
		if is, ok := n.(*ast.IfStmt); ok {
			out = append(out, c06src(is.Cond))
		}
		return true
	})
	return out
}

// c06FirstIf returns the condition of the first `if` of fd whose text contains sub.
func c06FirstIf(fd *ast.FuncDecl, sub string) ast.Expr {
	var out ast.Expr
	if fd == nil || fd.Body == nil {
		return nil
	}
	ast.Inspect(fd.Body, func(n ast.Node) bool {
		if out != nil {
			return false
		}
		if is, ok := n.(*ast.IfStmt); ok && strings.Contains(c06src(is.Cond), sub) {
			out = is.Cond
			return false
		}
		return true
	})
	return out
}

// c06AssignShape lists, in source order, the assignments of fd whose single LHS identifier is in
// vars, together with the `if` / `else` structure enclosing them (only blocks that contain such an
// assignment are shown).
func c06AssignShape(fd *ast.FuncDecl, vars map[string]bool) []string {
	var has func(n ast.Node) bool
	has = func(n ast.Node) bool {
		found := false
		if n == nil {
			return false
		}
		ast.Inspect(n, func(m ast.Node) bool {
			if _, ok := m.(*ast.FuncLit); ok {
				return false
			}
			if as, ok := m.(*ast.AssignStmt); ok && len(as.Lhs) == 1 {
				if id, ok := as.Lhs[0].(*ast.Ident); ok && vars[id.Name] {
					found = true
				}
			}
			return !found
		})
		return found
	}
	var out []string
	var walk func(stmts []ast.Stmt)
	walk = func(stmts []ast.Stmt) {
		for _, st := range stmts {
			switch x := st.(type) {
			case *ast.AssignStmt:
				if has(x) {
					out = append(out, c06src(x))
				}
			case *ast.BlockStmt:
				walk(x.List)
			case *ast.IfStmt:
				if !has(x) {
					continue
				}
				out = append(out, "if "+c06src(x.Cond)+" {")
				walk(x.Body.List)
				for el := x.Else; el != nil; {
					switch e := el.(type) {
					case *ast.BlockStmt:
						out = append(out, "} else {")
						walk(e.List)
						el = nil
					case *ast.IfStmt:
						out = append(out, "} else if "+c06src(e.Cond)+" {")
						walk(e.Body.List)
						el = e.Else
					default:
						el = nil
					}
				}
				out = append(out, "}")
			case *ast.ForStmt:
				if has(x) {
					out = append(out, "for {")
					walk(x.Body.List)
					out = append(out, "}")
				}
			case *ast.RangeStmt:
				if has(x) {
					out = append(out, "for range {")
					walk(x.Body.List)
					out = append(out, "}")
				}
			}
		}
	}
	if fd != nil && fd.Body != nil {
		walk(fd.Body.List)
	}
	return out
}

// c06LockKind: the first lock call of fd on a field whose name contains "lock"/"Mutex"
// ("Lock", "RLock" or "" when there is none).
func c06LockKind(fd *ast.FuncDecl) string {
	for _, c := range CallSeq(fd) {
		if strings.HasSuffix(c, ".Lock") {
			return "Lock"
		}
		if strings.HasSuffix(c, ".RLock") {
			return "RLock"
		}
	}
	return ""
}

// c06LockedSection: the calls of fd (source order) from its first Lock/RLock call up to — not
// including — the first NON-deferred Unlock/RUnlock call; with a deferred unlock that is the rest
// of the function. This is what runs inside the critical section the function opens first.
func c06LockedSection(fd *ast.FuncDecl) []string {
	var out []string
	in := false
	for _, c := range CallSeq(fd) {
		plain := !strings.HasPrefix(c, "defer:") && !strings.HasPrefix(c, "λ:")
		if !in {
			if plain && (strings.HasSuffix(c, ".Lock") || strings.HasSuffix(c, ".RLock")) {
				in = true
				out = append(out, c)
			}
			continue
		}
		if plain && (strings.HasSuffix(c, ".Unlock") || strings.HasSuffix(c, ".RUnlock")) {
			break
		}
		out = append(out, c)
	}
	return out
}

// c06RangeBody: source text of the statements of the first `for … range` loop of fd.
func c06RangeBody(fd *ast.FuncDecl) []string {
	var out []string
	done := false
	if fd == nil || fd.Body == nil {
		return out
	}
	ast.Inspect(fd.Body, func(n ast.Node) bool {
		if done {
			return false
		}
		if rs, ok := n.(*ast.RangeStmt); ok {
			for _, st := range rs.Body.List {
				out = append(out, c06src(st))
			}
			done = true
			return false
		}
		return true
	})
	return out
}

// c06RangeBodyKinds: one short token per statement of the first `for … range` loop of fd:
// "call:<callee>" (assignment from a call), "store:<map>" (assignment into an indexed expression),
// "if:return" / "if:continue" / "if:break" / "if:other" (by the last statement of the if body),
// "other".
func c06RangeBodyKinds(fd *ast.FuncDecl) []string {
	var out []string
	done := false
	if fd == nil || fd.Body == nil {
		return out
	}
	ast.Inspect(fd.Body, func(n ast.Node) bool {
		if done {
			return false
		}
		rs, ok := n.(*ast.RangeStmt)
		if !ok {
			return true
		}
		done = true
		for _, st := range rs.Body.List {
			tok := "other"
			switch x := st.(type) {
			case *ast.AssignStmt:
				if len(x.Lhs) >= 1 {
					if ix, ok := x.Lhs[0].(*ast.IndexExpr); ok {
						tok = "store:" + lastIdent(ix.X)
						break
					}
				}
				if len(x.Rhs) == 1 {
					if ce, ok := x.Rhs[0].(*ast.CallExpr); ok {
						tok = "call:" + exprName(ce.Fun)
					}
				}
			case *ast.IfStmt:
				tok = "if:other"
				if k := len(x.Body.List); k > 0 {
					switch l := x.Body.List[k-1].(type) {
					case *ast.ReturnStmt:
						tok = "if:return"
					case *ast.BranchStmt:
						tok = "if:" + l.Tok.String()
					}
				}
			case *ast.ExprStmt:
				if ce, ok := x.X.(*ast.CallExpr); ok {
					tok = "call:" + exprName(ce.Fun)
				}
			}
			out = append(out, tok)
		}
		return false
	})
	return out
}

// c06Access derives the shared-field access table of fd from its call sequence: one entry
// "R|W|C <field> <lock held>" per atomic load / store / meta-page access / delegated call, in
// source order. The lock held is the most recent Lock/RLock call whose unlock is deferred or has
// not been reached yet ("-" = none).
func c06Access(fd *ast.FuncDecl) []string {
	return c06AccessWith(fd, c06GroupClassify)
}

// c06QueueClassify: the shared fields of `queue` itself (SetAcknowledgedSeq / SetAppendedSeq).
var c06QueueClassify = map[string]string{
	"acknowledgedSeq.Load": "R acknowledgedSeq", "acknowledgedSeq.Store": "W acknowledgedSeq",
	"appendedSeq.Load": "R appendedSeq", "appendedSeq.Store": "W appendedSeq",
	"metaPage.PutUint64": "W metaPage", "metaPage.Sync": "C msync",
}

var c06GroupClassify = map[string]string{
	"consumedSeq.Load": "R consumedSeq", "f.ConsumedSeq": "R consumedSeq", "consumedSeq.Store": "W consumedSeq",
	"acknowledgedSeq.Load": "R acknowledgedSeq", "f.AcknowledgedSeq": "R acknowledgedSeq",
	"fo.AcknowledgedSeq": "R acknowledgedSeq", "acknowledgedSeq.Store": "W acknowledgedSeq",
	"metaPage.PutUint64": "W metaPage", "metaPage.ReadUint64": "R metaPage", "metaPage.Sync": "C msync",
	"q.Queue().AppendedSeq": "R queue.appendedSeq", "queue.AppendedSeq": "R queue.appendedSeq",
	"q.Queue().AcknowledgedSeq": "R queue.acknowledgedSeq",
	"queue.SetAcknowledgedSeq":  "W queue.acknowledgedSeq", "queue.SetAppendedSeq": "W queue.appendedSeq",
	"fo.SetSeq": "C SetSeq", "f.consume": "C consume", "f.Queue().Queue().NotEmpty": "C NotEmpty",
	"newConsumerGroupFunc": "C NewConsumerGroup", "consumerGroup.Close": "C Close", "delete": "W consumerGroups",
}

func c06AccessWith(fd *ast.FuncDecl, classify map[string]string) []string {
	var out []string
	held := "-"
	for _, c := range CallSeq(fd) {
		if strings.HasPrefix(c, "λ:") {
			continue
		}
		if strings.HasPrefix(c, "defer:") {
			continue // a deferred unlock keeps the lock to the end of the function
		}
		switch {
		case strings.HasSuffix(c, ".Lock") || strings.HasSuffix(c, ".RLock"):
			held = c
			continue
		case strings.HasSuffix(c, ".Unlock") || strings.HasSuffix(c, ".RUnlock"):
			held = "-"
			continue
		}
		if k, ok := classify[c]; ok {
			out = append(out, k+" "+held)
		}
	}
	return out
}

// c06TripleList renders "a b c" entries as a Lean list of triples.
func c06TripleList(es []string) string {
	parts := make([]string, len(es))
	for i, e := range es {
		f := strings.SplitN(e, " ", 3)
		for len(f) < 3 {
			f = append(f, "?")
		}
		parts[i] = fmt.Sprintf("(%q, %q, %q)", f[0], f[1], f[2])
	}
	return "[" + strings.Join(parts, ", ") + "]"
}

// c06PutArgs lists "value@offset" (source text) for every metaPage.PutUint64 call of fd, in source order.
func c06PutArgs(fd *ast.FuncDecl) []string {
	var out []string
	if fd == nil || fd.Body == nil {
		return out
	}
	ast.Inspect(fd.Body, func(n ast.Node) bool {
		if ce, ok := n.(*ast.CallExpr); ok && exprName(ce.Fun) == "metaPage.PutUint64" && len(ce.Args) == 2 {
			out = append(out, c06src(ce.Args[0])+"@"+c06src(ce.Args[1]))
		}
		return true
	})
	return out
}

// c06ReturnExprs lists the source text of every returned expression of fd.
func c06ReturnExprs(fd *ast.FuncDecl) []string {
	var out []string
	if fd == nil || fd.Body == nil {
		return out
	}
	ast.Inspect(fd.Body, func(n ast.Node) bool {
		if rs, ok := n.(*ast.ReturnStmt); ok {
			for _, r := range rs.Results {
				out = append(out, c06src(r))
			}
		}
		return true
	})
	return out
}

// c06Skeleton: the statements of fd that involve one of the given local variables or callees, in source order:
// "assign:<stmt>" (first LHS in vars), "if:<cond>" / "case:<cond>" (condition mentions a var; suffixed with
// " [returns]" when the branch ends in a return), "call:<callee>(<args>)" (callee in callees).
func c06Skeleton(fd *ast.FuncDecl, vars, callees []string) []string {
	var out []string
	if fd == nil || fd.Body == nil {
		return out
	}
	in := func(set []string, n string) bool {
		for _, x := range set {
			if x == n {
				return true
			}
		}
		return false
	}
	mentions := func(e ast.Node) bool {
		hit := false
		ast.Inspect(e, func(n ast.Node) bool {
			if id, ok := n.(*ast.Ident); ok && in(vars, id.Name) {
				hit = true
			}
			return !hit
		})
		return hit
	}
	ends := func(list []ast.Stmt) string {
		if len(list) > 0 {
			if _, ok := list[len(list)-1].(*ast.ReturnStmt); ok {
				return " [returns]"
			}
		}
		return ""
	}
	ast.Inspect(fd.Body, func(n ast.Node) bool {
		switch x := n.(type) {
		case *ast.AssignStmt:
			if id, ok := x.Lhs[0].(*ast.Ident); ok && len(x.Lhs) == 1 && in(vars, id.Name) {
				out = append(out, "assign:"+c06src(x))
			}
		case *ast.IfStmt:
			if mentions(x.Cond) {
				out = append(out, "if:"+c06src(x.Cond)+ends(x.Body.List))
			}
		case *ast.CaseClause:
			for _, e := range x.List {
				if mentions(e) {
					out = append(out, "case:"+c06src(e)+ends(x.Body))
				}
			}
		case *ast.CallExpr:
			if in(callees, exprName(x.Fun)) {
				as := make([]string, len(x.Args))
				for i, a := range x.Args {
					as[i] = c06src(a)
				}
				out = append(out, "call:"+exprName(x.Fun)+"("+strings.Join(as, ", ")+")")
			}
		}
		return true
	})
	return out
}

// c06BodyTexts flattens the body of a small function into one source-text token per statement; an `if`
// becomes "if <cond> {", its statements, "}" (and "} else {" …). Comments are not part of it.
func c06BodyTexts(fd *ast.FuncDecl) []string {
	var out []string
	if fd == nil || fd.Body == nil {
		return out
	}
	var walk func(list []ast.Stmt)
	walk = func(list []ast.Stmt) {
		for _, st := range list {
			switch x := st.(type) {
			case *ast.IfStmt:
				hd := "if "
				if x.Init != nil {
					hd += c06src(x.Init) + "; "
				}
				out = append(out, hd+c06src(x.Cond)+" {")
				walk(x.Body.List)
				switch e := x.Else.(type) {
				case *ast.BlockStmt:
					out = append(out, "} else {")
					walk(e.List)
				case *ast.IfStmt:
					out = append(out, "} else")
					walk([]ast.Stmt{e})
					continue
				}
				out = append(out, "}")
			case *ast.BlockStmt:
				walk(x.List)
			default:
				out = append(out, c06src(st))
			}
		}
	}
	walk(fd.Body.List)
	return out
}

// c06CallArgTexts lists the argument lists (source text) of every call of `callee` inside fd.
func c06CallArgTexts(fd *ast.FuncDecl, callee string) []string {
	var out []string
	if fd == nil || fd.Body == nil {
		return out
	}
	ast.Inspect(fd.Body, func(n ast.Node) bool {
		if ce, ok := n.(*ast.CallExpr); ok && exprName(ce.Fun) == callee {
			as := make([]string, len(ce.Args))
			for i, a := range ce.Args {
				as[i] = c06src(a)
			}
			out = append(out, strings.Join(as, ", "))
		}
		return true
	})
	return out
}

func init() {
	Register(Fact{Module: "C06", Gen: func(repo string) (string, error) {
		_, cf, err := ParseFile(repo, "pkg/queue/constants.go")
		if err != nil {
			return "", err
		}
		cs := ConstInts(cf)
		var sb strings.Builder
		for _, n := range []string{"metaPageIndex", "indexItemLength", "indexItemsPerPage", "indexPageSize", "dataPageSize",
			"metaPageSize", "queueAppendedSeqOffset", "queueAcknowledgedSeqOffset", "queueDataPageIndexOffset",
			"messageOffsetOffset", "messageLengthOffset", "consumerGroupMetaSize", "consumerGroupConsumedSeqOffset",
			"consumerGroupAcknowledgedSeqOffset", "SeqNoNewMessageAvailable"} {
			v, ok := cs[n]
			if !ok {
				return "", fmt.Errorf("constant %s not found in pkg/queue/constants.go", n)
			}
			fmt.Fprintf(&sb, "def %s : Int := %s\n", strings.ToLower(n[:1])+n[1:], LeanInt(v))
		}
		_, cg, err := ParseFile(repo, "pkg/queue/consumer_group.go")
		if err != nil {
			return "", err
		}
		_, fo, err := ParseFile(repo, "pkg/queue/fanout_queue.go")
		if err != nil {
			return "", err
		}
		_, qu, err := ParseFile(repo, "pkg/queue/queue.go")
		if err != nil {
			return "", err
		}
		_, pf, err := ParseFile(repo, "pkg/queue/page/factory.go")
		if err != nil {
			return "", err
		}
		ncg := FindFunc(cg, "", "NewConsumerGroup")
		if ncg == nil {
			return "", fmt.Errorf("NewConsumerGroup not found")
		}
		// initial positions of a group without meta file
		for _, n := range []string{"consumedSeq", "ackSeq"} {
			v, ok := evalInt(FindAssign(ncg, n), cs, 0)
			if !ok {
				return "", fmt.Errorf("initial value of %s in NewConsumerGroup is not a constant", n)
			}
			fmt.Fprintf(&sb, "def newGroupInit_%s : Int := %s\n", n, LeanInt(v))
		}
		sb.WriteString("\ndef newGroupShape : List String := " +
			LeanStrList(c06AssignShape(ncg, map[string]bool{"consumedSeq": true, "ackSeq": true, "ackOfQueue": true})) + "\n")

		// the guard of Ack as a function (plain identifiers)
		ack := FindFunc(cg, "consumerGroup", "Ack")
		ac, err := CondDef(c06FirstIf(ack, "ackSeq"), "ackCond", []string{"ackSeq", "ts", "hs"}, cs)
		if err != nil {
			return "", err
		}
		sb.WriteString("\n" + ac)
		// the loop body and the final guard of Sync
		syn := FindFunc(fo, "fanOutQueue", "Sync")
		sc, err := CondDef(c06FirstIf(syn, "ts <"), "syncLowerCond", []string{"ts", "ackSeq"}, cs)
		if err != nil {
			return "", err
		}
		sb.WriteString("\n" + sc)
		sm, err := CondDef(c06FirstIf(syn, "ackSeq >="), "syncMoveCond", []string{"ackSeq"}, cs)
		if err != nil {
			return "", err
		}
		sb.WriteString("\n" + sm)
		fmt.Fprintf(&sb, "\ndef syncStart : String := %q\n", c06src(FindAssign(syn, "ackSeq")))

		// guards that read fields through calls: kept as source text
		type fn struct {
			lean string
			fd   *ast.FuncDecl
		}
		fns := []fn{
			{"newConsumerGroup", ncg},
			{"consume", FindFunc(cg, "consumerGroup", "consume")},
			{"consumeOuter", FindFunc(cg, "consumerGroup", "Consume")},
			{"setConsumedSeq", FindFunc(cg, "consumerGroup", "SetConsumedSeq")},
			{"ack", ack},
			{"setSeq", FindFunc(cg, "consumerGroup", "SetSeq")},
			{"sync", syn},
			{"getOrCreate", FindFunc(fo, "fanOutQueue", "GetOrCreateConsumerGroup")},
			{"stopGroup", FindFunc(fo, "fanOutQueue", "StopConsumerGroup")},
			{"fanOutSetAppended", FindFunc(fo, "fanOutQueue", "SetAppendedSeq")},
			{"initConsumerGroups", FindFunc(fo, "fanOutQueue", "initConsumerGroups")},
			{"newFanOutQueue", FindFunc(fo, "", "NewFanOutQueue")},
			{"queueSetAck", FindFunc(qu, "queue", "SetAcknowledgedSeq")},
			{"queueSetAppended", FindFunc(qu, "queue", "SetAppendedSeq")},
			{"queueGC", FindFunc(qu, "queue", "GC")},
			{"queueValidate", FindFunc(qu, "queue", "validateSequence")},
			{"queueAlloc", FindFunc(qu, "queue", "alloc")},
			{"queuePersist", FindFunc(qu, "queue", "persistMetaOfMessage")},
			{"queueInitDataPageIndex", FindFunc(qu, "queue", "initDataPageIndex")},
			{"truncatePages", FindFunc(pf, "factory", "TruncatePages")},
		}
		for _, f := range fns {
			if f.fd == nil {
				return "", fmt.Errorf("function for %s not found", f.lean)
			}
			sb.WriteString("\ndef " + f.lean + "Conds : List String := " + LeanStrList(c06IfConds(f.fd)) + "\n")
			sb.WriteString("def " + f.lean + "Calls : List String := " + LeanStrList(CallSeq(f.fd)) + "\n")
		}
		// lock kinds of the two methods that may run concurrently on one group
		fmt.Fprintf(&sb, "\ndef consumeLock : String := %q\n", c06LockKind(FindFunc(cg, "consumerGroup", "consume")))
		fmt.Fprintf(&sb, "def ackLock : String := %q\n", c06LockKind(ack))
		fmt.Fprintf(&sb, "def setConsumedLock : String := %q\n", c06LockKind(FindFunc(cg, "consumerGroup", "SetConsumedSeq")))
		fmt.Fprintf(&sb, "def setSeqLock : String := %q\n", c06LockKind(FindFunc(cg, "consumerGroup", "SetSeq")))
		sb.WriteString("\ndef initConsumerGroupsLoop : List String := " + LeanStrList(c06RangeBodyKinds(FindFunc(fo, "fanOutQueue", "initConsumerGroups"))) + "\n")
		sb.WriteString("def fanOutSetAppendedLoop : List String := " + LeanStrList(c06RangeBodyKinds(FindFunc(fo, "fanOutQueue", "SetAppendedSeq"))) + "\n")
		// critical sections: which calls run inside the lock a method opens first
		goc := FindFunc(fo, "fanOutQueue", "GetOrCreateConsumerGroup")
		fmt.Fprintf(&sb, "\ndef getOrCreateLock : String := %q\n", c06LockKind(goc))
		fmt.Fprintf(&sb, "def syncLock : String := %q\n", c06LockKind(syn))
		fmt.Fprintf(&sb, "def stopGroupLock : String := %q\n", c06LockKind(FindFunc(fo, "fanOutQueue", "StopConsumerGroup")))
		sb.WriteString("def getOrCreateLockedCalls : List String := " + LeanStrList(c06LockedSection(goc)) + "\n")
		sb.WriteString("def syncLockedCalls : List String := " + LeanStrList(c06LockedSection(syn)) + "\n")
		sb.WriteString("def ackLockedCalls : List String := " + LeanStrList(c06LockedSection(ack)) + "\n")
		sb.WriteString("def consumeLockedCalls : List String := " + LeanStrList(c06LockedSection(FindFunc(cg, "consumerGroup", "consume"))) + "\n")
		// access tables: which shared field is read / written under which lock (Model/FanOutMicro.lean)
		pend := FindFunc(cg, "consumerGroup", "Pending")
		isEmp := FindFunc(cg, "consumerGroup", "IsEmpty")
		if pend == nil || isEmp == nil {
			return "", fmt.Errorf("Pending / IsEmpty not found")
		}
		for _, f := range []fn{
			{"consumeOuter", FindFunc(cg, "consumerGroup", "Consume")},
			{"consume", FindFunc(cg, "consumerGroup", "consume")},
			{"ack", ack},
			{"setSeq", FindFunc(cg, "consumerGroup", "SetSeq")},
			{"setConsumedSeq", FindFunc(cg, "consumerGroup", "SetConsumedSeq")},
			{"pending", pend},
			{"isEmpty", isEmp},
			{"sync", syn},
			{"fanOutSetAppended", FindFunc(fo, "fanOutQueue", "SetAppendedSeq")},
			{"getOrCreate", goc},
			{"stopGroup", FindFunc(fo, "fanOutQueue", "StopConsumerGroup")},
		} {
			sb.WriteString("def " + f.lean + "Access : List (String × String × String) := " + c06TripleList(c06Access(f.fd)) + "\n")
		}
		// the queue's own positions: SetAcknowledgedSeq / SetAppendedSeq under rwMutex (Model/C06Msync.lean)
		for _, f := range []fn{
			{"queueSetAck", FindFunc(qu, "queue", "SetAcknowledgedSeq")},
			{"queueSetAppended", FindFunc(qu, "queue", "SetAppendedSeq")},
		} {
			if f.fd == nil {
				return "", fmt.Errorf("queue.%s not found", f.lean)
			}
			sb.WriteString("def " + f.lean + "Access : List (String × String × String) := " + c06TripleList(c06AccessWith(f.fd, c06QueueClassify)) + "\n")
		}
		// meta page layout: which value goes to which offset, in store order
		for _, f := range []fn{
			{"ack", ack},
			{"consume", FindFunc(cg, "consumerGroup", "consume")},
			{"setSeq", FindFunc(cg, "consumerGroup", "SetSeq")},
			{"setConsumedSeq", FindFunc(cg, "consumerGroup", "SetConsumedSeq")},
			{"newConsumerGroup", ncg},
		} {
			sb.WriteString("def " + f.lean + "PutArgs : List String := " + LeanStrList(c06PutArgs(f.fd)) + "\n")
		}
		sb.WriteString(c06CursorFacts(qu))
		// Pending / IsEmpty and the expiry loop of replica/partition.go
		sb.WriteString("def pendingConds : List String := " + LeanStrList(c06IfConds(pend)) + "\n")
		sb.WriteString("def pendingReturns : List String := " + LeanStrList(c06ReturnExprs(pend)) + "\n")
		sb.WriteString("def isEmptyReturns : List String := " + LeanStrList(c06ReturnExprs(isEmp)) + "\n")
		_, rp, err := ParseFile(repo, "replica/partition.go")
		if err != nil {
			return "", err
		}
		ise := FindFunc(rp, "partition", "IsExpire")
		if ise == nil {
			return "", fmt.Errorf("partition.IsExpire not found")
		}
		sb.WriteString("def isExpireCalls : List String := " + LeanStrList(CallSeq(ise)) + "\n")
		sb.WriteString("def isExpireConds : List String := " + LeanStrList(c06IfConds(ise)) + "\n")
		sb.WriteString("def isExpireLoop : List String := " + LeanStrList(c06RangeBodyKinds(ise)) + "\n")
		// round 12: the replicator's index <-> sequence conversions (replica/replicator.go), the rewind at the
		// start of a local replicator, the partition's index reset
		_, rr, err := ParseFile(repo, "replica/replicator.go")
		if err != nil {
			return "", err
		}
		for _, m := range []string{"ReplicaIndex", "AckIndex", "AppendIndex", "ResetReplicaIndex", "ResetAppendIndex",
			"SetAckIndex", "IgnoreMessage", "Consume", "Pending"} {
			fd := FindFunc(rr, "replicator", m)
			if fd == nil {
				return "", fmt.Errorf("replicator.%s not found", m)
			}
			sb.WriteString("def repl" + m + "Body : List String := " + LeanStrList(c06BodyTexts(fd)) + "\n")
		}
		_, rl, err := ParseFile(repo, "replica/replicator_local.go")
		if err != nil {
			return "", err
		}
		nlr := FindFunc(rl, "", "NewLocalReplicator")
		if nlr == nil {
			return "", fmt.Errorf("NewLocalReplicator not found")
		}
		sb.WriteString("def localStartResetArgs : List String := " + LeanStrList(c06CallArgTexts(nlr, "lr.ResetReplicaIndex")) + "\n")
		prr := FindFunc(rp, "partition", "ResetReplicaIndex")
		if prr == nil {
			return "", fmt.Errorf("partition.ResetReplicaIndex not found")
		}
		sb.WriteString("def partitionResetReplicaIndexBody : List String := " + LeanStrList(c06BodyTexts(prr)) + "\n")
		// the position part of the remote replicator's handshake (replica/replicator_remote.go IsReady)
		_, rm, err := ParseFile(repo, "replica/replicator_remote.go")
		if err != nil {
			return "", err
		}
		isr := FindFunc(rm, "remoteReplicator", "IsReady")
		if isr == nil {
			return "", fmt.Errorf("remoteReplicator.IsReady not found")
		}
		sb.WriteString("def remoteHandshake : List String := " + LeanStrList(c06Skeleton(isr,
			[]string{"localReplicaIdx", "nextReplicaIdx", "appendIdx", "smallestAckIdx", "needResetReplicaIdx", "newLocalReplicaIdx"},
			[]string{"r.ResetReplicaIndex", "r.ResetAppendIndex", "r.SetAckIndex"})) + "\n")
		return sb.String(), nil
	}})
}
