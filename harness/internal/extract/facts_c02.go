package extract

import (
	"bytes"
	"fmt"
	"go/ast"
	"go/printer"
	"go/token"
	"os"
	"path/filepath"
	"strings"
)

// C02: step / call order and lock structure of the kv version-set, snapshot, deleteObsoleteFiles
// and reader-cache functions the interleaving model (Model/VersionSet.lean) is built from.
// Calls to verifhook.Yield are instrumentation and are dropped.

// c02Events lists, in source order, the calls of fd's body that keep() accepts. Unlike CallSeq it
// descends into deferred function literals ("defer{" ... "}") and plain function literals.
func c02Events(fd *ast.FuncDecl, keep func(string) bool) []string {
	var out []string
	var walk func(n ast.Node, prefix string)
	walk = func(n ast.Node, prefix string) {
		ast.Inspect(n, func(m ast.Node) bool {
			switch x := m.(type) {
			case *ast.DeferStmt:
				if fl, ok := x.Call.Fun.(*ast.FuncLit); ok {
					out = append(out, "defer{")
					walk(fl.Body, prefix)
					out = append(out, "}")
				} else {
					walk(x.Call, prefix+"defer:")
				}
				return false
			case *ast.FuncLit:
				walk(x.Body, prefix)
				return false
			case *ast.CallExpr:
				for _, a := range x.Args {
					walk(a, prefix)
				}
				if se, ok := x.Fun.(*ast.SelectorExpr); ok {
					walk(se.X, prefix)
				}
				if fl, ok := x.Fun.(*ast.FuncLit); ok { // go func() { ... }() / immediately called literal
					walk(fl.Body, prefix)
					return false
				}
				name := exprName(x.Fun)
				if name != "verifhook.Yield" && (keep == nil || keep(prefix+name)) {
					out = append(out, prefix+name)
				}
				return false
			}
			return true
		})
	}
	if fd != nil && fd.Body != nil {
		walk(fd.Body, "")
	}
	return out
}

func c02Keep(names ...string) func(string) bool {
	m := map[string]bool{}
	for _, n := range names {
		m[n] = true
	}
	return func(s string) bool { return m[s] }
}

func c02Text(e ast.Expr) string {
	var b bytes.Buffer
	_ = printer.Fprint(&b, token.NewFileSet(), e)
	return strings.Join(strings.Fields(b.String()), "")
}

// c02GuardAtoms normalises a guard condition into named atoms.
func c02GuardAtoms(cond ast.Expr) []string {
	var atoms []string
	var split func(e ast.Expr)
	split = func(e ast.Expr) {
		if p, ok := e.(*ast.ParenExpr); ok {
			split(p.X)
			return
		}
		if b, ok := e.(*ast.BinaryExpr); ok && b.Op == token.LAND {
			split(b.X)
			split(b.Y)
			return
		}
		t := c02Text(e)
		switch {
		case t == "v!=fv.current" || t == "fv.current!=v":
			atoms = append(atoms, "ne-current")
		case t == "v.NumOfRef()==0" || t == "v.NumOfRef()<=0" || t == "0==v.NumOfRef()":
			atoms = append(atoms, "ref-zero")
		case t == "entry.ref.Load()==0" || t == "entry.ref.Load()<=0":
			atoms = append(atoms, "ref-zero")
		case strings.HasPrefix(t, "timeutil.Now()-entry.last>"):
			atoms = append(atoms, "expired")
		case t == "previous!=nil":
			atoms = append(atoms, "prev-non-nil")
		case t == "previous.NumOfRef()==0":
			atoms = append(atoms, "prev-ref-zero")
		case t == "s.closed.CompareAndSwap(false,true)":
			atoms = append(atoms, "closed-cas")
		case t == "s.closed.Load()":
			atoms = append(atoms, "closed-load")
		case t == "newVal==0":
			atoms = append(atoms, "dec-zero")
		default:
			atoms = append(atoms, "other:"+t)
		}
	}
	split(cond)
	return atoms
}

// c02Stmts renders the statements of a (small) function as step names: lock calls, guarded
// blocks with normalised conditions, assignments to the version bookkeeping, selected calls.
func c02Stmts(fd *ast.FuncDecl) []string {
	var out []string
	var stmts func(l []ast.Stmt)
	call := func(c *ast.CallExpr) {
		name := exprName(c.Fun)
		switch {
		case name == "verifhook.Yield":
		case name == "delete":
			out = append(out, "delete:"+c02Text(c.Args[0]))
		default:
			out = append(out, name)
		}
	}
	stmts = func(l []ast.Stmt) {
		for _, st := range l {
			switch x := st.(type) {
			case *ast.ExprStmt:
				if c, ok := x.X.(*ast.CallExpr); ok {
					call(c)
				}
			case *ast.DeferStmt:
				out = append(out, "defer:"+exprName(x.Call.Fun))
			case *ast.AssignStmt:
				lhs := c02Text(x.Lhs[0])
				rhs := c02Text(x.Rhs[0])
				if c, ok := x.Rhs[0].(*ast.CallExpr); ok {
					out = append(out, lhs+":="+exprName(c.Fun))
				} else {
					if i := strings.IndexByte(lhs, '['); i > 0 {
						lhs = lhs[:i] + "[]"
					}
					out = append(out, lhs+"="+rhs)
				}
			case *ast.IfStmt:
				out = append(out, "if("+strings.Join(c02GuardAtoms(x.Cond), ",")+")")
				stmts(x.Body.List)
				out = append(out, "endif")
			case *ast.ReturnStmt:
				if len(x.Results) == 1 {
					if c, ok := x.Results[0].(*ast.CallExpr); ok {
						out = append(out, "return:"+exprName(c.Fun))
					}
				}
			}
		}
	}
	if fd != nil && fd.Body != nil {
		stmts(fd.Body.List)
	}
	return out
}

// c02RemoveRechecks: inside removeVersion's Lock…Unlock region the delete is guarded by a
// condition that includes "ref == 0".
func c02RemoveRechecks(steps []string) bool {
	locked, guarded := false, false
	for _, s := range steps {
		switch {
		case s == "mutex.Lock":
			locked = true
		case s == "mutex.Unlock":
			locked = false
		case strings.HasPrefix(s, "if("):
			guarded = locked && strings.Contains(s, "ref-zero")
		case s == "endif":
			guarded = false
		case strings.HasPrefix(s, "delete:"):
			if locked && guarded {
				return true
			}
		}
	}
	return false
}

func c02CleanupGuard(fd *ast.FuncDecl) []string {
	var atoms []string
	if fd == nil {
		return nil
	}
	ast.Inspect(fd.Body, func(n ast.Node) bool {
		if fl, ok := n.(*ast.FuncLit); ok {
			for _, st := range fl.Body.List {
				if is, ok := st.(*ast.IfStmt); ok && atoms == nil {
					atoms = c02GuardAtoms(is.Cond)
				}
			}
			return false
		}
		return true
	})
	return atoms
}

func init() {
	Register(Fact{Module: "C02", Gen: func(repo string) (string, error) {
		var sb strings.Builder
		parse := func(rel string) (*ast.File, error) {
			_, f, err := ParseFile(repo, rel)
			return f, err
		}
		need := func(f *ast.File, recv, name string) (*ast.FuncDecl, error) {
			fd := FindFunc(f, recv, name)
			if fd == nil {
				return nil, fmt.Errorf("func %s.%s not found", recv, name)
			}
			return fd, nil
		}
		def := func(name string, xs []string) {
			fmt.Fprintf(&sb, "def %s : List String := %s\n", name, LeanStrList(xs))
		}

		ver, err := parse("kv/version/version.go")
		if err != nil {
			return "", err
		}
		fv, err := parse("kv/version/family_version.go")
		if err != nil {
			return "", err
		}
		snap, err := parse("kv/version/snapshot.go")
		if err != nil {
			return "", err
		}
		vs, err := parse("kv/version/version_set.go")
		if err != nil {
			return "", err
		}
		fam, err := parse("kv/family.go")
		if err != nil {
			return "", err
		}
		fl, err := parse("kv/flusher.go")
		if err != nil {
			return "", err
		}
		cj, err := parse("kv/compact_job.go")
		if err != nil {
			return "", err
		}
		cache, err := parse("kv/table/cache.go")
		if err != nil {
			return "", err
		}

		type item struct {
			name string
			f    *ast.File
			recv string
			fn   string
			gen  func(*ast.FuncDecl) []string
		}
		items := []item{
			{"releaseSteps", ver, "version", "Release", c02Stmts},
			{"retainCalls", ver, "version", "Retain", func(fd *ast.FuncDecl) []string { return c02Events(fd, nil) }},
			{"removeVersionSteps", fv, "familyVersion", "removeVersion", c02Stmts},
			{"appendVersionSteps", fv, "familyVersion", "appendVersion", c02Stmts},
			{"getSnapshotSteps", fv, "familyVersion", "GetSnapshot", c02Stmts},
			{"getAllActiveFilesCalls", fv, "familyVersion", "GetAllActiveFiles", func(fd *ast.FuncDecl) []string {
				return c02Events(fd, c02Keep("mutex.RLock", "defer:mutex.RUnlock", "version.GetAllFiles"))
			}},
			{"getLiveRollupFilesSteps", fv, "familyVersion", "GetLiveRollupFiles", c02Stmts},
			{"newSnapshotCalls", snap, "", "newSnapshot", func(fd *ast.FuncDecl) []string { return c02Events(fd, nil) }},
			{"snapshotCloseCalls", snap, "snapshot", "Close", func(fd *ast.FuncDecl) []string { return c02Events(fd, nil) }},
			{"commitCalls", vs, "storeVersionSet", "CommitFamilyEditLog", func(fd *ast.FuncDecl) []string {
				return c02Events(fd, c02Keep("mutex.Lock", "defer:mutex.Unlock", "vs.persistEditLogs", "familyVersion.GetSnapshot",
					"defer:snapshot.Close", "snapshot.GetCurrent().Clone", "editLog.apply", "familyVersion.appendVersion"))
			}},
			{"nextFileNumberCalls", vs, "storeVersionSet", "NextFileNumber", func(fd *ast.FuncDecl) []string {
				return c02Events(fd, c02Keep("mutex.Lock", "defer:mutex.Unlock", "nextFileNumber.Inc"))
			}},
			{"deleteObsoleteOrder", fam, "family", "deleteObsoleteFiles", func(fd *ast.FuncDecl) []string {
				return c02Events(fd, c02Keep("listDirFunc", "pendingOutputs.Range", "familyVersion.GetAllActiveFiles",
					"familyVersion.GetLiveRollupFiles", "store.evictFamilyFile", "f.deleteSST"))
			}},
			{"newTableBuilderCalls", fam, "family", "newTableBuilder", func(fd *ast.FuncDecl) []string {
				return c02Events(fd, c02Keep("store.nextFileNumber", "f.addPendingOutput", "table.NewStoreBuilder"))
			}},
			{"backgroundCompactionCalls", fam, "family", "backgroundCompactionJob", func(fd *ast.FuncDecl) []string {
				return c02Events(fd, c02Keep("f.GetSnapshot", "snapshot.Close", "f.deleteObsoleteFiles",
					"snapshot.GetCurrent().PickL0Compaction", "compactJob.Run"))
			}},
			{"flushCommitCalls", fl, "storeFlusher", "Commit", func(fd *ast.FuncDecl) []string {
				return c02Events(fd, c02Keep("family.removePendingOutput", "builder.Close", "family.commitEditLog"))
			}},
			{"mergeCompactionCalls", cj, "compactJob", "mergeCompaction", func(fd *ast.FuncDecl) []string {
				return c02Events(fd, c02Keep("c.cleanupCompaction", "c.doMerge", "c.installCompactionResults"))
			}},
			{"cleanupCompactionCalls", cj, "compactJob", "cleanupCompaction", func(fd *ast.FuncDecl) []string {
				return c02Events(fd, c02Keep("family.removePendingOutput"))
			}},
			{"cacheEvictCalls", cache, "storeCache", "Evict", func(fd *ast.FuncDecl) []string { return c02Events(fd, nil) }},
			{"cacheReleaseCalls", cache, "storeCache", "ReleaseReaders", func(fd *ast.FuncDecl) []string {
				return c02Events(fd, c02Keep("mutex.Lock", "defer:mutex.Unlock", "cache.Get", "entry.release"))
			}},
			{"cacheGetReaderCalls", cache, "storeCache", "GetReader", func(fd *ast.FuncDecl) []string {
				return c02Events(fd, c02Keep("mutex.Lock", "defer:mutex.Unlock", "mutex.Unlock", "cache.Get", "entry.retain", "newMMapStoreReaderFunc", "cache.Add"))
			}},
			{"cacheCleanupGuard", cache, "storeCache", "Cleanup", c02CleanupGuard},
		}
		var removeSteps []string
		for _, it := range items {
			fd, err := need(it.f, it.recv, it.fn)
			if err != nil {
				return "", err
			}
			xs := it.gen(fd)
			if it.name == "removeVersionSteps" {
				removeSteps = xs
			}
			def(it.name, xs)
		}
		// lock structure of CommitFamilyEditLog: which of the relevant calls run before vs.mutex.Lock()
		// and which inside the locked section (the Unlock is deferred, so everything after Lock)
		{
			fd, err := need(vs, "storeVersionSet", "CommitFamilyEditLog")
			if err != nil {
				return "", err
			}
			ev := c02Events(fd, c02Keep("mutex.Lock", "defer:mutex.Unlock", "mutex.Unlock", "vs.persistEditLogs", "familyVersion.GetSnapshot",
				"snapshot.GetCurrent().Clone", "editLog.apply", "familyVersion.appendVersion"))
			var before, inside []string
			locked, deferred := false, false
			for _, e := range ev {
				switch e {
				case "mutex.Lock":
					locked = true
				case "defer:mutex.Unlock":
					deferred = true
				case "mutex.Unlock":
					locked = false
				default:
					if locked {
						inside = append(inside, e)
					} else {
						before = append(before, e)
					}
				}
			}
			def("commitOutsideLock", before)
			def("commitInsideLock", inside)
			ok := deferred && len(before) == 0
			fmt.Fprintf(&sb, "\n/-- does CommitFamilyEditLog take its snapshot and clone the version inside vs.mutex? -/\n")
			fmt.Fprintf(&sb, "def commitCloneUnderLock : Bool := %v\n", ok)
		}
		// version.FindFiles: loop / guard / jump structure (every table of every level is tested; no
		// break / continue / early return)
		{
			fd, err := need(ver, "version", "FindFiles")
			if err != nil {
				return "", err
			}
			var shape []string
			var walk func(l []ast.Stmt)
			walk = func(l []ast.Stmt) {
				for _, st := range l {
					switch x := st.(type) {
					case *ast.RangeStmt:
						shape = append(shape, "for-range:"+c02Text(x.X))
						walk(x.Body.List)
						shape = append(shape, "endfor")
					case *ast.ForStmt:
						shape = append(shape, "for")
						walk(x.Body.List)
						shape = append(shape, "endfor")
					case *ast.IfStmt:
						shape = append(shape, "if:"+c02Text(x.Cond))
						walk(x.Body.List)
						if x.Else != nil {
							shape = append(shape, "else")
						}
						shape = append(shape, "endif")
					case *ast.BranchStmt:
						shape = append(shape, "jump:"+x.Tok.String())
					case *ast.ReturnStmt:
						shape = append(shape, "return")
					case *ast.AssignStmt:
						if c, ok := x.Rhs[0].(*ast.CallExpr); ok {
							shape = append(shape, c02Text(x.Lhs[0])+"="+exprName(c.Fun))
						}
					}
				}
			}
			walk(fd.Body.List)
			def("findFilesShape", shape)
		}
		// snapshot.Close guard shape; newTableBuilder order; GetReader critical section
		{
			fd, err := need(snap, "snapshot", "Close")
			if err != nil {
				return "", err
			}
			st := c02Stmts(fd)
			def("snapshotCloseSteps", st)
			cas := len(st) >= 4 && st[0] == "if(closed-cas)" && st[len(st)-1] == "endif"
			fmt.Fprintf(&sb, "\n/-- is the whole of snapshot.Close inside `if s.closed.CompareAndSwap(false, true)`? -/\n")
			fmt.Fprintf(&sb, "def closeIsCAS : Bool := %v\n", cas)
			fd, err = need(fam, "family", "newTableBuilder")
			if err != nil {
				return "", err
			}
			ev := c02Events(fd, c02Keep("store.nextFileNumber", "f.addPendingOutput", "table.NewStoreBuilder"))
			ip, ic := -1, -1
			for i, e := range ev {
				if e == "f.addPendingOutput" && ip < 0 {
					ip = i
				}
				if e == "table.NewStoreBuilder" && ic < 0 {
					ic = i
				}
			}
			fmt.Fprintf(&sb, "\n/-- does newTableBuilder mark the number pending before it creates the table file? -/\n")
			fmt.Fprintf(&sb, "def pendBeforeCreate : Bool := %v\n", ip >= 0 && ic >= 0 && ip < ic)
			fd, err = need(cache, "storeCache", "GetReader")
			if err != nil {
				return "", err
			}
			ev = c02Events(fd, c02Keep("mutex.Lock", "defer:mutex.Unlock", "mutex.Unlock", "newMMapStoreReaderFunc"))
			one := len(ev) >= 3 && ev[0] == "mutex.Lock" && ev[1] == "defer:mutex.Unlock"
			for _, e := range ev[1:] {
				if e == "mutex.Lock" || e == "mutex.Unlock" {
					one = false
				}
			}
			fmt.Fprintf(&sb, "\n/-- is storeCache.GetReader (lookup, open, retain, add) one critical section of the cache mutex? -/\n")
			fmt.Fprintf(&sb, "def getReaderOneSection : Bool := %v\n", one)
		}
		// snapshot.FindReaders: its calls, and what its error branch (`if err != nil` inside the loop) calls
		{
			fd, err := need(snap, "snapshot", "FindReaders")
			if err != nil {
				return "", err
			}
			def("findReadersCalls", c02Events(fd, nil))
			var errCalls []string
			found := false
			ast.Inspect(fd.Body, func(n ast.Node) bool {
				is, ok := n.(*ast.IfStmt)
				if !ok || found {
					return true
				}
				if c02Text(is.Cond) == "err!=nil" {
					found = true
					errCalls = c02Events(&ast.FuncDecl{Body: is.Body}, nil)
					return false
				}
				return true
			})
			if !found {
				return "", fmt.Errorf("FindReaders: error branch not found")
			}
			def("findReadersErrCalls", errCalls)
			rel := false
			for _, c := range errCalls {
				if strings.Contains(c, "ReleaseReaders") || strings.Contains(c, "release") {
					rel = true
				}
			}
			fmt.Fprintf(&sb, "\n/-- does FindReaders' error path release readers (which stay recorded in s.readers)? -/\n")
			fmt.Fprintf(&sb, "def findErrReleases : Bool := %v\n", rel)
		}
		// NextFileNumber: is the counter incremented inside vs.mutex?
		{
			fd, err := need(vs, "storeVersionSet", "NextFileNumber")
			if err != nil {
				return "", err
			}
			ev := c02Events(fd, c02Keep("mutex.Lock", "defer:mutex.Unlock", "nextFileNumber.Inc"))
			locked, ok := false, false
			for _, e := range ev {
				if e == "mutex.Lock" {
					locked = true
				}
				if e == "nextFileNumber.Inc" && locked {
					ok = true
				}
			}
			fmt.Fprintf(&sb, "\n/-- does NextFileNumber allocate under vs.mutex (which CommitFamilyEditLog holds from reading the counter to storing it back)? -/\n")
			fmt.Fprintf(&sb, "def allocUnderCommitLock : Bool := %v\n", ok)
		}
		// family.rollup (source side): the DeleteRollupFile records are created per target AFTER that
		// target's doRollupWork, the commit comes after the loop, deleteObsoleteFiles is deferred
		{
			fr, err := parse("kv/family_rollup.go")
			if err != nil {
				return "", err
			}
			fd, err := need(fr, "family", "rollup")
			if err != nil {
				return "", err
			}
			def("rollupCalls", c02Events(fd, c02Keep("rolluping.CompareAndSwap", "f.deleteObsoleteFiles", "familyVersion.GetLiveRollupFiles",
				"GetStoreManager().GetStoreByName", "targetStore.CreateFamily", "targetFamily.doRollupWork", "version.CreateDeleteRollupFile",
				"f.commitEditLog", "targetFamily.cleanReferenceFiles")))
			// where and with which interval the DeleteRollupFile records are created: inside the loop over
			// the target intervals (`for targetInterval, files := range rollupMap`), after that target's
			// doRollupWork, for the files of THAT target (`range files`), with the loop's own interval
			var shape []string
			per := false
			nCreate, nGood := 0, 0
			ast.Inspect(fd.Body, func(n ast.Node) bool {
				outer, ok := n.(*ast.RangeStmt)
				if !ok || exprName(outer.X) != "rollupMap" {
					return true
				}
				key, val := exprName(outer.Key), exprName(outer.Value)
				shape = append(shape, "for:"+key+","+val+"=range:rollupMap")
				workSeen := false
				var walk func(n ast.Node, fileVar string)
				walk = func(n ast.Node, fileVar string) {
					ast.Inspect(n, func(m ast.Node) bool {
						switch x := m.(type) {
						case *ast.RangeStmt:
							if x != outer {
								shape = append(shape, "for:"+exprName(x.Value)+"=range:"+exprName(x.X))
								fv := ""
								if exprName(x.X) == val {
									fv = exprName(x.Value)
								}
								walk(x.Body, fv)
								shape = append(shape, "endfor")
								return false
							}
						case *ast.CallExpr:
							nm := exprName(x.Fun)
							if nm == "targetFamily.doRollupWork" {
								workSeen = true
								shape = append(shape, nm)
							}
							if nm == "version.CreateDeleteRollupFile" && len(x.Args) == 2 {
								a0, a1 := exprName(x.Args[0]), exprName(x.Args[1])
								shape = append(shape, "CreateDeleteRollupFile("+a0+","+a1+")")
								if workSeen && fileVar != "" && a0 == fileVar && a1 == key {
									nGood++
								}
							}
						}
						return true
					})
				}
				walk(outer.Body, "")
				shape = append(shape, "endfor")
				return false
			})
			ast.Inspect(fd.Body, func(n ast.Node) bool {
				if c, ok := n.(*ast.CallExpr); ok && exprName(c.Fun) == "version.CreateDeleteRollupFile" {
					nCreate++
				}
				return true
			})
			per = nCreate > 0 && nCreate == nGood
			def("rollupDelShape", shape)
			fmt.Fprintf(&sb, "\n/-- are the DeleteRollupFile records of family.rollup created inside the per-target loop, after that target's doRollupWork, for that target's files and with that target's interval (and nowhere else)? -/\n")
			fmt.Fprintf(&sb, "def rollupDelPerInterval : Bool := %v\n", per)
		}
		// deleteObsoleteFiles: the directory listing must be taken BEFORE any of the three live-set collections
		{
			fd, err := need(fam, "family", "deleteObsoleteFiles")
			if err != nil {
				return "", err
			}
			ev := c02Events(fd, c02Keep("listDirFunc", "pendingOutputs.Range", "familyVersion.GetAllActiveFiles",
				"familyVersion.GetLiveRollupFiles"))
			il, first := -1, -1
			for i, e := range ev {
				if e == "listDirFunc" && il < 0 {
					il = i
				}
				if e != "listDirFunc" && first < 0 {
					first = i
				}
			}
			fmt.Fprintf(&sb, "\n/-- does deleteObsoleteFiles list the family directory before it collects pending outputs / active versions' files / rollup files? -/\n")
			fmt.Fprintf(&sb, "def listBeforeLive : Bool := %v\n", il >= 0 && first >= 0 && il < first)
		}
		// LRUCache.Walk: which end of the list it inspects, and that it stops at the first entry the callback rejects
		{
			fd, err := need(cache, "LRUCache", "Walk")
			if err != nil {
				return "", err
			}
			var shape []string
			ast.Inspect(fd.Body, func(n ast.Node) bool {
				switch x := n.(type) {
				case *ast.ForStmt:
					shape = append(shape, "for")
				case *ast.CallExpr:
					nm := exprName(x.Fun)
					switch {
					case strings.HasSuffix(nm, "evictList.Back"):
						shape = append(shape, "evictList.Back")
					case strings.HasSuffix(nm, "evictList.Front"):
						shape = append(shape, "evictList.Front")
					case nm == "fn" || nm == "c.removeElement":
						shape = append(shape, nm)
					}
				case *ast.BranchStmt:
					shape = append(shape, x.Tok.String())
				}
				return true
			})
			def("lruWalkShape", shape)
		}
		// the state the families of one store SHARE: the two counters live in storeVersionSet (not in
		// familyVersion), and the reader cache is keyed by the table's file name alone (store-unique number)
		{
			fd, err := need(vs, "storeVersionSet", "newVersionID")
			if err != nil {
				return "", err
			}
			def("newVersionIDCalls", c02Events(fd, nil))
			var owner []string
			for _, d := range vs.Decls {
				gd, ok := d.(*ast.GenDecl)
				if !ok {
					continue
				}
				for _, sp := range gd.Specs {
					ts, ok := sp.(*ast.TypeSpec)
					if !ok {
						continue
					}
					st, ok := ts.Type.(*ast.StructType)
					if !ok {
						continue
					}
					for _, fld := range st.Fields.List {
						for _, n := range fld.Names {
							if n.Name == "nextFileNumber" || n.Name == "versionID" {
								owner = append(owner, ts.Name.Name+"."+n.Name)
							}
						}
					}
				}
			}
			def("sharedCounters", owner)
			var keys []string
			for _, fn := range []string{"GetReader", "ReleaseReaders", "Evict"} {
				fd, err := need(cache, "storeCache", fn)
				if err != nil {
					return "", err
				}
				ast.Inspect(fd.Body, func(n ast.Node) bool {
					c, ok := n.(*ast.CallExpr)
					if !ok {
						return true
					}
					nm := exprName(c.Fun)
					if (nm == "c.cache.Get" || nm == "c.cache.Add" || nm == "c.cache.Remove" || nm == "cache.Get" || nm == "cache.Add" || nm == "cache.Remove") && len(c.Args) > 0 {
						keys = append(keys, fn+":"+nm[strings.LastIndex(nm, ".")+1:]+"("+c02Text(c.Args[0])+")")
					}
					return true
				})
			}
			def("cacheKeys", keys)
		}
		// round 12: pending-output bookkeeping of a multi-output compaction (kv/compact_job.go)
		{
			var sites []string
			for _, d := range cj.Decls {
				fd, ok := d.(*ast.FuncDecl)
				if !ok || fd.Body == nil {
					continue
				}
				for _, e := range c02Events(fd, c02Keep("family.removePendingOutput")) {
					if e == "family.removePendingOutput" {
						sites = append(sites, fd.Name.Name)
					}
				}
			}
			fmt.Fprintf(&sb, "\n/-- the functions of kv/compact_job.go that call family.removePendingOutput, one entry per call site -/\n")
			def("compactPendingReleaseSites", sites)
			fd, err := need(cj, "compactJob", "finishCompactionOutputFile")
			if err != nil {
				return "", err
			}
			fin := c02Events(fd, c02Keep("family.removePendingOutput", "builder.Count", "builder.Close", "builder.Abandon", "state.addOutputFile"))
			def("finishOutputCalls", fin)
			rel := false
			for _, e := range fin {
				if e == "family.removePendingOutput" {
					rel = true
				}
			}
			fmt.Fprintf(&sb, "/-- does finishCompactionOutputFile itself release the pending-output mark of the table it finished? -/\n")
			fmt.Fprintf(&sb, "def finishOutputReleasesPending : Bool := %v\n", rel)
			// every place of package kv that touches the pending-output marks: "<file>:<func>:<call>"
			ents, err := os.ReadDir(filepath.Join(repo, "kv"))
			if err != nil {
				return "", err
			}
			var marks []string
			for _, e := range ents {
				name := e.Name()
				if e.IsDir() || !strings.HasSuffix(name, ".go") || strings.HasSuffix(name, "_test.go") ||
					strings.HasSuffix(name, "_mock.go") || strings.HasPrefix(name, "zz_verif") {
					continue
				}
				f, err := parse("kv/" + name)
				if err != nil {
					return "", err
				}
				for _, d := range f.Decls {
					fd, ok := d.(*ast.FuncDecl)
					if !ok || fd.Body == nil {
						continue
					}
					ast.Inspect(fd.Body, func(n ast.Node) bool {
						c, ok := n.(*ast.CallExpr)
						if !ok {
							return true
						}
						nm := exprName(c.Fun)
						switch {
						case strings.HasSuffix(nm, ".removePendingOutput"), strings.HasSuffix(nm, ".addPendingOutput"):
							marks = append(marks, name+":"+fd.Name.Name+":"+nm[strings.LastIndex(nm, ".")+1:])
						case strings.HasPrefix(nm, "pendingOutputs."):
							marks = append(marks, name+":"+fd.Name.Name+":"+nm)
						}
						return true
					})
				}
			}
			def("pendingMarkSites", marks)
			fd, err = need(cj, "compactJob", "openCompactionOutputFile")
			if err != nil {
				return "", err
			}
			def("openOutputCalls", c02Events(fd, nil))
		}
		{
			// round 13: the iterator a scan of a cached table reader starts with (kv/table/reader.go)
			rd, err := parse("kv/table/reader.go")
			if err != nil {
				return "", err
			}
			itf, err := need(rd, "storeMMapReader", "Iterator")
			if err != nil {
				return "", err
			}
			itStmts := c02Stmts(itf)
			fmt.Fprintf(&sb, "\n/-- storeMMapReader.Iterator(): its statements -/\n")
			def("readerIteratorStmts", itStmts)
			lit := false
			if nf := FindFunc(rd, "", "newMMapIterator"); nf != nil && nf.Body != nil && len(nf.Body.List) == 1 {
				if r, ok := nf.Body.List[0].(*ast.ReturnStmt); ok && len(r.Results) == 1 {
					if u, ok := r.Results[0].(*ast.UnaryExpr); ok {
						if cl, ok := u.X.(*ast.CompositeLit); ok && c02Text(cl.Type) == "storeMMapIterator" {
							lit = true
						}
					}
				}
			}
			fmt.Fprintf(&sb, "/-- newMMapIterator is `return &storeMMapIterator{..}` (a new object per call) -/\n")
			fmt.Fprintf(&sb, "def newMMapIteratorReturnsLiteral : Bool := %v\n", lit)
			// fields of storeMMapReader that could keep an iterator between calls
			var itFields []string
			ast.Inspect(rd, func(n ast.Node) bool {
				ts, ok := n.(*ast.TypeSpec)
				if !ok || ts.Name.Name != "storeMMapReader" {
					return true
				}
				if stt, ok := ts.Type.(*ast.StructType); ok {
					for _, f := range stt.Fields.List {
						ty := c02Text(f.Type)
						if strings.Contains(ty, "Iterator") || strings.Contains(ty, "IntIterable") {
							for _, nm := range f.Names {
								itFields = append(itFields, nm.Name+":"+ty)
							}
						}
					}
				}
				return false
			})
			fmt.Fprintf(&sb, "/-- fields of storeMMapReader of an iterator type -/\n")
			def("readerIteratorFields", itFields)
			fresh := lit && len(itFields) == 0 && len(itStmts) == 1 && itStmts[0] == "return:newMMapIterator"
			fmt.Fprintf(&sb, "/-- does every Iterator() call on a (cached, shared) table reader build a new iterator object? -/\n")
			fmt.Fprintf(&sb, "def iteratorFreshPerCall : Bool := %v\n", fresh)
			// what the three methods of storeMMapIterator move: calls on it.* and ++/-- statements, in order
			moves := func(name string) ([]string, error) {
				fd, err := need(rd, "storeMMapIterator", name)
				if err != nil {
					return nil, err
				}
				var out []string
				ast.Inspect(fd.Body, func(n ast.Node) bool {
					switch x := n.(type) {
					case *ast.CallExpr:
						if nm := c02Text(x.Fun); strings.HasPrefix(nm, "it.") {
							out = append(out, nm)
						}
					case *ast.IncDecStmt:
						out = append(out, c02Text(x.X)+x.Tok.String())
					case *ast.AssignStmt:
						for _, l := range x.Lhs {
							if t := c02Text(l); strings.HasPrefix(t, "it.") {
								out = append(out, t+"=")
							}
						}
					}
					return true
				})
				return out, nil
			}
			// who starts scans in package kv: every `.Iterator()` call of the non-test, non-hook files, "<file>:<func>"
			kvEnts, err := os.ReadDir(filepath.Join(repo, "kv"))
			if err != nil {
				return "", err
			}
			var scanSites []string
			for _, e := range kvEnts {
				name := e.Name()
				if e.IsDir() || !strings.HasSuffix(name, ".go") || strings.HasSuffix(name, "_test.go") ||
					strings.HasSuffix(name, "_mock.go") || strings.HasPrefix(name, "zz_verif") {
					continue
				}
				f, err := parse("kv/" + name)
				if err != nil {
					return "", err
				}
				for _, d := range f.Decls {
					fd, ok := d.(*ast.FuncDecl)
					if !ok || fd.Body == nil {
						continue
					}
					ast.Inspect(fd.Body, func(n ast.Node) bool {
						if c, ok := n.(*ast.CallExpr); ok {
							if sel, ok := c.Fun.(*ast.SelectorExpr); ok && sel.Sel.Name == "Iterator" && len(c.Args) == 0 {
								scanSites = append(scanSites, name+":"+fd.Name.Name+":"+c02Text(sel.X))
							}
						}
						return true
					})
				}
			}
			fmt.Fprintf(&sb, "/-- every `.Iterator()` call in package kv (non-test): \"<file>:<func>:<receiver>\" -/\n")
			def("kvScanSites", scanSites)
			mi, err := need(cj, "compactJob", "makeInputIterator")
			if err != nil {
				return "", err
			}
			fmt.Fprintf(&sb, "/-- compactJob.makeInputIterator: its calls in order -/\n")
			def("makeInputIteratorCalls", c02Events(mi, c02Keep("snapshot.GetReader", "reader.Iterator", "table.NewMergedIterator")))
			for _, m := range [][2]string{{"HasNext", "iteratorHasNextMoves"}, {"Key", "iteratorKeyMoves"}, {"Value", "iteratorValueMoves"}} {
				mv, err := moves(m[0])
				if err != nil {
					return "", err
				}
				def(m[1], mv)
			}
		}
		fmt.Fprintf(&sb, "\n/-- does `removeVersion` re-check `ref == 0` under the family lock before deleting? -/\n")
		fmt.Fprintf(&sb, "def removeVersionRechecksRef : Bool := %v\n", c02RemoveRechecks(removeSteps))
		return sb.String(), nil
	}})
}
