package extract

import (
	"fmt"
	"go/ast"
	"go/token"
	"go/types"
	"strconv"
	"strings"
)

// C05: pkg/queue — constants.go values, the lock/step structure of queue.Put (which calls
// happen while Put holds rwMutex, which callees lock it themselves), the guards of
// Put/alloc/validateSequence/SetAcknowledgedSeq, the index arithmetic and the page stores /
// loads (with their argument text) of persistMetaOfMessage, initDataPageIndex, Get and GC.
func init() {
	Register(Fact{Module: "C05", Gen: func(repo string) (string, error) {
		_, cf, err := ParseFile(repo, "pkg/queue/constants.go")
		if err != nil {
			return "", err
		}
		cs := ConstInts(cf)
		var sb strings.Builder
		for _, n := range []string{"indexItemLength", "indexItemsPerPage", "indexPageSize", "dataPageSize", "metaPageSize",
			"queueAppendedSeqOffset", "queueAcknowledgedSeqOffset", "queueDataPageIndexOffset",
			"messageOffsetOffset", "messageLengthOffset", "metaPageIndex"} {
			v, ok := cs[n]
			if !ok || v < 0 {
				return "", fmt.Errorf("constant %s not found in pkg/queue/constants.go", n)
			}
			fmt.Fprintf(&sb, "def %s : Nat := %d\n", n, v)
		}
		v, ok := cs["SeqNoNewMessageAvailable"]
		if !ok {
			return "", fmt.Errorf("constant SeqNoNewMessageAvailable not found")
		}
		fmt.Fprintf(&sb, "def seqNoNewMessageAvailable : Int := %s\n", LeanInt(v))

		_, qf, err := ParseFile(repo, "pkg/queue/queue.go")
		if err != nil {
			return "", err
		}
		put := FindFunc(qf, "queue", "Put")
		if put == nil {
			return "", fmt.Errorf("queue.Put not found")
		}
		// ---- lock / step structure of Put
		calls, err := c05LockedCalls(qf, put)
		if err != nil {
			return "", err
		}
		sb.WriteString("\n-- (callee, Put holds rwMutex at the call, the callee locks rwMutex itself), in source order\n")
		sb.WriteString("def putCalls : List (String × Bool × Bool) := [" + strings.Join(calls, ", ") + "]\n")

		var problems []string
		// ---- what Put does with queue state BEFORE it holds rwMutex (nothing, in the source the
		// model was written against: the sequence is read inside persistMetaOfMessage, under the lock)
		sb.WriteString("\ndef putUnlockedQueueAccesses : List String := " + LeanStrList(c05UnlockedAccesses(put)) + "\n")
		pm := FindFunc(qf, "queue", "persistMetaOfMessage")
		var pparams []string
		if pm != nil && pm.Type.Params != nil {
			for _, f := range pm.Type.Params.List {
				for _, n := range f.Names {
					pparams = append(pparams, n.Name)
				}
			}
		}
		sb.WriteString("\ndef persistParams : List String := " + LeanStrList(pparams) + "\n")
		// ---- guards
		type g struct {
			fn, lean string
			params   []string
			nth      int // which if-statement of the body (0-based, top level and nested, source order)
		}
		for _, x := range []g{
			{"Put", "putTooLargeCond", []string{"dataLength"}, 0},
			{"alloc", "allocRollCond", []string{"messageOffset", "dataLen"}, 0},
			{"validateSequence", "getRangeCond", []string{"sequence", "appendedSeq", "acknowledgedSeq"}, 0},
			{"SetAcknowledgedSeq", "ackCond", []string{"seq", "acknowledgedSeq", "appendedSeq"}, 0},
			{"initDataPageIndex", "initEmptyCond", []string{"appendedSeq"}, 0},
		} {
			fd := FindFunc(qf, "queue", x.fn)
			if fd == nil {
				return "", fmt.Errorf("queue.%s not found", x.fn)
			}
			cond := c05NthIf(fd, x.nth)
			def, err := CondDef(c05Flatten(cond, c05Recv(fd)), x.lean, x.params, cs)
			if err != nil {
				// the guard is no longer where/what it was: keep the module compiling (the model and the
				// oracle must still run) and let the tie theorems fail on the recorded problem
				problems = append(problems, err.Error())
				def = c05Placeholder(x.lean, x.params, "Bool", "false")
			}
			sb.WriteString("\n" + def)
		}
		// ---- index arithmetic
		type a struct {
			fn, v, lean string
			params      []string
		}
		for _, x := range []a{
			{"persistMetaOfMessage", "seq", "persistSeq", []string{"appendedSeq"}},
			{"persistMetaOfMessage", "indexPageIndex", "persistIndexPage", []string{"seq"}},
			{"persistMetaOfMessage", "indexOffset", "persistIndexOffset", []string{"seq"}},
			{"Get", "indexPageID", "getIndexPage", []string{"sequence"}},
			{"Get", "indexOffset", "getIndexOffset", []string{"sequence"}},
			{"GC", "indexPageID", "gcIndexPage", []string{"ackSeq"}},
			{"GC", "indexOffset", "gcIndexOffset", []string{"ackSeq"}},
			{"initDataPageIndex", "indexOffset", "initIndexOffset", []string{"previousSeq"}},
		} {
			fd := FindFunc(qf, "queue", x.fn)
			if fd == nil {
				return "", fmt.Errorf("queue.%s not found", x.fn)
			}
			def, err := ExprDef(c05Flatten(FindAssign(fd, x.v), c05Recv(fd)), x.lean, x.params, cs, nil)
			if err != nil {
				problems = append(problems, err.Error())
				def = c05Placeholder(x.lean, x.params, "Int", "(-1)")
			}
			sb.WriteString("\n" + def)
		}
		// ---- page stores / loads with their argument text, and assignments to the cursor fields
		for _, x := range [][2]string{{"persistMetaOfMessage", "persistAccesses"}, {"initDataPageIndex", "initAccesses"},
			{"Get", "getAccesses"}, {"GC", "gcAccesses"}, {"alloc", "allocAccesses"}, {"initSequence", "initSequenceAccesses"},
			{"SetAcknowledgedSeq", "ackAccesses"}} {
			fd := FindFunc(qf, "queue", x[0])
			if fd == nil {
				return "", fmt.Errorf("queue.%s not found", x[0])
			}
			sb.WriteString("\ndef " + x[1] + " : List String := " + LeanStrList(c05Accesses(fd)) + "\n")
		}
		// ---- every branch condition and every assignment statement of GC and alloc (GC runs without the
		// queue lock: where its truncation bound comes from matters; alloc must not assign a queue field
		// before AcquirePage succeeded), and GC's complete call sequence
		for _, x := range [][2]string{{"GC", "gc"}, {"alloc", "alloc"}} {
			fd := FindFunc(qf, "queue", x[0])
			sb.WriteString("\ndef " + x[1] + "Conds : List String := " + LeanStrList(c05Conds(fd)) + "\n")
			sb.WriteString("\ndef " + x[1] + "Assigns : List String := " + LeanStrList(c05Assigns(fd)) + "\n")
		}
		sa := FindFunc(qf, "queue", "SetAppendedSeq")
		if sa == nil {
			return "", fmt.Errorf("queue.SetAppendedSeq not found")
		}
		sb.WriteString("\ndef setAppendedAccesses : List String := " + LeanStrList(c05Accesses(sa)) + "\n")
		sb.WriteString("\ndef setAppendedConds : List String := " + LeanStrList(c05Conds(sa)) + "\n")
		sb.WriteString("\ndef setAppendedAssigns : List String := " + LeanStrList(c05Assigns(sa)) + "\n")
		sb.WriteString("\ndef gcCallSeq : List String := " + LeanStrList(CallSeq(FindFunc(qf, "queue", "GC"))) + "\n")
		// ---- MappedPage.WriteBytes is a plain copy
		_, mf, err := ParseFile(repo, "pkg/queue/page/mpage.go")
		if err != nil {
			return "", err
		}
		// ---- Factory.TruncatePages removes exactly the pages whose ID is below the bound
		_, ff, err := ParseFile(repo, "pkg/queue/page/factory.go")
		if err != nil {
			return "", err
		}
		tp := FindFunc(ff, "factory", "TruncatePages")
		if tp == nil || tp.Body == nil {
			return "", fmt.Errorf("factory.TruncatePages not found")
		}
		sb.WriteString("\ndef truncatePagesConds : List String := " + LeanStrList(c05Conds(tp)) + "\n")
		sb.WriteString("\ndef truncatePagesLoops : List String := " + LeanStrList(c05Loops(tp)) + "\n")
		sb.WriteString("\ndef truncatePagesCallSeq : List String := " + LeanStrList(CallSeq(tp)) + "\n")
		wb := FindFunc(mf, "mappedPage", "WriteBytes")
		if wb == nil || wb.Body == nil {
			return "", fmt.Errorf("mappedPage.WriteBytes not found")
		}
		var body []string
		for _, st := range wb.Body.List {
			body = append(body, c05Text(st))
		}
		rb := FindFunc(mf, "mappedPage", "ReadBytes")
		if rb == nil || rb.Body == nil {
			return "", fmt.Errorf("mappedPage.ReadBytes not found")
		}
		var rbody []string
		for _, st := range rb.Body.List {
			rbody = append(rbody, c05Text(st))
		}
		sb.WriteString("\ndef readBytesBody : List String := " + LeanStrList(rbody) + "\n")
		sb.WriteString("\ndef writeBytesBody : List String := " + LeanStrList(body) + "\n")
		// ---- the rest of the page factory (Model/QueueFactory.lean mirrors it branch for branch):
		// every condition, every assignment / map update and the call sequence (log calls dropped) of
		// AcquirePage, GetPage, Close, loadPages, NewFactory; the file name format
		sb.WriteString("\n-- pkg/queue/page/factory.go\n")
		for _, x := range [][2]string{{"AcquirePage", "fctAcquire"}, {"GetPage", "fctGetPage"}, {"Close", "fctClose"},
			{"loadPages", "fctLoadPages"}, {"pageFileName", "fctFileName"}} {
			fd := FindFunc(ff, "factory", x[0])
			if fd == nil || fd.Body == nil {
				problems = append(problems, "factory."+x[0]+" not found")
				fd = nil
			}
			sb.WriteString("\ndef " + x[1] + "Conds : List String := " + LeanStrList(c05CondsNil(fd)) + "\n")
			sb.WriteString("\ndef " + x[1] + "Stmts : List String := " + LeanStrList(c05Stmts(fd)) + "\n")
			sb.WriteString("\ndef " + x[1] + "Calls : List String := " + LeanStrList(c05CallsNoLog(fd)) + "\n")
		}
		nf := FindFunc(ff, "", "NewFactory")
		if nf == nil {
			problems = append(problems, "page.NewFactory not found")
		}
		sb.WriteString("\ndef fctNewCalls : List String := " + LeanStrList(c05CallsNoLog(nf)) + "\n")
		sb.WriteString("\ndef fctPageSuffix : String := " + strconv.Quote(c05StringConst(ff, "pageSuffix")) + "\n")
		// ---- NewQueue: which factories it creates with which page size, the fresh-directory branch
		// (both sequences -1, stored at their meta offsets), initSequence otherwise, then initDataPageIndex
		nq := FindFunc(qf, "", "NewQueue")
		if nq == nil {
			problems = append(problems, "queue.NewQueue not found")
		}
		sb.WriteString("\n-- pkg/queue/queue.go NewQueue\n")
		sb.WriteString("\ndef newQueueConds : List String := " + LeanStrList(c05CondsNil(nq)) + "\n")
		sb.WriteString("\ndef newQueueAccesses : List String := " + LeanStrList(c05AccessesNil(nq)) + "\n")
		sb.WriteString("\ndef newQueueCalls : List String := " + LeanStrList(c05CallsNoLog(nq)) + "\n")
		sb.WriteString("\ndef newQueueFactoryArgs : List String := " + LeanStrList(c05CallArgs(nq, "newPageFactoryFunc")) + "\n")
		// ---- replica/partition.go: the callers of Put / AppendedSeq / SetAppendedSeq / GC
		_, pf, err := ParseFile(repo, "replica/partition.go")
		if err != nil {
			return "", err
		}
		sb.WriteString("\n-- replica/partition.go\n")
		for _, x := range [][2]string{{"WriteLog", "writeLog"}, {"ReplicaLog", "replicaLog"}, {"ReplicaAckIndex", "replicaAckIndex"},
			{"ResetReplicaIndex", "resetReplicaIndex"}, {"Close", "partitionClose"}} {
			fd := FindFunc(pf, "partition", x[0])
			if fd == nil || fd.Body == nil {
				problems = append(problems, "partition."+x[0]+" not found")
				fd = nil
			}
			sb.WriteString("\ndef " + x[1] + "Conds : List String := " + LeanStrList(c05CondsNil(fd)) + "\n")
			sb.WriteString("\ndef " + x[1] + "Stmts : List String := " + LeanStrList(c05Stmts(fd)) + "\n")
			sb.WriteString("\ndef " + x[1] + "Calls : List String := " + LeanStrList(c05CallsNoLog(fd)) + "\n")
		}
		ie := FindFunc(pf, "partition", "IsExpire")
		var ieHead []string
		if ie != nil && ie.Body != nil {
			for i, st := range ie.Body.List {
				if i < 2 {
					ieHead = append(ieHead, c05Text(st))
				}
			}
		}
		sb.WriteString("\ndef isExpireHead : List String := " + LeanStrList(ieHead) + "\n")
		// FanOutQueue.SetAppendedSeq / Queue(): the partition reaches the queue through them
		_, fqf, err := ParseFile(repo, "pkg/queue/fanout_queue.go")
		if err != nil {
			return "", err
		}
		sb.WriteString("\ndef fanoutSetAppendedCalls : List String := " + LeanStrList(c05CallsNoLog(FindFunc(fqf, "fanOutQueue", "SetAppendedSeq"))) + "\n")
		sb.WriteString("\ndef fanoutSetAppendedArgs : List String := " + LeanStrList(c05CallArgs(FindFunc(fqf, "fanOutQueue", "SetAppendedSeq"), "SetAppendedSeq")) + "\n")
		sb.WriteString("\ndef fanoutQueueStmts : List String := " + LeanStrList(c05Stmts(FindFunc(fqf, "fanOutQueue", "Queue"))) + "\n")
		sb.WriteString("\ndef resetReplicaIndexArgs : List String := " +
			LeanStrList(c05CallArgs(FindFunc(pf, "partition", "ResetReplicaIndex"), "SetAppendedSeq")) + "\n")
		// ---- round 12: index-page positioning. The switch test of persistMetaOfMessage (its FIRST
		// if-condition), every assignment of persistMetaOfMessage and initDataPageIndex (q.indexPage and
		// q.indexPageIndex are assigned together, nowhere else), and the second caller of SetAppendedSeq
		// (replica/replicator.go ResetAppendIndex reaches the FanOutQueue of the consumer group)
		sb.WriteString("\n-- index page positioning (Model/C05IndexPos.lean)\n")
		pmFn := pm
		idp := FindFunc(qf, "queue", "initDataPageIndex")
		if pmFn == nil || idp == nil {
			problems = append(problems, "persistMetaOfMessage / initDataPageIndex not found")
		}
		pmConds := c05CondsNil(pmFn)
		sw := ""
		if len(pmConds) > 0 {
			sw = pmConds[0]
		}
		sb.WriteString("\ndef persistSwitchCond : String := " + strconv.Quote(sw) + "\n")
		sb.WriteString("\ndef persistConds : List String := " + LeanStrList(pmConds) + "\n")
		sb.WriteString("\ndef persistAssigns : List String := " + LeanStrList(c05Assigns2(pmFn)) + "\n")
		sb.WriteString("\ndef initDataPageIndexConds : List String := " + LeanStrList(c05CondsNil(idp)) + "\n")
		sb.WriteString("\ndef initDataPageIndexAssigns : List String := " + LeanStrList(c05Assigns2(idp)) + "\n")
		var idxWriters []string
		for _, d := range qf.Decls {
			fd, ok := d.(*ast.FuncDecl)
			if !ok || fd.Body == nil {
				continue
			}
			for _, a := range c05Assigns2(fd) {
				if strings.HasPrefix(a, "q.indexPage =") || strings.HasPrefix(a, "q.indexPage,") || strings.HasPrefix(a, "q.indexPageIndex =") ||
					strings.HasPrefix(a, "q.indexPageIndex++") || strings.HasPrefix(a, "q.indexPageIndex--") {
					idxWriters = append(idxWriters, fd.Name.Name)
					break
				}
			}
		}
		sb.WriteString("\ndef indexPageWriters : List String := " + LeanStrList(idxWriters) + "\n")
		if _, rf, rerr := ParseFile(repo, "replica/replicator.go"); rerr == nil {
			rai := FindFunc(rf, "replicator", "ResetAppendIndex")
			if rai == nil {
				problems = append(problems, "replicator.ResetAppendIndex not found")
			}
			sb.WriteString("\ndef resetAppendIndexCalls : List String := " + LeanStrList(c05CallsNoLog(rai)) + "\n")
			sb.WriteString("\ndef resetAppendIndexArgs : List String := " + LeanStrList(c05CallArgs(rai, "SetAppendedSeq")) + "\n")
		} else {
			problems = append(problems, "replica/replicator.go not parsed")
			sb.WriteString("\ndef resetAppendIndexCalls : List String := []\n\ndef resetAppendIndexArgs : List String := []\n")
		}
		// ---- the configured page size: which functions of queue.go read or write the field q.pageSize
		// (the model has no such parameter: only NewQueue may look at it, to create the data factory)
		var psUsers []string
		for _, d := range qf.Decls {
			fd, ok := d.(*ast.FuncDecl)
			if !ok || fd.Body == nil {
				continue
			}
			uses := false
			ast.Inspect(fd.Body, func(n ast.Node) bool {
				if se, ok := n.(*ast.SelectorExpr); ok && se.Sel.Name == "pageSize" {
					uses = true
				}
				return true
			})
			if uses {
				psUsers = append(psUsers, fd.Name.Name)
			}
		}
		sb.WriteString("\ndef pageSizeUsers : List String := " + LeanStrList(psUsers) + "\n")
		sb.WriteString("\n-- facts that could not be re-extracted (placeholders were emitted for them)\ndef extractionProblems : List String := " + LeanStrList(problems) + "\n")
		return sb.String(), nil
	}})
}

func c05CondsNil(fd *ast.FuncDecl) []string {
	if fd == nil || fd.Body == nil {
		return nil
	}
	return c05Conds(fd)
}

func c05AccessesNil(fd *ast.FuncDecl) []string {
	if fd == nil || fd.Body == nil {
		return nil
	}
	return c05Accesses(fd)
}

// c05Stmts lists, in source order, the text of every return statement, assignment / short variable
// declaration and inc-dec of fd (function literals included: deferred clean-up is part of the order).
func c05Stmts(fd *ast.FuncDecl) []string {
	var out []string
	if fd == nil || fd.Body == nil {
		return nil
	}
	ast.Inspect(fd.Body, func(n ast.Node) bool {
		switch x := n.(type) {
		case *ast.ReturnStmt, *ast.AssignStmt:
			out = append(out, c05Text(x))
		case *ast.IncDecStmt:
			out = append(out, types.ExprString(x.X)+x.Tok.String())
		}
		return true
	})
	return out
}

// c05CallsNoLog lists the calls of fd in evaluation order (arguments before the call, "defer:"
// prefix for deferred calls) with the callee's full selector text; calls on loggers and on the
// statistics counters — and everything inside their arguments — are dropped.
func c05CallsNoLog(fd *ast.FuncDecl) []string {
	var out []string
	if fd == nil || fd.Body == nil {
		return nil
	}
	noisy := func(s string) bool {
		return strings.Contains(s, "ogger") || strings.Contains(s, "statistics.") || strings.Contains(s, "Statistics")
	}
	var walk func(n ast.Node, prefix string)
	walk = func(n ast.Node, prefix string) {
		ast.Inspect(n, func(m ast.Node) bool {
			switch x := m.(type) {
			case *ast.DeferStmt:
				walk(x.Call, prefix+"defer:")
				return false
			case *ast.FuncLit:
				walk(x.Body, prefix+"λ:")
				return false
			case *ast.CallExpr:
				full := types.ExprString(x.Fun)
				if noisy(full) {
					return false
				}
				for _, a := range x.Args {
					walk(a, prefix)
				}
				if se, ok := x.Fun.(*ast.SelectorExpr); ok {
					walk(se.X, prefix)
				}
				out = append(out, prefix+full)
				return false
			}
			return true
		})
	}
	walk(fd.Body, "")
	return out
}

// c05CallArgs lists the argument text of every call of the plain function / variable `name` in fd.
func c05CallArgs(fd *ast.FuncDecl, name string) []string {
	var out []string
	if fd == nil || fd.Body == nil {
		return nil
	}
	ast.Inspect(fd.Body, func(n ast.Node) bool {
		if c, ok := n.(*ast.CallExpr); ok {
			hit := false
			switch f := c.Fun.(type) {
			case *ast.Ident:
				hit = f.Name == name
			case *ast.SelectorExpr:
				hit = f.Sel.Name == name
			}
			if hit {
				var args []string
				for _, a := range c.Args {
					args = append(args, types.ExprString(a))
				}
				out = append(out, strings.Join(args, ", "))
			}
		}
		return true
	})
	return out
}

// c05StringConst returns the value of the package-level string constant `name` ("" if absent).
func c05StringConst(f *ast.File, name string) string {
	for _, d := range f.Decls {
		gd, ok := d.(*ast.GenDecl)
		if !ok || gd.Tok != token.CONST {
			continue
		}
		for _, s := range gd.Specs {
			vs := s.(*ast.ValueSpec)
			for i, n := range vs.Names {
				if n.Name == name && i < len(vs.Values) {
					if bl, ok := vs.Values[i].(*ast.BasicLit); ok && bl.Kind == token.STRING {
						if v, err := strconv.Unquote(bl.Value); err == nil {
							return v
						}
					}
				}
			}
		}
	}
	return ""
}

func c05Recv(fd *ast.FuncDecl) string {
	if fd.Recv != nil && len(fd.Recv.List) == 1 && len(fd.Recv.List[0].Names) == 1 {
		return fd.Recv.List[0].Names[0].Name
	}
	return ""
}

func c05Text(n ast.Node) string {
	switch x := n.(type) {
	case ast.Expr:
		return types.ExprString(x)
	case *ast.ExprStmt:
		return types.ExprString(x.X)
	case *ast.ReturnStmt:
		var r []string
		for _, e := range x.Results {
			r = append(r, types.ExprString(e))
		}
		return "return " + strings.Join(r, ", ")
	case *ast.AssignStmt:
		var l, r []string
		for _, e := range x.Lhs {
			l = append(l, types.ExprString(e))
		}
		for _, e := range x.Rhs {
			r = append(r, types.ExprString(e))
		}
		return strings.Join(l, ", ") + " " + x.Tok.String() + " " + strings.Join(r, ", ")
	}
	return fmt.Sprintf("%T", n)
}

// c05NthIf returns the condition of the n-th if statement of fd (source order).
func c05NthIf(fd *ast.FuncDecl, n int) ast.Expr {
	var out ast.Expr
	i := 0
	ast.Inspect(fd.Body, func(m ast.Node) bool {
		if is, ok := m.(*ast.IfStmt); ok {
			if i == n && out == nil {
				out = is.Cond
			}
			i++
		}
		return out == nil
	})
	return out
}

// c05Flatten rewrites receiver field reads into plain identifiers so that the shared
// integer-expression translator applies: `q.f` → f, `q.f.Load()` → f, SeqNoNewMessageAvailable
// stays a constant.
func c05Flatten(e ast.Expr, recv string) ast.Expr {
	switch x := e.(type) {
	case nil:
		return nil
	case *ast.ParenExpr:
		return &ast.ParenExpr{X: c05Flatten(x.X, recv)}
	case *ast.BinaryExpr:
		return &ast.BinaryExpr{X: c05Flatten(x.X, recv), Op: x.Op, Y: c05Flatten(x.Y, recv)}
	case *ast.UnaryExpr:
		return &ast.UnaryExpr{Op: x.Op, X: c05Flatten(x.X, recv)}
	case *ast.SelectorExpr:
		if id, ok := x.X.(*ast.Ident); ok && id.Name == recv {
			return &ast.Ident{Name: x.Sel.Name}
		}
		return x
	case *ast.CallExpr:
		if se, ok := x.Fun.(*ast.SelectorExpr); ok && se.Sel.Name == "Load" && len(x.Args) == 0 {
			return c05Flatten(se.X, recv)
		}
		args := make([]ast.Expr, len(x.Args))
		for i, a := range x.Args {
			args[i] = c05Flatten(a, recv)
		}
		return &ast.CallExpr{Fun: x.Fun, Args: args}
	}
	return e
}

// c05LockedCalls walks the top-level statements of Put in order, tracking whether Put itself
// holds q.rwMutex, and records the calls to methods of the receiver and to WriteBytes.
func c05LockedCalls(file *ast.File, put *ast.FuncDecl) ([]string, error) {
	recv := c05Recv(put)
	held := "false"
	var out []string
	isMutexCall := func(c *ast.CallExpr) (string, bool) {
		se, ok := c.Fun.(*ast.SelectorExpr)
		if !ok {
			return "", false
		}
		in, ok := se.X.(*ast.SelectorExpr)
		if !ok || in.Sel.Name != "rwMutex" {
			return "", false
		}
		return se.Sel.Name, true
	}
	selfLocks := func(name string) string {
		fd := FindFunc(file, "queue", name)
		if fd == nil || fd.Body == nil {
			return "false"
		}
		r := "false"
		ast.Inspect(fd.Body, func(n ast.Node) bool {
			if c, ok := n.(*ast.CallExpr); ok {
				if m, ok := isMutexCall(c); ok && m == "Lock" {
					r = "true"
				}
			}
			return true
		})
		return r
	}
	var visit func(n ast.Node)
	visit = func(n ast.Node) {
		ast.Inspect(n, func(m ast.Node) bool {
			switch x := m.(type) {
			case *ast.DeferStmt:
				if _, ok := isMutexCall(x.Call); ok {
					return false // deferred Unlock: lock stays held to the end of Put
				}
			case *ast.FuncLit:
				return false
			case *ast.CallExpr:
				for _, a := range x.Args {
					visit(a)
				}
				if m, ok := isMutexCall(x); ok {
					switch m {
					case "Lock":
						held = "true"
					case "Unlock":
						held = "false"
					default:
						held = "other:" + m
					}
					return false
				}
				if se, ok := x.Fun.(*ast.SelectorExpr); ok {
					id, isRecv := se.X.(*ast.Ident)
					if (isRecv && id.Name == recv) || se.Sel.Name == "WriteBytes" {
						h := held
						name := se.Sel.Name
						if h != "true" && h != "false" { // RLock etc.: not a structure the model knows
							name += "@" + h
							h = "false"
						}
						out = append(out, fmt.Sprintf("(%q, %s, %s)", name, h, selfLocks(se.Sel.Name)))
					}
				}
				return false
			}
			return true
		})
	}
	if put.Body == nil {
		return nil, fmt.Errorf("queue.Put has no body")
	}
	for _, st := range put.Body.List {
		visit(st)
	}
	return out, nil
}

// c05Accesses lists, in source order: page stores/loads "<page>.<Method>(<args>)" for the
// MappedPage accessors, AcquirePage/GetPage/TruncatePages calls, atomic Store calls and
// assignments to receiver fields "<field> = <rhs>".
func c05Accesses(fd *ast.FuncDecl) []string {
	recv := c05Recv(fd)
	var out []string
	keep := map[string]bool{"PutUint64": true, "PutUint32": true, "PutUint8": true, "ReadUint64": true, "ReadUint32": true,
		"ReadUint8": true, "WriteBytes": true, "ReadBytes": true, "AcquirePage": true, "GetPage": true,
		"TruncatePages": true, "Store": true}
	ast.Inspect(fd.Body, func(n ast.Node) bool {
		switch x := n.(type) {
		case *ast.AssignStmt:
			if x.Tok == token.ASSIGN || x.Tok == token.ADD_ASSIGN {
				for i, l := range x.Lhs {
					if se, ok := l.(*ast.SelectorExpr); ok {
						if id, ok := se.X.(*ast.Ident); ok && id.Name == recv && i < len(x.Rhs) && len(x.Lhs) == len(x.Rhs) {
							out = append(out, se.Sel.Name+" "+x.Tok.String()+" "+types.ExprString(x.Rhs[i]))
						}
					}
				}
			}
		case *ast.IncDecStmt:
			if se, ok := x.X.(*ast.SelectorExpr); ok {
				if id, ok := se.X.(*ast.Ident); ok && id.Name == recv {
					out = append(out, se.Sel.Name+x.Tok.String())
				}
			}
		case *ast.CallExpr:
			if se, ok := x.Fun.(*ast.SelectorExpr); ok && keep[se.Sel.Name] {
				var args []string
				for _, a := range x.Args {
					args = append(args, types.ExprString(a))
				}
				out = append(out, lastIdent(se.X)+"."+se.Sel.Name+"("+strings.Join(args, ", ")+")")
			}
		}
		return true
	})
	return out
}

// c05Conds lists the text of every if-condition of fd in source order.
func c05Conds(fd *ast.FuncDecl) []string {
	var out []string
	ast.Inspect(fd.Body, func(n ast.Node) bool {
		if is, ok := n.(*ast.IfStmt); ok {
			out = append(out, types.ExprString(is.Cond))
		}
		return true
	})
	return out
}

// c05Assigns lists the text of every assignment / short variable declaration / inc-dec of fd.
func c05Assigns(fd *ast.FuncDecl) []string {
	var out []string
	ast.Inspect(fd.Body, func(n ast.Node) bool {
		switch x := n.(type) {
		case *ast.AssignStmt:
			out = append(out, c05Text(x))
		case *ast.IncDecStmt:
			out = append(out, types.ExprString(x.X)+x.Tok.String())
		}
		return true
	})
	return out
}

// c05Loops lists "for <key>, <value> := range <expr>" / "for <cond>" headers of fd in source order.
func c05Loops(fd *ast.FuncDecl) []string {
	var out []string
	es := func(e ast.Expr) string {
		if e == nil {
			return "_"
		}
		return types.ExprString(e)
	}
	ast.Inspect(fd.Body, func(n ast.Node) bool {
		switch x := n.(type) {
		case *ast.RangeStmt:
			out = append(out, "for "+es(x.Key)+", "+es(x.Value)+" range "+es(x.X))
		case *ast.ForStmt:
			out = append(out, "for "+es(x.Cond))
		}
		return true
	})
	return out
}

// c05Placeholder emits a definition with the expected signature and a value no tie accepts.
func c05Placeholder(name string, params []string, typ, val string) string {
	var sb strings.Builder
	fmt.Fprintf(&sb, "def %s", name)
	for _, p := range params {
		fmt.Fprintf(&sb, " (_%s : Int)", p)
	}
	fmt.Fprintf(&sb, " : %s :=\n  %s -- NOT FOUND in the source\n", typ, val)
	return sb.String()
}

// c05UnlockedAccesses lists the calls on fields of the receiver (q.f.M(...)) and assignments to
// receiver fields that Put makes while it does not hold rwMutex (lock calls themselves excluded).
func c05UnlockedAccesses(put *ast.FuncDecl) []string {
	recv := c05Recv(put)
	held := false
	var out []string
	rooted := func(e ast.Expr) bool {
		for {
			switch x := e.(type) {
			case *ast.SelectorExpr:
				e = x.X
			case *ast.Ident:
				return x.Name == recv
			default:
				return false
			}
		}
	}
	var visit func(n ast.Node)
	visit = func(n ast.Node) {
		ast.Inspect(n, func(m ast.Node) bool {
			switch x := m.(type) {
			case *ast.DeferStmt:
				return false
			case *ast.AssignStmt:
				for _, l := range x.Lhs {
					if se, ok := l.(*ast.SelectorExpr); ok && rooted(se) && !held {
						out = append(out, c05Text(x))
					}
				}
			case *ast.CallExpr:
				for _, a := range x.Args {
					visit(a)
				}
				if se, ok := x.Fun.(*ast.SelectorExpr); ok {
					if in, ok := se.X.(*ast.SelectorExpr); ok && in.Sel.Name == "rwMutex" {
						held = se.Sel.Name == "Lock"
						return false
					}
					if in, ok := se.X.(*ast.SelectorExpr); ok && rooted(in) && !held {
						out = append(out, types.ExprString(x))
					}
				}
				return false
			}
			return true
		})
	}
	for _, st := range put.Body.List {
		visit(st)
	}
	return out
}

// c05Assigns2 is c05Assigns for a possibly missing function.
func c05Assigns2(fd *ast.FuncDecl) []string {
	if fd == nil || fd.Body == nil {
		return nil
	}
	return c05Assigns(fd)
}
