package extract

import (
	"bytes"
	"fmt"
	"go/ast"
	"go/parser"
	"go/printer"
	"go/token"
	"os"
	"path/filepath"
	"sort"
	"strconv"
	"strings"
)

// C03: the field-type → aggregate tables (series/field/type.go), the aggregate formulas, the
// "empty slot" marker conventions of the merger / encoder / reader-side aggregator, the target
// position formula of DownSamplingMultiSeriesInto, and the structure of the compaction flusher
// (which methods the stream-writer wrapper overrides; call orders of doMerge / install).
func init() {
	Register(Fact{Module: "C03", Gen: genC03})
}

// switchTable reads `switch <tag> { case A, B: return <expr> ... default: return <expr> }` of a
// function body: for every case identifier the returned expression, plus the default's.
func switchTable(fd *ast.FuncDecl) (cases [][2]string, deflt string, err error) {
	if fd == nil || fd.Body == nil {
		return nil, "", fmt.Errorf("function not found")
	}
	var sw *ast.SwitchStmt
	for _, s := range fd.Body.List {
		if x, ok := s.(*ast.SwitchStmt); ok {
			sw = x
			break
		}
	}
	if sw == nil {
		return nil, "", fmt.Errorf("%s: no switch statement", fd.Name.Name)
	}
	for _, c := range sw.Body.List {
		cc := c.(*ast.CaseClause)
		ret := ""
		if n := len(cc.Body); n > 0 {
			switch r := cc.Body[n-1].(type) {
			case *ast.ReturnStmt:
				if len(r.Results) == 1 {
					ret = exprText(r.Results[0])
				}
			case *ast.ExprStmt:
				ret = exprText(r.X) // e.g. panic("...")
			}
		}
		if len(cc.Body) != 1 {
			ret = "<" + strconv.Itoa(len(cc.Body)) + " statements>"
		}
		if cc.List == nil {
			deflt = ret
			continue
		}
		for _, e := range cc.List {
			cases = append(cases, [2]string{exprText(e), ret})
		}
	}
	return cases, deflt, nil
}

// exprText prints an expression in full (types.ExprString abbreviates composite literals).
func exprText(e ast.Expr) string {
	var b bytes.Buffer
	if err := printer.Fprint(&b, token.NewFileSet(), e); err != nil {
		return "<unprintable>"
	}
	return strings.Join(strings.Fields(b.String()), " ")
}

func lastSel(s string) string {
	if i := strings.LastIndexByte(s, '.'); i >= 0 {
		return s[i+1:]
	}
	return s
}

// sliceElem turns "[]AggType{Sum}" into "Sum".
func sliceElem(s string) string {
	if i := strings.IndexByte(s, '{'); i >= 0 && strings.HasSuffix(s, "}") {
		return s[i+1 : len(s)-1]
	}
	return s
}

func findIfCond(fd *ast.FuncDecl, contains string) string {
	out := ""
	if fd == nil {
		return out
	}
	ast.Inspect(fd.Body, func(n ast.Node) bool {
		if out != "" {
			return false
		}
		if is, ok := n.(*ast.IfStmt); ok {
			if s := exprText(is.Cond); strings.Contains(s, contains) {
				out = s
				return false
			}
		}
		return true
	})
	return out
}

// replaceSelector rewrites `x.Sel` into the identifier `name` inside e.
func replaceSelector(e ast.Expr, x, sel, name string) ast.Expr {
	switch v := e.(type) {
	case *ast.SelectorExpr:
		if id, ok := v.X.(*ast.Ident); ok && id.Name == x && v.Sel.Name == sel {
			return &ast.Ident{Name: name}
		}
	case *ast.BinaryExpr:
		return &ast.BinaryExpr{X: replaceSelector(v.X, x, sel, name), Op: v.Op, Y: replaceSelector(v.Y, x, sel, name)}
	case *ast.ParenExpr:
		return &ast.ParenExpr{X: replaceSelector(v.X, x, sel, name)}
	case *ast.CallExpr:
		args := make([]ast.Expr, len(v.Args))
		for i, a := range v.Args {
			args[i] = replaceSelector(a, x, sel, name)
		}
		return &ast.CallExpr{Fun: v.Fun, Args: args}
	}
	return e
}

func allIfConds(fd *ast.FuncDecl) []string {
	var out []string
	if fd == nil {
		return out
	}
	ast.Inspect(fd.Body, func(n ast.Node) bool {
		if is, ok := n.(*ast.IfStmt); ok {
			out = append(out, exprText(is.Cond))
		}
		return true
	})
	return out
}

func countLoops(fd *ast.FuncDecl) int {
	n := 0
	if fd == nil {
		return n
	}
	ast.Inspect(fd.Body, func(x ast.Node) bool {
		switch x.(type) {
		case *ast.ForStmt, *ast.RangeStmt:
			n++
		}
		return true
	})
	return n
}

// packageVarsUsed lists (sorted) the package-level variables (not constants, not functions) of the
// package in dir that fn references, directly or through the package's own functions it calls.
func packageVarsUsed(repo, dir, fn string) ([]string, error) {
	fset := token.NewFileSet()
	pkgs, err := parser.ParseDir(fset, filepath.Join(repo, dir), func(fi os.FileInfo) bool {
		return !strings.HasSuffix(fi.Name(), "_test.go")
	}, 0)
	if err != nil {
		return nil, err
	}
	vars := map[string]bool{}
	funcs := map[string]*ast.FuncDecl{}
	for _, pkg := range pkgs {
		for _, f := range pkg.Files {
			StripYields(f)
			for _, d := range f.Decls {
				switch x := d.(type) {
				case *ast.GenDecl:
					if x.Tok == token.VAR {
						for _, sp := range x.Specs {
							for _, n := range sp.(*ast.ValueSpec).Names {
								vars[n.Name] = true
							}
						}
					}
				case *ast.FuncDecl:
					if x.Recv == nil {
						funcs[x.Name.Name] = x
					}
				}
			}
		}
	}
	root, ok := funcs[fn]
	if !ok {
		return nil, fmt.Errorf("%s not found in %s", fn, dir)
	}
	used := map[string]bool{}
	seen := map[string]bool{}
	var visit func(fd *ast.FuncDecl)
	visit = func(fd *ast.FuncDecl) {
		if fd == nil || fd.Body == nil || seen[fd.Name.Name] {
			return
		}
		seen[fd.Name.Name] = true
		// names declared inside the function (params, results, :=, var) shadow package-level ones
		local := map[string]bool{}
		for _, fl := range [](*ast.FieldList){fd.Type.Params, fd.Type.Results} {
			if fl != nil {
				for _, f := range fl.List {
					for _, n := range f.Names {
						local[n.Name] = true
					}
				}
			}
		}
		ast.Inspect(fd.Body, func(n ast.Node) bool {
			switch x := n.(type) {
			case *ast.AssignStmt:
				if x.Tok == token.DEFINE {
					for _, l := range x.Lhs {
						if id, ok := l.(*ast.Ident); ok {
							local[id.Name] = true
						}
					}
				}
			case *ast.ValueSpec:
				for _, id := range x.Names {
					local[id.Name] = true
				}
			case *ast.RangeStmt:
				if x.Tok == token.DEFINE {
					for _, e := range []ast.Expr{x.Key, x.Value} {
						if id, ok := e.(*ast.Ident); ok {
							local[id.Name] = true
						}
					}
				}
			}
			return true
		})
		ast.Inspect(fd.Body, func(n ast.Node) bool {
			switch x := n.(type) {
			case *ast.SelectorExpr:
				// x.Sel is a field/method/imported name, only x.X can be a package-level variable
				ast.Inspect(x.X, func(m ast.Node) bool {
					if id, ok := m.(*ast.Ident); ok && vars[id.Name] && !local[id.Name] {
						used[id.Name] = true
					}
					return true
				})
				return false
			case *ast.Ident:
				if vars[x.Name] && !local[x.Name] {
					used[x.Name] = true
				}
				if callee, ok := funcs[x.Name]; ok && !local[x.Name] {
					visit(callee)
				}
			}
			return true
		})
	}
	visit(root)
	var out []string
	for n := range used {
		out = append(out, n)
	}
	sort.Strings(out)
	return out, nil
}

// assignsIn lists, in source order, the assignments ("lhs = rhs", "lhs op= rhs", "x++") and the
// deferred/plain call statements of a function body (nested blocks included, function literals too).
func assignsIn(fd *ast.FuncDecl, lhsPrefix string) []string {
	var out []string
	if fd == nil || fd.Body == nil {
		return out
	}
	ast.Inspect(fd.Body, func(n ast.Node) bool {
		switch x := n.(type) {
		case *ast.AssignStmt:
			for i, l := range x.Lhs {
				lt := exprText(l)
				if !strings.HasPrefix(lt, lhsPrefix) {
					continue
				}
				rt := ""
				if len(x.Rhs) == len(x.Lhs) {
					rt = exprText(x.Rhs[i])
				} else if len(x.Rhs) == 1 {
					rt = exprText(x.Rhs[0])
				}
				out = append(out, lt+" "+x.Tok.String()+" "+rt)
			}
		case *ast.IncDecStmt:
			if lt := exprText(x.X); strings.HasPrefix(lt, lhsPrefix) {
				out = append(out, lt+x.Tok.String())
			}
		}
		return true
	})
	return out
}

func c03StructFields(f *ast.File, name string) []string {
	var out []string
	for _, d := range f.Decls {
		gd, ok := d.(*ast.GenDecl)
		if !ok || gd.Tok != token.TYPE {
			continue
		}
		for _, sp := range gd.Specs {
			ts := sp.(*ast.TypeSpec)
			st, ok := ts.Type.(*ast.StructType)
			if !ok || ts.Name.Name != name {
				continue
			}
			for _, fl := range st.Fields.List {
				if len(fl.Names) == 0 {
					out = append(out, exprText(fl.Type))
				}
				for _, n := range fl.Names {
					out = append(out, n.Name)
				}
			}
		}
	}
	return out
}

// nodeText prints any AST node on one line.
func nodeText(n ast.Node) string {
	var b bytes.Buffer
	if err := printer.Fprint(&b, token.NewFileSet(), n); err != nil {
		return "<unprintable>"
	}
	return strings.Join(strings.Fields(b.String()), " ")
}

// loopExits lists the statements inside the for/range loops of fd that leave a loop early
// (break, continue, goto, return), in source order.
func loopExits(fd *ast.FuncDecl) []string {
	var out []string
	if fd == nil || fd.Body == nil {
		return out
	}
	var inLoop func(n ast.Node)
	inLoop = func(n ast.Node) {
		ast.Inspect(n, func(m ast.Node) bool {
			switch x := m.(type) {
			case *ast.BranchStmt:
				out = append(out, x.Tok.String())
			case *ast.ReturnStmt:
				out = append(out, "return")
			case *ast.FuncLit:
				return false
			}
			return true
		})
	}
	ast.Inspect(fd.Body, func(m ast.Node) bool {
		switch x := m.(type) {
		case *ast.ForStmt:
			inLoop(x.Body)
			return false
		case *ast.RangeStmt:
			inLoop(x.Body)
			return false
		}
		return true
	})
	return out
}

// deferredLiteralCalls lists the calls made inside `defer func() { ... }()` literals of fd.
func deferredLiteralCalls(fd *ast.FuncDecl) []string {
	var out []string
	if fd == nil || fd.Body == nil {
		return out
	}
	ast.Inspect(fd.Body, func(m ast.Node) bool {
		if d, ok := m.(*ast.DeferStmt); ok {
			if fl, ok := d.Call.Fun.(*ast.FuncLit); ok {
				out = append(out, CallSeq(&ast.FuncDecl{Name: ast.NewIdent("deferred"), Body: fl.Body})...)
			}
			return false
		}
		return true
	})
	return out
}

func methodsOf(f *ast.File, recv string) []string {
	var out []string
	for _, d := range f.Decls {
		fd, ok := d.(*ast.FuncDecl)
		if !ok || fd.Recv == nil || len(fd.Recv.List) != 1 {
			continue
		}
		t := fd.Recv.List[0].Type
		if s, ok := t.(*ast.StarExpr); ok {
			t = s.X
		}
		if id, ok := t.(*ast.Ident); ok && id.Name == recv {
			out = append(out, fd.Name.Name)
		}
	}
	return out
}

func genC03(repo string) (string, error) {
	var sb strings.Builder
	_, tf, err := ParseFile(repo, "series/field/type.go")
	if err != nil {
		return "", err
	}
	cs := ConstInts(tf)
	code := func(name string) (int64, error) {
		v, ok := cs[lastSel(name)]
		if !ok {
			return 0, fmt.Errorf("constant %s not found in series/field/type.go", name)
		}
		return v, nil
	}
	// constants
	for _, n := range []string{"SumField", "MinField", "MaxField", "LastField", "HistogramField", "FirstField"} {
		v, err := code(n)
		if err != nil {
			return "", err
		}
		fmt.Fprintf(&sb, "def %s : Nat := %d\n", strings.ToLower(n[:1])+n[1:], v)
	}
	for _, n := range []string{"Sum", "Count", "Min", "Max", "Last", "First"} {
		v, err := code(n)
		if err != nil {
			return "", err
		}
		fmt.Fprintf(&sb, "def agg%s : Nat := %d\n", n, v)
	}
	// Type.AggType(): field type code -> agg type code
	cases, deflt, err := switchTable(FindFunc(tf, "Type", "AggType"))
	if err != nil {
		return "", err
	}
	var rows []string
	for _, c := range cases {
		a, err := code(c[0])
		if err != nil {
			return "", err
		}
		b, err := code(c[1])
		if err != nil {
			return "", err
		}
		rows = append(rows, fmt.Sprintf("(%d, %d)", a, b))
	}
	fmt.Fprintf(&sb, "\n/-- `func (t Type) AggType() AggType`: (field type, aggregate type) per case, source order -/\n")
	fmt.Fprintf(&sb, "def fieldAggTable : List (Nat × Nat) := [%s]\n", strings.Join(rows, ", "))
	fmt.Fprintf(&sb, "def fieldAggDefault : String := %s\n", strconv.Quote(deflt))
	// AggType.Aggregate(a, b): agg type code -> returned expression
	cases, deflt, err = switchTable(FindFunc(tf, "AggType", "Aggregate"))
	if err != nil {
		return "", err
	}
	rows = rows[:0]
	for _, c := range cases {
		a, err := code(c[0])
		if err != nil {
			return "", err
		}
		rows = append(rows, fmt.Sprintf("(%d, %s)", a, strconv.Quote(c[1])))
	}
	fmt.Fprintf(&sb, "\n/-- `func (t AggType) Aggregate(a, b float64) float64`: returned expression per aggregate type -/\n")
	fmt.Fprintf(&sb, "def aggregateTable : List (Nat × String) := [%s]\n", strings.Join(rows, ", "))
	fmt.Fprintf(&sb, "def aggregateDefault : String := %s\n", strconv.Quote(deflt))
	// reader side: DownSamplingFunc() then GetFuncFieldParams(thatFunc) -> the aggregate a reader uses
	dsCases, _, err := switchTable(FindFunc(tf, "Type", "DownSamplingFunc"))
	if err != nil {
		return "", err
	}
	gpCases, _, err := switchTable(FindFunc(tf, "Type", "GetFuncFieldParams"))
	if err != nil {
		return "", err
	}
	rows = rows[:0]
	for _, c := range dsCases {
		ft, err := code(c[0])
		if err != nil {
			return "", err
		}
		fn := lastSel(c[1]) // e.g. Sum (function.Sum)
		var ret string
		for _, g := range gpCases {
			if g[0] != c[0] {
				continue
			}
			ret = g[1]
		}
		if strings.HasPrefix(ret, "getFieldParamsFor") {
			helper := ret[:strings.IndexByte(ret, '(')]
			hc, hd, err := switchTable(FindFunc(tf, "", helper))
			if err != nil {
				return "", err
			}
			ret = hd
			for _, h := range hc {
				if lastSel(h[0]) == fn {
					ret = h[1]
				}
			}
		}
		at, err := code(sliceElem(ret))
		if err != nil {
			return "", fmt.Errorf("reader aggregate of %s: %w", c[0], err)
		}
		rows = append(rows, fmt.Sprintf("(%d, %d)", ft, at))
	}
	fmt.Fprintf(&sb, "\n/-- the aggregate type a reader combines files with: `GetFuncFieldParams(DownSamplingFunc())` -/\n")
	fmt.Fprintf(&sb, "def readerAggTable : List (Nat × Nat) := [%s]\n", strings.Join(rows, ", "))

	// empty-slot marker conventions
	_, ds, err := ParseFile(repo, "aggregation/down_sampling_agg.go")
	if err != nil {
		return "", err
	}
	dcs := ConstInts(ds)
	if v, ok := dcs["infBlockSize"]; ok {
		fmt.Fprintf(&sb, "\ndef infBlockSize : Nat := %d\n", v)
	} else {
		return "", fmt.Errorf("infBlockSize not found")
	}
	fill := ""
	for _, d := range ds.Decls {
		if fd, ok := d.(*ast.FuncDecl); ok && fd.Name.Name == "init" {
			ast.Inspect(fd.Body, func(n ast.Node) bool {
				if as, ok := n.(*ast.AssignStmt); ok && len(as.Lhs) == 1 && len(as.Rhs) == 1 {
					if strings.HasPrefix(exprText(as.Lhs[0]), "infFilledBlock[") {
						fill = exprText(as.Rhs[0])
					}
				}
				return true
			})
		}
	}
	multi := FindFunc(ds, "", "DownSamplingMultiSeriesInto")
	fmt.Fprintf(&sb, "def emptyFill : String := %s\n", strconv.Quote(fill))
	fmt.Fprintf(&sb, "def mergeEmptyCheck : String := %s\n", strconv.Quote(findIfCond(multi, "IsInf")))
	fmt.Fprintf(&sb, "def mergeSkipCheck : String := %s\n", strconv.Quote(findIfCond(multi, "targetPos < ")))
	fmt.Fprintf(&sb, "def mergeBreakCheck : String := %s\n", strconv.Quote(findIfCond(multi, "targetPos >= ")))
	_, tsd, err := ParseFile(repo, "pkg/encoding/tsd.go")
	if err != nil {
		return "", err
	}
	fmt.Fprintf(&sb, "def emitEmptyCheck : String := %s\n", strconv.Quote(findIfCond(FindFunc(tsd, "TSDEncoder", "EmitDownSamplingValue"), "IsInf")))
	_, fa, err := ParseFile(repo, "aggregation/field_agg.go")
	if err != nil {
		return "", err
	}
	fmt.Fprintf(&sb, "def readerDropCheck : String := %s\n", strconv.Quote(findIfCond(FindFunc(fa, "fieldAggregator", "AggregateBySlot"), "IsInf")))
	// shared mutable state of the down-sampling merge (two merge jobs of different families may run at
	// the same time): package-level variables reachable from DownSamplingMultiSeriesInto
	pv, err := packageVarsUsed(repo, "aggregation", "DownSamplingMultiSeriesInto")
	if err != nil {
		return "", err
	}
	fmt.Fprintf(&sb, "\n/-- package-level variables `DownSamplingMultiSeriesInto` references, directly or through functions of\nits own package -/\n")
	fmt.Fprintf(&sb, "def downSamplingPackageVars : List String := %s\n", LeanStrList(pv))
	// target position formula
	tp := FindAssign(multi, "targetPos")
	if tp == nil {
		return "", fmt.Errorf("targetPos assignment not found")
	}
	tpDef, err := ExprDef(replaceSelector(tp, "target", "Start", "targetStart"), "targetPos",
		[]string{"bs", "movingSourceSlot", "ratio", "targetStart"}, nil, nil)
	if err != nil {
		return "", err
	}
	sb.WriteString("\n" + tpDef)
	lenE := FindAssign(multi, "length")
	if lenE == nil {
		return "", fmt.Errorf("length assignment not found")
	}
	fmt.Fprintf(&sb, "def targetLengthExpr : String := %s\n", strconv.Quote(exprText(lenE)))

	// merger: which range/ratio a compaction merge uses
	_, mg, err := ParseFile(repo, "tsdb/tblstore/metricsdata/merger.go")
	if err != nil {
		return "", err
	}
	prep := FindFunc(mg, "merger", "prepare")
	var elseAssigns []string
	if prep != nil {
		ast.Inspect(prep.Body, func(n ast.Node) bool {
			if is, ok := n.(*ast.IfStmt); ok && exprText(is.Cond) == "m.rollup != nil" {
				if eb, ok := is.Else.(*ast.BlockStmt); ok {
					for _, s := range eb.List {
						if as, ok := s.(*ast.AssignStmt); ok && len(as.Lhs) == 1 && len(as.Rhs) == 1 {
							elseAssigns = append(elseAssigns, exprText(as.Lhs[0])+" = "+exprText(as.Rhs[0]))
						}
					}
				}
			}
			return true
		})
	}
	fmt.Fprintf(&sb, "\n/-- assignments of `merger.prepare` when `m.rollup == nil` (compaction) -/\n")
	fmt.Fprintf(&sb, "def compactPrepare : List String := %s\n", LeanStrList(elseAssigns))
	fmt.Fprintf(&sb, "def firstBlockCheck : String := %s\n", strconv.Quote(findIfCond(prep, "len(ctx.targetFields)")))

	fmt.Fprintf(&sb, "def rangeStartCheck : String := %s\n", strconv.Quote(findIfCond(prep, "sourceRange.Start >")))
	fmt.Fprintf(&sb, "def rangeEndCheck : String := %s\n", strconv.Quote(findIfCond(prep, "sourceRange.End <")))

	// dataScanner: one container step per scan call; what nextContainer does with a zero-length bucket
	_, rd, err := ParseFile(repo, "tsdb/tblstore/metricsdata/reader.go")
	if err != nil {
		return "", err
	}
	scanFn := FindFunc(rd, "dataScanner", "scan")
	nextFn := FindFunc(rd, "dataScanner", "nextContainer")
	fmt.Fprintf(&sb, "\n/-- `dataScanner.scan`: the `if` conditions in source order -/\n")
	fmt.Fprintf(&sb, "def scanChecks : List String := %s\n", LeanStrList(allIfConds(scanFn)))
	fmt.Fprintf(&sb, "def scanLoops : Nat := %d\n", countLoops(scanFn))
	fmt.Fprintf(&sb, "def nextContainerChecks : List String := %s\n", LeanStrList(allIfConds(nextFn)))
	tolerates := false
	for _, c := range allIfConds(nextFn) {
		if c == "len(level3Block) == 0" {
			tolerates = true
		}
	}
	fmt.Fprintf(&sb, "/-- does `nextContainer` accept a zero-length series bucket (a container whose series were all\nflushed without field data) instead of failing on it? -/\n")
	fmt.Fprintf(&sb, "def scannerToleratesEmptyBucket : Bool := %v\n", tolerates)

	// the union of the series ids in prepare: a bitmap of its own, never one of the inputs' bitmaps
	unionBase := ""
	if prep != nil {
		ast.Inspect(prep.Body, func(n ast.Node) bool {
			if kv, ok := n.(*ast.KeyValueExpr); ok {
				if id, ok := kv.Key.(*ast.Ident); ok && id.Name == "seriesIDs" && unionBase == "" {
					unionBase = exprText(kv.Value)
				}
			}
			return true
		})
	}
	var unionCalls []string
	for _, cl := range CallSeq(prep) {
		if strings.HasPrefix(cl, "seriesIDs.") {
			unionCalls = append(unionCalls, cl)
		}
	}
	fmt.Fprintf(&sb, "\n/-- `merger.prepare`: what `ctx.seriesIDs` is initialised with, assignments to it afterwards, calls on it -/\n")
	fmt.Fprintf(&sb, "def unionBaseExpr : String := %s\n", strconv.Quote(unionBase))
	fmt.Fprintf(&sb, "def unionAssigns : List String := %s\n", LeanStrList(assignsIn(prep, "ctx.seriesIDs")))
	fmt.Fprintf(&sb, "def unionCalls : List String := %s\n", LeanStrList(unionCalls))

	// the decoder loop of DownSamplingMultiSeriesInto: one Value() right behind the has-value test
	var loopHeads []string
	valueCalls := 0
	if multi != nil {
		ast.Inspect(multi.Body, func(n ast.Node) bool {
			if ce, ok := n.(*ast.CallExpr); ok && exprText(ce.Fun) == "decoder.Value" {
				valueCalls++
			}
			if fs, ok := n.(*ast.ForStmt); ok && fs.Init != nil && loopHeads == nil {
				for _, st := range fs.Body.List {
					switch x := st.(type) {
					case *ast.IfStmt:
						loopHeads = append(loopHeads, "if "+exprText(x.Cond))
					case *ast.SwitchStmt:
						loopHeads = append(loopHeads, "switch")
					default:
						loopHeads = append(loopHeads, nodeText(st))
					}
				}
			}
			return true
		})
	}
	fmt.Fprintf(&sb, "\n/-- the loop over one decoder in `DownSamplingMultiSeriesInto`: its statements in order (an `if` by its\ncondition), and how many `decoder.Value()` calls the function contains -/\n")
	fmt.Fprintf(&sb, "def decoderLoopStmts : List String := %s\n", LeanStrList(loopHeads))
	fmt.Fprintf(&sb, "def decoderValueCalls : Nat := %d\n", valueCalls)

	// what survives a Merge call inside the merger, and the block writer's bookkeeping
	fmt.Fprintf(&sb, "\n/-- fields of `struct merger`, and the receiver fields `Merge`/`prepare` assign (state carried from one\nmetric to the next would show here) -/\n")
	fmt.Fprintf(&sb, "def mergerStructFields : List String := %s\n", LeanStrList(c03StructFields(mg, "merger")))
	fmt.Fprintf(&sb, "def mergerAssignsInMerge : List String := %s\n", LeanStrList(append(assignsIn(FindFunc(mg, "merger", "Merge"), "m."), assignsIn(prep, "m.")...)))
	_, sm, err := ParseFile(repo, "tsdb/tblstore/metricsdata/series_merger.go")
	if err != nil {
		return "", err
	}
	fmt.Fprintf(&sb, "def seriesMergerStructFields : List String := %s\n", LeanStrList(c03StructFields(sm, "seriesMerger")))
	fmt.Fprintf(&sb, "def seriesMergerAssigns : List String := %s\n", LeanStrList(assignsIn(FindFunc(sm, "seriesMerger", "merge"), "sm.")))
	_, fl, err := ParseFile(repo, "tsdb/tblstore/metricsdata/flusher.go")
	if err != nil {
		return "", err
	}
	fmt.Fprintf(&sb, "\n/-- the block writer's bookkeeping: assignments to its own state in `FlushSeries`, `flushField`,\n`flushLevel2SeriesBucket`, `PrepareMetric`, `reset` (source order), and the calls of `CommitMetric` -/\n")
	fmt.Fprintf(&sb, "def flushSeriesAssigns : List String := %s\n", LeanStrList(assignsIn(FindFunc(fl, "flusher", "FlushSeries"), "w.")))
	fmt.Fprintf(&sb, "def flushSeriesChecks : List String := %s\n", LeanStrList(allIfConds(FindFunc(fl, "flusher", "FlushSeries"))))
	fmt.Fprintf(&sb, "def flushSeriesCalls : List String := %s\n", LeanStrList(CallSeq(FindFunc(fl, "flusher", "FlushSeries"))))
	fmt.Fprintf(&sb, "def flushFieldAssigns : List String := %s\n", LeanStrList(append(assignsIn(FindFunc(fl, "flusher", "flushField"), "w."), assignsIn(FindFunc(fl, "flusher", "flushField"), "fieldDataAt")...)))
	fmt.Fprintf(&sb, "def flushFieldCalls : List String := %s\n", LeanStrList(CallSeq(FindFunc(fl, "flusher", "flushField"))))
	fmt.Fprintf(&sb, "def flushBucketAssigns : List String := %s\n", LeanStrList(assignsIn(FindFunc(fl, "flusher", "flushLevel2SeriesBucket"), "posOfLowKeyOffsets")))
	fmt.Fprintf(&sb, "def flushBucketChecks : List String := %s\n", LeanStrList(allIfConds(FindFunc(fl, "flusher", "flushLevel2SeriesBucket"))))
	fmt.Fprintf(&sb, "def prepareMetricAssigns : List String := %s\n", LeanStrList(assignsIn(FindFunc(fl, "flusher", "PrepareMetric"), "w.")))
	fmt.Fprintf(&sb, "def prepareMetricCalls : List String := %s\n", LeanStrList(CallSeq(FindFunc(fl, "flusher", "PrepareMetric"))))
	fmt.Fprintf(&sb, "def flusherResetAssigns : List String := %s\n", LeanStrList(assignsIn(FindFunc(fl, "flusher", "reset"), "w.")))
	fmt.Fprintf(&sb, "def flusherResetCalls : List String := %s\n", LeanStrList(CallSeq(FindFunc(fl, "flusher", "reset"))))
	cmCalls := CallSeq(FindFunc(fl, "flusher", "CommitMetric"))
	if len(cmCalls) > 3 {
		cmCalls = cmCalls[:3]
	}
	fmt.Fprintf(&sb, "def commitMetricFirstCalls : List String := %s\n", LeanStrList(cmCalls))

	// compaction job structure
	_, cj, err := ParseFile(repo, "kv/compact_job.go")
	if err != nil {
		return "", err
	}
	ms := methodsOf(cj, "compactFlusherStreamWriter")
	fmt.Fprintf(&sb, "\n/-- methods `compactFlusherStreamWriter` declares itself (all others go to the embedded writer of the FIRST builder) -/\n")
	fmt.Fprintf(&sb, "def streamWriterWrapperMethods : List String := %s\n", LeanStrList(ms))
	rebinds := false
	for _, m := range ms {
		if m == "Prepare" {
			rebinds = true
		}
	}
	fmt.Fprintf(&sb, "def streamWriterRebinds : Bool := %v\n", rebinds)
	fmt.Fprintf(&sb, "/-- `compactFlusherStreamWriter.Commit`: the key is registered with the table builder BEFORE `afterAdd` may\nfinish the output file; `Prepare`: the builder is (re)opened and the writer re-bound BEFORE the key is prepared -/\n")
	fmt.Fprintf(&sb, "def streamWriterCommitCalls : List String := %s\n", LeanStrList(CallSeq(FindFunc(cj, "compactFlusherStreamWriter", "Commit"))))
	fmt.Fprintf(&sb, "def streamWriterPrepareCalls : List String := %s\n", LeanStrList(CallSeq(FindFunc(cj, "compactFlusherStreamWriter", "Prepare"))))
	mc := FindFunc(cj, "compactJob", "mergeCompaction")
	var mcTail []string
	var mcResults []string
	if mc != nil {
		if mc.Type.Results != nil {
			for _, r := range mc.Type.Results.List {
				for _, n := range r.Names {
					mcResults = append(mcResults, n.Name)
				}
			}
		}
		seenDefer := false
		for _, st := range mc.Body.List {
			if _, ok := st.(*ast.DeferStmt); ok {
				seenDefer = true
				continue
			}
			if seenDefer {
				mcTail = append(mcTail, nodeText(st))
			}
		}
	}
	fmt.Fprintf(&sb, "/-- `compactJob.mergeCompaction`: named results, the calls of its deferred function literal (clean-up only),\nand its statements after the `defer` (install only after `doMerge` returned nil) -/\n")
	fmt.Fprintf(&sb, "def mergeCompactionResults : List String := %s\n", LeanStrList(mcResults))
	fmt.Fprintf(&sb, "def mergeCompactionDeferCalls : List String := %s\n", LeanStrList(deferredLiteralCalls(mc)))
	fmt.Fprintf(&sb, "def mergeCompactionTail : List String := %s\n", LeanStrList(mcTail))
	fmt.Fprintf(&sb, "def afterAddCheck : String := %s\n", strconv.Quote(findIfCond(FindFunc(cj, "compactFlusher", "afterAdd"), "maxFileSize")))
	fmt.Fprintf(&sb, "def doMergeCalls : List String := %s\n", LeanStrList(CallSeq(FindFunc(cj, "compactJob", "doMerge"))))
	fmt.Fprintf(&sb, "def installCalls : List String := %s\n", LeanStrList(CallSeq(FindFunc(cj, "compactJob", "installCompactionResults"))))
	// round 10: positional TSD decoders shared by the fields and series of one Merge call
	if _, tsdF, err := ParseFile(repo, "pkg/encoding/tsd.go"); err == nil {
		fmt.Fprintf(&sb, "/-- `TSDDecoder.HasValueWithSlot`: its if-tree (range test, then the position test with `idx++`); the statements of\n`ResetWithTimeRange`; `seriesMerger.merge`: its if-tree (a decoder is reset only under `len(fieldData) > 0`); `merger.Merge`: where\nthe decoder slice is allocated (once per call) -/\n")
		fmt.Fprintf(&sb, "def hasValueWithSlotIfTree : List String := %s\n", LeanStrList(ifTreeRet(FindFunc(tsdF, "TSDDecoder", "HasValueWithSlot"))))
		fmt.Fprintf(&sb, "def hasValueWithSlotStmts : List String := %s\n", LeanStrList(stmtHeads(FindFunc(tsdF, "TSDDecoder", "HasValueWithSlot"))))
		fmt.Fprintf(&sb, "def tsdResetAssigns : List String := %s\n", LeanStrList(assignsIn(FindFunc(tsdF, "TSDDecoder", "reset"), "d.idx")))
		fmt.Fprintf(&sb, "def resetWithTimeRangeStmts : List String := %s\n", LeanStrList(stmtHeads(FindFunc(tsdF, "TSDDecoder", "ResetWithTimeRange"))))
	}
	if _, smF, err := ParseFile(repo, "tsdb/tblstore/metricsdata/series_merger.go"); err == nil {
		fmt.Fprintf(&sb, "def seriesMergeIfTree : List String := %s\n", LeanStrList(ifTreeRet(FindFunc(smF, "seriesMerger", "merge"))))
		// round 12: the arm / consume discipline of the field loop of seriesMerger.merge
		body, leaves, armed := fieldLoopFacts(FindFunc(smF, "seriesMerger", "merge"))
		fmt.Fprintf(&sb, "/-- `seriesMerger.merge`, the loop over `mergeCtx.targetFields`: the top-level statements of its body; the statements\nthat leave an iteration of THAT loop or the function (`<index of the top-level statement>:<token>`; an unlabeled\n`continue`/`break` of a nested loop is not one); `everyArmIsConsumed`: the loop that calls `ResetWithTimeRange` comes before\nthe one call of `DownSamplingMultiSeriesInto`, both are top-level statements of the body, and nothing leaves the iteration\nfrom the arming loop up to that call -/\n")
		fmt.Fprintf(&sb, "def seriesMergeFieldLoopBody : List String := %s\n", LeanStrList(body))
		fmt.Fprintf(&sb, "def seriesMergeFieldLoopLeaves : List String := %s\n", LeanStrList(leaves))
		fmt.Fprintf(&sb, "def everyArmIsConsumed : Bool := %v\n", armed)
	}
	if _, mgF, err := ParseFile(repo, "tsdb/tblstore/metricsdata/merger.go"); err == nil {
		fmt.Fprintf(&sb, "def mergeDecoderAlloc : List String := %s\n", LeanStrList(filterContains(stmtHeads(FindFunc(mgF, "merger", "Merge")), "decodeStreams")))
	}
	// round 10: opening the inputs of a merge job (makeInputIterator) and the error propagation of doMerge
	mii := FindFunc(cj, "compactJob", "makeInputIterator")
	miiTree := ifTreeRet(mii)
	miiExits := loopExits(mii)
	fmt.Fprintf(&sb, "/-- `compactJob.makeInputIterator`: its if-tree, the statements that leave one of its loops early, its calls;\n`openErrorAborts`: the error branch of `GetReader` is `return nil, err` and nothing else leaves a loop (no input is skipped) -/\n")
	fmt.Fprintf(&sb, "def makeInputIteratorIfTree : List String := %s\n", LeanStrList(miiTree))
	fmt.Fprintf(&sb, "def makeInputIteratorLoopExits : List String := %s\n", LeanStrList(miiExits))
	fmt.Fprintf(&sb, "def makeInputIteratorCalls : List String := %s\n", LeanStrList(CallSeq(mii)))
	openAborts := len(miiExits) == 1 && miiExits[0] == "return" && len(miiTree) == 2 && miiTree[1] == "1:err != nil -> return nil, err"
	fmt.Fprintf(&sb, "def openErrorAborts : Bool := %v\n", openAborts)
	fmt.Fprintf(&sb, "/-- `compactJob.doMerge`: every `if` with the last statement of its body (each error is returned) -/\n")
	fmt.Fprintf(&sb, "def doMergeIfTree : List String := %s\n", LeanStrList(ifTreeRet(FindFunc(cj, "compactJob", "doMerge"))))
	_, vv, err := ParseFile(repo, "kv/version/version.go")
	if err != nil {
		return "", err
	}
	fmt.Fprintf(&sb, "def overlapSkipCheck : String := %s\n", strconv.Quote(findIfCond(FindFunc(vv, "version", "getOverlappingInputs"), "GetMaxKey")))
	fmt.Fprintf(&sb, "def findFilesCheck : String := %s\n", strconv.Quote(findIfCond(FindFunc(vv, "version", "FindFiles"), "GetMinKey")))
	ff := FindFunc(vv, "version", "FindFiles")
	fmt.Fprintf(&sb, "/-- `version.FindFiles`: statements that leave one of its loops early (a level is never cut short: the key\nranges of the files of a level may overlap), and its calls -/\n")
	fmt.Fprintf(&sb, "def findFilesLoopExits : List String := %s\n", LeanStrList(loopExits(ff)))
	fmt.Fprintf(&sb, "def findFilesCalls : List String := %s\n", LeanStrList(CallSeq(ff)))
	fmt.Fprintf(&sb, "def pickThresholdCheck : String := %s\n", strconv.Quote(findIfCond(FindFunc(vv, "version", "PickL0Compaction"), "compactThreshold")))
	_, vc, err := ParseFile(repo, "kv/version/compact.go")
	if err != nil {
		return "", err
	}
	mid := FindFunc(vc, "Compaction", "MarkInputDeletes")
	var midLoops []string
	if mid != nil {
		ast.Inspect(mid.Body, func(n ast.Node) bool {
			if rs, ok := n.(*ast.RangeStmt); ok {
				item := "range " + exprText(rs.X)
				ast.Inspect(rs.Body, func(m ast.Node) bool {
					if ce, ok := m.(*ast.CallExpr); ok {
						if strings.HasSuffix(exprText(ce.Fun), "editLog.Add") || strings.HasSuffix(exprText(ce.Fun), ".DeleteFile") {
							item += " -> " + exprText(ce)
						}
					}
					return true
				})
				midLoops = append(midLoops, item)
			}
			return true
		})
	}
	fmt.Fprintf(&sb, "/-- `Compaction.MarkInputDeletes`: per loop the ranged input list and the delete record it adds -/\n")
	fmt.Fprintf(&sb, "def markInputDeletesLoops : List String := %s\n", LeanStrList(midLoops))
	tm := FindFunc(vc, "Compaction", "IsTrivialMove")
	tmExpr := ""
	if tm != nil && len(tm.Body.List) == 1 {
		if r, ok := tm.Body.List[0].(*ast.ReturnStmt); ok && len(r.Results) == 1 {
			tmExpr = exprText(r.Results[0])
		}
	}
	fmt.Fprintf(&sb, "def trivialMoveExpr : String := %s\n", strconv.Quote(tmExpr))

	// ---- round 8: PickL0Compaction's level-1 input collection, GetFieldData's branch nesting, the
	// slot loop header of the down-sampling merge, the error branches of the merge read path
	pick := FindFunc(vv, "version", "PickL0Compaction")
	fmt.Fprintf(&sb, "\n/-- `PickL0Compaction`: how the level-1 inputs are collected (map creation, loops, map stores, appends; source order) -/\n")
	fmt.Fprintf(&sb, "def pickL0Steps : List String := %s\n", LeanStrList(collectSteps(pick)))
	_, fr, err := ParseFile(repo, "tsdb/tblstore/metricsdata/field_reader.go")
	if err != nil {
		return "", err
	}
	fmt.Fprintf(&sb, "/-- `fieldReader.GetFieldData` / `Reset` / `Close`: every `if` as depth:condition -> last statement of its body -/\n")
	fmt.Fprintf(&sb, "def getFieldDataIfs : List String := %s\n", LeanStrList(ifTreeRet(FindFunc(fr, "fieldReader", "GetFieldData"))))
	fmt.Fprintf(&sb, "def fieldReaderResetIfs : List String := %s\n", LeanStrList(ifTreeRet(FindFunc(fr, "fieldReader", "Reset"))))
	fmt.Fprintf(&sb, "def fieldReaderCloseAssigns : List String := %s\n", LeanStrList(assignsIn(FindFunc(fr, "fieldReader", "Close"), "r.")))
	smf := FindFunc(sm, "seriesMerger", "merge")
	fmt.Fprintf(&sb, "/-- `seriesMerger.merge`: the reader calls in source order (`GetFieldData` per target field, `Close` for every reader at the end) -/\n")
	var readerCalls []string
	for _, cl := range CallSeq(smf) {
		if strings.HasPrefix(cl, "reader.") {
			readerCalls = append(readerCalls, cl)
		}
	}
	fmt.Fprintf(&sb, "def seriesMergerReaderCalls : List String := %s\n", LeanStrList(readerCalls))
	fmt.Fprintf(&sb, "def mergeLoopIfs : List String := %s\n", LeanStrList(ifTreeRet(FindFunc(mg, "merger", "Merge"))))
	// the slot loop of DownSamplingMultiSeriesInto
	slotHeader, slotVarTy := "", ""
	if multi != nil {
		ast.Inspect(multi.Body, func(n ast.Node) bool {
			if fs, ok := n.(*ast.ForStmt); ok && fs.Init != nil && slotHeader == "" && strings.Contains(exprText(fs.Cond), "EndTime") {
				slotHeader = nodeText(fs.Init) + "; " + exprText(fs.Cond) + "; " + nodeText(fs.Post)
			}
			return true
		})
	}
	if st := FindFunc(tsd, "TSDDecoder", "StartTime"); st != nil && st.Type.Results != nil && len(st.Type.Results.List) == 1 {
		slotVarTy = exprText(st.Type.Results.List[0].Type)
	}
	wraps := strings.HasPrefix(slotHeader, "movingSourceSlot := decoder.StartTime();") && slotVarTy == "uint16"
	fmt.Fprintf(&sb, "\n/-- the loop over the slots of one decoder in `DownSamplingMultiSeriesInto`: header, the type `StartTime()`\nreturns (= type of the loop variable when it is initialised from it), and whether the loop variable is a `uint16` -/\n")
	fmt.Fprintf(&sb, "def slotLoopHeader : String := %s\n", strconv.Quote(slotHeader))
	fmt.Fprintf(&sb, "def slotLoopStartType : String := %s\n", strconv.Quote(slotVarTy))
	fmt.Fprintf(&sb, "def slotLoopWraps : Bool := %v\n", wraps)
	// error branches of the merge read path
	fmt.Fprintf(&sb, "\n/-- error branches of the merge read path: `nextContainer` (top-level statements, an `if` with the last\nstatement of its body), `scan`, `newDataScanner`, `prepare`, `Merge` (every `if` as depth:condition -> last statement) -/\n")
	fmt.Fprintf(&sb, "def nextContainerStmts : List String := %s\n", LeanStrList(stmtHeads(FindFunc(rd, "dataScanner", "nextContainer"))))
	fmt.Fprintf(&sb, "def scanIfs : List String := %s\n", LeanStrList(ifTreeRet(scanFn)))
	fmt.Fprintf(&sb, "def newDataScannerIfs : List String := %s\n", LeanStrList(ifTreeRet(FindFunc(rd, "", "newDataScanner"))))
	fmt.Fprintf(&sb, "def prepareErrIfs : List String := %s\n", LeanStrList(filterContains(ifTreeRet(prep), "err")))
	fmt.Fprintf(&sb, "def initReaderIfs : List String := %s\n", LeanStrList(ifTreeRet(FindFunc(rd, "metricReader", "initReader"))))
	_ = token.NoPos
	return sb.String(), nil
}

// retText prints a statement for the if-tree facts: a `return` with call results abbreviated to `f(..)`,
// any other statement by its (shortened) text.
func retText(st ast.Stmt) string {
	if r, ok := st.(*ast.ReturnStmt); ok {
		var parts []string
		for _, e := range r.Results {
			if ce, ok := e.(*ast.CallExpr); ok {
				parts = append(parts, exprText(ce.Fun)+"(..)")
			} else {
				parts = append(parts, exprText(e))
			}
		}
		if len(parts) == 0 {
			return "return"
		}
		return "return " + strings.Join(parts, ", ")
	}
	return short(nodeText(st))
}

// headText prints a top-level statement: a short assignment `lhs := ..` for long right-hand sides.
func headText(st ast.Stmt) string {
	t := nodeText(st)
	if as, ok := st.(*ast.AssignStmt); ok && len(t) > 44 {
		var l []string
		for _, e := range as.Lhs {
			l = append(l, exprText(e))
		}
		return strings.Join(l, ", ") + " " + as.Tok.String() + " .."
	}
	return short(t)
}

// short cuts a long statement text (error messages etc.) to its first 60 characters.
func short(t string) string {
	if len(t) > 60 {
		return t[:60]
	}
	return t
}

// ifTreeRet lists every `if` of fd in source order as "<depth>:<init; cond> -> <last statement of its body>".
func ifTreeRet(fd *ast.FuncDecl) []string {
	var out []string
	if fd == nil || fd.Body == nil {
		return out
	}
	var walk func(n ast.Node, depth int)
	walk = func(n ast.Node, depth int) {
		ast.Inspect(n, func(m ast.Node) bool {
			if m == nil || m == n {
				return true
			}
			if is, ok := m.(*ast.IfStmt); ok {
				cond := exprText(is.Cond)
				if is.Init != nil {
					cond = nodeText(is.Init) + "; " + cond
				}
				last := ""
				if len(is.Body.List) > 0 {
					last = retText(is.Body.List[len(is.Body.List)-1])
					if _, nested := is.Body.List[len(is.Body.List)-1].(*ast.IfStmt); nested {
						last = "if"
					}
					if _, nested := is.Body.List[len(is.Body.List)-1].(*ast.ForStmt); nested {
						last = "for"
					}
				}
				out = append(out, fmt.Sprintf("%d:%s -> %s", depth, cond, last))
				walk(is.Body, depth+1)
				if is.Else != nil {
					out = append(out, fmt.Sprintf("%d:else", depth))
					walk(is.Else, depth+1)
				}
				return false
			}
			return true
		})
	}
	walk(fd.Body, 0)
	return out
}

// stmtHeads lists the top-level statements of fd; an `if` as "if <cond> -> <last statement of its body>".
func stmtHeads(fd *ast.FuncDecl) []string {
	var out []string
	if fd == nil || fd.Body == nil {
		return out
	}
	for _, st := range fd.Body.List {
		if is, ok := st.(*ast.IfStmt); ok {
			cond := exprText(is.Cond)
			if is.Init != nil {
				cond = nodeText(is.Init) + "; " + cond
			}
			last := ""
			if len(is.Body.List) > 0 {
				last = retText(is.Body.List[len(is.Body.List)-1])
			}
			out = append(out, "if "+cond+" -> "+last)
			continue
		}
		out = append(out, headText(st))
	}
	return out
}

func filterContains(xs []string, sub string) []string {
	var out []string
	for _, x := range xs {
		if strings.Contains(x, sub) {
			out = append(out, x)
		}
	}
	return out
}

// collectSteps lists, in source order, the map creations, range loops, map stores and appends of fd.
func collectSteps(fd *ast.FuncDecl) []string {
	var out []string
	if fd == nil || fd.Body == nil {
		return out
	}
	ast.Inspect(fd.Body, func(n ast.Node) bool {
		switch x := n.(type) {
		case *ast.RangeStmt:
			out = append(out, "range "+exprText(x.X))
		case *ast.AssignStmt:
			if len(x.Lhs) == 1 && len(x.Rhs) == 1 {
				if ix, ok := x.Lhs[0].(*ast.IndexExpr); ok {
					out = append(out, "store "+exprText(ix)+" = "+exprText(x.Rhs[0]))
				}
				if ce, ok := x.Rhs[0].(*ast.CallExpr); ok {
					switch exprText(ce.Fun) {
					case "make":
						out = append(out, "make "+exprText(x.Lhs[0])+" "+exprText(ce.Args[0]))
					case "append":
						out = append(out, "append "+exprText(ce))
					}
				}
			}
		}
		return true
	})
	return out
}

// fieldLoopFacts reads the loop over mergeCtx.targetFields in seriesMerger.merge: the heads of the top-level statements
// of its body, the statements that leave an iteration of that loop (or the function) as "<stmt index>:<token>", and
// whether every iteration that arms decoders (ResetWithTimeRange) reaches the single DownSamplingMultiSeriesInto call.
func fieldLoopFacts(fd *ast.FuncDecl) (body, leaves []string, armConsumed bool) {
	body, leaves = []string{}, []string{}
	if fd == nil || fd.Body == nil {
		return
	}
	var loop *ast.RangeStmt
	for _, st := range fd.Body.List {
		if r, ok := st.(*ast.RangeStmt); ok && strings.HasSuffix(exprText(r.X), "targetFields") {
			loop = r
			break
		}
	}
	if loop == nil {
		return
	}
	containsCall := func(n ast.Node, name string) int {
		k := 0
		ast.Inspect(n, func(m ast.Node) bool {
			if ce, ok := m.(*ast.CallExpr); ok && lastSel(exprText(ce.Fun)) == name {
				k++
			}
			return true
		})
		return k
	}
	armAt, consumeAt, arms, consumes := -1, -1, 0, containsCall(fd.Body, "DownSamplingMultiSeriesInto")
	for i, st := range loop.Body.List {
		switch x := st.(type) {
		case *ast.RangeStmt:
			body = append(body, "range "+exprText(x.X))
		case *ast.ForStmt:
			body = append(body, "for")
		case *ast.IfStmt:
			cond := exprText(x.Cond)
			if x.Init != nil {
				cond = nodeText(x.Init) + "; " + cond
			}
			last := ""
			if len(x.Body.List) > 0 {
				last = retText(x.Body.List[len(x.Body.List)-1])
			}
			body = append(body, "if "+cond+" -> "+last)
		default:
			body = append(body, headText(st))
		}
		if containsCall(st, "ResetWithTimeRange") > 0 {
			arms++
			if _, isLoop := st.(*ast.RangeStmt); isLoop && armAt < 0 {
				armAt = i
			}
		}
		if es, ok := st.(*ast.ExprStmt); ok && containsCall(es, "DownSamplingMultiSeriesInto") == 1 && consumeAt < 0 {
			consumeAt = i
		}
		// statements leaving the iteration: depth counts the nested loops / switches / selects we are inside
		var walk func(n ast.Node, nested int)
		walk = func(n ast.Node, nested int) {
			ast.Inspect(n, func(m ast.Node) bool {
				if m == nil || m == n {
					return true
				}
				switch y := m.(type) {
				case *ast.FuncLit:
					return false
				case *ast.ForStmt:
					walk(y.Body, nested+1)
					return false
				case *ast.RangeStmt:
					walk(y.Body, nested+1)
					return false
				case *ast.ReturnStmt:
					leaves = append(leaves, fmt.Sprintf("%d:return", i))
				case *ast.BranchStmt:
					if y.Label != nil || y.Tok == token.GOTO || nested == 0 {
						leaves = append(leaves, fmt.Sprintf("%d:%s", i, y.Tok.String()))
					}
				}
				return true
			})
		}
		switch x := st.(type) {
		case *ast.RangeStmt:
			walk(x.Body, 1)
		case *ast.ForStmt:
			walk(x.Body, 1)
		default:
			walk(st, 0)
		}
	}
	armConsumed = armAt >= 0 && consumeAt > armAt && arms == 1 && consumes == 1
	if armConsumed {
		for _, l := range leaves {
			var k int
			var tok string
			if _, err := fmt.Sscanf(strings.Replace(l, ":", " ", 1), "%d %s", &k, &tok); err == nil && k >= armAt && k < consumeAt {
				armConsumed = false
			}
		}
	}
	return
}
