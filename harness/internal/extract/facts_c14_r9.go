package extract

import (
	"fmt"
	"go/ast"
	"strings"
)

// Round 9 (C14): what a decoder's re-arming method does to the RECEIVER before its first validation.

// stmtShapeQ is stmtShape with qualified assignment targets: a selector on the receiver is "field:<name>",
// anything else "local:<name>"; `if` statements, calls and returns as in stmtShape. It tells
// `d.size = 0` (the object is changed) from `size := …` (a local is).
func stmtShapeQ(list []ast.Stmt, recv string) []string {
	var out []string
	for _, st := range list {
		switch x := st.(type) {
		case *ast.AssignStmt:
			for _, l := range x.Lhs {
				if se, ok := l.(*ast.SelectorExpr); ok {
					if id, ok := se.X.(*ast.Ident); ok && id.Name == recv {
						out = append(out, "field:"+se.Sel.Name)
						continue
					}
				}
				out = append(out, "local:"+exprName(l))
			}
		case *ast.ExprStmt:
			if ce, ok := x.X.(*ast.CallExpr); ok {
				out = append(out, "call:"+exprName(ce.Fun))
			} else {
				out = append(out, "stmt")
			}
		case *ast.ReturnStmt:
			out = append(out, "return")
		case *ast.IfStmt:
			out = append(out, "if{")
			out = append(out, stmtShapeQ(x.Body.List, recv)...)
			switch e := x.Else.(type) {
			case *ast.BlockStmt:
				out = append(out, "}else{")
				out = append(out, stmtShapeQ(e.List, recv)...)
			case *ast.IfStmt:
				out = append(out, "}else{")
				out = append(out, stmtShapeQ([]ast.Stmt{e}, recv)...)
			}
			out = append(out, "}")
		default:
			out = append(out, "stmt")
		}
	}
	return out
}

// recvName returns the receiver identifier of a method ("" if none / unnamed).
func recvName(fd *ast.FuncDecl) string {
	if fd.Recv == nil || len(fd.Recv.List) == 0 || len(fd.Recv.List[0].Names) == 0 {
		return ""
	}
	return fd.Recv.List[0].Names[0].Name
}

// structFieldNames lists the field names of `type <name> struct {…}` in source order.
func structFieldNames(f *ast.File, name string) ([]string, error) {
	for _, d := range f.Decls {
		gd, ok := d.(*ast.GenDecl)
		if !ok {
			continue
		}
		for _, sp := range gd.Specs {
			ts, ok := sp.(*ast.TypeSpec)
			if !ok || ts.Name.Name != name {
				continue
			}
			st, ok := ts.Type.(*ast.StructType)
			if !ok {
				return nil, fmt.Errorf("type %s is not a struct", name)
			}
			var out []string
			for _, fl := range st.Fields.List {
				if len(fl.Names) == 0 {
					out = append(out, "embedded:"+exprName(fl.Type))
				}
				for _, n := range fl.Names {
					out = append(out, n.Name)
				}
			}
			return out, nil
		}
	}
	return nil, fmt.Errorf("type %s not found", name)
}

// c14Round9Facts: appended to Generated/C14.lean by the C14 fact generator.
func c14Round9Facts(fo, sr *ast.File) (string, error) {
	var sb strings.Builder
	fd := FindFunc(fo, "FixedOffsetDecoder", "Unmarshal")
	if fd == nil {
		return "", fmt.Errorf("FixedOffsetDecoder.Unmarshal not found")
	}
	fields, err := structFieldNames(fo, "FixedOffsetDecoder")
	if err != nil {
		return "", err
	}
	sb.WriteString("\n/-- fields of `FixedOffsetDecoder`, in source order -/\n")
	sb.WriteString("def fixedOffsetDecoderStructFields : List String := " + LeanStrList(fields) + "\n")
	sb.WriteString("/-- statement shape of `FixedOffsetDecoder.Unmarshal`: `field:<f>` = assignment to a receiver field, `local:<v>` = to a local,\n`if{ … }` with the shape of its body, `return`, in source order -/\n")
	sb.WriteString("def fixedOffsetDecoderUnmarshalShape : List String := " + LeanStrList(stmtShapeQ(fd.Body.List, recvName(fd))) + "\n")
	rf := FindFunc(sr, "Reader", "Reset")
	if rf == nil {
		return "", fmt.Errorf("stream Reader.Reset not found")
	}
	sfields, err := structFieldNames(sr, "Reader")
	if err != nil {
		return "", err
	}
	sb.WriteString("/-- fields of `stream.Reader` and the statement shape of `Reader.Reset(buf)` -/\n")
	sb.WriteString("def streamReaderStructFields : List String := " + LeanStrList(sfields) + "\n")
	sb.WriteString("def streamReaderResetShape : List String := " + LeanStrList(stmtShapeQ(rf.Body.List, recvName(rf))) + "\n")
	return sb.String(), nil
}
