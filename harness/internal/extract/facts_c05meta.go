package extract

import (
	"fmt"
	"go/ast"
	"go/types"
	"strings"
)

// C05Meta: the writers of the queue's meta page (appended / acknowledged sequence, in memory and
// in the mapped page) as instruction lists WITH their lock regions, re-read from
// pkg/queue/queue.go on every run: Put (persistMetaOfMessage inlined at its call site),
// SetAppendedSeq, SetAcknowledgedSeq, and initSequence (what NewQueue reads back).
//
// Tokens, in program order of the straight path:
//   lock / unlock            q.rwMutex.Lock() / Unlock() (a deferred Unlock is the last token)
//   rlock / runlock          any other rwMutex call (the model does not know them: no decode)
//   loc:=<src>               a local assigned from the in-memory sequences
//   mem.app:=<src>           q.appendedSeq.Store(..)        mem.ack:=<src>   q.acknowledgedSeq.Store(..)
//   disk.app:=<src>          q.metaPage.PutUint64(.., queueAppendedSeqOffset)   disk.ack:=<src> likewise
//   sync                     q.metaPage.Sync()
//   if[<cond>]:<n>           an if whose condition reads the sequences; the next n tokens are its body
// <src> is arg (a parameter of the entry function), loc (the local), mem.app, mem.ack, mem.app+1,
// disk.app, disk.ack, or ?<text> for anything else.
func init() {
	Register(Fact{Module: "C05Meta", Gen: func(repo string) (string, error) {
		_, qf, err := ParseFile(repo, "pkg/queue/queue.go")
		if err != nil {
			return "", err
		}
		var sb strings.Builder
		sb.WriteString("-- writers of the meta page with their lock regions (pkg/queue/queue.go)\n")
		sb.WriteString("def metaWriters : List (String × List String) := [\n")
		names := []string{"Put", "SetAppendedSeq", "SetAcknowledgedSeq", "initSequence"}
		for i, n := range names {
			fd := FindFunc(qf, "queue", n)
			var toks []string
			if fd == nil || fd.Body == nil {
				toks = []string{"?missing"}
			} else {
				w := &c05MetaWalker{file: qf, recv: c05Recv(fd), params: c05ParamSet(fd), locals: map[string]bool{}}
				w.block(fd.Body.List, 0)
				toks = append(w.out, w.deferred...)
			}
			sep := ","
			if i == len(names)-1 {
				sep = ""
			}
			fmt.Fprintf(&sb, "  (%q, %s)%s\n", n, LeanStrList(toks), sep)
		}
		sb.WriteString("]\n")
		return sb.String(), nil
	}})
}

func c05ParamSet(fd *ast.FuncDecl) map[string]bool {
	m := map[string]bool{}
	if fd.Type.Params != nil {
		for _, f := range fd.Type.Params.List {
			for _, n := range f.Names {
				m[n.Name] = true
			}
		}
	}
	return m
}

type c05MetaWalker struct {
	file     *ast.File
	recv     string
	params   map[string]bool // parameters of the ENTRY function: "arg"
	locals   map[string]bool // locals assigned from the sequences: "loc"
	out      []string
	deferred []string
}

// recvField returns the field name if e is <recv>.<field>
func (w *c05MetaWalker) recvField(e ast.Expr) (string, bool) {
	se, ok := e.(*ast.SelectorExpr)
	if !ok {
		return "", false
	}
	id, ok := se.X.(*ast.Ident)
	if !ok || id.Name != w.recv {
		return "", false
	}
	return se.Sel.Name, true
}

// fieldCall matches <recv>.<field>.<method>(args)
func (w *c05MetaWalker) fieldCall(e ast.Expr) (field, method string, args []ast.Expr, ok bool) {
	c, ok := e.(*ast.CallExpr)
	if !ok {
		return
	}
	se, ok2 := c.Fun.(*ast.SelectorExpr)
	if !ok2 {
		return "", "", nil, false
	}
	f, ok3 := w.recvField(se.X)
	if !ok3 {
		return "", "", nil, false
	}
	return f, se.Sel.Name, c.Args, true
}

func (w *c05MetaWalker) src(e ast.Expr) string {
	for {
		if p, ok := e.(*ast.ParenExpr); ok {
			e = p.X
			continue
		}
		if c, ok := e.(*ast.CallExpr); ok && len(c.Args) == 1 {
			if id, ok := c.Fun.(*ast.Ident); ok && (id.Name == "uint64" || id.Name == "int64" || id.Name == "int") {
				e = c.Args[0]
				continue
			}
		}
		break
	}
	if id, ok := e.(*ast.Ident); ok {
		switch {
		case w.locals[id.Name]:
			return "loc"
		case w.params[id.Name]:
			return "arg"
		}
	}
	if f, m, args, ok := w.fieldCall(e); ok {
		switch {
		case f == "appendedSeq" && m == "Load":
			return "mem.app"
		case f == "acknowledgedSeq" && m == "Load":
			return "mem.ack"
		case f == "metaPage" && m == "ReadUint64" && len(args) == 1:
			switch types.ExprString(args[0]) {
			case "queueAppendedSeqOffset":
				return "disk.app"
			case "queueAcknowledgedSeqOffset":
				return "disk.ack"
			}
		}
	}
	if b, ok := e.(*ast.BinaryExpr); ok && b.Op.String() == "+" {
		if l, ok := b.Y.(*ast.BasicLit); ok && l.Value == "1" && w.src(b.X) == "mem.app" {
			return "mem.app+1"
		}
	}
	return "?" + types.ExprString(e)
}

func (w *c05MetaWalker) readsSeqs(e ast.Node) bool {
	r := false
	ast.Inspect(e, func(n ast.Node) bool {
		if se, ok := n.(*ast.SelectorExpr); ok {
			if f, ok := w.recvField(se); ok && (f == "appendedSeq" || f == "acknowledgedSeq") {
				r = true
			}
		}
		return true
	})
	return r
}

// cond renders a condition over the sequences with canonical operand names
func (w *c05MetaWalker) cond(e ast.Expr) string {
	switch x := e.(type) {
	case *ast.ParenExpr:
		return "(" + w.cond(x.X) + ")"
	case *ast.BinaryExpr:
		switch x.Op.String() {
		case "&&", "||":
			return w.cond(x.X) + " " + x.Op.String() + " " + w.cond(x.Y)
		}
		return w.src(x.X) + " " + x.Op.String() + " " + w.src(x.Y)
	}
	return w.src(e)
}

func (w *c05MetaWalker) call(c *ast.CallExpr, depth int) {
	// nested calls in the arguments first (none of the tokens nests in practice)
	if f, m, args, ok := w.fieldCall(c); ok {
		switch {
		case f == "rwMutex" && m == "Lock":
			w.out = append(w.out, "lock")
		case f == "rwMutex" && m == "Unlock":
			w.out = append(w.out, "unlock")
		case f == "rwMutex":
			w.out = append(w.out, strings.ToLower(m))
		case f == "appendedSeq" && m == "Store" && len(args) == 1:
			w.out = append(w.out, "mem.app:="+w.src(args[0]))
		case f == "acknowledgedSeq" && m == "Store" && len(args) == 1:
			w.out = append(w.out, "mem.ack:="+w.src(args[0]))
		case f == "metaPage" && m == "PutUint64" && len(args) == 2:
			switch types.ExprString(args[1]) {
			case "queueAppendedSeqOffset":
				w.out = append(w.out, "disk.app:="+w.src(args[0]))
			case "queueAcknowledgedSeqOffset":
				w.out = append(w.out, "disk.ack:="+w.src(args[0]))
			default:
				w.out = append(w.out, "disk.?"+types.ExprString(args[1])+":="+w.src(args[0]))
			}
		case f == "metaPage" && m == "Sync":
			w.out = append(w.out, "sync")
		}
		return
	}
	// a call of another method of the receiver that touches the meta state is inlined
	if se, ok := c.Fun.(*ast.SelectorExpr); ok {
		if id, ok := se.X.(*ast.Ident); ok && id.Name == w.recv && depth < 3 {
			callee := FindFunc(w.file, "queue", se.Sel.Name)
			if callee != nil && callee.Body != nil && c05TouchesMeta(callee) {
				saveRecv, saveLocals := w.recv, w.locals
				w.recv, w.locals = c05Recv(callee), map[string]bool{}
				saveParams := w.params
				w.params = map[string]bool{} // the callee's parameters are not sequence arguments of the entry
				for i, a := range c.Args {
					// a parameter that receives the entry's argument / local keeps its meaning
					names := c05ParamNames(callee)
					if i < len(names) {
						if aid, ok := a.(*ast.Ident); ok {
							if saveParams[aid.Name] {
								w.params[names[i]] = true
							}
							if saveLocals[aid.Name] {
								w.locals[names[i]] = true
							}
						}
					}
				}
				w.block(callee.Body.List, depth+1)
				w.recv, w.locals, w.params = saveRecv, saveLocals, saveParams
			}
		}
	}
}

func c05ParamNames(fd *ast.FuncDecl) []string {
	var out []string
	if fd.Type.Params != nil {
		for _, f := range fd.Type.Params.List {
			for _, n := range f.Names {
				out = append(out, n.Name)
			}
		}
	}
	return out
}

func c05TouchesMeta(fd *ast.FuncDecl) bool {
	r := false
	ast.Inspect(fd.Body, func(n ast.Node) bool {
		if se, ok := n.(*ast.SelectorExpr); ok {
			if se.Sel.Name == "Store" || se.Sel.Name == "PutUint64" {
				if in, ok := se.X.(*ast.SelectorExpr); ok {
					switch in.Sel.Name {
					case "appendedSeq", "acknowledgedSeq", "metaPage":
						r = true
					}
				}
			}
		}
		return true
	})
	return r
}

// exprCalls emits the tokens of every call inside an expression, innermost first
func (w *c05MetaWalker) exprCalls(e ast.Node, depth int) {
	if e == nil {
		return
	}
	ast.Inspect(e, func(n ast.Node) bool {
		switch x := n.(type) {
		case *ast.FuncLit:
			return false
		case *ast.CallExpr:
			for _, a := range x.Args {
				w.exprCalls(a, depth)
			}
			// loads are sources, not tokens
			if _, m, _, ok := w.fieldCall(x); ok && (m == "Load" || m == "ReadUint64") {
				return false
			}
			w.call(x, depth)
			return false
		}
		return true
	})
}

func (w *c05MetaWalker) block(stmts []ast.Stmt, depth int) {
	for _, st := range stmts {
		switch x := st.(type) {
		case *ast.DeferStmt:
			save := w.out
			w.out = nil
			w.call(x.Call, depth)
			w.deferred = append(w.out, w.deferred...)
			w.out = save
		case *ast.AssignStmt:
			if len(x.Lhs) == 1 && len(x.Rhs) == 1 {
				if id, ok := x.Lhs[0].(*ast.Ident); ok && w.readsSeqs(x.Rhs[0]) {
					w.out = append(w.out, "loc:="+w.src(x.Rhs[0]))
					w.locals[id.Name] = true
					continue
				}
			}
			for _, r := range x.Rhs {
				w.exprCalls(r, depth)
			}
		case *ast.IfStmt:
			if x.Init != nil {
				w.block([]ast.Stmt{x.Init}, depth)
			}
			save := w.out
			w.out = nil
			w.block(x.Body.List, depth)
			body := w.out
			w.out = save
			switch {
			case w.readsSeqs(x.Cond):
				w.out = append(w.out, fmt.Sprintf("if[%s]:%d", w.cond(x.Cond), len(body)))
				w.out = append(w.out, body...)
			case len(body) > 0:
				w.out = append(w.out, fmt.Sprintf("if[?%s]:%d", types.ExprString(x.Cond), len(body)))
				w.out = append(w.out, body...)
			}
			if x.Else != nil {
				save := w.out
				w.out = nil
				switch e := x.Else.(type) {
				case *ast.BlockStmt:
					w.block(e.List, depth)
				default:
					w.block([]ast.Stmt{e}, depth)
				}
				eb := w.out
				w.out = save
				if len(eb) > 0 {
					w.out = append(w.out, fmt.Sprintf("else:%d", len(eb)))
					w.out = append(w.out, eb...)
				}
			}
		case *ast.BlockStmt:
			w.block(x.List, depth)
		case *ast.ForStmt:
			save := w.out
			w.out = nil
			w.block(x.Body.List, depth)
			body := w.out
			w.out = save
			if len(body) > 0 {
				w.out = append(w.out, fmt.Sprintf("for:%d", len(body)))
				w.out = append(w.out, body...)
			}
		case *ast.GoStmt:
			save := w.out
			w.out = nil
			w.exprCalls(x.Call, depth)
			if fl, ok := x.Call.Fun.(*ast.FuncLit); ok {
				w.block(fl.Body.List, depth)
			}
			body := w.out
			w.out = save
			if len(body) > 0 {
				w.out = append(w.out, fmt.Sprintf("go:%d", len(body)))
				w.out = append(w.out, body...)
			}
		default:
			w.exprCalls(st, depth)
		}
	}
}
