package extract

import (
	"fmt"
	"go/ast"
	"go/token"
	"go/types"
	"strings"
)

// C08: the comparisons, index formulas and call orders of the replication handshake
// (replica/replicator_remote.go IsReady / Replica / Connect), of the follower's handler
// (app/storage/rpc/replica.go, replica/partition.go ReplicaLog) and of the queue / consumer
// group operations they rest on. Conditions become Lean `Bool` functions over `Int`; Go
// sub-expressions that are not plain identifiers are first renamed to parameters.

// c08Rename rebuilds e with every sub-expression whose source text is a key of ren replaced
// by the identifier ren[text].
func c08Rename(e ast.Expr, ren map[string]string) ast.Expr {
	if n, ok := ren[types.ExprString(e)]; ok {
		return ast.NewIdent(n)
	}
	switch x := e.(type) {
	case *ast.BinaryExpr:
		return &ast.BinaryExpr{X: c08Rename(x.X, ren), Op: x.Op, Y: c08Rename(x.Y, ren)}
	case *ast.ParenExpr:
		return &ast.ParenExpr{X: c08Rename(x.X, ren)}
	case *ast.UnaryExpr:
		return &ast.UnaryExpr{Op: x.Op, X: c08Rename(x.X, ren)}
	}
	return e
}

// c08IfConds lists the conditions of all if statements and switch-case clauses (tagless
// switch) of fd in source order.
func c08IfConds(fd *ast.FuncDecl) []ast.Expr {
	var out []ast.Expr
	if fd == nil || fd.Body == nil {
		return nil
	}
	ast.Inspect(fd.Body, func(n ast.Node) bool {
		switch x := n.(type) {
		case *ast.FuncLit:
			return false
		case *ast.IfStmt:
			out = append(out, x.Cond)
		case *ast.CaseClause:
			out = append(out, x.List...)
		}
		return true
	})
	return out
}

// c08CondWith returns the first condition of fd whose source text contains all of subs.
func c08CondWith(fd *ast.FuncDecl, subs ...string) ast.Expr {
next:
	for _, c := range c08IfConds(fd) {
		s := types.ExprString(c)
		for _, sub := range subs {
			if !strings.Contains(s, sub) {
				continue next
			}
		}
		return c
	}
	return nil
}

// c08CallArg returns argument i of the first call in fd whose function text ends in suffix.
func c08CallArg(fd *ast.FuncDecl, suffix string, i int) ast.Expr {
	var out ast.Expr
	if fd == nil || fd.Body == nil {
		return nil
	}
	ast.Inspect(fd.Body, func(n ast.Node) bool {
		if out != nil {
			return false
		}
		if c, ok := n.(*ast.CallExpr); ok && strings.HasSuffix(types.ExprString(c.Fun), suffix) && i < len(c.Args) {
			out = c.Args[i]
			return false
		}
		return true
	})
	return out
}

// c08Return returns the single result of the first return statement of fd.
func c08Return(fd *ast.FuncDecl) ast.Expr {
	var out ast.Expr
	if fd == nil || fd.Body == nil {
		return nil
	}
	ast.Inspect(fd.Body, func(n ast.Node) bool {
		if out != nil {
			return false
		}
		if r, ok := n.(*ast.ReturnStmt); ok && len(r.Results) == 1 {
			out = r.Results[0]
			return false
		}
		return true
	})
	return out
}

// c08Assigns lists `lhs = rhs` texts of the assignments in fd whose lhs text starts with prefix.
func c08Assigns(fd *ast.FuncDecl, prefix string) []string {
	var out []string
	if fd == nil || fd.Body == nil {
		return nil
	}
	ast.Inspect(fd.Body, func(n ast.Node) bool {
		if as, ok := n.(*ast.AssignStmt); ok && len(as.Lhs) == 1 && len(as.Rhs) == 1 {
			l := types.ExprString(as.Lhs[0])
			if strings.HasPrefix(l, prefix) {
				out = append(out, l+" "+as.Tok.String()+" "+types.ExprString(as.Rhs[0]))
			}
		}
		return true
	})
	return out
}

func init() {
	Register(Fact{Module: "C08", Gen: func(repo string) (string, error) {
		var sb strings.Builder
		parse := func(rel string) (*ast.File, error) {
			_, f, err := ParseFile(repo, rel)
			return f, err
		}
		rr, err := parse("replica/replicator_remote.go")
		if err != nil {
			return "", err
		}
		rp, err := parse("replica/replicator.go")
		if err != nil {
			return "", err
		}
		pt, err := parse("replica/partition.go")
		if err != nil {
			return "", err
		}
		hd, err := parse("app/storage/rpc/replica.go")
		if err != nil {
			return "", err
		}
		cg, err := parse("pkg/queue/consumer_group.go")
		if err != nil {
			return "", err
		}
		qu, err := parse("pkg/queue/queue.go")
		if err != nil {
			return "", err
		}
		fq, err := parse("pkg/queue/fanout_queue.go")
		if err != nil {
			return "", err
		}
		cond := func(e ast.Expr, name string, params []string, ren map[string]string) error {
			if e == nil {
				return fmt.Errorf("%s: condition not found", name)
			}
			s, err := CondDef(c08Rename(e, ren), name, params, nil)
			if err != nil {
				return err
			}
			sb.WriteString(s + "\n")
			return nil
		}
		expr := func(e ast.Expr, name string, params []string, ren map[string]string) error {
			if e == nil {
				return fmt.Errorf("%s: expression not found", name)
			}
			s, err := ExprDef(c08Rename(e, ren), name, params, nil, nil)
			if err != nil {
				return err
			}
			sb.WriteString(s + "\n")
			return nil
		}

		// ---- leader: remoteReplicator.IsReady
		isReady := FindFunc(rr, "remoteReplicator", "IsReady")
		if err := expr(FindAssign(isReady, "nextReplicaIdx"), "nextReplicaIdx", []string{"remoteLastReplicaAckIdx"}, nil); err != nil {
			return "", err
		}
		if err := expr(FindAssign(isReady, "needResetReplicaIdx"), "needResetReplicaIdx", []string{"smallestAckIdx"}, nil); err != nil {
			return "", err
		}
		if err := cond(c08CondWith(isReady, "nextReplicaIdx == localReplicaIdx"), "readyEqCond", []string{"nextReplicaIdx", "localReplicaIdx"}, nil); err != nil {
			return "", err
		}
		if err := cond(c08CondWith(isReady, "smallestAckIdx"), "behindCond", []string{"remoteLastReplicaAckIdx", "smallestAckIdx"}, nil); err != nil {
			return "", err
		}
		ahead := c08CondWith(isReady, "appendIdx")
		if err := cond(ahead, "aheadCond", []string{"remoteLastReplicaAckIdx", "nextReplicaIdx", "appendIdx"}, nil); err != nil {
			return "", err
		}
		// which of the two known shapes the guard of ResetAppendIndex has
		fixed := ""
		if b, ok := ahead.(*ast.BinaryExpr); ok {
			x, y := types.ExprString(b.X), types.ExprString(b.Y)
			switch {
			case b.Op == token.GTR && x == "remoteLastReplicaAckIdx" && y == "appendIdx":
				fixed = "false"
			case b.Op == token.GTR && x == "nextReplicaIdx" && y == "appendIdx",
				b.Op == token.GEQ && x == "remoteLastReplicaAckIdx" && y == "appendIdx":
				fixed = "true"
			}
		}
		if fixed == "" {
			return "", fmt.Errorf("IsReady: guard of ResetAppendIndex has an unknown shape: %s", types.ExprString(ahead))
		}
		sb.WriteString("def aheadFixed : Bool := " + fixed + "\n\n")
		if err := cond(c08CondWith(isReady, "newLocalReplicaIdx"), "doubleCheckCond", []string{"newLocalReplicaIdx", "nextReplicaIdx"}, nil); err != nil {
			return "", err
		}
		sb.WriteString("def isReadyCalls : List String := " + LeanStrList(c08Calls(isReady)) + "\n\n")
		sb.WriteString("def isReadyResetArgs : List String := " + LeanStrList([]string{
			c08Text(c08CallArg(isReady, "r.ResetReplicaIndex", 0)), c08Text(c08CallArg(isReady, "r.ResetAppendIndex", 0)),
			c08Text(c08CallArg(isReady, "r.SetAckIndex", 0)), c08KeyValue(isReady, "AppendIndex")}) + "\n\n")

		// ---- leader: Replica / Connect / partition.replica
		replica := FindFunc(rr, "remoteReplicator", "Replica")
		ackIf, ackCmp := c08AckIf(replica)
		if err := cond(ackCmp, "ackCond", []string{"ackIndex", "replicaIndex"},
			map[string]string{"resp.AckIndex": "ackIndex", "resp.ReplicaIndex": "replicaIndex"}); err != nil {
			return "", err
		}
		// shape of the treatment of an answer that does not acknowledge the sent index: does the else
		// branch store ReplicatorFailureState (forcing a new handshake), and is resp.Err looked at
		mfail, errChecked := "false", "false"
		if ackIf != nil {
			if strings.Contains(types.ExprString(ackIf.Cond), "resp.Err") {
				errChecked = "true"
			}
			if ackIf.Else != nil {
				ast.Inspect(ackIf.Else, func(n ast.Node) bool {
					if c, ok := n.(*ast.CallExpr); ok && strings.HasSuffix(types.ExprString(c.Fun), "state.Store") && len(c.Args) == 1 {
						ast.Inspect(c.Args[0], func(m ast.Node) bool { // (ExprString elides composite literals)
							if id, ok := m.(*ast.Ident); ok && id.Name == "ReplicatorFailureState" {
								mfail = "true"
							}
							return true
						})
					}
					return true
				})
			}
		}
		sb.WriteString("def mismatchSetsFailure : Bool := " + mfail + "\n")
		sb.WriteString("def respErrChecked : Bool := " + errChecked + "\n\n")
		sb.WriteString("def replicaCalls : List String := " + LeanStrList(c08Calls(replica)) + "\n")
		// handleNodeStateChangeEvent: its tests, and whether the wake-up is a plain (blocking) channel send
		onl := FindFunc(rr, "remoteReplicator", "handleNodeStateChangeEvent")
		sb.WriteString("def onlineHandlerConds : List String := " + LeanStrList(c08CondTexts(onl)) + "\n")
		sb.WriteString("def onlineHandlerSends : List String := " + LeanStrList(c08Sends(onl)) + "\n")
		wk := "false"
		if ss := c08Sends(onl); len(ss) == 1 && ss[0] == "plain: r.suspend <- struct{}{}" {
			wk = "true"
		}
		sb.WriteString("def wakeSendBlocking : Bool := " + wk + "\n")
		sb.WriteString("def isReadyRecvs : List String := " + LeanStrList(c08Recvs(isReady)) + "\n")
		// the suspend / wake-up handshake: the channel the constructor makes (capacity), and the loop's program in
		// IsReady's follower-offline branch (every call, receive and the recursion, in source order)
		mk := c08KeyValue(FindFunc(rr, "", "NewRemoteReplicator"), "suspend")
		sb.WriteString("def suspendChanMake : String := " + fmt.Sprintf("%q", mk) + "\n")
		buffered := "true"
		if mk == "suspend: make(chan struct{})" {
			buffered = "false"
		}
		sb.WriteString("def suspendChanBuffered : Bool := " + buffered + "\n")
		sb.WriteString("def offlineBranchSteps : List String := " + LeanStrList(c08OfflineBranch(isReady)) + "\n")
		sb.WriteString("def replicaAckArg : String := " + fmt.Sprintf("%q", c08Text(c08CallArg(replica, "r.SetAckIndex", 0))) + "\n")
		sb.WriteString("def connectCalls : List String := " + LeanStrList(c08Calls(FindFunc(rr, "remoteReplicator", "Connect"))) + "\n")
		sb.WriteString("def partitionReplicaCalls : List String := " + LeanStrList(c08Calls(FindFunc(pt, "partition", "replica"))) + "\n\n")

		// ---- leader: replicator accessors
		if err := expr(c08Return(FindFunc(rp, "replicator", "ReplicaIndex")), "replicaIndexOf", []string{"consumedSeq"},
			map[string]string{"r.channel.ConsumerGroup.ConsumedSeq()": "consumedSeq"}); err != nil {
			return "", err
		}
		if err := expr(c08Return(FindFunc(rp, "replicator", "AppendIndex")), "appendIndexOf", []string{"appendedSeq"},
			map[string]string{"r.channel.ConsumerGroup.Queue().Queue().AppendedSeq()": "appendedSeq"}); err != nil {
			return "", err
		}
		if err := expr(c08CallArg(FindFunc(rp, "replicator", "ResetReplicaIndex"), "SetConsumedSeq", 0), "resetReplicaSeq", []string{"idx"}, nil); err != nil {
			return "", err
		}
		if err := expr(c08CallArg(FindFunc(rp, "replicator", "ResetAppendIndex"), "SetAppendedSeq", 0), "resetAppendSeq", []string{"idx"}, nil); err != nil {
			return "", err
		}
		if err := cond(c08CondWith(FindFunc(rp, "replicator", "IgnoreMessage"), "currentAck"), "ignoreCond", []string{"currentAck", "replicaIdx"}, nil); err != nil {
			return "", err
		}

		// ---- follower: partition.ReplicaLog / ReplicaAckIndex / ResetReplicaIndex, handler loop
		rl := FindFunc(pt, "partition", "ReplicaLog")
		if err := expr(FindAssign(rl, "appendIdx"), "followerAppendIdx", []string{"appendedSeq"},
			map[string]string{"p.log.Queue().AppendedSeq()": "appendedSeq"}); err != nil {
			return "", err
		}
		if err := cond(c08CondWith(rl, "replicaIdx"), "replicaLogSkipCond", []string{"replicaIdx", "appendIdx"}, nil); err != nil {
			return "", err
		}
		sb.WriteString("def replicaLogCalls : List String := " + LeanStrList(c08Calls(rl)) + "\n")
		// every return tuple of ReplicaLog in source order, and the index it reports when Put failed
		sb.WriteString("def replicaLogReturns : List String := " + LeanStrList(c08ReturnTexts(rl)) + "\n")
		if err := expr(c08PutFailResult(rl), "replicaLogPutFailAck", []string{"appendIdx"}, nil); err != nil {
			return "", err
		}
		sb.WriteString("def buildReplicaCalls : List String := " + LeanStrList(c08Calls(FindFunc(pt, "partition", "buildReplica"))) + "\n")
		sb.WriteString("def replicaAckIndexReturn : String := " + fmt.Sprintf("%q", c08Text(c08Return(FindFunc(pt, "partition", "ReplicaAckIndex")))) + "\n")
		if err := expr(c08CallArg(FindFunc(pt, "partition", "ResetReplicaIndex"), "SetAppendedSeq", 0), "followerResetSeq", []string{"idx"}, nil); err != nil {
			return "", err
		}
		hr := FindFunc(hd, "ReplicaHandler", "Replica")
		sb.WriteString("def handlerAssigns : List String := " + LeanStrList(c08Assigns(hr, "resp.")) + "\n")
		// the stream handler's branch conditions and calls (a closed partition is answered, never healed), and
		// partition.recovery's (every consumer group of the log gets its channel back, unconditionally)
		sb.WriteString("def handlerConds : List String := " + LeanStrList(c08CondTexts(hr)) + "\n")
		sb.WriteString("def handlerCalls : List String := " + LeanStrList(c08Calls(hr)) + "\n")
		rec := FindFunc(pt, "partition", "recovery")
		sb.WriteString("def recoveryConds : List String := " + LeanStrList(c08CondTexts(rec)) + "\n")
		sb.WriteString("def recoveryCalls : List String := " + LeanStrList(c08Calls(rec)) + "\n")
		// which of its two copy-on-write maps buildReplica / stopReplicator test and publish
		br, sr := FindFunc(pt, "partition", "buildReplica"), FindFunc(pt, "partition", "stopReplicator")
		sb.WriteString("def buildReplicaExistsMaps : List String := " + LeanStrList(c08CommaOkMaps(br)) + "\n")
		sb.WriteString("def buildReplicaPublishes : List String := " + LeanStrList(c08FieldAssigns(br, "p")) + "\n")
		sb.WriteString("def stopReplicatorExistsMaps : List String := " + LeanStrList(c08CommaOkMaps(sr)) + "\n")
		sb.WriteString("def stopReplicatorPublishes : List String := " + LeanStrList(c08FieldAssigns(sr, "p")) + "\n")
		// where the replica service client (a stub bound to one pooled connection) is created, and where the
		// stream is dropped: "<function>[ if <enclosing conditions>]"
		sb.WriteString("def createClientSites : List String := " + LeanStrList(c08CallSites(rr, "CreateReplicaServiceClient")) + "\n")
		sb.WriteString("def closeStreamSites : List String := " + LeanStrList(c08CallSites(rr, "closeStream")) + "\n")
		sb.WriteString("def closeStreamConds : List String := " + LeanStrList(c08CondTexts(FindFunc(rr, "remoteReplicator", "closeStream"))) + "\n")
		sb.WriteString("def handlerReplicaLogArgs : List String := " + LeanStrList([]string{
			c08Text(c08CallArg(hr, "p.ReplicaLog", 0)), c08Text(c08CallArg(hr, "p.ReplicaLog", 1))}) + "\n")
		sb.WriteString("def handlerResetArg : String := " + fmt.Sprintf("%q", c08Text(c08CallArg(FindFunc(hd, "ReplicaHandler", "Reset"), "p.ResetReplicaIndex", 0))) + "\n\n")

		// ---- consumer group / queue / fan-out queue
		if err := cond(c08CondWith(FindFunc(cg, "consumerGroup", "Ack"), "ackSeq"), "groupAckCond", []string{"ackSeq", "ts", "hs"}, nil); err != nil {
			return "", err
		}
		if err := cond(c08CondWith(FindFunc(cg, "consumerGroup", "consume"), "headSeq"), "consumeCond", []string{"headSeq", "appendedSeq"},
			map[string]string{"f.q.Queue().AppendedSeq()": "appendedSeq"}); err != nil {
			return "", err
		}
		if err := cond(c08CondWith(FindFunc(cg, "", "NewConsumerGroup"), "ackOfQueue"), "reopenLiftCond", []string{"ackSeq", "ackOfQueue"}, nil); err != nil {
			return "", err
		}
		if err := cond(c08CondWith(FindFunc(qu, "queue", "validateSequence"), "sequence"), "getRejectCond", []string{"sequence", "appendedSeq", "acknowledgedSeq"},
			map[string]string{"q.appendedSeq.Load()": "appendedSeq", "q.acknowledgedSeq.Load()": "acknowledgedSeq"}); err != nil {
			return "", err
		}
		if err := cond(c08CondWith(FindFunc(qu, "queue", "SetAcknowledgedSeq"), "seq"), "setAckCond", []string{"seq", "appendedSeq", "acknowledgedSeq"},
			map[string]string{"q.appendedSeq.Load()": "appendedSeq", "q.acknowledgedSeq.Load()": "acknowledgedSeq"}); err != nil {
			return "", err
		}
		sb.WriteString("def queueSetAppendedStores : List String := " + LeanStrList(c08StoreArgs(FindFunc(qu, "queue", "SetAppendedSeq"))) + "\n")
		sb.WriteString("def groupSetSeqStores : List String := " + LeanStrList(c08StoreArgs(FindFunc(cg, "consumerGroup", "SetSeq"))) + "\n")
		sb.WriteString("def fanoutSetAppendedCalls : List String := " + LeanStrList(c08Calls(FindFunc(fq, "fanOutQueue", "SetAppendedSeq"))) + "\n")
		sync := FindFunc(fq, "fanOutQueue", "Sync")
		if err := cond(c08CondWith(sync, "ts < ackSeq"), "syncMinCond", []string{"ts", "ackSeq"}, nil); err != nil {
			return "", err
		}
		if err := cond(c08CondWith(sync, "ackSeq >= 0"), "syncApplyCond", []string{"ackSeq"}, nil); err != nil {
			return "", err
		}
		isExpire := FindFunc(pt, "partition", "IsExpire")
		sb.WriteString("def isExpireCalls : List String := " + LeanStrList(c08Calls(isExpire)) + "\n")
		// every branch condition, as source text: an added or changed test re-opens the tie
		sb.WriteString("def isExpireConds : List String := " + LeanStrList(c08CondTexts(isExpire)) + "\n")
		sb.WriteString("def syncConds : List String := " + LeanStrList(c08CondTexts(sync)) + "\n")
		sb.WriteString("def isReadyConds : List String := " + LeanStrList(c08CondTexts(isReady)) + "\n")
		sb.WriteString("def replicaConds : List String := " + LeanStrList(c08CondTexts(replica)) + "\n")
		sb.WriteString("def partitionReplicaConds : List String := " + LeanStrList(c08CondTexts(FindFunc(pt, "partition", "replica"))) + "\n")
		sb.WriteString("def replicaLogConds : List String := " + LeanStrList(c08CondTexts(rl)) + "\n")
		sb.WriteString("def stopReplicatorCalls : List String := " + LeanStrList(c08Calls(FindFunc(pt, "partition", "stopReplicator"))) + "\n")
		sb.WriteString("def fanoutStopGroupCalls : List String := " + LeanStrList(c08Calls(FindFunc(fq, "fanOutQueue", "StopConsumerGroup"))) + "\n\n")
		if err := cond(c08ReturnExpr(FindFunc(cg, "consumerGroup", "IsEmpty")), "isEmptyCond", []string{"qh", "ackSeq"},
			map[string]string{"f.AcknowledgedSeq()": "ackSeq"}); err != nil {
			return "", err
		}
		ncg := FindFunc(cg, "", "NewConsumerGroup")
		if err := cond(c08CondWith(ncg, "consumedSeq < ackSeq"), "reopenConsumedCond", []string{"consumedSeq", "ackSeq"}, nil); err != nil {
			return "", err
		}
		sb.WriteString("def newGroupAssigns : List String := " + LeanStrList(append(c08Assigns(ncg, "ackSeq"), c08Assigns(ncg, "consumedSeq")...)) + "\n")
		// round 12: IsReady's handshake as ONE regenerated decision tree (facts_c08_plan.go)
		plan, err := c08HandshakePlan(isReady)
		if err != nil {
			return "", err
		}
		sb.WriteString(plan)
		rplan, err := c08ReplicaPlan(replica)
		if err != nil {
			return "", err
		}
		sb.WriteString(rplan)
		// round 13: the critical section of writeAheadLog.GetOrCreatePartition (facts_c08_wal.go)
		wal, err := c08WalFacts(repo)
		if err != nil {
			return "", err
		}
		sb.WriteString(wal)
		return sb.String(), nil
	}})
}

// c08CondTexts lists the source text of every if / case condition of fd in source order.
func c08CondTexts(fd *ast.FuncDecl) []string {
	var out []string
	for _, c := range c08IfConds(fd) {
		out = append(out, types.ExprString(c))
	}
	return out
}

// c08ReturnExpr returns the single result of the LAST return statement of fd.
func c08ReturnExpr(fd *ast.FuncDecl) ast.Expr {
	var out ast.Expr
	if fd == nil || fd.Body == nil {
		return nil
	}
	ast.Inspect(fd.Body, func(n ast.Node) bool {
		if r, ok := n.(*ast.ReturnStmt); ok && len(r.Results) == 1 {
			out = r.Results[0]
		}
		return true
	})
	return out
}

// c08ReturnTexts lists the result tuples of every return statement of fd in source order.
func c08ReturnTexts(fd *ast.FuncDecl) []string {
	var out []string
	if fd == nil || fd.Body == nil {
		return nil
	}
	ast.Inspect(fd.Body, func(n ast.Node) bool {
		if r, ok := n.(*ast.ReturnStmt); ok {
			var parts []string
			for _, e := range r.Results {
				parts = append(parts, types.ExprString(e))
			}
			out = append(out, strings.Join(parts, ", "))
		}
		return true
	})
	return out
}

// c08PutFailResult returns the first result of the return inside `if err := ...Put(...); err != nil { ... }`.
func c08PutFailResult(fd *ast.FuncDecl) ast.Expr {
	var out ast.Expr
	if fd == nil || fd.Body == nil {
		return nil
	}
	ast.Inspect(fd.Body, func(n ast.Node) bool {
		is, ok := n.(*ast.IfStmt)
		if !ok || is.Init == nil || out != nil {
			return true
		}
		as, ok := is.Init.(*ast.AssignStmt)
		if !ok || len(as.Rhs) != 1 || !strings.HasSuffix(types.ExprString(as.Rhs[0]), ".Put(msg)") {
			return true
		}
		for _, st := range is.Body.List {
			if r, ok := st.(*ast.ReturnStmt); ok && len(r.Results) == 2 {
				out = r.Results[0]
			}
		}
		return true
	})
	return out
}

// c08AckIf returns the if statement of fd whose condition contains the comparison
// `resp.AckIndex == resp.ReplicaIndex`, and that comparison.
func c08AckIf(fd *ast.FuncDecl) (*ast.IfStmt, ast.Expr) {
	var st *ast.IfStmt
	var cmp ast.Expr
	if fd == nil || fd.Body == nil {
		return nil, nil
	}
	ast.Inspect(fd.Body, func(n ast.Node) bool {
		is, ok := n.(*ast.IfStmt)
		if !ok || st != nil {
			return true
		}
		ast.Inspect(is.Cond, func(m ast.Node) bool {
			if b, ok := m.(*ast.BinaryExpr); ok && b.Op == token.EQL && types.ExprString(b) == "resp.AckIndex == resp.ReplicaIndex" {
				st, cmp = is, b
			}
			return true
		})
		return true
	})
	return st, cmp
}

// c08Sends lists the channel sends of fd: "plain: <stmt>" for a send statement executed on its own,
// "select: <stmt>" (+ "/default" when the select has a default clause) for one that is a select case.
func c08Sends(fd *ast.FuncDecl) []string {
	var out []string
	if fd == nil || fd.Body == nil {
		return nil
	}
	inSelect := map[*ast.SendStmt]string{}
	ast.Inspect(fd.Body, func(n ast.Node) bool {
		if sel, ok := n.(*ast.SelectStmt); ok {
			def := ""
			for _, c := range sel.Body.List {
				if cc, ok := c.(*ast.CommClause); ok && cc.Comm == nil {
					def = "/default"
				}
			}
			for _, c := range sel.Body.List {
				if cc, ok := c.(*ast.CommClause); ok {
					if snd, ok := cc.Comm.(*ast.SendStmt); ok {
						inSelect[snd] = "select" + def
					}
				}
			}
		}
		return true
	})
	ast.Inspect(fd.Body, func(n ast.Node) bool {
		if snd, ok := n.(*ast.SendStmt); ok {
			kind := "plain"
			if k, ok := inSelect[snd]; ok {
				kind = k
			}
			out = append(out, kind+": "+types.ExprString(snd.Chan)+" <- "+c08Lit(snd.Value))
		}
		return true
	})
	return out
}

func c08Lit(e ast.Expr) string {
	if cl, ok := e.(*ast.CompositeLit); ok && len(cl.Elts) == 0 {
		return types.ExprString(cl.Type) + "{}"
	}
	return types.ExprString(e)
}

// c08Recvs lists the channel receive expressions (`<-ch`) of fd in source order.
func c08Recvs(fd *ast.FuncDecl) []string {
	var out []string
	if fd == nil || fd.Body == nil {
		return nil
	}
	ast.Inspect(fd.Body, func(n ast.Node) bool {
		if u, ok := n.(*ast.UnaryExpr); ok && u.Op == token.ARROW {
			out = append(out, "<-"+types.ExprString(u.X))
		}
		return true
	})
	return out
}

// c08OfflineBranch lists, in source order, what the body of IsReady's `if !ok {` (follower not live) does:
// calls (receiver chain shortened to its last two names), channel receives, if-conditions; logging,
// statistics and the verif yield points are left out.
func c08OfflineBranch(fd *ast.FuncDecl) []string {
	var out []string
	if fd == nil || fd.Body == nil {
		return nil
	}
	var body *ast.BlockStmt
	ast.Inspect(fd.Body, func(n ast.Node) bool {
		if is, ok := n.(*ast.IfStmt); ok && body == nil && types.ExprString(is.Cond) == "!ok" {
			body = is.Body
			return false
		}
		return true
	})
	if body == nil {
		return []string{"<missing>"}
	}
	ast.Inspect(body, func(n ast.Node) bool {
		switch x := n.(type) {
		case *ast.IfStmt:
			out = append(out, "if "+types.ExprString(x.Cond))
		case *ast.UnaryExpr:
			if x.Op == token.ARROW {
				out = append(out, "<-"+types.ExprString(x.X))
			}
		case *ast.SendStmt:
			out = append(out, "send "+types.ExprString(x.Chan))
		case *ast.CallExpr:
			f := types.ExprString(x.Fun)
			switch {
			case strings.Contains(f, "logger."), f == "verifhook.Yield", strings.HasSuffix(f, ".Incr"), strings.HasSuffix(f, ".String"):
				return true
			case strings.HasSuffix(f, "isSuspend.CompareAndSwap"):
				return true // already listed as the if-condition
			}
			if strings.HasSuffix(f, "isSuspend.Store") && len(x.Args) == 1 { // the token shape clears the flag after the receive: with its argument
				f += "(" + types.ExprString(x.Args[0]) + ")"
			}
			out = append(out, "call "+f)
		}
		return true
	})
	return out
}

// c08Calls = CallSeq without logging/statistics/lock noise (those are not modelled).
func c08Calls(fd *ast.FuncDecl) []string {
	var out []string
	for _, c := range CallSeq(fd) {
		switch {
		case strings.HasPrefix(c, "logger."), strings.Contains(c, "logger."), c == "verifhook.Yield", strings.HasSuffix(c, ".Incr"), strings.HasSuffix(c, ".Add"),
			strings.HasSuffix(c, ".Lock"), strings.HasSuffix(c, ".Unlock"), strings.HasSuffix(c, ".RLock"), strings.HasSuffix(c, ".RUnlock"),
			strings.HasSuffix(c, ".String"), strings.HasSuffix(c, ".Error"), c == "int32", c == "float64", c == "len", c == "string",
			strings.HasSuffix(c, ".Warn"), strings.HasSuffix(c, ".Info"), strings.HasSuffix(c, ".Debug"), strings.HasSuffix(c, "λ:recover"):
			continue
		}
		out = append(out, c)
	}
	return out
}

func c08Head(xs []string, n int) []string {
	if len(xs) > n {
		return xs[:n]
	}
	return xs
}

func c08Text(e ast.Expr) string {
	if e == nil {
		return "<missing>"
	}
	return types.ExprString(e)
}

// c08KeyValue returns "Key: value" of the first composite-literal field named key in fd.
func c08KeyValue(fd *ast.FuncDecl, key string) string {
	out := "<missing>"
	if fd == nil || fd.Body == nil {
		return out
	}
	ast.Inspect(fd.Body, func(n ast.Node) bool {
		if kv, ok := n.(*ast.KeyValueExpr); ok {
			if id, ok := kv.Key.(*ast.Ident); ok && id.Name == key && out == "<missing>" {
				out = key + ": " + types.ExprString(kv.Value)
			}
		}
		return true
	})
	return out
}

// c08StoreArgs lists "<field>.Store(<arg>)" for the atomic stores of fd in source order.
func c08StoreArgs(fd *ast.FuncDecl) []string {
	var out []string
	if fd == nil || fd.Body == nil {
		return nil
	}
	ast.Inspect(fd.Body, func(n ast.Node) bool {
		if c, ok := n.(*ast.CallExpr); ok {
			if se, ok := c.Fun.(*ast.SelectorExpr); ok && se.Sel.Name == "Store" && len(c.Args) == 1 {
				out = append(out, lastIdent(se.X)+".Store("+types.ExprString(c.Args[0])+")")
			}
		}
		return true
	})
	return out
}

// c08CommaOkMaps lists the map expression of every `_, ok := m[k]` / `v, ok := m[k]` in fd, in source order.
func c08CommaOkMaps(fd *ast.FuncDecl) []string {
	var out []string
	if fd == nil || fd.Body == nil {
		return nil
	}
	ast.Inspect(fd.Body, func(n ast.Node) bool {
		if as, ok := n.(*ast.AssignStmt); ok && len(as.Lhs) == 2 && len(as.Rhs) == 1 {
			if ix, ok := as.Rhs[0].(*ast.IndexExpr); ok {
				out = append(out, types.ExprString(ix.X))
			}
		}
		return true
	})
	return out
}

// c08FieldAssigns lists "recv.field" for every plain assignment `recv.field = ...` in fd, in source order.
func c08FieldAssigns(fd *ast.FuncDecl, recv string) []string {
	var out []string
	if fd == nil || fd.Body == nil {
		return nil
	}
	ast.Inspect(fd.Body, func(n ast.Node) bool {
		if as, ok := n.(*ast.AssignStmt); ok && as.Tok == token.ASSIGN {
			for _, l := range as.Lhs {
				if se, ok := l.(*ast.SelectorExpr); ok {
					if id, ok := se.X.(*ast.Ident); ok && id.Name == recv {
						out = append(out, recv+"."+se.Sel.Name)
					}
				}
			}
		}
		return true
	})
	return out
}

// c08CallSites lists, for every call of a function/method named name in file f, the enclosing function and
// the conditions of the if statements around the call.
func c08CallSites(f *ast.File, name string) []string {
	var out []string
	for _, d := range f.Decls {
		fd, ok := d.(*ast.FuncDecl)
		if !ok || fd.Body == nil {
			continue
		}
		var walk func(n ast.Node, conds []string)
		walk = func(n ast.Node, conds []string) {
			if n == nil {
				return
			}
			switch x := n.(type) {
			case *ast.IfStmt:
				if x.Init != nil {
					walk(x.Init, conds)
				}
				walk(x.Cond, conds)
				c := types.ExprString(x.Cond)
				walk(x.Body, append(append([]string{}, conds...), c))
				if x.Else != nil {
					walk(x.Else, append(append([]string{}, conds...), "!("+c+")"))
				}
				return
			case *ast.CallExpr:
				fn := ""
				switch g := x.Fun.(type) {
				case *ast.SelectorExpr:
					fn = g.Sel.Name
				case *ast.Ident:
					fn = g.Name
				}
				if fn == name {
					s := fd.Name.Name
					if len(conds) > 0 {
						s += " if " + strings.Join(conds, " && ")
					}
					out = append(out, s)
				}
			}
			ast.Inspect(n, func(m ast.Node) bool {
				if m == n || m == nil {
					return true
				}
				walk(m, conds)
				return false
			})
		}
		walk(fd.Body, nil)
	}
	return out
}
