package extract

// C10 (round 8): facts about WHICH bitmap objects seriesFiltering hands around and mutates, and about
// the forward index merger's pooled buffer (where it is truncated) and scanner cursor.
// Emitted as lean/LinVerif/Generated/C10Ops.lean; consumed by LinVerif/Props/C10Eval.lean.

import (
	"fmt"
	"go/ast"
	"go/token"
	"strings"
)

func c10StructFields(fset *token.FileSet, f *ast.File, name string) []string {
	var out []string
	ast.Inspect(f, func(n ast.Node) bool {
		ts, ok := n.(*ast.TypeSpec)
		if !ok || ts.Name.Name != name {
			return true
		}
		st, ok := ts.Type.(*ast.StructType)
		if !ok {
			return true
		}
		for _, fl := range st.Fields.List {
			typ := c10Src(fset, fl.Type)
			if len(fl.Names) == 0 {
				out = append(out, typ)
			}
			for _, nm := range fl.Names {
				out = append(out, nm.Name+" "+typ)
			}
		}
		return false
	})
	return out
}

// c10DefOf: the statement that defines identifier `name` in fd (first assignment with it on the LHS)
func c10DefOf(fset *token.FileSet, fd *ast.FuncDecl, name string) string {
	res := ""
	ast.Inspect(fd.Body, func(n ast.Node) bool {
		as, ok := n.(*ast.AssignStmt)
		if !ok || res != "" {
			return true
		}
		for _, l := range as.Lhs {
			if id, ok := l.(*ast.Ident); ok && id.Name == name && len(as.Rhs) == 1 {
				if c, ok := as.Rhs[0].(*ast.CallExpr); ok {
					res = name + " <- call " + exprName(c.Fun)
				} else {
					res = name + " <- " + c10Src(fset, as.Rhs[0])
				}
			}
		}
		return true
	})
	if res == "" {
		res = name + " <- ?"
	}
	return res
}

// c10NestedStmts renders the statement skeleton of a body: "<depth>:<what>" in source order.
func c10NestedStmts(fset *token.FileSet, body *ast.BlockStmt, depth int, out *[]string) {
	for _, st := range body.List {
		switch x := st.(type) {
		case *ast.RangeStmt:
			*out = append(*out, fmt.Sprintf("%d:range %s", depth, c10Src(fset, x.X)))
			c10NestedStmts(fset, x.Body, depth+1, out)
		case *ast.ForStmt:
			cond := ""
			if x.Cond != nil {
				cond = c10Src(fset, x.Cond)
			}
			*out = append(*out, fmt.Sprintf("%d:for %s", depth, cond))
			c10NestedStmts(fset, x.Body, depth+1, out)
		case *ast.IfStmt:
			*out = append(*out, fmt.Sprintf("%d:if %s", depth, c10IfHead(fset, x)))
			c10NestedStmts(fset, x.Body, depth+1, out)
			if eb, ok := x.Else.(*ast.BlockStmt); ok {
				*out = append(*out, fmt.Sprintf("%d:else", depth))
				c10NestedStmts(fset, eb, depth+1, out)
			}
		default:
			*out = append(*out, fmt.Sprintf("%d:%s", depth, c10Src(fset, st)))
		}
	}
}

func c10IfHead(fset *token.FileSet, x *ast.IfStmt) string {
	s := ""
	if x.Init != nil {
		s = c10Src(fset, x.Init) + "; "
	}
	return s + c10Src(fset, x.Cond)
}

func init() {
	Register(Fact{Module: "C10Ops", Gen: func(repo string) (string, error) {
		var sb strings.Builder
		// ---- seriesFiltering: bitmap objects
		fs, sf, err := ParseFile(repo, "query/operator/series_filtering.go")
		if err != nil {
			return "", err
		}
		fields := c10StructFields(fs, sf, "seriesFiltering")
		if len(fields) == 0 {
			return "", fmt.Errorf("struct seriesFiltering not found")
		}
		sb.WriteString("/-- fields of the seriesFiltering operator (state that outlives one getSeriesIDsByExpr call) -/\n")
		sb.WriteString("def filterFields : List String := " + LeanStrList(fields) + "\n")
		get := FindFunc(sf, "seriesFiltering", "getSeriesIDsByExpr")
		if get == nil {
			return "", fmt.Errorf("seriesFiltering.getSeriesIDsByExpr not found")
		}
		// every return's bitmap result and where that identifier comes from
		var rets []string
		fresh := true
		nonNil := 0
		ast.Inspect(get.Body, func(n ast.Node) bool {
			r, ok := n.(*ast.ReturnStmt)
			if !ok || len(r.Results) != 3 {
				return true
			}
			switch e := r.Results[1].(type) {
			case *ast.Ident:
				if e.Name == "nil" {
					rets = append(rets, "nil")
				} else {
					d := c10DefOf(fs, get, e.Name)
					rets = append(rets, d)
					nonNil++
					if !strings.HasSuffix(d, "indexDB.GetSeriesIDsByTagValueIDs") || !strings.Contains(d, "<- call ") {
						fresh = false
					}
				}
			default:
				rets = append(rets, c10Src(fs, e))
				nonNil++
				fresh = false
			}
			return true
		})
		sb.WriteString("/-- the bitmap returned by each `return` of getSeriesIDsByExpr and the statement defining it -/\n")
		sb.WriteString("def atomBitmapSources : List String := " + LeanStrList(rets) + "\n")
		// stores into operator state from getSeriesIDsByExpr / findSeriesIDsByExpr (other than op.err)
		find := FindFunc(sf, "seriesFiltering", "findSeriesIDsByExpr")
		if find == nil {
			return "", fmt.Errorf("seriesFiltering.findSeriesIDsByExpr not found")
		}
		var stores []string
		for _, fd := range []*ast.FuncDecl{get, find} {
			ast.Inspect(fd.Body, func(n ast.Node) bool {
				as, ok := n.(*ast.AssignStmt)
				if !ok {
					return true
				}
				for _, l := range as.Lhs {
					s := c10Src(fs, l)
					if strings.HasPrefix(s, "op.") && s != "op.err" {
						stores = append(stores, fd.Name.Name+": "+c10Src(fs, as))
					}
				}
				return true
			})
		}
		sb.WriteString("def filterStateStores : List String := " + LeanStrList(stores) + "\n")
		for _, f := range fields {
			if strings.Contains(f, "roaring") || strings.Contains(f, "map[") {
				fresh = false
			}
		}
		if nonNil != 1 || len(stores) != 0 {
			fresh = false
		}
		sb.WriteString("/-- every atomic filter gets a bitmap object of its own (nothing remembered between calls) -/\n")
		sb.WriteString("def atomBitmapsFresh : Bool := " + c10Bool(fresh) + "\n")
		// in-place operations and what is returned
		var muts []string
		ast.Inspect(find.Body, func(n ast.Node) bool {
			switch x := n.(type) {
			case *ast.ExprStmt:
				if c, ok := x.X.(*ast.CallExpr); ok {
					if se, ok := c.Fun.(*ast.SelectorExpr); ok {
						switch se.Sel.Name {
						case "And", "Or", "AndNot", "Xor", "Clear", "Add", "Remove":
							muts = append(muts, c10Src(fs, c))
						}
					}
				}
			}
			return true
		})
		sb.WriteString("/-- in-place bitmap operations of findSeriesIDsByExpr, source order -/\n")
		sb.WriteString("def filterMutations : List String := " + LeanStrList(muts) + "\n")
		sb.WriteString("def filterOperandSources : List String := " + LeanStrList([]string{
			c10DefOf(fs, find, "all"), c10DefOf(fs, find, "left"), c10DefOf(fs, find, "right"), c10DefOf(fs, find, "matchResult")}) + "\n\n")

		// ---- forwardIndexMerger.Merge: statement skeleton, where the pooled buffer is truncated
		fm, mg, err := ParseFile(repo, "index/v1/forward_merger.go")
		if err != nil {
			return "", err
		}
		merge := FindFunc(mg, "forwardIndexMerger", "Merge")
		if merge == nil {
			return "", fmt.Errorf("forwardIndexMerger.Merge not found")
		}
		var skel []string
		c10NestedStmts(fm, merge.Body, 0, &skel)
		sb.WriteString("/-- statement skeleton of forwardIndexMerger.Merge (depth:statement) -/\n")
		sb.WriteString("def mergeSkeleton : List String := " + LeanStrList(skel) + "\n")
		var resets []string
		for i, s := range skel {
			if strings.HasSuffix(s, ":m.tagValueIDs = m.tagValueIDs[:0]") {
				prev := "top"
				if i > 0 {
					prev = skel[i-1]
				}
				resets = append(resets, s+" after "+prev)
			}
		}
		sb.WriteString("def mergeBufResets : List String := " + LeanStrList(resets) + "\n")
		per := len(resets) == 1 && resets[0] == "1:m.tagValueIDs = m.tagValueIDs[:0] after 0:range highKeys"
		sb.WriteString("/-- the pooled tagValueIDs buffer is truncated as the first statement of every container iteration -/\n")
		sb.WriteString("def mergeResetPerContainer : Bool := " + c10Bool(per) + "\n")
		sb.WriteString("def mergerFields : List String := " + LeanStrList(c10StructFields(fm, mg, "forwardIndexMerger")) + "\n\n")

		// ---- tagForwardScanner: cursor
		fr, rd, err := ParseFile(repo, "index/v1/forward_reader.go")
		if err != nil {
			return "", err
		}
		scan := FindFunc(rd, "tagForwardScanner", "scan")
		next := FindFunc(rd, "tagForwardScanner", "nextContainer")
		if scan == nil || next == nil {
			return "", fmt.Errorf("tagForwardScanner.scan / nextContainer not found")
		}
		var sk1, sk2 []string
		c10NestedStmts(fr, scan.Body, 0, &sk1)
		c10NestedStmts(fr, next.Body, 0, &sk2)
		sb.WriteString("def scanSkeleton : List String := " + LeanStrList(sk1) + "\n")
		sb.WriteString("def nextContainerSkeleton : List String := " + LeanStrList(sk2) + "\n")
		return sb.String(), nil
	}})
}
