package extract

// C12 round 12: the leaf pipeline's glue — shardScanStage.NextStages (one grouping stage per roaring
// container of the filtered series ids), baseStage.execute's "ignore not found" rule, which plan
// nodes of the shard scan are ignore-nodes, and how the operators under them build their errors
// (fmt.Errorf verbs: %w keeps the chain errors.Is walks, %s / %v cut it).

import (
	"fmt"
	"go/ast"
	"go/token"
	"sort"
	"strings"
)

func c12GlueFacts(repo string, sb *strings.Builder) error {
	fsetS, ss, err := ParseFile(repo, "query/stage/shard_scan_stage.go")
	if err != nil {
		return err
	}
	ns := FindFunc(ss, "shardScanStage", "NextStages")
	if ns == nil {
		return fmt.Errorf("shardScanStage.NextStages not found")
	}
	// local definitions (x := e) so that the DataLoadContext's fields can be resolved to what they are
	defs := map[string]string{}
	rangeOver, rangeKey, rangeVal := "", "", ""
	highKey, lows := "", ""
	ast.Inspect(ns.Body, func(n ast.Node) bool {
		switch x := n.(type) {
		case *ast.AssignStmt:
			if x.Tok == token.DEFINE && len(x.Lhs) == 1 && len(x.Rhs) == 1 {
				defs[c12Src(fsetS, x.Lhs[0])] = c12Src(fsetS, x.Rhs[0])
			}
		case *ast.RangeStmt:
			rangeOver = c12Src(fsetS, x.X)
			if x.Key != nil {
				rangeKey = c12Src(fsetS, x.Key)
			}
			if x.Value != nil {
				rangeVal = c12Src(fsetS, x.Value)
			}
		case *ast.KeyValueExpr:
			switch c12Src(fsetS, x.Key) {
			case "SeriesIDHighKey":
				highKey = c12Src(fsetS, x.Value)
			case "LowSeriesIDsContainer":
				lows = c12Src(fsetS, x.Value)
			}
		}
		return true
	})
	// resolve local names (twice: idx copies) — whole-word replacement of identifiers
	resolve := func(e string) string {
		for pass := 0; pass < 3; pass++ {
			var names []string
			for k := range defs {
				names = append(names, k)
			}
			sort.Slice(names, func(i, j int) bool { return len(names[i]) > len(names[j]) })
			for _, k := range names {
				if k == rangeKey || k == rangeVal {
					continue
				}
				e = replaceIdent(e, k, defs[k])
			}
		}
		if rangeKey != "" {
			e = replaceIdent(e, rangeKey, "IDX")
		}
		if rangeVal != "" {
			e = replaceIdent(e, rangeVal, "ELEM")
		}
		return e
	}
	fmt.Fprintf(sb, "/-- shardScanStage.NextStages: what the loop ranges over, and the stage's high key / container with local names resolved (IDX = the range index, ELEM = the range value) -/\n")
	fmt.Fprintf(sb, "def nextStagesRange : String := %q\n", resolve(rangeOver))
	fmt.Fprintf(sb, "def nextStagesHighKey : String := %q\n", resolve(highKey))
	fmt.Fprintf(sb, "def nextStagesContainer : String := %q\n", resolve(lows))

	// Plan: operators under NewPlanNodeWithIgnore
	var ignoreOps []string
	if pl := FindFunc(ss, "shardScanStage", "Plan"); pl != nil {
		ast.Inspect(pl.Body, func(n ast.Node) bool {
			if ce, ok := n.(*ast.CallExpr); ok && exprName(ce.Fun) == "NewPlanNodeWithIgnore" && len(ce.Args) == 1 {
				if in, ok := ce.Args[0].(*ast.CallExpr); ok {
					ignoreOps = append(ignoreOps, exprName(in.Fun))
				}
			}
			return true
		})
	}
	fmt.Fprintf(sb, "/-- operators the shard scan plan runs under NewPlanNodeWithIgnore, in plan order -/\ndef shardScanIgnoreOps : List String := %s\n", LeanStrList(ignoreOps))

	fsetB, bs, err := ParseFile(repo, "query/stage/base_stage.go")
	if err != nil {
		return err
	}
	ignoreCond := ""
	if ex := FindFunc(bs, "baseStage", "execute"); ex != nil {
		ast.Inspect(ex.Body, func(n ast.Node) bool {
			if is, ok := n.(*ast.IfStmt); ok && strings.Contains(c12Src(fsetB, is.Cond), "IgnoreNotFound") {
				ignoreCond = c12Src(fsetB, is.Cond)
			}
			return true
		})
	}
	fmt.Fprintf(sb, "/-- baseStage.execute: when a plan node's error is swallowed -/\ndef stageIgnoreCond : String := %q\n", ignoreCond)

	// the Execute methods of those operators: every return statement, and every error-building call
	files := map[string][2]string{
		"operator.NewSeriesFiltering":      {"query/operator/series_filtering.go", "seriesFiltering"},
		"operator.NewMetricAllSeries":      {"query/operator/metric_all_series.go", "metricAllSeries"},
		"operator.NewDataFamilyRead":       {"query/operator/data_family_read.go", "dataFamilyRead"},
		"operator.NewGroupingContextBuild": {"query/operator/grouping_context_build.go", "groupingContextBuild"},
		"operator.NewSeriesLimit":          {"query/operator/series_limit.go", "seriesLimit"},
	}
	seen := map[string]bool{}
	var rets, cuts []string
	for _, op := range ignoreOps {
		fr, ok := files[op]
		if !ok || seen[op] {
			if !ok {
				cuts = append(cuts, op+": unknown operator")
			}
			continue
		}
		seen[op] = true
		fset, f, err := ParseFile(repo, fr[0])
		if err != nil {
			return err
		}
		ex := FindFunc(f, fr[1], "Execute")
		if ex == nil {
			cuts = append(cuts, op+": Execute not found")
			continue
		}
		ast.Inspect(ex.Body, func(n ast.Node) bool {
			switch x := n.(type) {
			case *ast.ReturnStmt:
				rets = append(rets, fr[1]+": "+c12Src(fset, x))
			case *ast.CallExpr:
				name := exprName(x.Fun)
				// an error built from text: the chain survives only through %w
				if name == "fmt.Errorf" || name == "errors.New" || name == "fmt.Sprintf" || name == "errors.Wrap" || name == "errors.Wrapf" {
					src := c12Src(fset, x)
					if !(name == "fmt.Errorf" && strings.Contains(src, "%w") && onlyErrUnderW(fset, x)) {
						cuts = append(cuts, fr[1]+": "+src)
					}
				}
			}
			return true
		})
	}
	fmt.Fprintf(sb, "/-- return statements of the Execute methods of the shard scan's ignore-node operators -/\ndef ignoreOpReturns : List String := %s\n", LeanStrList(rets))
	fmt.Fprintf(sb, "/-- error-building calls in those Execute methods that do not keep the error chain (anything but fmt.Errorf with the error under %%w) -/\ndef ignoreOpChainCuts : List String := %s\n", LeanStrList(cuts))
	return nil
}

// onlyErrUnderW: fmt.Errorf(format, args...) where every argument of error-ish name (err, …Err…,
// constants.Err…) sits at a %w verb.
func onlyErrUnderW(fset *token.FileSet, ce *ast.CallExpr) bool {
	if len(ce.Args) < 1 {
		return false
	}
	lit, ok := ce.Args[0].(*ast.BasicLit)
	if !ok {
		return false
	}
	var verbs []string
	f := lit.Value
	for i := 0; i+1 < len(f); i++ {
		if f[i] == '%' {
			if f[i+1] == '%' {
				i++
				continue
			}
			j := i + 1
			for j < len(f) && strings.ContainsRune("+-# 0123456789.[]*", rune(f[j])) {
				j++
			}
			if j < len(f) {
				verbs = append(verbs, string(f[j]))
			}
			i = j
		}
	}
	if len(verbs) != len(ce.Args)-1 {
		return false
	}
	for k, a := range ce.Args[1:] {
		s := c12Src(fset, a)
		isErr := s == "err" || strings.HasSuffix(s, "Err") || strings.Contains(s, ".Err") || strings.HasPrefix(s, "err")
		if isErr && verbs[k] != "w" {
			return false
		}
	}
	return true
}

// replaceIdent replaces whole-word occurrences of identifier id in e.
func replaceIdent(e, id, with string) string {
	if id == "" || id == "_" {
		return e
	}
	isW := func(b byte) bool {
		return b == '_' || b >= '0' && b <= '9' || b >= 'a' && b <= 'z' || b >= 'A' && b <= 'Z'
	}
	var out strings.Builder
	for i := 0; i < len(e); {
		if strings.HasPrefix(e[i:], id) && (i == 0 || !isW(e[i-1]) && e[i-1] != '.') && (i+len(id) == len(e) || !isW(e[i+len(id)])) {
			out.WriteString(with)
			i += len(id)
			continue
		}
		out.WriteByte(e[i])
		i++
	}
	return out.String()
}
