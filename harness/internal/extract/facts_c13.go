package extract

import (
	"bytes"
	"fmt"
	"go/ast"
	"go/parser"
	"go/printer"
	"go/token"
	"go/types"
	"os"
	"path/filepath"
	"regexp"
	"strings"
)

// C13: time-unit constants (github.com/lindb/common/pkg/timeutil, version taken from /repo/go.mod),
// Interval.Type thresholds, the CalcQueryInterval ladder, the straight-line integer formulas of the
// day calculator / CalcSlot / Truncate / CalIntervalRatio, the arguments of every time.Unix /
// time.Date call of the month and year calculators, and the statement text of the planner
// functions (calcTimeRangeAndInterval, FindMatchSmallestInterval).
func init() {
	Register(Fact{Module: "C13", Gen: genC13})
}

// commonTimeutilFile locates pkg/timeutil/time.go of the lindb/common version /repo's go.mod requires.
func commonTimeutilFile(repo string) (string, error) {
	gm, err := os.ReadFile(filepath.Join(repo, "go.mod"))
	if err != nil {
		return "", err
	}
	m := regexp.MustCompile(`(?m)^\s*github\.com/lindb/common\s+(v\S+)`).FindSubmatch(gm)
	if m == nil {
		return "", fmt.Errorf("github.com/lindb/common not required by go.mod")
	}
	var roots []string
	if v := os.Getenv("GOMODCACHE"); v != "" {
		roots = append(roots, v)
	}
	if v := os.Getenv("GOPATH"); v != "" {
		roots = append(roots, filepath.Join(v, "pkg", "mod"))
	}
	if h, err := os.UserHomeDir(); err == nil {
		roots = append(roots, filepath.Join(h, "go", "pkg", "mod"))
	}
	roots = append(roots, "/root/go/pkg/mod")
	for _, r := range roots {
		p := filepath.Join(r, "github.com", "lindb", "common@"+string(m[1]), "pkg", "timeutil", "time.go")
		if _, err := os.Stat(p); err == nil {
			return p, nil
		}
	}
	return "", fmt.Errorf("lindb/common@%s not in the module cache", m[1])
}

func parseAbs(fset *token.FileSet, path string) (*ast.File, error) {
	return parser.ParseFile(fset, path, nil, parser.ParseComments)
}

func firstN(xs []string, n int) []string {
	if len(xs) > n {
		return xs[:n]
	}
	return xs
}

// stmtText prints a node on one line (comments dropped, whitespace collapsed).
func stmtText(fset *token.FileSet, n ast.Node) string {
	var b bytes.Buffer
	_ = printer.Fprint(&b, fset, n)
	return strings.Join(strings.Fields(b.String()), " ")
}

// bodyText lists the top-level statements of fd's body as text.
func bodyText(fset *token.FileSet, fd *ast.FuncDecl) ([]string, error) {
	if fd == nil || fd.Body == nil {
		return nil, fmt.Errorf("function not found")
	}
	var out []string
	for _, s := range fd.Body.List {
		out = append(out, stmtText(fset, s))
	}
	return out, nil
}

// firstSwitch returns the first (tag-less) switch statement of fd.
func firstSwitch(fd *ast.FuncDecl) *ast.SwitchStmt {
	var sw *ast.SwitchStmt
	if fd == nil {
		return nil
	}
	ast.Inspect(fd.Body, func(n ast.Node) bool {
		if sw != nil {
			return false
		}
		if s, ok := n.(*ast.SwitchStmt); ok {
			sw = s
			return false
		}
		return true
	})
	return sw
}

// ladderRow is one `case <lhs> <op> <bound>: return <value>` clause.
type ladderRow struct {
	lhs, op string
	bound   int64
	isDflt  bool
	retExpr ast.Expr
}

func switchRows(sw *ast.SwitchStmt, env map[string]int64) ([]ladderRow, error) {
	if sw == nil || sw.Tag != nil {
		return nil, fmt.Errorf("tag-less switch not found")
	}
	var rows []ladderRow
	for _, c := range sw.Body.List {
		cc := c.(*ast.CaseClause)
		if len(cc.Body) != 1 {
			return nil, fmt.Errorf("case body is not a single return")
		}
		ret, ok := cc.Body[0].(*ast.ReturnStmt)
		if !ok || len(ret.Results) != 1 {
			return nil, fmt.Errorf("case body is not a single return")
		}
		if cc.List == nil {
			rows = append(rows, ladderRow{isDflt: true, retExpr: ret.Results[0]})
			continue
		}
		if len(cc.List) != 1 {
			return nil, fmt.Errorf("case with several expressions")
		}
		be, ok := cc.List[0].(*ast.BinaryExpr)
		if !ok {
			return nil, fmt.Errorf("case is not a comparison")
		}
		v, ok := evalInt(be.Y, env, 0)
		if !ok {
			return nil, fmt.Errorf("case bound %s not constant", types.ExprString(be.Y))
		}
		rows = append(rows, ladderRow{lhs: types.ExprString(be.X), op: be.Op.String(), bound: v, retExpr: ret.Results[0]})
	}
	return rows, nil
}

// callArgs returns the argument texts of the first call to pkg.fn inside fd.
func callArgs(fd *ast.FuncDecl, pkg, fn string) []string {
	var out []string
	found := false
	if fd == nil {
		return nil
	}
	ast.Inspect(fd.Body, func(n ast.Node) bool {
		if found {
			return false
		}
		if ce, ok := n.(*ast.CallExpr); ok {
			if se, ok := ce.Fun.(*ast.SelectorExpr); ok && se.Sel.Name == fn {
				if id, ok := se.X.(*ast.Ident); ok && id.Name == pkg {
					for _, a := range ce.Args {
						out = append(out, types.ExprString(a))
					}
					found = true
					return false
				}
			}
		}
		return true
	})
	return out
}

// compositeFields returns the `Key: Value`-values (texts of the values, in order) of the composite
// literal assigned to variable name inside fd (`name := T{...}` or `name := &T{...}`).
func compositeFields(fd *ast.FuncDecl, name string) []string {
	e := FindAssign(fd, name)
	if u, ok := e.(*ast.UnaryExpr); ok {
		e = u.X
	}
	cl, ok := e.(*ast.CompositeLit)
	if !ok {
		return nil
	}
	var out []string
	for _, el := range cl.Elts {
		if kv, ok := el.(*ast.KeyValueExpr); ok {
			out = append(out, types.ExprString(kv.Value))
		} else {
			out = append(out, types.ExprString(el))
		}
	}
	return out
}

// structFields lists "name type" of the fields of struct type name declared in f.
func structFields(f *ast.File, name string) []string {
	var out []string
	for _, d := range f.Decls {
		gd, ok := d.(*ast.GenDecl)
		if !ok || gd.Tok != token.TYPE {
			continue
		}
		for _, sp := range gd.Specs {
			ts := sp.(*ast.TypeSpec)
			st, ok := ts.Type.(*ast.StructType)
			if !ok || ts.Name.Name != name {
				continue
			}
			for _, fl := range st.Fields.List {
				for _, n := range fl.Names {
					out = append(out, n.Name+" "+types.ExprString(fl.Type))
				}
			}
		}
	}
	return out
}

// lastReturn returns the text of the expression of fd's final return statement.
func lastReturn(fd *ast.FuncDecl) string {
	if fd == nil || fd.Body == nil || len(fd.Body.List) == 0 {
		return ""
	}
	if r, ok := fd.Body.List[len(fd.Body.List)-1].(*ast.ReturnStmt); ok && len(r.Results) == 1 {
		return types.ExprString(r.Results[0])
	}
	return ""
}

func genC13(repo string) (string, error) {
	var sb strings.Builder
	// ---- constants of lindb/common
	cf, err := commonTimeutilFile(repo)
	if err != nil {
		return "", err
	}
	cfset := token.NewFileSet()
	cfile, err := parseAbs(cfset, cf)
	if err != nil {
		return "", err
	}
	cs := ConstInts(cfile)
	for _, n := range []string{"OneSecond", "OneMinute", "OneHour", "OneDay", "OneWeek", "OneMonth", "OneYear"} {
		v, ok := cs[n]
		if !ok {
			return "", fmt.Errorf("constant %s not found in %s", n, cf)
		}
		fmt.Fprintf(&sb, "def %s : Int := %s\n", strings.ToLower(n[:1])+n[1:], LeanInt(v))
	}

	// ---- pkg/timeutil/interval.go: Type thresholds, Calculator table, CalcQueryInterval ladder
	ivfset, iv, err := ParseFile(repo, "pkg/timeutil/interval.go")
	if err != nil {
		return "", err
	}
	rows, err := switchRows(firstSwitch(FindFunc(iv, "Interval", "Type")), cs)
	if err != nil {
		return "", fmt.Errorf("Interval.Type: %w", err)
	}
	sb.WriteString("\n-- Interval.Type(): `case i.Int64() >= bound: return T` rows, then the default\n")
	var tr []string
	dflt := ""
	for _, r := range rows {
		if r.isDflt {
			dflt = types.ExprString(r.retExpr)
			continue
		}
		if r.lhs != "i.Int64()" || r.op != ">=" {
			return "", fmt.Errorf("Interval.Type: unexpected case %s %s", r.lhs, r.op)
		}
		tr = append(tr, fmt.Sprintf("(%s, %q)", LeanInt(r.bound), types.ExprString(r.retExpr)))
	}
	fmt.Fprintf(&sb, "def typeRows : List (Int × String) := [%s]\ndef typeDefault : String := %q\n", strings.Join(tr, ", "), dflt)

	calcSw := FindFunc(iv, "Interval", "Calculator")
	var cr []string
	if sw := firstSwitch(calcSw); sw != nil && sw.Tag != nil {
		for _, c := range sw.Body.List {
			cc := c.(*ast.CaseClause)
			key := "default"
			if len(cc.List) == 1 {
				key = types.ExprString(cc.List[0])
			}
			if len(cc.Body) == 1 {
				if ret, ok := cc.Body[0].(*ast.ReturnStmt); ok && len(ret.Results) == 1 {
					cr = append(cr, fmt.Sprintf("(%q, %q)", key, types.ExprString(ret.Results[0])))
				}
			}
		}
		fmt.Fprintf(&sb, "-- Interval.Calculator(): switch %s\n", types.ExprString(sw.Tag))
	} else {
		return "", fmt.Errorf("Interval.Calculator: switch not found")
	}
	fmt.Fprintf(&sb, "def calculatorRows : List (String × String) := [%s]\n", strings.Join(cr, ", "))

	qi := FindFunc(iv, "", "CalcQueryInterval")
	rows, err = switchRows(firstSwitch(qi), cs)
	if err != nil {
		return "", fmt.Errorf("CalcQueryInterval: %w", err)
	}
	sb.WriteString("\n-- CalcQueryInterval: diff := " + types.ExprString(FindAssign(qi, "diff")) + "\n")
	fmt.Fprintf(&sb, "def queryDiffExpr : String := %q\n", types.ExprString(FindAssign(qi, "diff")))
	var lr []string
	first := true
	for _, r := range rows {
		if r.isDflt {
			v, ok := evalInt(r.retExpr, cs, 0)
			if !ok {
				return "", fmt.Errorf("CalcQueryInterval: default not constant")
			}
			fmt.Fprintf(&sb, "def queryLadderDefault : Int := %s\n", LeanInt(v))
			continue
		}
		if r.lhs != "diff" || r.op != "<" {
			return "", fmt.Errorf("CalcQueryInterval: unexpected case %s %s", r.lhs, r.op)
		}
		if first {
			first = false
			fmt.Fprintf(&sb, "def queryLadderFirstBound : Int := %s\ndef queryLadderFirstResult : String := %q\n",
				LeanInt(r.bound), types.ExprString(r.retExpr))
			continue
		}
		v, ok := evalInt(r.retExpr, cs, 0)
		if !ok {
			return "", fmt.Errorf("CalcQueryInterval: row value %s not constant", types.ExprString(r.retExpr))
		}
		lr = append(lr, fmt.Sprintf("(%s, %s)", LeanInt(r.bound), LeanInt(v)))
	}
	fmt.Fprintf(&sb, "def queryLadder : List (Int × Int) := [%s]\n", strings.Join(lr, ", "))

	// ---- pkg/timeutil/interval_calculator.go
	icfset, ic, err := ParseFile(repo, "pkg/timeutil/interval_calculator.go")
	if err != nil {
		return "", err
	}
	_ = icfset
	sb.WriteString("\n-- straight-line integer formulas (Go `/`, `%` = Int.tdiv, Int.tmod)\n")
	for _, f := range []struct{ recv, name, lean string }{
		{"day", "CalcSlot", "dayCalcSlot"}, {"month", "CalcSlot", "monthCalcSlot"}, {"year", "CalcSlot", "yearCalcSlot"},
		{"day", "CalcFamily", "dayCalcFamily"}, {"day", "CalcFamilyStartTime", "dayCalcFamilyStartTime"},
		{"day", "CalcFamilyEndTime", "dayCalcFamilyEndTime"},
	} {
		s, err := IntFunc(FindFunc(ic, f.recv, f.name), f.lean, cs, nil)
		if err != nil {
			return "", err
		}
		sb.WriteString(s + "\n")
	}
	fmt.Fprintf(&sb, "def monthCalcSlotExpr : String := %q\n", lastReturn(FindFunc(ic, "month", "CalcSlot")))
	sb.WriteString("-- calendar calls of the calculators: [time.Unix args] ++ [\"|\"] ++ [time.Date args] ++ [\"|\", return expression]\n")
	for _, f := range []struct{ recv, name, lean string }{
		{"day", "CalcSegmentTime", "dayCalcSegmentTimeShape"},
		{"month", "CalcSegmentTime", "monthCalcSegmentTimeShape"},
		{"month", "CalcFamily", "monthCalcFamilyShape"},
		{"month", "CalcFamilyStartTime", "monthCalcFamilyStartTimeShape"},
		{"month", "CalcFamilyEndTime", "monthCalcFamilyEndTimeShape"},
		{"year", "CalcSegmentTime", "yearCalcSegmentTimeShape"},
		{"year", "CalcFamily", "yearCalcFamilyShape"},
		{"year", "CalcFamilyStartTime", "yearCalcFamilyStartTimeShape"},
		{"year", "CalcFamilyEndTime", "yearCalcFamilyEndTimeShape"},
	} {
		fd := FindFunc(ic, f.recv, f.name)
		if fd == nil {
			return "", fmt.Errorf("%s.%s not found", f.recv, f.name)
		}
		shape := append([]string{}, callArgs(fd, "time", "Unix")...)
		shape = append(shape, "|")
		shape = append(shape, callArgs(fd, "time", "Date")...)
		shape = append(shape, "|", lastReturn(fd))
		fmt.Fprintf(&sb, "def %s : List String := %s\n", f.lean, LeanStrList(shape))
	}
	for _, recv := range []string{"day", "month", "year"} {
		txt, err := bodyText(icfset, FindFunc(ic, recv, "CalcFamilyTime"))
		if err != nil {
			return "", fmt.Errorf("%s.CalcFamilyTime: %w", recv, err)
		}
		fmt.Fprintf(&sb, "def %sCalcFamilyTimeBody : List String := %s\n", recv, LeanStrList(txt))
	}
	for _, f := range []struct{ recv, layout string }{{"day", "dayLayout"}, {"month", "monthLayout"}, {"year", "yearLayout"}} {
		a := callArgs(FindFunc(ic, f.recv, "GetSegment"), "timeutil", "FormatTimestamp")
		b := callArgs(FindFunc(ic, f.recv, "ParseSegmentTime"), "timeutil", "ParseTimestamp")
		fmt.Fprintf(&sb, "def %s : List String := %s\n", f.layout, LeanStrList(append(a, b...)))
	}

	// ---- pkg/timeutil/time.go
	_, tf, err := ParseFile(repo, "pkg/timeutil/time.go")
	if err != nil {
		return "", err
	}
	sb.WriteString("\n")
	for _, f := range []struct{ name, lean string }{{"Truncate", "truncate"}, {"CalIntervalRatio", "calIntervalRatio"}} {
		s, err := IntFunc(FindFunc(tf, "", f.name), f.lean, cs, nil)
		if err != nil {
			return "", err
		}
		sb.WriteString(s + "\n")
	}

	// ---- planner: statement text
	ufset, uf, err := ParseFile(repo, "query/context/utils.go")
	if err != nil {
		return "", err
	}
	txt, err := bodyText(ufset, FindFunc(uf, "", "calcTimeRangeAndInterval"))
	if err != nil {
		return "", fmt.Errorf("calcTimeRangeAndInterval: %w", err)
	}
	fmt.Fprintf(&sb, "def plannerBody : List String := %s\n", LeanStrList(txt))
	ofset, of, err := ParseFile(repo, "pkg/option/tsdb.go")
	if err != nil {
		return "", err
	}
	txt, err = bodyText(ofset, FindFunc(of, "DatabaseOption", "FindMatchSmallestInterval"))
	if err != nil {
		return "", fmt.Errorf("FindMatchSmallestInterval: %w", err)
	}
	fmt.Fprintf(&sb, "def findMatchBody : List String := %s\n", LeanStrList(txt))

	// ---- interval ladder validation, segment directory, interval text, time windows
	for _, f := range []struct{ recv, name, lean string }{
		{"Intervals", "IsValid", "isValidBody"}, {"DatabaseOption", "Validate", "validateBody"},
	} {
		txt, err = bodyText(ofset, FindFunc(of, f.recv, f.name))
		if err != nil {
			return "", fmt.Errorf("%s.%s: %w", f.recv, f.name, err)
		}
		fmt.Fprintf(&sb, "def %s : List String := %s\n", f.lean, LeanStrList(txt))
	}
	ffset, ff, err := ParseFile(repo, "tsdb/files.go")
	if err != nil {
		return "", err
	}
	for _, n := range []string{"ShardIntervalSegmentPath", "ShardSegmentPath"} {
		txt, err = bodyText(ffset, FindFunc(ff, "", n))
		if err != nil {
			return "", fmt.Errorf("%s: %w", n, err)
		}
		fmt.Fprintf(&sb, "def %sBody : List String := %s\n", strings.ToLower(n[:1])+n[1:], LeanStrList(txt))
	}
	for _, f := range []struct{ recv, name, lean string }{
		{"Interval", "String", "intervalStringBody"}, {"Interval", "ValueOf", "intervalValueOfBody"},
	} {
		txt, err = bodyText(ivfset, FindFunc(iv, f.recv, f.name))
		if err != nil {
			return "", fmt.Errorf("%s.%s: %w", f.recv, f.name, err)
		}
		fmt.Fprintf(&sb, "def %s : List String := %s\n", f.lean, LeanStrList(txt))
	}
	for _, recv := range []string{"day", "month", "year"} {
		txt, err = bodyText(icfset, FindFunc(ic, recv, "CalcTimeWindows"))
		if err != nil {
			return "", fmt.Errorf("%s.CalcTimeWindows: %w", recv, err)
		}
		fmt.Fprintf(&sb, "def %sCalcTimeWindowsBody : List String := %s\n", recv, LeanStrList(txt))
	}

	// ---- family range construction on the write path and in the broker iterator
	sfset, sf, err := ParseFile(repo, "tsdb/segment.go")
	if err != nil {
		return "", err
	}
	txt, err = bodyText(sfset, FindFunc(sf, "segment", "initDataFamily"))
	if err != nil {
		return "", fmt.Errorf("segment.initDataFamily: %w", err)
	}
	fmt.Fprintf(&sb, "def initDataFamilyBody : List String := %s\n", LeanStrList(txt))
	fmt.Fprintf(&sb, "def getOrCreateDataFamilyCalls : List String := %s\n",
		LeanStrList(firstN(CallSeq(FindFunc(sf, "segment", "GetOrCreateDataFamily")), 3)))
	// ---- range lookup: segment.GetDataFamilies / intervalSegment.GetDataFamilies
	gdf := FindFunc(sf, "segment", "GetDataFamilies")
	fq := compositeFields(gdf, "familyQueryTimeRange")
	if len(fq) != 2 {
		return "", fmt.Errorf("segment.GetDataFamilies: familyQueryTimeRange literal not found")
	}
	fmt.Fprintf(&sb, "def gdfRangeExprs : List String := %s\n", LeanStrList(fq))
	fmt.Fprintf(&sb, "def segmentGdfCalls : List String := %s\n", LeanStrList(CallSeq(gdf)))
	_, isf, err := ParseFile(repo, "tsdb/interval_segment.go")
	if err != nil {
		return "", err
	}
	igdf := FindFunc(isf, "intervalSegment", "GetDataFamilies")
	fmt.Fprintf(&sb, "def intervalSegmentRangeExprs : List String := %s\n", LeanStrList(compositeFields(igdf, "segmentQueryTimeRange")))
	fmt.Fprintf(&sb, "def intervalSegmentGdfCalls : List String := %s\n", LeanStrList(CallSeq(igdf)))

	// ---- Interval.CalcSlotRange
	txt, err = bodyText(ivfset, FindFunc(iv, "Interval", "CalcSlotRange"))
	if err != nil {
		return "", fmt.Errorf("Interval.CalcSlotRange: %w", err)
	}
	fmt.Fprintf(&sb, "def calcSlotRangeBody : List String := %s\n", LeanStrList(txt))

	// ---- rollup relation (kv/family_rollup.go)
	kfset, kf, err := ParseFile(repo, "kv/family_rollup.go")
	if err != nil {
		return "", err
	}
	for _, m := range []string{"GetTimestamp", "IntervalRatio", "CalcSlot", "BaseSlot"} {
		txt, err = bodyText(kfset, FindFunc(kf, "rollup", m))
		if err != nil {
			return "", fmt.Errorf("rollup.%s: %w", m, err)
		}
		fmt.Fprintf(&sb, "def rollup%sBody : List String := %s\n", m, LeanStrList(txt))
	}
	txt, err = bodyText(kfset, FindFunc(kf, "", "newRollup"))
	if err != nil {
		return "", fmt.Errorf("newRollup: %w", err)
	}
	fmt.Fprintf(&sb, "def newRollupBody : List String := %s\n", LeanStrList(txt))
	fr := FindFunc(kf, "family", "rollup")
	var tgt []string
	for _, v := range []string{"tSegmentTime", "tFamilyTime", "fSTime", "rollup"} {
		e := FindAssign(fr, v)
		if e == nil {
			return "", fmt.Errorf("family.rollup: %s not found", v)
		}
		tgt = append(tgt, v+" := "+types.ExprString(e))
	}
	fmt.Fprintf(&sb, "def rollupTargetExprs : List String := %s\n", LeanStrList(tgt))

	rfset, rf, err := ParseFile(repo, "series/metric/row_broker.go")
	if err != nil {
		return "", err
	}
	txt, err = bodyText(rfset, FindFunc(rf, "BrokerBatchShardFamilyIterator", "timeRangeOfTimestamp"))
	if err != nil {
		return "", fmt.Errorf("timeRangeOfTimestamp: %w", err)
	}
	fmt.Fprintf(&sb, "def timeRangeOfTimestampBody : List String := %s\n", LeanStrList(txt))
	for _, m := range []string{"reset", "isSameFamily", "HasNextFamily", "NextFamily", "familyTimeOfTimestamp"} {
		txt, err = bodyText(rfset, FindFunc(rf, "BrokerBatchShardFamilyIterator", m))
		if err != nil {
			return "", fmt.Errorf("BrokerBatchShardFamilyIterator.%s: %w", m, err)
		}
		fmt.Fprintf(&sb, "def broker%sBody : List String := %s\n", strings.ToUpper(m[:1])+m[1:], LeanStrList(txt))
	}
	fmt.Fprintf(&sb, "def brokerFamilyIteratorFields : List String := %s\n", LeanStrList(structFields(rf, "BrokerBatchShardFamilyIterator")))
	if err := genC13Goc(repo, &sb); err != nil {
		return "", err
	}
	return sb.String(), nil
}
