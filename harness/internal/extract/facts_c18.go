package extract

import (
	"fmt"
	"go/ast"
	"go/token"
	"go/types"
	"os"
	"path/filepath"
	"sort"
	"strings"
)

// C18: shard-state constants, replicaIndex and the two formulas of the assignment loop.
func init() {
	Register(Fact{Module: "C18", Gen: func(repo string) (string, error) {
		_, st, err := ParseFile(repo, "models/state.go")
		if err != nil {
			return "", err
		}
		cs := ConstInts(st)
		var sb strings.Builder
		for _, n := range []string{"UnknownShard", "NewShard", "OnlineShard", "OfflineShard", "NoLeader"} {
			v, ok := cs[n]
			if !ok {
				return "", fmt.Errorf("constant %s not found in models/state.go", n)
			}
			fmt.Fprintf(&sb, "def %s : Int := %s\n", strings.ToLower(n[:1])+n[1:], LeanInt(v))
		}
		_, sa, err := ParseFile(repo, "coordinator/master/shard_assign.go")
		if err != nil {
			return "", err
		}
		ri, err := IntFunc(FindFunc(sa, "", "replicaIndex"), "replicaIndex", nil, nil)
		if err != nil {
			return "", err
		}
		sb.WriteString("\n" + ri)
		loop := FindFunc(sa, "", "assignReplicasToStorageNodes")
		fr, err := ExprDef(FindAssign(loop, "firstReplicaIndex"), "firstReplicaIndex",
			[]string{"currentShardID", "startIndex", "numOfNode"}, nil, nil)
		if err != nil {
			return "", err
		}
		sb.WriteString("\n" + fr)
		bc, err := CondDef(FindIfWithIncDec(loop, "nextReplicaShift"), "bumpCond",
			[]string{"currentShardID", "numOfNode"}, nil)
		if err != nil {
			return "", err
		}
		sb.WriteString("\n" + bc)
		sb.WriteString("\ndef assignLoopCalls : List String := " + LeanStrList(CallSeq(loop)) + "\n")
		_, el, err := ParseFile(repo, "coordinator/master/replica_leader_elector.go")
		if err != nil {
			return "", err
		}
		sb.WriteString("\ndef electLeaderCalls : List String := " + LeanStrList(CallSeq(FindFunc(el, "replicaLeaderElector", "ElectLeader"))) + "\n")
		// event delivery inside the master and state publishing (state_manager.go): statement shapes of
		// EmitEvent (blocking send), consumeEvent (receive -> processEvent) and syncState (marshal, Put,
		// error returned), and the capacity of the events channel
		_, sm, err := ParseFile(repo, "coordinator/master/state_manager.go")
		if err != nil {
			return "", err
		}
		for _, fn := range []string{"EmitEvent", "consumeEvent", "syncState"} {
			fd := FindFunc(sm, "stateManager", fn)
			if fd == nil {
				return "", fmt.Errorf("stateManager.%s not found", fn)
			}
			sb.WriteString("\ndef " + strings.ToLower(fn[:1]) + fn[1:] + "Shape : List String := " + LeanStrList(c18StmtShape(fd.Body.List)) + "\n")
		}
		// dropping a database removes exactly its own assignment key (storage_cluster.go)
		_, sc, err := ParseFile(repo, "coordinator/master/storage_cluster.go")
		if err != nil {
			return "", err
		}
		dd := FindFunc(sc, "storageCluster", "DropDatabaseAssignment")
		if dd == nil {
			return "", fmt.Errorf("storageCluster.DropDatabaseAssignment not found")
		}
		sb.WriteString("\ndef dropDatabaseAssignmentShape : List String := " + LeanStrList(c18StmtShape(dd.Body.List)) + "\n")
		var ddCalls []string
		for _, cname := range CallSeq(dd) {
			if !strings.HasPrefix(cname, "logger.") {
				ddCalls = append(ddCalls, cname)
			}
		}
		sb.WriteString("\ndef dropDatabaseAssignmentCalls : List String := " + LeanStrList(ddCalls) + "\n")
		// a master that takes over starts from an empty storage state: newStorageCluster builds the
		// cluster around models.NewStorageState() and reads nothing from the repository
		nsc := FindFunc(sc, "", "newStorageCluster")
		if nsc == nil {
			return "", fmt.Errorf("newStorageCluster not found")
		}
		sb.WriteString("\ndef newStorageClusterShape : List String := " + LeanStrList(c18StmtShape(nsc.Body.List)) + "\n")
		sb.WriteString("\ndef newStorageClusterCalls : List String := " + LeanStrList(CallSeq(nsc)) + "\n")
		sb.WriteString("\ndef newStateManagerCalls : List String := " + LeanStrList(CallSeq(FindFunc(sm, "", "NewStateManager"))) + "\n")
		_, smf, err := ParseFile(repo, "coordinator/master/state_machine_factory.go")
		if err != nil {
			return "", err
		}
		var startCalls []string
		for _, cname := range CallSeq(FindFunc(smf, "StateMachineFactory", "Start")) {
			if strings.HasPrefix(cname, "f.create") {
				startCalls = append(startCalls, cname)
			}
		}
		sb.WriteString("\ndef factoryStartOrder : List String := " + LeanStrList(startCalls) + "\n")
		// the database-config handler: GetShardAssign passes the repository error on as it is; only
		// ErrNotExist leads to creation; create / grow place shards on what storage.GetLiveNodes returns,
		// and GetLiveNodes lists the registration keys (it does not read the in-memory LiveNodes)
		for _, fn := range []string{"GetShardAssign", "shardAssignment", "createShardAssignment", "modifyShardAssignment"} {
			fd := FindFunc(sm, "stateManager", fn)
			if fd == nil {
				return "", fmt.Errorf("stateManager.%s not found", fn)
			}
			sb.WriteString("\ndef " + strings.ToLower(fn[:1]) + fn[1:] + "HandlerShape : List String := " + LeanStrList(c18StmtShape(fd.Body.List)) + "\n")
		}
		gl := FindFunc(sc, "storageCluster", "GetLiveNodes")
		if gl == nil {
			return "", fmt.Errorf("storageCluster.GetLiveNodes not found")
		}
		sb.WriteString("\ndef getLiveNodesShape : List String := " + LeanStrList(c18StmtShape(gl.Body.List)) + "\n")
		sb.WriteString("\ndef getLiveNodesCalls : List String := " + LeanStrList(CallSeq(gl)) + "\n")
		// which event type each watch callback of the master's state machines emits (create callback first,
		// delete callback second): node registration -> NodeStartup / NodeFailure, database config ->
		// DatabaseConfigChanged / DatabaseConfigDeletion, shard assignment -> ShardAssignmentChanged / ...Deletion
		var evTypes []string
		for _, fn := range []string{"createStorageNodeStateMachine", "createDatabaseConfigStateMachine", "createShardAssignmentStateMachine"} {
			fd := FindFunc(smf, "StateMachineFactory", fn)
			if fd == nil {
				return "", fmt.Errorf("StateMachineFactory.%s not found", fn)
			}
			var ts []string
			ast.Inspect(fd, func(n ast.Node) bool {
				switch x := n.(type) {
				case *ast.KeyValueExpr:
					if id, ok := x.Key.(*ast.Ident); ok && id.Name == "Type" {
						ts = append(ts, types.ExprString(x.Value))
					}
				case *ast.CallExpr:
					if sel, ok := x.Fun.(*ast.SelectorExpr); ok && sel.Sel.Name == "NewStateMachine" && len(x.Args) >= 4 {
						ts = append(ts, "watch "+types.ExprString(x.Args[3]))
					}
				}
				return true
			})
			evTypes = append(evTypes, fn+": "+strings.Join(ts, ", "))
		}
		sb.WriteString("\ndef factoryEventTypes : List String := " + LeanStrList(evTypes) + "\n")
		// round 10: the models.StorageState helpers, Replica.Contain, ElectLeader and the node / assignment /
		// drop handlers with full expressions; the JSON shape of the published state; its consumers
		_, db, err := ParseFile(repo, "models/database.go")
		if err != nil {
			return "", err
		}
		type fnRef struct {
			file       *ast.File
			recv, name string
			def        string
		}
		for _, fr := range []fnRef{
			{st, "StorageState", "LeadersOnNode", "leadersOnNodeShape"},
			{st, "StorageState", "ReplicasOnNode", "replicasOnNodeShape"},
			{st, "StorageState", "DropDatabase", "dropDatabaseShape"},
			{st, "StorageState", "NodeOnline", "nodeOnlineShape"},
			{st, "StorageState", "NodeOffline", "nodeOfflineShape"},
			{db, "Replica", "Contain", "replicaContainShape"},
			{el, "replicaLeaderElector", "ElectLeader", "electLeaderShape"},
			{sm, "stateManager", "initializeShardState", "initializeShardStateShape"},
			{sm, "stateManager", "onNodeStartup", "onNodeStartupShape"},
			{sm, "stateManager", "onNodeFailure", "onNodeFailureShape"},
			{sm, "stateManager", "onStorageNodeStartup", "onStorageNodeStartupShape"},
			{sm, "stateManager", "onStorageNodeFailure", "onStorageNodeFailureShape"},
			{sm, "stateManager", "onShardAssignmentChange", "onShardAssignmentChangeShape"},
			{sm, "stateManager", "onDatabaseCfgDelete", "onDatabaseCfgDeleteShape"},
		} {
			fd := FindFunc(fr.file, fr.recv, fr.name)
			if fd == nil {
				return "", fmt.Errorf("%s.%s not found", fr.recv, fr.name)
			}
			sb.WriteString("\ndef " + fr.def + " : List String := " + LeanStrList(c18StmtShapeFull(fd.Body.List)) + "\n")
		}
		// JSON field names of what is published under /storage/state
		tags := func(f *ast.File, typ string) ([]string, error) {
			var out []string
			found := false
			ast.Inspect(f, func(n ast.Node) bool {
				ts, ok := n.(*ast.TypeSpec)
				if !ok || ts.Name.Name != typ {
					return true
				}
				stt, ok := ts.Type.(*ast.StructType)
				if !ok {
					return true
				}
				found = true
				for _, fl := range stt.Fields.List {
					tag := ""
					if fl.Tag != nil {
						tag = strings.Trim(fl.Tag.Value, "`")
					}
					for _, nm := range fl.Names {
						out = append(out, nm.Name+" "+types.ExprString(fl.Type)+" "+tag)
					}
				}
				return false
			})
			if !found {
				return nil, fmt.Errorf("struct %s not found", typ)
			}
			return out, nil
		}
		for _, tr := range []struct {
			f        *ast.File
			typ, def string
		}{{st, "StorageState", "storageStateJSON"}, {st, "ShardState", "shardStateJSON"}, {db, "Replica", "replicaJSON"}} {
			tg, err := tags(tr.f, tr.typ)
			if err != nil {
				return "", err
			}
			sb.WriteString("\ndef " + tr.def + " : List String := " + LeanStrList(tg) + "\n")
		}
		// round 12: no hidden derived state — every field (exported or not) of the structs the handlers keep
		// state in; the dispatch of processEvent; the two handlers that never touch the storage state
		for _, tr := range []struct {
			f        *ast.File
			typ, def string
		}{{sm, "stateManager", "stateManagerFields"}, {sc, "storageCluster", "storageClusterFields"}, {db, "ShardAssignment", "shardAssignmentFields"}} {
			tg, err := tags(tr.f, tr.typ)
			if err != nil {
				return "", err
			}
			sb.WriteString("\ndef " + tr.def + " : List String := " + LeanStrList(tg) + "\n")
		}
		for _, fr := range []fnRef{
			{sm, "stateManager", "processEvent", "processEventShape"},
			{sm, "stateManager", "onDatabaseCfgChange", "onDatabaseCfgChangeShape"},
			{sm, "stateManager", "onDatabaseLimitsChange", "onDatabaseLimitsChangeShape"},
			{sc, "storageCluster", "SetDatabaseLimits", "setDatabaseLimitsShape"},
			{sc, "storageCluster", "GetState", "storageGetStateShape"},
		} {
			fd := FindFunc(fr.file, fr.recv, fr.name)
			if fd == nil {
				return "", fmt.Errorf("%s.%s not found", fr.recv, fr.name)
			}
			sb.WriteString("\ndef " + fr.def + " : List String := " + LeanStrList(c18StmtShapeFull(fd.Body.List)) + "\n")
		}
		// the broker-side consumer of the published state: which node a query for a shard is sent to
		_, bsm, err := ParseFile(repo, "coordinator/broker/state_manager.go")
		if err != nil {
			return "", err
		}
		for _, fn := range []string{"GetQueryableReplicas", "onStorageStateChange"} {
			fd := FindFunc(bsm, "stateManager", fn)
			if fd == nil {
				return "", fmt.Errorf("broker stateManager.%s not found", fn)
			}
			sb.WriteString("\ndef broker" + strings.ToUpper(fn[:1]) + fn[1:] + "Shape : List String := " + LeanStrList(c18StmtShapeFull(fd.Body.List)) + "\n")
		}
		// every non-test source file under coordinator/ that names the published key
		var readers []string
		_ = filepath.Walk(filepath.Join(repo, "coordinator"), func(path string, info os.FileInfo, err error) error {
			if err != nil || info.IsDir() || !strings.HasSuffix(path, ".go") || strings.HasSuffix(path, "_test.go") ||
				strings.HasPrefix(filepath.Base(path), "zz_verif") || strings.HasSuffix(path, "_mock.go") {
				return nil
			}
			b, rerr := os.ReadFile(path)
			if rerr != nil {
				return nil
			}
			if n := strings.Count(string(b), "constants.StorageStatePath"); n > 0 {
				rel, _ := filepath.Rel(repo, path)
				readers = append(readers, fmt.Sprintf("%s x%d", filepath.ToSlash(rel), n))
			}
			return nil
		})
		sort.Strings(readers)
		sb.WriteString("\ndef storageStatePathUsers : List String := " + LeanStrList(readers) + "\n")
		capv := int64(-1)
		ast.Inspect(FindFunc(sm, "", "NewStateManager"), func(n ast.Node) bool {
			if ce, ok := n.(*ast.CallExpr); ok {
				if id, ok := ce.Fun.(*ast.Ident); ok && id.Name == "make" && len(ce.Args) == 2 {
					if _, ok := ce.Args[0].(*ast.ChanType); ok {
						if v, ok := evalInt(ce.Args[1], nil, 0); ok {
							capv = v
						}
					}
				}
			}
			return true
		})
		if capv < 0 {
			return "", fmt.Errorf("events channel capacity not found in NewStateManager")
		}
		fmt.Fprintf(&sb, "\ndef eventsCap : Int := %s\n", LeanInt(capv))
		return sb.String(), nil
	}})
}

// c18StmtShape renders the control/statement skeleton of a statement list as a flat token list
// (logging and metric calls are left out: they do not take part in delivery or publishing).
// c18FullExpr: render right-hand sides, range variables and conditions with their full expression text
// (used for the small models.StorageState helpers and the node handlers, where WHICH slice is appended
// to and WHAT is stored matters)
var c18FullExpr bool

func c18StmtShapeFull(stmts []ast.Stmt) []string {
	c18FullExpr = true
	defer func() { c18FullExpr = false }()
	return c18StmtShape(stmts)
}

func c18StmtShape(stmts []ast.Stmt) []string {
	var out []string
	isNoise := func(e ast.Expr) bool {
		t := types.ExprString(e)
		return strings.Contains(t, ".logger.") || strings.Contains(t, "tatistics.")
	}
	rhs := func(e ast.Expr) string {
		if c18FullExpr {
			return types.ExprString(e)
		}
		switch x := e.(type) {
		case *ast.CallExpr:
			return "call " + exprName(x.Fun)
		case *ast.UnaryExpr:
			if x.Op == token.ARROW {
				return "recv " + types.ExprString(x.X)
			}
		}
		return types.ExprString(e)
	}
	var simple func(s ast.Stmt) string
	simple = func(s ast.Stmt) string {
		switch x := s.(type) {
		case *ast.SendStmt:
			return "send " + types.ExprString(x.Chan) + " <- " + types.ExprString(x.Value)
		case *ast.AssignStmt:
			var l, r []string
			for _, e := range x.Lhs {
				l = append(l, types.ExprString(e))
			}
			for _, e := range x.Rhs {
				r = append(r, rhs(e))
			}
			return "assign " + strings.Join(l, ",") + " = " + strings.Join(r, ",")
		case *ast.ExprStmt:
			return rhs(x.X)
		case *ast.IncDecStmt:
			return "incdec " + types.ExprString(x.X)
		}
		return fmt.Sprintf("stmt %T", s)
	}
	var walk func(l []ast.Stmt)
	walk = func(l []ast.Stmt) {
		for _, s := range l {
			switch x := s.(type) {
			case *ast.ExprStmt:
				if isNoise(x.X) {
					continue
				}
				out = append(out, simple(x))
			case *ast.DeferStmt:
				out = append(out, "defer "+exprName(x.Call.Fun))
			case *ast.GoStmt:
				out = append(out, "go "+exprName(x.Call.Fun))
			case *ast.ReturnStmt:
				var r []string
				for _, e := range x.Results {
					r = append(r, rhs(e))
				}
				out = append(out, strings.TrimSpace("return "+strings.Join(r, ",")))
			case *ast.IfStmt:
				out = append(out, "if")
				if x.Init != nil {
					out = append(out, simple(x.Init))
				}
				out = append(out, "cond "+types.ExprString(x.Cond), "{")
				walk(x.Body.List)
				out = append(out, "}")
				if x.Else != nil {
					out = append(out, "else", "{")
					if b, ok := x.Else.(*ast.BlockStmt); ok {
						walk(b.List)
					} else {
						walk([]ast.Stmt{x.Else})
					}
					out = append(out, "}")
				}
			case *ast.ForStmt:
				out = append(out, "for", "{")
				walk(x.Body.List)
				out = append(out, "}")
			case *ast.RangeStmt:
				if c18FullExpr {
					kv := ""
					if x.Key != nil {
						kv = types.ExprString(x.Key)
					}
					if x.Value != nil {
						kv += "," + types.ExprString(x.Value)
					}
					out = append(out, "range "+kv+" := "+types.ExprString(x.X), "{")
				} else {
					out = append(out, "range "+types.ExprString(x.X), "{")
				}
				walk(x.Body.List)
				out = append(out, "}")
			case *ast.SelectStmt:
				out = append(out, "select", "{")
				for _, cc := range x.Body.List {
					c := cc.(*ast.CommClause)
					if c.Comm == nil {
						out = append(out, "default")
					} else {
						out = append(out, "case "+simple(c.Comm))
					}
					walk(c.Body)
				}
				out = append(out, "}")
			case *ast.BlockStmt:
				walk(x.List)
			case *ast.SwitchStmt:
				tag := ""
				if x.Tag != nil {
					tag = " " + types.ExprString(x.Tag)
				}
				out = append(out, "switch"+tag, "{")
				for _, cc := range x.Body.List {
					cl := cc.(*ast.CaseClause)
					if cl.List == nil {
						out = append(out, "default")
					} else {
						var es []string
						for _, e := range cl.List {
							es = append(es, types.ExprString(e))
						}
						out = append(out, "case "+strings.Join(es, ","))
					}
					walk(cl.Body)
				}
				out = append(out, "}")
			default:
				out = append(out, simple(s))
			}
		}
	}
	walk(stmts)
	return out
}
