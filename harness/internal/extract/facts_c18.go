package extract

import (
	"fmt"
	"strings"
)

// C18: shard-state constants, replicaIndex and the two formulas of the assignment loop.
func init() {
	Register(Fact{Module: "C18", Gen: func(repo string) (string, error) {
		_, st, err := ParseFile(repo, "models/state.go")
		if err != nil {
			return "", err
		}
		cs := ConstInts(st)
		var sb strings.Builder
		for _, n := range []string{"UnknownShard", "NewShard", "OnlineShard", "OfflineShard", "NoLeader"} {
			v, ok := cs[n]
			if !ok {
				return "", fmt.Errorf("constant %s not found in models/state.go", n)
			}
			fmt.Fprintf(&sb, "def %s : Int := %s\n", strings.ToLower(n[:1])+n[1:], LeanInt(v))
		}
		_, sa, err := ParseFile(repo, "coordinator/master/shard_assign.go")
		if err != nil {
			return "", err
		}
		ri, err := IntFunc(FindFunc(sa, "", "replicaIndex"), "replicaIndex", nil, nil)
		if err != nil {
			return "", err
		}
		sb.WriteString("\n" + ri)
		loop := FindFunc(sa, "", "assignReplicasToStorageNodes")
		fr, err := ExprDef(FindAssign(loop, "firstReplicaIndex"), "firstReplicaIndex",
			[]string{"currentShardID", "startIndex", "numOfNode"}, nil, nil)
		if err != nil {
			return "", err
		}
		sb.WriteString("\n" + fr)
		bc, err := CondDef(FindIfWithIncDec(loop, "nextReplicaShift"), "bumpCond",
			[]string{"currentShardID", "numOfNode"}, nil)
		if err != nil {
			return "", err
		}
		sb.WriteString("\n" + bc)
		sb.WriteString("\ndef assignLoopCalls : List String := " + LeanStrList(CallSeq(loop)) + "\n")
		_, el, err := ParseFile(repo, "coordinator/master/replica_leader_elector.go")
		if err != nil {
			return "", err
		}
		sb.WriteString("\ndef electLeaderCalls : List String := " + LeanStrList(CallSeq(FindFunc(el, "replicaLeaderElector", "ElectLeader"))) + "\n")
		return sb.String(), nil
	}})
}
