package extract

import (
	"bytes"
	"fmt"
	"go/ast"
	"go/printer"
	"go/token"
	"os"
	"path/filepath"
	"strconv"
	"strings"
)

// C16: the rejection rules of validateMetric (condition text + returned error, in source order),
// the tag order (KeyValues.Less) and the de-duplication loop, the proto→flat field-type switch,
// the write-window condition, the batch/family sort orders, the hash separators, the write
// limits' defaults and enable rules.

// c16Src renders a node as one line of normalised Go source.
func c16Src(fset *token.FileSet, n ast.Node) string {
	var b bytes.Buffer
	_ = printer.Fprint(&b, fset, n)
	return strings.Join(strings.Fields(b.String()), " ")
}

// c16BodySrc renders the statements of a function body.
func c16BodySrc(fset *token.FileSet, fd *ast.FuncDecl) (string, error) {
	if fd == nil || fd.Body == nil {
		return "", fmt.Errorf("function not found")
	}
	var parts []string
	for _, s := range fd.Body.List {
		parts = append(parts, c16Src(fset, s))
	}
	return strings.Join(parts, " ; "), nil
}

// c16Rules walks a function body in source order and lists every `return <non-nil error>` with
// the conjunction of the if-conditions that guard it inside its innermost enclosing loop/func
// (loops contribute "for"), as (condition, error-name) pairs.
func c16Rules(fset *token.FileSet, fd *ast.FuncDecl) [][2]string {
	var out [][2]string
	var walk func(stmts []ast.Stmt, guard []string)
	walk = func(stmts []ast.Stmt, guard []string) {
		for _, s := range stmts {
			switch x := s.(type) {
			case *ast.ReturnStmt:
				if len(x.Results) == 1 {
					name := c16Src(fset, x.Results[0])
					if name != "nil" {
						out = append(out, [2]string{strings.Join(guard, " && "), name})
					} else if len(guard) > 0 {
						out = append(out, [2]string{strings.Join(guard, " && "), "accept"})
					}
				}
			case *ast.IfStmt:
				walk(x.Body.List, append(append([]string{}, guard...), c16Src(fset, x.Cond)))
				if x.Else != nil {
					if eb, ok := x.Else.(*ast.BlockStmt); ok {
						walk(eb.List, append(append([]string{}, guard...), "!("+c16Src(fset, x.Cond)+")"))
					}
				}
			case *ast.ForStmt:
				walk(x.Body.List, []string{})
			case *ast.RangeStmt:
				walk(x.Body.List, []string{})
			case *ast.BlockStmt:
				walk(x.List, guard)
			}
		}
	}
	if fd != nil && fd.Body != nil {
		walk(fd.Body.List, nil)
	}
	return out
}

// c16RulesLast is c16Rules for functions with several results: the LAST result is the error; the error
// expression is cut at its first '(' argument list end (fmt.Errorf format string kept).
func c16RulesLast(fset *token.FileSet, fd *ast.FuncDecl) [][2]string {
	var out [][2]string
	var walk func(stmts []ast.Stmt, guard []string)
	walk = func(stmts []ast.Stmt, guard []string) {
		for _, s := range stmts {
			switch x := s.(type) {
			case *ast.ReturnStmt:
				if len(x.Results) >= 1 {
					name := c16Src(fset, x.Results[len(x.Results)-1])
					if name != "nil" && name != "err" && name != "err0" {
						out = append(out, [2]string{strings.Join(guard, " && "), name})
					}
				}
			case *ast.IfStmt:
				g := c16Src(fset, x.Cond)
				if x.Init != nil {
					g = c16Src(fset, x.Init) + "; " + g
				}
				walk(x.Body.List, append(append([]string{}, guard...), g))
			case *ast.ForStmt:
				walk(x.Body.List, []string{})
			case *ast.RangeStmt:
				walk(x.Body.List, []string{})
			case *ast.BlockStmt:
				walk(x.List, guard)
			case *ast.LabeledStmt:
				walk([]ast.Stmt{x.Stmt}, guard)
			}
		}
	}
	if fd != nil && fd.Body != nil {
		walk(fd.Body.List, nil)
	}
	return out
}

// c16CommonDir finds the source of the pinned github.com/lindb/common (the RowBuilder the flat and influx
// paths build their rows with) in the module cache: version from /repo's go.mod.
func c16CommonDir(repo string) (ver, dir string, err error) {
	data, err := os.ReadFile(filepath.Join(repo, "go.mod"))
	if err != nil {
		return "", "", err
	}
	for _, ln := range strings.Split(string(data), "\n") {
		f := strings.Fields(ln)
		for i := 0; i+1 < len(f); i++ {
			if f[i] == "github.com/lindb/common" && strings.HasPrefix(f[i+1], "v") {
				ver = f[i+1]
			}
		}
	}
	if ver == "" {
		return "", "", fmt.Errorf("github.com/lindb/common not required by go.mod")
	}
	var cands []string
	if v := os.Getenv("GOMODCACHE"); v != "" {
		cands = append(cands, v)
	}
	if v := os.Getenv("GOPATH"); v != "" {
		cands = append(cands, filepath.Join(v, "pkg", "mod"))
	}
	if h, e := os.UserHomeDir(); e == nil {
		cands = append(cands, filepath.Join(h, "go", "pkg", "mod"))
	}
	for _, c := range cands {
		d := filepath.Join(c, "github.com", "lindb", "common@"+ver)
		if _, e := os.Stat(filepath.Join(d, "series", "row_builder.go")); e == nil {
			return ver, d, nil
		}
	}
	return "", "", fmt.Errorf("source of github.com/lindb/common@%s not found in the module cache", ver)
}

func leanPairs(ps [][2]string) string {
	q := make([]string, len(ps))
	for i, p := range ps {
		q[i] = "(" + strconv.Quote(p[0]) + ", " + strconv.Quote(p[1]) + ")"
	}
	return "[\n  " + strings.Join(q, ",\n  ") + "]"
}

// c16TypeSwitch lists (case expression, argument of the …AddType call in that case).
func c16TypeSwitch(fset *token.FileSet, fd *ast.FuncDecl) [][2]string {
	var out [][2]string
	if fd == nil {
		return out
	}
	ast.Inspect(fd.Body, func(n ast.Node) bool {
		sw, ok := n.(*ast.SwitchStmt)
		if !ok {
			return true
		}
		for _, c := range sw.Body.List {
			cc := c.(*ast.CaseClause)
			var arg string
			for _, st := range cc.Body {
				ast.Inspect(st, func(m ast.Node) bool {
					if call, ok := m.(*ast.CallExpr); ok && strings.HasSuffix(exprName(call.Fun), "SimpleFieldAddType") && len(call.Args) == 2 {
						arg = c16Src(fset, call.Args[1])
					}
					return true
				})
			}
			for _, e := range cc.List {
				out = append(out, [2]string{c16Src(fset, e), arg})
			}
			if cc.List == nil {
				out = append(out, [2]string{"default", arg})
			}
		}
		return false
	})
	return out
}

// c16NameFlow classifies where the protobuf converter applies SanitizeMetricName / SanitizeNamespace:
// [0] validateMetric assigns the sanitised string back to m.Name / m.Namespace, [1] the argument of the
// CreateString that becomes the row's name / namespace is sanitised, [2] the string hashOfName writes into
// the hash buffer is sanitised. Any other shape (another function applied, another assignment to
// m.Name / m.Namespace) is an extraction failure: the model does not know it.
func c16NameFlow(fset *token.FileSet, validate, marshal, hashOfName *ast.FuncDecl) (name, ns [3]bool, err error) {
	const (
		rawName = "m.Name"
		sanName = "commonseries.SanitizeMetricName(m.Name)"
		rawNs   = "m.Namespace"
		sanNs   = "commonseries.SanitizeNamespace(m.Namespace)"
	)
	classify := func(what, src string, isNs bool) (bool, error) {
		raw, san := rawName, sanName
		if isNs {
			raw, san = rawNs, sanNs
		}
		switch src {
		case raw:
			return false, nil
		case san:
			return true, nil
		}
		return false, fmt.Errorf("%s: %q is neither %s nor %s", what, src, raw, san)
	}
	// validateMetric: assignments to m.Name / m.Namespace
	ast.Inspect(validate.Body, func(n ast.Node) bool {
		as, ok := n.(*ast.AssignStmt)
		if !ok || len(as.Lhs) != 1 || len(as.Rhs) != 1 || err != nil {
			return true
		}
		lhs, rhs := c16Src(fset, as.Lhs[0]), c16Src(fset, as.Rhs[0])
		switch lhs {
		case rawName:
			if rhs != sanName {
				err = fmt.Errorf("validateMetric assigns m.Name = %s", rhs)
			}
			name[0] = true
		case rawNs:
			switch rhs {
			case "string(rc.namespace)": // the request namespace overrides the metric's
			case sanNs:
				ns[0] = true
			default:
				err = fmt.Errorf("validateMetric assigns m.Namespace = %s", rhs)
			}
		}
		return true
	})
	if err != nil {
		return
	}
	// MarshalProtoMetricV1: metricName := rc.flatBuilder.CreateString(X); namespace := rc.flatBuilder.CreateString(Y)
	seen := map[string]bool{}
	ast.Inspect(marshal.Body, func(n ast.Node) bool {
		as, ok := n.(*ast.AssignStmt)
		if !ok || len(as.Lhs) != 1 || len(as.Rhs) != 1 || err != nil {
			return true
		}
		lhs := c16Src(fset, as.Lhs[0])
		if lhs != "metricName" && lhs != "namespace" {
			return true
		}
		call, ok := as.Rhs[0].(*ast.CallExpr)
		if !ok || c16Src(fset, call.Fun) != "rc.flatBuilder.CreateString" || len(call.Args) != 1 {
			err = fmt.Errorf("MarshalProtoMetricV1: %s := %s is not a CreateString call", lhs, c16Src(fset, as.Rhs[0]))
			return true
		}
		seen[lhs] = true
		if lhs == "metricName" {
			name[1], err = classify("MarshalProtoMetricV1 metricName", c16Src(fset, call.Args[0]), false)
		} else {
			ns[1], err = classify("MarshalProtoMetricV1 namespace", c16Src(fset, call.Args[0]), true)
		}
		return true
	})
	if err == nil && (!seen["metricName"] || !seen["namespace"]) {
		err = fmt.Errorf("MarshalProtoMetricV1: the CreateString calls of metricName / namespace were not found")
	}
	if err != nil {
		return
	}
	// hashOfName: rc.hashBuf.WriteString(<namespace>), rc.hashBuf.WriteString(<name>) in this order
	var writes []string
	ast.Inspect(hashOfName.Body, func(n ast.Node) bool {
		if call, ok := n.(*ast.CallExpr); ok && c16Src(fset, call.Fun) == "rc.hashBuf.WriteString" && len(call.Args) == 1 {
			writes = append(writes, c16Src(fset, call.Args[0]))
		}
		return true
	})
	if len(writes) != 2 {
		err = fmt.Errorf("hashOfName writes %v into the hash buffer; the model knows namespace then name", writes)
		return
	}
	if ns[2], err = classify("hashOfName namespace", writes[0], true); err != nil {
		return
	}
	name[2], err = classify("hashOfName name", writes[1], false)
	return
}

func init() {
	Register(Fact{Module: "C16", Gen: func(repo string) (string, error) {
		var sb strings.Builder
		def := func(name, val string) { fmt.Fprintf(&sb, "def %s : String := %s\n\n", name, strconv.Quote(val)) }

		// --- series/metric/row_proto_converter.go
		fset, cv, err := ParseFile(repo, "series/metric/row_proto_converter.go")
		if err != nil {
			return "", err
		}
		vm := FindFunc(cv, "BrokerRowProtoConverter", "validateMetric")
		if vm == nil {
			return "", fmt.Errorf("validateMetric not found")
		}
		sb.WriteString("/-- validateMetric: (guard, returned error) in source order; loops reset the guard -/\n")
		sb.WriteString("def validateRules : List (String × String) := " + leanPairs(c16Rules(fset, vm)) + "\n\n")
		dd := FindFunc(cv, "BrokerRowProtoConverter", "deDupTags")
		s, err := c16BodySrc(fset, dd)
		if err != nil {
			return "", fmt.Errorf("deDupTags: %w", err)
		}
		def("deDupTagsSrc", s)
		mp := FindFunc(cv, "BrokerRowProtoConverter", "MarshalProtoMetricV1")
		if mp == nil {
			return "", fmt.Errorf("MarshalProtoMetricV1 not found")
		}
		sb.WriteString("def typeSwitch : List (String × String) := " + leanPairs(c16TypeSwitch(fset, mp)) + "\n\n")
		// order of the pipeline inside MarshalProtoMetricV1: validate, dedup, ..., hash of the de-duplicated tags
		var pipe []string
		for _, c := range CallSeq(mp) {
			switch c {
			case "rc.resetForNextConverter", "rc.validateMetric", "rc.deDupTags", "tag.XXHashOfKeyValues", "rc.hashOfName", "flatMetricsV1.MetricAddKvsHash", "flatMetricsV1.MetricAddTimestamp", "flatMetricsV1.MetricAddName", "flatMetricsV1.MetricAddNamespace":
				pipe = append(pipe, c)
			}
		}
		sb.WriteString("def marshalPipeline : List String := " + LeanStrList(pipe) + "\n\n")

		// the pooled converter: what is reset when, and how a request takes it from the pool
		for _, f := range [][3]string{
			{"BrokerRowProtoConverter", "resetForNextConverter", "protoResetForNextSrc"},
			{"BrokerRowProtoConverter", "Reset", "protoResetSrc"},
			{"", "NewBrokerRowProtoConverter", "protoNewConverterSrc"},
			{"BrokerRowProtoConverter", "ConvertTo", "protoConvertToSrc"},
		} {
			src, err := c16BodySrc(fset, FindFunc(cv, f[0], f[1]))
			if err != nil {
				return "", fmt.Errorf("%s.%s: %w", f[0], f[1], err)
			}
			def(f[2], src)
		}

		// where the converter sanitises name / namespace ('|' -> '_') relative to the two uses of the strings:
		// the string written into the flat row (CreateString) and the string hashOfName hashes.
		hn := FindFunc(cv, "BrokerRowProtoConverter", "hashOfName")
		hns, err := c16BodySrc(fset, hn)
		if err != nil {
			return "", fmt.Errorf("hashOfName: %w", err)
		}
		def("hashOfNameSrc", hns)
		nameFlow, nsFlow, err := c16NameFlow(fset, vm, mp, hn)
		if err != nil {
			return "", err
		}
		sb.WriteString("/-- metric NAME of the protobuf converter: sanitised (in place by validateMetric, in the argument of CreateString, in the argument hashOfName hashes) -/\n")
		fmt.Fprintf(&sb, "def protoNameFlow : Bool × Bool × Bool := (%v, %v, %v)\n\n", nameFlow[0], nameFlow[1], nameFlow[2])
		sb.WriteString("/-- NAMESPACE of the protobuf converter: the same three places -/\n")
		fmt.Fprintf(&sb, "def protoNsFlow : Bool × Bool × Bool := (%v, %v, %v)\n\n", nsFlow[0], nsFlow[1], nsFlow[2])

		// --- series/tag/tag.go
		fsetT, tg, err := ParseFile(repo, "series/tag/tag.go")
		if err != nil {
			return "", err
		}
		ls, err := c16BodySrc(fsetT, FindFunc(tg, "KeyValues", "Less"))
		if err != nil {
			return "", fmt.Errorf("KeyValues.Less: %w", err)
		}
		def("lessSrc", ls)
		switch ls {
		case "return kvs[i].Key < kvs[j].Key":
			sb.WriteString("/-- KeyValues.Less compares keys only -/\ndef lessTieBreakOnValue : Bool := false\n\n")
		case "if kvs[i].Key != kvs[j].Key { return kvs[i].Key < kvs[j].Key } ; return kvs[i].Value < kvs[j].Value":
			sb.WriteString("/-- KeyValues.Less compares the key, then the value -/\ndef lessTieBreakOnValue : Bool := true\n\n")
		default:
			return "", fmt.Errorf("KeyValues.Less has a shape the model does not know: %s", ls)
		}
		s, err = c16BodySrc(fsetT, FindFunc(tg, "KeyValues", "DeDup"))
		if err != nil {
			return "", fmt.Errorf("KeyValues.DeDup: %w", err)
		}
		def("tagDeDupSrc", s)
		hs, err := c16BodySrc(fsetT, FindFunc(tg, "", "xxHashOfSortedKeyValuesOnSlice"))
		if err != nil {
			return "", fmt.Errorf("xxHashOfSortedKeyValuesOnSlice: %w", err)
		}
		def("hashConcatSrc", hs)
		var xs []string
		for _, c := range CallSeq(FindFunc(tg, "", "XXHashOfKeyValues")) {
			switch c {
			case "sort.IsSorted", "sort.Sort", "xxHashOfSortedKeyValuesOnSlice":
				xs = append(xs, c)
			}
		}
		sb.WriteString("def xxHashOfKeyValuesCalls : List String := " + LeanStrList(xs) + "\n\n")

		// --- series/metric/row_broker.go
		fsetB, rb, err := ParseFile(repo, "series/metric/row_broker.go")
		if err != nil {
			return "", err
		}
		for _, f := range [][3]string{
			{"BrokerBatchRows", "EvictOutOfTimeRange", "evictSrc"},
			{"BrokerBatchRows", "Less", "batchLessSrc"},
			{"familySortedRows", "Less", "familyLessSrc"},
			{"BrokerRow", "WriteTo", "writeToSrc"},
			{"BrokerBatchRows", "NewShardGroupIterator", "newShardGroupIteratorSrc"},
			{"BrokerBatchRows", "reset", "batchResetSrc"},
			{"BrokerBatchRows", "TryAppend", "batchTryAppendSrc"},
			{"BrokerBatchRows", "Rows", "batchRowsSrc"},
			{"BrokerBatchRows", "Len", "batchLenSrc"},
			{"BrokerBatchRows", "Release", "batchReleaseSrc"},
			{"BrokerRow", "FromBlock", "fromBlockSrc"},
			{"BrokerBatchShardIterator", "HasRowsForNextShard", "hasRowsForNextShardSrc"},
			{"BrokerBatchShardFamilyIterator", "reset", "familyResetSrc"},
			{"BrokerBatchShardFamilyIterator", "isSameFamily", "isSameFamilySrc"},
			{"BrokerBatchShardFamilyIterator", "HasNextFamily", "hasNextFamilySrc"},
			{"BrokerBatchShardFamilyIterator", "timeRangeOfTimestamp", "timeRangeOfTimestampSrc"},
		} {
			s, err := c16BodySrc(fsetB, FindFunc(rb, f[0], f[1]))
			if err != nil {
				return "", fmt.Errorf("%s.%s: %w", f[0], f[1], err)
			}
			def(f[2], s)
		}

		// does appending a row into a (pooled) slot clear the slot's IsOutOfTimeRange mark?
		clears := false
		for _, f := range [][2]string{{"BrokerBatchRows", "TryAppend"}, {"BrokerRow", "FromBlock"}, {"BrokerBatchRows", "reset"}} {
			fd := FindFunc(rb, f[0], f[1])
			if fd == nil {
				return "", fmt.Errorf("%s.%s not found", f[0], f[1])
			}
			ast.Inspect(fd.Body, func(n ast.Node) bool {
				if as, ok := n.(*ast.AssignStmt); ok && len(as.Lhs) == 1 && len(as.Rhs) == 1 {
					if se, ok := as.Lhs[0].(*ast.SelectorExpr); ok && se.Sel.Name == "IsOutOfTimeRange" {
						if id, ok := as.Rhs[0].(*ast.Ident); ok && id.Name == "false" {
							clears = true
						}
					}
				}
				return true
			})
		}
		fmt.Fprintf(&sb, "/-- TryAppend / FromBlock / reset assign `IsOutOfTimeRange = false` -/\ndef appendClearsMark : Bool := %v\n\n", clears)

		// --- pkg/timeutil/time_range.go
		fsetR, tr, err := ParseFile(repo, "pkg/timeutil/time_range.go")
		if err != nil {
			return "", err
		}
		s, err = c16BodySrc(fsetR, FindFunc(tr, "TimeRange", "Contains"))
		if err != nil {
			return "", fmt.Errorf("TimeRange.Contains: %w", err)
		}
		def("containsSrc", s)

		// --- replica/channel_database.go: order of evict / shard iterator / family iterator / write
		_, cd, err := ParseFile(repo, "replica/channel_database.go")
		if err != nil {
			return "", err
		}
		var ws []string
		for _, c := range CallSeq(FindFunc(cd, "databaseChannel", "Write")) {
			switch c {
			case "brokerBatchRows.EvictOutOfTimeRange", "brokerBatchRows.NewShardGroupIterator", "shardingIterator.HasRowsForNextShard", "dc.getChannelByShardID",
				"shardingIterator.FamilyRowsForNextShard", "familyIterator.HasNextFamily", "familyIterator.NextFamily",
				"channel.GetOrCreateFamilyChannel", "familyChannel.Write":
				ws = append(ws, c)
			}
		}
		sb.WriteString("def channelWriteCalls : List String := " + LeanStrList(ws) + "\n\n")
		// the shard count the batch is sharded with, and where the shard's channel is looked up
		fsetD, cd2, err := ParseFile(repo, "replica/channel_database.go")
		if err != nil {
			return "", err
		}
		shardArg, lookup := "", ""
		if wf := FindFunc(cd2, "databaseChannel", "Write"); wf != nil {
			ast.Inspect(wf.Body, func(n ast.Node) bool {
				if as, ok := n.(*ast.AssignStmt); ok && len(as.Rhs) == 1 {
					if call, ok := as.Rhs[0].(*ast.CallExpr); ok {
						switch exprName(call.Fun) {
						case "brokerBatchRows.NewShardGroupIterator":
							if len(call.Args) == 1 {
								shardArg = c16Src(fsetD, call.Args[0])
							}
						}
						if len(as.Lhs) == 2 && c16Src(fsetD, as.Lhs[0]) == "channel" {
							lookup = c16Src(fsetD, as.Rhs[0])
						}
					}
				}
				return true
			})
		}
		def("channelWriteShardCountArg", shardArg)
		def("channelWriteChannelLookup", lookup)
		s, err = c16BodySrc(fsetD, FindFunc(cd2, "databaseChannel", "getChannelByShardID"))
		if err != nil {
			return "", fmt.Errorf("getChannelByShardID: %w", err)
		}
		def("getChannelByShardIDSrc", s)

		// --- series/metric/row_flat_decoder.go: per-row reset of the decoder's scratch state
		fsetF, fdc, err := ParseFile(repo, "series/metric/row_flat_decoder.go")
		if err != nil {
			return "", err
		}
		s, err = c16BodySrc(fsetF, FindFunc(fdc, "BrokerRowFlatDecoder", "resetForNextDecode"))
		if err != nil {
			return "", fmt.Errorf("resetForNextDecode: %w", err)
		}
		def("flatResetForNextDecodeSrc", s)
		var fc []string
		for _, c := range CallSeq(FindFunc(fdc, "BrokerRowFlatDecoder", "DecodeTo")) {
			switch c {
			case "itr.resetForNextDecode", "itr.rebuild", "rowBuilder.Build", "row.FromBlock":
				fc = append(fc, c)
			}
		}
		sb.WriteString("def flatDecodeToCalls : List String := " + LeanStrList(fc) + "\n\n")
		var rc []string
		for _, c := range CallSeq(FindFunc(fdc, "BrokerRowFlatDecoder", "rebuild")) {
			if strings.HasPrefix(c, "rowBuilder.") || c == "append" {
				rc = append(rc, c)
			}
		}
		sb.WriteString("def flatRebuildCalls : List String := " + LeanStrList(rc) + "\n\n")

		// --- ingestion/influx/parser.go: the delimiter sets of the escape codes, the scanner, the unescapers
		fsetI, ip, err := ParseFile(repo, "ingestion/influx/parser.go")
		if err != nil {
			return "", err
		}
		codes := map[string][]int64{}
		for _, d := range ip.Decls {
			gd, ok := d.(*ast.GenDecl)
			if !ok || gd.Tok != token.VAR {
				continue
			}
			for _, sp := range gd.Specs {
				vs := sp.(*ast.ValueSpec)
				for i, nm := range vs.Names {
					if i >= len(vs.Values) || (nm.Name != "tagEscapeCodes" && nm.Name != "metricNameEscapeCodes") {
						continue
					}
					ast.Inspect(vs.Values[i], func(n ast.Node) bool {
						if kv, ok := n.(*ast.KeyValueExpr); ok {
							if id, ok := kv.Key.(*ast.Ident); ok && id.Name == "k" {
								if cl, ok := kv.Value.(*ast.CompositeLit); ok && len(cl.Elts) == 1 {
									if v, ok := evalInt(cl.Elts[0], nil, 0); ok {
										codes[nm.Name] = append(codes[nm.Name], v)
									}
								}
							}
						}
						return true
					})
				}
			}
		}
		for _, nm := range []string{"metricNameEscapeCodes", "tagEscapeCodes"} {
			if len(codes[nm]) == 0 {
				return "", fmt.Errorf("%s not found in ingestion/influx/parser.go", nm)
			}
			q := make([]string, len(codes[nm]))
			for i, v := range codes[nm] {
				q[i] = fmt.Sprintf("Char.ofNat %d", v)
			}
			fmt.Fprintf(&sb, "/-- the characters escaped with a backslash (`k` of %s, in pass order) -/\ndef influx%s%s : List Char := [%s]\n\n", nm, strings.ToUpper(nm[:1]), nm[1:], strings.Join(q, ", "))
		}
		for _, f := range [][2]string{{"walkToUnescapedChar", "influxWalkToUnescapedCharSrc"}, {"unescapeTag", "influxUnescapeTagSrc"}, {"unescapeMetricName", "influxUnescapeMetricNameSrc"},
			{"parseField", "influxParseFieldSrc"}, {"toLinSimpleField", "influxToLinSimpleFieldSrc"}, {"parseFields", "influxParseFieldsSrc"}} {
			s, err := c16BodySrc(fsetI, FindFunc(ip, "", f[0]))
			if err != nil {
				return "", fmt.Errorf("%s: %w", f[0], err)
			}
			def(f[1], s)
		}

		// the float branch of parseField: ParseFloat's NaN/Inf results are passed on (RowBuilder.AddSimpleField
		// rejects them, and with them the whole line); only a syntax error makes the field a "bad field"
		floatBranch := ""
		if pf := FindFunc(ip, "", "parseField"); pf != nil {
			ast.Inspect(pf.Body, func(n ast.Node) bool {
				cc, ok := n.(*ast.CaseClause)
				if !ok || cc.List != nil {
					return true
				}
				var parts []string
				has := false
				for _, st := range cc.Body {
					txt := c16Src(fsetI, st)
					parts = append(parts, txt)
					if strings.Contains(txt, "strconv.ParseFloat") && !strings.Contains(txt, "switch") {
						has = true
					}
				}
				if has {
					floatBranch = strings.Join(parts, " ; ")
				}
				return true
			})
		}
		if floatBranch == "" {
			return "", fmt.Errorf("float branch of influx parseField not found")
		}
		def("influxParseFieldFloatBranchSrc", floatBranch)

		// --- round 12: the line parser as far as it touches the RowBuilder, and the request loop of influx.Parse
		pl := FindFunc(ip, "", "parseInfluxLineWithEnriched")
		if pl == nil {
			return "", fmt.Errorf("parseInfluxLineWithEnriched not found")
		}
		var plCalls []string
		for _, c := range CallSeq(pl) {
			switch c {
			case "builder.AddNameSpace", "scanMetricName", "builder.AddMetricName", "scanTagLine", "parseTags", "builder.AddTag",
				"scanFieldLine", "parseFields", "builder.AddSimpleField", "parseTimestamp", "builder.AddTimestamp", "builder.Reset":
				plCalls = append(plCalls, c)
			}
		}
		sb.WriteString("/-- parseInfluxLineWithEnriched: scanning steps and RowBuilder calls in source order -/\ndef influxParseLineCalls : List String := " + LeanStrList(plCalls) + "\n\n")
		sb.WriteString("/-- parseInfluxLineWithEnriched: (guard, returned value) of every early return, in source order -/\ndef influxParseLineRules : List (String × String) := " + leanPairs(c16Rules(fsetI, pl)) + "\n\n")
		fsetP, ipf, err := ParseFile(repo, "ingestion/influx/influx.go")
		if err != nil {
			return "", err
		}
		pf := FindFunc(ipf, "", "Parse")
		if pf == nil {
			return "", fmt.Errorf("influx.Parse not found")
		}
		var loop *ast.ForStmt
		ast.Inspect(pf.Body, func(n ast.Node) bool {
			if fs, ok := n.(*ast.ForStmt); ok && loop == nil && fs.Cond != nil && strings.Contains(c16Src(fsetP, fs.Cond), "HasNext") {
				loop = fs
			}
			return true
		})
		if loop == nil {
			return "", fmt.Errorf("influx.Parse: the loop over the lines was not found")
		}
		// Where does rowBuilder.Reset() stand? At the top = a top-level statement of the loop body before any
		// statement that can `continue` or calls the line parser. Anywhere else (or behind a condition): not at
		// the top. No Reset in the loop at all: extraction failure.
		resetAtTop, resetSeen, blocked := false, false, false
		var loopStmts []string
		for _, st := range loop.Body.List {
			txt := c16Src(fsetP, st)
			isReset := false
			if es, ok := st.(*ast.ExprStmt); ok {
				if ce, ok := es.X.(*ast.CallExpr); ok && exprName(ce.Fun) == "rowBuilder.Reset" {
					isReset = true
				}
			}
			switch {
			case isReset:
				loopStmts = append(loopStmts, "rowBuilder.Reset()")
				if !blocked {
					resetAtTop = true
				}
				resetSeen = true
			case strings.Contains(txt, "continue") || strings.Contains(txt, "parseInfluxLine") || strings.Contains(txt, "rowBuilder.") || strings.Contains(txt, "return"):
				blocked = true
				switch {
				case strings.Contains(txt, "parseInfluxLine"):
					loopStmts = append(loopStmts, "parse-line-or-continue")
				case strings.Contains(txt, "rowBuilder.AddTag"):
					loopStmts = append(loopStmts, "enriched-tags-or-fail")
				case strings.Contains(txt, "rowBuilder.Build"):
					loopStmts = append(loopStmts, "append-built-row-or-continue")
				case strings.Contains(txt, "HasPrefix"):
					loopStmts = append(loopStmts, "comment-continue")
				case strings.Contains(txt, "rowBuilder.Reset"):
					loopStmts = append(loopStmts, "conditional-reset")
					resetSeen = true
				}
			}
		}
		if !resetSeen {
			found := false
			ast.Inspect(loop.Body, func(n ast.Node) bool {
				if ce, ok := n.(*ast.CallExpr); ok && exprName(ce.Fun) == "rowBuilder.Reset" {
					found = true
				}
				return true
			})
			if !found {
				return "", fmt.Errorf("influx.Parse: no rowBuilder.Reset() in the loop over the lines")
			}
		}
		// getPrecisionMultiplier: the switch as a table (precision, multiplier); "default" last
		gp := FindFunc(ipf, "", "getPrecisionMultiplier")
		if gp == nil {
			return "", fmt.Errorf("getPrecisionMultiplier not found")
		}
		var evalC func(e ast.Expr) (int64, bool)
		evalC = func(e ast.Expr) (int64, bool) {
			switch x := e.(type) {
			case *ast.BasicLit:
				f, err := strconv.ParseFloat(x.Value, 64)
				if err != nil || f != float64(int64(f)) {
					return 0, false
				}
				return int64(f), true
			case *ast.ParenExpr:
				return evalC(x.X)
			case *ast.UnaryExpr:
				v, ok := evalC(x.X)
				if x.Op == token.SUB {
					return -v, ok
				}
				return v, ok && x.Op == token.ADD
			case *ast.BinaryExpr:
				a, ok1 := evalC(x.X)
				b, ok2 := evalC(x.Y)
				if x.Op == token.MUL {
					return a * b, ok1 && ok2
				}
			}
			return 0, false
		}
		var precRows []string
		var precErr error
		ast.Inspect(gp.Body, func(n ast.Node) bool {
			cc, ok := n.(*ast.CaseClause)
			if !ok {
				return true
			}
			if len(cc.Body) != 1 {
				precErr = fmt.Errorf("getPrecisionMultiplier: a case with %d statements", len(cc.Body))
				return false
			}
			rs, ok := cc.Body[0].(*ast.ReturnStmt)
			if !ok || len(rs.Results) != 1 {
				precErr = fmt.Errorf("getPrecisionMultiplier: a case that does not return one value")
				return false
			}
			v, ok := evalC(rs.Results[0])
			if !ok {
				precErr = fmt.Errorf("getPrecisionMultiplier: cannot evaluate %s", c16Src(fsetP, rs.Results[0]))
				return false
			}
			if cc.List == nil {
				precRows = append(precRows, fmt.Sprintf("(\"default\", %s)", LeanInt(v)))
			}
			for _, l := range cc.List {
				bl, ok := l.(*ast.BasicLit)
				if !ok || bl.Kind != token.STRING {
					precErr = fmt.Errorf("getPrecisionMultiplier: case label %s", c16Src(fsetP, l))
					return false
				}
				precRows = append(precRows, fmt.Sprintf("(%s, %s)", bl.Value, LeanInt(v)))
			}
			return false
		})
		if precErr != nil {
			return "", precErr
		}
		sb.WriteString("/-- getPrecisionMultiplier: (lower-cased precision, multiplier); > 0: ms = literal * m, < 0: ms = -1 * literal / m, 0: guessed -/\ndef influxPrecisionTable : List (String × Int) := [" + strings.Join(precRows, ", ") + "]\n\n")
		var swTag string
		ast.Inspect(gp.Body, func(n ast.Node) bool {
			if sw, ok := n.(*ast.SwitchStmt); ok && swTag == "" && sw.Tag != nil {
				swTag = c16Src(fsetP, sw.Tag)
			}
			return true
		})
		def("influxPrecisionSwitchTag", swTag)
		s, err = c16BodySrc(fsetI, FindFunc(ip, "", "parseTimestamp"))
		if err != nil {
			return "", fmt.Errorf("parseTimestamp: %w", err)
		}
		def("influxParseTimestampSrc", s)
		fmt.Fprintf(&sb, "/-- influx.Parse: `rowBuilder.Reset()` is a statement of the loop body that runs before anything that can `continue`, fail or touch the builder -/\ndef influxResetAtLoopTop : Bool := %v\n\n", resetAtTop)
		sb.WriteString("/-- influx.Parse: the statements of the loop body that touch the builder or leave the iteration, in source order -/\ndef influxParseLoopSteps : List String := " + LeanStrList(loopStmts) + "\n\n")

		// --- the flat path, branch for branch: rebuild (full body + its rejection rules) and lindb/common's RowBuilder
		s, err = c16BodySrc(fsetF, FindFunc(fdc, "BrokerRowFlatDecoder", "rebuild"))
		if err != nil {
			return "", fmt.Errorf("rebuild: %w", err)
		}
		def("flatRebuildSrc", s)
		sb.WriteString("def flatRebuildRules : List (String × String) := " + leanPairs(c16RulesLast(fsetF, FindFunc(fdc, "BrokerRowFlatDecoder", "rebuild"))) + "\n\n")
		s, err = c16BodySrc(fsetF, FindFunc(fdc, "BrokerRowFlatDecoder", "DecodeTo"))
		if err != nil {
			return "", fmt.Errorf("DecodeTo: %w", err)
		}
		def("flatDecodeToSrc", s)
		fsetRO, ro, err := ParseFile(repo, "series/metric/row_readonly.go")
		if err != nil {
			return "", err
		}
		s, err = c16BodySrc(fsetRO, FindFunc(ro, "readOnlyRow", "NewCompoundFieldIterator"))
		if err != nil {
			return "", fmt.Errorf("NewCompoundFieldIterator: %w", err)
		}
		def("newCompoundFieldIteratorSrc", s)
		ver, dir, err := c16CommonDir(repo)
		if err != nil {
			return "", err
		}
		def("lindbCommonVersion", ver)
		fsetRB, rbf, err := ParseFile(dir, "series/row_builder.go")
		if err != nil {
			return "", err
		}
		for _, f := range [][3]string{
			{"RowBuilder", "Reset", "rowBuilderResetSrc"},
			{"RowBuilder", "AddTag", "rowBuilderAddTagSrc"},
			{"RowBuilder", "AddSimpleField", "rowBuilderAddSimpleFieldSrc"},
			{"RowBuilder", "AddCompoundFieldData", "rowBuilderAddCompoundFieldDataSrc"},
			{"RowBuilder", "AddCompoundFieldMMSC", "rowBuilderAddCompoundFieldMMSCSrc"},
			{"RowBuilder", "AddMetricName", "rowBuilderAddMetricNameSrc"},
			{"RowBuilder", "AddNameSpace", "rowBuilderAddNameSpaceSrc"},
			{"RowBuilder", "dedupTagsThenXXHash", "rowBuilderDedupSrc"},
			{"rowKVs", "Less", "rowKVsLessSrc"},
		} {
			s, err := c16BodySrc(fsetRB, FindFunc(rbf, f[0], f[1]))
			if err != nil {
				return "", fmt.Errorf("lindb/common %s.%s: %w", f[0], f[1], err)
			}
			def(f[2], s)
		}
		sb.WriteString("def rowBuilderBuildRules : List (String × String) := " + leanPairs(c16RulesLast(fsetRB, FindFunc(rbf, "RowBuilder", "Build"))) + "\n\n")

		// --- models/limits.go
		fsetL, lm, err := ParseFile(repo, "models/limits.go")
		if err != nil {
			return "", err
		}
		nd := FindFunc(lm, "", "NewDefaultLimits")
		if nd == nil {
			return "", fmt.Errorf("NewDefaultLimits not found")
		}
		defaults := map[string]int64{}
		ast.Inspect(nd.Body, func(n ast.Node) bool {
			if kv, ok := n.(*ast.KeyValueExpr); ok {
				if id, ok := kv.Key.(*ast.Ident); ok {
					if v, ok := evalInt(kv.Value, nil, 0); ok {
						defaults[id.Name] = v
					}
				}
			}
			return true
		})
		for _, n := range []string{"MaxMetricNameLength", "MaxFieldNameLength", "MaxTagNameLength", "MaxTagValueLength", "MaxTagsPerMetric", "MaxFieldsPerMetric", "MaxNamespaceLength"} {
			v, ok := defaults[n]
			if !ok || v < 0 {
				return "", fmt.Errorf("default limit %s not found", n)
			}
			fmt.Fprintf(&sb, "def default%s : Nat := %d\n", n, v)
		}
		sb.WriteString("\n")
		var en [][2]string
		for _, n := range []string{"EnableMetricNameLengthCheck", "EnableFieldNameLengthCheck", "EnableFieldsCheck", "EnableTagNameLengthCheck", "EnableTagValueLengthCheck", "EnableTagsCheck", "EnableNamespaceLengthCheck"} {
			s, err := c16BodySrc(fsetL, FindFunc(lm, "Limits", n))
			if err != nil {
				return "", fmt.Errorf("Limits.%s: %w", n, err)
			}
			en = append(en, [2]string{n, s})
		}
		sb.WriteString("def limitEnableRules : List (String × String) := " + leanPairs(en) + "\n")
		return sb.String(), nil
	}})
}
