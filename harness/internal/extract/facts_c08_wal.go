package extract

import (
	"fmt"
	"go/ast"
	"strings"
)

// C08, round 13: the critical section of writeAheadLog.GetOrCreatePartition (replica/wal.go) as the ordered list of
// what its top-level statements do with the WAL mutex, the familyLogs map and the log directory:
//
//	lock | defer-unlock | unlock | lookup | store | open-family | open-queue | new-partition | start-replica | call:<w.method>
//
// The Lean side (Props.C08.Tie.wal_open_steps) demands: lock, deferred unlock, lookup, the open, store — one critical
// section from the lookup to the store (model `WalOpen`, shape lockAcross). A lookup moved into a helper, an explicit
// unlock before the open, a second lock before the store: the list changes and the tie breaks.
func c08WalFacts(repo string) (string, error) {
	_, f, err := ParseFile(repo, "replica/wal.go")
	if err != nil {
		return "", err
	}
	fd := FindFunc(f, "writeAheadLog", "GetOrCreatePartition")
	if fd == nil || fd.Body == nil {
		return "", fmt.Errorf("C08: writeAheadLog.GetOrCreatePartition not found")
	}
	var steps []string
	for _, st := range fd.Body.List {
		steps = append(steps, c08WalStmt(st)...)
	}
	return "\n/-- replica/wal.go GetOrCreatePartition: mutex / familyLogs / open steps of its top-level statements, in order -/\n" +
		"def walOpenSteps : List String := " + LeanStrList(steps) + "\n", nil
}

func c08WalStmt(st ast.Stmt) []string {
	var out []string
	isMutex := func(c *ast.CallExpr, m string) bool {
		return c08Text(c.Fun) == "w.mutex."+m
	}
	switch x := st.(type) {
	case *ast.DeferStmt:
		if isMutex(x.Call, "Unlock") {
			return []string{"defer-unlock"}
		}
	case *ast.ExprStmt:
		if c, ok := x.X.(*ast.CallExpr); ok {
			if isMutex(c, "Lock") {
				return []string{"lock"}
			}
			if isMutex(c, "Unlock") {
				return []string{"unlock"}
			}
		}
	}
	// stores to / lookups in w.familyLogs
	stored := map[ast.Node]bool{}
	if as, ok := st.(*ast.AssignStmt); ok {
		for _, l := range as.Lhs {
			if ix, ok := l.(*ast.IndexExpr); ok && c08Text(ix.X) == "w.familyLogs" {
				out = append(out, "store")
				stored[ix] = true
			}
		}
	}
	ast.Inspect(st, func(n ast.Node) bool {
		switch x := n.(type) {
		case *ast.FuncLit:
			return false
		case *ast.IndexExpr:
			if c08Text(x.X) == "w.familyLogs" && !stored[x] {
				out = append(out, "lookup")
			}
		case *ast.CallExpr:
			fn := c08Text(x.Fun)
			switch {
			case strings.HasSuffix(fn, ".GetOrCrateDataFamily"):
				out = append(out, "open-family")
			case fn == "newFanOutQueue":
				out = append(out, "open-queue")
			case fn == "NewPartitionFn":
				out = append(out, "new-partition")
			case strings.HasSuffix(fn, ".StartReplica"):
				out = append(out, "start-replica")
			case fn == "w.mutex.Lock":
				out = append(out, "lock")
			case fn == "w.mutex.Unlock":
				out = append(out, "unlock")
			case strings.HasPrefix(fn, "w.") && strings.Count(fn, ".") == 1:
				out = append(out, "call:"+fn)
			}
		}
		return true
	})
	return out
}
