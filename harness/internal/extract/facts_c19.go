package extract

import (
	"bytes"
	"fmt"
	"go/ast"
	"go/printer"
	"go/token"
	"go/types"
	"os"
	"path/filepath"
	"regexp"
	"strings"
)

// C19: the step orders of the query pipeline that Model/Pipeline.lean mirrors, re-read from the
// source: completeStage (lock / bookkeeping / unlock / Dec / which value goes to complete),
// complete (CAS then callback), isCompleted, sm.executeStage (Inc under the lock),
// pipeline.Execute (recover → complete(err)), pipeline.executeStage and its two closures,
// baseStage.Execute (inline vs Submit(NewTask(execFn, errHandle))), workerPool.execTask
// (recover → panicHandle) and LeafExecuteContext.SendResponse (CAS).
//
// A function body is rendered as the list of its calls, field stores, returns and branch
// conditions in source order (types.ExprString), prefixed by the path of enclosing branches /
// closures / defers, then filtered to the lines that matter for the pipeline's protocol.

var c19Keep = regexp.MustCompile(`mutex\.(Lock|Unlock)\(\)|pending\.|\bcomplete\(|completed\.|isCompleted\(\)|` +
	`executeStage\(|completeStage\(|\.Execute\(|NextStages\(\)|recover\(\)|errHandle|completeHandle\(\)|execFn|` +
	`Submit\(|panicHandle|\.Exec\(\)|if stage\.IsAsync\(\)|execPool != nil|sm\.err|firstError|completedCallbackFn|stage\.Complete\(\)|Complete\(s\.stage\)|` +
	`stage\.execute\(|sendResponse\(|Stopped\(\)|ctx\.Done\(\)|p\.tasks <-|reject\(|ctx\.Err\(\)|task\.handle == nil`)

// the request level (leaf_processor.go, task_handler.go): who answers a request — every return, every
// response sent, the pipeline execution and the hand-over to the pool
var c19KeepReq = regexp.MustCompile(`^return|stream\.Send\(|SendResponse\(|pipeline\.Execute\(|p\.process|processor\.Process\(|` +
	`taskPool\.Submit\(|newExecutePipelineFn\(|^if err|RequestType|^default|^case `)

// the group-by collect: the error branch of CollectTagValues and what it does with the error
var c19KeepCollect = regexp.MustCompile(`CollectTagValues\(|^if err != nil|[sS]endResponse\(|^return|reduceTagValues\(`)

var c19KeepBroker = regexp.MustCompile(`ErrMsg|tolerantNotFounds|JSONUnmarshal\(|ctx\.err =|expectResults|ctx\.results =|^return|^if err|completed\.|close\(ctx\.doneCh\)`)

var c19KeepPlanNode = regexp.MustCompile(`^return|p\.op\.Execute\(\)|^if p\.op == nil|\.Stats\(\)`)

// c19PlanNodeReturnsOpErr: the error variable is assigned only from p.op.Execute(); every return
// after that call is a bare return of the named result or returns that variable; `nil` is returned
// only by the `p.op == nil` guard.
func c19PlanNodeReturnsOpErr(fd *ast.FuncDecl) bool {
	isOpExec := func(e ast.Expr) bool { return types.ExprString(e) == "p.op.Execute()" }
	errVar := ""
	named := false
	if rs := fd.Type.Results; rs != nil && len(rs.List) > 0 {
		last := rs.List[len(rs.List)-1]
		if len(last.Names) > 0 {
			errVar, named = last.Names[len(last.Names)-1].Name, true
		}
	}
	ok := true
	assigned := false
	// assignments to the error variable, anywhere (closures included)
	ast.Inspect(fd.Body, func(n ast.Node) bool {
		as, isAs := n.(*ast.AssignStmt)
		if !isAs {
			return true
		}
		for i, l := range as.Lhs {
			id, isID := l.(*ast.Ident)
			if !isID || len(as.Rhs) != len(as.Lhs) {
				continue
			}
			if isOpExec(as.Rhs[i]) {
				if errVar == "" {
					errVar = id.Name
				}
				if id.Name == errVar {
					assigned = true
				}
			} else if id.Name == errVar && errVar != "" {
				ok = false // the error is overwritten
			}
		}
		return true
	})
	if !assigned {
		return false
	}
	// return statements of the function itself (not of closures)
	var walk func(list []ast.Stmt, guard bool)
	walk = func(list []ast.Stmt, guard bool) {
		for _, st := range list {
			switch x := st.(type) {
			case *ast.ReturnStmt:
				switch {
				case len(x.Results) == 0:
					if !named {
						ok = false
					}
				case guard && types.ExprString(x.Results[len(x.Results)-1]) == "nil":
				default:
					if types.ExprString(x.Results[len(x.Results)-1]) != errVar {
						ok = false
					}
				}
			case *ast.IfStmt:
				walk(x.Body.List, types.ExprString(x.Cond) == "p.op == nil")
				if b, isB := x.Else.(*ast.BlockStmt); isB {
					walk(b.List, false)
				} else if x.Else != nil {
					walk([]ast.Stmt{x.Else}, false)
				}
			case *ast.BlockStmt:
				walk(x.List, guard)
			case *ast.ForStmt:
				walk(x.Body.List, false)
			case *ast.RangeStmt:
				walk(x.Body.List, false)
			case *ast.SwitchStmt:
				for _, cl := range x.Body.List {
					walk(cl.(*ast.CaseClause).Body, false)
				}
			}
		}
	}
	walk(fd.Body.List, false)
	return ok
}

// c19RecoversAndCompletes: the function has a deferred closure calling recover() and calls x.Complete()
func c19RecoversAndCompletes(fd *ast.FuncDecl) bool {
	rec, comp := false, false
	for _, st := range fd.Body.List {
		if d, ok := st.(*ast.DeferStmt); ok {
			ast.Inspect(d.Call, func(n ast.Node) bool {
				if c, ok := n.(*ast.CallExpr); ok {
					if id, ok := c.Fun.(*ast.Ident); ok && id.Name == "recover" {
						rec = true
					}
				}
				return true
			})
		}
	}
	ast.Inspect(fd.Body, func(n ast.Node) bool {
		if c, ok := n.(*ast.CallExpr); ok {
			if sel, ok := c.Fun.(*ast.SelectorExpr); ok && sel.Sel.Name == "Complete" {
				comp = true
			}
		}
		return true
	})
	return rec && comp
}

// c19SendSites lists, for every non-test file of the given directories, the functions that put a
// TaskResponse on a stream themselves: calls of a method named Send whose argument is a
// protoCommonV1.TaskResponse literal (or a variable named resp), and calls of the unguarded
// sendResponse. Format "dir/file.go:Func×n".
func c19SendSites(repo string, dirs []string) ([]string, error) {
	var out []string
	for _, dir := range dirs {
		ents, err := os.ReadDir(filepath.Join(repo, dir))
		if err != nil {
			return nil, err
		}
		for _, e := range ents {
			if !strings.HasSuffix(e.Name(), ".go") || strings.HasSuffix(e.Name(), "_test.go") || strings.HasPrefix(e.Name(), "zz_verif") ||
				strings.HasSuffix(e.Name(), "_mock.go") {
				continue
			}
			_, f, err := ParseFile(repo, dir+"/"+e.Name())
			if err != nil {
				return nil, err
			}
			for _, d := range f.Decls {
				fd, ok := d.(*ast.FuncDecl)
				if !ok || fd.Body == nil {
					continue
				}
				n := 0
				ast.Inspect(fd.Body, func(nd ast.Node) bool {
					call, ok := nd.(*ast.CallExpr)
					if !ok {
						return true
					}
					sel, ok := call.Fun.(*ast.SelectorExpr)
					if !ok {
						return true
					}
					switch {
					case sel.Sel.Name == "sendResponse":
						n++
					case sel.Sel.Name == "Send" && len(call.Args) == 1:
						a := types.ExprString(call.Args[0])
						if strings.Contains(a, "TaskResponse") || a == "resp" {
							n++
						}
					}
					return true
				})
				if n > 0 {
					out = append(out, fmt.Sprintf("%s/%s:%s×%d", dir, e.Name(), fd.Name.Name, n))
				}
			}
		}
	}
	return out, nil
}

// c19SendsAndCalls renders channel sends and calls of a statement list in source order.
func c19SendsAndCalls(list []ast.Stmt) []string {
	var out []string
	for _, st := range list {
		ast.Inspect(st, func(n ast.Node) bool {
			switch x := n.(type) {
			case *ast.SendStmt:
				out = append(out, types.ExprString(x.Chan)+" <- "+types.ExprString(x.Value))
			case *ast.CallExpr:
				out = append(out, types.ExprString(x))
			}
			return true
		})
	}
	return out
}

// c19TaskReceivers lists, for every function of pool.go, each select case / statement that receives
// from `p.tasks`, followed by the sends and calls of that case's body.
func c19TaskReceivers(f *ast.File) []string {
	var out []string
	isRecv := func(e ast.Expr) bool {
		u, ok := e.(*ast.UnaryExpr)
		return ok && u.Op == token.ARROW && types.ExprString(u.X) == "p.tasks"
	}
	for _, d := range f.Decls {
		fd, ok := d.(*ast.FuncDecl)
		if !ok || fd.Body == nil {
			continue
		}
		ast.Inspect(fd.Body, func(n ast.Node) bool {
			cc, ok := n.(*ast.CommClause)
			if !ok || cc.Comm == nil {
				return true
			}
			recv := false
			switch x := cc.Comm.(type) {
			case *ast.AssignStmt:
				recv = len(x.Rhs) == 1 && isRecv(x.Rhs[0])
			case *ast.ExprStmt:
				recv = isRecv(x.X)
			}
			if recv {
				out = append(out, fd.Name.Name+": "+strings.Join(c19SendsAndCalls(cc.Body), "; "))
			}
			return true
		})
	}
	// a receive outside a select
	for _, d := range f.Decls {
		fd, ok := d.(*ast.FuncDecl)
		if !ok || fd.Body == nil {
			continue
		}
		n := 0
		ast.Inspect(fd.Body, func(nd ast.Node) bool {
			if _, ok := nd.(*ast.CommClause); ok {
				return false
			}
			if e, ok := nd.(ast.Expr); ok && isRecv(e) {
				n++
			}
			return true
		})
		if n > 0 {
			out = append(out, fmt.Sprintf("%s: %d receive(s) outside a select", fd.Name.Name, n))
		}
	}
	return out
}

// c19PooledClosureIsExecFnOnly: in baseStage.Execute the first argument of concurrent.NewTask is a
// func literal whose body is the single statement `execFn()`, and `execFn` is the closure defined
// at the top of Execute.
func c19PooledClosureIsExecFnOnly(fd *ast.FuncDecl) bool {
	if fd == nil {
		return false
	}
	found, good := 0, 0
	ast.Inspect(fd.Body, func(n ast.Node) bool {
		ce, ok := n.(*ast.CallExpr)
		if !ok || types.ExprString(ce.Fun) != "concurrent.NewTask" || len(ce.Args) == 0 {
			return true
		}
		found++
		lit, ok := ce.Args[0].(*ast.FuncLit)
		if !ok || len(lit.Body.List) != 1 {
			return true
		}
		es, ok := lit.Body.List[0].(*ast.ExprStmt)
		if !ok {
			return true
		}
		c, ok := es.X.(*ast.CallExpr)
		if ok && types.ExprString(c.Fun) == "execFn" && len(c.Args) == 0 {
			good++
		}
		return true
	})
	return found == 1 && good == 1
}

func c19Steps(body *ast.BlockStmt) []string { return c19StepsKeep(body, c19Keep) }

func c19StepsKeep(body *ast.BlockStmt, keep *regexp.Regexp) []string {
	var out []string
	emit := func(prefix, s string) {
		s = strings.Join(strings.Fields(s), " ")
		if i := strings.Index(s, "&protoCommonV1.TaskResponse{"); i >= 0 {
			s = s[:i] + "&protoCommonV1.TaskResponse{…})" // the literal's fields are not part of the protocol
		}
		if keep.MatchString(s) {
			out = append(out, prefix+s)
		}
	}
	var stmts func(list []ast.Stmt, prefix string)
	var exprCalls func(e ast.Expr, prefix string)
	// calls inside an expression, innermost first (evaluation order); closures are rendered after the call that receives them
	exprCalls = func(e ast.Expr, prefix string) {
		if e == nil {
			return
		}
		var lits []*ast.FuncLit
		var visit func(n ast.Node) bool
		visit = func(n ast.Node) bool {
			switch x := n.(type) {
			case *ast.FuncLit:
				lits = append(lits, x)
				return false
			case *ast.CallExpr:
				for _, a := range x.Args {
					ast.Inspect(a, visit)
				}
				ast.Inspect(x.Fun, visit)
				emit(prefix, types.ExprString(x))
				return false
			}
			return true
		}
		ast.Inspect(e, visit)
		for k, l := range lits {
			stmts(l.Body.List, fmt.Sprintf("%sλ%d:", prefix, k+1))
		}
	}
	stmts = func(list []ast.Stmt, prefix string) {
		for _, st := range list {
			switch x := st.(type) {
			case *ast.ExprStmt:
				exprCalls(x.X, prefix)
			case *ast.AssignStmt:
				for _, r := range x.Rhs {
					exprCalls(r, prefix)
				}
				for i, l := range x.Lhs {
					if _, ok := l.(*ast.SelectorExpr); ok && i < len(x.Rhs) {
						emit(prefix, types.ExprString(l)+" "+x.Tok.String()+" "+types.ExprString(x.Rhs[i]))
					}
				}
			case *ast.DeferStmt:
				exprCalls(x.Call, prefix+"defer:")
			case *ast.GoStmt:
				exprCalls(x.Call, prefix+"go:")
			case *ast.ReturnStmt:
				var rs []string
				for _, r := range x.Results {
					exprCalls(r, prefix)
					rs = append(rs, types.ExprString(r))
				}
				emit(prefix, "return "+strings.Join(rs, ", "))
			case *ast.IfStmt:
				if x.Init != nil {
					stmts([]ast.Stmt{x.Init}, prefix)
				}
				emit(prefix, "if "+types.ExprString(x.Cond))
				stmts(x.Body.List, prefix+"then:")
				switch e := x.Else.(type) {
				case *ast.BlockStmt:
					stmts(e.List, prefix+"else:")
				case *ast.IfStmt:
					stmts([]ast.Stmt{e}, prefix+"else:")
				}
			case *ast.RangeStmt:
				stmts(x.Body.List, prefix+"loop:")
			case *ast.ForStmt:
				stmts(x.Body.List, prefix+"loop:")
			case *ast.SelectStmt:
				for _, cl := range x.Body.List {
					cc := cl.(*ast.CommClause)
					if cc.Comm == nil {
						emit(prefix, "default:")
					} else {
						var buf bytes.Buffer
						_ = printer.Fprint(&buf, token.NewFileSet(), cc.Comm)
						emit(prefix, "case "+buf.String()+":")
					}
					stmts(cc.Body, prefix+"case:")
				}
			case *ast.SwitchStmt:
				if x.Init != nil {
					stmts([]ast.Stmt{x.Init}, prefix)
				}
				if x.Tag != nil {
					emit(prefix, "switch "+types.ExprString(x.Tag))
				}
				for _, cl := range x.Body.List {
					cc := cl.(*ast.CaseClause)
					if cc.List == nil {
						emit(prefix, "default:")
					} else {
						var es []string
						for _, e := range cc.List {
							es = append(es, types.ExprString(e))
						}
						emit(prefix, "case "+strings.Join(es, ", ")+":")
					}
					stmts(cc.Body, prefix+"case:")
				}
			case *ast.BlockStmt:
				stmts(x.List, prefix)
			case *ast.IncDecStmt:
				emit(prefix, types.ExprString(x.X)+x.Tok.String())
			case *ast.DeclStmt, *ast.BranchStmt, *ast.EmptyStmt:
			default:
				emit(prefix, fmt.Sprintf("other:%T", st))
				out = append(out, prefix+fmt.Sprintf("other:%T", st))
			}
		}
	}
	if body != nil {
		stmts(body.List, "")
	}
	return out
}

func init() {
	Register(Fact{Module: "C19", Gen: func(repo string) (string, error) {
		var sb strings.Builder
		_, smf, err := ParseFile(repo, "query/pipeline_state_matchine.go")
		if err != nil {
			return "", err
		}
		cs := FindFunc(smf, "pipelineStateMachine", "completeStage")
		if cs == nil {
			return "", fmt.Errorf("pipelineStateMachine.completeStage not found")
		}
		steps := c19Steps(cs.Body)
		// which value reaches complete: the parameter of this call, or the remembered first error
		errParam := ""
		if ps := cs.Type.Params.List; len(ps) > 0 {
			last := ps[len(ps)-1]
			if id, ok := last.Type.(*ast.Ident); ok && id.Name == "error" && len(last.Names) > 0 {
				errParam = last.Names[len(last.Names)-1].Name
			}
		}
		arg := ""
		for _, s := range steps {
			if i := strings.Index(s, "sm.complete("); i >= 0 && strings.HasSuffix(s, ")") {
				arg = s[i+len("sm.complete(") : len(s)-1]
			}
		}
		variant := ""
		switch {
		case errParam != "" && arg == errParam:
			variant = "false"
		case arg == "sm.firstError()":
			variant = "true"
		default:
			return "", fmt.Errorf("completeStage: argument of sm.complete not recognised: %q (error parameter %q)", arg, errParam)
		}
		sb.WriteString("/-- `completeStage` hands the remembered first error (not its own `err`) to `complete` -/\n")
		sb.WriteString("def completePassesFirstError : Bool := " + variant + "\n\n")
		sb.WriteString("def completeStageSteps : List String := " + LeanStrList(steps) + "\n\n")
		// the Complete() hook inside the critical section: called directly (a panic of the hook unwinds
		// completeStage between Lock and the non-deferred Unlock), or through a helper of this file that
		// calls it under a deferred recover
		direct, helper := false, ""
		ast.Inspect(cs.Body, func(n ast.Node) bool {
			call, ok := n.(*ast.CallExpr)
			if !ok {
				return true
			}
			switch f := call.Fun.(type) {
			case *ast.SelectorExpr:
				if f.Sel.Name == "Complete" {
					direct = true
				}
			case *ast.Ident:
				if fd := FindFunc(smf, "", f.Name); fd != nil && fd.Body != nil && c19RecoversAndCompletes(fd) {
					helper = f.Name
				}
			}
			return true
		})
		unlockDeferred := false
		for _, st := range cs.Body.List {
			if d, ok := st.(*ast.DeferStmt); ok && strings.HasSuffix(types.ExprString(d.Call.Fun), "mutex.Unlock") {
				unlockDeferred = true
			}
		}
		var helperSteps []string
		switch {
		case direct && !unlockDeferred:
			sb.WriteString("/-- `completeStage` calls the stage's Complete() hook inside a recover (false: directly, between Lock and the non-deferred Unlock) -/\n")
			sb.WriteString("def completeHookGuarded : Bool := false\n\n")
		case !direct && helper != "":
			sb.WriteString("/-- `completeStage` calls the stage's Complete() hook inside a recover (false: directly, between Lock and the non-deferred Unlock) -/\n")
			sb.WriteString("def completeHookGuarded : Bool := true\n\n")
			helperSteps = c19Steps(FindFunc(smf, "", helper).Body)
		default:
			return "", fmt.Errorf("completeStage: how the Complete() hook is called is not recognised (direct call %v, deferred Unlock %v, recovering helper %q)", direct, unlockDeferred, helper)
		}
		sb.WriteString("def safeCompleteSteps : List String := " + LeanStrList(helperSteps) + "\n\n")
		for _, fn := range []string{"firstError", "complete", "isCompleted", "executeStage"} {
			fd := FindFunc(smf, "pipelineStateMachine", fn)
			var l []string
			if fd != nil {
				l = c19Steps(fd.Body)
			}
			name := map[string]string{"firstError": "firstErrorSteps", "complete": "completeSteps",
				"isCompleted": "isCompletedSteps", "executeStage": "registerSteps"}[fn]
			sb.WriteString("def " + name + " : List String := " + LeanStrList(l) + "\n\n")
		}
		_, pf, err := ParseFile(repo, "query/pipeline.go")
		if err != nil {
			return "", err
		}
		for _, fn := range []string{"Execute", "executeStage"} {
			fd := FindFunc(pf, "pipeline", fn)
			if fd == nil {
				return "", fmt.Errorf("pipeline.%s not found", fn)
			}
			st := c19Steps(fd.Body)
			sb.WriteString("def pipeline" + strings.ToUpper(fn[:1]) + fn[1:] + "Steps : List String := " + LeanStrList(st) + "\n\n")
			if fn == "executeStage" {
				// a deferred recover in executeStage that completes the stage it started
				rec := false
				for i, s := range st {
					if strings.HasPrefix(s, "defer:") && strings.HasSuffix(s, "recover()") && i+1 < len(st) &&
						strings.HasPrefix(st[i+1], "defer:") && strings.Contains(st[i+1], "p.sm.completeStage(stageID,") {
						rec = true
					}
				}
				sb.WriteString("/-- `pipeline.executeStage` recovers a panic of the stage it started and completes that stage -/\n")
				sb.WriteString(fmt.Sprintf("def stageRecoversPanic : Bool := %v\n\n", rec))
			}
		}
		_, bf, err := ParseFile(repo, "query/stage/base_stage.go")
		if err != nil {
			return "", err
		}
		for _, fn := range []string{"Execute", "IsAsync"} {
			fd := FindFunc(bf, "baseStage", fn)
			if fd == nil {
				return "", fmt.Errorf("baseStage.%s not found", fn)
			}
			sb.WriteString("def baseStage" + fn + "Steps : List String := " + LeanStrList(c19Steps(fd.Body)) + "\n\n")
		}
		// planNode.ExecuteWithStats: the operator's error must reach the stage whatever the stats are
		_, pnf, err := ParseFile(repo, "query/stage/plan_node.go")
		if err != nil {
			return "", err
		}
		ews := FindFunc(pnf, "planNode", "ExecuteWithStats")
		if ews == nil {
			return "", fmt.Errorf("planNode.ExecuteWithStats not found")
		}
		sb.WriteString("def planNodeExecuteWithStatsSteps : List String := " + LeanStrList(c19StepsKeep(ews.Body, c19KeepPlanNode)) + "\n\n")
		sb.WriteString("/-- every return site of planNode.ExecuteWithStats after the operator ran returns the operator's own error -/\n")
		sb.WriteString(fmt.Sprintf("def planNodeReturnsOperatorError : Bool := %v\n\n", c19PlanNodeReturnsOpErr(ews)))
		_, plf, err := ParseFile(repo, "internal/concurrent/pool.go")
		if err != nil {
			return "", err
		}
		et := FindFunc(plf, "workerPool", "execTask")
		if et == nil {
			return "", fmt.Errorf("workerPool.execTask not found")
		}
		sb.WriteString("def execTaskSteps : List String := " + LeanStrList(c19Steps(et.Body)) + "\n\n")
		sub := FindFunc(plf, "workerPool", "Submit")
		if sub == nil {
			return "", fmt.Errorf("workerPool.Submit not found")
		}
		sb.WriteString("def submitSteps : List String := " + LeanStrList(c19Steps(sub.Body)) + "\n\n")
		// anything Submit does after the send `p.tasks <- task` succeeded
		recheck := false
		ast.Inspect(sub.Body, func(n ast.Node) bool {
			if cc, ok := n.(*ast.CommClause); ok {
				if snd, ok := cc.Comm.(*ast.SendStmt); ok && len(cc.Body) > 0 {
					_ = snd
					recheck = true
				}
			}
			return true
		})
		if !recheck {
			// … or after the select statement
			for i, st := range sub.Body.List {
				if _, ok := st.(*ast.SelectStmt); ok && i != len(sub.Body.List)-1 {
					recheck = true
				}
			}
		}
		sb.WriteString("/-- `workerPool.Submit` goes on after the task was put into the queue (e.g. re-checks Stopped()) -/\n")
		sb.WriteString(fmt.Sprintf("def submitRechecksStopped : Bool := %v\n\n", recheck))
		var rej []string
		if fd := FindFunc(plf, "workerPool", "reject"); fd != nil {
			rej = c19Steps(fd.Body)
		}
		sb.WriteString("def rejectSteps : List String := " + LeanStrList(rej) + "\n\n")
		// Submit tells the task's handler when it does not accept the task: every `return` of a
		// rejection path is preceded by p.reject(task, …) and reject calls task.panicHandle(err)
		notifies := false
		for _, l := range rej {
			if strings.HasSuffix(l, "task.panicHandle(err)") {
				notifies = true
			}
		}
		sb.WriteString("/-- `workerPool.Submit` calls the task's handler when it rejects the task (stopped pool / cancelled context) -/\n")
		sb.WriteString(fmt.Sprintf("def submitRejectNotifies : Bool := %v\n\n", notifies))
		// round 12: the pool's queue (Model/C19PoolQueue.lean)
		capv, okc := ConstInts(plf)["tasksCapacity"]
		if !okc {
			return "", fmt.Errorf("constant tasksCapacity not found in internal/concurrent/pool.go")
		}
		sb.WriteString("/-- capacity of the pool's `tasks` channel (`tasksCapacity`) -/\n")
		sb.WriteString("def poolTasksCapacity : Nat := " + LeanInt(capv) + "\n\n")
		sb.WriteString("/-- every function of pool.go that receives from `p.tasks`, with what it does with the received task -/\n")
		sb.WriteString("def poolTaskReceivers : List String := " + LeanStrList(c19TaskReceivers(plf)) + "\n\n")
		var wp []string
		if fd := FindFunc(plf, "worker", "process"); fd != nil {
			wp = c19SendsAndCalls(fd.Body.List)
		}
		sb.WriteString("def workerProcessSteps : List String := " + LeanStrList(wp) + "\n\n")
		var we []string
		if fd := FindFunc(plf, "worker", "execute"); fd != nil {
			we = c19SendsAndCalls(fd.Body.List)
		}
		sb.WriteString("def workerExecuteSteps : List String := " + LeanStrList(we) + "\n\n")
		var tx []string
		if fd := FindFunc(plf, "Task", "Exec"); fd != nil {
			tx = c19SendsAndCalls(fd.Body.List)
		}
		sb.WriteString("def taskExecSteps : List String := " + LeanStrList(tx) + "\n\n")
		sb.WriteString("/-- the closure `baseStage.Execute` hands to the pool is exactly `func() { execFn() }`: it runs the stage whatever the context says -/\n")
		sb.WriteString(fmt.Sprintf("def pooledClosureIsExecFnOnly : Bool := %v\n\n", c19PooledClosureIsExecFnOnly(FindFunc(bf, "baseStage", "Execute"))))
		_, lf, err := ParseFile(repo, "query/context/leaf_execute_context.go")
		if err != nil {
			return "", err
		}
		sr := FindFunc(lf, "LeafExecuteContext", "SendResponse")
		if sr == nil {
			return "", fmt.Errorf("LeafExecuteContext.SendResponse not found")
		}
		sb.WriteString("def sendResponseSteps : List String := " + LeanStrList(c19Steps(sr.Body)) + "\n\n")
		// the request level
		_, lpf, err := ParseFile(repo, "query/leaf_processor.go")
		if err != nil {
			return "", err
		}
		returnsErr := false
		for _, fn := range []string{"Process", "processDataSearch", "processMetadataSuggest"} {
			fd := FindFunc(lpf, "leafTaskProcessor", fn)
			if fd == nil {
				return "", fmt.Errorf("leafTaskProcessor.%s not found", fn)
			}
			sb.WriteString("def leaf" + strings.ToUpper(fn[:1]) + fn[1:] + "Steps : List String := " + LeanStrList(c19StepsKeep(fd.Body, c19KeepReq)) + "\n\n")
			if fn != "Process" {
				// after pipeline.Execute the function must return nil: the completion callback has answered
				l := fd.Body.List
				ok := false
				if len(l) > 0 {
					if rs, isRet := l[len(l)-1].(*ast.ReturnStmt); isRet && len(rs.Results) == 1 {
						if id, isID := rs.Results[0].(*ast.Ident); isID && id.Name == "nil" {
							ok = true
						}
					}
				}
				if !ok {
					returnsErr = true
				}
			}
		}
		sb.WriteString("/-- processDataSearch / processMetadataSuggest return something else than nil after the pipeline was executed -/\n")
		sb.WriteString(fmt.Sprintf("def processReturnsPipelineErr : Bool := %v\n\n", returnsErr))
		// responders outside the three sites above: the group-by tag value collect answers a failure
		// itself; it must go through the guarded SendResponse. Nobody outside SendResponse may call the
		// unguarded sendResponse.
		ents, err := os.ReadDir(filepath.Join(repo, "query/context"))
		if err != nil {
			return "", err
		}
		var unguarded []string
		for _, e := range ents {
			if !strings.HasSuffix(e.Name(), ".go") || strings.HasSuffix(e.Name(), "_test.go") || strings.HasPrefix(e.Name(), "zz_verif") {
				continue
			}
			_, cf, err := ParseFile(repo, "query/context/"+e.Name())
			if err != nil {
				return "", err
			}
			for _, d := range cf.Decls {
				fd, ok := d.(*ast.FuncDecl)
				if !ok || fd.Body == nil {
					continue
				}
				ast.Inspect(fd.Body, func(n ast.Node) bool {
					if call, ok := n.(*ast.CallExpr); ok {
						if sel, ok := call.Fun.(*ast.SelectorExpr); ok && sel.Sel.Name == "sendResponse" && fd.Name.Name != "SendResponse" {
							unguarded = append(unguarded, e.Name()+":"+fd.Name.Name)
						}
					}
					return true
				})
			}
		}
		sb.WriteString("/-- functions of query/context other than SendResponse that call the unguarded sendResponse -/\n")
		sb.WriteString("def unguardedSendResponseCallers : List String := " + LeanStrList(unguarded) + "\n\n")
		// every function of the leaf-side query code that puts a response on a stream itself
		sites, err := c19SendSites(repo, []string{"query", "query/context", "query/stage", "query/operator"})
		if err != nil {
			return "", err
		}
		sb.WriteString("/-- functions of query/, query/context, query/stage, query/operator that send a TaskResponse themselves (calls of `.Send(<TaskResponse>)` and of the unguarded `sendResponse`, with their number) -/\n")
		sb.WriteString("def responseSendSites : List String := " + LeanStrList(sites) + "\n\n")
		// the broker side of a metadata query
		_, mcf, err := ParseFile(repo, "query/context/metadata_context.go")
		if err != nil {
			return "", err
		}
		mh := FindFunc(mcf, "MetadataContext", "handleResponse")
		if mh == nil {
			return "", fmt.Errorf("MetadataContext.handleResponse not found")
		}
		mhSteps := c19StepsKeep(mh.Body, c19KeepBroker)
		sb.WriteString("def metadataHandleResponseSteps : List String := " + LeanStrList(mhSteps) + "\n\n")
		tol := false
		for _, l := range mhSteps {
			if strings.Contains(l, "tolerantNotFounds") || strings.Contains(l, "ErrMsg") {
				tol = true
			}
		}
		sb.WriteString("/-- MetadataContext.handleResponse has a branch on resp.ErrMsg / tolerantNotFounds -/\n")
		sb.WriteString(fmt.Sprintf("def metadataToleratesErrMsg : Bool := %v\n\n", tol))
		_, tcf, err := ParseFile(repo, "query/context/task_context.go")
		if err != nil {
			return "", err
		}
		tcl := FindFunc(tcf, "baseTaskContext", "tryClose")
		if tcl == nil {
			return "", fmt.Errorf("baseTaskContext.tryClose not found")
		}
		sb.WriteString("def taskTryCloseSteps : List String := " + LeanStrList(c19StepsKeep(tcl.Body, c19KeepBroker)) + "\n\n")
		_, gcf, err := ParseFile(repo, "query/context/leaf_grouping_context.go")
		if err != nil {
			return "", err
		}
		cg := FindFunc(gcf, "LeafGroupingContext", "collectGroupByTagValues")
		if cg == nil {
			return "", fmt.Errorf("LeafGroupingContext.collectGroupByTagValues not found")
		}
		sb.WriteString("def collectGroupByTagValuesSteps : List String := " + LeanStrList(c19StepsKeep(cg.Body, c19KeepCollect)) + "\n\n")
		_, thf, err := ParseFile(repo, "query/task_handler.go")
		if err != nil {
			return "", err
		}
		hp := FindFunc(thf, "TaskHandler", "process")
		if hp == nil {
			return "", fmt.Errorf("TaskHandler.process not found")
		}
		sb.WriteString("def taskHandlerProcessSteps : List String := " + LeanStrList(c19StepsKeep(hp.Body, c19KeepReq)) + "\n")
		return sb.String(), nil
	}})
}
