package extract

import (
	"fmt"
	"go/ast"
	"go/token"
	"strings"
)

// C12, second part: the leaf's grouping-collect protocol (query/context/leaf_grouping_context.go,
// leaf_execute_context.go, flow/context.go) statement by statement — what Model/LeafCollect.lean
// mirrors. Function literals passed as arguments are rendered as `…` (tracker bookkeeping).

func c12SrcShort(fset *token.FileSet, n ast.Node) string {
	s := c12Src(fset, n)
	ast.Inspect(n, func(m ast.Node) bool {
		if fl, ok := m.(*ast.FuncLit); ok {
			s = strings.Replace(s, c12Src(fset, fl), "…", 1)
			return false
		}
		return true
	})
	return s
}

// c12NestedShort lists statements with nesting (indent = depth); if-statements with their init.
func c12NestedShort(fset *token.FileSet, stmts []ast.Stmt) []string {
	var out []string
	var walk func(stmts []ast.Stmt, depth string)
	walk = func(stmts []ast.Stmt, depth string) {
		for _, st := range stmts {
			switch x := st.(type) {
			case *ast.RangeStmt:
				kv := ""
				if x.Key != nil {
					kv = c12Src(fset, x.Key)
				}
				if x.Value != nil {
					kv += ", " + c12Src(fset, x.Value)
				}
				out = append(out, depth+"range "+kv+" := "+c12Src(fset, x.X))
				walk(x.Body.List, depth+"  ")
			case *ast.IfStmt:
				h := "if "
				if x.Init != nil {
					h += c12SrcShort(fset, x.Init) + "; "
				}
				out = append(out, depth+h+c12SrcShort(fset, x.Cond))
				walk(x.Body.List, depth+"  ")
				if x.Else != nil {
					out = append(out, depth+"else")
					switch e := x.Else.(type) {
					case *ast.BlockStmt:
						walk(e.List, depth+"  ")
					case *ast.IfStmt:
						walk([]ast.Stmt{e}, depth+"  ")
					}
				}
			case *ast.ForStmt:
				h := "for "
				if x.Init == nil && x.Post == nil {
					if x.Cond != nil {
						h += c12SrcShort(fset, x.Cond)
					}
				} else {
					var i, cnd, pst string
					if x.Init != nil {
						i = c12SrcShort(fset, x.Init)
					}
					if x.Cond != nil {
						cnd = c12SrcShort(fset, x.Cond)
					}
					if x.Post != nil {
						pst = c12SrcShort(fset, x.Post)
					}
					h += i + "; " + cnd + "; " + pst
				}
				out = append(out, depth+strings.TrimSpace(h))
				walk(x.Body.List, depth+"  ")
			case *ast.SelectStmt:
				out = append(out, depth+"select")
				for _, c := range x.Body.List {
					cc := c.(*ast.CommClause)
					if cc.Comm == nil {
						out = append(out, depth+"  default")
					} else {
						out = append(out, depth+"  case "+c12SrcShort(fset, cc.Comm))
					}
					walk(cc.Body, depth+"    ")
				}
			default:
				if es, ok := st.(*ast.ExprStmt); ok {
					if ce, ok := es.X.(*ast.CallExpr); ok && exprName(ce.Fun) == "verifhook.Yield" {
						continue // verification yield points are not statements of the code
					}
				}
				out = append(out, depth+c12SrcShort(fset, st))
			}
		}
	}
	walk(stmts, "")
	return out
}

func c12CollectFacts(repo string, sb *strings.Builder) error {
	fsetE, le, err := ParseFile(repo, "query/context/leaf_execute_context.go")
	if err != nil {
		return err
	}
	wait := FindFunc(le, "LeafExecuteContext", "waitCollectGroupingTagsCompleted")
	if wait == nil {
		return fmt.Errorf("LeafExecuteContext.waitCollectGroupingTagsCompleted not found")
	}
	// the if-statement whose body is the select between the task context and the collect channel
	waitCond := ""
	var waitCases []string
	for _, st := range wait.Body.List {
		is, ok := st.(*ast.IfStmt)
		if !ok {
			continue
		}
		for _, b := range is.Body.List {
			if sel, ok := b.(*ast.SelectStmt); ok {
				waitCond = c12Src(fsetE, is.Cond)
				for _, c := range sel.Body.List {
					cc := c.(*ast.CommClause)
					if cc.Comm == nil {
						waitCases = append(waitCases, "default")
					} else {
						waitCases = append(waitCases, c12Src(fsetE, cc.Comm))
					}
				}
			}
		}
	}
	fmt.Fprintf(sb, "/-- the condition under which waitCollectGroupingTagsCompleted waits for the collect channel -/\ndef leafWaitCond : String := %q\n", waitCond)
	fmt.Fprintf(sb, "/-- the cases of its select -/\ndef leafWaitCases : List String := %s\n", LeanStrList(waitCases))
	send := FindFunc(le, "LeafExecuteContext", "SendResponse")
	if send == nil {
		return fmt.Errorf("LeafExecuteContext.SendResponse not found")
	}
	fmt.Fprintf(sb, "/-- LeafExecuteContext.SendResponse, statement by statement -/\ndef sendResponseSteps : List String := %s\n", LeanStrList(c12NestedShort(fsetE, send.Body.List)))

	fsetG, lg, err := ParseFile(repo, "query/context/leaf_grouping_context.go")
	if err != nil {
		return err
	}
	need := func(name string) (*ast.FuncDecl, error) {
		fd := FindFunc(lg, "LeafGroupingContext", name)
		if fd == nil || fd.Body == nil {
			return nil, fmt.Errorf("LeafGroupingContext.%s not found", name)
		}
		return fd, nil
	}
	fork, err := need("ForkGroupingTask")
	if err != nil {
		return err
	}
	cpl, err := need("CompleteGroupingTask")
	if err != nil {
		return err
	}
	col, err := need("collectGroupByTagValues")
	if err != nil {
		return err
	}
	red, err := need("reduceTagValues")
	if err != nil {
		return err
	}
	fmt.Fprintf(sb, "def forkGroupingSteps : List String := %s\n", LeanStrList(c12NestedShort(fsetG, fork.Body.List)))
	fmt.Fprintf(sb, "def completeGroupingSteps : List String := %s\n", LeanStrList(c12NestedShort(fsetG, cpl.Body.List)))
	// collectGroupByTagValues: the early return's condition and the loop inside CollectTagValues(func() {...})
	guard := ""
	var loop []string
	for _, st := range col.Body.List {
		if is, ok := st.(*ast.IfStmt); ok && guard == "" {
			for _, b := range is.Body.List {
				if _, ok := b.(*ast.ReturnStmt); ok {
					guard = c12Src(fsetG, is.Cond)
				}
			}
		}
		if es, ok := st.(*ast.ExprStmt); ok {
			if ce, ok := es.X.(*ast.CallExpr); ok && strings.HasSuffix(exprName(ce.Fun), "CollectTagValues") && len(ce.Args) == 1 {
				if fl, ok := ce.Args[0].(*ast.FuncLit); ok {
					loop = c12NestedShort(fsetG, fl.Body.List)
				}
			}
		}
	}
	fmt.Fprintf(sb, "/-- collectGroupByTagValues returns early under this condition -/\ndef collectGuard : String := %q\n", guard)
	fmt.Fprintf(sb, "/-- the function it runs under StorageExecuteContext.CollectTagValues -/\ndef collectLoopSteps : List String := %s\n", LeanStrList(loop))
	fmt.Fprintf(sb, "def reduceTagValuesSteps : List String := %s\n", LeanStrList(c12NestedShort(fsetG, red.Body.List)))
	// the countdown's initial value in NewLeafGroupingContext
	nl := FindFunc(lg, "", "NewLeafGroupingContext")
	initV := ""
	if nl != nil {
		ast.Inspect(nl.Body, func(n ast.Node) bool {
			if as, ok := n.(*ast.AssignStmt); ok && len(as.Lhs) == 1 && strings.HasSuffix(c12Src(fsetG, as.Lhs[0]), ".collectRelatedTasks") {
				initV = c12Src(fsetG, as.Rhs[0])
			}
			return true
		})
	}
	fmt.Fprintf(sb, "def collectCountdownInit : String := %q\n", initV)

	fsetF, fc, err := ParseFile(repo, "flow/context.go")
	if err != nil {
		return err
	}
	has := FindFunc(fc, "StorageExecuteContext", "HasGroupingTagValueIDs")
	if has == nil {
		return fmt.Errorf("StorageExecuteContext.HasGroupingTagValueIDs not found")
	}
	fmt.Fprintf(sb, "def hasGroupingIDsSteps : List String := %s\n", LeanStrList(c12NestedShort(fsetF, has.Body.List)))
	cg := FindFunc(fc, "StorageExecuteContext", "collectGroupingTagValueIDs")
	if cg == nil {
		return fmt.Errorf("StorageExecuteContext.collectGroupingTagValueIDs not found")
	}
	fmt.Fprintf(sb, "def collectIDsSteps : List String := %s\n", LeanStrList(c12NestedShort(fsetF, cg.Body.List)))

	// ---------------- series/metric/row_broker.go: the family iterator of one shard group
	fsetR, rb, err := ParseFile(repo, "series/metric/row_broker.go")
	if err != nil {
		return err
	}
	for _, nm := range [][2]string{{"isSameFamily", "isSameFamilySteps"}, {"reset", "familyResetSteps"}, {"HasNextFamily", "hasNextFamilySteps"}} {
		fd := FindFunc(rb, "BrokerBatchShardFamilyIterator", nm[0])
		if fd == nil || fd.Body == nil {
			return fmt.Errorf("BrokerBatchShardFamilyIterator.%s not found", nm[0])
		}
		fmt.Fprintf(sb, "/-- BrokerBatchShardFamilyIterator.%s, statement by statement -/\ndef %s : List String := %s\n", nm[0], nm[1], LeanStrList(c12NestedShort(fsetR, fd.Body.List)))
	}
	less := FindFunc(rb, "familySortedRows", "Less")
	lessExpr := ""
	if less != nil && less.Body != nil && len(less.Body.List) == 1 {
		if r, ok := less.Body.List[0].(*ast.ReturnStmt); ok && len(r.Results) == 1 {
			lessExpr = c12Src(fsetR, r.Results[0])
		}
	}
	fmt.Fprintf(sb, "def familySortLess : String := %q\n", lessExpr)

	// ---------------- query/search.go exec, query/task_manager.go Receive
	fsetS, sg, err := ParseFile(repo, "query/search.go")
	if err != nil {
		return err
	}
	ex := FindFunc(sg, "", "exec")
	if ex == nil || ex.Body == nil {
		return fmt.Errorf("query.exec not found")
	}
	fmt.Fprintf(sb, "/-- query.exec, statement by statement (function literals as …) -/\ndef execSteps : List String := %s\n", LeanStrList(c12NestedShort(fsetS, ex.Body.List)))
	var deferred []string
	for _, st := range ex.Body.List {
		if d, ok := st.(*ast.DeferStmt); ok {
			if fl, ok := d.Call.Fun.(*ast.FuncLit); ok {
				deferred = append(deferred, c12NestedShort(fsetS, fl.Body.List)...)
			}
		}
	}
	fmt.Fprintf(sb, "/-- the body of exec's deferred function -/\ndef execDeferred : List String := %s\n", LeanStrList(deferred))
	fsetT, tmf, err := ParseFile(repo, "query/task_manager.go")
	if err != nil {
		return err
	}
	rcv := FindFunc(tmf, "taskManager", "Receive")
	if rcv == nil || rcv.Body == nil {
		return fmt.Errorf("taskManager.Receive not found")
	}
	fmt.Fprintf(sb, "def receiveSteps : List String := %s\n", LeanStrList(c12NestedShort(fsetT, rcv.Body.List)))
	return nil
}
