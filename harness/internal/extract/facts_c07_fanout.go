package extract

import (
	"fmt"
	"go/ast"
	"strings"
)

// C07Fanout: the step that turns the consumer groups' acknowledgements into the LOG's acknowledged
// position (pkg/queue: fanOutQueue.Sync -> queue.SetAcknowledgedSeq, run by every WAL GC tick through
// partition.IsExpire) and the place where that position flows back into a consumer group
// (NewConsumerGroup on a reopened directory). Emitted as statement skeletons: every statement of the
// function body in source order, nested blocks bracketed by `{` / `}`; conditions, assignments,
// range expressions and calls as source text. Model/C07Fanout.lean was written against exactly these
// skeletons; Props/C07.lean compares them.
func init() {
	Register(Fact{Module: "C07Fanout", Gen: func(repo string) (string, error) {
		var sb strings.Builder
		for _, x := range []struct{ file, recv, name, lean, doc string }{
			{"pkg/queue/fanout_queue.go", "fanOutQueue", "Sync", "fanoutSyncShape",
				"fanOutQueue.Sync: start value, loop over the consumer groups, comparison, guard, store"},
			{"pkg/queue/queue.go", "queue", "SetAcknowledgedSeq", "setQueueAckShape",
				"queue.SetAcknowledgedSeq: the guard under which the log's acknowledged position moves"},
			{"pkg/queue/queue.go", "queue", "GC", "queueGcShape",
				"queue.GC: which sequence bounds the truncation of data / index pages"},
		} {
			_, f, err := ParseFile(repo, x.file)
			if err != nil {
				return "", err
			}
			fd := FindFunc(f, x.recv, x.name)
			if fd == nil || fd.Body == nil {
				return "", fmt.Errorf("%s: func %s.%s not found", x.file, x.recv, x.name)
			}
			fmt.Fprintf(&sb, "/-- %s -/\ndef %s : List String := %s\n\n", x.doc, x.lean, LeanStrList(c07Skeleton(fd.Body, false)))
		}
		_, f, err := ParseFile(repo, "pkg/queue/consumer_group.go")
		if err != nil {
			return "", err
		}
		fd := FindFunc(f, "", "NewConsumerGroup")
		if fd == nil || fd.Body == nil {
			return "", fmt.Errorf("func NewConsumerGroup not found")
		}
		// only the statements that mention the two sequences (the page / error plumbing is left out)
		var keep []string
		for _, s := range c07Skeleton(fd.Body, true) {
			if s == "{" || s == "}" || s == "else" || strings.Contains(s, "ackSeq") || strings.Contains(s, "consumedSeq") ||
				strings.Contains(s, "ackOfQueue") || strings.HasPrefix(s, "if hasMeta") {
				keep = append(keep, s)
			}
		}
		fmt.Fprintf(&sb, "/-- NewConsumerGroup: how the start positions of a (re)opened group are computed from its meta page and the queue's acknowledged sequence -/\ndef newGroupShape : List String := %s\n", LeanStrList(c07DropEmptyBlocks(keep)))
		return sb.String(), nil
	}})
}

// c07Skeleton renders a block as a flat list of statement texts; `if` / `for` / `range` headers are
// followed by their bodies between "{" and "}" ("else" before an else body). Logging calls and
// lock / unlock / defer statements are skipped when quiet is set, otherwise only logger calls.
func c07Skeleton(b *ast.BlockStmt, quiet bool) []string {
	var out []string
	var walk func(s ast.Stmt)
	block := func(b *ast.BlockStmt) {
		out = append(out, "{")
		for _, s := range b.List {
			walk(s)
		}
		out = append(out, "}")
	}
	walk = func(s ast.Stmt) {
		switch v := s.(type) {
		case *ast.IfStmt:
			h := "if "
			if v.Init != nil {
				h += c07StmtText(v.Init) + "; "
			}
			out = append(out, h+c07Text(v.Cond))
			block(v.Body)
			switch e := v.Else.(type) {
			case *ast.BlockStmt:
				out = append(out, "else")
				block(e)
			case *ast.IfStmt:
				out = append(out, "else")
				out = append(out, "{")
				walk(e)
				out = append(out, "}")
			}
		case *ast.RangeStmt:
			h := "range " + c07Text(v.X)
			if v.Value != nil {
				h = "for-value " + c07Text(v.Value) + " " + h
			}
			out = append(out, h)
			block(v.Body)
		case *ast.ForStmt:
			out = append(out, "for")
			block(v.Body)
		case *ast.BlockStmt:
			block(v)
		case *ast.DeferStmt:
			if !quiet {
				out = append(out, "defer "+c07Text(v.Call))
			}
		default:
			t := c07StmtText(s)
			if strings.Contains(t, "Logger.") || strings.Contains(t, "logger.") {
				return
			}
			if quiet && (strings.Contains(t, "Lock()") || strings.Contains(t, "Unlock()")) {
				return
			}
			out = append(out, t)
		}
	}
	for _, s := range b.List {
		walk(s)
	}
	return out
}

func c07StmtText(s ast.Stmt) string {
	switch v := s.(type) {
	case *ast.AssignStmt:
		var l, r []string
		for _, e := range v.Lhs {
			l = append(l, c07Text(e))
		}
		for _, e := range v.Rhs {
			r = append(r, c07Text(e))
		}
		return strings.Join(l, ", ") + " " + v.Tok.String() + " " + strings.Join(r, ", ")
	case *ast.ExprStmt:
		return c07Text(v.X)
	case *ast.ReturnStmt:
		var r []string
		for _, e := range v.Results {
			r = append(r, c07Text(e))
		}
		return strings.TrimSpace("return " + strings.Join(r, ", "))
	case *ast.IncDecStmt:
		return c07Text(v.X) + v.Tok.String()
	case *ast.DeclStmt:
		return "decl"
	case *ast.BranchStmt:
		return v.Tok.String()
	}
	return fmt.Sprintf("%T", s)
}

// c07DropEmptyBlocks removes `X { }` pairs whose body was filtered away (header kept only when it is
// an `if hasMeta`-style header with content) and bare "{" "}" pairs.
func c07DropEmptyBlocks(xs []string) []string {
	for {
		changed := false
		var out []string
		for i := 0; i < len(xs); i++ {
			if xs[i] == "{" && i+1 < len(xs) && xs[i+1] == "}" {
				// drop the empty block and an `else` header right before it
				if n := len(out); n > 0 && out[n-1] == "else" {
					out = out[:n-1]
				}
				i++
				changed = true
				continue
			}
			out = append(out, xs[i])
		}
		xs = out
		if !changed {
			return xs
		}
	}
}
