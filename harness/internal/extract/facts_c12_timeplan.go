package extract

// C12 round 13: calcTimeRangeAndInterval (query/context/utils.go) statement by statement, which
// expression the range is truncated by, the call sites in the two MakePlan functions, and the
// threshold table of timeutil.CalcQueryInterval, re-read from the source on every run.

import (
	"fmt"
	"go/ast"
	"go/token"
	"strings"
)

func c12Steps(fset *token.FileSet, list []ast.Stmt, indent string, out *[]string) {
	for _, st := range list {
		switch x := st.(type) {
		case *ast.IfStmt:
			*out = append(*out, indent+"if "+c12Src(fset, x.Cond))
			c12Steps(fset, x.Body.List, indent+"  ", out)
			if x.Else != nil {
				*out = append(*out, indent+"else")
				if b, ok := x.Else.(*ast.BlockStmt); ok {
					c12Steps(fset, b.List, indent+"  ", out)
				} else {
					c12Steps(fset, []ast.Stmt{x.Else}, indent+"  ", out)
				}
			}
		case *ast.ExprStmt:
			if strings.HasPrefix(c12Src(fset, x), "verifhook.Yield") {
				continue
			}
			*out = append(*out, indent+c12Src(fset, x))
		default:
			*out = append(*out, indent+c12Src(fset, st))
		}
	}
}

func c12CountCalls(fd *ast.FuncDecl, name string) int {
	n := 0
	if fd == nil {
		return 0
	}
	ast.Inspect(fd.Body, func(m ast.Node) bool {
		if ce, ok := m.(*ast.CallExpr); ok {
			if id, ok := ce.Fun.(*ast.Ident); ok && id.Name == name {
				n++
			}
		}
		return true
	})
	return n
}

func c12TimePlanFacts(repo string, sb *strings.Builder) error {
	fsetU, uf, err := ParseFile(repo, "query/context/utils.go")
	if err != nil {
		return err
	}
	calc := FindFunc(uf, "", "calcTimeRangeAndInterval")
	if calc == nil {
		return fmt.Errorf("calcTimeRangeAndInterval not found")
	}
	var steps []string
	c12Steps(fsetU, calc.Body.List, "", &steps)
	fmt.Fprintf(sb, "/-- calcTimeRangeAndInterval statement by statement (two spaces = inside an if) -/\ndef calcTimeRangeSteps : List String := %s\n", LeanStrList(steps))
	// the second argument of every timeutil.Truncate call, and every assignment to those identifiers
	var units, unitDefs []string
	seen := map[string]bool{}
	ast.Inspect(calc.Body, func(m ast.Node) bool {
		if ce, ok := m.(*ast.CallExpr); ok && c12Src(fsetU, ce.Fun) == "timeutil.Truncate" && len(ce.Args) == 2 {
			u := c12Src(fsetU, ce.Args[1])
			units = append(units, u)
			seen[u] = true
		}
		return true
	})
	ast.Inspect(calc.Body, func(m ast.Node) bool {
		if as, ok := m.(*ast.AssignStmt); ok {
			for _, l := range as.Lhs {
				if seen[c12Src(fsetU, l)] {
					unitDefs = append(unitDefs, c12Src(fsetU, as))
				}
			}
		}
		return true
	})
	fmt.Fprintf(sb, "/-- second argument of each timeutil.Truncate call in calcTimeRangeAndInterval -/\ndef calcTruncUnits : List String := %s\n", LeanStrList(units))
	fmt.Fprintf(sb, "/-- every assignment to those identifiers -/\ndef calcTruncUnitDefs : List String := %s\n", LeanStrList(unitDefs))

	_, rf, err := ParseFile(repo, "query/context/root_metric_context.go")
	if err != nil {
		return err
	}
	fsetI, imf, err := ParseFile(repo, "query/context/intermediate_metric_context.go")
	if err != nil {
		return err
	}
	fmt.Fprintf(sb, "/-- calls of calcTimeRangeAndInterval in RootMetricContext.MakePlan / IntermediateMetricContext.MakePlan -/\ndef rootMakePlanCalcCalls : Nat := %d\ndef intermediateMakePlanCalcCalls : Nat := %d\n",
		c12CountCalls(FindFunc(rf, "RootMetricContext", "MakePlan"), "calcTimeRangeAndInterval"),
		c12CountCalls(FindFunc(imf, "IntermediateMetricContext", "MakePlan"), "calcTimeRangeAndInterval"))

	// is the intermediate's call guarded by "the statement has not been planned yet"?
	guarded := false
	if mp := FindFunc(imf, "IntermediateMetricContext", "MakePlan"); mp != nil {
		ast.Inspect(mp.Body, func(m ast.Node) bool {
			if is, ok := m.(*ast.IfStmt); ok && is.Init == nil && is.Else == nil && len(is.Body.List) == 1 {
				var b strings.Builder
				for _, f := range strings.Fields(c12Src(fsetI, is.Cond)) {
					b.WriteString(f)
				}
				if b.String() == "ctx.statement.StorageInterval<=0" {
					if es, ok := is.Body.List[0].(*ast.ExprStmt); ok {
						if ce, ok := es.X.(*ast.CallExpr); ok {
							if id, ok := ce.Fun.(*ast.Ident); ok && id.Name == "calcTimeRangeAndInterval" {
								guarded = true
							}
						}
					}
				}
			}
			return true
		})
	}
	fmt.Fprintf(sb, "/-- IntermediateMetricContext.MakePlan plans only `if ctx.statement.StorageInterval <= 0` -/\ndef intermediateCalcGuarded : Bool := %v\n", guarded)

	fsetT, tf, err := ParseFile(repo, "pkg/timeutil/interval.go")
	if err != nil {
		return err
	}
	var table []string
	if cq := FindFunc(tf, "", "CalcQueryInterval"); cq != nil {
		ast.Inspect(cq.Body, func(m ast.Node) bool {
			if cc, ok := m.(*ast.CaseClause); ok {
				cond := "default"
				if len(cc.List) > 0 {
					cond = c12Src(fsetT, cc.List[0])
				}
				for _, b := range cc.Body {
					table = append(table, cond+" => "+c12Src(fsetT, b))
				}
			}
			return true
		})
	}
	fmt.Fprintf(sb, "/-- timeutil.CalcQueryInterval's switch, clause by clause -/\ndef calcQueryIntervalTable : List String := %s\n", LeanStrList(table))
	fsetM, mf, err := ParseFile(repo, "pkg/timeutil/time.go")
	if err != nil {
		return err
	}
	var trunc, ratio []string
	if f := FindFunc(mf, "", "Truncate"); f != nil {
		c12Steps(fsetM, f.Body.List, "", &trunc)
	}
	if f := FindFunc(mf, "", "CalIntervalRatio"); f != nil {
		c12Steps(fsetM, f.Body.List, "", &ratio)
	}
	fmt.Fprintf(sb, "def truncateSteps : List String := %s\ndef calIntervalRatioSteps : List String := %s\n", LeanStrList(trunc), LeanStrList(ratio))
	return nil
}
