package extract

import (
	"bytes"
	"fmt"
	"go/ast"
	"go/printer"
	"go/token"
	"strings"
)

// C07: the order of durable effects of one storage node. Call orders (source order) of the
// functions whose sequencing the node-recovery model mirrors, plus the shape of the dictionary
// PrepareFlush condition (four copies of one pattern in the index package).
func init() {
	Register(Fact{Module: "C07", Gen: func(repo string) (string, error) {
		var sb strings.Builder
		type fn struct{ file, recv, name, lean string }
		fns := []fn{
			{"tsdb/data_flush_checker.go", "dataFlushChecker", "doFlush", "doFlushCalls"},
			{"tsdb/data_flush_checker.go", "dataFlushChecker", "flushShard", "flushShardCalls"},
			{"tsdb/data_family.go", "dataFamily", "Flush", "familyFlushCalls"},
			{"tsdb/data_family.go", "dataFamily", "flushMemoryDatabase", "flushMemoryDatabaseCalls"},
			{"tsdb/data_family.go", "dataFamily", "WriteRows", "writeRowsCalls"},
			{"tsdb/memdb/database.go", "memoryDatabase", "FlushFamilyTo", "flushFamilyToCalls"},
			{"kv/flusher.go", "storeFlusher", "Commit", "storeFlusherCommitCalls"},
			{"replica/replicator_local.go", "localReplicator", "Replica", "replicaCalls"},
			{"replica/replicator_local.go", "", "NewLocalReplicator", "newLocalReplicatorCalls"},
			{"replica/partition.go", "partition", "replica", "partitionReplicaCalls"},
			{"tsdb/memdb/metadata_database.go", "metadataDatabase", "handle", "metaWorkerCalls"},
			{"tsdb/memdb/index_database.go", "indexDatabase", "handle", "indexWorkerCalls"},
			{"index/metric_meta_database.go", "metricMetaDatabase", "PrepareFlush", "metaPrepareCalls"},
			{"index/metric_meta_database.go", "metricMetaDatabase", "Flush", "metaFlushCalls"},
			{"index/metric_index_database.go", "metricIndexDatabase", "PrepareFlush", "indexPrepareCalls"},
			{"index/metric_index_database.go", "metricIndexDatabase", "Flush", "indexFlushCalls"},
			{"pkg/queue/consumer_group.go", "consumerGroup", "Ack", "groupAckCalls"},
			{"replica/partition.go", "partition", "IsExpire", "isExpireCalls"},
			{"replica/wal.go", "writeAheadLog", "destroy", "walDestroyCalls"},
			{"replica/wal.go", "writeAheadLog", "recovery", "walRecoveryCalls"},
			{"tsdb/engine.go", "engine", "Close", "engineCloseCalls"},
			{"tsdb/database.go", "database", "Close", "databaseCloseCalls"},
			{"tsdb/shard.go", "shard", "Close", "shardCloseCalls"},
			{"tsdb/segment.go", "segment", "Close", "segmentCloseCalls"},
			{"tsdb/interval_segment.go", "intervalSegment", "Close", "intervalSegmentCloseCalls"},
			{"tsdb/shard.go", "shard", "FlushIndex", "shardFlushIndexCalls"},
		}
		files := map[string]*ast.File{}
		get := func(rel string) (*ast.File, error) {
			if f, ok := files[rel]; ok {
				return f, nil
			}
			_, f, err := ParseFile(repo, rel)
			if err != nil {
				return nil, err
			}
			files[rel] = f
			return f, nil
		}
		for _, x := range fns {
			f, err := get(x.file)
			if err != nil {
				return "", err
			}
			fd := FindFunc(f, x.recv, x.name)
			if fd == nil {
				return "", fmt.Errorf("%s: func %s.%s not found", x.file, x.recv, x.name)
			}
			fmt.Fprintf(&sb, "/-- %s: %s.%s -/\ndef %s : List String := %s\n\n", x.file, x.recv, x.name, x.lean, LeanStrList(callSeqExec(fd)))
		}
		// the guard of the consumer group Ack and of ValidateSequence, as source text
		cgf, _ := get("pkg/queue/consumer_group.go")
		if c := firstIfCond(FindFunc(cgf, "consumerGroup", "Ack")); c != "" {
			fmt.Fprintf(&sb, "def groupAckGuard : String := %q\n\n", c)
		} else {
			return "", fmt.Errorf("consumerGroup.Ack: guard not found")
		}
		// consumerGroup.IsEmpty: the expression it returns (the WAL garbage collector's predicate)
		if e := c07LastReturnExpr(FindFunc(cgf, "consumerGroup", "IsEmpty")); e != "" {
			fmt.Fprintf(&sb, "def groupIsEmptyExpr : String := %q\n\n", e)
		} else {
			return "", fmt.Errorf("consumerGroup.IsEmpty: return expression not found")
		}
		// dataFamily.Close: which memory database (with which sequences) is flushed first
		dff, _ := get("tsdb/data_family.go")
		fmt.Fprintf(&sb, "/-- arguments of the flushMemoryDatabase calls of dataFamily.Close, in source order -/\ndef closeFlushArgs : List String := %s\n\n",
			LeanStrList(c07CallArgs(FindFunc(dff, "dataFamily", "Close"), "flushMemoryDatabase")))
		fmt.Fprintf(&sb, "def flushFlushArgs : List String := %s\n\n",
			LeanStrList(c07CallArgs(FindFunc(dff, "dataFamily", "Flush"), "flushMemoryDatabase")))
		// the leader id on the recovery path: directory name -> partition key -> partition.recovery ->
		// buildReplica -> ReplicaState.Leader -> localReplicator.leader -> family sequence maps
		walf, _ := get("replica/wal.go")
		partf, _ := get("replica/partition.go")
		lrf, _ := get("replica/replicator_local.go")
		rec := FindFunc(walf, "writeAheadLog", "recovery")
		fmt.Fprintf(&sb, "def walRecoveryPartitionArgs : List String := %s\n\n", LeanStrList(c07ResolveArgs(rec, c07CallArgs(rec, "GetOrCreatePartition"))))
		fmt.Fprintf(&sb, "def walRecoveryLeaderArgs : List String := %s\n\n", LeanStrList(c07ResolveArgs(rec, c07CallArgs(rec, "recovery"))))
		fmt.Fprintf(&sb, "def partitionRecoveryBuildArgs : List String := %s\n\n", LeanStrList(c07CallArgs(FindFunc(partf, "partition", "recovery"), "buildReplica")))
		fmt.Fprintf(&sb, "def buildReplicaStateLeader : List String := %s\n\n", LeanStrList(c07KeyValues(FindFunc(partf, "partition", "buildReplica"), "Leader")))
		fmt.Fprintf(&sb, "def localReplicatorLeader : List String := %s\n\n", LeanStrList(c07KeyValues(FindFunc(lrf, "", "NewLocalReplicator"), "leader")))
		fmt.Fprintf(&sb, "def localReplicaLeaderArgs : List String := %s\n\n", LeanStrList(append(append(
			c07CallArgs(FindFunc(lrf, "localReplicator", "Replica"), "ValidateSequence"),
			c07CallArgs(FindFunc(lrf, "localReplicator", "Replica"), "CommitSequence")...),
			c07CallArgs(FindFunc(lrf, "", "NewLocalReplicator"), "AckSequence")...)))
		// the family's sequence maps: what ValidateSequence returns, where seq / persistSeq / the captured
		// sequences are assigned (newDataFamily, Flush, Close, CommitSequence), the registration-time ack
		fmt.Fprintf(&sb, "/-- return expressions of dataFamily.ValidateSequence, in source order -/\ndef validateSequenceReturns : List String := %s\n\n",
			LeanStrList(c07ReturnExprs(FindFunc(dff, "dataFamily", "ValidateSequence"))))
		fmt.Fprintf(&sb, "def newDataFamilySeqAssigns : List String := %s\n\n",
			LeanStrList(c07Assigns(FindFunc(dff, "", "newDataFamily"), "f.seq[", "f.persistSeq[", "sequences")))
		fmt.Fprintf(&sb, "def flushSeqAssigns : List String := %s\n\n",
			LeanStrList(c07Assigns(FindFunc(dff, "dataFamily", "Flush"), "f.seq[", "f.persistSeq[", "immutableSeq", "f.immutableSeq")))
		fmt.Fprintf(&sb, "def closeSeqAssigns : List String := %s\n\n",
			LeanStrList(c07Assigns(FindFunc(dff, "dataFamily", "Close"), "f.seq[", "f.persistSeq[", "sequences")))
		fmt.Fprintf(&sb, "def commitSequenceAssigns : List String := %s\n\n",
			LeanStrList(c07Assigns(FindFunc(dff, "dataFamily", "CommitSequence"), "f.seq[", "seqForLeader")))
		fmt.Fprintf(&sb, "def commitSequenceStoreArgs : List String := %s\n\n",
			LeanStrList(c07CallArgs(FindFunc(dff, "dataFamily", "CommitSequence"), "Store")))
		fmt.Fprintf(&sb, "def ackSequenceAssigns : List String := %s\n\n",
			LeanStrList(c07Assigns(FindFunc(dff, "dataFamily", "AckSequence"), "f.callbacks[", "seqForLeader")))
		fmt.Fprintf(&sb, "def ackSequenceFnArgs : List String := %s\n\n",
			LeanStrList(c07CallArgs(FindFunc(dff, "dataFamily", "AckSequence"), "fn")))
		fmt.Fprintf(&sb, "def flushMemDBCallbackArgs : List String := %s\n\n",
			LeanStrList(c07CallArgs(FindFunc(dff, "dataFamily", "flushMemoryDatabase"), "fn")))
		fmt.Fprintf(&sb, "def flushMemDBSequenceArgs : List String := %s\n\n",
			LeanStrList(c07CallArgs(FindFunc(dff, "dataFamily", "flushMemoryDatabase"), "Sequence")))
		if c := firstIfCond(FindFunc(lrf, "localReplicator", "Replica")); c != "" {
			fmt.Fprintf(&sb, "def replicaFirstGuard : String := %q\n\n", c)
		} else {
			return "", fmt.Errorf("localReplicator.Replica: first guard not found")
		}
		fmt.Fprintf(&sb, "def newLocalReplicatorResetArgs : List String := %s\n\n",
			LeanStrList(c07CallArgs(FindFunc(lrf, "", "NewLocalReplicator"), "ResetReplicaIndex")))
		// error propagation of the flush steps: what happens on the error branch of each `if err ... != nil`
		shf, _ := get("tsdb/shard.go")
		dbf, _ := get("tsdb/database.go")
		fcf, _ := get("tsdb/data_flush_checker.go")
		for _, g := range []struct {
			f          *ast.File
			recv, name string
			lean       string
		}{
			{shf, "shard", "FlushIndex", "shardFlushIndexGuards"},
			{shf, "shard", "flushIndex", "shardFlushIndexInnerGuards"},
			{fcf, "dataFlushChecker", "flushShard", "flushShardGuards"},
			{fcf, "dataFlushChecker", "doFlush", "doFlushGuards"},
			{dbf, "database", "FlushMeta", "databaseFlushMetaGuards"},
			{dbf, "database", "flushMeta", "databaseFlushMetaInnerGuards"},
			{dbf, "database", "Close", "databaseCloseGuards"},
			{shf, "shard", "Close", "shardCloseGuards"},
		} {
			fd := FindFunc(g.f, g.recv, g.name)
			if fd == nil {
				return "", fmt.Errorf("func %s.%s not found", g.recv, g.name)
			}
			fmt.Fprintf(&sb, "/-- %s.%s: `if err (:)= X; err != nil` statements: X, how err is assigned, and whether the error branch ends by returning it -/\ndef %s : List String := %s\n\n",
				g.recv, g.name, g.lean, LeanStrList(c07ErrGuards(fd)))
		}
		// replicator.IgnoreMessage: when does it acknowledge an unusable entry?
		_, rf, err := ParseFile(repo, "replica/replicator.go")
		if err != nil {
			return "", err
		}
		ign := FindFunc(rf, "replicator", "IgnoreMessage")
		ic := firstIfCond(ign)
		fmt.Fprintf(&sb, "def ignoreMessageCalls : List String := %s\n\ndef ignoreCond : String := %q\n\n", LeanStrList(callSeqExec(ign)), ic)
		switch ic {
		case "currentAck+1 == replicaIdx":
			sb.WriteString("/-- IgnoreMessage acknowledges only the entry right behind the acknowledged position -/\ndef ignoreExact : Bool := true\n\n")
		case "currentAck < replicaIdx", "replicaIdx > currentAck":
			sb.WriteString("/-- IgnoreMessage acknowledges any unusable entry above the acknowledged position -/\ndef ignoreExact : Bool := false\n\n")
		default:
			return "", fmt.Errorf("replicator.IgnoreMessage: unknown condition %q", ic)
		}
		// partition.replica: which calls on the replicator sit in the error branch of GetMessage and which in the else branch
		pf, err := get("replica/partition.go")
		if err != nil {
			return "", err
		}
		prf := FindFunc(pf, "partition", "replica")
		if prf == nil {
			return "", fmt.Errorf("func partition.replica not found")
		}
		fmt.Fprintf(&sb, "/-- partition.replica: the assignments from replicator calls, the guards, and the replicator calls (with arguments) of the `err != nil` branch after GetMessage (`then:`) and of its else branch (`else:`) -/\ndef partitionReplicaBranches : List String := %s\n\n",
			LeanStrList(c07ReplicaBranches(prf)))
		// localReplicator.Replica: which statements set the `err` the deferred function tests, and what the deferred function does
		lrf, err2 := get("replica/replicator_local.go")
		if err2 != nil {
			return "", err2
		}
		lrFd := FindFunc(lrf, "localReplicator", "Replica")
		if lrFd == nil {
			return "", fmt.Errorf("func localReplicator.Replica not found")
		}
		fmt.Fprintf(&sb, "/-- localReplicator.Replica: declarations / assignments of `err` (`var`, `=`: the variable the deferred function tests; `if-init :=`: a shadowing one), the early `return`s with their guards, and the deferred function's guarded and unguarded calls on r / r.family -/\ndef replicaErrFlow : List String := %s\n\n",
			LeanStrList(c07ReplicaErrFlow(lrFd)))
		atomic, err := C07AtomicAcquire(repo)
		if err != nil {
			return "", err
		}
		if atomic {
			sb.WriteString("/-- WriteRows registers as writer of the memory database inside the family-mutex section that looks it up -/\ndef atomicAcquire : Bool := true\n\n")
		} else {
			sb.WriteString("/-- WriteRows: GetOrCreateMemoryDatabase (family mutex) and then, unprotected, db.AcquireWrite() -/\ndef atomicAcquire : Bool := false\n\n")
		}
		swap, conds, err := C07SwapOnEmpty(repo)
		if err != nil {
			return "", err
		}
		fmt.Fprintf(&sb, "/-- conditions of the four dictionary PrepareFlush functions (receiver renamed to r) -/\ndef prepareConds : List String := %s\n\n", LeanStrList(conds))
		if swap {
			sb.WriteString("/-- an empty immutable map does not block the next PrepareFlush -/\ndef swapOnEmpty : Bool := true\n")
		} else {
			sb.WriteString("/-- PrepareFlush swaps only when `immutable == nil`, and Flush leaves an empty immutable map in place -/\ndef swapOnEmpty : Bool := false\n")
		}
		return sb.String(), nil
	}})
}

// C07SwapOnEmpty reads the shape of the four copies of the dictionary PrepareFlush/Flush pattern in
// the index package: false = `if r.immutable == nil {` and a Flush that leaves an empty immutable
// map in place (an empty prepare blocks every later one), true = an empty immutable map does not
// block the next prepare. Any other shape, or copies that disagree, is an error.
func C07SwapOnEmpty(repo string) (swap bool, conds []string, err error) {
	type pf struct{ file, recv, prep, flush string }
	pfs := []pf{
		{"index/kv_store.go", "indexKVStore", "PrepareFlush", "Flush"},
		{"index/metric_schema_store.go", "metricSchemaStore", "PrepareFlush", "Flush"},
		{"index/metric_index_database.go", "invertedIndex", "prepareFlush", "flush"},
		{"index/metric_index_database.go", "forwardIndex", "prepareFlush", "flush"},
	}
	nWedge, nSwap := 0, 0
	for _, x := range pfs {
		_, f, perr := ParseFile(repo, x.file)
		if perr != nil {
			return false, nil, perr
		}
		c := firstIfCond(FindFunc(f, x.recv, x.prep))
		if c == "" {
			return false, nil, fmt.Errorf("%s.%s: no if statement", x.recv, x.prep)
		}
		c = normRecv(c)
		conds = append(conds, c)
		earlyResets := earlyReturnResets(FindFunc(f, x.recv, x.flush))
		switch {
		case c == "r.immutable == nil" && !earlyResets:
			nWedge++
		case strings.Contains(c, "IsEmpty()") || earlyResets:
			nSwap++
		default:
			return false, conds, fmt.Errorf("%s.%s: unknown PrepareFlush shape %q", x.recv, x.prep, c)
		}
	}
	switch {
	case nWedge == len(pfs):
		return false, conds, nil
	case nSwap == len(pfs):
		return true, conds, nil
	}
	return false, conds, fmt.Errorf("the four PrepareFlush copies disagree: %v", conds)
}

// C07AtomicAcquire reads the shape of dataFamily.WriteRows: false = it calls
// f.GetOrCreateMemoryDatabase and afterwards db.AcquireWrite itself (two steps, the second outside
// the family mutex); true = WriteRows does not call AcquireWrite directly and some dataFamily
// method acquires the writer between mutex.Lock and its (deferred) Unlock. Anything else is an error.
func C07AtomicAcquire(repo string) (bool, error) {
	_, f, err := ParseFile(repo, "tsdb/data_family.go")
	if err != nil {
		return false, err
	}
	wr := callSeqExec(FindFunc(f, "dataFamily", "WriteRows"))
	if len(wr) == 0 {
		return false, fmt.Errorf("dataFamily.WriteRows not found")
	}
	idx := func(l []string, suffix string) int {
		for i, s := range l {
			if strings.HasSuffix(s, suffix) && !strings.HasPrefix(s, "defer:") {
				return i
			}
		}
		return -1
	}
	g, a := idx(wr, "GetOrCreateMemoryDatabase"), idx(wr, ".AcquireWrite")
	if g >= 0 && a > g {
		return false, nil
	}
	if a < 0 {
		for _, d := range f.Decls {
			fd, ok := d.(*ast.FuncDecl)
			if !ok || fd.Recv == nil || fd.Name.Name == "WriteRows" {
				continue
			}
			cs := callSeqExec(fd)
			l, aw := idx(cs, "mutex.Lock"), idx(cs, ".AcquireWrite")
			if l >= 0 && aw > l {
				// the unlock must come after the acquire (deferred, or a later call)
				ok := false
				for i, s := range cs {
					if s == "defer:mutex.Unlock" || (s == "mutex.Unlock" && i > aw) {
						ok = true
					}
				}
				if ok && idx(wr, "."+fd.Name.Name) >= 0 {
					return true, nil
				}
			}
		}
	}
	return false, fmt.Errorf("dataFamily.WriteRows: unknown shape of memory database lookup / AcquireWrite: %v", wr)
}

func c07Text(e ast.Expr) string {
	var buf bytes.Buffer
	_ = printer.Fprint(&buf, token.NewFileSet(), e)
	return strings.Join(strings.Fields(buf.String()), " ")
}

// c07CallArgs lists, in source order, the argument text of every call of a function / method named
// callee inside fd (function literals are not entered for the leader-callback argument: their text
// is replaced by "func").
func c07CallArgs(fd *ast.FuncDecl, callee string) []string {
	var out []string
	if fd == nil || fd.Body == nil {
		return out
	}
	ast.Inspect(fd.Body, func(n ast.Node) bool {
		c, ok := n.(*ast.CallExpr)
		if !ok {
			return true
		}
		name := ""
		switch f := c.Fun.(type) {
		case *ast.Ident:
			name = f.Name
		case *ast.SelectorExpr:
			name = f.Sel.Name
		}
		if name != callee {
			return true
		}
		var as []string
		for _, a := range c.Args {
			if _, isFn := a.(*ast.FuncLit); isFn {
				as = append(as, "func")
			} else {
				as = append(as, c07Text(a))
			}
		}
		out = append(out, strings.Join(as, ", "))
		return true
	})
	return out
}

// c07ResolveArgs replaces, inside argument lists, identifiers that are defined once in fd by
// `x := expr` with that expression (so that the origin of a passed value is visible).
func c07ResolveArgs(fd *ast.FuncDecl, args []string) []string {
	defs := map[string]string{}
	if fd != nil && fd.Body != nil {
		ast.Inspect(fd.Body, func(n ast.Node) bool {
			if as, ok := n.(*ast.AssignStmt); ok && as.Tok == token.DEFINE && len(as.Lhs) == 1 && len(as.Rhs) == 1 {
				if id, ok := as.Lhs[0].(*ast.Ident); ok {
					defs[id.Name] = c07Text(as.Rhs[0])
				}
			}
			return true
		})
	}
	var out []string
	for _, a := range args {
		parts := strings.Split(a, ", ")
		for i, p := range parts {
			if d, ok := defs[p]; ok {
				parts[i] = d
			}
		}
		out = append(out, strings.Join(parts, ", "))
	}
	return out
}

// c07KeyValues lists the values of `key: value` elements of composite literals inside fd.
func c07KeyValues(fd *ast.FuncDecl, key string) []string {
	var out []string
	if fd == nil || fd.Body == nil {
		return out
	}
	ast.Inspect(fd.Body, func(n ast.Node) bool {
		if kv, ok := n.(*ast.KeyValueExpr); ok {
			if id, ok := kv.Key.(*ast.Ident); ok && id.Name == key {
				out = append(out, c07Text(kv.Value))
			}
		}
		return true
	})
	return out
}

// c07ErrGuards lists, in source order, the statements `if err (:)= X; err != nil { ... }` of fd as
// "X|tok|verdict": X = the called function (or the expression), tok = "=" or ":=", verdict =
// "abort" when the error branch ends with a return that carries the error (`return err`,
// `return ..., err`, or a bare return after `err = X` into a named result), "continue" otherwise
// (the error is logged / dropped and the function goes on), "return-nil" when the branch returns
// without the error.
func c07ErrGuards(fd *ast.FuncDecl) []string {
	var out []string
	if fd == nil || fd.Body == nil {
		return out
	}
	named := false
	if fd.Type.Results != nil {
		for _, r := range fd.Type.Results.List {
			for _, n := range r.Names {
				if n.Name == "err" {
					named = true
				}
			}
		}
	}
	ast.Inspect(fd.Body, func(n ast.Node) bool {
		is, ok := n.(*ast.IfStmt)
		if !ok || is.Init == nil {
			return true
		}
		as, ok := is.Init.(*ast.AssignStmt)
		if !ok || len(as.Rhs) != 1 || len(as.Lhs) == 0 {
			return true
		}
		id, ok := as.Lhs[len(as.Lhs)-1].(*ast.Ident)
		if !ok || id.Name != "err" {
			return true
		}
		if c := c07Text(is.Cond); c != "err != nil" {
			return true
		}
		x := c07Text(as.Rhs[0])
		if c, ok := as.Rhs[0].(*ast.CallExpr); ok {
			x = c07Text(c.Fun)
		}
		verdict := "continue"
		if k := len(is.Body.List); k > 0 {
			if r, ok := is.Body.List[k-1].(*ast.ReturnStmt); ok {
				verdict = "return-nil"
				if len(r.Results) == 0 && named && as.Tok == token.ASSIGN {
					verdict = "abort"
				}
				if len(r.Results) == 0 && fd.Type.Results == nil {
					verdict = "abort" // a function without results: the bare return ends it
				}
				if k := len(r.Results); k > 0 {
					if rid, ok := r.Results[k-1].(*ast.Ident); ok && rid.Name == "err" {
						verdict = "abort"
					}
				}
			}
		}
		out = append(out, x+"|"+as.Tok.String()+"|"+verdict)
		return true
	})
	return out
}

// c07ReturnExprs = the text of every single-result return of fd, in source order.
func c07ReturnExprs(fd *ast.FuncDecl) []string {
	var out []string
	if fd == nil || fd.Body == nil {
		return out
	}
	ast.Inspect(fd.Body, func(n ast.Node) bool {
		if r, ok := n.(*ast.ReturnStmt); ok && len(r.Results) == 1 {
			out = append(out, c07Text(r.Results[0]))
		}
		return true
	})
	return out
}

// c07Assigns = the assignments / short declarations of fd (source order, function literals included)
// one of whose left-hand sides starts with one of the prefixes, as "lhs tok rhs".
func c07Assigns(fd *ast.FuncDecl, prefixes ...string) []string {
	var out []string
	if fd == nil || fd.Body == nil {
		return out
	}
	ast.Inspect(fd.Body, func(n ast.Node) bool {
		as, ok := n.(*ast.AssignStmt)
		if !ok {
			return true
		}
		var ls, rs []string
		hit := false
		for _, l := range as.Lhs {
			t := c07Text(l)
			ls = append(ls, t)
			for _, p := range prefixes {
				if strings.HasPrefix(t, p) {
					hit = true
				}
			}
		}
		if !hit {
			return true
		}
		for _, r := range as.Rhs {
			rs = append(rs, c07Text(r))
		}
		out = append(out, strings.Join(ls, ", ")+" "+as.Tok.String()+" "+strings.Join(rs, ", "))
		return true
	})
	return out
}

func c07LastReturnExpr(fd *ast.FuncDecl) string {
	if fd == nil || fd.Body == nil {
		return ""
	}
	out := ""
	ast.Inspect(fd.Body, func(n ast.Node) bool {
		if r, ok := n.(*ast.ReturnStmt); ok && len(r.Results) == 1 {
			var buf bytes.Buffer
			_ = printer.Fprint(&buf, token.NewFileSet(), r.Results[0])
			out = buf.String()
		}
		return true
	})
	return out
}

// callSeqExec is CallSeq in EXECUTION order for straight-line readers: calls in source order, the
// place where a `defer` is registered is marked "defer-registered", and the calls of deferred
// function literals / deferred calls are appended at the end (last registered first) with the
// prefix "defer:". Calls inside other function literals keep the prefix "λ:".
func callSeqExec(fd *ast.FuncDecl) []string {
	var out []string
	var deferred [][]string
	var walk func(n ast.Node, prefix string, sink *[]string)
	walk = func(n ast.Node, prefix string, sink *[]string) {
		ast.Inspect(n, func(m ast.Node) bool {
			switch x := m.(type) {
			case *ast.DeferStmt:
				*sink = append(*sink, prefix+"defer-registered")
				var d []string
				if fl, ok := x.Call.Fun.(*ast.FuncLit); ok {
					walk(fl.Body, prefix+"defer:", &d)
				} else {
					walk(x.Call, prefix+"defer:", &d)
				}
				deferred = append(deferred, d)
				return false
			case *ast.FuncLit:
				walk(x.Body, prefix+"λ:", sink)
				return false
			case *ast.CallExpr:
				for _, a := range x.Args {
					walk(a, prefix, sink)
				}
				if se, ok := x.Fun.(*ast.SelectorExpr); ok {
					walk(se.X, prefix, sink)
				}
				if fl, ok := x.Fun.(*ast.FuncLit); ok {
					walk(fl.Body, prefix+"λ:", sink)
					return false
				}
				*sink = append(*sink, prefix+exprName(x.Fun))
				return false
			}
			return true
		})
	}
	if fd != nil && fd.Body != nil {
		walk(fd.Body, "", &out)
	}
	for i := len(deferred) - 1; i >= 0; i-- {
		out = append(out, deferred[i]...)
	}
	return out
}

func firstIfCond(fd *ast.FuncDecl) string {
	if fd == nil || fd.Body == nil {
		return ""
	}
	var out string
	ast.Inspect(fd.Body, func(n ast.Node) bool {
		if out != "" {
			return false
		}
		if is, ok := n.(*ast.IfStmt); ok {
			var buf bytes.Buffer
			_ = printer.Fprint(&buf, token.NewFileSet(), is.Cond)
			out = buf.String()
			return false
		}
		return true
	})
	return out
}

// normRecv renames the receiver variable (first identifier before ".immutable") to r.
func normRecv(c string) string {
	for _, rv := range []string{"s.", "ii.", "fi.", "index."} {
		c = strings.ReplaceAll(c, rv+"immutable", "r.immutable")
		c = strings.ReplaceAll(c, rv+"mutable", "r.mutable")
	}
	return c
}

// earlyReturnResets reports whether the `if !needFlush() { ... }` branch at the top of a Flush
// assigns the immutable field before returning.
func earlyReturnResets(fd *ast.FuncDecl) bool {
	if fd == nil || fd.Body == nil {
		return false
	}
	for _, st := range fd.Body.List {
		is, ok := st.(*ast.IfStmt)
		if !ok {
			continue
		}
		var buf bytes.Buffer
		_ = printer.Fprint(&buf, token.NewFileSet(), is.Cond)
		if !strings.Contains(buf.String(), "needFlush()") {
			continue
		}
		found := false
		ast.Inspect(is.Body, func(n ast.Node) bool {
			if as, ok := n.(*ast.AssignStmt); ok {
				for _, l := range as.Lhs {
					if se, ok := l.(*ast.SelectorExpr); ok && se.Sel.Name == "immutable" {
						found = true
					}
				}
			}
			return true
		})
		return found
	}
	return false
}

// c07ReplicaBranches describes the data flow of partition.replica around GetMessage: every
// assignment whose right-hand side is a call on `replicator` ("assign:<lhs> := <call>"), every if
// condition that is not the error test ("if:<cond>"), and for the `err != nil` test every call on
// `replicator` in its body ("then:<call>") and in its else branch ("else:<call>"), in source order.
func c07ReplicaBranches(fd *ast.FuncDecl) []string {
	var out []string
	if fd == nil || fd.Body == nil {
		return out
	}
	onRepl := func(c *ast.CallExpr) bool {
		sel, ok := c.Fun.(*ast.SelectorExpr)
		if !ok {
			return false
		}
		id, ok := sel.X.(*ast.Ident)
		return ok && id.Name == "replicator"
	}
	calls := func(n ast.Node, tag string) {
		if n == nil {
			return
		}
		ast.Inspect(n, func(x ast.Node) bool {
			if c, ok := x.(*ast.CallExpr); ok && onRepl(c) {
				if sel := c.Fun.(*ast.SelectorExpr); sel.Sel.Name != "String" {
					out = append(out, tag+c07Text(c))
				}
			}
			return true
		})
	}
	ast.Inspect(fd.Body, func(n ast.Node) bool {
		switch x := n.(type) {
		case *ast.FuncLit:
			return false
		case *ast.AssignStmt:
			if len(x.Rhs) == 1 {
				if c, ok := x.Rhs[0].(*ast.CallExpr); ok && onRepl(c) {
					var lhs []string
					for _, l := range x.Lhs {
						lhs = append(lhs, c07Text(l))
					}
					out = append(out, "assign:"+strings.Join(lhs, ", ")+" "+x.Tok.String()+" "+c07Text(c))
				}
			}
		case *ast.IfStmt:
			cond := c07Text(x.Cond)
			if cond == "err != nil" {
				calls(x.Body, "then:")
				if x.Else != nil {
					calls(x.Else, "else:")
				} else {
					out = append(out, "else:none")
				}
				return false
			}
			out = append(out, "if:"+cond)
		}
		return true
	})
	return out
}

// c07ReplicaErrFlow describes how localReplicator.Replica's error reaches its deferred function:
// "var:err" for the declaration, "set:<lhs> = <call>" for plain assignments to err, "shadow:<call>"
// for `if err := <call>; ...` (a new variable: the deferred function does not see it),
// "guard:<cond>" for every if condition outside the deferred function, and for the deferred
// function "defer-if:<cond>", "defer-then:<call>" (calls on r / r.family inside the if) and
// "defer:<call>" (calls on r / r.family after it), in source order.
func c07ReplicaErrFlow(fd *ast.FuncDecl) []string {
	var out []string
	if fd == nil || fd.Body == nil {
		return out
	}
	recvCall := func(c *ast.CallExpr) bool {
		t := c07Text(c.Fun)
		return strings.HasPrefix(t, "r.IgnoreMessage") || strings.HasPrefix(t, "r.family.") || strings.HasPrefix(t, "r.SetAckIndex")
	}
	var inDefer func(n ast.Node, tag string)
	inDefer = func(n ast.Node, tag string) {
		ast.Inspect(n, func(x ast.Node) bool {
			switch y := x.(type) {
			case *ast.IfStmt:
				out = append(out, "defer-if:"+c07Text(y.Cond))
				inDefer(y.Body, "defer-then:")
				if y.Else != nil {
					inDefer(y.Else, "defer-else:")
				}
				return false
			case *ast.CallExpr:
				if recvCall(y) {
					out = append(out, tag+c07Text(y))
				}
			}
			return true
		})
	}
	ast.Inspect(fd.Body, func(n ast.Node) bool {
		switch x := n.(type) {
		case *ast.DeferStmt:
			if fl, ok := x.Call.Fun.(*ast.FuncLit); ok {
				inDefer(fl.Body, "defer:")
			}
			return false
		case *ast.GenDecl:
			for _, sp := range x.Specs {
				if vs, ok := sp.(*ast.ValueSpec); ok {
					for _, nm := range vs.Names {
						if nm.Name == "err" {
							out = append(out, "var:err")
						}
					}
				}
			}
		case *ast.AssignStmt:
			for _, l := range x.Lhs {
				if id, ok := l.(*ast.Ident); ok && id.Name == "err" && len(x.Rhs) == 1 {
					if c, ok := x.Rhs[0].(*ast.CallExpr); ok {
						var lhs []string
						for _, l2 := range x.Lhs {
							lhs = append(lhs, c07Text(l2))
						}
						out = append(out, "set:"+strings.Join(lhs, ", ")+" "+x.Tok.String()+" "+c07Text(c.Fun))
					}
				}
			}
		case *ast.IfStmt:
			if as, ok := x.Init.(*ast.AssignStmt); ok && len(as.Rhs) == 1 {
				if c, ok := as.Rhs[0].(*ast.CallExpr); ok {
					out = append(out, "shadow:"+c07Text(as.Lhs[0])+" "+as.Tok.String()+" "+c07Text(c.Fun))
				}
				ast.Inspect(x.Body, func(y ast.Node) bool { return true })
				out = append(out, "guard:"+c07Text(x.Cond))
				// do not descend into Init again (it would be reported as set:)
				ast.Inspect(x.Body, func(y ast.Node) bool {
					if _, ok := y.(*ast.ReturnStmt); ok {
						out = append(out, "return")
					}
					return true
				})
				return false
			}
			out = append(out, "guard:"+c07Text(x.Cond))
		case *ast.ReturnStmt:
			out = append(out, "return")
		}
		return true
	})
	return out
}
