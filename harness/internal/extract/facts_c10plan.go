package extract

// C10 (round 12): which operators a leaf query runs (the two Plan() functions of the metadata lookup
// and shard scan stages), and the operator bodies the no-WHERE branch goes through.
// Emitted as lean/LinVerif/Generated/C10Plan.lean; consumed by LinVerif/Props/C10Plan.lean.

import (
	"fmt"
	"go/ast"
	"go/token"
	"strings"
)

// c10PlanCtors walks a Plan() body and lists every `operator.New…` constructor call in source order
// together with the conditions of the enclosing if / else / range statements (outermost first).
func c10PlanCtors(fset *token.FileSet, body *ast.BlockStmt, guards []string, out *[][2]string) {
	var visitCalls func(n ast.Node)
	visitCalls = func(n ast.Node) {
		ast.Inspect(n, func(x ast.Node) bool {
			c, ok := x.(*ast.CallExpr)
			if !ok {
				return true
			}
			if sel, ok := c.Fun.(*ast.SelectorExpr); ok {
				if id, ok := sel.X.(*ast.Ident); ok && id.Name == "operator" && strings.HasPrefix(sel.Sel.Name, "New") {
					*out = append(*out, [2]string{"operator." + sel.Sel.Name, strings.Join(guards, "\x00")})
				}
			}
			return true
		})
	}
	for _, st := range body.List {
		switch x := st.(type) {
		case *ast.IfStmt:
			cond := c10IfHead(fset, x)
			c10PlanCtors(fset, x.Body, append(append([]string{}, guards...), cond), out)
			switch e := x.Else.(type) {
			case *ast.BlockStmt:
				c10PlanCtors(fset, e, append(append([]string{}, guards...), "!("+cond+")"), out)
			case *ast.IfStmt:
				c10PlanCtors(fset, &ast.BlockStmt{List: []ast.Stmt{e}}, append(append([]string{}, guards...), "!("+cond+")"), out)
			}
		case *ast.RangeStmt:
			c10PlanCtors(fset, x.Body, append(append([]string{}, guards...), "range "+c10Src(fset, x.X)), out)
		case *ast.ForStmt:
			c10PlanCtors(fset, x.Body, append(append([]string{}, guards...), "for"), out)
		case *ast.BlockStmt:
			c10PlanCtors(fset, x, guards, out)
		case *ast.SwitchStmt, *ast.TypeSwitchStmt, *ast.SelectStmt:
			// not expected in a Plan(): constructors below it get a guard no tie knows
			sub := [][2]string{}
			g := append(append([]string{}, guards...), "switch")
			ast.Inspect(x, func(n ast.Node) bool {
				if b, ok := n.(*ast.CaseClause); ok {
					c10PlanCtors(fset, &ast.BlockStmt{List: b.Body}, g, &sub)
					return false
				}
				return true
			})
			*out = append(*out, sub...)
		default:
			visitCalls(st)
		}
	}
}

func c10LeanPlan(xs [][2]string) string {
	if len(xs) == 0 {
		return "[]"
	}
	var parts []string
	for _, x := range xs {
		var gs []string
		if x[1] != "" {
			gs = strings.Split(x[1], "\x00")
		}
		parts = append(parts, "("+LeanStrList([]string{x[0]})[1:len(LeanStrList([]string{x[0]}))-1]+", "+LeanStrList(gs)+")")
	}
	return "[" + strings.Join(parts, ", ") + "]"
}

func c10Skeleton(repo, rel, recv, fn string) ([]string, error) {
	fs, f, err := ParseFile(repo, rel)
	if err != nil {
		return nil, err
	}
	fd := FindFunc(f, recv, fn)
	if fd == nil || fd.Body == nil {
		return nil, fmt.Errorf("%s.%s not found in %s", recv, fn, rel)
	}
	var sk []string
	c10NestedStmts(fs, fd.Body, 0, &sk)
	return sk, nil
}

func init() {
	Register(Fact{Module: "C10Plan", Gen: func(repo string) (string, error) {
		var sb strings.Builder
		for _, p := range []struct{ name, rel, recv string }{
			{"metaPlan", "query/stage/metadata_lookup_stage.go", "metadataLookupStage"},
			{"shardPlan", "query/stage/shard_scan_stage.go", "shardScanStage"},
		} {
			fs, f, err := ParseFile(repo, p.rel)
			if err != nil {
				return "", err
			}
			fd := FindFunc(f, p.recv, "Plan")
			if fd == nil || fd.Body == nil {
				return "", fmt.Errorf("%s.Plan not found", p.recv)
			}
			var ctors [][2]string
			c10PlanCtors(fs, fd.Body, nil, &ctors)
			var sk []string
			c10NestedStmts(fs, fd.Body, 0, &sk)
			sb.WriteString("/-- operator constructors of " + p.recv + ".Plan in source order, each with the conditions of the enclosing if/else/range statements -/\n")
			sb.WriteString("def " + p.name + "Ctors : List (String × List String) := " + c10LeanPlan(ctors) + "\n")
			sb.WriteString("/-- statement skeleton of " + p.recv + ".Plan -/\n")
			sb.WriteString("def " + p.name + "Skeleton : List String := " + LeanStrList(sk) + "\n\n")
		}
		for _, p := range []struct{ name, rel, recv, fn string }{
			{"execute", "query/stage/base_stage.go", "baseStage", "execute"},
			{"allSeriesExecute", "query/operator/metric_all_series.go", "metricAllSeries", "Execute"},
			{"filterExecute", "query/operator/series_filtering.go", "seriesFiltering", "Execute"},
			{"lookupExecute", "query/operator/tag_values_lookup.go", "tagValuesLookup", "Execute"},
			{"getSeriesIDsForMetric", "index/metric_index_database.go", "metricIndexDatabase", "GetSeriesIDsForMetric"},
		} {
			sk, err := c10Skeleton(repo, p.rel, p.recv, p.fn)
			if err != nil {
				return "", err
			}
			sb.WriteString("def " + p.name + "Skeleton : List String := " + LeanStrList(sk) + "\n")
		}
		// series.IDWithoutTags
		fs, f, err := ParseFile(repo, "series/constants.go")
		if err != nil {
			return "", err
		}
		val := ""
		ast.Inspect(f, func(n ast.Node) bool {
			vs, ok := n.(*ast.ValueSpec)
			if !ok {
				return true
			}
			for i, nm := range vs.Names {
				if nm.Name == "IDWithoutTags" && i < len(vs.Values) {
					val = c10Src(fs, vs.Values[i])
				}
			}
			return true
		})
		if val == "" {
			return "", fmt.Errorf("series.IDWithoutTags not found")
		}
		sb.WriteString("/-- source text of the value of series.IDWithoutTags -/\n")
		sb.WriteString("def idWithoutTagsSrc : String := " + LeanStrList([]string{val})[1:len(LeanStrList([]string{val}))-1] + "\n")
		return sb.String(), nil
	}})
}
