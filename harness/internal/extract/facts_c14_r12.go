package extract

import (
	"fmt"
	"go/ast"
	"go/types"
	"strings"
)

// Round 12 (C14): what the READ methods of a decoder object write. A method that only reads leaves no state behind
// for the next table; anything it writes outside its own locals (a receiver field, an element of a receiver slice,
// a package-level variable) is state that a re-arming method would have to clear.

// nonLocalWrites lists, in source order, every assignment / inc-dec / copy destination in fd's body whose root
// identifier is not a local of fd: "recv:<field>" for the receiver, "global:<name>" for anything else.
func nonLocalWrites(fd *ast.FuncDecl) []string {
	locals := map[string]bool{"_": true}
	addFields := func(fl *ast.FieldList) {
		if fl == nil {
			return
		}
		for _, f := range fl.List {
			for _, n := range f.Names {
				locals[n.Name] = true
			}
		}
	}
	addFields(fd.Type.Params)
	addFields(fd.Type.Results)
	recv := recvName(fd)
	ast.Inspect(fd.Body, func(n ast.Node) bool {
		switch x := n.(type) {
		case *ast.AssignStmt:
			if x.Tok.String() == ":=" {
				for _, l := range x.Lhs {
					if id, ok := l.(*ast.Ident); ok {
						locals[id.Name] = true
					}
				}
			}
		case *ast.ValueSpec:
			for _, id := range x.Names {
				locals[id.Name] = true
			}
		case *ast.RangeStmt:
			if x.Tok.String() == ":=" {
				for _, e := range []ast.Expr{x.Key, x.Value} {
					if id, ok := e.(*ast.Ident); ok {
						locals[id.Name] = true
					}
				}
			}
		}
		return true
	})
	var root func(e ast.Expr) (string, string)
	root = func(e ast.Expr) (string, string) { // root identifier and first selector below it
		switch x := e.(type) {
		case *ast.Ident:
			return x.Name, ""
		case *ast.SelectorExpr:
			r, f := root(x.X)
			if f == "" {
				f = x.Sel.Name
			}
			return r, f
		case *ast.IndexExpr:
			return root(x.X)
		case *ast.SliceExpr:
			return root(x.X)
		case *ast.StarExpr:
			return root(x.X)
		case *ast.ParenExpr:
			return root(x.X)
		case *ast.UnaryExpr:
			return root(x.X)
		}
		return "?", ""
	}
	var out []string
	note := func(e ast.Expr) {
		r, f := root(e)
		switch {
		case r == recv && recv != "":
			out = append(out, "recv:"+f)
		case !locals[r]:
			out = append(out, "global:"+r)
		}
	}
	ast.Inspect(fd.Body, func(n ast.Node) bool {
		switch x := n.(type) {
		case *ast.AssignStmt:
			for _, l := range x.Lhs {
				if id, ok := l.(*ast.Ident); ok && x.Tok.String() == ":=" && locals[id.Name] {
					continue
				}
				note(l)
			}
		case *ast.IncDecStmt:
			note(x.X)
		case *ast.CallExpr:
			if id, ok := x.Fun.(*ast.Ident); ok && id.Name == "copy" && len(x.Args) == 2 {
				note(x.Args[0])
			}
		}
		return true
	})
	return out
}

// c14Round12Facts: appended to Generated/C14.lean by the C14 fact generator.
func c14Round12Facts(repo string, fo *ast.File) (string, error) {
	var sb strings.Builder
	sb.WriteString("\n-- Round 12: what the read methods of `FixedOffsetDecoder` write outside their own locals (`recv:<field>`, `global:<name>`)\n")
	for _, m := range []struct{ name, lean string }{
		{"Get", "fixedOffsetDecoderGetWrites"},
		{"GetBlock", "fixedOffsetDecoderGetBlockWrites"},
		{"Size", "fixedOffsetDecoderSizeWrites"},
		{"ValueWidth", "fixedOffsetDecoderValueWidthWrites"},
		{"Unmarshal", "fixedOffsetDecoderUnmarshalWrites"},
	} {
		fd := FindFunc(fo, "FixedOffsetDecoder", m.name)
		if fd == nil {
			return "", fmt.Errorf("FixedOffsetDecoder.%s not found", m.name)
		}
		sb.WriteString("def " + m.lean + " : List String := " + LeanStrList(nonLocalWrites(fd)) + "\n")
	}
	gb := FindFunc(fo, "FixedOffsetDecoder", "GetBlock")
	sb.WriteString("/-- statement shape and calls of `FixedOffsetDecoder.GetBlock` -/\n")
	sb.WriteString("def fixedOffsetDecoderGetBlockShape : List String := " + LeanStrList(stmtShapeQ(gb.Body.List, recvName(gb))) + "\n")
	sb.WriteString("def fixedOffsetDecoderGetBlockCalls : List String := " + LeanStrList(CallSeq(gb)) + "\n")
	// the 16/16 split of a uint32 (encoding.go) and the slice reinterpretations of utils.go: the returned expressions
	// as written, and the guard in front of them
	_, encf, err := ParseFile(repo, "pkg/encoding/encoding.go")
	if err != nil {
		return "", err
	}
	_, utf, err := ParseFile(repo, "pkg/encoding/utils.go")
	if err != nil {
		return "", err
	}
	sb.WriteString("\n-- Round 12: returned expressions (source text, one per `return`) of the uint32 split and of utils.go\n")
	for _, m := range []struct {
		f    *ast.File
		name string
		lean string
	}{
		{encf, "HighBits", "highBitsReturns"},
		{encf, "LowBits", "lowBitsReturns"},
		{encf, "ValueWithHighLowBits", "valueWithHighLowBitsReturns"},
		{utf, "U32SliceToBytes", "u32SliceToBytesReturns"},
		{utf, "BytesToU32Slice", "bytesToU32SliceReturns"},
		{utf, "U64SliceToBytes", "u64SliceToBytesReturns"},
		{utf, "BytesToU64Slice", "bytesToU64SliceReturns"},
		{utf, "Float64ToBytes", "float64ToBytesReturns"},
		{utf, "BytesToFloat64", "bytesToFloat64Returns"},
	} {
		fd := FindFunc(m.f, "", m.name)
		if fd == nil {
			return "", fmt.Errorf("func %s not found", m.name)
		}
		var rets []string
		ast.Inspect(fd.Body, func(n ast.Node) bool {
			switch x := n.(type) {
			case *ast.IfStmt:
				rets = append(rets, "if "+types.ExprString(x.Cond))
			case *ast.ReturnStmt:
				for _, e := range x.Results {
					rets = append(rets, types.ExprString(e))
				}
			}
			return true
		})
		sb.WriteString("def " + m.lean + " : List String := " + LeanStrList(rets) + "\n")
	}
	v, ok := ConstInts(encf)["maxLowBit"]
	if !ok {
		return "", fmt.Errorf("const maxLowBit not found")
	}
	sb.WriteString(fmt.Sprintf("def maxLowBit : Nat := %d\n", v))
	return sb.String(), nil
}
