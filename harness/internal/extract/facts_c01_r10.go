package extract

import (
	"fmt"
	"go/ast"
	"strings"
)

// C01 round 10 facts.
//
//   - compactStartSteps / rollupStartSteps: the calls of family.compact / family.rollup in source order, the
//     go statement itself as "go" and every call inside the spawned function literal prefixed "go:" — the model
//     of close ‖ job start (Model/C01Close.lean) takes "condition.Add precedes the go statement" from here;
//   - familyCloseCalls, newFlusherCalls: the WaitGroup protocol's other two ends;
//   - logViewCalls: calls in kv/version/log.go that hand out a VIEW of the record being decoded instead of a copy
//     (stream.Reader.ReadSlice, strutil.ByteSlice2String / String2ByteSlice, anything from package unsafe): the
//     record buffer of the manifest reader is re-used for the next record, a decoded log must own its bytes;
//   - newReferenceFileDecodeCalls / deleteReferenceFileDecodeCalls: what the two decoders with a string field call.
func c01Round10Facts(repo string) (string, error) {
	var sb strings.Builder
	_, fm, err := ParseFile(repo, "kv/family.go")
	if err != nil {
		return "", err
	}
	_, fr, err := ParseFile(repo, "kv/family_rollup.go")
	if err != nil {
		return "", err
	}
	for _, p := range [][2]string{{"compact", "compactStartSteps"}, {"rollup", "rollupStartSteps"}} {
		fd := FindFunc(fm, "family", p[0])
		if fd == nil {
			fd = FindFunc(fr, "family", p[0])
		}
		if fd == nil {
			return "", fmt.Errorf("family.%s not found", p[0])
		}
		var keep []string
		for _, c := range goAwareCalls(fd) {
			t := strings.TrimPrefix(c, "go:")
			if strings.HasPrefix(t, "condition.") || strings.HasPrefix(t, "compacting.") || strings.HasPrefix(t, "rolluping.") ||
				t == "go" || t == "f.backgroundCompactionJob" {
				keep = append(keep, c)
			}
		}
		sb.WriteString("def " + p[1] + " : List String := " + LeanStrList(keep) + "\n")
	}
	sb.WriteString("def familyCloseCalls : List String := " + LeanStrList(CallSeq(FindFunc(fm, "family", "close"))) + "\n")
	sb.WriteString("def newFlusherCalls : List String := " + LeanStrList(CallSeq(FindFunc(fm, "family", "NewFlusher"))) + "\n")
	_, lg, err := ParseFile(repo, "kv/version/log.go")
	if err != nil {
		return "", err
	}
	var views []string
	ast.Inspect(lg, func(n ast.Node) bool {
		if ce, ok := n.(*ast.CallExpr); ok {
			name := exprName(ce.Fun)
			if strings.HasSuffix(name, ".ReadSlice") || strings.HasSuffix(name, ".ByteSlice2String") ||
				strings.HasSuffix(name, ".String2ByteSlice") || strings.HasPrefix(name, "unsafe.") {
				views = append(views, name)
			}
		}
		return true
	})
	sb.WriteString("def logViewCalls : List String := " + LeanStrList(views) + "\n")
	for _, p := range [][2]string{{"newReferenceFile", "newReferenceFileDecodeCalls"}, {"deleteReferenceFile", "deleteReferenceFileDecodeCalls"}} {
		fd := FindFunc(lg, p[0], "Decode")
		if fd == nil {
			return "", fmt.Errorf("%s.Decode not found", p[0])
		}
		sb.WriteString("def " + p[1] + " : List String := " + LeanStrList(CallSeq(fd)) + "\n")
	}
	return sb.String(), nil
}

// goAwareCalls: calls of fd in source order; a go statement contributes "go" followed by the calls of the
// spawned function literal (deferred closures included) prefixed "go:".
func goAwareCalls(fd *ast.FuncDecl) []string {
	var out []string
	var walk func(n ast.Node, prefix string)
	walk = func(n ast.Node, prefix string) {
		ast.Inspect(n, func(m ast.Node) bool {
			switch x := m.(type) {
			case *ast.GoStmt:
				for _, a := range x.Call.Args {
					walk(a, prefix)
				}
				out = append(out, prefix+"go")
				if lit, ok := x.Call.Fun.(*ast.FuncLit); ok {
					walk(lit.Body, prefix+"go:")
				} else {
					out = append(out, prefix+"go:"+exprName(x.Call.Fun))
				}
				return false
			case *ast.CallExpr:
				for _, a := range x.Args {
					walk(a, prefix)
				}
				if lit, ok := x.Fun.(*ast.FuncLit); ok {
					walk(lit.Body, prefix)
					return false
				}
				if se, ok := x.Fun.(*ast.SelectorExpr); ok {
					walk(se.X, prefix)
				}
				out = append(out, prefix+exprName(x.Fun))
				return false
			}
			return true
		})
	}
	if fd != nil && fd.Body != nil {
		walk(fd.Body, "")
	}
	return out
}
