package extract

// C08, round 12: the HANDSHAKE of remoteReplicator.IsReady as a whole-function translation.
//
// Everything IsReady does from `r.closeStream()` on (state != ready, follower live) is re-read from
// the source on every run and emitted as ONE Lean term `handshakePlan : Hs` — a decision tree whose
// inner nodes are the Go conditions (as Lean `if`s over Int), the local integer definitions (`let`),
// the reads of the replicator's accessors (`.read "r.ReplicaIndex"`), the rpcs with their error
// branch (`.rpc "replicaCli.Reset" <AppendIndex expression> <error branch> <continuation>`) and the
// calls that change the leader's state (`.call "r.ResetReplicaIndex" <argument expression>`), and
// whose leaves are `return b` together with the last `r.state.Store(...)` on that path.
// `Props/C08.lean` (`Tie.handshake_plan_eq`) proves that the model's `handshake` IS the
// interpretation of this tree for every state and every fault: a changed reset expression, a
// swapped argument, a dropped / added / reordered call, a changed guard or a branch that returns
// another state re-opens that theorem (not a text comparison: the comparison is semantic).
//
// Skipped statements (no effect on the replicated state): calls on r.logger / r.statistics,
// assignments to fields of r (`r.replicaCli = replicaCli`), `defer`.

import (
	"fmt"
	"go/ast"
	"go/token"
	"go/types"
	"strings"
)

type c08Plan struct {
	tr     *ifTr
	locals map[string]bool
	void   bool              // the function has no result: `return` and the end of the body are leaves
	alias  map[string]string // local name -> field of r it was copied from (`cli := r.replicaStream`)
	resp   string            // name of the variable holding the answer of `.Recv()` (its fields are three integers)
}

// rn rewrites the fields of the received answer into the three integers bound by `Hs.recv`:
// `resp.ReplicaIndex`, `resp.AckIndex`, and `resp.Err == ""` as `respErr = 0`.
func (p *c08Plan) rn(e ast.Expr) ast.Expr {
	if p.resp == "" {
		return e
	}
	switch types.ExprString(e) {
	case p.resp + ".ReplicaIndex":
		return ast.NewIdent("respReplicaIndex")
	case p.resp + ".AckIndex":
		return ast.NewIdent("respAckIndex")
	case p.resp + `.Err == ""`:
		return &ast.BinaryExpr{X: ast.NewIdent("respErr"), Op: token.EQL, Y: &ast.BasicLit{Kind: token.INT, Value: "0"}}
	case p.resp + `.Err != ""`:
		return &ast.BinaryExpr{X: ast.NewIdent("respErr"), Op: token.NEQ, Y: &ast.BasicLit{Kind: token.INT, Value: "0"}}
	}
	switch x := e.(type) {
	case *ast.BinaryExpr:
		return &ast.BinaryExpr{X: p.rn(x.X), Op: x.Op, Y: p.rn(x.Y)}
	case *ast.ParenExpr:
		return &ast.ParenExpr{X: p.rn(x.X)}
	case *ast.UnaryExpr:
		return &ast.UnaryExpr{Op: x.Op, X: p.rn(x.X)}
	}
	return e
}

// recvCall: a call on r or on a local copy of one of r's fields; the name is spelled with the field.
func (p *c08Plan) recvCall(e ast.Expr) (*ast.CallExpr, string) {
	c, ok := e.(*ast.CallExpr)
	if !ok {
		return nil, ""
	}
	name := types.ExprString(c.Fun)
	if i := strings.IndexByte(name, '.'); i > 0 {
		if full, ok := p.alias[name[:i]]; ok {
			name = full + name[i:]
		}
	}
	if !strings.HasPrefix(name, "r.") {
		return nil, ""
	}
	return c, name
}

// intExpr translates e when it is an integer expression over the locals bound so far.
func (p *c08Plan) intExpr(e ast.Expr) (string, bool) {
	e = p.rn(e)
	ok := true
	ast.Inspect(e, func(n ast.Node) bool {
		switch x := n.(type) {
		case *ast.Ident:
			if !p.locals[x.Name] {
				ok = false
			}
		case *ast.SelectorExpr, *ast.CallExpr, *ast.CompositeLit, *ast.FuncLit:
			ok = false
		}
		return ok
	})
	if !ok {
		return "", false
	}
	s, err := p.tr.expr(e)
	if err != nil {
		return "", false
	}
	return s, true
}

// callArg: the single integer argument of a call (directly, or as a field value of a `&T{...}`
// argument); "0" when there is none.
func (p *c08Plan) callArg(c *ast.CallExpr) (string, error) {
	var found []string
	for _, a := range c.Args {
		if u, ok := a.(*ast.UnaryExpr); ok && u.Op == token.AND {
			if cl, ok := u.X.(*ast.CompositeLit); ok {
				for _, el := range cl.Elts {
					if kv, ok := el.(*ast.KeyValueExpr); ok {
						if s, ok := p.intExpr(kv.Value); ok {
							if _, lit := kv.Value.(*ast.BasicLit); !lit {
								found = append(found, s)
							}
						}
					}
				}
			}
			continue
		}
		if s, ok := p.intExpr(a); ok {
			found = append(found, s)
		}
	}
	switch len(found) {
	case 0:
		return "0", nil
	case 1:
		return found[0], nil
	}
	return "", fmt.Errorf("call %s has %d integer arguments", types.ExprString(c.Fun), len(found))
}

func c08RecvCall(e ast.Expr) (*ast.CallExpr, string) {
	c, ok := e.(*ast.CallExpr)
	if !ok {
		return nil, ""
	}
	name := types.ExprString(c.Fun)
	if !strings.HasPrefix(name, "r.") {
		return nil, ""
	}
	return c, name
}

func c08IsErrNotNil(e ast.Expr) bool { return types.ExprString(e) == "err != nil" }

func (p *c08Plan) withLocal(name string, f func() (string, error)) (string, error) {
	had := p.locals[name]
	p.locals[name] = true
	s, err := f()
	if !had {
		delete(p.locals, name)
	}
	return s, err
}

func c08Cat(a, b []ast.Stmt) []ast.Stmt {
	out := make([]ast.Stmt, 0, len(a)+len(b))
	out = append(out, a...)
	return append(out, b...)
}

// emit translates the statement list (executed to its end or to the first return) with `cur` the
// last state stored on the path.
func (p *c08Plan) emit(stmts []ast.Stmt, cur string, d int) (string, error) {
	in := ind(d)
	if len(stmts) == 0 {
		if p.void {
			return fmt.Sprintf("%s(Hs.ret %q true)", in, cur), nil
		}
		return "", fmt.Errorf("handshake: a path ends without return")
	}
	st, rest := stmts[0], stmts[1:]
	switch x := st.(type) {
	case *ast.DeferStmt:
		return p.emit(rest, cur, d)
	case *ast.ReturnStmt:
		if p.void && len(x.Results) == 0 {
			return fmt.Sprintf("%s(Hs.ret %q true)", in, cur), nil
		}
		if len(x.Results) != 1 {
			return "", fmt.Errorf("handshake: return with %d results", len(x.Results))
		}
		b := types.ExprString(x.Results[0])
		if b != "true" && b != "false" {
			return "", fmt.Errorf("handshake: return of %s", b)
		}
		return fmt.Sprintf("%s(Hs.ret %q %s)", in, cur, b), nil
	case *ast.ExprStmt:
		c, name := p.recvCall(x.X)
		if c == nil {
			return "", fmt.Errorf("handshake: unsupported statement %s", types.ExprString(x.X))
		}
		switch {
		case strings.HasPrefix(name, "r.logger."), strings.HasPrefix(name, "r.statistics."):
			return p.emit(rest, cur, d)
		case name == "r.state.Store":
			s := c08StoredState(c)
			if s == "" {
				return "", fmt.Errorf("handshake: state.Store of an unknown shape")
			}
			return p.emit(rest, s, d)
		}
		arg, err := p.callArg(c)
		if err != nil {
			return "", err
		}
		k, err := p.emit(rest, cur, d+1)
		if err != nil {
			return "", err
		}
		return fmt.Sprintf("%s(Hs.call %q %s\n%s)", in, name, arg, k), nil
	case *ast.AssignStmt:
		// field of r: no effect on the replicated state
		if len(x.Lhs) == 1 && strings.HasPrefix(types.ExprString(x.Lhs[0]), "r.") && x.Tok == token.ASSIGN {
			return p.emit(rest, cur, d)
		}
		// cli := r.field   — a local copy of a field of r
		if len(x.Lhs) == 1 && len(x.Rhs) == 1 && x.Tok == token.DEFINE {
			if sel, ok := x.Rhs[0].(*ast.SelectorExpr); ok && strings.HasPrefix(types.ExprString(sel), "r.") {
				p.alias[types.ExprString(x.Lhs[0])] = types.ExprString(sel)
				return p.emit(rest, cur, d)
			}
		}
		// err := r.X(...) ; if err != nil { ... }   — an rpc without result
		if len(x.Lhs) == 1 && len(x.Rhs) == 1 && types.ExprString(x.Lhs[0]) == "err" {
			x = &ast.AssignStmt{Lhs: []ast.Expr{ast.NewIdent("_"), x.Lhs[0]}, Tok: x.Tok, Rhs: x.Rhs}
		}
		// v, err := r.X(...) ; if err != nil { ... }   — an rpc with its error branch
		if len(x.Lhs) == 2 && len(x.Rhs) == 1 && types.ExprString(x.Lhs[1]) == "err" {
			c, name := p.recvCall(x.Rhs[0])
			if c == nil || len(rest) == 0 {
				return "", fmt.Errorf("handshake: unsupported assignment %s", types.ExprString(x.Rhs[0]))
			}
			ifs, ok := rest[0].(*ast.IfStmt)
			if !ok || !c08IsErrNotNil(ifs.Cond) || ifs.Else != nil || ifs.Init != nil {
				return "", fmt.Errorf("handshake: %s is not followed by `if err != nil`", name)
			}
			arg, err := p.callArg(c)
			if err != nil {
				return "", err
			}
			onErr, err := p.emit(c08Cat(ifs.Body.List, rest[1:]), cur, d+1)
			if err != nil {
				return "", err
			}
			v := types.ExprString(x.Lhs[0])
			if strings.HasSuffix(name, ".Recv") && v != "_" {
				// the answer: three integers (ReplicaIndex, AckIndex, Err as 0 = "")
				p.resp = v
				p.locals["respReplicaIndex"], p.locals["respAckIndex"], p.locals["respErr"] = true, true, true
				k, err := p.emit(rest[1:], cur, d+2)
				if err != nil {
					return "", err
				}
				return fmt.Sprintf("%s(Hs.recv %q\n%s\n%s  (fun respReplicaIndex respAckIndex respErr =>\n%s))", in, name, onErr, in, k), nil
			}
			bind := "_"
			var k string
			if v != "_" {
				bind = leanIdent(v)
				k, err = p.withLocal(v, func() (string, error) { return p.emit(rest[1:], cur, d+2) })
			} else {
				k, err = p.emit(rest[1:], cur, d+2)
			}
			if err != nil {
				return "", err
			}
			return fmt.Sprintf("%s(Hs.rpc %q %s\n%s\n%s  (fun %s =>\n%s))", in, name, arg, onErr, in, bind, k), nil
		}
		if len(x.Lhs) == 1 && len(x.Rhs) == 1 && x.Tok == token.DEFINE {
			v := types.ExprString(x.Lhs[0])
			if c, name := p.recvCall(x.Rhs[0]); c != nil && len(c.Args) == 0 {
				k, err := p.withLocal(v, func() (string, error) { return p.emit(rest, cur, d+1) })
				if err != nil {
					return "", err
				}
				return fmt.Sprintf("%s(Hs.read %q (fun %s =>\n%s))", in, name, leanIdent(v), k), nil
			}
			if e, ok := p.intExpr(x.Rhs[0]); ok {
				k, err := p.withLocal(v, func() (string, error) { return p.emit(rest, cur, d) })
				if err != nil {
					return "", err
				}
				return fmt.Sprintf("%s(let %s : Int := %s;\n%s)", in, leanIdent(v), e, k), nil
			}
		}
		return "", fmt.Errorf("handshake: unsupported assignment at %s", types.ExprString(x.Lhs[0]))
	case *ast.IfStmt:
		if x.Init != nil {
			return "", fmt.Errorf("handshake: if with init")
		}
		c, ok := p.intCond(x.Cond)
		if !ok {
			return "", fmt.Errorf("handshake: unsupported condition %s", types.ExprString(x.Cond))
		}
		th, err := p.emit(c08Cat(x.Body.List, rest), cur, d+1)
		if err != nil {
			return "", err
		}
		var elStmts []ast.Stmt
		switch e := x.Else.(type) {
		case nil:
			elStmts = rest
		case *ast.BlockStmt:
			elStmts = c08Cat(e.List, rest)
		default:
			elStmts = c08Cat([]ast.Stmt{e}, rest)
		}
		el, err := p.emit(elStmts, cur, d+1)
		if err != nil {
			return "", err
		}
		return fmt.Sprintf("%s(if %s then\n%s\n%selse\n%s)", in, c, th, in, el), nil
	case *ast.SwitchStmt:
		if x.Tag != nil || x.Init != nil {
			return "", fmt.Errorf("handshake: switch with tag")
		}
		return p.emitCases(x.Body.List, rest, cur, d)
	}
	return "", fmt.Errorf("handshake: unsupported statement %T", st)
}

func (p *c08Plan) emitCases(cases []ast.Stmt, rest []ast.Stmt, cur string, d int) (string, error) {
	if len(cases) == 0 {
		return p.emit(rest, cur, d)
	}
	cc, ok := cases[0].(*ast.CaseClause)
	if !ok || len(cc.List) != 1 {
		return "", fmt.Errorf("handshake: unsupported case clause")
	}
	for _, s := range cc.Body {
		if b, ok := s.(*ast.BranchStmt); ok {
			return "", fmt.Errorf("handshake: %s inside switch", b.Tok)
		}
	}
	c, ok := p.intCond(cc.List[0])
	if !ok {
		return "", fmt.Errorf("handshake: unsupported case %s", types.ExprString(cc.List[0]))
	}
	in := ind(d)
	th, err := p.emit(c08Cat(cc.Body, rest), cur, d+1)
	if err != nil {
		return "", err
	}
	el, err := p.emitCases(cases[1:], rest, cur, d+1)
	if err != nil {
		return "", err
	}
	return fmt.Sprintf("%s(if %s then\n%s\n%selse\n%s)", in, c, th, in, el), nil
}

func (p *c08Plan) intCond(e ast.Expr) (string, bool) {
	e = p.rn(e)
	ok := true
	ast.Inspect(e, func(n ast.Node) bool {
		switch x := n.(type) {
		case *ast.Ident:
			if !p.locals[x.Name] {
				ok = false
			}
		case *ast.SelectorExpr, *ast.CallExpr:
			ok = false
		}
		return ok
	})
	if !ok {
		return "", false
	}
	s, err := p.tr.cond(e)
	return s, err == nil
}

// c08StoredState: X of `r.state.Store(&state{state: models.X, ...})`.
func c08StoredState(c *ast.CallExpr) string {
	if len(c.Args) != 1 {
		return ""
	}
	u, ok := c.Args[0].(*ast.UnaryExpr)
	if !ok {
		return ""
	}
	cl, ok := u.X.(*ast.CompositeLit)
	if !ok {
		return ""
	}
	for _, el := range cl.Elts {
		if kv, ok := el.(*ast.KeyValueExpr); ok && types.ExprString(kv.Key) == "state" {
			if s, ok := kv.Value.(*ast.SelectorExpr); ok {
				return s.Sel.Name
			}
		}
	}
	return ""
}

// c08HandshakePlan emits the type `Hs` and `handshakePlan` for IsReady, starting at the statement
// `r.closeStream()` (the first statement after the offline branch and the deferred unlock).
func c08HandshakePlan(isReady *ast.FuncDecl) (string, error) {
	if isReady == nil || isReady.Body == nil {
		return "", fmt.Errorf("handshake: IsReady not found")
	}
	start := -1
	for i, s := range isReady.Body.List {
		if es, ok := s.(*ast.ExprStmt); ok && types.ExprString(es.X) == "r.closeStream()" {
			start = i
			break
		}
	}
	if start < 0 {
		return "", fmt.Errorf("handshake: `r.closeStream()` is not a top-level statement of IsReady")
	}
	p := &c08Plan{tr: &ifTr{}, locals: map[string]bool{}, alias: map[string]string{}}
	body, err := p.emit(isReady.Body.List[start:], "?", 1)
	if err != nil {
		return "", err
	}
	var sb strings.Builder
	sb.WriteString("\n/-- decision tree of `remoteReplicator.IsReady`'s handshake (see facts_c08_plan.go) -/\n")
	sb.WriteString("inductive Hs where\n")
	sb.WriteString("  | ret (state : String) (result : Bool) : Hs\n")
	sb.WriteString("  | call (name : String) (arg : Int) (k : Hs) : Hs\n")
	sb.WriteString("  | read (name : String) (k : Int → Hs) : Hs\n")
	sb.WriteString("  | rpc (name : String) (arg : Int) (onErr : Hs) (k : Int → Hs) : Hs\n")
	sb.WriteString("  | recv (name : String) (onErr : Hs) (k : Int → Int → Int → Hs) : Hs\n\n")
	sb.WriteString("set_option linter.unusedVariables false in\n")
	sb.WriteString("def handshakePlan : Hs :=\n" + body + "\n\n")
	return sb.String(), nil
}

// c08ReplicaPlan emits `replicaPlan (idx : Int) : Hs` for `remoteReplicator.Replica(idx, msg)`: the whole body
// (Send with its error branch, Recv with its error branch, the test on the answer, SetAckIndex with its argument,
// the state stored on each path; "unchanged" = no state.Store on the path).
func c08ReplicaPlan(replica *ast.FuncDecl) (string, error) {
	if replica == nil || replica.Body == nil {
		return "", fmt.Errorf("replica plan: Replica not found")
	}
	if replica.Type.Results != nil && len(replica.Type.Results.List) > 0 {
		return "", fmt.Errorf("replica plan: Replica has results now")
	}
	var params []string
	for _, fl := range replica.Type.Params.List {
		for _, n := range fl.Names {
			params = append(params, n.Name)
		}
	}
	if len(params) != 2 {
		return "", fmt.Errorf("replica plan: Replica has %d parameters", len(params))
	}
	p := &c08Plan{tr: &ifTr{}, locals: map[string]bool{params[0]: true}, alias: map[string]string{}, void: true}
	body, err := p.emit(replica.Body.List, "unchanged", 1)
	if err != nil {
		return "", fmt.Errorf("replica plan: %w", err)
	}
	return "set_option linter.unusedVariables false in\ndef replicaPlan (" + leanIdent(params[0]) + " : Int) : Hs :=\n" + body + "\n\n", nil
}
