package extract

import (
	"bytes"
	"fmt"
	"go/ast"
	"go/printer"
	"go/token"
	"os"
	"path/filepath"
	"sort"
	"strings"
)

// C04, round 10: WHICH target object a rollup run writes into.
//   * the statements of the loop `for targetInterval, files := range rollupMap` of family.rollup() that resolve
//     the target: every `:=` statement that stands DIRECTLY in the loop body (not inside an `if`), in source
//     order, and the `doRollupWork` call. The code resolves store -> family -> rollup object on every run
//     (GetStoreManager().GetStoreByName, <store>.CreateFamily, newRollup) and calls doRollupWork on exactly these;
//   * the fields of `struct family` (and, through package-local named types, of what they contain) that can hold a
//     Family / Store / Rollup object beyond the family's own store: a resolved target kept there outlives the
//     target store's registration (CloseStore + CreateStore make new objects).

func c04Text(n ast.Node) string {
	var b bytes.Buffer
	if err := printer.Fprint(&b, token.NewFileSet(), n); err != nil {
		return "<unprintable>"
	}
	return strings.Join(strings.Fields(b.String()), " ")
}

// c04HasCall reports whether n contains a call whose function text ends with suffix.
func c04HasCall(n ast.Node, suffix string) bool {
	found := false
	ast.Inspect(n, func(m ast.Node) bool {
		if ce, ok := m.(*ast.CallExpr); ok && strings.HasSuffix(c04Text(ce.Fun), suffix) {
			found = true
		}
		return !found
	})
	return found
}

// c04MentionsObj: does the type expression (expanded through the package's named types) contain an identifier
// Family, Store or Rollup outside a function type?
func c04MentionsObj(t ast.Expr, types map[string]ast.Expr, seen map[string]bool) bool {
	switch x := t.(type) {
	case *ast.Ident:
		if x.Name == "Family" || x.Name == "Store" || x.Name == "Rollup" {
			return true
		}
		if d, ok := types[x.Name]; ok && !seen[x.Name] {
			seen[x.Name] = true
			return c04MentionsObj(d, types, seen)
		}
	case *ast.StarExpr:
		return c04MentionsObj(x.X, types, seen)
	case *ast.ArrayType:
		return c04MentionsObj(x.Elt, types, seen)
	case *ast.MapType:
		return c04MentionsObj(x.Key, types, seen) || c04MentionsObj(x.Value, types, seen)
	case *ast.ChanType:
		return c04MentionsObj(x.Value, types, seen)
	case *ast.StructType:
		for _, f := range x.Fields.List {
			if c04MentionsObj(f.Type, types, seen) {
				return true
			}
		}
	case *ast.ParenExpr:
		return c04MentionsObj(x.X, types, seen)
	case *ast.FuncType, *ast.InterfaceType, *ast.SelectorExpr:
		return false
	}
	return false
}

func c04Round10(repo string) (string, error) {
	var sb strings.Builder
	_, fr, err := ParseFile(repo, "kv/family_rollup.go")
	if err != nil {
		return "", err
	}
	body := goBody(FindFunc(fr, "family", "rollup"))
	if body == nil {
		return "", fmt.Errorf("family.rollup: background function not found")
	}
	var loop *ast.RangeStmt
	ast.Inspect(body, func(n ast.Node) bool {
		if rs, ok := n.(*ast.RangeStmt); ok && loop == nil && c04Text(rs.X) == "rollupMap" {
			loop = rs
		}
		return loop == nil
	})
	var defs []string
	work, storeVar, famVar, rollVar := "not-found", "", "", ""
	perRun := false
	if loop != nil {
		for _, st := range loop.Body.List {
			switch x := st.(type) {
			case *ast.AssignStmt:
				if x.Tok != token.DEFINE {
					continue
				}
				defs = append(defs, c04Text(x))
				if len(x.Rhs) == 1 && len(x.Lhs) >= 1 {
					switch {
					case c04HasCall(x.Rhs[0], "GetStoreByName") && strings.HasPrefix(c04Text(x.Rhs[0]), "GetStoreManager()."):
						storeVar = c04Text(x.Lhs[0])
					case storeVar != "" && strings.HasPrefix(c04Text(x.Rhs[0]), storeVar+".CreateFamily("):
						famVar = c04Text(x.Lhs[0])
					case strings.HasPrefix(c04Text(x.Rhs[0]), "newRollup("):
						rollVar = c04Text(x.Lhs[0])
					}
				}
			case *ast.IfStmt:
				if as, ok := x.Init.(*ast.AssignStmt); ok && len(as.Rhs) == 1 && c04HasCall(as.Rhs[0], "doRollupWork") {
					work = c04Text(as.Rhs[0])
				}
			}
		}
		perRun = storeVar != "" && famVar != "" && rollVar != "" &&
			strings.HasPrefix(work, famVar+".doRollupWork(f, "+rollVar+", ")
	}
	sb.WriteString("\n-- round 10: target resolution inside the loop over rollupMap of family.rollup()\n")
	sb.WriteString("def rollupLoopDefs : List String := " + LeanStrList(defs) + "\n")
	fmt.Fprintf(&sb, "def rollupWorkCall : String := %q\n", work)
	fmt.Fprintf(&sb, "/-- store, family and rollup object are resolved by statements of the loop body itself on every run and `doRollupWork` is called on exactly these -/\ndef rollupResolvesTargetPerRun : Bool := %v\n", perRun)

	// object-holding fields of struct family
	types := map[string]ast.Expr{}
	var famStruct *ast.StructType
	ents, err := os.ReadDir(filepath.Join(repo, "kv"))
	if err != nil {
		return "", err
	}
	for _, ent := range ents {
		n := ent.Name()
		if ent.IsDir() || !strings.HasSuffix(n, ".go") || strings.HasSuffix(n, "_test.go") || strings.HasPrefix(n, "zz_verif") || strings.HasSuffix(n, "_mock.go") {
			continue
		}
		_, f, err := ParseFile(repo, filepath.Join("kv", n))
		if err != nil {
			return "", err
		}
		for _, d := range f.Decls {
			gd, ok := d.(*ast.GenDecl)
			if !ok || gd.Tok != token.TYPE {
				continue
			}
			for _, sp := range gd.Specs {
				ts := sp.(*ast.TypeSpec)
				// the interfaces Family / Store / Rollup themselves are the objects looked for, not containers
				if ts.Name.Name == "Family" || ts.Name.Name == "Store" || ts.Name.Name == "Rollup" {
					continue
				}
				types[ts.Name.Name] = ts.Type
				if st, ok := ts.Type.(*ast.StructType); ok && ts.Name.Name == "family" {
					famStruct = st
				}
			}
		}
	}
	if famStruct == nil {
		return "", fmt.Errorf("struct family not found in kv")
	}
	var holders []string
	for _, f := range famStruct.Fields.List {
		if !c04MentionsObj(f.Type, types, map[string]bool{}) {
			continue
		}
		for _, nm := range f.Names {
			holders = append(holders, nm.Name+": "+c04Text(f.Type))
		}
		if len(f.Names) == 0 {
			holders = append(holders, "(embedded): "+c04Text(f.Type))
		}
	}
	sort.Strings(holders)
	sb.WriteString("/-- fields of `struct family` that can hold a Family / Store / Rollup object (function types excluded) -/\n")
	sb.WriteString("def familyObjectFields : List String := " + LeanStrList(holders) + "\n")
	return sb.String(), nil
}
