package extract

import (
	"fmt"
	"go/ast"
	"go/token"
	"os"
	"path/filepath"
	"regexp"
	"strings"
)

// C04: the slot arithmetic of kv/family_rollup.go and the calculators, the placement formula of
// DownSamplingMultiSeriesInto, the interval-type thresholds, the edit-log tags of the rollup /
// reference logs, and the order of the records written by flush / rollup.

// c04Expr translates an integer expression that may mention struct fields (`r.source` → `source`,
// `target.Start` → `target_Start`), `.Int64()` / integer conversions (dropped) except `uint16(e)`
// (→ `(u16 e)`), and the calls named in `calls`.
func c04Expr(e ast.Expr, recv string, consts map[string]int64, calls map[string]string) (string, error) {
	switch x := e.(type) {
	case *ast.BasicLit:
		if x.Kind == token.INT {
			return x.Value, nil
		}
	case *ast.Ident:
		if v, ok := consts[x.Name]; ok {
			return LeanInt(v), nil
		}
		return leanIdent(x.Name), nil
	case *ast.ParenExpr:
		s, err := c04Expr(x.X, recv, consts, calls)
		return "(" + s + ")", err
	case *ast.SelectorExpr:
		if v, ok := consts[x.Sel.Name]; ok {
			return LeanInt(v), nil
		}
		if id, ok := x.X.(*ast.Ident); ok {
			if id.Name == recv {
				return leanIdent(x.Sel.Name), nil
			}
			return leanIdent(id.Name + "_" + x.Sel.Name), nil
		}
	case *ast.CallExpr:
		// method call on a value
		if se, ok := x.Fun.(*ast.SelectorExpr); ok {
			if se.Sel.Name == "Int64" && len(x.Args) == 0 {
				return c04Expr(se.X, recv, consts, calls)
			}
			if ln, ok := calls[se.Sel.Name]; ok {
				var args []string
				for _, a := range x.Args {
					s, err := c04Expr(a, recv, consts, calls)
					if err != nil {
						return "", err
					}
					args = append(args, s)
				}
				return "(" + ln + " " + strings.Join(args, " ") + ")", nil
			}
			return "", fmt.Errorf("unsupported method call %s", se.Sel.Name)
		}
		if id, ok := x.Fun.(*ast.Ident); ok && len(x.Args) == 1 {
			inner, err := c04Expr(x.Args[0], recv, consts, calls)
			if err != nil {
				return "", err
			}
			switch id.Name {
			case "uint16":
				return "(u16 " + inner + ")", nil
			case "int", "int64", "int32", "uint32", "uint64":
				return inner, nil
			}
			return "", fmt.Errorf("unsupported call %s", id.Name)
		}
	case *ast.BinaryExpr:
		a, err := c04Expr(x.X, recv, consts, calls)
		if err != nil {
			return "", err
		}
		b, err := c04Expr(x.Y, recv, consts, calls)
		if err != nil {
			return "", err
		}
		switch x.Op {
		case token.ADD:
			return fmt.Sprintf("(%s + %s)", a, b), nil
		case token.SUB:
			return fmt.Sprintf("(%s - %s)", a, b), nil
		case token.MUL:
			return fmt.Sprintf("(%s * %s)", a, b), nil
		case token.QUO:
			return fmt.Sprintf("(Int.tdiv %s %s)", a, b), nil
		case token.REM:
			return fmt.Sprintf("(Int.tmod %s %s)", a, b), nil
		}
	}
	return "", fmt.Errorf("unsupported expression %T", e)
}

// c04ExprFn translates e where `fn(x)` is the application of a function-typed parameter.
func c04ExprFn(e ast.Expr, fn string) (string, error) {
	var rewrite func(ast.Expr) ast.Expr
	rewrite = func(x ast.Expr) ast.Expr {
		switch y := x.(type) {
		case *ast.BinaryExpr:
			return &ast.BinaryExpr{X: rewrite(y.X), Op: y.Op, Y: rewrite(y.Y)}
		case *ast.ParenExpr:
			return &ast.ParenExpr{X: rewrite(y.X)}
		case *ast.CallExpr:
			if id, ok := y.Fun.(*ast.Ident); ok && id.Name == fn && len(y.Args) == 1 {
				// encode as method call so that c04Expr's `calls` map applies
				return &ast.CallExpr{Fun: &ast.SelectorExpr{X: ast.NewIdent("_"), Sel: ast.NewIdent(fn)}, Args: []ast.Expr{rewrite(y.Args[0])}}
			}
			args := make([]ast.Expr, len(y.Args))
			for i, a := range y.Args {
				args[i] = rewrite(a)
			}
			return &ast.CallExpr{Fun: y.Fun, Args: args}
		}
		return x
	}
	return c04Expr(rewrite(e), "", nil, map[string]string{fn: fn})
}

// singleReturn returns the expression of a function whose body is one return statement.
func singleReturn(fd *ast.FuncDecl) (ast.Expr, string, error) {
	if fd == nil || fd.Body == nil || len(fd.Body.List) != 1 {
		return nil, "", fmt.Errorf("function is not a single return statement")
	}
	rs, ok := fd.Body.List[0].(*ast.ReturnStmt)
	if !ok || len(rs.Results) != 1 {
		return nil, "", fmt.Errorf("function is not a single return statement")
	}
	recv := ""
	if fd.Recv != nil && len(fd.Recv.List) == 1 && len(fd.Recv.List[0].Names) == 1 {
		recv = fd.Recv.List[0].Names[0].Name
	}
	return rs.Results[0], recv, nil
}

// goBody returns the body of the function literal started by the first `go func() {...}()` in fd.
func goBody(fd *ast.FuncDecl) *ast.BlockStmt {
	var out *ast.BlockStmt
	if fd == nil {
		return nil
	}
	ast.Inspect(fd.Body, func(n ast.Node) bool {
		if out != nil {
			return false
		}
		if g, ok := n.(*ast.GoStmt); ok {
			if fl, ok := g.Call.Fun.(*ast.FuncLit); ok {
				out = fl.Body
				return false
			}
		}
		return true
	})
	return out
}

func keepCalls(seq []string, keep ...string) []string {
	var out []string
	for _, c := range seq {
		if strings.HasPrefix(c, "defer:") || strings.HasPrefix(c, "λ:") {
			continue // deferred calls and calls inside nested function literals are not steps of this body
		}
		name := c
		if i := strings.LastIndexByte(name, '.'); i >= 0 {
			name = name[i+1:]
		}
		for _, k := range keep {
			if name == k {
				out = append(out, name)
			}
		}
	}
	return out
}

func commonTimeutilPath(repo string) (string, error) {
	b, err := os.ReadFile(filepath.Join(repo, "go.mod"))
	if err != nil {
		return "", err
	}
	m := regexp.MustCompile(`github.com/lindb/common\s+(v[^\s]+)`).FindSubmatch(b)
	if m == nil {
		return "", fmt.Errorf("github.com/lindb/common not required in go.mod")
	}
	gopath := os.Getenv("GOMODCACHE")
	if gopath == "" {
		gp := os.Getenv("GOPATH")
		if gp == "" {
			home, _ := os.UserHomeDir()
			gp = filepath.Join(home, "go")
		}
		gopath = filepath.Join(gp, "pkg", "mod")
	}
	return filepath.Join(gopath, "github.com", "lindb", "common@"+string(m[1]), "pkg", "timeutil", "time.go"), nil
}

func init() {
	Register(Fact{Module: "C04", Gen: func(repo string) (string, error) {
		var sb strings.Builder
		sb.WriteString("set_option linter.unusedVariables false\n\n/-- Go conversion `uint16(x)` -/\ndef u16 (x : Int) : Int := x % 65536\n\n")
		// time constants of github.com/lindb/common/pkg/timeutil
		tp, err := commonTimeutilPath(repo)
		if err != nil {
			return "", err
		}
		_, tf, err := ParseFile("", tp)
		if err != nil {
			return "", err
		}
		tc := ConstInts(tf)
		for _, n := range []string{"OneSecond", "OneMinute", "OneHour", "OneDay"} {
			v, ok := tc[n]
			if !ok {
				return "", fmt.Errorf("constant %s not found in %s", n, tp)
			}
			fmt.Fprintf(&sb, "def %s : Int := %s\n", strings.ToLower(n[:1])+n[1:], LeanInt(v))
		}
		// the three CalcSlot formulas
		_, ic, err := ParseFile(repo, "pkg/timeutil/interval_calculator.go")
		if err != nil {
			return "", err
		}
		for _, ty := range []string{"day", "month", "year"} {
			s, err := IntFunc(FindFunc(ic, ty, "CalcSlot"), ty+"CalcSlot", tc, nil)
			if err != nil {
				return "", err
			}
			sb.WriteString("\n" + s)
			if ty == "month" {
				// two shapes of the month slot rule are understood (they agree on every timestamp of a
				// family in UTC): `((ts-base) % OneDay) / interval` and `(ts-base) / interval`
				fmt.Fprintf(&sb, "\n/-- the month-type slot is the plain quotient (no `%% OneDay`) -/\ndef monthSlotIsQuotient : Bool := %v\n", !strings.Contains(s, "Int.tmod"))
			}
		}
		// Interval.Type(): the switch `case i.Int64() >= A: return Year; case i.Int64() >= B: return Month; default: return Day`
		_, itf, err := ParseFile(repo, "pkg/timeutil/interval.go")
		if err != nil {
			return "", err
		}
		tyf := FindFunc(itf, "Interval", "Type")
		if tyf == nil || len(tyf.Body.List) != 1 {
			return "", fmt.Errorf("Interval.Type: unexpected shape")
		}
		sw, ok := tyf.Body.List[0].(*ast.SwitchStmt)
		if !ok || sw.Tag != nil {
			return "", fmt.Errorf("Interval.Type: not a tagless switch")
		}
		var th []string
		for _, st := range sw.Body.List {
			cc := st.(*ast.CaseClause)
			if len(cc.Body) != 1 {
				return "", fmt.Errorf("Interval.Type: case body")
			}
			ret, ok := cc.Body[0].(*ast.ReturnStmt)
			if !ok || len(ret.Results) != 1 {
				return "", fmt.Errorf("Interval.Type: case body is not a return")
			}
			name := strings.ToLower(exprName(ret.Results[0]))
			if cc.List == nil {
				th = append(th, fmt.Sprintf("(none, %q)", name))
				continue
			}
			be, ok := cc.List[0].(*ast.BinaryExpr)
			if !ok || be.Op != token.GEQ || len(cc.List) != 1 {
				return "", fmt.Errorf("Interval.Type: case is not `x >= c`")
			}
			if s, _ := c04Expr(be.X, "i", nil, nil); s != "i" {
				return "", fmt.Errorf("Interval.Type: left side is not the interval value")
			}
			v, ok := evalInt(be.Y, tc, 0)
			if !ok {
				return "", fmt.Errorf("Interval.Type: threshold not constant")
			}
			th = append(th, fmt.Sprintf("(some %s, %q)", LeanInt(v), name))
		}
		sb.WriteString("\n/-- `Interval.Type()`: first case whose threshold is ≤ the interval; `none` = default -/\n")
		sb.WriteString("def intervalTypeCases : List (Option Int × String) := [" + strings.Join(th, ", ") + "]\n")

		// kv/family_rollup.go: the four methods of `rollup`
		_, fr, err := ParseFile(repo, "kv/family_rollup.go")
		if err != nil {
			return "", err
		}
		type m struct{ goName, lean, params string }
		for _, mm := range []m{
			{"GetTimestamp", "getTimestamp", "(sourceFTime source slot : Int)"},
			{"IntervalRatio", "intervalRatio", "(source target : Int)"},
			{"CalcSlot", "calcSlot", "(calcFn : Int → Int → Int → Int) (target targetFTime timestamp : Int)"},
		} {
			e, recv, err := singleReturn(FindFunc(fr, "rollup", mm.goName))
			if err != nil {
				return "", fmt.Errorf("rollup.%s: %w", mm.goName, err)
			}
			// r.target.Calculator().CalcSlot(a, b, c) → (calcFn a b c)
			s, err := c04Expr(e, recv, nil, map[string]string{"CalcSlot": "calcFn"})
			if err != nil {
				return "", fmt.Errorf("rollup.%s: %w", mm.goName, err)
			}
			fmt.Fprintf(&sb, "\ndef %s %s : Int :=\n  %s\n", mm.lean, mm.params, s)
		}
		be, _, err := singleReturn(FindFunc(fr, "rollup", "BaseSlot"))
		if err != nil {
			return "", fmt.Errorf("rollup.BaseSlot: %w", err)
		}
		sb.WriteString("\n/-- `BaseSlot()` is `r.CalcSlot(<this field>)` -/\n")
		if ce, ok := be.(*ast.CallExpr); ok && exprName(ce.Fun) == "r.CalcSlot" && len(ce.Args) == 1 {
			sb.WriteString("def baseSlotArg : String := " + fmt.Sprintf("%q", exprName(ce.Args[0])) + "\n")
		} else {
			return "", fmt.Errorf("rollup.BaseSlot: not r.CalcSlot(x)")
		}
		// the locating lines of family.rollup()
		rb := goBody(FindFunc(fr, "family", "rollup"))
		if rb == nil {
			return "", fmt.Errorf("family.rollup: goroutine body not found")
		}
		rfd := &ast.FuncDecl{Body: rb}
		sb.WriteString("\ndef locateCalls : List String := " + LeanStrList(keepCalls(CallSeq(rfd),
			"ParseSegmentTime", "Atoi", "CalcFamilyStartTime", "CalcSegmentTime", "CalcFamily", "newRollup")) + "\n")
		// record order
		sb.WriteString("\n/-- order of the record-producing calls in the goroutine of `family.rollup()` -/\n")
		sb.WriteString("def rollupSteps : List String := " + LeanStrList(keepCalls(CallSeq(rfd),
			"GetLiveRollupFiles", "doRollupWork", "CreateDeleteRollupFile", "commitEditLog", "cleanReferenceFiles")) + "\n")
		sb.WriteString("def doRollupWorkSteps : List String := " + LeanStrList(keepCalls(CallSeq(FindFunc(fr, "family", "doRollupWork")),
			"GetLiveReferenceFiles", "GetFile", "CreateNewReferenceFile", "AddReferenceFiles", "Run")) + "\n")
		sb.WriteString("def cleanReferenceSteps : List String := " + LeanStrList(keepCalls(CallSeq(FindFunc(fr, "family", "cleanReferenceFiles")),
			"CreateDeleteReferenceFile", "commitEditLog")) + "\n")
		_, cj, err := ParseFile(repo, "kv/compact_job.go")
		if err != nil {
			return "", err
		}
		sb.WriteString("def installSteps : List String := " + LeanStrList(keepCalls(CallSeq(FindFunc(cj, "compactJob", "installCompactionResults")),
			"MarkInputDeletes", "AddFile", "GetEditLog", "commitEditLog")) + "\n")
		_, vc, err := ParseFile(repo, "kv/version/compact.go")
		if err != nil {
			return "", err
		}
		sb.WriteString("def addReferenceFilesSteps : List String := " + LeanStrList(CallSeq(FindFunc(vc, "Compaction", "AddReferenceFiles"))) + "\n")
		_, fl, err := ParseFile(repo, "kv/flusher.go")
		if err != nil {
			return "", err
		}
		sb.WriteString("def flushCommitSteps : List String := " + LeanStrList(keepCalls(CallSeq(FindFunc(fl, "storeFlusher", "Commit")),
			"CreateNewFile", "CreateSequence", "CreateNewRollupFile", "commitEditLog")) + "\n")
		// edit-log tags and what each rollup/reference log applies
		_, lg, err := ParseFile(repo, "kv/version/log.go")
		if err != nil {
			return "", err
		}
		lc := ConstInts(lg)
		sb.WriteString("\n")
		for _, n := range []string{"NewFileLog", "DeleteFileLog", "NextFileNumberLog", "NewRollupFileLog", "DeleteRollupFileLog",
			"NewReferenceFileLog", "DeleteReferenceFileLog", "SequenceNumberLog"} {
			v, ok := lc[n]
			if !ok {
				return "", fmt.Errorf("log type %s not found", n)
			}
			fmt.Fprintf(&sb, "def %s : Nat := %d\n", strings.ToLower(n[:1])+n[1:], v)
		}
		for _, t := range []string{"newRollupFile", "deleteRollupFile", "newReferenceFile", "deleteReferenceFile"} {
			sb.WriteString("def " + t + "Apply : List String := " + LeanStrList(CallSeq(FindFunc(lg, t, "apply"))) + "\n")
		}
		// merger.prepare: how the rollup object is used
		_, mg, err := ParseFile(repo, "tsdb/tblstore/metricsdata/merger.go")
		if err != nil {
			return "", err
		}
		sb.WriteString("\ndef prepareRollupCalls : List String := " + LeanStrList(keepCalls(CallSeq(FindFunc(mg, "merger", "prepare")),
			"GetTimestamp", "CalcSlot", "IntervalRatio", "BaseSlot")) + "\n")
		// placement: which down-sampling entry point seriesMerger.merge uses for a rollup, and the
		// position formula of that entry point. Two shapes are understood:
		//   ratio     : DownSamplingMultiSeriesInto(target, ratio, baseSlot, ...) with
		//               targetPos := bs + int(movingSourceSlot/ratio) - int(target.Start)
		//   timestamp : DownSamplingMultiSeriesIntoBy(target, mergeCtx.targetSlotOf, ...) with
		//               targetPos := targetSlotOf(movingSourceSlot) - int(target.Start) and merger.prepare
		//               building targetSlotOf = int(rollup.CalcSlot(rollup.GetTimestamp(sourceSlot)))
		// Both emit `targetPos` with one signature, so the same Props file type-checks against either.
		_, sm, err := ParseFile(repo, "tsdb/tblstore/metricsdata/series_merger.go")
		if err != nil {
			return "", err
		}
		_, ds, err := ParseFile(repo, "aggregation/down_sampling_agg.go")
		if err != nil {
			return "", err
		}
		mergeCalls := keepCalls(CallSeq(FindFunc(sm, "seriesMerger", "merge")), "DownSamplingMultiSeriesInto", "DownSamplingMultiSeriesIntoBy")
		byTs := false
		for _, c := range mergeCalls {
			if c == "DownSamplingMultiSeriesIntoBy" {
				byTs = true
			}
		}
		if len(mergeCalls) == 0 {
			return "", fmt.Errorf("seriesMerger.merge: no down-sampling call found")
		}
		entry := "DownSamplingMultiSeriesInto"
		if byTs {
			entry = "DownSamplingMultiSeriesIntoBy"
		}
		dfn := FindFunc(ds, "", entry)
		tpE := FindAssign(dfn, "targetPos")
		if tpE == nil {
			return "", fmt.Errorf("%s: targetPos not found", entry)
		}
		tps, err := c04Expr(tpE, "", nil, map[string]string{})
		if err != nil {
			// targetSlotOf(x) is a call of a function value
			tps, err = c04ExprFn(tpE, "targetSlotOf")
			if err != nil {
				return "", fmt.Errorf("targetPos: %w", err)
			}
		}
		fmt.Fprintf(&sb, "\n/-- the rollup merge places by the slot of the timestamp (fixes/C04 patch applied) -/\ndef placementByTimestamp : Bool := %v\n", byTs)
		sb.WriteString("def mergeDownSamplingCalls : List String := " + LeanStrList(mergeCalls) + "\n")
		sb.WriteString("\ndef targetPos (bs movingSourceSlot ratio target_Start : Int) (targetSlotOf : Int → Int) : Int :=\n  " + tps + "\n")
		if byTs {
			// the closure assigned to ctx.targetSlotOf in the rollup branch of merger.prepare
			var lit *ast.FuncLit
			ast.Inspect(FindFunc(mg, "merger", "prepare"), func(n ast.Node) bool {
				if as, ok := n.(*ast.AssignStmt); ok && len(as.Lhs) == 1 && len(as.Rhs) == 1 {
					if se, ok := as.Lhs[0].(*ast.SelectorExpr); ok && se.Sel.Name == "targetSlotOf" && lit == nil {
						if fl, ok := as.Rhs[0].(*ast.FuncLit); ok {
							lit = fl
						}
					}
				}
				return true
			})
			if lit == nil {
				return "", fmt.Errorf("merger.prepare: assignment of targetSlotOf not found")
			}
			e, _, err := singleReturn(&ast.FuncDecl{Body: lit.Body})
			if err != nil {
				return "", fmt.Errorf("merger.prepare targetSlotOf: %w", err)
			}
			so, err := c04Expr(e, "", nil, map[string]string{"CalcSlot": "calcSlot", "GetTimestamp": "getTimestamp"})
			if err != nil {
				return "", fmt.Errorf("merger.prepare targetSlotOf: %w", err)
			}
			sb.WriteString("def prepareSlotOf (calcSlot getTimestamp : Int → Int) (sourceSlot : Int) : Int :=\n  " + so + "\n")
			sb.WriteString("def bsOf (baseSlot : Int) : Int :=\n  baseSlot\n")
		} else {
			sb.WriteString("def prepareSlotOf (calcSlot getTimestamp : Int → Int) (sourceSlot : Int) : Int :=\n  0\n")
			bsE := FindAssign(dfn, "bs")
			if bsE == nil {
				return "", fmt.Errorf("DownSamplingMultiSeriesInto: bs not found")
			}
			bss, err := c04Expr(bsE, "", nil, nil)
			if err != nil {
				return "", err
			}
			sb.WriteString("def bsOf (baseSlot : Int) : Int :=\n  " + bss + "\n")
		}
		// error handling of the rollup job: every `if err != nil` of compactJob.makeInputIterator must
		// give the error back (a source file that cannot be opened fails the job: nothing is installed,
		// no reference, the rollup entry stays); family.rollup() `continue`s on a failed doRollupWork
		// BEFORE it collects the DeleteRollupFile logs; doRollupWork returns the job's error.
		errKinds := func(fd *ast.FuncDecl) []string {
			var out []string
			if fd == nil {
				return []string{"function-not-found"}
			}
			ast.Inspect(fd.Body, func(n ast.Node) bool {
				is, ok := n.(*ast.IfStmt)
				if !ok {
					return true
				}
				be, ok := is.Cond.(*ast.BinaryExpr)
				if !ok || be.Op != token.NEQ || exprName(be.X) != "err" || exprName(be.Y) != "nil" {
					return true
				}
				kind := "falls-through"
				if n := len(is.Body.List); n > 0 {
					switch last := is.Body.List[n-1].(type) {
					case *ast.ReturnStmt:
						kind = "return-other"
						if m := len(last.Results); m > 0 && exprName(last.Results[m-1]) == "err" {
							kind = "return-err"
						}
					case *ast.BranchStmt:
						kind = last.Tok.String()
					}
					// an earlier return/continue inside a nested block changes nothing here: only the
					// straight-line shape `if err != nil { …; return …, err }` is accepted as "return-err"
					if kind == "return-err" && n > 1 {
						for _, st := range is.Body.List[:n-1] {
							if _, isIf := st.(*ast.IfStmt); isIf {
								kind = "conditional-return-err"
							}
						}
					}
				}
				out = append(out, kind)
				return true
			})
			return out
		}
		sb.WriteString("\n/-- what each `if err != nil` of `compactJob.makeInputIterator` / `family.doRollupWork` ends with -/\n")
		sb.WriteString("def makeInputIteratorErrBranches : List String := " + LeanStrList(errKinds(FindFunc(cj, "compactJob", "makeInputIterator"))) + "\n")
		sb.WriteString("def doRollupWorkErrBranches : List String := " + LeanStrList(errKinds(FindFunc(fr, "family", "doRollupWork"))) + "\n")
		// rollup(): the `if err := targetFamily.doRollupWork(...); err != nil { …; continue }`
		workErr := "not-found"
		ast.Inspect(rb, func(n ast.Node) bool {
			is, ok := n.(*ast.IfStmt)
			if !ok || is.Init == nil {
				return true
			}
			as, ok := is.Init.(*ast.AssignStmt)
			if !ok || len(as.Rhs) != 1 {
				return true
			}
			if ce, ok := as.Rhs[0].(*ast.CallExpr); ok && strings.HasSuffix(exprName(ce.Fun), ".doRollupWork") {
				workErr = "falls-through"
				if n := len(is.Body.List); n > 0 {
					if br, ok := is.Body.List[n-1].(*ast.BranchStmt); ok {
						workErr = br.Tok.String()
					}
				}
			}
			return true
		})
		sb.WriteString("def rollupOnWorkError : String := " + fmt.Sprintf("%q", workErr) + "\n")
		// the guard of family.rollup(): `if f.rolluping.CompareAndSwap(false, true) {`
		guard := "other"
		if rfn := FindFunc(fr, "family", "rollup"); rfn != nil {
			for _, st := range rfn.Body.List {
				if is, ok := st.(*ast.IfStmt); ok {
					if ce, ok := is.Cond.(*ast.CallExpr); ok && exprName(ce.Fun) == "rolluping.CompareAndSwap" && len(ce.Args) == 2 &&
						exprName(ce.Args[0]) == "false" && exprName(ce.Args[1]) == "true" {
						guard = "cas"
					}
					break
				}
			}
		}
		sb.WriteString("\n/-- the guard of `family.rollup()` is `rolluping.CompareAndSwap(false, true)` -/\n")
		fmt.Fprintf(&sb, "def rollupGuardIsCAS : Bool := %v\n", guard == "cas")
		sh, err := c04SharedState(repo)
		if err != nil {
			return "", err
		}
		sb.WriteString(sh)
		r8, err := c04Round8(repo)
		if err != nil {
			return "", err
		}
		sb.WriteString(r8)
		r9, err := c04Round9(repo)
		if err != nil {
			return "", err
		}
		sb.WriteString(r9)
		r10, err := c04Round10(repo)
		if err != nil {
			return "", err
		}
		sb.WriteString(r10)
		return sb.String(), nil
	}})
}
