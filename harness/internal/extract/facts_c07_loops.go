package extract

import (
	"fmt"
	"go/ast"
	"strings"
)

// C07Loops: the LOOP NESTING of the functions that walk a storage node's shards, family hours and
// log partitions (recovery walk, WAL garbage collector, flush checker, graceful shutdown). The grid
// model of C07 (Model/C07Grid.lean: doFlushRound, shutdownGrid, walGcTick, restart / walkCrash) is the
// product over exactly these loops; the Props file compares the regenerated nests with the ones the
// model was written against, so a loop that is dropped, un-nested, or whose body loses / gains one
// of the named steps breaks a named obligation.
func init() {
	Register(Fact{Module: "C07Loops", Gen: func(repo string) (string, error) {
		var sb strings.Builder
		type fn struct {
			file, recv, name, lean string
			keep                   []string
		}
		fns := []fn{
			{"replica/wal_manager.go", "writeAheadLogManager", "Recovery", "managerRecoveryNest",
				[]string{"fileExistFn", "listDirFn", "w.GetOrCreateLog", "log.recovery"}},
			{"replica/wal.go", "writeAheadLog", "recovery", "walRecoveryNest",
				[]string{"listDirFn", "removeDirFn", "w.GetOrCreatePartition", "partition.recovery"}},
			{"replica/wal_manager.go", "writeAheadLogManager", "garbageCollect", "managerGcNest",
				[]string{"log.destroy"}},
			{"replica/wal.go", "writeAheadLog", "destroy", "walDestroyNest",
				[]string{"mutex.Lock", "mutex.Unlock", "log.IsExpire", "log.Stop", "log.Close", "removeDirFn", "listDirFn"}},
			{"replica/partition.go", "partition", "IsExpire", "isExpireNest",
				[]string{"log.Sync", "log.Queue().GC", "log.ConsumerGroupNames", "consumerGroup.IsEmpty", "p.stopReplicator"}},
			{"tsdb/data_flush_checker.go", "dataFlushChecker", "doFlush", "doFlushNest",
				[]string{"db.FlushMeta", "db.WaitFlushMetaCompleted", "fc.flushShard"}},
			{"tsdb/data_flush_checker.go", "dataFlushChecker", "flushShard", "flushShardNest",
				[]string{"shard.FlushIndex", "shard.WaitFlushIndexCompleted", "family.Flush"}},
			{"tsdb/engine.go", "engine", "Close", "engineCloseNest", []string{"db.Close"}},
			{"tsdb/database.go", "database", "Close", "databaseCloseNest",
				[]string{"db.WaitFlushMetaCompleted", "db.flushMeta", "memMetaDB.Close", "thisShard.FlushIndex", "metaDB.Close", "thisShard.Close"}},
			{"tsdb/shard.go", "shard", "Close", "shardCloseNest",
				[]string{"s.WaitFlushIndexCompleted", "s.flushIndex", "memIndexDB.Close", "indexDB.Close", "segment.Close", "rollupSegment.Close"}},
			{"tsdb/interval_segment.go", "intervalSegment", "Close", "intervalSegmentCloseNest", []string{"segment.Close"}},
			{"tsdb/segment.go", "segment", "Close", "segmentCloseNest", []string{"family.Close"}},
			{"tsdb/data_family.go", "dataFamily", "Evict", "familyEvictNest",
				[]string{"ref.Load", "mutex.Lock", "mutex.Unlock", "closeFamilyFunc", "segment.EvictFamily"}},
		}
		for _, x := range fns {
			_, f, err := ParseFile(repo, x.file)
			if err != nil {
				return "", err
			}
			fd := FindFunc(f, x.recv, x.name)
			if fd == nil {
				return "", fmt.Errorf("%s: func %s.%s not found", x.file, x.recv, x.name)
			}
			keep := map[string]bool{}
			for _, k := range x.keep {
				keep[k] = true
			}
			fmt.Fprintf(&sb, "/-- %s: %s.%s — loops (`range X {` / `for {` ... `}`) and, inside them, the calls of %s in source order -/\ndef %s : List String := %s\n\n",
				x.file, x.recv, x.name, strings.Join(x.keep, ", "), x.lean, LeanStrList(c07LoopNest(fd, keep)))
		}
		return sb.String(), nil
	}})
}

// c07LoopNest renders fd's body as a flat token list: "range <expr> {" / "for {" opens a loop, "}"
// closes it, "go {" ... "}" brackets a goroutine body, "return" marks a return statement that lies
// inside a loop or directly follows a kept call's error check, and every call whose name (exprName,
// receiver fields shortened as in CallSeq) is in keep appears by name. Source order.
func c07LoopNest(fd *ast.FuncDecl, keep map[string]bool) []string {
	var out []string
	depth := 0
	var walk func(n ast.Node)
	walk = func(n ast.Node) {
		if n == nil {
			return
		}
		ast.Inspect(n, func(m ast.Node) bool {
			switch x := m.(type) {
			case *ast.RangeStmt:
				walk(x.X)
				out = append(out, "range "+c07Text(x.X)+" {")
				depth++
				walk(x.Body)
				depth--
				out = append(out, "}")
				return false
			case *ast.ForStmt:
				if x.Init != nil {
					walk(x.Init)
				}
				out = append(out, "for {")
				depth++
				if x.Cond != nil {
					walk(x.Cond)
				}
				walk(x.Body)
				if x.Post != nil {
					walk(x.Post)
				}
				depth--
				out = append(out, "}")
				return false
			case *ast.GoStmt:
				out = append(out, "go {")
				if fl, ok := x.Call.Fun.(*ast.FuncLit); ok {
					walk(fl.Body)
				} else {
					walk(x.Call)
				}
				out = append(out, "}")
				return false
			case *ast.BranchStmt:
				if depth > 0 {
					out = append(out, x.Tok.String())
				}
				return false
			case *ast.ReturnStmt:
				for _, r := range x.Results {
					walk(r)
				}
				if depth > 0 {
					out = append(out, "return")
				}
				return false
			case *ast.CallExpr:
				for _, a := range x.Args {
					walk(a)
				}
				if se, ok := x.Fun.(*ast.SelectorExpr); ok {
					walk(se.X)
				}
				if fl, ok := x.Fun.(*ast.FuncLit); ok {
					walk(fl.Body)
					return false
				}
				if name := exprName(x.Fun); keep[name] {
					out = append(out, name)
				}
				return false
			}
			return true
		})
	}
	if fd != nil && fd.Body != nil {
		walk(fd.Body)
	}
	return out
}
