package extract

// C10 (round 13): the tag value dictionary merger as a compaction job — which objects live from one
// Merge call (tag key) to the next, and whether TrieBucket.Write leaves the bucket's tries in place.
// Emitted as lean/LinVerif/Generated/C10Dict.lean; consumed by LinVerif/Props/C10Dict.lean.

import (
	"fmt"
	"go/ast"
	"go/token"
	"strings"
)

// c10SwitchEnds: for the FIRST switch statement of fd, per case clause "<case exprs>|<how it ends>":
// "return" when the clause's last statement is a return, "falls" when control continues after the switch.
func c10SwitchEnds(fset *token.FileSet, fd *ast.FuncDecl) (tag string, ends []string, after []string) {
	for i, st := range fd.Body.List {
		sw, ok := st.(*ast.SwitchStmt)
		if !ok {
			continue
		}
		if sw.Tag != nil {
			tag = c10Src(fset, sw.Tag)
		}
		for _, cc := range sw.Body.List {
			cl := cc.(*ast.CaseClause)
			var es []string
			for _, e := range cl.List {
				es = append(es, c10Src(fset, e))
			}
			name := strings.Join(es, ",")
			if cl.List == nil {
				name = "default"
			}
			end := "falls"
			if n := len(cl.Body); n > 0 {
				if _, ok := cl.Body[n-1].(*ast.ReturnStmt); ok {
					end = "return"
				}
			}
			ends = append(ends, name+"|"+end)
		}
		for _, a := range fd.Body.List[i+1:] {
			after = append(after, c10Src(fset, a))
		}
		return
	}
	return
}

func init() {
	Register(Fact{Module: "C10Dict", Gen: func(repo string) (string, error) {
		var sb strings.Builder
		fs, f, err := ParseFile(repo, "index/v1/index_kv_merger.go")
		if err != nil {
			return "", err
		}
		fields := c10StructFields(fs, f, "indexKVMerger")
		if len(fields) == 0 {
			return "", fmt.Errorf("struct indexKVMerger not found")
		}
		sb.WriteString("/-- fields of indexKVMerger: what lives from one Merge call (tag key) to the next -/\n")
		sb.WriteString("def mergerFields : List String := " + LeanStrList(fields) + "\n")
		sk, err := c10Skeleton(repo, "index/v1/index_kv_merger.go", "indexKVMerger", "Merge")
		if err != nil {
			return "", err
		}
		sb.WriteString("/-- statement skeleton of indexKVMerger.Merge -/\n")
		sb.WriteString("def mergeSkeleton : List String := " + LeanStrList(sk) + "\n")
		// the bucket the call unmarshals into: defined inside Merge by a constructor call?
		fd := FindFunc(f, "indexKVMerger", "Merge")
		perCall := false
		if len(fd.Body.List) > 0 {
			ast.Inspect(fd.Body, func(n ast.Node) bool {
				as, ok := n.(*ast.AssignStmt)
				if !ok || as.Tok != token.DEFINE || len(as.Rhs) != 1 {
					return true
				}
				if c, ok := as.Rhs[0].(*ast.CallExpr); ok && strings.HasPrefix(c10Src(fs, c.Fun), "model.NewTrieBucket") {
					perCall = true
				}
				return true
			})
		}
		for _, fl := range fields {
			if strings.Contains(fl, "TrieBucket") {
				perCall = false
			}
		}
		sb.WriteString("/-- Merge builds its TrieBucket itself (`x := model.NewTrieBucket…()` in the body, no bucket among the merger's fields) -/\n")
		sb.WriteString("def bucketPerCall : Bool := " + c10Bool(perCall) + "\n\n")

		fs2, f2, err := ParseFile(repo, "index/model/trie_bucket.go")
		if err != nil {
			return "", err
		}
		bf := c10StructFields(fs2, f2, "TrieBucket")
		if len(bf) == 0 {
			return "", fmt.Errorf("struct TrieBucket not found")
		}
		sb.WriteString("def bucketFields : List String := " + LeanStrList(bf) + "\n")
		wr := FindFunc(f2, "TrieBucket", "Write")
		if wr == nil || wr.Body == nil {
			return "", fmt.Errorf("TrieBucket.Write not found")
		}
		tag, ends, after := c10SwitchEnds(fs2, wr)
		sb.WriteString("/-- the switch of TrieBucket.Write: tag, per case how it ends, the statements after the switch -/\n")
		sb.WriteString("def writeSwitchTag : String := " + LeanStrList([]string{tag})[1:len(LeanStrList([]string{tag}))-1] + "\n")
		sb.WriteString("def writeSwitchEnds : List String := " + LeanStrList(ends) + "\n")
		sb.WriteString("def writeAfterSwitch : List String := " + LeanStrList(after) + "\n")
		assigns := false
		ast.Inspect(wr.Body, func(n ast.Node) bool {
			if as, ok := n.(*ast.AssignStmt); ok {
				for _, l := range as.Lhs {
					if c10Src(fs2, l) == "b.kvs" {
						assigns = true
					}
				}
			}
			return true
		})
		sb.WriteString("/-- Write assigns to b.kvs somewhere (empties / replaces the bucket's tries) -/\n")
		sb.WriteString("def writeAssignsKvs : Bool := " + c10Bool(assigns) + "\n")
		um, err := c10Skeleton(repo, "index/model/trie_bucket.go", "TrieBucket", "Unmarshal")
		if err != nil {
			return "", err
		}
		sb.WriteString("/-- statement skeleton of TrieBucket.Unmarshal (appends to b.kvs) -/\n")
		sb.WriteString("def unmarshalSkeleton : List String := " + LeanStrList(um) + "\n")
		return sb.String(), nil
	}})
}
