package extract

import (
	"fmt"
	"go/ast"
	"strings"
)

// C04, round 9:
//   * the shape of (*month).CalcFamily (pkg/timeutil/interval_calculator.go): the rollup job names the
//     month-type target family with it. Two shapes are understood: the calendar day of the timestamp
//     (`t := time.Unix(timestamp/1000, 0); return t.Day()`) and the arithmetic one
//     (`int((timestamp-segmentTime)/OneDay) + 1`), which is a straight-line integer formula;
//   * what the rollup path does with the result of the two manifest commits whose failure matters for
//     "exactly once / nothing lost": the source family's DeleteRollupFile commit in family.rollup()
//     and the target family's commit in compactJob.installCompactionResults (plus what
//     mergeCompaction / Run / doRollupWork make of it).

// c04CommitUse classifies how the result of the first `<x>.commitEditLog(..)` call inside body is
// used: "discarded" (expression statement), "checked" (condition of an if / assigned / returned).
func c04CommitUse(body ast.Node) string {
	use := "not-found"
	if body == nil {
		return use
	}
	isCommit := func(e ast.Expr) bool {
		ce, ok := e.(*ast.CallExpr)
		return ok && strings.HasSuffix(exprName(ce.Fun), "commitEditLog")
	}
	contains := func(n ast.Node) bool {
		found := false
		if n == nil {
			return false
		}
		ast.Inspect(n, func(m ast.Node) bool {
			if e, ok := m.(ast.Expr); ok && isCommit(e) {
				found = true
			}
			return !found
		})
		return found
	}
	ast.Inspect(body, func(n ast.Node) bool {
		if use != "not-found" {
			return false
		}
		switch x := n.(type) {
		case *ast.FuncLit:
			return true
		case *ast.ExprStmt:
			if isCommit(x.X) {
				use = "discarded"
				return false
			}
		case *ast.IfStmt:
			if contains(x.Cond) || (x.Init != nil && contains(x.Init)) {
				use = "checked"
				return false
			}
		case *ast.AssignStmt:
			for _, r := range x.Rhs {
				if contains(r) {
					use = "checked"
					for _, l := range x.Lhs {
						if exprName(l) == "_" {
							use = "discarded"
						}
					}
					return false
				}
			}
		case *ast.ReturnStmt:
			for _, r := range x.Results {
				if contains(r) {
					use = "checked"
					return false
				}
			}
		}
		return true
	})
	return use
}

func c04Round9(repo string) (string, error) {
	var sb strings.Builder
	tp, err := commonTimeutilPath(repo)
	if err != nil {
		return "", err
	}
	_, tf, err := ParseFile("", tp)
	if err != nil {
		return "", err
	}
	tc := ConstInts(tf)
	_, ic, err := ParseFile(repo, "pkg/timeutil/interval_calculator.go")
	if err != nil {
		return "", err
	}
	fd := FindFunc(ic, "month", "CalcFamily")
	if fd == nil {
		return "", fmt.Errorf("month.CalcFamily not found")
	}
	sb.WriteString("\n-- round 9: (*month).CalcFamily — [time.Unix args] ++ [\"|\", return expression]\n")
	unix := callArgs(fd, "time", "Unix")
	ret := lastReturn(fd)
	shape := append(append([]string{}, unix...), "|", ret)
	sb.WriteString("def monthCalcFamilyShape : List String := " + LeanStrList(shape) + "\n")
	byCal := len(unix) == 2 && unix[0] == "timestamp / 1000" && unix[1] == "0" && ret == "t.Day()" && len(fd.Body.List) == 2
	fmt.Fprintf(&sb, "/-- the month-type family is the calendar day of the timestamp in `time.Local` -/\ndef monthFamilyIsCalendarDay : Bool := %v\n", byCal)
	arith := false
	if !byCal {
		// a straight-line integer formula over (timestamp, segmentTime)?
		if fd.Type.Params != nil && len(fd.Type.Params.List) >= 1 {
			if s, err := IntFunc(fd, "monthCalcFamilyArith", tc, nil); err == nil && !strings.Contains(s, " _ ") {
				sb.WriteString(s + "\n")
				arith = true
			}
		}
	}
	if !arith {
		sb.WriteString("def monthCalcFamilyArith (timestamp : Int) (segmentTime : Int) : Int :=\n  0\n")
	}
	fmt.Fprintf(&sb, "/-- the month-type family is a straight-line integer formula (`monthCalcFamilyArith`) -/\ndef monthFamilyIsArithmetic : Bool := %v\n", arith)

	// what happens with the result of the manifest commits on the rollup path
	_, fr, err := ParseFile(repo, "kv/family_rollup.go")
	if err != nil {
		return "", err
	}
	_, cj, err := ParseFile(repo, "kv/compact_job.go")
	if err != nil {
		return "", err
	}
	sb.WriteString("\n-- round 9: the result of the manifest commits on the rollup path (\"discarded\" = expression statement)\n")
	fmt.Fprintf(&sb, "def rollupSourceCommitResult : String := %q\n", c04CommitUse(goBody(FindFunc(fr, "family", "rollup"))))
	var cleanBody ast.Node
	if f := FindFunc(fr, "family", "cleanReferenceFiles"); f != nil {
		cleanBody = f.Body
	}
	fmt.Fprintf(&sb, "def cleanReferenceCommitResult : String := %q\n", c04CommitUse(cleanBody))
	var instBody ast.Node
	if f := FindFunc(cj, "compactJob", "installCompactionResults"); f != nil {
		instBody = f.Body
	}
	fmt.Fprintf(&sb, "def installCommitResult : String := %q\n", c04CommitUse(instBody))
	// does installCompactionResults give anything back to its caller?
	instReturns := false
	if f := FindFunc(cj, "compactJob", "installCompactionResults"); f != nil && f.Type.Results != nil && len(f.Type.Results.List) > 0 {
		instReturns = true
	}
	fmt.Fprintf(&sb, "def installReturnsResult : Bool := %v\n", instReturns)
	// in family.rollup(): is the call of cleanReferenceFiles reachable only when the source commit succeeded?
	// (shape: the commit is the condition of an if whose failure branch returns / the clean loop is inside the success branch)
	return sb.String(), nil
}
