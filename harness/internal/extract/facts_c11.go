package extract

import (
	"bytes"
	"fmt"
	"go/ast"
	"go/printer"
	"go/token"
	"sort"
	"strconv"
	"strings"
)

// C11: layout constants of the field write buffer, the shape of the statements the write-buffer
// model mirrors (where `end` is assigned, the argument order of the two Aggregate calls, the
// down-sampling loop), the load order of the sources of a family, and the field-type tables of
// series/field/type.go evaluated from the source.
func init() {
	Register(Fact{Module: "C11", Gen: genC11})
}

func c11Text(e ast.Node) string {
	var b bytes.Buffer
	_ = printer.Fprint(&b, token.NewFileSet(), e)
	return strings.Join(strings.Fields(b.String()), " ")
}

// c11SwitchEval evaluates the tiny language of the table functions of type.go: a body made of
// `switch <ident> { case A, B: ... default: ... }` and `return <expr>` statements, where <expr> is
// an identifier / pkg.Identifier / []T{idents} / a call of another such function in the same file /
// anything else (returned as its source text). env maps the identifiers switched on to constant names.
type c11SwitchEval struct {
	file *ast.File
}

func (se *c11SwitchEval) run(fd *ast.FuncDecl, env map[string]string, depth int) (string, bool) {
	if fd == nil || fd.Body == nil || depth > 4 {
		return "", false
	}
	return se.block(fd.Body.List, env, depth)
}

func (se *c11SwitchEval) block(stmts []ast.Stmt, env map[string]string, depth int) (string, bool) {
	for _, st := range stmts {
		switch x := st.(type) {
		case *ast.ReturnStmt:
			if len(x.Results) != 1 {
				return "", false
			}
			return se.expr(x.Results[0], env, depth)
		case *ast.SwitchStmt:
			tag, ok := x.Tag.(*ast.Ident)
			if !ok {
				return "", false
			}
			val, ok := env[tag.Name]
			if !ok {
				return "", false
			}
			var def *ast.CaseClause
			var hit *ast.CaseClause
			for _, c := range x.Body.List {
				cc := c.(*ast.CaseClause)
				if cc.List == nil {
					def = cc
					continue
				}
				for _, e := range cc.List {
					if c11ConstName(e) == val {
						hit = cc
					}
				}
			}
			if hit == nil {
				hit = def
			}
			if hit != nil {
				if r, ok := se.block(hit.Body, env, depth); ok {
					return r, true
				}
			}
		case *ast.ExprStmt:
			if c, ok := x.X.(*ast.CallExpr); ok {
				if id, ok := c.Fun.(*ast.Ident); ok && id.Name == "panic" {
					return "panic", true
				}
			}
			return "", false
		default:
			return "", false
		}
	}
	return "", false
}

func c11ConstName(e ast.Expr) string {
	switch x := e.(type) {
	case *ast.Ident:
		return x.Name
	case *ast.SelectorExpr:
		return x.Sel.Name
	}
	return c11Text(e)
}

func (se *c11SwitchEval) expr(e ast.Expr, env map[string]string, depth int) (string, bool) {
	switch x := e.(type) {
	case *ast.Ident:
		return x.Name, true
	case *ast.SelectorExpr:
		return x.Sel.Name, true
	case *ast.CompositeLit:
		var parts []string
		for _, el := range x.Elts {
			parts = append(parts, c11ConstName(el))
		}
		return "[" + strings.Join(parts, ",") + "]", true
	case *ast.CallExpr:
		if id, ok := x.Fun.(*ast.Ident); ok {
			if callee := FindFunc(se.file, "", id.Name); callee != nil && callee.Type.Params != nil {
				sub := map[string]string{}
				i := 0
				for _, p := range callee.Type.Params.List {
					for _, n := range p.Names {
						if i < len(x.Args) {
							if a, ok := x.Args[i].(*ast.Ident); ok {
								if v, ok := env[a.Name]; ok {
									sub[n.Name] = v
								}
							}
						}
						i++
					}
				}
				return se.run(callee, sub, depth+1)
			}
		}
	}
	return c11Text(e), true
}

// namedConsts returns the constants of f sorted by value, restricted to names in keep (nil = all).
func c11SortedConsts(cs map[string]int64, keep []string) ([]string, error) {
	for _, k := range keep {
		if _, ok := cs[k]; !ok {
			return nil, fmt.Errorf("constant %s not found", k)
		}
	}
	out := append([]string{}, keep...)
	sort.Slice(out, func(i, j int) bool { return cs[out[i]] < cs[out[j]] })
	return out, nil
}

func c11RecvName(fd *ast.FuncDecl) string {
	if fd.Recv != nil && len(fd.Recv.List) == 1 && len(fd.Recv.List[0].Names) == 1 {
		return fd.Recv.List[0].Names[0].Name
	}
	return ""
}

func c11ParamName(fd *ast.FuncDecl, i int) string {
	k := 0
	for _, p := range fd.Type.Params.List {
		for _, n := range p.Names {
			if k == i {
				return n.Name
			}
			k++
		}
	}
	return ""
}

func genC11(repo string) (string, error) {
	var sb strings.Builder

	// ---- field_writer.go / data_point_buffer.go: layout constants
	_, fw, err := ParseFile(repo, "tsdb/memdb/field_writer.go")
	if err != nil {
		return "", err
	}
	_, dpb, err := ParseFile(repo, "tsdb/memdb/data_point_buffer.go")
	if err != nil {
		return "", err
	}
	cs := ConstInts(fw, dpb)
	for _, n := range []string{"startOffset", "endOffset", "markOffset", "bodyOffset", "headLen", "valueSize", "markContainer", "pageSize"} {
		v, ok := cs[n]
		if !ok {
			return "", fmt.Errorf("constant %s not found in tsdb/memdb", n)
		}
		fmt.Fprintf(&sb, "def %s : Nat := %s\n", n, LeanInt(v))
	}
	// timeWindow(buf) = (len(buf) - headLen) / valueSize with len(buf) = pageSize
	tw := FindFunc(fw, "", "timeWindow")
	if tw == nil || tw.Body == nil || len(tw.Body.List) != 1 {
		return "", fmt.Errorf("timeWindow not found")
	}
	fmt.Fprintf(&sb, "def timeWindowExpr : String := %s\n", strconv.Quote(c11Text(tw.Body.List[0])))

	// ---- write(): where buf[endOffset] is assigned, with the enclosing conditions
	wr := FindFunc(fw, "", "write")
	if wr == nil {
		return "", fmt.Errorf("write not found")
	}
	var endAssigns []string
	var walk func(stmts []ast.Stmt, conds []string)
	walk = func(stmts []ast.Stmt, conds []string) {
		for _, st := range stmts {
			switch x := st.(type) {
			case *ast.AssignStmt:
				if len(x.Lhs) == 1 && c11Text(x.Lhs[0]) == "buf[endOffset]" {
					endAssigns = append(endAssigns, strings.Join(conds, " && ")+" => "+c11Text(x))
				}
			case *ast.IfStmt:
				c := c11Text(x.Cond)
				walk(x.Body.List, append(append([]string{}, conds...), c))
				if x.Else != nil {
					if b, ok := x.Else.(*ast.BlockStmt); ok {
						walk(b.List, append(append([]string{}, conds...), "!("+c+")"))
					} else if ei, ok := x.Else.(*ast.IfStmt); ok {
						walk([]ast.Stmt{ei}, append(append([]string{}, conds...), "!("+c+")"))
					}
				}
			case *ast.BlockStmt:
				walk(x.List, conds)
			}
		}
	}
	walk(wr.Body.List, nil)
	sb.WriteString("def writeEndAssignments : List String := " + LeanStrList(endAssigns) + "\n")
	sb.WriteString("def writeCalls : List String := " + LeanStrList(c11CallSeq(wr)) + "\n")

	// ---- argument order of the Aggregate calls in write() and merge()
	aggArgs := func(fd *ast.FuncDecl) []string {
		var out []string
		ast.Inspect(fd, func(n ast.Node) bool {
			if c, ok := n.(*ast.CallExpr); ok {
				if s, ok := c.Fun.(*ast.SelectorExpr); ok && s.Sel.Name == "Aggregate" {
					var as []string
					for _, a := range c.Args {
						as = append(as, c11Text(a))
					}
					out = append(out, strings.Join(as, ","))
				}
			}
			return true
		})
		return out
	}
	mg := FindFunc(fw, "", "merge")
	if mg == nil {
		return "", fmt.Errorf("merge not found")
	}
	sb.WriteString("def writeAggregateArgs : List String := " + LeanStrList(aggArgs(wr)) + "\n")
	sb.WriteString("def mergeAggregateArgs : List String := " + LeanStrList(aggArgs(mg)) + "\n")
	gcv := FindFunc(fw, "", "getCurrentValue")
	if gcv == nil || len(gcv.Body.List) == 0 {
		return "", fmt.Errorf("getCurrentValue not found")
	}
	if ifs, ok := gcv.Body.List[0].(*ast.IfStmt); ok {
		sb.WriteString("def getCurrentValueGuard : String := " + strconv.Quote(c11Text(ifs.Cond)) + "\n")
	} else {
		return "", fmt.Errorf("getCurrentValue does not start with its range guard")
	}
	sb.WriteString("def compactCalls : List String := " + LeanStrList(c11CallSeq(FindFunc(fw, "", "compact"))) + "\n")

	// ---- memdb: created time, Load order, family filter order
	_, dbf, err := ParseFile(repo, "tsdb/memdb/database.go")
	if err != nil {
		return "", err
	}
	created := ""
	ast.Inspect(FindFunc(dbf, "", "NewMemoryDatabase"), func(n ast.Node) bool {
		if kv, ok := n.(*ast.KeyValueExpr); ok && c11Text(kv.Key) == "createdTime" {
			created = c11Text(kv.Value)
		}
		return true
	})
	sb.WriteString("def memdbCreatedTimeExpr : String := " + strconv.Quote(created) + "\n")
	// metric block layout (tsdb/tblstore/metricsdata/flusher.go): the statements of the high-key
	// branch of FlushSeries in source order, the deferred re-base of Level4, and the bases the
	// offsets are taken against
	_, flf, err := ParseFile(repo, "tsdb/tblstore/metricsdata/flusher.go")
	if err != nil {
		return "", err
	}
	var hkStmts, deferStmts []string
	rebase := false
	if fs := FindFunc(flf, "flusher", "FlushSeries"); fs != nil && fs.Body != nil {
		for _, st := range fs.Body.List {
			switch x := st.(type) {
			case *ast.DeferStmt:
				if fl, ok := x.Call.Fun.(*ast.FuncLit); ok {
					for _, d := range fl.Body.List {
						deferStmts = append(deferStmts, c11Text(d))
					}
				}
			case *ast.IfStmt:
				if c11Text(x.Cond) != "highKey != w.Level3.highKey" {
					continue
				}
				footerSeen := false
				for _, b := range x.Body.List {
					t := c11Text(b)
					if ifs, ok := b.(*ast.IfStmt); ok && ifs.Init != nil {
						t = c11Text(ifs.Init) // `if err := w.flushLevel2SeriesBucket(); err != nil {return err}`
					}
					hkStmts = append(hkStmts, t)
					if strings.Contains(t, "flushLevel2SeriesBucket()") {
						footerSeen = true
					}
					if footerSeen && t == "w.Level4.startAt = int(w.kvWriter.Size())" {
						rebase = true
					}
				}
			}
		}
	}
	sb.WriteString("def flushSeriesHighKeyBranch : List String := " + LeanStrList(hkStmts) + "\n")
	sb.WriteString("def flushSeriesDeferred : List String := " + LeanStrList(deferStmts) + "\n")
	sb.WriteString("def rebaseLevel4AfterBucketFooter : Bool := " + strconv.FormatBool(rebase) + "\n")
	var bases []string
	for _, fn := range []string{"flushField", "FlushSeries", "flushLevel2SeriesBucket"} {
		ast.Inspect(FindFunc(flf, "flusher", fn), func(n ast.Node) bool {
			if be, ok := n.(*ast.BinaryExpr); ok && be.Op == token.SUB && strings.Contains(c11Text(be.X), "kvWriter.Size()") {
				bases = append(bases, fn+": "+c11Text(be))
			}
			return true
		})
	}
	sb.WriteString("def flusherOffsetBases : List String := " + LeanStrList(bases) + "\n")
	_, tsi, err := ParseFile(repo, "tsdb/memdb/time_series_index.go")
	if err != nil {
		return "", err
	}
	sb.WriteString("def indexLoadCalls : List String := " + LeanStrList(c11CallSeq(FindFunc(tsi, "timeSeriesIndex", "Load"))) + "\n")
	_, idb, err := ParseFile(repo, "tsdb/memdb/index_database.go")
	if err != nil {
		return "", err
	}
	sb.WriteString("def indexCleanupCalls : List String := " + LeanStrList(c11CallSeq(FindFunc(idb, "indexDatabase", "Cleanup"))) + "\n")
	_, df, err := ParseFile(repo, "tsdb/data_family.go")
	if err != nil {
		return "", err
	}
	sb.WriteString("def familyFilterCalls : List String := " + LeanStrList(c11CallSeq(FindFunc(df, "dataFamily", "Filter"))) + "\n")
	sb.WriteString("def familyMemoryFilterCalls : List String := " + LeanStrList(c11CallSeq(FindFunc(df, "dataFamily", "memoryFilter"))) + "\n")

	// ---- aggregation: the down-sampling loop and AggregateBySlot
	_, ds, err := ParseFile(repo, "aggregation/down_sampling_agg.go")
	if err != nil {
		return "", err
	}
	dsf := FindFunc(ds, "", "DownSampling")
	if dsf == nil {
		return "", fmt.Errorf("DownSampling not found")
	}
	var loop []string
	ast.Inspect(dsf, func(n ast.Node) bool {
		if f, ok := n.(*ast.ForStmt); ok && loop == nil {
			loop = append(loop, "for "+c11Text(f.Init)+"; "+c11Text(f.Cond)+"; "+c11Text(f.Post))
			for _, st := range f.Body.List {
				loop = append(loop, c11Text(st))
			}
			return false
		}
		return true
	})
	sb.WriteString("def downSamplingLoop : List String := " + LeanStrList(loop) + "\n")
	_, fa, err := ParseFile(repo, "aggregation/field_agg.go")
	if err != nil {
		return "", err
	}
	sb.WriteString("def fieldAggregateCalls : List String := " + LeanStrList(c11CallSeq(FindFunc(fa, "fieldAggregator", "Aggregate"))) + "\n")

	// ---- series/field/type.go tables
	_, tf, err := ParseFile(repo, "series/field/type.go")
	if err != nil {
		return "", err
	}
	_, ff, err := ParseFile(repo, "aggregation/function/type.go")
	if err != nil {
		return "", err
	}
	tcs := ConstInts(tf)
	fcs := ConstInts(ff)
	aggNames, err := c11SortedConsts(tcs, []string{"Sum", "Count", "Min", "Max", "Last", "First"})
	if err != nil {
		return "", err
	}
	typeNames, err := c11SortedConsts(tcs, []string{"SumField", "MinField", "MaxField", "LastField", "HistogramField", "FirstField"})
	if err != nil {
		return "", err
	}
	funcNames, err := c11SortedConsts(fcs, []string{"Sum", "Min", "Max", "Count", "Avg", "Last", "First", "Quantile", "Stddev", "Rate"})
	if err != nil {
		return "", err
	}
	codes := func(name string, names []string, m map[string]int64) {
		var ps []string
		for _, n := range names {
			ps = append(ps, fmt.Sprintf("(%s, %d)", strconv.Quote(n), m[n]))
		}
		fmt.Fprintf(&sb, "def %s : List (String × Nat) := [%s]\n", name, strings.Join(ps, ", "))
	}
	codes("aggTypeCodes", aggNames, tcs)
	codes("fieldTypeCodes", typeNames, tcs)
	codes("funcTypeCodes", funcNames, fcs)
	se := &c11SwitchEval{file: tf}
	// AggType.Aggregate: the returned expression per agg type
	aggFn := FindFunc(tf, "AggType", "Aggregate")
	if aggFn == nil {
		return "", fmt.Errorf("AggType.Aggregate not found")
	}
	var ae []string
	for _, a := range aggNames {
		r, ok := se.run(aggFn, map[string]string{c11RecvName(aggFn): a}, 0)
		if !ok {
			return "", fmt.Errorf("cannot evaluate AggType.Aggregate for %s", a)
		}
		ae = append(ae, fmt.Sprintf("(%d, %s)", tcs[a], strconv.Quote(r)))
	}
	fmt.Fprintf(&sb, "def aggregateExprTable : List (Nat × String) := [%s]\n", strings.Join(ae, ", "))
	oneArg := func(leanName, method string, codeOf map[string]int64) error {
		fd := FindFunc(tf, "Type", method)
		if fd == nil {
			return fmt.Errorf("Type.%s not found", method)
		}
		var ps []string
		for _, t := range typeNames {
			r, ok := se.run(fd, map[string]string{c11RecvName(fd): t}, 0)
			if !ok {
				return fmt.Errorf("cannot evaluate Type.%s for %s", method, t)
			}
			c, ok := codeOf[r]
			if !ok {
				return fmt.Errorf("Type.%s(%s) = %s is not a known constant", method, t, r)
			}
			ps = append(ps, fmt.Sprintf("(%d, %d)", tcs[t], c))
		}
		fmt.Fprintf(&sb, "def %s : List (Nat × Nat) := [%s]\n", leanName, strings.Join(ps, ", "))
		return nil
	}
	if err := oneArg("fieldAggTable", "AggType", tcs); err != nil {
		return "", err
	}
	if err := oneArg("downSamplingTable", "DownSamplingFunc", fcs); err != nil {
		return "", err
	}
	sup := FindFunc(tf, "Type", "IsFuncSupported")
	par := FindFunc(tf, "Type", "GetFuncFieldParams")
	if sup == nil || par == nil {
		return "", fmt.Errorf("IsFuncSupported / GetFuncFieldParams not found")
	}
	var sp, pp []string
	for _, t := range typeNames {
		for _, f := range funcNames {
			r, ok := se.run(sup, map[string]string{c11RecvName(sup): t, c11ParamName(sup, 0): f}, 0)
			if !ok || (r != "true" && r != "false") {
				return "", fmt.Errorf("cannot evaluate IsFuncSupported(%s,%s): %q", t, f, r)
			}
			sp = append(sp, fmt.Sprintf("(%d, %d, %s)", tcs[t], fcs[f], r))
			r, ok = se.run(par, map[string]string{c11RecvName(par): t, c11ParamName(par, 0): f}, 0)
			if !ok || !strings.HasPrefix(r, "[") {
				return "", fmt.Errorf("cannot evaluate GetFuncFieldParams(%s,%s): %q", t, f, r)
			}
			var cs []string
			for _, n := range strings.Split(strings.Trim(r, "[]"), ",") {
				c, ok := tcs[n]
				if !ok {
					return "", fmt.Errorf("GetFuncFieldParams(%s,%s): unknown agg type %q", t, f, n)
				}
				cs = append(cs, strconv.FormatInt(c, 10))
			}
			pp = append(pp, fmt.Sprintf("(%d, %d, [%s])", tcs[t], fcs[f], strings.Join(cs, ", ")))
		}
	}
	fmt.Fprintf(&sb, "def funcSupportedTable : List (Nat × Nat × Bool) := [%s]\n", strings.Join(sp, ", "))
	fmt.Fprintf(&sb, "def funcParamsTable : List (Nat × Nat × List Nat) := [%s]\n", strings.Join(pp, ", "))

	// ---- function calls (aggregation/function/functions.go FuncCall): which functions return params[0]
	_, fnf, err := ParseFile(repo, "aggregation/function/functions.go")
	if err != nil {
		return "", err
	}
	fc := FindFunc(fnf, "", "FuncCall")
	if fc == nil {
		return "", fmt.Errorf("FuncCall not found")
	}
	var passthrough []string
	ast.Inspect(fc, func(n ast.Node) bool {
		if cc, ok := n.(*ast.CaseClause); ok && cc.List != nil {
			for _, e := range cc.List {
				passthrough = append(passthrough, strconv.FormatInt(fcs[c11ConstName(e)], 10))
			}
		}
		return true
	})
	fmt.Fprintf(&sb, "def funcCallPassThrough : List Nat := [%s]\n", strings.Join(passthrough, ", "))
	_, rf, err := ParseFile(repo, "aggregation/function/rate.go")
	if err != nil {
		return "", err
	}
	rate := ""
	ast.Inspect(FindFunc(rf, "", "RateCall"), func(n ast.Node) bool {
		if c, ok := n.(*ast.CallExpr); ok {
			if s, ok := c.Fun.(*ast.SelectorExpr); ok && s.Sel.Name == "SetValue" && len(c.Args) == 2 {
				rate = c11Text(c.Args[1])
			}
		}
		return true
	})
	sb.WriteString("def rateValueExpr : String := " + strconv.Quote(rate) + "\n")
	// ---- the expression layer: binaryEval's three point cases, eval's division, expression.eval's
	// dispatch, the default agg type of a field without function, RateCall's nil guard
	_, bf, err := ParseFile(repo, "aggregation/binary.go")
	if err != nil {
		return "", err
	}
	be := FindFunc(bf, "", "binaryEval")
	if be == nil {
		return "", fmt.Errorf("binaryEval not found")
	}
	var beCases, beGuards []string
	ast.Inspect(be, func(n ast.Node) bool {
		switch x := n.(type) {
		case *ast.CaseClause:
			var cond []string
			for _, e := range x.List {
				cond = append(cond, c11Text(e))
			}
			var body []string
			for _, st := range x.Body {
				body = append(body, c11Text(st))
			}
			beCases = append(beCases, strings.Join(cond, ",")+" => "+strings.Join(body, " ; "))
		case *ast.IfStmt:
			var body []string
			for _, st := range x.Body.List {
				body = append(body, c11Text(st))
			}
			beGuards = append(beGuards, c11Text(x.Cond)+" => "+strings.Join(body, " ; "))
		}
		return true
	})
	sb.WriteString("def binaryEvalPointCases : List String := " + LeanStrList(beCases) + "\n")
	sb.WriteString("def binaryEvalGuards : List String := " + LeanStrList(beGuards) + "\n")
	var evCases []string
	ast.Inspect(FindFunc(bf, "", "eval"), func(n ast.Node) bool {
		if x, ok := n.(*ast.CaseClause); ok {
			var cond, body []string
			for _, e := range x.List {
				cond = append(cond, c11Text(e))
			}
			for _, st := range x.Body {
				body = append(body, c11Text(st))
			}
			evCases = append(evCases, strings.Join(cond, ",")+" => "+strings.Join(body, " ; "))
		}
		return true
	})
	sb.WriteString("def binaryOpCases : List String := " + LeanStrList(evCases) + "\n")
	_, ef, err := ParseFile(repo, "aggregation/expression.go")
	if err != nil {
		return "", err
	}
	var exCases, exBodies []string
	if fd := FindFunc(ef, "expression", "eval"); fd != nil {
		for _, st := range fd.Body.List {
			ts, ok := st.(*ast.TypeSwitchStmt)
			if !ok {
				continue
			}
			for _, cl := range ts.Body.List {
				cc := cl.(*ast.CaseClause)
				var cond []string
				for _, e := range cc.List {
					cond = append(cond, c11Text(e))
				}
				first := ""
				if len(cc.Body) > 0 {
					first = c11Text(cc.Body[0])
					if len(first) > 60 {
						first = first[:60]
					}
				}
				exCases = append(exCases, strings.Join(cond, ","))
				exBodies = append(exBodies, first)
			}
		}
	}
	sb.WriteString("def expressionEvalCases : List String := " + LeanStrList(exCases) + "\n")
	sb.WriteString("def expressionEvalBodies : List String := " + LeanStrList(exBodies) + "\n")
	sb.WriteString("def expressionFuncCallCalls : List String := " + LeanStrList(c11CallSeq(FindFunc(ef, "expression", "funcCall"))) + "\n")
	sb.WriteString("def expressionBinaryEvalCalls : List String := " + LeanStrList(c11CallSeq(FindFunc(ef, "expression", "binaryEval"))) + "\n")
	dfp := FindFunc(tf, "Type", "GetDefaultFuncFieldParams")
	if dfp == nil {
		return "", fmt.Errorf("GetDefaultFuncFieldParams not found")
	}
	var dp []string
	for _, t := range typeNames {
		r, ok := se.run(dfp, map[string]string{c11RecvName(dfp): t}, 0)
		if !ok || !strings.HasPrefix(r, "[") {
			return "", fmt.Errorf("cannot evaluate GetDefaultFuncFieldParams(%s): %q", t, r)
		}
		var cs []string
		for _, n := range strings.Split(strings.Trim(r, "[]"), ",") {
			c, ok := tcs[n]
			if !ok {
				return "", fmt.Errorf("GetDefaultFuncFieldParams(%s): unknown agg type %q", t, n)
			}
			cs = append(cs, strconv.FormatInt(c, 10))
		}
		dp = append(dp, fmt.Sprintf("(%d, [%s])", tcs[t], strings.Join(cs, ", ")))
	}
	fmt.Fprintf(&sb, "def defaultParamsTable : List (Nat × List Nat) := [%s]\n", strings.Join(dp, ", "))
	rateNilGuard := false
	ast.Inspect(FindFunc(rf, "", "RateCall"), func(n ast.Node) bool {
		if is, ok := n.(*ast.IfStmt); ok && strings.Contains(c11Text(is.Cond), "params[0] == nil") {
			rateNilGuard = true
		}
		return true
	})
	fmt.Fprintf(&sb, "def fixRateNilGuard : Bool := %v\n", rateNilGuard)
	// ---- the data load operator: the pending-load counter is decremented on every return path
	_, dlf, err := ParseFile(repo, "query/operator/data_load.go")
	if err != nil {
		return "", err
	}
	dlFirst := ""
	var dlRest []string
	if fd := FindFunc(dlf, "dataLoad", "Execute"); fd != nil && fd.Body != nil {
		for i, st := range fd.Body.List {
			if i == 0 {
				dlFirst = c11Text(st)
			} else if strings.Contains(c11Text(st), "PendingDataLoadTasks") {
				dlRest = append(dlRest, c11Text(st))
			}
		}
	}
	sb.WriteString("def dataLoadFirstStmt : String := " + strconv.Quote(dlFirst) + "\n")
	sb.WriteString("def dataLoadOtherPendingStmts : List String := " + LeanStrList(dlRest) + "\n")
	// ---- the pending-load protocol around it (round 9): who adds, who decrements, who tests
	deferredDec := dlFirst == "defer op.executeCtx.PendingDataLoadTasks.Dec()" && len(dlRest) == 0
	fmt.Fprintf(&sb, "def dataLoadDecDeferred : Bool := %v\n", deferredDec)
	var dlReturns []string // the return statements of dataLoad.Execute with the condition they sit under
	if fd := FindFunc(dlf, "dataLoad", "Execute"); fd != nil && fd.Body != nil {
		for _, st := range fd.Body.List {
			switch x := st.(type) {
			case *ast.IfStmt:
				for _, b := range x.Body.List {
					if _, ok := b.(*ast.ReturnStmt); ok {
						dlReturns = append(dlReturns, "if "+c11Text(x.Cond)+" => "+c11Text(b))
					}
				}
			case *ast.ReturnStmt:
				dlReturns = append(dlReturns, c11Text(x))
			}
		}
	}
	sb.WriteString("def dataLoadReturns : List String := " + LeanStrList(dlReturns) + "\n")
	_, lrf, err := ParseFile(repo, "query/operator/leaf_reduce.go")
	if err != nil {
		return "", err
	}
	lrGuard := ""
	var lrBody, lrRest []string
	if fd := FindFunc(lrf, "leafReduce", "Execute"); fd != nil && fd.Body != nil {
		for i, st := range fd.Body.List {
			if is, ok := st.(*ast.IfStmt); ok && i == 0 {
				lrGuard = c11Text(is.Cond)
				for _, b := range is.Body.List {
					lrBody = append(lrBody, c11Text(b))
				}
				if is.Else != nil {
					lrRest = append(lrRest, "else")
				}
			} else {
				lrRest = append(lrRest, c11Text(st))
			}
		}
	}
	sb.WriteString("def leafReduceGuard : String := " + strconv.Quote(lrGuard) + "\n")
	sb.WriteString("def leafReduceGuarded : List String := " + LeanStrList(lrBody) + "\n")
	sb.WriteString("def leafReduceRest : List String := " + LeanStrList(lrRest) + "\n")
	_, gsf, err := ParseFile(repo, "query/stage/grouping_stage.go")
	if err != nil {
		return "", err
	}
	var gsLoop []string
	if fd := FindFunc(gsf, "groupingStage", "NextStages"); fd != nil && fd.Body != nil {
		for _, st := range fd.Body.List {
			if rs, ok := st.(*ast.RangeStmt); ok {
				gsLoop = append(gsLoop, "for "+c11Text(rs.Key)+" := range "+c11Text(rs.X))
				for _, b := range rs.Body.List {
					gsLoop = append(gsLoop, c11Text(b))
				}
			}
		}
	}
	sb.WriteString("def groupingNextStagesLoop : List String := " + LeanStrList(gsLoop) + "\n")
	_, dlsf, err := ParseFile(repo, "query/stage/data_load_stage.go")
	if err != nil {
		return "", err
	}
	var planKids []string // the AddChild statements of dataLoadStage.Plan, in order, with their loop
	if fd := FindFunc(dlsf, "dataLoadStage", "Plan"); fd != nil && fd.Body != nil {
		for _, st := range fd.Body.List {
			switch x := st.(type) {
			case *ast.RangeStmt:
				for _, b := range x.Body.List {
					if t := c11Text(b); strings.Contains(t, "AddChild") {
						planKids = append(planKids, "for "+c11Text(x.Key)+" := range "+c11Text(x.X)+" => "+c11OneLine(t))
					}
				}
			default:
				if t := c11Text(st); strings.Contains(t, "AddChild") {
					planKids = append(planKids, c11OneLine(t))
				}
			}
		}
	}
	sb.WriteString("def dataLoadStagePlanChildren : List String := " + LeanStrList(planKids) + "\n")
	// ---- fault paths (round 9): dataFamily.Flush keeps the immutable memory database when the flush
	// failed; fileFilter hands a reader's open / filter error to the query
	var flushTail []string // statements of Flush from the flushMemoryDatabase call to the reset, one line each
	if fd := FindFunc(df, "dataFamily", "Flush"); fd != nil {
		ast.Inspect(fd, func(n ast.Node) bool {
			bs, ok := n.(*ast.BlockStmt)
			if !ok {
				return true
			}
			at := -1
			for i, st := range bs.List {
				t := c11Text(st)
				if strings.HasPrefix(t, "if err := f.flushMemoryDatabase(") || strings.HasPrefix(t, "err := f.flushMemoryDatabase(") ||
					strings.HasPrefix(t, "err = f.flushMemoryDatabase(") || strings.HasPrefix(t, "_ = f.flushMemoryDatabase(") ||
					strings.HasPrefix(t, "f.flushMemoryDatabase(") {
					at = i
					break
				}
			}
			if at < 0 {
				return true
			}
			for _, st := range bs.List[at:] {
				t := c11Text(st)
				if strings.Contains(t, "flushMemoryDatabase") || strings.Contains(t, "immutableMemDB") || strings.Contains(t, "return") {
					flushTail = append(flushTail, t)
				}
			}
			return false
		})
	}
	sb.WriteString("def familyFlushAfterWrite : List String := " + LeanStrList(flushTail) + "\n")
	flushGuard := ""
	if fd := FindFunc(df, "dataFamily", "Flush"); fd != nil {
		ast.Inspect(fd, func(n ast.Node) bool {
			if is, ok := n.(*ast.IfStmt); ok && flushGuard == "" && strings.Contains(c11Text(is.Cond), "f.immutableMemDB != nil") {
				flushGuard = c11Text(is.Cond)
			}
			return true
		})
	}
	sb.WriteString("def familyFlushSkipGuard : String := " + strconv.Quote(flushGuard) + "\n")
	var ffErr []string // every `if err...` of fileFilter with what its body does first / last
	if fd := FindFunc(df, "dataFamily", "fileFilter"); fd != nil {
		ast.Inspect(fd.Body, func(n ast.Node) bool {
			if _, ok := n.(*ast.FuncLit); ok {
				return false
			}
			if is, ok := n.(*ast.IfStmt); ok && strings.Contains(c11Text(is.Cond), "err") && len(is.Body.List) > 0 {
				ffErr = append(ffErr, "if "+c11Text(is.Cond)+" => "+c11Text(is.Body.List[len(is.Body.List)-1]))
			}
			return true
		})
		if n := len(fd.Body.List); n > 0 {
			ffErr = append(ffErr, c11Text(fd.Body.List[n-1]))
		}
	}
	sb.WriteString("def familyFileFilterErrPaths : List String := " + LeanStrList(ffErr) + "\n")
	// ---- month calculator: CalcFamily ignores the segment time
	_, ic, err := ParseFile(repo, "pkg/timeutil/interval_calculator.go")
	if err != nil {
		return "", err
	}
	mcf := FindFunc(ic, "month", "CalcFamily")
	if mcf == nil {
		return "", fmt.Errorf("month.CalcFamily not found")
	}
	var mb []string
	for _, st := range mcf.Body.List {
		mb = append(mb, c11Text(st))
	}
	sb.WriteString("def monthCalcFamilyBody : List String := " + LeanStrList(mb) + "\n")
	_, sg, err := ParseFile(repo, "tsdb/segment.go")
	if err != nil {
		return "", err
	}
	sb.WriteString("def segmentGetDataFamiliesCalls : List String := " + LeanStrList(c11CallSeq(FindFunc(sg, "segment", "GetDataFamilies"))) + "\n")
	_, rd, err := ParseFile(repo, "tsdb/tblstore/metricsdata/reader.go")
	if err != nil {
		return "", err
	}
	rsd := FindFunc(rd, "metricReader", "readSeriesData")
	single := ""
	ast.Inspect(rsd, func(n ast.Node) bool {
		if is, ok := n.(*ast.IfStmt); ok && single == "" && c11Text(is.Cond) == "fieldCount == 1" {
			var parts []string
			for _, st := range is.Body.List {
				parts = append(parts, c11Text(st))
			}
			single = strings.Join(parts, " ; ")
		}
		return true
	})
	sb.WriteString("def readSeriesDataSingleField : String := " + strconv.Quote(single) + "\n")
	fileFilterCalls := c11CallSeq(FindFunc(df, "dataFamily", "fileFilter"))
	sb.WriteString("def familyFileFilterCalls : List String := " + LeanStrList(fileFilterCalls) + "\n")

	// ---- which variant of the repaired statements the source has (selects the model variant)
	has := func(xs []string, sub string) bool {
		for _, x := range xs {
			if strings.Contains(x, sub) {
				return true
			}
		}
		return false
	}
	flag := func(name string, v bool) {
		fmt.Fprintf(&sb, "def %s : Bool := %v\n", name, v)
	}
	// write(): the assignment of buf[endOffset] is guarded by "delta > end"
	flag("fixEndGuard", len(endAssigns) == 1 && strings.Contains(endAssigns[0], "byte(delta) > buf[endOffset] =>"))
	// merge(): Aggregate(oldValue, newValue)
	mArgs := aggArgs(mg)
	flag("fixMergeOldFirst", len(mArgs) == 1 && mArgs[0] == "oldValue,newValue")
	// NewMemoryDatabase: created time from the process-unique generator
	flag("fixUniqueCreated", created == "nextCreatedTime()" && FindFunc(dbf, "", "nextCreatedTime") != nil)
	// dataFamily.memoryFilter / fileFilter ignore a source's not-found
	flag("fixNotFoundIgnored", has(c11CallSeq(FindFunc(df, "dataFamily", "memoryFilter")), "errors.Is") && has(fileFilterCalls, "errors.Is"))
	// readSeriesData: the one-field fast path maps by query field index
	flag("fixSingleFieldByIndex", single != "" && !strings.Contains(single, "seriesIdx, 0,") && strings.Contains(single, "seriesIdx, queryIdx,"))
	// fieldAggregator.Aggregate: by the primitive series' own agg type
	flag("fixAggregateByType", has(c11CallSeq(FindFunc(fa, "fieldAggregator", "Aggregate")), "aggregateBySlotOfType") && has(c11CallSeq(FindFunc(fa, "fieldAggregator", "Aggregate")), "pIt.AggType"))
	// segment.GetDataFamilies: family range from CalcFamilyTime of the query start/end
	sgc := c11CallSeq(FindFunc(sg, "segment", "GetDataFamilies"))
	flag("fixMonthFamilyTime", has(sgc, "calc.CalcFamilyTime") && !has(sgc, "calc.CalcFamilyStartTime"))
	// ---- round 12: flow.DataLoadContext.Grouping / IterateLowSeriesIDs (query series -> storage
	// positions), statement by statement
	_, fcf, err := ParseFile(repo, "flow/context.go")
	if err != nil {
		return "", err
	}
	var itStmts, grStmts []string
	if fd := FindFunc(fcf, "DataLoadContext", "IterateLowSeriesIDs"); fd != nil && fd.Body != nil {
		itStmts = c11FlatStmts(fd.Body.List)
	}
	if fd := FindFunc(fcf, "DataLoadContext", "Grouping"); fd != nil && fd.Body != nil {
		grStmts = c11FlatStmts(fd.Body.List)
	}
	sb.WriteString("def iterateLowSeriesIDsStmts : List String := " + LeanStrList(itStmts) + "\n")
	sb.WriteString("def dataLoadGroupingStmts : List String := " + LeanStrList(grStmts) + "\n")
	// the callers: which position the callback's second argument indexes
	var itUses []string
	for _, src := range [][3]string{
		{"tsdb/memdb/time_series_index.go", "timeSeriesIndex", "Load"},
		{"tsdb/tblstore/metricsdata/metric_data_loader.go", "metricLoader", "Load"},
	} {
		_, f, err := ParseFile(repo, src[0])
		if err != nil {
			return "", err
		}
		if fd := FindFunc(f, src[1], src[2]); fd != nil && fd.Body != nil {
			ast.Inspect(fd.Body, func(n ast.Node) bool {
				if ix, ok := n.(*ast.IndexExpr); ok && strings.Contains(c11Text(ix.Index), "seriesIdxFromStorage") {
					itUses = append(itUses, src[1]+"."+src[2]+": "+c11OneLine(c11Text(ix)))
				}
				if ce, ok := n.(*ast.CallExpr); ok && len(ce.Args) > 0 && c11Text(ce.Args[0]) == "seriesIdxFromStorage" {
					itUses = append(itUses, src[1]+"."+src[2]+": "+c11OneLine(c11Text(ce)))
				}
				return true
			})
		}
	}
	sb.WriteString("def iterateStoragePositionUses : List String := " + LeanStrList(itUses) + "\n")
	// ---- round 12: a released write buffer still hands out its pages (a query that picked the memory
	// database before a flush closed it reads them afterwards)
	_, dpf, err := ParseFile(repo, "tsdb/memdb/data_point_buffer.go")
	if err != nil {
		return "", err
	}
	var gpStmts, relStmts []string
	if fd := FindFunc(dpf, "dataPointBuffer", "GetPage"); fd != nil && fd.Body != nil {
		gpStmts = c11FlatStmts(fd.Body.List)
	}
	if fd := FindFunc(dpf, "dataPointBuffer", "Release"); fd != nil && fd.Body != nil {
		relStmts = c11FlatStmts(fd.Body.List)
	}
	keeps := len(gpStmts) > 0
	for _, st := range gpStmts {
		if strings.Contains(st, "dirty") || strings.Contains(st, "IsDirty") {
			keeps = false
		}
	}
	sb.WriteString("def getPageStmts : List String := " + LeanStrList(gpStmts) + "\n")
	sb.WriteString("def bufferReleaseStmts : List String := " + LeanStrList(relStmts) + "\n")
	fmt.Fprintf(&sb, "def releasedBufferKeepsPages : Bool := %v\n", keeps)
	_, mdf, err := ParseFile(repo, "tsdb/memdb/database.go")
	if err != nil {
		return "", err
	}
	var closeCalls []string
	if fd := FindFunc(mdf, "memoryDatabase", "Close"); fd != nil {
		closeCalls = c11CallSeq(fd)
	}
	sb.WriteString("def memdbCloseCalls : List String := " + LeanStrList(closeCalls) + "\n")
	return sb.String(), nil
}

// c11FlatStmts lists the statements of a body in source order, one line each; an if / for / range
// statement contributes its header, its body's statements and a closing brace (else branches too).
func c11FlatStmts(list []ast.Stmt) []string {
	var out []string
	for _, st := range list {
		switch x := st.(type) {
		case *ast.IfStmt:
			out = append(out, "if "+c11OneLine(c11Text(x.Cond))+" {")
			out = append(out, c11FlatStmts(x.Body.List)...)
			if x.Else != nil {
				out = append(out, "} else {")
				if b, ok := x.Else.(*ast.BlockStmt); ok {
					out = append(out, c11FlatStmts(b.List)...)
				} else {
					out = append(out, c11FlatStmts([]ast.Stmt{x.Else})...)
				}
			}
			out = append(out, "}")
		case *ast.ForStmt:
			h := "for "
			if x.Init != nil {
				h += c11OneLine(c11Text(x.Init)) + "; "
			}
			if x.Cond != nil {
				h += c11OneLine(c11Text(x.Cond))
			}
			if x.Post != nil {
				h += "; " + c11OneLine(c11Text(x.Post))
			}
			out = append(out, h+" {")
			out = append(out, c11FlatStmts(x.Body.List)...)
			out = append(out, "}")
		case *ast.RangeStmt:
			out = append(out, "range "+c11OneLine(c11Text(x.X))+" {")
			out = append(out, c11FlatStmts(x.Body.List)...)
			out = append(out, "}")
		case *ast.ExprStmt:
			if strings.HasPrefix(c11Text(x), "verifhook.Yield") {
				continue
			}
			out = append(out, c11OneLine(c11Text(st)))
		default:
			out = append(out, c11OneLine(c11Text(st)))
		}
	}
	return out
}

// c11OneLine joins a multi-line statement text into one line.
func c11OneLine(t string) string {
	return strings.Join(strings.Fields(t), " ")
}

// c11CallSeq is CallSeq without the verification yield points (instrumentation, no-ops without
// the build tag verif).
func c11CallSeq(fn *ast.FuncDecl) []string {
	var out []string
	for _, c := range CallSeq(fn) {
		if strings.HasSuffix(c, "verifhook.Yield") {
			continue
		}
		out = append(out, c)
	}
	return out
}
